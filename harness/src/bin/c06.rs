//! C06 — deadlines and retries (sequential clauses): retry policies None / Count(0..3) / Forever
//! (bounded observation), every subset of transmissions lost, the virtual clock placed just before /
//! exactly at / after every deadline, polls at every position relative to TX claim / send / receive,
//! drops of the future in every slot state, a second request competing for the slot; plus random
//! retry-heavy histories. Every op line is replayed on the Lean model (`drv_seq`); the monitors below
//! look only at what the real code did (results, bytes given to the send closure, slot states read
//! through the inspector hook).
use ecverif::rng::Rng;
use ecverif::seq::H;
use ecverif::seqgen::{Gen, Knobs, dgrams, response_for};
use ecverif::util::{Report, hex, unhex};
use std::collections::BTreeMap;

const FOREVER: u64 = u64::MAX; // RetryBehaviour::Forever => usize::MAX

fn states(g: &Gen) -> Vec<u8> {
    (0..g.w.n).map(|i| g.w.slot(i).0).collect()
}

#[derive(Clone, Debug)]
struct Req {
    slot: usize,
    retries: u64,
    alive: bool,
    /// bytes of every complete transmission of this request's slot while it was alive
    sends: Vec<Vec<u8>>,
    /// a response was accepted into the slot since its last complete transmission
    delivered: bool,
    /// a SendableFrame of an earlier request was still outstanding on the slot at mark time
    stale_at_mark: bool,
    /// a poll changed the slot from Sending to Sendable (a retry revoking the TX side's claim: the
    /// code before fix b5bf0e20 did that; two SendableFrames for one slot could then exist)
    tx_late: bool,
}

#[derive(Default)]
struct Obs {
    created: BTreeMap<u32, usize>,
    reqs: BTreeMap<u32, Req>,
    tx: BTreeMap<u32, usize>,
    /// the schedule guarantees the TX side services every Sendable frame before the next deadline
    serviced: bool,
    timeouts: u64,
    oks: u64,
}

impl Obs {
    fn op(&mut self, g: &mut Gen, op: String, rep: &mut Report) -> String {
        let before = states(g);
        let out = g.op(op.clone());
        let after = states(g);
        self.check(g, &op, &out, &before, &after, rep);
        out
    }

    fn random_step(&mut self, g: &mut Gen, rep: &mut Report) {
        let before = states(g);
        let k = g.ops.len();
        if !g.random_step() {
            return;
        }
        let after = states(g);
        let (op, out) = (g.ops[k].clone(), g.outs[k].clone());
        self.check(g, &op, &out, &before, &after, rep);
    }

    fn check(&mut self, g: &Gen, op: &str, out: &str, before: &[u8], after: &[u8], rep: &mut Report) {
        let f: Vec<&str> = op.split(',').collect();
        let reg: Option<u32> = f.get(1).and_then(|s| s.parse().ok());
        if out.starts_with("panic") {
            rep.fail("c06/panic", "an API operation panicked", &g.line());
        }
        if f[0] == "po" && g.w.tx.is_some() {
            // a poll that re-queued a frame for retransmission (Sent -> Sendable) must wake the transmit side,
            // or the retransmission waits for some unrelated wake-up
            for s in 0..before.len() {
                if before[s] == 4 && after[s] == 2 && !g.w.tx_woken.0.load(std::sync::atomic::Ordering::SeqCst) {
                    rep.fail("c06/retry-without-wake", &format!("slot {s} was re-queued for retransmission but the TX waker was not woken"), &g.line());
                }
            }
        }
        match f[0] {
            "al" => {
                if let Some(s) = out.strip_prefix("ok.") {
                    self.created.insert(reg.unwrap(), s.parse().unwrap());
                }
            }
            "dc" => {
                self.created.remove(&reg.unwrap());
            }
            "mk" => {
                if out == "ok" {
                    if let Some(slot) = self.created.remove(&reg.unwrap()) {
                        let stale = self.tx.values().any(|s| *s == slot);
                        if stale {
                            rep.hit("mark:stale-tx-handle");
                        }
                        self.reqs.insert(reg.unwrap(), Req {
                            slot,
                            retries: f[2].parse().unwrap(),
                            alive: true,
                            sends: vec![],
                            delivered: false,
                            stale_at_mark: stale,
                            tx_late: false,
                        });
                    }
                }
            }
            "tn" => {
                if let Some(s) = out.strip_prefix("some.") {
                    let s: usize = s.parse().unwrap();
                    self.tx.insert(reg.unwrap(), s);
                    if before[s] != 2 || after[s] != 3 {
                        rep.fail("c06/claim-not-sendable", "TX claimed a slot that was not Sendable", &g.line());
                    }
                } else if before.iter().any(|s| *s == 2) {
                    rep.fail("c06/tx-starved", "next_sendable_frame returned None although a slot was Sendable", &g.line());
                }
            }
            "ts" => {
                if let Some(s) = self.tx.remove(&reg.unwrap()) {
                    rep.hit(&format!("send@{}:{}", before[s], out.split('.').next().unwrap_or("")));
                    if let Some(h) = out.strip_prefix("ok.") {
                        let bytes = unhex(h);
                        for q in self.reqs.values_mut().filter(|q| q.alive && q.slot == s) {
                            q.sends.push(bytes.clone());
                            if before[s] == 3 {
                                q.delivered = false;
                            }
                            if q.sends[0] != bytes {
                                if q.stale_at_mark {
                                    // a SendableFrame left over from an earlier, abandoned request on this
                                    // slot: the C06 concurrency window, not this request's retransmission
                                    rep.hit("outside-assumption:retransmission-differs");
                                } else {
                                    rep.fail("c06/retransmission-differs", "a retransmission is not byte-identical to the first transmission", &g.line());
                                }
                            }
                        }
                        if before[s] == 3 && after[s] != 4 {
                            rep.fail("c06/sent-not-marked", "complete send from Sending did not leave the slot Sent", &g.line());
                        }
                    }
                    if before[s] != 3 && after[s] != before[s] {
                        rep.fail("c06/stale-send-changed-slot", "a send whose claim was gone changed the slot state", &g.line());
                    }
                }
            }
            "rx" => {
                if out == "processed" {
                    for s in 0..before.len() {
                        if before[s] == 4 && after[s] == 6 {
                            for q in self.reqs.values_mut().filter(|q| q.alive && q.slot == s) {
                                q.delivered = true;
                            }
                        }
                    }
                }
            }
            "po" => {
                let r = reg.unwrap();
                if let Some(q) = self.reqs.get_mut(&r) {
                    let s = q.slot;
                    rep.hit(&format!("poll@{}:{}", before[s], out));
                    if before[s] == 6 && out != "ready.ok" {
                        rep.fail("c06/response-lost-to-deadline", "response was received before the poll but the poll did not return Ok", &g.line());
                    }
                    match out {
                        "pending" => {
                            if before[s] != after[s] && !(before[s] == 4 && after[s] == 2) {
                                q.tx_late = true;
                                rep.fail("c06/retry-clobbered-state", &format!("a pending poll moved the slot from state {} to {}", before[s], after[s]), &g.line());
                            }
                            if before[s] == 4 && after[s] == 2 {
                                rep.hit("retry:requeued");
                            }
                        }
                        "ready.ok" => {
                            self.oks += 1;
                            q.alive = false;
                            if !q.delivered {
                                rep.fail("c06/success-without-response", "poll returned Ok although no response was delivered since the last transmission", &g.line());
                            }
                        }
                        "ready.err.timeout" => {
                            self.timeouts += 1;
                            q.alive = false;
                            if after[s] != 0 {
                                rep.fail("c06/timeout-not-released", "timed-out request kept its slot", &g.line());
                            }
                            let want = q.retries.saturating_add(1);
                            let got = q.sends.len() as u64;
                            if self.serviced && !q.stale_at_mark && !q.tx_late && got != want {
                                rep.fail("c06/transmission-count", &format!("timeout after {got} transmissions, configured 1 + {}", q.retries), &g.line());
                            }
                            if !q.stale_at_mark && !q.tx_late && got > want {
                                rep.fail("c06/too-many-transmissions", &format!("{got} transmissions with {} retries configured", q.retries), &g.line());
                            }
                            rep.hit(&format!("timeout:tx={}", got.min(9)));
                        }
                        other => {
                            q.alive = false;
                            rep.fail("c06/unexpected-poll-error", &format!("poll resolved to {other}"), &g.line());
                        }
                    }
                }
            }
            "df" => {
                if let Some(q) = self.reqs.get_mut(&reg.unwrap()) {
                    if q.alive {
                        rep.hit(&format!("drop@{}", before[q.slot]));
                        q.alive = false;
                        if after[q.slot] != 0 {
                            rep.fail("c06/drop-not-released", "dropped request kept its slot", &g.line());
                        }
                    }
                }
            }
            "rs" => {
                self.created.clear();
                self.reqs.clear();
            }
            _ => {}
        }
    }

    /// TX services every Sendable frame: claim + complete send until nothing is Sendable.
    fn tx_service(&mut self, g: &mut Gen, rep: &mut Report) {
        for _ in 0..(g.w.n + 1) {
            let out = self.op(g, "tn,40".into(), rep);
            if out == "none" {
                break;
            }
            self.op(g, "ts,40,0".into(), rep);
        }
    }

    fn drain(&mut self, g: &mut Gen, rep: &mut Report) {
        let regs: Vec<(u32, u8)> = g
            .w
            .regs
            .iter()
            .map(|(r, h)| {
                (*r, match h {
                    H::Created(_) => 0,
                    H::Fut(_) => 1,
                    H::Sendable(_) => 2,
                    H::Received(_) => 3,
                    H::View(_) => 4,
                })
            })
            .collect();
        for (r, kind) in regs {
            let op = match kind {
                0 => format!("dc,{r}"),
                1 => format!("df,{r}"),
                2 => format!("ts,{r},0"),
                3 => format!("dr,{r}"),
                _ => format!("dv,{r}"),
            };
            self.op(g, op, rep);
        }
        g.snap();
        let st = states(g);
        if st.iter().any(|s| *s != 0) {
            rep.fail("c06/slot-lost", &format!("after quiescence and drain the slot states are {st:?}"), &g.line());
        }
    }
}

/// Data bytes of the first datagram of a frame.
fn first_data(frame: &[u8]) -> Vec<u8> {
    match dgrams(frame).first() {
        Some((p, len)) => frame[p + 10..p + 10 + len].to_vec(),
        None => vec![],
    }
}

#[derive(Clone, Copy, Debug, PartialEq)]
enum Clock {
    Before, // T-1 (poll: pending), then +1 (poll: expired)
    Exact,  // T
    After,  // T + 3
}

#[derive(Clone, Copy, Debug, PartialEq)]
enum Comp {
    None,
    /// a second request is issued before the first is transmitted; it is answered at once
    Early,
    /// a second request tries to allocate after every deadline; when it gets a slot it runs to completion
    Hungry,
}

struct Plan {
    n: usize,
    retries: u64,
    /// how many deadlines to observe (R + 1, or a bound for Forever)
    rounds: u64,
    /// bit j set = transmission j gets no response
    lost: u32,
    clock: Clock,
    /// extra polls: bit 0 after mark, 1 before claim, 2 between claim and send, 3 after send, 4 after receive
    polls: u32,
    comp: Comp,
    /// deliver the response late: after the deadline has passed but before the poll that would see it
    late: bool,
}

const T: u64 = 50;

/// The newest completely transmitted frame of the competitor (it is the only one that sends BRD).
fn competitor_frame(g: &Gen) -> Option<Vec<u8>> {
    g.sent.iter().rev().map(|s| &s.bytes).find(|b| b.len() > 16 && b[16] == 0x07).cloned()
}

/// Run the competitor (register 1) to completion if it holds a future: service, answer, poll, read.
/// Returns whether it completed with the data its response carried.
fn finish_competitor(g: &mut Gen, obs: &mut Obs, rng: &mut Rng, rep: &mut Report) -> bool {
    if !matches!(g.w.regs.get(&1), Some(H::Fut(_))) {
        return false;
    }
    obs.tx_service(g, rep);
    let Some(f) = competitor_frame(g) else {
        rep.fail("c06/later-request-not-sent", "a later request was never transmitted", &g.line());
        return false;
    };
    let resp = response_for(&f, rng);
    let want = first_data(&resp);
    let r = obs.op(g, format!("rx,{}", hex(&resp)), rep);
    if r != "processed" {
        rep.fail("c06/later-request-rejected", &format!("a later request's response was answered with {r}"), &g.line());
        return false;
    }
    let p = obs.op(g, "po,1".into(), rep);
    if p != "ready.ok" {
        rep.fail("c06/later-request-stuck", "a later request did not complete although its response was accepted", &g.line());
        return false;
    }
    let (code, idx) = g.pushed.get(&1).and_then(|v| v.first().copied()).unwrap_or((0, 0));
    let o = obs.op(g, format!("fp,1,{code},{idx}"), rep);
    if !o.starts_with("ok.") {
        rep.fail("c06/later-request-rejected", "a later request's own response was rejected", &g.line());
        return false;
    }
    let v = obs.op(g, "vr,1".into(), rep);
    let got = unhex(v.split('.').next().unwrap_or("-"));
    obs.op(g, "dv,1".into(), rep);
    if got != want {
        rep.fail("c06/later-request-corrupted", "a later request on the reclaimed slot read other data than its response carried", &g.line());
        return false;
    }
    rep.hit("competitor:completed");
    true
}

fn start_competitor(g: &mut Gen, obs: &mut Obs, rep: &mut Report) -> bool {
    if g.w.regs.contains_key(&1) {
        return false;
    }
    let out = obs.op(g, "al,1".into(), rep);
    if out.starts_with("ok.") {
        obs.op(g, "pu,1,brd.0.304,0000,-".into(), rep);
        obs.op(g, format!("mk,1,0,{}", 100 * T), rep);
        true
    } else {
        rep.hit("competitor:alloc-refused");
        false
    }
}

fn run_plan(p: &Plan, rng: &mut Rng, rep: &mut Report) {
    let data = rng.range(36, 64) as usize;
    let mut g = Gen::new("c06", rng, p.n, data, Knobs { snap_every_op: false, ..Knobs::default() });
    let mut obs = Obs { serviced: true, ..Obs::default() };
    rep.hit(&format!("plan:retries={}", if p.retries == FOREVER { "forever".to_string() } else { p.retries.to_string() }));
    rep.hit(&format!("plan:clock={:?}", p.clock));
    rep.hit(&format!("plan:comp={:?}", p.comp));
    obs.op(&mut g, "al,0".into(), rep);
    let plen = rng.range(1, 6) as usize;
    let payload = rng.bytes(plen);
    obs.op(&mut g, format!("pu,0,fprd.4097.304,{},-", hex(&payload)), rep);
    obs.op(&mut g, format!("mk,0,{},{}", p.retries, T), rep);
    if p.comp == Comp::Early {
        start_competitor(&mut g, &mut obs, rep);
    }
    let poll = |g: &mut Gen, obs: &mut Obs, rep: &mut Report| -> String { obs.op(g, "po,0".into(), rep) };
    if p.polls & 1 != 0 {
        poll(&mut g, &mut obs, rep);
    }
    let mut outcome = String::from("pending");
    let mut transmissions = 0u64;
    let mut expected_data: Option<Vec<u8>> = None;
    'rounds: for j in 0..p.rounds {
        // ---- transmission j
        if p.polls & 2 != 0 {
            poll(&mut g, &mut obs, rep);
        }
        let sent_before = g.sent.len();
        // TX services every Sendable frame (the main request's and the competitor's)
        loop {
            let o = obs.op(&mut g, "tn,40".into(), rep);
            if o == "none" {
                break;
            }
            if p.polls & 4 != 0 {
                poll(&mut g, &mut obs, rep);
            }
            obs.op(&mut g, "ts,40,0".into(), rep);
        }
        transmissions += 1;
        if p.polls & 8 != 0 {
            poll(&mut g, &mut obs, rep);
        }
        // the main request's frame among the frames just sent
        let main_slot = obs.reqs.get(&0).map(|q| q.slot).unwrap_or(0);
        let main_frame = obs.reqs.get(&0).and_then(|q| q.sends.last().cloned());
        let _ = main_slot;
        if p.comp == Comp::Early && j == 0 {
            // answer the competitor straight away
            let _ = sent_before;
            if let Some(f) = competitor_frame(&g) {
                let resp = response_for(&f, rng);
                obs.op(&mut g, format!("rx,{}", hex(&resp)), rep);
                let o = obs.op(&mut g, "po,1".into(), rep);
                if o == "ready.ok" {
                    obs.op(&mut g, "dr,1".into(), rep);
                    rep.hit("competitor:completed");
                }
            }
        }
        let lost = p.lost & (1 << j.min(31)) != 0;
        let deliver = |g: &mut Gen, obs: &mut Obs, rng: &mut Rng, rep: &mut Report| -> Option<Vec<u8>> {
            let f = main_frame.clone()?;
            let resp = response_for(&f, rng);
            let o = obs.op(g, format!("rx,{}", hex(&resp)), rep);
            rep.hit(&format!("deliver:{o}"));
            if o == "processed" { Some(first_data(&resp)) } else { None }
        };
        if !lost && !p.late {
            expected_data = deliver(&mut g, &mut obs, rng, rep);
            if p.polls & 16 != 0 {
                // clock far past the deadline: the response must still win
                obs.op(&mut g, format!("ad,{}", 3 * T), rep);
            }
            outcome = poll(&mut g, &mut obs, rep);
            break 'rounds;
        }
        // ---- let the deadline pass. The embassy timer reports expiry from its second poll on, so
        // make sure it has been polled once before the deadline (the retry path polls the new
        // timer itself).
        if j == 0 && p.polls & (1 | 2 | 4 | 8) == 0 {
            poll(&mut g, &mut obs, rep);
        }
        match p.clock {
            Clock::Before => {
                obs.op(&mut g, format!("ad,{}", T - 1), rep);
                let o = poll(&mut g, &mut obs, rep);
                if o != "pending" {
                    rep.fail("c06/early-expiry", "poll one tick before the deadline did not return Pending", &g.line());
                }
                obs.op(&mut g, "ad,1".into(), rep);
            }
            Clock::Exact => {
                obs.op(&mut g, format!("ad,{T}"), rep);
            }
            Clock::After => {
                obs.op(&mut g, format!("ad,{}", T + 3), rep);
            }
        }
        if !lost && p.late {
            // the response arrives after the deadline has passed, before anyone looked
            expected_data = deliver(&mut g, &mut obs, rng, rep);
            outcome = poll(&mut g, &mut obs, rep);
            break 'rounds;
        }
        outcome = poll(&mut g, &mut obs, rep);
        if p.comp == Comp::Hungry {
            let sb = g.sent.len();
            if start_competitor(&mut g, &mut obs, rep) {
                // it shares the TX side with the retransmission of the main request
                let _ = sb;
            }
        }
        if outcome != "pending" {
            break 'rounds;
        }
    }
    // ---- what must have happened (independent of the model)
    let all_lost = (0..p.rounds).all(|j| p.lost & (1 << j.min(31)) != 0);
    if all_lost {
        if p.retries != FOREVER {
            if outcome != "ready.err.timeout" {
                rep.fail("c06/no-timeout", &format!("request without response resolved to {outcome} after {transmissions} transmissions"), &g.line());
            }
            if transmissions != p.retries + 1 {
                rep.fail("c06/transmission-count", "schedule ended early", &g.line());
            }
        } else if outcome != "pending" {
            rep.fail("c06/forever-completed", &format!("RetryBehaviour::Forever request resolved to {outcome}"), &g.line());
        }
    } else {
        if outcome != "ready.ok" {
            rep.fail("c06/response-not-delivered", &format!("answered request resolved to {outcome}"), &g.line());
        } else if let Some(want) = expected_data {
            let (code, idx) = g.pushed.get(&0).and_then(|v| v.first().copied()).unwrap_or((0, 0));
            let o = obs.op(&mut g, format!("fp,0,{code},{idx}"), rep);
            if o.starts_with("ok.") {
                let v = obs.op(&mut g, "vr,0".into(), rep);
                if unhex(v.split('.').next().unwrap_or("-")) != want {
                    rep.fail("c06/response-data", "completed request read other data than its response carried", &g.line());
                }
                obs.op(&mut g, "dv,0".into(), rep);
            } else {
                rep.fail("c06/response-rejected", "the request's own response was rejected by first_pdu", &g.line());
            }
        }
    }
    if p.retries == FOREVER && outcome == "pending" {
        let sends = obs.reqs.get(&0).map(|q| q.sends.len() as u64).unwrap_or(0);
        if sends != p.rounds {
            rep.fail("c06/forever-count", &format!("{sends} transmissions after {} expired deadlines", p.rounds), &g.line());
        }
        // the bounded observation ends by abandoning the request
        obs.op(&mut g, "df,0".into(), rep);
    }
    // a later request on the (possibly reclaimed) slot must work
    if !matches!(g.w.regs.get(&1), Some(H::Fut(_))) {
        // forget earlier competitor frames: a new one is issued now
        g.sent.retain(|s| !(s.bytes.len() > 16 && s.bytes[16] == 0x07));
        start_competitor(&mut g, &mut obs, rep);
    }
    if !finish_competitor(&mut g, &mut obs, rng, rep) {
        rep.fail("c06/later-request-stuck", "the request issued after the first one resolved did not complete", &g.line());
    }
    obs.drain(&mut g, rep);
    let line = g.line();
    if outcome != "pending" {
        rep.nontrivial.insert(line.clone());
    }
    rep.case(line, g.out_line());
}

/// Drop of the future in every slot state (Sendable, Sending, Sent, RxBusy, RxDone), before / after
/// the deadline, then the stale send completes (with every outcome) before or after the slot has
/// been claimed by a second request, which must then run to completion undisturbed.
fn run_drop(n: usize, retries: u64, state: u8, expired: bool, stale_outcome: u32, realloc_first: bool, by_timeout: bool, rng: &mut Rng, rep: &mut Report) {
    let data = rng.range(36, 64) as usize;
    let mut g = Gen::new("c06", rng, n, data, Knobs { snap_every_op: false, ..Knobs::default() });
    let mut obs = Obs { serviced: false, ..Obs::default() };
    rep.hit(&format!("drop-plan:state={state}:{}", if by_timeout { "timeout" } else { "drop" }));
    obs.op(&mut g, "al,0".into(), rep);
    obs.op(&mut g, format!("pu,0,fpwr.4097.288,{},-", hex(&rng.bytes(4))), rep);
    obs.op(&mut g, format!("mk,0,{},{}", if by_timeout { 0 } else { retries }, T), rep);
    obs.op(&mut g, "po,0".into(), rep); // arms the timer
    let mut have_tx = false;
    if state >= 3 {
        obs.op(&mut g, "tn,40".into(), rep);
        have_tx = true;
    }
    if state >= 4 {
        obs.op(&mut g, "ts,40,0".into(), rep);
        have_tx = false;
    }
    if state == 5 {
        // a response that does not fit: the slot is left in RxBusy
        let f = g.sent.last().unwrap().bytes.clone();
        let mut r = f[..16].to_vec();
        r[6] = 0x12;
        let l = data - 16 + 4;
        r[14..16].copy_from_slice(&((l as u16) | 0x1000).to_le_bytes());
        r.extend([5, f[17]]);
        r.extend(rng.bytes(l - 2));
        obs.op(&mut g, format!("rx,{}", hex(&r)), rep);
    }
    if state == 6 {
        let f = g.sent.last().unwrap().bytes.clone();
        obs.op(&mut g, format!("rx,{}", hex(&response_for(&f, rng))), rep);
    }
    let st = states(&g);
    let slot = obs.reqs.get(&0).map(|q| q.slot).unwrap_or(0);
    if st[slot] != state {
        rep.fail("c06/harness-state", &format!("could not reach state {state} (got {})", st[slot]), &g.line());
    }
    if expired || by_timeout {
        obs.op(&mut g, format!("ad,{}", T + 1), rep);
    }
    // ---- abandon
    if by_timeout {
        let o = obs.op(&mut g, "po,0".into(), rep);
        if state != 6 && o != "ready.err.timeout" {
            rep.fail("c06/no-timeout", &format!("final deadline in state {state} resolved to {o}"), &g.line());
        }
        if state == 6 {
            obs.op(&mut g, "dr,0".into(), rep);
        }
    } else {
        obs.op(&mut g, "df,0".into(), rep);
    }
    if states(&g)[slot] != 0 {
        rep.fail("c06/abandon-not-released", "abandoned request kept its slot", &g.line());
    }
    // ---- the stale send and the second request, in both orders
    let sb = g.sent.len();
    if realloc_first {
        start_competitor(&mut g, &mut obs, rep);
    }
    if have_tx {
        let before = states(&g);
        obs.op(&mut g, format!("ts,40,{stale_outcome}"), rep);
        if states(&g) != before {
            rep.fail("c06/stale-send-changed-slot", "the send of an abandoned frame changed a slot state", &g.line());
        }
    }
    // forget what the stale send put on the wire: it belongs to nobody
    while g.sent.len() > sb {
        g.sent.pop();
    }
    if !realloc_first {
        start_competitor(&mut g, &mut obs, rep);
    }
    if !matches!(g.w.regs.get(&1), Some(H::Fut(_))) {
        rep.fail("c06/slot-not-reusable", "no frame could be allocated after the abandonment", &g.line());
    }
    if !finish_competitor(&mut g, &mut obs, rng, rep) {
        rep.fail("c06/later-request-stuck", "the request that reused the slot did not complete", &g.line());
    }
    obs.drain(&mut g, rep);
    let line = g.line();
    rep.nontrivial.insert(line.clone());
    rep.case(line, g.out_line());
}

/// Retry expiry while the TX side holds the frame (Sending), or while the frame is still queued
/// (Sendable) or a response is being copied (RxBusy): the poll must leave the slot alone; the TX
/// side's send then completes normally and the request can still be answered.
fn run_retry_while_busy(n: usize, retries: u64, state: u8, send_outcome: u32, rng: &mut Rng, rep: &mut Report) {
    let data = rng.range(36, 64) as usize;
    let mut g = Gen::new("c06", rng, n, data, Knobs { snap_every_op: false, ..Knobs::default() });
    let mut obs = Obs { serviced: false, ..Obs::default() };
    rep.hit(&format!("retry-while-busy:state={state}"));
    obs.op(&mut g, "al,0".into(), rep);
    obs.op(&mut g, format!("pu,0,aprd.0.16,{},-", hex(&rng.bytes(2))), rep);
    obs.op(&mut g, format!("mk,0,{retries},{T}"), rep);
    obs.op(&mut g, "po,0".into(), rep);
    if state >= 3 {
        obs.op(&mut g, "tn,40".into(), rep);
    }
    if state == 5 {
        obs.op(&mut g, "ts,40,0".into(), rep);
        let f = g.sent.last().unwrap().bytes.clone();
        let mut r = f[..16].to_vec();
        r[6] = 0x12;
        let l = data - 16 + 4;
        r[14..16].copy_from_slice(&((l as u16) | 0x1000).to_le_bytes());
        r.extend([1, f[17]]);
        r.extend(rng.bytes(l - 2));
        obs.op(&mut g, format!("rx,{}", hex(&r)), rep);
    }
    let slot = obs.reqs.get(&0).map(|q| q.slot).unwrap_or(0);
    if states(&g)[slot] != state {
        rep.fail("c06/harness-state", &format!("could not reach state {state}"), &g.line());
    }
    obs.op(&mut g, format!("ad,{T}"), rep);
    let o = obs.op(&mut g, "po,0".into(), rep);
    if o != "pending" || states(&g)[slot] != state {
        rep.fail("c06/retry-clobbered-state", &format!("retry expiry in state {state} resolved to {o} / changed the slot state"), &g.line());
    }
    if state == 3 {
        obs.op(&mut g, format!("ts,40,{send_outcome}"), rep);
        let want = if send_outcome == 0 { 4 } else { 2 };
        if states(&g)[slot] != want {
            rep.fail("c06/send-after-retry", "the send of a frame whose deadline expired meanwhile did not complete normally", &g.line());
        }
    }
    if state != 5 {
        // (re)transmission, then the answer
        obs.tx_service(&mut g, rep);
        let f = g.sent.last().unwrap().bytes.clone();
        obs.op(&mut g, format!("rx,{}", hex(&response_for(&f, rng))), rep);
        let o = obs.op(&mut g, "po,0".into(), rep);
        if o != "ready.ok" {
            rep.fail("c06/response-not-delivered", &format!("answered request resolved to {o}"), &g.line());
        }
    }
    obs.drain(&mut g, rep);
    let line = g.line();
    rep.nontrivial.insert(line.clone());
    rep.case(line, g.out_line());
}

fn random_case(rng: &mut Rng, n: usize, rep: &mut Report) {
    let knobs = Knobs {
        snap_every_op: false,
        rx_genuine: rng.range(1, 8),
        advance: rng.range(3, 12),
        poll: 16,
        drop_fut: rng.range(0, 3),
        txsend_fail: rng.range(0, 3),
        max_retries: 3,
        timeout_us: 40,
        ..Knobs::default()
    };
    let data = rng.range(28, 64) as usize;
    let mut g = Gen::new("c06", rng, n, data, knobs);
    let mut obs = Obs { serviced: false, ..Obs::default() };
    let steps = rng.range(10, 60 + 20 * n as u64);
    for i in 0..steps {
        obs.random_step(&mut g, rep);
        if i % 24 == 23 {
            g.snap();
        }
    }
    obs.drain(&mut g, rep);
    rep.hit(&format!("random:timeouts={}", obs.timeouts.min(5)));
    let line = g.line();
    if obs.timeouts + obs.oks > 0 {
        rep.nontrivial.insert(line.clone());
    }
    rep.case(line, g.out_line());
}

fn main() {
    let args = ecverif::parse_args();
    let mut rep = Report::default();
    if let Some(cases) = ecverif::replay_cases(&args) {
        for c in cases.iter().filter(|c| c.starts_with("c06 ")) {
            let (out, w) = ecverif::seq::run_line(c);
            if out.split(';').any(|t| t.starts_with("panic")) {
                rep.fail("c06/panic", "an API operation panicked", c);
            }
            if (0..w.n).any(|i| w.slot(i).0 != 0) && w.regs.is_empty() {
                rep.fail("c06/slot-lost", "a slot is held although no handle is alive", c);
            }
            rep.case(c.clone(), out);
        }
        rep.write(&args.out, "c06");
        return;
    }
    let thorough = args.tier == "thorough";
    let mut rng = Rng::new(args.seed ^ 0xc06);
    // ---- systematic plans
    let slot_counts: &[usize] = if thorough { &[1, 2, 4, 8] } else { &[1, 2, 4] };
    let poll_masks: Vec<u32> = if thorough { (0..32).collect() } else { vec![0, 1, 2, 4, 8, 16, 5, 10, 31] };
    for &n in slot_counts {
        for retries in [0u64, 1, 2, 3, FOREVER] {
            let rounds = if retries == FOREVER { 5 } else { retries + 1 };
            for lost in 0..(1u32 << rounds) {
                // only the first answered transmission matters for the outcome, but a different subset
                // still changes which transmissions are followed by a deadline
                for clock in [Clock::Before, Clock::Exact, Clock::After] {
                    for &polls in &poll_masks {
                        for comp in [Comp::None, Comp::Early, Comp::Hungry] {
                            for late in [false, true] {
                                if !thorough && rng.chance(1, 2) && retries >= 2 {
                                    continue;
                                }
                                let p = Plan { n, retries, rounds, lost, clock, polls, comp, late };
                                run_plan(&p, &mut rng, &mut rep);
                            }
                        }
                    }
                }
            }
        }
    }
    // ---- abandonment in every slot state
    for &n in slot_counts {
        for state in [2u8, 3, 4, 5, 6] {
            for expired in [false, true] {
                for stale_outcome in 0..3u32 {
                    for realloc_first in [false, true] {
                        for by_timeout in [false, true] {
                            for retries in [0u64, 2, FOREVER] {
                                run_drop(n, retries, state, expired, stale_outcome, realloc_first, by_timeout, &mut rng, &mut rep);
                            }
                        }
                    }
                }
            }
        }
        for retries in [1u64, 2, 3, FOREVER] {
            for state in [2u8, 3, 5] {
                for send_outcome in 0..3u32 {
                    run_retry_while_busy(n, retries, state, send_outcome, &mut rng, &mut rep);
                }
            }
        }
    }
    // ---- random retry-heavy histories
    let cases = if thorough { 100000 } else { 6000 };
    for i in 0..cases {
        let n = [1usize, 2, 4, 8][(i % 4) as usize];
        random_case(&mut rng, n, &mut rep);
    }
    rep.write(&args.out, "c06");
}
