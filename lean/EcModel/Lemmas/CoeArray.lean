/-
  C15 helper lemmas: `sdo_read_array` / `sdo_write_array` against the specification server.
-/
import EcModel.Lemmas.CoeDownload

namespace Ec.Coe
open Ec Ec.Gen.Coe Ec.CoeSrv

/-! ### Dictionary -/

theorem Dict.get_set_same (d : Dict) (i s : Nat) (v : List Nat) : (d.set i s v).get i s = some v := by
  induction d with
  | nil => simp [Dict.set, Dict.get]
  | cons e rest ih =>
    obtain ⟨k, old⟩ := e
    unfold Dict.set
    split
    · next h => simp [Dict.get, h]
    · next h => simp [Dict.get, h, ih]

theorem Dict.get_set_other (d : Dict) (i s i' s' : Nat) (v : List Nat) (hne : ¬ (i' = i ∧ s' = s)) :
    (d.set i s v).get i' s' = d.get i' s' := by
  induction d with
  | nil =>
    simp only [Dict.set, Dict.get]
    have : (i == i' && s == s') = false := by
      by_cases h : i = i'
      · have : s ≠ s' := fun h' => hne ⟨h.symm, h'.symm⟩
        simp [h, this]
      · simp [h]
    simp [this]
  | cons e rest ih =>
    obtain ⟨k, old⟩ := e
    unfold Dict.set
    split
    · next h =>
      simp only [Bool.and_eq_true, beq_iff_eq] at h
      have : (k.1 == i' && k.2 == s') = false := by
        by_cases h1 : k.1 = i'
        · have : k.2 ≠ s' := fun h' => hne ⟨by rw [← h1, h.1], by rw [← h', h.2]⟩
          simp [h1, this]
        · simp [h1]
      simp [Dict.get, this]
    · next h =>
      simp only [Dict.get]
      split
      · rfl
      · exact ih

theorem Dict.get_some_hasIndex (d : Dict) (i s : Nat) (v : List Nat) (h : d.get i s = some v) : d.hasIndex i = true := by
  induction d with
  | nil => simp [Dict.get] at h
  | cons e rest ih =>
    obtain ⟨k, old⟩ := e
    simp only [Dict.get] at h
    unfold Dict.hasIndex
    split at h
    · next hk =>
      simp only [Bool.and_eq_true, beq_iff_eq] at hk
      simp [hk.1]
    · have := ih h
      unfold Dict.hasIndex at this
      simp [this]

/-- A server that answers plainly: no scripted aborts, no emergency pending, automatic choice of the upload mode. -/
structure Plain (srv : Server) : Prop where
  aborts : srv.aborts = []
  emerg : srv.emergencies = []
  mode : srv.mode = .auto

theorem objectBytes_plain (srv : Server) (hp : Plain srv) (index sub : Nat) (v : List Nat)
    (h : srv.dict.get index sub = some v) : srv.objectBytes index sub false = .ok v := by
  unfold Server.objectBytes
  rw [hp.aborts]
  simp [Dict.get_some_hasIndex _ _ _ _ h, h]

/-- `sdo_read::<T>` of an entry of 1..4 bytes on a plain server: the entry's bytes reach `T`'s decoder. -/
theorem sdoReadT_plain {α : Type} (cfg : Cfg) (fuel : Nat) (T : Dest α) (index sub : Nat) (v : List Nat) (s : St Server)
    (hp : Plain s.dev) (hm : cfg.hasMailbox = true) (hq : s.outq = []) (hr : 16 ≤ cfg.rmbx) (hw : 12 ≤ cfg.wmbx)
    (hi : index < 65536) (hs : sub < 256) (hv : s.dev.dict.get index sub = some v) (h1 : 1 ≤ v.length)
    (h4 : v.length ≤ 4) :
    ∃ s', sdoReadT serverWorld cfg fuel T index (.index sub) s =
        ((match T.decode v with | some x => .ok x | none => .err .decode), s') ∧
      Plain s'.dev ∧ s'.outq = [] ∧ s'.dev.dict = s.dev.dict := by
  have hresp : serverWorld.respond s.dev (image cfg.wmbx (uploadRequest s.ctr index (.index sub))) =
      ({ s.dev with counter := nextCtr s.dev.counter, seg := none },
        [expeditedResponse (nextCtr s.dev.counter) index sub false v]) := by
    show serve s.dev _ = _
    rw [serve_upload s.dev _ _ _ (.index sub) hw hi hs hp.emerg]
    show ((s.dev.upload (nextCtr s.dev.counter) index sub false).1, [(s.dev.upload (nextCtr s.dev.counter) index sub false).2]) = _
    rw [upload_expedited s.dev _ _ _ _ v (objectBytes_plain _ hp _ _ _ hv) hp.mode h1 h4]
  have hread := sdoRead_expedited_reply serverWorld cfg fuel T.bufLen index (.index sub) s _ _ v hm
    (by rw [hq]; exact Nat.zero_le _) hr hi h1 h4 hresp
  refine ⟨afterOne cfg s { s.dev with counter := nextCtr s.dev.counter, seg := none } (uploadRequest s.ctr index (.index sub)),
    ?_, ⟨hp.aborts, hp.emerg, hp.mode⟩, rfl, rfl⟩
  unfold sdoReadT
  rw [hread]
  rfl

/-- The `for i in 1..=len` loop of `sdo_read_array` on a plain server whose sub-indices i..i+n-1 hold 1..4 bytes each. -/
theorem readEach_plain {α : Type} (cfg : Cfg) (fuel : Nat) (T : Dest α) (index : Nat) (val : Nat → List Nat) (x : Nat → α)
    (hm : cfg.hasMailbox = true) (hr : 16 ≤ cfg.rmbx) (hw : 12 ≤ cfg.wmbx) (hi : index < 65536) :
    ∀ (n i : Nat) (s : St Server), Plain s.dev → s.outq = [] → i + n ≤ 256 →
      (∀ k, k < n → s.dev.dict.get index (i + k) = some (val (i + k)) ∧ 1 ≤ (val (i + k)).length ∧
        (val (i + k)).length ≤ 4 ∧ T.decode (val (i + k)) = some (x (i + k))) →
      (readEach serverWorld cfg fuel T index n i s).1 = .ok ((List.range n).map fun k => x (i + k)) := by
  intro n
  induction n with
  | zero => intro i s _ _ _ _; rfl
  | succ n ih =>
    intro i s hp hq hin hall
    obtain ⟨hv, h1, h4, hd⟩ := hall 0 (Nat.succ_pos n)
    simp only [Nat.add_zero] at hv h1 h4 hd
    obtain ⟨s', hrd, hp', hq', hdict⟩ := sdoReadT_plain cfg fuel T index i (val i) s hp hm hq hr hw hi (by omega) hv h1 h4
    unfold readEach
    rw [hrd, hd]
    dsimp only
    have hrest := ih (i + 1) s' hp' hq' (by omega) (fun k hk => by
      have := hall (k + 1) (by omega)
      rw [hdict]
      have e : i + (k + 1) = i + 1 + k := by omega
      rw [e] at this
      exact this)
    generalize readEach serverWorld cfg fuel T index n (i + 1) s' = r2 at hrest
    obtain ⟨r21, s''⟩ := r2
    simp only at hrest
    rw [hrest]
    simp only [List.range_succ_eq_map, List.map_cons, List.map_map, Nat.add_zero]
    congr 2
    apply List.map_congr_left
    intro k _
    simp only [Function.comp]
    congr 1
    omega

/-- `sdo_read_array` on a plain server holding an array object: count in sub-index 0, elements of 1..4 bytes in
    sub-indices 1..n, n within `MAX_ENTRIES`: the elements are read in order, each exactly as stored. -/
theorem sdoReadArray_plain {α : Type} (cfg : Cfg) (fuel : Nat) (T : Dest α) (maxEntries index n : Nat)
    (val : Nat → List Nat) (x : Nat → α) (s : St Server) (hp : Plain s.dev) (hm : cfg.hasMailbox = true)
    (hq : s.outq = []) (hr : 16 ≤ cfg.rmbx) (hw : 12 ≤ cfg.wmbx) (hi : index < 65536) (hn : n ≤ 255)
    (hmax : n ≤ maxEntries) (h0 : s.dev.dict.get index 0 = some [n])
    (hall : ∀ k, k < n → s.dev.dict.get index (1 + k) = some (val (1 + k)) ∧ 1 ≤ (val (1 + k)).length ∧
      (val (1 + k)).length ≤ 4 ∧ T.decode (val (1 + k)) = some (x (1 + k))) :
    (sdoReadArray serverWorld cfg fuel T maxEntries index s).1 = .ok ((List.range n).map fun k => x (1 + k)) := by
  obtain ⟨s', hrd, hp', hq', hdict⟩ := sdoReadT_plain cfg fuel destU8 index 0 [n] s hp hm hq hr hw hi (by decide) h0
    (by simp) (by simp)
  unfold sdoReadArray
  rw [hrd]
  simp only [destU8, List.head?_cons]
  rw [if_neg (by omega)]
  exact readEach_plain cfg fuel T index val x hm hr hw hi n 1 s' hp' hq' (by omega) (fun k hk => by
    rw [hdict]; exact hall k hk)

/-! ### Writing -/

/-- `sdo_write` of a 1..4 byte value to an existing sub-index of a plain server. -/
theorem sdoWrite_plain (cfg : Cfg) (index sub : Nat) (value old : List Nat) (s : St Server) (hp : Plain s.dev)
    (hm : cfg.hasMailbox = true) (hq : s.outq = []) (hr : 16 ≤ cfg.rmbx) (hw : 16 ≤ cfg.wmbx) (hi : index < 65536)
    (hs : sub < 256) (h1 : 1 ≤ value.length) (h4 : value.length ≤ 4) (hold : s.dev.dict.get index sub = some old)
    (hlen : s.dev.strictLen = true → old.length = value.length) :
    ∃ s', sdoWrite serverWorld cfg index (.index sub) value s = (.ok (), s') ∧ Plain s'.dev ∧ s'.outq = [] ∧
      s'.dev.strictLen = s.dev.strictLen ∧ s'.dev.dict = s.dev.dict.set index sub value := by
  have hab : (s.dev.aborts.find? fun e => e.1.1 == index && e.1.2 == sub) = none := by rw [hp.aborts]; rfl
  have h := sdoWrite_server s.dev cfg index sub value old s rfl hm (by rw [hq]; exact Nat.zero_le _) hr hw hi hs h1 h4
    hp.emerg hab hold hlen
  exact ⟨_, h, ⟨hp.aborts, hp.emerg, hp.mode⟩, rfl, rfl, rfl⟩

/-- The element loop of `sdo_write_array` on a plain server whose sub-indices i.. exist (with matching lengths if the
    server is strict): every element lands in its sub-index, nothing else changes. -/
theorem writeEach_plain (cfg : Cfg) (index : Nat) (hm : cfg.hasMailbox = true) (hr : 16 ≤ cfg.rmbx) (hw : 16 ≤ cfg.wmbx)
    (hi : index < 65536) :
    ∀ (vs : List (List Nat)) (i : Nat) (s : St Server), Plain s.dev → s.outq = [] → i + vs.length ≤ 256 →
      (∀ k, k < vs.length → ∃ old, s.dev.dict.get index (i + k) = some old ∧
        (s.dev.strictLen = true → old.length = (vs.getD k []).length) ∧ 1 ≤ (vs.getD k []).length ∧
        (vs.getD k []).length ≤ 4) →
      ∃ s', writeEach serverWorld cfg index i vs s = (.ok (), s') ∧ Plain s'.dev ∧ s'.outq = [] ∧
        s'.dev.strictLen = s.dev.strictLen ∧
        (∀ k, k < vs.length → s'.dev.dict.get index (i + k) = some (vs.getD k [])) ∧
        (∀ j, (j < i ∨ i + vs.length ≤ j) → s'.dev.dict.get index j = s.dev.dict.get index j) := by
  intro vs
  induction vs with
  | nil =>
    intro i s hp hq _ _
    exact ⟨s, rfl, hp, hq, rfl, ⟨fun k hk => absurd hk (Nat.not_lt_zero k), fun _ _ => rfl⟩⟩
  | cons v vs ih =>
    intro i s hp hq hin hall
    obtain ⟨old, hold, hlen, h1, h4⟩ := hall 0 (Nat.succ_pos _)
    simp only [Nat.add_zero, List.getD_cons_zero] at hold hlen h1 h4
    have hi256 : i % 256 = i := Nat.mod_eq_of_lt (by simp only [List.length_cons] at hin; omega)
    obtain ⟨s1, hw1, hp1, hq1, hst1, hd1⟩ := sdoWrite_plain cfg index i v old s hp hm hq hr hw hi
      (by simp only [List.length_cons] at hin; omega) h1 h4 hold hlen
    have hpre : ∀ k, k < vs.length → ∃ old, s1.dev.dict.get index (i + 1 + k) = some old ∧
        (s1.dev.strictLen = true → old.length = (vs.getD k []).length) ∧ 1 ≤ (vs.getD k []).length ∧
        (vs.getD k []).length ≤ 4 := by
      intro k hk
      obtain ⟨o, ho, hl, ha, hb⟩ := hall (k + 1) (by simp only [List.length_cons]; omega)
      simp only [List.getD_cons_succ] at hl ha hb
      refine ⟨o, ?_, by rw [hst1]; exact hl, ha, hb⟩
      rw [hd1, Dict.get_set_other _ _ _ _ _ _ (by omega)]
      have e : i + (k + 1) = i + 1 + k := by omega
      rw [← e]; exact ho
    obtain ⟨s', hw', hp', hq', hst', hget', hframe'⟩ := ih (i + 1) s1 hp1 hq1
      (by simp only [List.length_cons] at hin; omega) hpre
    refine ⟨s', ?_, hp', hq', by rw [hst', hst1], ?_, ?_⟩
    · unfold writeEach
      rw [hi256, hw1]
      exact hw'
    · intro k hk
      cases k with
      | zero =>
        simp only [Nat.add_zero, List.getD_cons_zero]
        rw [hframe' i (Or.inl (Nat.lt_succ_self i)), hd1, Dict.get_set_same]
      | succ k =>
        simp only [List.getD_cons_succ]
        have := hget' k (by simp only [List.length_cons] at hk; omega)
        have e : i + (k + 1) = i + 1 + k := by omega
        rw [e]; exact this
    · intro j hj
      simp only [List.length_cons] at hj
      rw [hframe' j (by omega), hd1, Dict.get_set_other _ _ _ _ _ _ (by omega)]

/-- `sdo_write_array(index, values)` on a plain server holding an array object with at least `values.len()` elements:
    afterwards sub-index 0 holds the count and sub-indices 1..n hold exactly the values' bytes. -/
theorem sdoWriteArray_plain (cfg : Cfg) (index : Nat) (values : List (List Nat)) (s : St Server) (hp : Plain s.dev)
    (hm : cfg.hasMailbox = true) (hq : s.outq = []) (hr : 16 ≤ cfg.rmbx) (hw : 16 ≤ cfg.wmbx) (hi : index < 65536)
    (hn : values.length ≤ 255)
    (h0 : ∃ old0, s.dev.dict.get index 0 = some old0 ∧ (s.dev.strictLen = true → old0.length = 1))
    (hall : ∀ k, k < values.length → ∃ old, s.dev.dict.get index (1 + k) = some old ∧
      (s.dev.strictLen = true → old.length = (values.getD k []).length) ∧ 1 ≤ (values.getD k []).length ∧
      (values.getD k []).length ≤ 4) :
    ∃ s', sdoWriteArray serverWorld cfg index values s = (.ok (), s') ∧ Plain s'.dev ∧ s'.outq = [] ∧
      s'.dev.dict.get index 0 = some [values.length] ∧
      (∀ k, k < values.length → s'.dev.dict.get index (1 + k) = some (values.getD k [])) := by
  obtain ⟨old0, hold0, hl0⟩ := h0
  obtain ⟨s1, hw1, hp1, hq1, hst1, hd1⟩ := sdoWrite_plain cfg index 0 [0] old0 s hp hm hq hr hw hi (by decide) (by decide)
    (by decide) hold0 (fun h => by simpa using hl0 h)
  have hpre : ∀ k, k < values.length → ∃ old, s1.dev.dict.get index (1 + k) = some old ∧
      (s1.dev.strictLen = true → old.length = (values.getD k []).length) ∧ 1 ≤ (values.getD k []).length ∧
      (values.getD k []).length ≤ 4 := by
    intro k hk
    obtain ⟨o, ho, hl, ha, hb⟩ := hall k hk
    refine ⟨o, ?_, by rw [hst1]; exact hl, ha, hb⟩
    rw [hd1, Dict.get_set_other _ _ _ _ _ _ (by omega)]
    exact ho
  obtain ⟨s2, hw2, hp2, hq2, hst2, hget2, hframe2⟩ := writeEach_plain cfg index hm hr hw hi values 1 s1 hp1 hq1
    (by omega) hpre
  have hold2 : s2.dev.dict.get index 0 = some [0] := by
    rw [hframe2 0 (Or.inl (by decide)), hd1, Dict.get_set_same]
  obtain ⟨s3, hw3, hp3, hq3, _, hd3⟩ := sdoWrite_plain cfg index 0 [values.length % 256] [0] s2 hp2 hm hq2 hr hw hi
    (by decide) (by simp) (by simp) hold2 (fun _ => rfl)
  refine ⟨s3, ?_, hp3, hq3, ?_, ?_⟩
  · unfold sdoWriteArray
    rw [hw1]
    dsimp only
    rw [hw2]
    exact hw3
  · rw [hd3, Dict.get_set_same, Nat.mod_eq_of_lt (by omega)]
  · intro k hk
    rw [hd3, Dict.get_set_other _ _ _ _ _ _ (by omega)]
    exact hget2 k hk

end Ec.Coe
