/-
  EcModel.GroupState — group state transitions and the per-cycle state summaries (property C10).
  Hand translation of:
    src/subdevice_group/mod.rs   push_state_checks, SubDeviceGroup::{is_state, wait_for_state, transition_to,
                                 request_into_op} and the into_* wrappers (each is one or two transition_to calls)
    src/subdevice/mod.rs         SubDeviceRef::request_subdevice_state_nowait (here with the datagrams it sends;
                                 result-identical to `Wkc.requestNowait`)
    src/subdevice_group/tx_rx_response.rs  TxRxResponse::{group_state, group_in_single_state, is_in_state, all_op}
    src/subdevice_state.rs       SubDeviceState (discriminants, catch-all `Other`)
    src/al_control.rs            AlControl (2 bytes: state nibble, error bit) — decoder in Wkc.lean
  `MainDevice::wait_for_state` is `Wkc.mdWaitForState`.

  Environment as in Wkc.lean: one event per datagram, in the order the datagrams are sent. A status
  frame carrying k checks consumes k consecutive `resp` events, or a single `lost` / `deadline`.
  Every function also returns the frames it sent (`List (List Dg)`), so "the request goes to the
  members and to nobody else" and "the status frames cover every member once" are statements about
  the model's output, and the harness compares that output with what the simulated wire saw.
-/
import EcModel.Wkc
import EcModel.Frame

namespace Ec.Group
open Ec Ec.Wkc

/-! ### SubDeviceState and the summaries -/

/-- `SubDeviceState`. -/
inductive SdState where
  | none | init | preOp | bootstrap | safeOp | op
  | other (n : Nat)
  deriving Repr, DecidableEq

/-- `u8::from(SubDeviceState)` (derived `EtherCrabWireWrite`: the discriminant, `Other(n)` ↦ `n`). -/
def SdState.toNat : SdState → Nat
  | .none => 0 | .init => 1 | .preOp => 2 | .bootstrap => 3 | .safeOp => 4 | .op => 8
  | .other n => n

/-- Derived `unpack` of the 4-bit field with `#[wire(catch_all)]`. -/
def SdState.ofNat (v : Nat) : SdState :=
  if v = 0 then .none else if v = 1 then .init else if v = 2 then .preOp else if v = 3 then .bootstrap
  else if v = 4 then .safeOp else if v = 8 then .op else .other v

/-- `GroupState::all().bits()`: NONE | INIT | PRE_OP | SAFE_OP | OP. -/
def GROUP_STATE_ALL : Nat := 15

/-- `TxRxResponse::group_state`: `fold(0, |acc, s| acc | u8::from(s))`, then `from_bits_truncate`.
    The argument is the list of `u8::from(state)` values. -/
def groupState (states : List Nat) : Nat :=
  (states.foldl (fun acc s => acc ||| s) 0) &&& GROUP_STATE_ALL

/-- `group_in_single_state` on the state list itself: the first entry if every other entry equals
    it (`states.all(|state| state == first).then_some(*first)`), `None` for an empty group. -/
def singleState : List SdState → Option SdState
  | [] => Option.none
  | first :: rest => if rest.all (fun state => state == first) then some first else Option.none

/-- `TxRxResponse::group_in_single_state`. The argument is the list of `u8::from(state)` values;
    the entries the code compares are the `SubDeviceState`s they decode to. -/
def groupInSingleState (states : List Nat) : Option SdState := singleState (states.map SdState.ofNat)

/-- `TxRxResponse::is_in_state`: `self.group_in_single_state() == Some(desired_state)`. -/
def isInState (states : List Nat) (desired : SdState) : Bool := groupInSingleState states == some desired

/-- `TxRxResponse::all_op`: `group_in_single_state().filter(|s| s == Op).is_some()`. -/
def allOp (states : List Nat) : Bool :=
  match groupInSingleState states with
  | some s => s == .op
  | Option.none => false

/-! ### Datagrams on the wire -/

inductive Dg where
  | fpwr (addr reg val : Nat)   -- val = first payload byte
  | fprd (addr reg : Nat)
  deriving Repr, DecidableEq

def Dg.addr : Dg → Nat
  | .fpwr a _ _ => a
  | .fprd a _ => a

def Dg.isFpwr : Dg → Bool
  | .fpwr .. => true
  | .fprd .. => false

/-- `AlControl::new(state).pack()[0]`: state nibble, no error/ack bit, no id request. -/
def alControlByte (desired : Nat) : Nat := desired % 16

/-- `request_subdevice_state_nowait` of the member with configured address `addr`. -/
def requestNowaitL (addr desired : Nat) : List Ev → Res Unit × List Ev × List (List Dg)
  | [] => (.error .badTrace, [], [])
  | e :: t =>
    let w := [Dg.fpwr addr Gen.Wkc.REG_AL_CONTROL (alControlByte desired)]
    match WrappedWrite.new.sendReceive (exch none e) unpackAlControl with
    | .error er => (.error er, t, [w])
    | .ok response =>
      if response.error then
        let r := [Dg.fprd addr Gen.Wkc.REG_AL_STATUS_CODE]
        match t with
        | [] => (.error .badTrace, [], [w, r])
        | e2 :: t2 =>
          match WrappedRead.new.receive (exch none e2) unpackCode with
          | .error er => (.error er, t2, [w, r])
          | .ok _ => (.error .stateTransition, t2, [w, r])
      else (.ok (), t, [w])

/-- The request loop of `transition_to` / `request_into_op`: members in order, stop at the first error. -/
def requestAll (desired : Nat) : List Nat → List Ev → Res Unit × List Ev × List (List Dg)
  | [], tr => (.ok (), tr, [])
  | a :: rest, tr =>
    match requestNowaitL a desired tr with
    | (.error er, t, s) => (.error er, t, s)
    | (.ok (), t, s) =>
      let r := requestAll desired rest t
      (r.1, r.2.1, s ++ r.2.2)

/-- One status check in a frame: `AlControl::PACKED_LEN + PDU_OVERHEAD_BYTES` bytes. -/
def CHECK_SIZE : Nat := Gen.Wkc.AL_CONTROL_LEN + PDU_OVERHEAD

/-- `push_state_checks(subdevices, frame)` on a frame whose datagram area has `pduLen` bytes of
    which `used` are taken: `while can_push_pdu_payload(2) { next member or break; push; num += 1;
    if num > 128 { break } }`. Returns (members pushed, rest of the iterator). -/
def pushStateChecks (pduLen : Nat) : Nat → Nat → List Nat → List Nat × List Nat
  | _, _, [] => ([], [])
  | used, num, a :: rest =>
    if used + CHECK_SIZE ≤ pduLen then
      if num + 1 > Gen.Wkc.STATE_CHECKS_BREAK_AFTER then ([a], rest)
      else
        let r := pushStateChecks pduLen (used + CHECK_SIZE) (num + 1) rest
        (a :: r.1, r.2)
    else ([], a :: rest)

theorem pushStateChecks_append (pduLen used num : Nat) (ms : List Nat) :
    (pushStateChecks pduLen used num ms).1 ++ (pushStateChecks pduLen used num ms).2 = ms := by
  induction ms generalizing used num with
  | nil => simp [pushStateChecks]
  | cons a rest ih =>
    unfold pushStateChecks
    split
    · split
      · simp
      · simp [ih]
    · simp

theorem pushStateChecks_length (pduLen used num : Nat) (ms : List Nat) :
    (pushStateChecks pduLen used num ms).1.length + (pushStateChecks pduLen used num ms).2.length = ms.length := by
  have := congrArg List.length (pushStateChecks_append pduLen used num ms)
  simpa using this

/-- `k` consecutive responses (the datagrams of one received frame). -/
def takeResps : Nat → List Ev → Option (List Pdu × List Ev)
  | 0, tr => some ([], tr)
  | k + 1, .resp p :: t =>
    match takeResps k t with
    | some (ps, r) => some (p :: ps, r)
    | Option.none => Option.none
  | _ + 1, _ => Option.none

/-- `frame.await?` for a frame of `k` datagrams inside the transition-timeout wrapper. -/
def frameEvents (k : Nat) : List Ev → Res (List Pdu) × List Ev
  | [] => (.error .badTrace, [])
  | .lost :: t => (.error (.timeout .pdu), t)
  | .deadline :: t => (.error (.timeout .stateTransition), t)
  | .lostDeadline :: t => (.error (.timeout .stateTransition), t)
  | .resp p :: t =>
    match takeResps k (.resp p :: t) with
    | some (ps, r) => (.ok ps, r)
    | Option.none => (.error .badTrace, [])

/-- The loop over `received.into_pdu_iter()` in `is_state`: every status datagram must have been
    answered by exactly one device (`pdu?.wkc(1)?`), then decode, return `Ok(false)` at the first
    state that differs; a status with the error-indication bit ends the call with
    `Err(StateTransition)`, as in `MainDevice::wait_for_state`. -/
def checkStates (desired : Nat) : List Pdu → Res Bool
  | [] => .ok true
  | p :: ps =>
    match p.checkWkc 1 with
    | .error e => .error e
    | .ok p =>
      match unpackAlControl p.data with
      | .error e => .error e
      | .ok c =>
        if c.error then .error .stateTransition
        else if c.state ≠ desired then .ok false else checkStates desired ps

/-- The frames of one complete status round: `push_state_checks` applied to a fresh frame again
    and again until it pushes nothing. Which members go into which frame depends on the frame size
    only, not on any response. Returns the frames and the members that could not be placed (non-empty
    only if the datagram area is below 14 bytes). `fuel` = number of members (every frame takes ≥ 1). -/
def chunks (pduLen : Nat) : Nat → List Nat → List (List Nat) × List Nat
  | 0, ms => ([], ms)
  | fuel + 1, ms =>
    let pr := pushStateChecks pduLen 0 0 ms
    if pr.1 = [] then ([], ms)
    else
      let r := chunks pduLen fuel pr.2
      (pr.1 :: r.1, r.2)

def round (pduLen : Nat) (members : List Nat) : List (List Nat) × List Nat :=
  chunks pduLen members.length members

/-- The loop of `is_state` over the frames of a round: send, await, compare every state; `Ok(false)`
    at the first state that differs (later frames are then not sent). -/
def isStateFrames (desired : Nat) : List (List Nat) → List Ev → Res Bool × List Ev × List (List Dg)
  | [], tr => (.ok true, tr, [])
  | f :: fs, tr =>
    if tr.head? = some .deadline then
      -- the transition timer fired during the preceding loop_tick: this frame is never sent
      (.error (.timeout .stateTransition), tr.tail, [])
    else
      let sent := [f.map fun a => Dg.fprd a Gen.Wkc.REG_AL_STATUS]
      match frameEvents f.length tr with
      | (.error e, t) => (.error e, t, sent)
      | (.ok pdus, t) =>
        match checkStates desired pdus with
        | .error e => (.error e, t, sent)
        | .ok false => (.ok false, t, sent)
        | .ok true =>
          let r := isStateFrames desired fs t
          (r.1, r.2.1, sent ++ r.2.2)

/-- `SubDeviceGroup::is_state`. When the loop ends although members remain unchecked (a frame
    cannot hold a single check), `debug_assert_eq!(total_checks, self.len())` fails: panic with
    debug assertions, `Ok(true)` without. -/
def isState (m : Mode) (pduLen desired : Nat) (members : List Nat) (tr : List Ev) :
    Res Bool × List Ev × List (List Dg) :=
  match isStateFrames desired (round pduLen members).1 tr with
  | (.ok true, t, s) =>
    if (round pduLen members).2 = [] then (.ok true, t, s)
    else
      match m with
      | .checked => (.error (.panic "debug_assert_eq total_checks"), t, s)
      | .wrapping => (.ok true, t, s)
  | other => other

/-- The loop of `wait_for_state`: `is_state` rounds (separated by `loop_tick`) until true. `fuel`
    bounds the number of rounds; a round that returns false consumed at least one event, so
    `trace length + 1` rounds are never exhausted (`Ec.C10.wait_fuel_sufficient`). -/
def waitLoop (m : Mode) (pduLen desired : Nat) (members : List Nat) : Nat → List Ev → Res Unit × List Ev × List (List Dg)
  | 0, tr => (.error .badTrace, tr, [])
  | fuel + 1, tr =>
    match isState m pduLen desired members tr with
    | (.error e, t, s) => (.error e, t, s)
    | (.ok true, t, s) => (.ok (), t, s)
    | (.ok false, t, s) =>
      let r := waitLoop m pduLen desired members fuel t
      (r.1, r.2.1, s ++ r.2.2)

/-- `SubDeviceGroup::wait_for_state`, under the transition timeout (the `deadline` events). -/
def waitForState (m : Mode) (pduLen desired : Nat) (members : List Nat) (tr : List Ev) :
    Res Unit × List Ev × List (List Dg) :=
  waitLoop m pduLen desired members (tr.length + 1) tr

/-- `SubDeviceGroup::transition_to(desired)`: Ok = the new typestate is handed out. -/
def transitionTo (m : Mode) (pduLen desired : Nat) (members : List Nat) (tr : List Ev) :
    Res Unit × List Ev × List (List Dg) :=
  match requestAll desired members tr with
  | (.error e, t, s) => (.error e, t, s)
  | (.ok (), t, s) =>
    let r := waitForState m pduLen desired members t
    (r.1, r.2.1, s ++ r.2.2)

/-- `SubDeviceGroup::request_into_op` (SAFE-OP → OP without waiting). -/
def requestIntoOp (members : List Nat) (tr : List Ev) : Res Unit × List Ev × List (List Dg) :=
  requestAll SdState.op.toNat members tr

/-- The per-cycle state list of `tx_rx*`: `AlControl::unpack(pdu)?.state` of every status datagram,
    as `u8::from` values. -/
def statesOf : List Pdu → Res (List Nat)
  | [] => .ok []
  | p :: ps =>
    match unpackAlControl p.data with
    | .error e => .error e
    | .ok c =>
      match statesOf ps with
      | .error e => .error e
      | .ok l => .ok ((SdState.ofNat c.state).toNat :: l)

end Ec.Group
