//! C19 runner. `gen-types <workfile> <outfile>`: every line of the work file is `<subject index or -> <case line>`;
//! one answer line per case is written to the out file. Value-level operations are dispatched into `generated.rs`
//! (types compiled with the real derive macro); `parse` cases run the macro's own `parse_struct` / `parse_enum` /
//! `generate_*` functions (its source files are included below as modules) on the item text emitted for the
//! T-expression.
#![allow(warnings)]

#[path = "/repo/ethercrab-wire-derive/src/generate_enum.rs"]
mod generate_enum;
#[path = "/repo/ethercrab-wire-derive/src/generate_struct.rs"]
mod generate_struct;
#[path = "/repo/ethercrab-wire-derive/src/help.rs"]
mod help;
#[path = "/repo/ethercrab-wire-derive/src/parse_enum.rs"]
mod parse_enum;
#[path = "/repo/ethercrab-wire-derive/src/parse_struct.rs"]
mod parse_struct;

#[path = "../../src/c19_common.rs"]
mod common;
mod generated;
mod ops;

use common::{emit_item, parse_ty, rust_type, Emit, Ty};
use std::panic::{catch_unwind, AssertUnwindSafe};

fn struct_err_tok(msg: &str) -> String {
    let table: [(&str, &str); 7] = [
        ("'bits' and 'bytes' attribute not allowed at the same time", "BitsAndBytes"),
        ("Struct total bit width is required", "WidthRequired"),
        ("Only structs with named fields can be derived.", "NamedOnly"),
        ("Field must have a width attribute", "FieldWidthRequired"),
        ("Multibyte fields must be byte-aligned at start and end.", "MultibyteAlign"),
        ("Fields smaller than 8 bits may not cross byte boundaries", "SmallCrosses"),
        ("Total field width is ", "TotalWidth"),
    ];
    for (p, t) in table {
        if msg.starts_with(p) {
            return format!("err:{t}");
        }
    }
    format!("err:Other({})", msg.replace(' ', "_"))
}

fn enum_err_tok(msg: &str) -> String {
    let table: [(&str, &str); 6] = [
        ("Alternatives must be numbers", "AltNotNumber"),
        ("Enums must have a #[repr()] attribute", "NoRepr"),
        ("usize and isize may not be used as enum repr", "UsizeRepr"),
        ("Catch all cannot have alternatives", "CatchAllAlternatives"),
        ("Only one catch all variant is allowed", "TwoCatchAll"),
        ("Only one default variant is allowed", "TwoDefault"),
    ];
    for (p, t) in table {
        if msg.starts_with(p) {
            return format!("err:{t}");
        }
    }
    format!("err:Other({})", msg.replace(' ', "_"))
}

/// `parse <T>`: item text -> `syn::DeriveInput` -> the macro's parser and generators.
fn parse_case(t: &str) -> String {
    let Some(ty) = parse_ty(t) else { return "bad-type".into() };
    fn item_name(_: &Ty) -> String {
        "Nested".into()
    }
    let field_ty = |t: &Ty| rust_type(t, &item_name);
    let Some(text) = emit_item(&ty, &Emit { name: "Subject", prefix: "", packed: false, type_name: &field_ty }) else {
        return "bad-type".into();
    };
    let input: syn::DeriveInput = match syn::parse_str(&text) {
        Ok(i) => i,
        Err(e) => return format!("syn-error({})", e.to_string().replace(' ', "_")),
    };
    match input.clone().data {
        syn::Data::Struct(s) => match catch_unwind(AssertUnwindSafe(|| parse_struct::parse_struct(s, input.clone()))) {
            Err(_) => "parsepanic".into(),
            Ok(Err(e)) => struct_err_tok(&e.to_string()),
            Ok(Ok(parsed)) => {
                let len = parsed.width_bits.div_ceil(8);
                let w = catch_unwind(AssertUnwindSafe(|| generate_struct::generate_struct_write(&parsed, &input).to_string())).is_ok();
                let r = catch_unwind(AssertUnwindSafe(|| {
                    let mut s = generate_struct::generate_struct_read(&parsed, &input).to_string();
                    s.push_str(&generate_struct::generate_sized_impl(&parsed, &input).to_string());
                    s
                }))
                .is_ok();
                if !r {
                    return "genpanic".into();
                }
                format!("ok:{}:{}", len, if w { "w" } else { "nw" })
            }
        },
        syn::Data::Enum(e) => match catch_unwind(AssertUnwindSafe(|| parse_enum::parse_enum(e, input.clone()))) {
            Err(_) => "parsepanic".into(),
            Ok(Err(e)) => enum_err_tok(&e.to_string()),
            Ok(Ok(parsed)) => {
                let size = match parsed.repr_type.to_string().as_str() {
                    "u8" | "i8" => 1,
                    "u16" | "i16" => 2,
                    "u32" | "i32" => 4,
                    "u64" | "i64" => 8,
                    _ => 0,
                };
                let ok = catch_unwind(AssertUnwindSafe(|| {
                    let mut s = generate_enum::generate_enum_write(parsed.clone(), &input, false).to_string();
                    s.push_str(&generate_enum::generate_enum_read(parsed.clone(), &input).to_string());
                    s
                }))
                .is_ok();
                if ok { format!("ok:{size}:w") } else { "genpanic".into() }
            }
        },
        syn::Data::Union(_) => "bad-type".into(),
    }
}

fn main() {
    let a: Vec<String> = std::env::args().collect();
    if a.len() < 3 {
        eprintln!("usage: gen-types <workfile> <outfile>");
        std::process::exit(2);
    }
    std::panic::set_hook(Box::new(|_| {}));
    let work = std::fs::read_to_string(&a[1]).expect("work file");
    let mut out = String::new();
    for line in work.lines() {
        let toks: Vec<&str> = line.split(' ').collect();
        // <idx> c19 <op> <T> args…
        let ans = if toks.len() < 4 || toks[1] != "c19" {
            "bad-case".to_string()
        } else if toks[2] == "parse" {
            catch_unwind(|| parse_case(toks[3])).unwrap_or_else(|_| "panic".into())
        } else {
            match toks[0].parse::<usize>() {
                Ok(idx) => {
                    let op = toks[2];
                    let args = &toks[4..];
                    catch_unwind(|| generated::run(idx, op, args)).unwrap_or_else(|_| "panic".into())
                }
                Err(_) => "bad-case".to_string(),
            }
        };
        out.push_str(&ans);
        out.push('\n');
    }
    std::fs::write(&a[2], out).expect("out file");
}
