/-
  C09 — initialisation finds every SubDevice once and addresses each distinctly.
  Property theorems only; helper lemmas live in EcModel/Lemmas/{NetLemmas,InitLemmas,InitLemmas2,InitLemmas3,InitNoPanic}.

  Subject: `Ec.Init.init`, the hand translation of `MainDevice::init` over the abstract segment of
  `Ec.Net` (ring of responsive devices in a line, arbitrary station addresses and AL states before init).
  All theorems hold for every ring of 1..65535 devices (65535 = the largest count a 16-bit working
  counter can report), every capacity, every group filter.
-/
import EcModel.Lemmas.InitLemmas3
import EcModel.Lemmas.InitNoPanic

namespace Ec.C09

open Ec Ec.Net Ec.Init Ec.Gen.Init

/-! ### T1: facts regenerated from /repo on every run that the model relies on -/

/-- Shape of `MainDevice::init` and its helpers as found in the source. -/
theorem t1_init_shape :
    countFirst = true ∧ zeroReturnsGroups = true ∧ twoPhase = true ∧ phaseOrder = true ∧
    cfgAddrWrapping = true ∧ apwrTargetsStationAddress = true ∧ capacitySubDevice = true ∧
    capacityGroup = true ∧ groupPushCapacity = true ∧ countIsBrdWkc = true ∧ apwrNegatesPosition = true ∧
    newWaitsForInit = true ∧ preopPerSubdevice = true := by decide

/-- Register numbers and the base address the theorems are stated for. -/
theorem t1_registers :
    REG_Type = 0x0000 ∧ REG_ConfiguredStationAddress = 0x0010 ∧ REG_AlControl = 0x0120 ∧ REG_AlStatus = 0x0130 ∧
    Ec.Gen.BASE_SUBDEVICE_ADDRESS = 0x1000 ∧ fmmuRegs.length = 16 ∧ smRegs.length = 16 := by decide

/-! ### count -/

/-- The count is the ring length: a broadcast read is executed by every device once. -/
theorem count_is_n (ring : List Dev) (h : ring.length ≤ 65535) :
    wkc (bExecutors ring.length) = ring.length := wkc_bExecutors _ h

/-- ... and it is the first thing on the wire. -/
theorem count_first (maxSub : Nat) (caps : List Nat) (assign : Record → Option Nat) (iters : Nat) (ring : List Dev)
    (h : ring.length ≤ 65535) :
    (init maxSub caps assign iters ring).log1.head? = some (Tok1.brd REG_Type, List.range ring.length) := by
  by_cases h0 : ring = []
  · subst h0; rfl
  · rw [init_eq maxSub caps assign iters ring h0 h]; rfl

/-! ### addresses -/

/-- Auto-increment addressing reaches exactly the position asked for. -/
theorem apwr_reaches_position (idx n : Nat) (hi : idx < n) (hn : n ≤ 65536) :
    apExecutors (apAddr idx) n = [idx] := apExecutors_single idx n hi hn

/-- After init's first loop the device at ring position `i` holds `0x1000 + i (mod 2^16)`, whatever any
    device held before (duplicates included), whatever else init goes on to do (capacity errors included). -/
theorem address_assigned (maxSub : Nat) (caps : List Nat) (assign : Record → Option Nat) (iters : Nat)
    (ring : List Dev) (h0 : ring ≠ []) (h : ring.length ≤ 65535) :
    (init maxSub caps assign iters ring).stations = (List.range ring.length).map cfgAddr := by
  rw [init_eq maxSub caps assign iters ring h0 h]

theorem address_at (maxSub : Nat) (caps : List Nat) (assign : Record → Option Nat) (iters : Nat)
    (ring : List Dev) (h0 : ring ≠ []) (h : ring.length ≤ 65535) (i : Nat) (hi : i < ring.length) :
    (init maxSub caps assign iters ring).stations[i]? = some ((0x1000 + i) % 65536) := by
  rw [address_assigned maxSub caps assign iters ring h0 h]
  simp [hi, cfgAddr, Ec.Gen.BASE_SUBDEVICE_ADDRESS]

/-- No wrap below position 61 440. -/
theorem address_no_wrap (i : Nat) (h : i < 61440) : cfgAddr i = 0x1000 + i := cfgAddr_nowrap i h

/-- The wrap statement: position 61 440 gets address 0, and so on (`wrapping_add`). -/
theorem address_wraps (i : Nat) (h1 : 61440 ≤ i) (h2 : i < 65536) : cfgAddr i = i - 61440 := by
  unfold cfgAddr Ec.Gen.BASE_SUBDEVICE_ADDRESS; omega

/-- Pairwise distinct for every n ≤ 65 535. -/
theorem addresses_distinct (maxSub : Nat) (caps : List Nat) (assign : Record → Option Nat) (iters : Nat)
    (ring : List Dev) (h0 : ring ≠ []) (h : ring.length ≤ 65535) (i j : Nat) (hi : i < ring.length)
    (hj : j < ring.length)
    (heq : (init maxSub caps assign iters ring).stations[i]? = (init maxSub caps assign iters ring).stations[j]?) :
    i = j := by
  rw [address_assigned maxSub caps assign iters ring h0 h] at heq
  simp [hi, hj] at heq
  exact cfgAddr_inj i j (by omega) (by omega) heq

/-! ### two phases -/

/-- The two command logs share no addressing mode: phase 1 cannot emit a configured-address command ... -/
theorem phase1_no_fp (t : Tok1) : (∃ r, t = .brd r) ∨ (∃ r, t = .bwr r) ∨ (∃ p r, t = .apwr p r) := by
  cases t with
  | brd r => exact Or.inl ⟨r, rfl⟩
  | bwr r => exact Or.inr (Or.inl ⟨r, rfl⟩)
  | apwr p r => exact Or.inr (Or.inr ⟨p, r, rfl⟩)

/-- ... and the whole of phase 1 (count, reset, every APWR, each executed by its own position only) is on
    the wire before the first configured-address command: the full trace is `log1` followed by `log2`. -/
theorem phase1_complete (maxSub : Nat) (caps : List Nat) (assign : Record → Option Nat) (iters : Nat)
    (ring : List Dev) (h0 : ring ≠ []) (h : ring.length ≤ 65535) :
    (init maxSub caps assign iters ring).log1 = phase1Log ring.length ∧
    ∀ i, i < ring.length →
      (Tok1.apwr i REG_ConfiguredStationAddress, [i]) ∈ (init maxSub caps assign iters ring).log1 := by
  rw [init_eq maxSub caps assign iters ring h0 h]
  refine ⟨rfl, ?_⟩
  intro i hi
  simp only [phase1Log, List.mem_append, List.mem_map, List.mem_range'_1]
  exact Or.inr ⟨i, ⟨by omega, by omega⟩, rfl⟩

/-- Sufficient: once all addresses are assigned, a command to `0x1000 + i` is executed by device `i` and by
    no other, so stale duplicates never answer together. -/
theorem two_phase_sufficient (maxSub : Nat) (caps : List Nat) (assign : Record → Option Nat) (iters : Nat)
    (ring : List Dev) (h0 : ring ≠ []) (h : ring.length ≤ 65535) (i : Nat) (hi : i < ring.length) :
    fpExecutors (init maxSub caps assign iters ring).stations (cfgAddr i) = [i] := by
  rw [address_assigned maxSub caps assign iters ring h0 h]
  exact fpExecutors_assigned ring.length i (by omega) hi

def devA : Dev := ⟨⟨7, 2, 0x044c2c52, 1, 11, some [65], 0, false, []⟩, 0x1234, 1⟩
/-- a device that was powered before: it still holds the address init is about to give to its neighbour -/
def devB : Dev := ⟨⟨9, 2, 0x07d43052, 1, 22, some [66], 2, true, [0, 1]⟩, 0x1000, 8⟩

/-- Needed: with ONE loop (`apwr(i)` immediately followed by `SubDevice::new(i)`) the stale device answers
    together with device 0 — two executors, working counter 2, init fails. -/
theorem one_phase_crosstalk_counterexample :
    fpExecutors (writeAt (apExecutors (apAddr 0) 2) (cfgAddr 0) [devA.station, devB.station]) (cfgAddr 0) = [0, 1] ∧
    (onePhaseLoop 2 [1, 1] [devA.info, devB.info] 2 0 [devA.station, devB.station] []).1 = .err .wkc := by
  decide

/-- The same ring through the real two-phase `init`: fine. -/
theorem two_phase_same_ring_ok :
    (init 2 [2] (fun _ => some 0) 1 [devA, devB]).result =
      .ok [[⟨0, 0x1000, devA.info⟩, ⟨1, 0x1001, devB.info⟩]] := by
  decide

/-! ### records, groups, PRE-OP, capacity -/

/-- Everything a successful init returns: each record is built from the device at its own position and
    from no other; every device is in exactly one group, the one the filter chose; all are in PRE-OP. -/
theorem init_ok (maxSub : Nat) (caps : List Nat) (assign : Record → Option Nat) (iters : Nat)
    (ring : List Dev) (h0 : ring ≠ []) (h : ring.length ≤ 65535) (gs : List (List Record))
    (hok : (init maxSub caps assign iters ring).result = .ok gs) :
    ring.length ≤ maxSub ∧
    gs.flatten.Perm ((List.range ring.length).map (recordOf (ring.map (·.info)))) ∧
    gs.length = caps.length ∧
    (∀ k r, r ∈ gs.getD k [] → assign r = some k) ∧
    (∀ a ∈ (init maxSub caps assign iters ring).als, a = 2) ∧
    (init maxSub caps assign iters ring).als.length = ring.length := by
  rw [init_eq maxSub caps assign iters ring h0 h] at hok ⊢
  exact (afterAssign_spec maxSub caps assign iters ring.length (ring.map (·.info)) h (by simp)).2 gs hok

/-- Record `i` is a function of device `i` alone. -/
theorem record_from_own_device (maxSub : Nat) (caps : List Nat) (assign : Record → Option Nat) (iters : Nat)
    (ring : List Dev) (h0 : ring ≠ []) (h : ring.length ≤ 65535) (gs : List (List Record))
    (hok : (init maxSub caps assign iters ring).result = .ok gs) (r : Record) (hr : r ∈ gs.flatten) :
    r.index < ring.length ∧ r.cfg = cfgAddr r.index ∧ r.info = (ring.getD r.index default).info := by
  have hp := (init_ok maxSub caps assign iters ring h0 h gs hok).2.1
  have hm := hp.mem_iff.mp hr
  simp only [List.mem_map, List.mem_range] at hm
  obtain ⟨i, hi, rfl⟩ := hm
  refine ⟨hi, rfl, ?_⟩
  simp [recordOf, List.getD_eq_getElem?_getD, hi]

/-- Devices elsewhere in the ring do not influence record `i`. -/
theorem record_independent (infos infos' : List DevInfo) (i : Nat) (h : infos.getD i default = infos'.getD i default) :
    recordOf infos i = recordOf infos' i := by
  simp only [recordOf, h]

/-- Every device is found exactly once: each ring position occurs exactly once over all groups. -/
theorem each_device_one_group (maxSub : Nat) (caps : List Nat) (assign : Record → Option Nat) (iters : Nat)
    (ring : List Dev) (h0 : ring ≠ []) (h : ring.length ≤ 65535) (gs : List (List Record))
    (hok : (init maxSub caps assign iters ring).result = .ok gs) (i : Nat) (hi : i < ring.length) :
    (gs.flatten.map (·.index)).count i = 1 := by
  have hp := (init_ok maxSub caps assign iters ring h0 h gs hok).2.1
  have hp2 := hp.map (·.index)
  rw [hp2.count_eq]
  have : ((List.range ring.length).map (recordOf (ring.map (·.info)))).map (·.index) = List.range ring.length := by
    simp [recordOf, Function.comp_def]
  rw [this, List.count_eq_countP, List.countP_eq_length_filter,
    filter_range_singleton (fun p => p == i) ring.length i hi (by intro p _; simp)]
  rfl

/-- The group is the one the filter named. -/
theorem group_is_filters_choice (maxSub : Nat) (caps : List Nat) (assign : Record → Option Nat) (iters : Nat)
    (ring : List Dev) (h0 : ring ≠ []) (h : ring.length ≤ 65535) (gs : List (List Record))
    (hok : (init maxSub caps assign iters ring).result = .ok gs) (k : Nat) (r : Record) (hr : r ∈ gs.getD k []) :
    assign r = some k :=
  (init_ok maxSub caps assign iters ring h0 h gs hok).2.2.2.1 k r hr

/-- A successful init leaves every device in PRE-OP (AL status 2, no error indication). -/
theorem all_preop (maxSub : Nat) (caps : List Nat) (assign : Record → Option Nat) (iters : Nat)
    (ring : List Dev) (h0 : ring ≠ []) (h : ring.length ≤ 65535) (gs : List (List Record))
    (hok : (init maxSub caps assign iters ring).result = .ok gs) :
    (init maxSub caps assign iters ring).als = List.replicate ring.length 2 := by
  have hs := init_ok maxSub caps assign iters ring h0 h gs hok
  exact List.eq_replicate_iff.mpr ⟨hs.2.2.2.2.2, hs.2.2.2.2.1⟩

/-- More devices than `MAX_SUBDEVICES`: `Err(Capacity)`. Not a panic, not `Ok`, whatever the devices,
    the groups and the filter are. -/
theorem capacity_error (maxSub : Nat) (caps : List Nat) (assign : Record → Option Nat) (iters : Nat)
    (ring : List Dev) (h : ring.length ≤ 65535) (hcap : maxSub < ring.length) :
    (init maxSub caps assign iters ring).result = .err .capSub := by
  have h0 : ring ≠ [] := by intro e; subst e; simp at hcap
  rw [init_eq maxSub caps assign iters ring h0 h]
  exact (afterAssign_spec maxSub caps assign iters ring.length (ring.map (·.info)) h (by simp)).1 hcap

/-- Init never panics: on any ring of responsive devices, with any capacities and any filter (the model has
    no panic site on this path; the harness checks the implementation's `catch_unwind` outcome against
    this on every case). -/
theorem init_no_panic (maxSub : Nat) (caps : List Nat) (assign : Record → Option Nat) (iters : Nat)
    (ring : List Dev) (s : String) :
    (init maxSub caps assign iters ring).result ≠ .panic s :=
  init_no_panic' maxSub caps assign iters ring s

/-- An empty network: `Ok`, every group empty, nothing on the wire but the count. -/
theorem empty_network (maxSub : Nat) (caps : List Nat) (assign : Record → Option Nat) (iters : Nat) :
    init maxSub caps assign iters [] =
      ⟨.ok (caps.map fun _ => []), [], [], [(Tok1.brd REG_Type, [])], []⟩ := by
  rfl

/-! ### non-vacuity -/

/-- Three devices that all hold the address init hands out first, two groups, a Deque of four. -/
example :
    let ring := [devB, devB, { devA with station := 0x1000 }]
    let run := init 4 [2, 2] (fun r => some (r.index % 2)) 2 ring
    run.result = .ok [[⟨0, 0x1000, devB.info⟩, ⟨2, 0x1002, devA.info⟩], [⟨1, 0x1001, devB.info⟩]] ∧
    run.stations = [0x1000, 0x1001, 0x1002] ∧ run.als = [2, 2, 2] := by
  decide

/-- Capacity: three devices, room for two. -/
example : (init 2 [4] (fun _ => some 0) 0 [devA, devB, devA]).result = .err .capSub := by decide

/-- A group that is too small: also `Capacity`. -/
example : (init 4 [1] (fun _ => some 0) 0 [devA, devB]).result = .err .capSub := by decide

/-- The filter may refuse a device. -/
example : (init 4 [4] (fun r => if r.index = 1 then none else some 0) 0 [devA, devB]).result = .err .unknown := by
  decide

end Ec.C09
