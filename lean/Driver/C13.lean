import EcModel.Drv.C13
def main : IO Unit := Ec.Drv.runDriver Ec.Drv.C13.handle
