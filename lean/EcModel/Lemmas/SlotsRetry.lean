/-
  Deadlines and retries of one request, observed along arbitrary histories (C06).
-/
import EcModel.Lemmas.SlotsShape

namespace Ec

/-! ## `ReceiveFrameFut::poll`, case by case -/

/-- Complete characterisation of a poll of the future in register `r` (slot `k`) in a world that
    satisfies `J`: response there → `ready.ok` (the timer is not even looked at); else timer not
    expired → `pending`, nothing changes; expired without retries → the slot is released and the
    result is `ready.err.timeout`; expired with retries → one retry less, timer re-armed, `pending`,
    and the frame is queued again (`Sent → Sendable` compare-exchange) if it was waiting for its
    response — in any other state the slot is left alone. -/
theorem poll_cases {w : World} (hJ : J w.1 w.2) {r k ρ D T : Nat} {a : Bool}
    (hf : getH w.2 r = some ⟨r, k, .fut ρ D T a⟩) :
    ((w.1.slot k).st = .rxDone ∧
      step w (.poll r) = ((w.1.setSlot k { w.1.slot k with st := .rxProcessing }, putH w.2 ⟨r, k, .received⟩), "ready.ok")) ∨
    ((w.1.slot k).st ≠ .rxDone ∧ ¬ (a = true ∧ D ≤ w.1.now) ∧
      step w (.poll r) = ((w.1, putH w.2 ⟨r, k, .fut ρ D T true⟩), "pending")) ∨
    ((w.1.slot k).st ≠ .rxDone ∧ (a = true ∧ D ≤ w.1.now) ∧ ρ = 0 ∧
      step w (.poll r) = ((w.1.setSlot k { w.1.slot k with st := .none }, delH w.2 r), "ready.err.timeout")) ∨
    ((w.1.slot k).st ≠ .rxDone ∧ (a = true ∧ D ≤ w.1.now) ∧ ρ ≠ 0 ∧
      step w (.poll r) = ((if (w.1.slot k).st = .sent then w.1.setSlot k { w.1.slot k with st := .sendable } else w.1,
        putH w.2 ⟨r, k, .fut (ρ - 1) (w.1.now + T) T true⟩), "pending")) := by
  have hst := hJ.fut_state (getH_some hf).1 (by simp [HK.cls])
  simp only at hst
  by_cases hd : (w.1.slot k).st = .rxDone
  · left; exact ⟨hd, by simp [step, opPoll, hf, hd]⟩
  · right
    have hok : (w.1.slot k).st = .sendable ∨ (w.1.slot k).st = .sending ∨ (w.1.slot k).st = .sent ∨
        (w.1.slot k).st = .rxBusy := by
      rcases hst with h | h | h | h | h
      · exact Or.inl h
      · exact Or.inr (Or.inl h)
      · exact Or.inr (Or.inr (Or.inl h))
      · exact Or.inr (Or.inr (Or.inr h))
      · exact absurd h hd
    by_cases hx : a = true ∧ D ≤ w.1.now
    · right
      by_cases hr : ρ = 0
      · left; exact ⟨hd, hx, hr, by simp [step, opPoll, hf, hd, hx, hr]⟩
      · right; exact ⟨hd, hx, hr, by simp [step, opPoll, hf, hd, hx, hr, hok]⟩
    · left; exact ⟨hd, hx, by simp [step, opPoll, hf, hd, hx, hok]⟩

/-! ## one request observed along a history -/

/-- Bytes put on the wire for slot `k` by this step: a `send_blocking` that reports a complete send,
    on a `SendableFrame` of slot `k` (what the closure is given = `as_bytes`). -/
def stepSends (k : Nat) (v : World) : Op → List (List Nat)
  | .txSend t o =>
    if o = 0 then
      match getH v.2 t with
      | some ⟨_, k', .sendable⟩ => if k' = k then [(v.1.slot k).buf.take (16 + (v.1.slot k).used)] else []
      | _ => []
    else []
  | _ => []

/-- The timer of the future in register `r` would report expiry if polled now. -/
def expiredB (v : World) (r : Nat) : Bool :=
  match getH v.2 r with
  | some ⟨_, _, .fut _ D _ a⟩ => a && decide (D ≤ v.1.now)
  | _ => false

def stepExp (r : Nat) (v : World) : Op → Nat
  | .poll r' => if r' = r ∧ expiredB v r = true then 1 else 0
  | _ => 0

def stepPoll (r : Nat) (v : World) : Op → List String
  | .poll r' => if r' = r then [(step v (.poll r')).2] else []
  | _ => []

/-- All complete transmissions of slot `k` along a history. -/
def sends (k : Nat) : World → List Op → List (List Nat)
  | _, [] => []
  | v, op :: ops => stepSends k v op ++ sends k (step v op).1 ops

/-- Number of polls of register `r` that found the deadline expired. -/
def expiries (r : Nat) : World → List Op → Nat
  | _, [] => 0
  | v, op :: ops => stepExp r v op + expiries r (step v op).1 ops

/-- Results of all polls of register `r`. -/
def pollOuts (r : Nat) : World → List Op → List String
  | _, [] => []
  | v, op :: ops => stepPoll r v op ++ pollOuts r (step v op).1 ops

/-- Side conditions of the transmission-count clause, per step: the awaiting future is not dropped;
    no response for this request arrives (`receive_frame` leaves slot `k` alone); and whenever a
    poll finds the deadline expired the TX side has serviced the frame (it is `Sent`). -/
def StepOk (r k : Nat) (v : World) : Op → Prop
  | .dropFut r' => r' ≠ r
  | .rx b => (receiveFrame v.1 b).1.slot k = v.1.slot k
  | .poll r' => r' = r → expiredB v r = true → (v.1.slot k).st = .sent
  | _ => True

def Sched (r k : Nat) : World → List Op → Prop
  | _, [] => True
  | v, op :: ops => StepOk r k v op ∧ Sched r k (step v op).1 ops

def sentB (k : Nat) (v : World) : Nat := if (v.1.slot k).st = .sent then 1 else 0

/-- State of the request in register `r` / slot `k` configured with `R` retries whose frame bytes
    are `B`, after `e` expired deadlines. -/
structure Q (r k R : Nat) (B : List Nat) (e : Nat) (v : World) : Prop where
  fut : ∃ D T a, getH v.2 r = some ⟨r, k, .fut (R - e) D T a⟩
  le : e ≤ R
  bytes : (v.1.slot k).buf.take (16 + (v.1.slot k).used) = B
  st : (v.1.slot k).st = .sendable ∨ (v.1.slot k).st = .sending ∨ (v.1.slot k).st = .sent
  notx : (v.1.slot k).st ≠ .sending → ∀ h ∈ v.2, h.kind = .sendable → h.slot ≠ k
  onetx : (v.1.slot k).st = .sending →
    ∃ τ, (⟨τ, k, .sendable⟩ : Hd) ∈ v.2 ∧ ∀ h ∈ v.2, h.kind = .sendable → h.slot = k → h.reg = τ

theorem Q.transfer {r k R e : Nat} {B : List Nat} {v v' : World} (hQ : Q r k R B e v)
    (hs : v'.1.slot k = v.1.slot k) (hg : getH v'.2 r = getH v.2 r)
    (htx : ∀ x : Hd, x.kind = .sendable → (x ∈ v'.2 ↔ x ∈ v.2)) : Q r k R B e v' := by
  refine ⟨by rw [hg]; exact hQ.fut, hQ.le, by rw [hs]; exact hQ.bytes, by rw [hs]; exact hQ.st, ?_, ?_⟩
  · rw [hs]; intro hne h hm hk
    exact hQ.notx hne h ((htx h hk).mp hm) hk
  · rw [hs]; intro he
    obtain ⟨τ, hm, hu⟩ := hQ.onetx he
    exact ⟨τ, (htx _ rfl).mpr hm, fun h hm' hk => hu h ((htx h hk).mp hm') hk⟩

/-- Replacing / removing the owner handle in `r` does not change the set of TX-side handles. -/
theorem sendable_mem_putH {hs : List Hd} (hr : Regs hs) {r : Nat} {h : Hd} (e : getH hs r = some h)
    (ho : h.kind.cls ≠ 4) (y : Hd) (hy : y.reg = r) (hyo : y.kind.cls ≠ 4) (x : Hd) (hx : x.kind = .sendable) :
    x ∈ putH hs y ↔ x ∈ hs := by
  obtain ⟨hm, hr'⟩ := getH_some e
  rw [mem_putH]
  constructor
  · rintro (rfl | a)
    · rw [hx] at hyo; simp [HK.cls] at hyo
    · exact a.1
  · intro hxm
    right; refine ⟨hxm, ?_⟩
    intro hxr
    have : x = h := regs_inj hr hxm hm (hxr.trans (hy.trans hr'.symm))
    subst this
    rw [hx] at ho; simp [HK.cls] at ho

/-- What one step must establish. -/
def StepConcl (r k R : Nat) (B : List Nat) (e : Nat) (v : World) (op : Op) : Prop :=
  Q r k R B (e + stepExp r v op) (step v op).1 ∧
  sentB k v + (stepSends k v op).length = stepExp r v op + sentB k (step v op).1 ∧
  (∀ x ∈ stepSends k v op, x = B) ∧ (∀ o ∈ stepPoll r v op, o = "pending")

theorem StepConcl.of_transfer {r k R e : Nat} {B : List Nat} {v : World} {op : Op} (hQ : Q r k R B e v)
    (h1 : stepSends k v op = []) (h2 : stepExp r v op = 0) (h3 : stepPoll r v op = [])
    (hs : (step v op).1.1.slot k = v.1.slot k) (hg : getH (step v op).1.2 r = getH v.2 r)
    (htx : ∀ x : Hd, x.kind = .sendable → (x ∈ (step v op).1.2 ↔ x ∈ v.2)) : StepConcl r k R B e v op := by
  refine ⟨by rw [h2]; exact hQ.transfer hs hg htx, ?_, by rw [h1]; simp, by rw [h3]; simp⟩
  rw [h1, h2]; simp [sentB, hs]

theorem StepConcl.of_noop {r k R e : Nat} {B : List Nat} {v : World} {op : Op} (hQ : Q r k R B e v)
    (h1 : stepSends k v op = []) (h2 : stepExp r v op = 0) (h3 : stepPoll r v op = [])
    (h : (step v op).1 = v) : StepConcl r k R B e v op :=
  StepConcl.of_transfer hQ h1 h2 h3 (by rw [h]) (by rw [h]) (by intro x _; rw [h])

/-- Operations on other requests' handles. -/
theorem step_owner_other {r k R e : Nat} {B : List Nat} {v : World} (hJ : J v.1 v.2) (hQ : Q r k R B e v)
    (op : Op) (r' : Nat) (ho : op.ownerReg = some r') (hne : r' ≠ r) : StepConcl r k R B e v op := by
  obtain ⟨D, T, a, hf⟩ := hQ.fut
  have hm := (getH_some hf).1
  have hsh := shape v op r' hJ.pos ho
  obtain ⟨f1, f2, f3⟩ := hsh.frame hJ hm (by simp [HK.cls]) (by simpa using hne.symm)
  refine StepConcl.of_transfer hQ ?_ ?_ ?_ f1 (hsh.getH_other hJ hne.symm) f3
  · cases op <;> simp [Op.ownerReg] at ho <;> rfl
  · cases op <;> simp [Op.ownerReg] at ho <;> try rfl
    subst ho; simp [stepExp, hne]
  · cases op <;> simp [Op.ownerReg] at ho <;> try rfl
    subst ho; simp [stepPoll, hne]

/-- Operations that name register `r` but need another kind of handle there do nothing. -/
theorem step_owner_same_noop {v : World} {r k ρ D T : Nat} {a : Bool}
    (hf : getH v.2 r = some ⟨r, k, .fut ρ D T a⟩) (op : Op) (ho : op.ownerReg = some r)
    (h1 : op ≠ .poll r) (h2 : op ≠ .dropFut r) : (step v op).1 = v := by
  cases op <;> simp [Op.ownerReg] at ho <;> subst ho
  · simp [step, hf]
  · simp [step, opPush, hf]
  · simp [step, opRest, hf]
  · simp [step, opMark, hf]
  · simp [step, opDropCreated, hf]
  · exact absurd rfl h1
  · exact absurd rfl h2
  · simp [step, opFirst, hf]
  · simp [step, opIter, hf]
  · simp [step, opDropReceived, hf]
  · simp [step, opViewRead, hf]
  · simp [step, opViewTrim, hf]
  · simp [step, opDropView, hf]

theorem step_poll_self {r k R e : Nat} {B : List Nat} {v : World} (hJ : J v.1 v.2) (hQ : Q r k R B e v)
    (hok : StepOk r k v (.poll r)) (hexp : stepExp r v (.poll r) ≤ R - e) : StepConcl r k R B e v (.poll r) := by
  obtain ⟨D, T, a, hf⟩ := hQ.fut
  have hk : k < v.1.n := hJ.owner_lt (getH_some hf).1 (by simp [HK.cls])
  have hxb : expiredB v r = (a && decide (D ≤ v.1.now)) := by simp [expiredB, hf]
  have hnd : (v.1.slot k).st ≠ .rxDone := by
    rcases hQ.st with h | h | h <;> rw [h] <;> simp
  have htx : ∀ y : Hd, y.reg = r → y.kind.cls ≠ 4 → ∀ x : Hd, x.kind = .sendable → (x ∈ putH v.2 y ↔ x ∈ v.2) :=
    fun y hy hyo x hx => sendable_mem_putH hJ.regs hf (by simp [HK.cls]) y hy hyo x hx
  rcases poll_cases hJ hf with ⟨h, _⟩ | ⟨_, hx, hs⟩ | ⟨_, hx, hr, _⟩ | ⟨_, hx, hr, hs⟩
  · exact absurd h hnd
  · -- not expired
    have hx' : expiredB v r = false := by
      rw [hxb]; cases a <;> simp at hx ⊢; omega
    have e0 : stepExp r v (.poll r) = 0 := by simp [stepExp, hx']
    refine ⟨?_, ?_, by simp [stepSends], by simp [stepPoll, hs]⟩
    · rw [e0, hs]
      exact ⟨⟨D, T, true, getH_putH_self hJ.regs _⟩, hQ.le, hQ.bytes, hQ.st,
        fun hne h hm hkd => hQ.notx hne h ((htx _ rfl (by simp [HK.cls]) h hkd).mp hm) hkd,
        fun he => by
          obtain ⟨τ, hm, hu⟩ := hQ.onetx he
          exact ⟨τ, (htx _ rfl (by simp [HK.cls]) _ rfl).mpr hm,
            fun h hm' hkd => hu h ((htx _ rfl (by simp [HK.cls]) h hkd).mp hm') hkd⟩⟩
    · rw [e0, hs]; simp [stepSends, sentB]
  · -- expired with no retry left: excluded by the bound on expiries
    have hx' : expiredB v r = true := by rw [hxb]; simp [hx.1, hx.2]
    have : stepExp r v (.poll r) = 1 := by simp [stepExp, hx']
    rw [this, hr] at hexp; omega
  · -- expired, retry
    have hx' : expiredB v r = true := by rw [hxb]; simp [hx.1, hx.2]
    have e1 : stepExp r v (.poll r) = 1 := by simp [stepExp, hx']
    have hsent : (v.1.slot k).st = .sent := hok rfl hx'
    rw [if_pos hsent] at hs
    have hsl : ((step v (.poll r)).1.1.slot k) = { v.1.slot k with st := .sendable } := by
      rw [hs]; exact slot_setSlot_eq _ _ _ hk
    refine ⟨?_, ?_, by simp [stepSends], by simp [stepPoll, hs]⟩
    · rw [e1]
      refine ⟨⟨v.1.now + T, T, true, ?_⟩, by omega, by rw [hsl]; exact hQ.bytes, by rw [hsl]; simp, ?_, ?_⟩
      · rw [hs]
        have : R - (e + 1) = R - e - 1 := by omega
        rw [this]; exact getH_putH_self hJ.regs _
      · intro _ h hm hkd
        rw [hs] at hm
        exact hQ.notx (by rw [hsent]; simp) h ((htx _ rfl (by simp [HK.cls]) h hkd).mp hm) hkd
      · rw [hsl]; intro he; simp at he
    · rw [e1]; simp [stepSends, sentB, hsent, hsl]

theorem step_txNext {r k R e : Nat} {B : List Nat} {v : World} (hJ : J v.1 v.2) (hQ : Q r k R B e v)
    (τ : Nat) : StepConcl r k R B e v (.txNext τ) := by
  obtain ⟨D, T, a, hf⟩ := hQ.fut
  rcases txNext_cases v τ with h | ⟨i, hfr, hin, hsi, _, h⟩
  · exact StepConcl.of_noop hQ rfl rfl rfl h
  have hτ : τ ≠ r := fun e' => hfr _ (getH_some hf).1 (by simp [e'])
  have hg : getH (putH v.2 ⟨τ, i, .sendable⟩) r = getH v.2 r :=
    getH_putH_other hJ.regs _ (by simpa using hτ.symm)
  have hmem : ∀ x : Hd, x ∈ putH v.2 ⟨τ, i, .sendable⟩ ↔ x = ⟨τ, i, .sendable⟩ ∨ x ∈ v.2 := by
    intro x; rw [mem_putH]
    constructor
    · rintro (a | a)
      · exact Or.inl a
      · exact Or.inr a.1
    · rintro (a | a)
      · exact Or.inl a
      · exact Or.inr ⟨a, hfr x a⟩
  unfold StepConcl
  rw [h]
  simp only [stepExp, stepSends, stepPoll, Nat.add_zero, List.length_nil, Nat.zero_add,
    List.not_mem_nil, false_imp_iff, implies_true, and_true]
  by_cases hik : i = k
  · subst hik
    have hsl : ((v.1.setSlot i { v.1.slot i with st := .sending }).slot i) = { v.1.slot i with st := .sending } :=
      slot_setSlot_eq _ _ _ hin
    refine ⟨⟨⟨D, T, a, by rw [hg]; exact hf⟩, hQ.le, by simp only; rw [hsl]; exact hQ.bytes,
      by simp only; rw [hsl]; simp, by simp only; rw [hsl]; simp, ?_⟩, ?_⟩
    · intro _
      refine ⟨τ, (hmem _).mpr (Or.inl rfl), ?_⟩
      intro h hm hkd hsk
      rcases (hmem h).mp hm with rfl | hm'
      · rfl
      · exact absurd hsk (hQ.notx (by rw [hsi]; simp) h hm' hkd)
    · simp [sentB, hsl, hsi]
  · have hsl : ((v.1.setSlot i { v.1.slot i with st := .sending }).slot k) = v.1.slot k :=
      slot_setSlot_ne _ _ _ _ (fun e' => hik e'.symm)
    refine ⟨⟨⟨D, T, a, by rw [hg]; exact hf⟩, hQ.le, by simp only; rw [hsl]; exact hQ.bytes,
      by simp only; rw [hsl]; exact hQ.st, ?_, ?_⟩, ?_⟩
    · simp only; rw [hsl]
      intro hne h hm hkd
      rcases (hmem h).mp hm with rfl | hm'
      · exact hik
      · exact hQ.notx hne h hm' hkd
    · simp only; rw [hsl]
      intro he
      obtain ⟨τ0, hm0, hu⟩ := hQ.onetx he
      refine ⟨τ0, (hmem _).mpr (Or.inr hm0), ?_⟩
      intro h hm hkd hsk
      rcases (hmem h).mp hm with rfl | hm'
      · exact absurd hsk hik
      · exact hu h hm' hkd hsk
    · simp [sentB, hsl]

theorem step_txSend {r k R e : Nat} {B : List Nat} {v : World} (hJ : J v.1 v.2) (hQ : Q r k R B e v)
    (τ o : Nat) : StepConcl r k R B e v (.txSend τ o) := by
  obtain ⟨D, T, a, hf⟩ := hQ.fut
  rcases txSend_cases v τ o with ⟨hno, h⟩ | ⟨k', hh, hcase⟩
  · refine StepConcl.of_noop hQ ?_ rfl rfl h
    cases hg' : getH v.2 τ with
    | none => simp [stepSends, hg']
    | some h' =>
      obtain ⟨reg, k'', kind⟩ := h'
      cases kind with
      | sendable => exact absurd hg' (hno reg k'')
      | _ => simp [stepSends, hg']
  have hτ : τ ≠ r := by
    intro e'; rw [e', hf] at hh; cases hh
  have hmτ := (getH_some hh).1
  have hg : getH (delH v.2 τ) r = getH v.2 r := getH_delH_other hJ.regs hτ.symm
  have hsends : stepSends k v (.txSend τ o) =
      if o = 0 then (if k' = k then [(v.1.slot k).buf.take (16 + (v.1.slot k).used)] else []) else [] := by
    simp [stepSends, hh]
  by_cases hkk : k' = k
  · subst hkk
    rcases hcase with ⟨hs, h⟩ | ⟨hs, _⟩
    · -- the live claim completes (or fails and is released)
      obtain ⟨τ0, hm0, hu⟩ := hQ.onetx hs
      have hk : k' < v.1.n := hJ.owner_lt (getH_some hf).1 (by simp [HK.cls])
      have hsl : ((step v (.txSend τ o)).1.1.slot k') =
          { v.1.slot k' with st := if o = 0 then St.sent else St.sendable } := by
        rw [h]; exact slot_setSlot_eq _ _ _ hk
      have hnotx : ∀ h' ∈ (step v (.txSend τ o)).1.2, h'.kind = .sendable → h'.slot ≠ k' := by
        intro h' hm' hkd hsk
        rw [h] at hm'
        obtain ⟨hm'', hreg⟩ := mem_delH.mp hm'
        have e1 := hu h' hm'' hkd hsk
        have e2 := hu _ hmτ rfl rfl
        simp only at e2
        exact hreg (e1.trans e2.symm)
      unfold StepConcl
      refine ⟨⟨⟨D, T, a, by rw [h]; simp only [stepExp, Nat.add_zero]; rw [hg]; exact hf⟩, hQ.le,
        by rw [hsl]; exact hQ.bytes, by rw [hsl]; split <;> simp, fun _ => hnotx, ?_⟩, ?_, ?_, by simp [stepPoll]⟩
      · rw [hsl]; intro he; split at he <;> simp at he
      · rw [hsends]; simp only [stepExp, if_true, Nat.zero_add]
        by_cases ho : o = 0
        · subst ho; simp [sentB, hs, hsl]
        · simp [ho, sentB, hs, hsl]
      · rw [hsends]; intro x hx
        by_cases ho : o = 0
        · simp [ho] at hx; rw [hx]; exact hQ.bytes
        · simp [ho] at hx
    · -- a TX handle on slot k exists although the slot is not `Sending`
      exact absurd rfl (hQ.notx hs _ hmτ rfl)
  · -- a frame of another slot
    have hsl : (step v (.txSend τ o)).1.1.slot k = v.1.slot k := by
      rcases hcase with ⟨_, h⟩ | ⟨_, h⟩ <;> rw [h]
      · exact slot_setSlot_ne _ _ _ _ (fun e' => hkk e'.symm)
    have hhs : (step v (.txSend τ o)).1.2 = delH v.2 τ := by
      rcases hcase with ⟨_, h⟩ | ⟨_, h⟩ <;> rw [h]
    unfold StepConcl
    refine ⟨⟨⟨D, T, a, by rw [hhs]; simp only [stepExp, Nat.add_zero]; rw [hg]; exact hf⟩, hQ.le,
      by rw [hsl]; exact hQ.bytes, by rw [hsl]; exact hQ.st, ?_, ?_⟩, ?_, ?_, by simp [stepPoll]⟩
    · rw [hsl, hhs]; intro hne h' hm' hkd
      exact hQ.notx hne h' (mem_delH.mp hm').1 hkd
    · rw [hsl, hhs]; intro he
      obtain ⟨τ0, hm0, hu⟩ := hQ.onetx he
      refine ⟨τ0, mem_delH.mpr ⟨hm0, ?_⟩, fun h' hm' hkd hsk => hu h' (mem_delH.mp hm').1 hkd hsk⟩
      intro e'
      simp only at e'
      have := regs_inj hJ.regs hm0 hmτ (by simpa using e')
      simp only [Hd.mk.injEq] at this
      exact hkk this.2.1.symm
    · rw [hsends]; simp [hkk, stepExp, sentB, hsl]
    · rw [hsends]; simp [hkk]

theorem step_rx {r k R e : Nat} {B : List Nat} {v : World} (hQ : Q r k R B e v) (b : List Nat)
    (hok : StepOk r k v (.rx b)) : StepConcl r k R B e v (.rx b) :=
  StepConcl.of_transfer hQ rfl rfl rfl hok rfl (fun _ _ => Iff.rfl)

/-- **One step of any history** keeps the request's state consistent with the number of expired
    deadlines and complete transmissions so far. -/
theorem Q_step {r k R e : Nat} {B : List Nat} {v : World} (hJ : J v.1 v.2) (hQ : Q r k R B e v) (op : Op)
    (hok : StepOk r k v op) (hexp : stepExp r v op ≤ R - e) : StepConcl r k R B e v op := by
  obtain ⟨D, T, a, hf⟩ := hQ.fut
  cases ho : op.ownerReg with
  | some r' =>
    by_cases hr : r' = r
    · subst hr
      by_cases h1 : op = .poll r'
      · subst h1; exact step_poll_self hJ hQ hok hexp
      · by_cases h2 : op = .dropFut r'
        · subst h2; exact absurd rfl hok
        · refine StepConcl.of_noop hQ ?_ ?_ ?_ (step_owner_same_noop hf op ho h1 h2)
          · cases op <;> simp [Op.ownerReg] at ho <;> rfl
          · cases op <;> simp [Op.ownerReg] at ho <;> try rfl
            subst ho; exact absurd rfl h1
          · cases op <;> simp [Op.ownerReg] at ho <;> try rfl
            subst ho; exact absurd rfl h1
    · exact step_owner_other hJ hQ op r' ho hr
  | none =>
    cases op <;> simp [Op.ownerReg] at ho
    · exact step_txNext hJ hQ _
    · exact step_txSend hJ hQ _ _
    · exact step_rx hQ _ hok
    · exact StepConcl.of_transfer hQ rfl rfl rfl rfl rfl (fun _ _ => Iff.rfl)
    · refine StepConcl.of_noop hQ rfl rfl rfl ?_
      have : v.2 ≠ [] := fun e' => by have := (getH_some hf).1; rw [e'] at this; cases this
      simp [step, this]
    · exact StepConcl.of_noop hQ rfl rfl rfl rfl

theorem expiries_le_length (r : Nat) (v : World) (ops : List Op) : expiries r v ops ≤ ops.length := by
  induction ops generalizing v with
  | nil => simp [expiries]
  | cons op ops ih =>
    simp only [expiries, List.length_cons]
    have : stepExp r v op ≤ 1 := by
      cases op <;> simp only [stepExp] <;> try omega
      split <;> omega
    have := ih (step v op).1
    omega

/-- **Along any history** that satisfies the side conditions and contains at most as many expired
    deadlines as retries are left: the request stays pending (every poll answers `pending`), every
    complete transmission carries the same bytes, and the number of complete transmissions equals
    the number of expired deadlines, plus one while the frame is `Sent`. -/
theorem Q_run {r k R e : Nat} {B : List Nat} {v : World} (hJ : J v.1 v.2) (hQ : Q r k R B e v) (ops : List Op)
    (hs : Sched r k v ops) (hexp : expiries r v ops ≤ R - e) :
    Q r k R B (e + expiries r v ops) (run v ops) ∧
    sentB k v + (sends k v ops).length = expiries r v ops + sentB k (run v ops) ∧
    (∀ x ∈ sends k v ops, x = B) ∧ (∀ o ∈ pollOuts r v ops, o = "pending") := by
  induction ops generalizing v e with
  | nil => exact ⟨by simpa [expiries, run] using hQ, by simp [sends, expiries, run], by simp [sends], by simp [pollOuts]⟩
  | cons op ops ih =>
    simp only [expiries] at hexp
    obtain ⟨c1, c2, c3, c4⟩ := Q_step hJ hQ op hs.1 (by omega)
    obtain ⟨d1, d2, d3, d4⟩ := ih (J_step hJ op) c1 hs.2 (by omega)
    refine ⟨?_, ?_, ?_, ?_⟩
    · simp only [expiries, run_cons]; rw [← Nat.add_assoc]; exact d1
    · simp only [sends, expiries, run_cons, List.length_append]; omega
    · intro x hx
      simp only [sends, List.mem_append] at hx
      rcases hx with hx | hx
      · exact c3 x hx
      · exact d3 x hx
    · intro o ho
      simp only [pollOuts, List.mem_append] at ho
      rcases ho with ho | ho
      · exact c4 o ho
      · exact d4 o ho

/-! ## a freshly marked request -/

/-- The bytes `send_blocking` hands to the network for slot `k` (`SendableFrame::as_bytes`). -/
def frameBytes (w : World) (k : Nat) : List Nat := (w.1.slot k).buf.take (16 + (w.1.slot k).used)

/-- The request in register `r` / slot `k` has just been marked sendable with `R` retries, and no
    `SendableFrame` of an earlier, abandoned request still points at the slot. -/
structure Fresh (w : World) (r k R : Nat) : Prop where
  fut : ∃ D T a, getH w.2 r = some ⟨r, k, .fut R D T a⟩
  st : (w.1.slot k).st = .sendable
  notx : ∀ h ∈ w.2, h.kind = .sendable → h.slot ≠ k

theorem Fresh.toQ {w : World} {r k R : Nat} (h : Fresh w r k R) : Q r k R (frameBytes w k) 0 w :=
  ⟨by simpa using h.fut, Nat.zero_le _, rfl, Or.inl h.st, fun _ => h.notx, fun e => by rw [h.st] at e; cases e⟩


end Ec
