mod c04;
mod clock;
mod rng;
mod util;

fn main() {
    let args: Vec<String> = std::env::args().collect();
    if args.len() < 5 {
        eprintln!("usage: ecverif <prop> <quick|thorough> <seed> <outdir>");
        std::process::exit(2);
    }
    let prop = args[1].as_str();
    let tier = args[2].as_str();
    let seed: u64 = args[3].parse().expect("seed");
    let out = args[4].as_str();
    // panics inside cases are caught per case; keep the default hook quiet
    std::panic::set_hook(Box::new(|_| {}));
    let mut rep = util::Report::default();
    match prop {
        "c04" => c04::run(tier, seed, &mut rep),
        _ => {
            eprintln!("unknown property {prop}");
            std::process::exit(2);
        }
    }
    rep.write(out, prop);
}
