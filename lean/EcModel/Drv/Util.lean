/- Shared parsing helpers for the line-protocol driver. Import-free apart from the models. -/
import EcModel.Basic

namespace Ec.Drv

def splitOn (s : String) (sep : String) : List String := s.splitOn sep

def nat! (s : String) : Nat := s.toNat?.getD 0

def optNat (s : String) : Option Nat := if s = "-" then none else s.toNat?

def hex! (s : String) : List Nat := (parseHex s).getD []

def joinWith (sep : String) (l : List String) : String := String.intercalate sep l

end Ec.Drv

namespace Ec.Drv

partial def ioLoop (handle : List String → String) (h out : IO.FS.Stream) : IO Unit := do
  let line ← h.getLine
  if line.isEmpty then return ()
  match line.trimAscii.toString.splitOn " " with
  | _ :: args => out.putStrLn (handle args)
  | [] => out.putStrLn "bad-case"
  ioLoop handle h out

/-- One case per line on stdin (first token = property key, ignored), one answer per line on stdout. -/
def runDriver (handle : List String → String) : IO Unit := do
  let out ← IO.getStdout
  ioLoop handle (← IO.getStdin) out
  out.flush

end Ec.Drv
