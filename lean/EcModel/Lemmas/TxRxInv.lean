/-
  Helper lemmas for C07: the invariant of the transmit side of the loop and its preservation by a digested pass.
-/
import EcModel.Lemmas.TxRxLoop

namespace Ec.TxRx
open Ec

/-! ### Ceiling division and the frame-count potential -/

def ceilDiv (a b : Nat) : Nat := (a + b - 1) / b

theorem ceilDiv_mono {a a' : Nat} (b : Nat) (h : a ≤ a') : ceilDiv a b ≤ ceilDiv a' b :=
  Nat.div_le_div_right (by omega)

theorem ceilDiv_zero {b : Nat} (hb : 0 < b) : ceilDiv 0 b = 0 := by
  unfold ceilDiv; exact Nat.div_eq_of_lt (by omega)

theorem ceilDiv_pos {a b : Nat} (hb : 0 < b) (ha : 0 < a) : 1 ≤ ceilDiv a b := by
  unfold ceilDiv; exact (Nat.le_div_iff_mul_le hb).2 (by omega)

theorem ceilDiv_step {a b : Nat} (hb : 0 < b) (ha : 0 < a) : ceilDiv (a - min a b) b + 1 ≤ ceilDiv a b := by
  by_cases hab : a ≤ b
  · rw [Nat.min_eq_left hab, Nat.sub_self, ceilDiv_zero hb]; exact ceilDiv_pos hb ha
  · have hm : min a b = b := Nat.min_eq_right (by omega)
    rw [hm]; unfold ceilDiv
    have e : a + b - 1 = (a - b + b - 1) + b := by omega
    rw [e, Nat.add_div_right _ hb]; omega

theorem ceilDiv_le {a b : Nat} (hb : 0 < b) : ceilDiv a b ≤ a := by
  unfold ceilDiv
  rcases Nat.eq_zero_or_pos a with h | h
  · subst h; simp <;> omega
  · have : (a + b - 1) / b < a + 1 := by
      apply (Nat.div_lt_iff_lt_mul hb).2
      have : a * 1 ≤ a * b := Nat.mul_le_mul_left a hb
      rw [Nat.add_mul]; omega
    omega

/-- State checks one frame can carry when it carries nothing else. -/
def perFrame (c : Cfg) : Nat := min ((c.cap - 16) / 14) 129

/-- Frames still needed: image bytes at `cap - 28` per frame, state checks at `perFrame`, plus the first frame of
    the clock variants. -/
def Phi (c : Cfg) (s : St) : Nat :=
  ceilDiv (remOf s) (c.cap - 28) + ceilDiv s.subs.length (perFrame c) + (if needDc c s then 1 else 0)

/-! ### The invariant -/

structure FrameOk (c : Cfg) (fr : Frame) : Prop where
  nonempty : fr.dgrams ≠ []
  bytes : fr.bytes = encodeFrame fr.dgrams
  size : dgramsSize fr.dgrams ≤ c.cap - 16
  len : fr.bytes.length ≤ c.cap

/-- Where the clock datagram is: nowhere (plain), or first and only once. -/
def DcOk (c : Cfg) (s : St) : Prop :=
  match c.dc with
  | none => s.timeRead = false ∧ ∀ d ∈ allDescs s.frames, isFrmw d = false
  | some r =>
    if s.timeRead then ∃ rest, allDescs s.frames = frmwDesc r :: rest ∧ ∀ d ∈ rest, isFrmw d = false
    else s.frames = []

structure FrInv (c : Cfg) (image0 : List Nat) (bound : Nat) (s : St) : Prop where
  len : s.image.length = image0.length
  sent : s.sent ≤ image0.length
  checks : s.checks ≤ c.addrs.length
  subs : s.subs = c.addrs.drop s.checks
  tiles : Tiles c.pdiStart (lrws s.frames) (c.pdiStart + s.sent)
  fprd : fprds s.frames = c.addrs.take s.checks
  frames : ∀ fr ∈ s.frames, FrameOk c fr
  dc : DcOk c s
  outs : s.image.drop c.readLen = image0.drop c.readLen
  unsent : s.image.drop s.sent = image0.drop s.sent
  sentData : lrwData s.frames = image0.take s.sent
  count : s.frames.length + Phi c s ≤ bound

theorem FrameGood.ok {c : Cfg} {s : St} {fr : Frame} (h : FrameGood c s fr) : FrameOk c fr :=
  ⟨h.nonempty, h.bytes, h.size, h.len⟩

theorem kOf_le (c : Cfg) (s : St) : kOf c s ≤ remOf s := by unfold kOf; omega

theorem kOf_pos {c : Cfg} {s : St} {n : Nat} (h : CfgOk c n) (hr : remOf s ≠ 0) : 0 < kOf c s := by
  have := room_after_dc (s := s) h
  unfold kOf; omega

theorem tOf_le (c : Cfg) (s : St) : tOf c s ≤ s.subs.length := by unfold tOf checksFit; omega

/-- A frame was sent from `s`: at least one more frame was due. -/
theorem phi_pos {c : Cfg} {s : St} {n : Nat} (h : CfgOk c n) {fr : Frame} (hg : FrameGood c s fr) :
    1 ≤ Phi c s := by
  have hcap := h.capLo
  unfold Phi
  by_cases hd : needDc c s = true
  · simp [hd]
  · by_cases hr : remOf s = 0
    · -- only state checks can be in the frame
      have hne : planDescs c s ≠ [] := by
        intro e; apply hg.nonempty; have := hg.descs; rw [e] at this; exact List.map_eq_nil_iff.1 this
      have hdc : dcDescs c s = [] := by
        rcases dcDescs_cases c s with ⟨_, h⟩ | ⟨_, _, _, h, _⟩
        · exact h
        · exact absurd h hd
      have hsub : s.subs ≠ [] := by
        intro e; apply hne; simp [planDescs, hdc, lrwDescs, hr, e]
      have : 1 ≤ ceilDiv s.subs.length (perFrame c) :=
        ceilDiv_pos (by unfold perFrame; omega) (List.length_pos_iff.2 hsub)
      omega
    · have : 1 ≤ ceilDiv (remOf s) (c.cap - 28) := ceilDiv_pos (by omega) (by omega)
      omega

theorem phi_advance {c : Cfg} {s s' : St} {n : Nat} (h : CfgOk c n) {fr : Frame} (hg : FrameGood c s fr)
    (hrem : remOf s' = remOf s - (if remOf s = 0 then 0 else kOf c s))
    (hsubs : s'.subs = s.subs.drop (tOf c s))
    (htr : s'.timeRead = (s.timeRead || needDc c s)) :
    Phi c s' + 1 ≤ Phi c s := by
  have hcap := h.capLo
  have hlen : s'.subs.length = s.subs.length - tOf c s := by rw [hsubs]; simp
  have hK : 0 < perFrame c := by unfold perFrame; omega
  have m1 : ceilDiv (remOf s') (c.cap - 28) ≤ ceilDiv (remOf s) (c.cap - 28) := ceilDiv_mono _ (by omega)
  have m2 : ceilDiv s'.subs.length (perFrame c) ≤ ceilDiv s.subs.length (perFrame c) :=
    ceilDiv_mono _ (by omega)
  unfold Phi
  by_cases hd : needDc c s = true
  · have hd' : needDc c s' = false := by
      show (c.dc.isSome && !s'.timeRead) = false
      rw [htr, hd]; simp
    simp only [hd, hd', if_true]
    simp; omega
  · have hdf : needDc c s = false := by simpa using hd
    have hd' : needDc c s' = false := by
      show (c.dc.isSome && !s'.timeRead) = false
      rw [htr, hdf, Bool.or_false]; exact hdf
    have hu0 : u0 c s = 0 := by simp [u0, hdf]
    simp only [hdf, hd']
    by_cases hr : remOf s = 0
    · have hne : planDescs c s ≠ [] := by
        intro e; apply hg.nonempty; have := hg.descs; rw [e] at this; exact List.map_eq_nil_iff.1 this
      have hdc : dcDescs c s = [] := by
        rcases dcDescs_cases c s with ⟨_, h⟩ | ⟨_, _, _, h, _⟩
        · exact h
        · exact absurd h hd
      have hsub : s.subs ≠ [] := by
        intro e; apply hne; simp [planDescs, hdc, lrwDescs, hr, e]
      have hpos : 0 < s.subs.length := List.length_pos_iff.2 hsub
      have hu1 : u1 c s = 0 := by simp [u1, hr, hu0]
      have ht : tOf c s = min s.subs.length (perFrame c) := by
        unfold tOf checksFit perFrame; rw [hu1]; omega
      have := ceilDiv_step hK hpos
      rw [hlen, ht]
      simp; omega
    · have hk : kOf c s = min (remOf s) (c.cap - 28) := by
        simp only [kOf, hu0]; omega
      have := ceilDiv_step (a := remOf s) (b := c.cap - 28) (by omega) (by omega)
      rw [hrem, if_neg hr, hk]
      simp; omega

theorem DcOk.snoc {c : Cfg} {s s' : St} {fr : Frame} (hdc : DcOk c s) (hfr : s'.frames = s.frames ++ [fr])
    (hd : fr.dgrams.map desc = planDescs c s) (htr : s'.timeRead = (s.timeRead || needDc c s)) : DcOk c s' := by
  have hdescs : allDescs s'.frames = allDescs s.frames ++ planDescs c s := by
    rw [hfr, allDescs_append, allDescs_single, hd]
  unfold DcOk at hdc ⊢
  cases hd : c.dc with
  | none =>
    rw [hd] at hdc
    have hnd : needDc c s = false := by simp [needDc, hd]
    have hdn : dcDescs c s = [] := by simp [dcDescs, hd]
    refine ⟨by rw [htr, hdc.1, hnd]; rfl, ?_⟩
    intro d hdm; rw [hdescs] at hdm
    rcases List.mem_append.1 hdm with h | h
    · exact hdc.2 d h
    · simp only [planDescs, hdn, List.nil_append] at h; exact plan_rest_not_frmw c s d h
  | some ref =>
    rw [hd] at hdc
    simp only
    cases htr0 : s.timeRead with
    | false =>
      rw [htr0] at hdc; simp only [Bool.false_eq_true, if_false] at hdc
      have hnd : needDc c s = true := by simp [needDc, hd, htr0]
      have hdn : dcDescs c s = [frmwDesc ref] := by simp [dcDescs, hd, htr0, frmwDesc, le64, le32]
      rw [htr, htr0, hnd]; simp only [Bool.false_or, if_true]
      refine ⟨lrwDescs c s ++ (s.subs.take (tOf c s)).map fprdDesc, ?_, plan_rest_not_frmw c s⟩
      rw [hdescs, hdc]; simp [allDescs, allDgrams, planDescs, hdn]
    | true =>
      rw [htr0] at hdc; simp only [if_true] at hdc
      obtain ⟨rest, hrest, hnf⟩ := hdc
      have hnd : needDc c s = false := by simp [needDc, htr0]
      have hdn : dcDescs c s = [] := by simp [dcDescs, hd, htr0]
      rw [htr, htr0]; simp only [Bool.true_or, if_true]
      refine ⟨rest ++ (lrwDescs c s ++ (s.subs.take (tOf c s)).map fprdDesc), ?_, ?_⟩
      · rw [hdescs, hrest]; simp [planDescs, hdn]
      · intro d hdm
        rcases List.mem_append.1 hdm with h | h
        · exact hnf d h
        · exact plan_rest_not_frmw c s d h

theorem FrInv.advance {c : Cfg} {image0 : List Nat} {bound : Nat} {s s' : St} (hc : CfgOk c image0.length)
    (hi : FrInv c image0 bound s) (ha : Advance c s s') : FrInv c image0 bound s' := by
  have hs : s.sent ≤ s.image.length := by rw [hi.len]; exact hi.sent
  have hc' : CfgOk c s.image.length := by rw [hi.len]; exact hc
  obtain ⟨fr, r, hg, hfr, hresp, hsubs, hchk, hlen, hdrop, hsent, htr, hunsent⟩ := advance_facts hs ha
  have hk := kOf_le c s
  have ht := tOf_le c s
  have hsent0 := hi.sent
  have hchk0 := hi.checks
  have hsl : s.subs.length = c.addrs.length - s.checks := by rw [hi.subs]; simp
  have hremS : remOf s = image0.length - s.sent := by unfold remOf; rw [hi.len]
  have hdescs : allDescs s'.frames = allDescs s.frames ++ planDescs c s := by
    rw [hfr, allDescs_append, allDescs_single, hg.descs]
  refine ⟨by rw [hlen, hi.len], ?_, by rw [hchk]; omega, ?_, ?_, ?_, ?_, ?_, by rw [hdrop, hi.outs], ?_, ?_, ?_⟩
  · -- sent
    rw [hsent]; split <;> omega
  · -- subs
    rw [hsubs, hi.subs, List.drop_drop, hchk]
  · -- tiles
    unfold lrws; rw [hdescs, List.filterMap_append, plan_lrws]
    refine Tiles.append hi.tiles ?_
    rw [hsent]
    by_cases hr : remOf s = 0
    · simp [hr, Tiles]
    · simp only [hr, if_false, Tiles]
      exact ⟨trivial, kOf_pos hc' hr, by omega⟩
  · -- state checks in group order
    unfold fprds; rw [hdescs, List.filterMap_append, plan_fprds]
    have := hi.fprd; unfold fprds at this
    rw [this, hi.subs, hchk, List.take_add]
  · -- frames
    intro f hf; rw [hfr] at hf
    rcases List.mem_append.1 hf with h | h
    · exact hi.frames f h
    · simp at h; subst h; exact hg.ok
  · -- clock datagram
    exact hi.dc.snoc hfr hg.descs htr
  · -- the part of the image not yet sent is as the application wrote it
    rw [hunsent, hsent, ← List.drop_drop, hi.unsent, List.drop_drop]
  · -- what was sent is what the application wrote
    unfold lrwData; rw [hdescs, List.filterMap_append, plan_lrwData, List.flatten_append]
    have := hi.sentData; unfold lrwData at this
    rw [this, hsent]
    by_cases hr : remOf s = 0
    · simp [hr]
    · simp only [hr, if_false, List.flatten_cons, List.flatten_nil, List.append_nil]
      rw [hi.unsent, List.take_add]
  · -- frame count
    have hrem' : remOf s' = remOf s - (if remOf s = 0 then 0 else kOf c s) := by
      have e1 : remOf s' = s.image.length - s'.sent := by unfold remOf; rw [hlen]
      rw [e1, hsent]
      by_cases hr : remOf s = 0
      · rw [if_pos hr]; unfold remOf; omega
      · rw [if_neg hr]; unfold remOf; omega
    have := phi_advance hc hg hrem' hsubs htr
    have := hi.count
    rw [hfr]; simp; omega

end Ec.TxRx
