/-
  C06 — deadlines and retries: bounded, exact, safe to hit at any moment (SEQUENTIAL clauses).

  Subject: the API-level model of the PDU loop's frame storage (`EcModel/Slots.lean`), stepped by
  `Ec.step`; one request is observed along ARBITRARY histories of all API operations (other requests
  competing for slots, TX and RX activity, clock advances) by the ghost functions `sends` (complete
  transmissions of its slot), `expiries` (polls that found its deadline expired) and `pollOuts`.
  The timer is embassy-time's (`armed`: expiry is reported from the second poll of a timer on), the
  configuration the checks build.

  Every clause below is about whole API calls executed without interleaving. What happens when the
  deadline or a drop falls INSIDE `send_blocking` / `receive_frame` (buffer reuse while TX reads it,
  retry while RX copies) is not claimed here:

      ===  C06 concurrency clauses: see Props/C06Micro.lean (lead)  ===
-/
import EcModel.Lemmas.SlotsRetry
import EcModel.Lemmas.SlotsRxDone
import EcModel.Lemmas.SlotsCapacity
import EcModel.Generated.Retry
import EcModel.TxWake
import EcModel.Lemmas.SlotsSites

namespace Ec.C06
open Ec

/-! ### generated obligations (T1) -/

/-- Same obligation as in C03: the extracted transition sites are the model's (in particular
    `mark_sent` / `release_sending_claim` are compare-exchanges from `Sending`, the retry path re-queues
    by compare-exchange from `Sent`, `release` is a plain store, and `poll` tests `RxDone` by compare-exchange before it looks at the timer). -/
theorem transition_sites_are_the_models : Gen.transitionSites = modelTransitionSites := by decide

/-! ### retry budget -/

/-- **retry_count_table**: `RetryBehaviour::retry_count` (regenerated from the source on every run):
    `None → 0`, `Count(n) → n`, `Forever → usize::MAX`. -/
theorem retry_count_table :
    Gen.RetryBehaviour.None.retryCount = 0 ∧
    (∀ n, (Gen.RetryBehaviour.Count n).retryCount = n) ∧
    Gen.RetryBehaviour.Forever.retryCount = Gen.USIZE_MAX ∧ Gen.USIZE_MAX = 2 ^ 64 - 1 :=
  ⟨rfl, fun _ => rfl, rfl, by decide⟩

/-- Every place outside the configuration module that reads `config.retry_behaviour` turns it into a
    budget with `retry_count()` (extracted use sites). -/
theorem retry_budget_sites :
    Gen.retrySites ≠ [] ∧ Gen.retrySites.all (fun s => s.2 == "retry_count") = true := by decide

/-! ### a response that is there wins over the deadline -/

/-- **response_beats_deadline**: if the response has been received (`RxDone`) when the future is
    polled, the poll returns `Ready(Ok)` whatever the clock, the deadline, the timer state and the
    retry counter say; the slot becomes `RxProcessing`, owned by the returned `ReceivedFrame`. -/
theorem response_beats_deadline (w : World) (r k ρ D T : Nat) (a : Bool)
    (hf : getH w.2 r = some ⟨r, k, .fut ρ D T a⟩) (hst : (w.1.slot k).st = .rxDone) :
    step w (.poll r) =
      ((w.1.setSlot k { w.1.slot k with st := .rxProcessing }, putH w.2 ⟨r, k, .received⟩), "ready.ok") := by
  simp [step, opPoll, hf, hst]

/-- Conversely a poll answers `ready.ok` only when the slot is `RxDone`. -/
theorem ok_only_if_rxDone {n data : Nat} {w : World} (hn : 0 < n) (hr : Reach n data w) (r k ρ D T : Nat) (a : Bool)
    (hf : getH w.2 r = some ⟨r, k, .fut ρ D T a⟩) (hok : (step w (.poll r)).2 = "ready.ok") :
    (w.1.slot k).st = .rxDone := by
  rcases poll_cases (J_reach hn hr) hf with ⟨h, _⟩ | ⟨_, _, h⟩ | ⟨_, _, _, h⟩ | ⟨_, _, _, h⟩
  · exact h
  all_goals (rw [h] at hok; simp only at hok; exact absurd hok (by decide))

/-- **never_success_without_response**: if, after ANY history from a fresh storage, a poll returns
    `Ready(Ok)`, then somewhere in that history a `receive_frame` call accepted a frame (`processed`)
    into that very slot while it was `Sent` — i.e. awaiting the response to its latest transmission —
    and from that delivery up to the poll the slot stayed `RxDone` (it was not re-sent, released or
    re-allocated in between). -/
theorem never_success_without_response {n data fi pi : Nat} (hn : 0 < n) (ops : List Op) (r k ρ D T : Nat) (a : Bool)
    (hf : getH (run (World.init n data fi pi) ops).2 r = some ⟨r, k, .fut ρ D T a⟩)
    (hok : (step (run (World.init n data fi pi) ops) (.poll r)).2 = "ready.ok") :
    ∃ pre bytes post, ops = pre ++ Op.rx bytes :: post ∧
      ((run (World.init n data fi pi) pre).1.slot k).st = .sent ∧
      (step (run (World.init n data fi pi) pre) (.rx bytes)).2 = "processed" ∧
      ∀ j, j ≤ post.length →
        ((run (step (run (World.init n data fi pi) pre) (.rx bytes)).1 (post.take j)).1.slot k).st = .rxDone := by
  let w0 := World.init n data fi pi
  have hr : Reach n data (run w0 ops) := ⟨fi, pi, ops, rfl⟩
  have hdone := ok_only_if_rxDone hn hr r k ρ D T a hf hok
  have h0 : ¬ ((w0.1.slot k).st = .rxDone) := by rw [init_slot]; simp
  obtain ⟨pre, op, post, e, a1, a2, a3⟩ :=
    last_change (fun w => (w.1.slot k).st = .rxDone) w0 ops h0 hdone
  have hnpre : 0 < (run w0 pre).1.n := by rw [n_run, n_init]; exact hn
  have hop : ∃ b, op = .rx b := by
    apply Classical.byContradiction
    intro hne
    exact a1 (rxDone_only_by_rx _ op k hnpre (fun b e' => hne ⟨b, e'⟩) a2)
  obtain ⟨b, rfl⟩ := hop
  obtain ⟨htok, hsent⟩ := rxDone_by_rx _ b k a2 a1
  exact ⟨pre, b, post, e, hsent, htok, a3⟩

/-! ### the transmission-count clause -/

/-- **timeout_progress**: along any history in which the future is not dropped, no response for it
    arrives and the TX side has serviced the frame whenever a poll finds the deadline expired
    (`Sched`), and which contains at most `R` expired deadlines: every poll of the request answers
    `pending` (never success, never an error), all complete transmissions of its slot carry the
    bytes of the first one, and their number is exactly the number of expired deadlines, plus one
    once the current (re)transmission is out. -/
theorem timeout_progress {n data : Nat} {w : World} (hn : 0 < n) (hr : Reach n data w) (r k R : Nat)
    (hfresh : Fresh w r k R) (ops : List Op) (hs : Sched r k w ops) (hexp : expiries r w ops ≤ R) :
    (∀ o ∈ pollOuts r w ops, o = "pending") ∧
    (∀ x ∈ sends k w ops, x = frameBytes w k) ∧
    (sends k w ops).length = expiries r w ops + (if ((run w ops).1.slot k).st = .sent then 1 else 0) ∧
    (∃ D T a, getH (run w ops).2 r = some ⟨r, k, .fut (R - expiries r w ops) D T a⟩) := by
  obtain ⟨q, c, s, p⟩ := Q_run (J_reach hn hr) hfresh.toQ ops hs (by simpa using hexp)
  refine ⟨p, s, ?_, by simpa using q.fut⟩
  have : sentB k w = 0 := by simp [sentB, hfresh.st]
  rw [this] at c
  simpa [sentB] using c

/-- **timeout_exact**: no response ever arrives, the TX side services every `Sendable` frame before
    the next deadline, `R` retries configured. When the `(R+1)`-th deadline expires the poll returns
    `Err(Timeout(Pdu))`; up to then every poll answered `pending`, and the frame has been
    transmitted completely exactly `1 + R` times, byte-identically; the slot is released. -/
theorem timeout_exact {n data : Nat} {w : World} (hn : 0 < n) (hr : Reach n data w) (r k R : Nat)
    (hfresh : Fresh w r k R) (ops : List Op) (hs : Sched r k w ops)
    (hexp : expiries r w ops = R) (hlast : StepOk r k (run w ops) (.poll r))
    (hx : expiredB (run w ops) r = true) :
    (step (run w ops) (.poll r)).2 = "ready.err.timeout" ∧
    (∀ o ∈ pollOuts r w ops, o = "pending") ∧
    (sends k w ops).length = 1 + R ∧ (∀ x ∈ sends k w ops, x = frameBytes w k) ∧
    ((step (run w ops) (.poll r)).1.1.slot k).st = .none ∧
    getH (step (run w ops) (.poll r)).1.2 r = none := by
  have hJ := J_reach hn hr
  obtain ⟨p, s, c, D, T, a, hf⟩ := timeout_progress hn hr r k R hfresh ops hs (by omega)
  have hJ' := J_run hJ ops
  have hsent : ((run w ops).1.slot k).st = .sent := hlast rfl hx
  have hxa : a = true ∧ D ≤ (run w ops).1.now := by
    simp only [expiredB, hf, Bool.and_eq_true, decide_eq_true_eq] at hx; exact hx
  have hk : k < (run w ops).1.n := hJ'.owner_lt (getH_some hf).1 (by simp [HK.cls])
  rw [hexp, Nat.sub_self] at hf
  rcases poll_cases hJ' hf with ⟨h, _⟩ | ⟨_, h, _⟩ | ⟨_, _, _, h⟩ | ⟨_, _, h, _⟩
  · rw [hsent] at h; cases h
  · exact absurd hxa h
  · refine ⟨by rw [h], p, by rw [c, hexp, hsent]; simp; omega, s, ?_, ?_⟩
    · rw [h]; simp only; rw [slot_setSlot_eq _ _ _ hk]
    · rw [h]; simp only
      cases e : getH (delH (run w ops).2 r) r with
      | none => rfl
      | some x => exact absurd (getH_some e).2 (mem_delH.mp (getH_some e).1).2
  · exact absurd rfl h

/-- **Forever** (`usize::MAX` retries): in every history shorter than `usize::MAX` steps (same side
    conditions) the request never completes — every poll answers `pending` — and there has been
    exactly one complete transmission per expired deadline, plus the one currently out. -/
theorem forever_never_completes {n data : Nat} {w : World} (hn : 0 < n) (hr : Reach n data w) (r k : Nat)
    (hfresh : Fresh w r k Gen.RetryBehaviour.Forever.retryCount) (ops : List Op) (hs : Sched r k w ops)
    (hlen : ops.length < Gen.USIZE_MAX) :
    (∀ o ∈ pollOuts r w ops, o = "pending") ∧
    (∀ x ∈ sends k w ops, x = frameBytes w k) ∧
    (sends k w ops).length = expiries r w ops + (if ((run w ops).1.slot k).st = .sent then 1 else 0) := by
  have h := timeout_progress hn hr r k _ hfresh ops hs
    (by have := expiries_le_length r w ops; simp only [Gen.RetryBehaviour.retryCount]; omega)
  exact ⟨h.1, h.2.1, h.2.2.1⟩

/-! ### abandonment between API calls -/

/-- How a request is abandoned: the awaiting future is dropped, or its last deadline expires. -/
inductive Abandon (w : World) (r k : Nat) : Op → Prop
  | drop (ρ D T : Nat) (a : Bool) : getH w.2 r = some ⟨r, k, .fut ρ D T a⟩ → Abandon w r k (.dropFut r)
  | timeout (D T : Nat) : getH w.2 r = some ⟨r, k, .fut 0 D T true⟩ → D ≤ w.1.now →
      (w.1.slot k).st ≠ .rxDone → Abandon w r k (.poll r)

theorem abandon_effect {n data : Nat} {w : World} (hn : 0 < n) (hr : Reach n data w) (r k : Nat) (op : Op)
    (hab : Abandon w r k op) :
    k < w.1.n ∧ (step w op).1 = (w.1.setSlot k { w.1.slot k with st := .none }, delH w.2 r) := by
  have hJ := J_reach hn hr
  cases hab with
  | drop ρ D T a hf =>
    exact ⟨hJ.owner_lt (getH_some hf).1 (by simp [HK.cls]), by simp [step, opDropFut, hf]⟩
  | timeout D T hf hD hnd =>
    refine ⟨hJ.owner_lt (getH_some hf).1 (by simp [HK.cls]), ?_⟩
    rcases poll_cases hJ hf with ⟨h, _⟩ | ⟨_, h, _⟩ | ⟨_, _, _, h⟩ | ⟨_, _, h, _⟩
    · exact absurd h hnd
    · exact absurd ⟨rfl, hD⟩ h
    · rw [h]
    · exact absurd rfl h

/-- **abandon_safe_partial**: the future is dropped, or its last deadline expires, between API calls
    while no `SendableFrame` for the slot is outstanding (so the slot is `Sendable`, `Sent`, `RxBusy`
    or — drop only — `RxDone`; a `Created` frame is C03's `created_drop_releases`). Then the slot is
    released (`None`), no other slot changes, the ownership invariant keeps holding, no handle at all
    refers to the slot any more, and the slot is allocatable again: the next allocation into a free
    register succeeds, and if every other slot is held it returns exactly this slot. -/
theorem abandon_safe_partial {n data : Nat} {w : World} (hr : Reach n data w) (hd : n ∣ 256) (r k : Nat) (op : Op)
    (hab : Abandon w r k op) (hnotx : ∀ h ∈ w.2, h.kind = .sendable → h.slot ≠ k)
    (r' : Nat) (hfree : ∀ h ∈ w.2, h.reg ≠ r') :
    let w' := (step w op).1
    (w'.1.slot k).st = .none ∧ (∀ j, j ≠ k → w'.1.slot j = w.1.slot j) ∧
    J w'.1 w'.2 ∧ (∀ h ∈ w'.2, h.slot ≠ k) ∧
    (∃ i, (step w' (.alloc r')).2 = s!"ok.{i}" ∧
      ((∀ j, j < n → j ≠ k → (w.1.slot j).st ≠ .none) → i = k)) := by
  intro w'
  have hn : 0 < n := Nat.pos_of_dvd_of_pos hd (by decide)
  have hJ := J_reach hn hr
  obtain ⟨hk, he⟩ := abandon_effect hn hr r k op hab
  have hr' : Reach n data w' := hr.step op
  have hJ' : J w'.1 w'.2 := J_reach hn hr'
  have hf : ∃ ρ D T a, getH w.2 r = some ⟨r, k, .fut ρ D T a⟩ := by
    cases hab with
    | drop ρ D T a hf => exact ⟨ρ, D, T, a, hf⟩
    | timeout D T hf _ _ => exact ⟨0, D, T, true, hf⟩
  obtain ⟨ρ, D, T, a, hf⟩ := hf
  have hm := (getH_some hf).1
  have hs1 : (w'.1.slot k).st = .none := by
    show ((step w op).1.1.slot k).st = .none
    rw [he]; simp only; rw [slot_setSlot_eq _ _ _ hk]
  have hs2 : ∀ j, j ≠ k → w'.1.slot j = w.1.slot j := by
    intro j hj
    show (step w op).1.1.slot j = _
    rw [he]; exact slot_setSlot_ne _ _ _ _ hj
  have hs3 : w'.2 = delH w.2 r := by show (step w op).1.2 = _; rw [he]
  have hnone : ∀ h ∈ w'.2, h.slot ≠ k := by
    intro h hm' hsk
    rw [hs3] at hm'
    obtain ⟨hm'', hreg⟩ := mem_delH.mp hm'
    by_cases ho : h.kind.cls = 4
    · have : h.kind = .sendable := by revert ho; cases h.kind <;> simp [HK.cls]
      exact hnotx h hm'' this hsk
    · have := hJ.distinct h hm'' _ hm ho (by simp [HK.cls]) hsk
      exact hreg (by rw [this])
  refine ⟨hs1, hs2, hJ', hnone, ?_⟩
  have hn' : w'.1.n = n := hr'.n_eq
  have hfree' : ∀ h ∈ w'.2, h.reg ≠ r' := by
    intro h hm'; rw [hs3] at hm'; exact hfree h (mem_delH.mp hm').1
  have hlt : owners w'.2 < w'.1.n := by
    rw [← hJ'.count]
    unfold heldCount
    have : (List.range w'.1.n).filter (fun i => decide ((w'.1.slot i).st ≠ .none)) ≠ List.range w'.1.n := by
      intro e
      have : k ∈ (List.range w'.1.n).filter (fun i => decide ((w'.1.slot i).st ≠ .none)) := by
        rw [e, List.mem_range, hn', ← hr.n_eq]; exact hk
      simp [hs1] at this
    have hle := List.length_filter_le (fun i => decide ((w'.1.slot i).st ≠ .none)) (List.range w'.1.n)
    rw [List.length_range] at hle
    rcases Nat.lt_or_eq_of_le hle with h | h
    · exact h
    · exfalso
      apply this
      exact (List.filter_sublist).eq_of_length (by rw [h, List.length_range])
  obtain ⟨i, hi, hinone, hout, _⟩ := alloc_step_ok hJ' (hn' ▸ hd) hlt r' hfree'
  refine ⟨i, hout, ?_⟩
  intro hfull
  apply Classical.byContradiction
  intro hik
  have := hfull i (hn' ▸ hi) hik
  rw [← hs2 i hik] at this
  exact this hinone

/-! ### abandonment / retry while the TX side holds the frame (state `Sending`), at API level -/

/-- **abandon_while_sending_keeps_capacity** (what fix 362a9e12 bought): the request is abandoned
    (drop or last timeout) while a `SendableFrame` for its slot is outstanding. The slot is `None`
    at once; when the send later completes — with any outcome, and even if the slot has meanwhile
    been claimed again and is being built (`Created`) — its compare-exchange from `Sending` fails
    and no slot changes: the stale send can neither strand the slot in `Sent` nor disturb the new
    owner's state. The ownership invariant holds throughout (it holds in every reachable world). -/
theorem abandon_while_sending_keeps_capacity {n data : Nat} {w : World} (hn : 0 < n) (hr : Reach n data w)
    (r t k o : Nat) (op : Op) (hab : Abandon w r k op) (hsending : (w.1.slot k).st = .sending)
    (ht : getH w.2 t = some ⟨t, k, .sendable⟩) :
    let w1 := (step w op).1
    (w1.1.slot k).st = .none ∧
    -- the send completes right away
    (step w1 (.txSend t o)).1.1 = w1.1 ∧
    -- or after the slot has been claimed again
    (∀ r', (∀ h ∈ w1.2, h.reg ≠ r') → (∀ j, j < n → j ≠ k → (w.1.slot j).st ≠ .none) → n ∣ 256 →
      let w2 := (step w1 (.alloc r')).1
      (w2.1.slot k).st = .created ∧ (step w2 (.txSend t o)).1.1 = w2.1) := by
  intro w1
  have hJ := J_reach hn hr
  obtain ⟨hk, he⟩ := abandon_effect hn hr r k op hab
  have hrt : r ≠ t := by
    intro e; subst e
    cases hab with
    | drop ρ D T a hf => rw [hf] at ht; cases ht
    | timeout D T hf _ _ => rw [hf] at ht; cases ht
  have hs3 : w1.2 = delH w.2 r := by show (step w op).1.2 = _; rw [he]
  have hs1 : (w1.1.slot k).st = .none := by
    show ((step w op).1.1.slot k).st = .none
    rw [he]; simp only; rw [slot_setSlot_eq _ _ _ hk]
  have ht1 : getH w1.2 t = some ⟨t, k, .sendable⟩ := by
    rw [hs3, getH_delH_other hJ.regs hrt.symm]; exact ht
  -- a send on a handle whose slot is not `Sending` changes no slot
  have stale : ∀ v : World, getH v.2 t = some ⟨t, k, .sendable⟩ → (v.1.slot k).st ≠ .sending →
      (step v (.txSend t o)).1.1 = v.1 := by
    intro v hv hne
    simp [step, opTxSend, hv, hne]
  refine ⟨hs1, stale w1 ht1 (by rw [hs1]; simp), ?_⟩
  intro r' hfree hfull hd w2
  have hr1 : Reach n data w1 := hr.step op
  have hJ1 := J_reach hn hr1
  have hn1 : w1.1.n = n := hr1.n_eq
  have hlt : owners w1.2 < w1.1.n := by
    rw [← hJ1.count]
    apply Classical.byContradiction
    intro hge
    have hle : heldCount w1.1 ≤ w1.1.n := by
      unfold heldCount
      have := List.length_filter_le (fun i => decide ((w1.1.slot i).st ≠ .none)) (List.range w1.1.n)
      rwa [List.length_range] at this
    have := full_of_count (s := w1.1) (by omega) k (by rw [hn1, ← hr.n_eq]; exact hk)
    exact this hs1
  obtain ⟨i, hi, hinone, _, hhs⟩ := alloc_step_ok hJ1 (hn1 ▸ hd) hlt r' hfree
  have hik : i = k := by
    apply Classical.byContradiction
    intro hik
    have h1 := hfull i (hn1 ▸ hi) hik
    have : w1.1.slot i = w.1.slot i := by
      show (step w op).1.1.slot i = _
      rw [he]; exact slot_setSlot_ne _ _ _ _ hik
    rw [← this] at h1
    exact h1 hinone
  subst hik
  have hJ2 : J w2.1 w2.2 := J_step hJ1 (.alloc r')
  have hmem : (⟨r', i, .created 0 none⟩ : Hd) ∈ w2.2 := by
    show _ ∈ (step w1 (.alloc r')).1.2
    rw [hhs]; exact mem_putH.mpr (Or.inl rfl)
  have hcr : (w2.1.slot i).st = .created := by
    have := hJ2.compat _ hmem (by simp [HK.cls])
    revert this; simp only; cases (w2.1.slot i).st <;> simp [St.cls, HK.cls]
  refine ⟨hcr, stale w2 ?_ (by rw [hcr]; simp)⟩
  show getH (step w1 (.alloc r')).1.2 t = _
  rw [hhs, getH_putH_other hJ1.regs _ (by
    simp only
    intro e
    exact hfree _ (getH_some ht1).1 (by simp [e]))]
  exact ht1

/-- **retry_while_sending** (current code, fix b5bf0e20): the deadline expires with retries left while
    the slot is not waiting for its response — the TX side still holds the frame (`Sending`), or it
    is still queued (`Sendable`), or a response is being copied (`RxBusy`). The poll consumes one
    retry, re-arms the timer and stays pending, but its `Sent → Sendable` compare-exchange fails:
    NO slot changes. In particular a frame in `Sending` keeps its one `SendableFrame`, whose send then
    completes normally (`Sent` on a complete send, `Sendable` otherwise): no second claim of the
    same slot can arise from a retry. -/
theorem retry_while_sending {n data : Nat} {w : World} (hn : 0 < n) (hr : Reach n data w)
    (r k ρ D T : Nat) (hf : getH w.2 r = some ⟨r, k, .fut (ρ + 1) D T true⟩) (hD : D ≤ w.1.now)
    (hst : (w.1.slot k).st = .sendable ∨ (w.1.slot k).st = .sending ∨ (w.1.slot k).st = .rxBusy) :
    let w1 := (step w (.poll r)).1
    (step w (.poll r)).2 = "pending" ∧ w1.1 = w.1 ∧
    getH w1.2 r = some ⟨r, k, .fut ρ (w.1.now + T) T true⟩ ∧
    (∀ t o, (w.1.slot k).st = .sending → getH w.2 t = some ⟨t, k, .sendable⟩ →
      ((step w1 (.txSend t o)).1.1.slot k).st = (if o = 0 then St.sent else St.sendable)) := by
  intro w1
  have hJ := J_reach hn hr
  have hk : k < w.1.n := hJ.owner_lt (getH_some hf).1 (by simp [HK.cls])
  have hns : (w.1.slot k).st ≠ .sent := by rcases hst with h | h | h <;> rw [h] <;> simp
  rcases poll_cases hJ hf with ⟨h, _⟩ | ⟨_, h, _⟩ | ⟨_, _, h, _⟩ | ⟨_, _, _, h⟩
  · rcases hst with h' | h' | h' <;> rw [h'] at h <;> cases h
  · exact absurd ⟨rfl, hD⟩ h
  · cases h
  · rw [if_neg hns] at h
    have hs1 : w1.1 = w.1 := by show (step w (.poll r)).1.1 = _; rw [h]
    have hg : getH w1.2 r = some ⟨r, k, .fut ρ (w.1.now + T) T true⟩ := by
      show getH (step w (.poll r)).1.2 r = _
      rw [h]; exact getH_putH_self hJ.regs _
    refine ⟨by rw [h], hs1, hg, ?_⟩
    intro t o hsending ht
    have hrt : r ≠ t := by intro e; subst e; rw [hf] at ht; cases ht
    have ht1 : getH w1.2 t = some ⟨t, k, .sendable⟩ := by
      show getH (step w (.poll r)).1.2 t = _
      rw [h]; simp only
      rw [getH_putH_other hJ.regs _ (by simpa using hrt.symm)]; exact ht
    have hs2 : (w1.1.slot k).st = .sending := by rw [hs1]; exact hsending
    have hk1 : k < w1.1.n := by rw [hs1]; exact hk
    simp only [step, opTxSend, ht1, hs2, if_true]
    rw [slot_setSlot_eq _ _ _ hk1]

/-! ### the transmit side keeps serving -/

/-- In any world whatsoever (abandoned requests, stale handles, …), as long as the loop has not been
    told to exit, `next_sendable_frame` hands out the first `Sendable` slot if there is one: no state
    an abandonment can leave behind blocks the TX side from serving the other requests. -/
theorem tx_serves_every_sendable (w : World) (τ i : Nat) (hex : w.1.exit = false) (hfree : getH w.2 τ = none)
    (hi : i < w.1.n) (hs : (w.1.slot i).st = .sendable) :
    ∃ j, j ≤ i ∧ (w.1.slot j).st = .sendable ∧
      (step w (.txNext τ)).1 = (w.1.setSlot j { w.1.slot j with st := .sending }, putH w.2 ⟨τ, j, .sendable⟩) := by
  rcases txNext_cases w τ with h | ⟨j, _, hj, hsj, hprev, h⟩
  · exfalso
    simp only [step, hfree, Option.isNone_none, if_true, opTxNext, hex] at h
    cases hf : findIdx (fun x => x.st == St.sendable) w.1.slots 0 with
    | none =>
      have := findIdx_none _ _ _ hf i (by simpa [Sys.n] using hi)
      simp only [Sys.slot] at hs
      rw [hs] at this
      simp at this
    | some j =>
      rw [hf] at h
      simp only [Bool.false_eq_true, if_false] at h
      obtain ⟨hj, _, _⟩ := findIdx_some_slot hf
      have h2 := congrArg (fun x => x.2) h
      simp only at h2
      have hmem : (⟨τ, j, .sendable⟩ : Hd) ∈ w.2 := by rw [← h2]; exact mem_putH.mpr (Or.inl rfl)
      exact getH_none hfree _ hmem rfl
  · refine ⟨j, ?_, hsj, h⟩
    apply Classical.byContradiction
    intro hlt
    exact hprev i (by omega) hs

/-! ### non-vacuity: a two-slot storage, one request with 2 retries, nothing ever answers -/

def demoW : World :=
  run (World.init 2 40 0 0) [.alloc 0, .push 0 (.fprd 4096 304) [0xaa, 0xbb] none, .mark 0 2 10]

/-- first transmission, a poll that arms the timer, then per deadline: advance, poll (expired →
    `Sendable` again), retransmission; the last `advance` lets the third deadline pass. -/
def demoOps : List Op :=
  [.txNext 1, .txSend 1 0, .poll 0, .advance 10, .poll 0,
   .txNext 1, .txSend 1 0, .advance 10, .poll 0,
   .txNext 1, .txSend 1 0, .alloc 5, .advance 10]

example : Fresh demoW 0 0 2 := ⟨⟨10, 10, false, by decide⟩, by decide, by decide⟩
example : Sched 0 0 demoW demoOps := by
  simp only [demoOps, Sched, StepOk]
  decide
example : expiries 0 demoW demoOps = 2 := by decide
example : expiredB (run demoW demoOps) 0 = true := by decide
example : StepOk 0 0 (run demoW demoOps) (.poll 0) := by simp only [StepOk]; decide
example : (sends 0 demoW demoOps).length = 3 := by decide
example : ((step (run demoW demoOps) (.poll 0)).1.1.slots.map (·.st)) = [.none, .created] := by decide
example : Reach 2 40 demoW := ⟨0, 0, _, rfl⟩

/-! The side condition of the transmission-count clause is needed: if the TX side has NOT sent the
    frame when a deadline expires, that retry is consumed without a retransmission (the `Sent →
    Sendable` compare-exchange fails; see `retry_while_sending`), so the request times out after
    fewer than `1 + R` transmissions. Here `R = 2`: the first deadline passes while the frame is still
    `Sending`; two transmissions in all. -/
def cexOps : List Op :=
  [.poll 0, .txNext 1, .advance 10, .poll 0, .txSend 1 0, .advance 10, .poll 0,
   .txNext 1, .txSend 1 0, .advance 10]

theorem count_needs_tx_discipline_counterexample :
    (outs demoW cexOps).take 4 = ["pending", "some.0", "ok", "pending"] ∧
    -- the history violates the side condition at its second poll (expired while `Sending`) ...
    ¬ StepOk 0 0 (run demoW (cexOps.take 3)) (.poll 0) ∧
    -- ... and then the third expiry is the last: timeout after 2 < 1 + 2 transmissions
    (step (run demoW cexOps) (.poll 0)).2 = "ready.err.timeout" ∧
    (sends 0 demoW cexOps).length = 2 ∧ (∀ x ∈ sends 0 demoW cexOps, x = frameBytes demoW 0) := by
  refine ⟨by decide, ?_, by decide, by decide, by decide⟩
  simp only [StepOk]
  decide

/-- ... and the abandonment window: dropped while the TX side holds the frame. -/
def demoSending : World := run demoW [.txNext 1]
example : Abandon demoSending 0 0 (.dropFut 0) := .drop 2 10 10 false (by decide)
example : (demoSending.1.slot 0).st = .sending := by decide
example : getH demoSending.2 1 = some ⟨1, 0, .sendable⟩ := by decide

end Ec.C06

/-! ### Handing a (re-)queued frame to the transmit task: publish first, wake afterwards -/
namespace Ec.C06

open Ec.TxWake in
/-- With the status published BEFORE `wake_sender()`, no run of the publishing side against a transmit task that
    sleeps on its waker (consuming its woken bit and re-registering on every poll) ever ends with the frame
    stranded; in every terminal state of every interleaving the frame has been claimed for transmission. -/
theorem publish_then_wake_never_strands :
    (∀ s ∈ allStates .publishThenWake, stranded s = false) ∧
    (∀ s ∈ allStates .publishThenWake, terminal .publishThenWake s = true → s.tx = .claimed ∧ s.sendable = false) := by
  decide

open Ec.TxWake in
/-- The state space explored is closed under every step (so `allStates` is ALL reachable states, not a prefix). -/
theorem publish_wake_state_space_closed :
    (∀ s ∈ allStates .publishThenWake, ∀ t ∈ succs .publishThenWake s, t ∈ allStates .publishThenWake) ∧
    (∀ s ∈ allStates .wakeThenPublish, ∀ t ∈ succs .wakeThenPublish s, t ∈ allStates .wakeThenPublish) := by
  decide

open Ec.TxWake in
/-- The opposite order strands the frame: the transmit task is woken, scans, finds nothing and goes back to sleep
    before the status is published; nobody wakes it for the frame (seeded change C06c). -/
theorem wake_then_publish_strands_counterexample :
    ∃ s ∈ allStates .wakeThenPublish, stranded s = true ∧ terminal .wakeThenPublish s = true := by
  decide

/-- T1: every place of /repo that makes a frame Sendable (`mark_sendable` in `single_pdu` and the three process-data
    cycles, the retry re-queue in `ReceiveFrameFut::poll`) calls `wake_sender()` AFTER the status is published and
    before the frame is awaited (regenerated from the sources on every run). -/
theorem publish_wake_order_sites :
    Gen.allPublishThenWake = true ∧ Gen.publishWakeSites.length = 6 := by
  decide

end Ec.C06
