/-
  Helper lemmas for C18 (DcSync model): little-endian round trips, the in-range evaluation of the
  start-time expression, and the shape of the register writes of one device / of the device loop.
-/
import EcModel.DcSync

namespace Ec.DcSync
open Ec

theorem rd32_le32 (n : Nat) (h : n < 4294967296) : rd32 (le32 n) = n := by
  simp [rd32, le32]; omega

theorem rd64_le64 (n : Nat) (h : n < U64) : rd64 (le64 n) = n := by
  have h : n < 18446744073709551616 := h
  have h1 : n % 4294967296 < 4294967296 := Nat.mod_lt _ (by decide)
  have h2 : n / 4294967296 < 4294967296 := by omega
  have e1 := rd32_le32 _ h1
  have e2 := rd32_le32 _ h2
  simp only [rd64, le64]
  have e3 : rd32 (le32 (n % 4294967296) ++ le32 (n / 4294967296)) = rd32 (le32 (n % 4294967296)) := by
    simp [rd32, le32]
  rw [e3, e1]
  have e4 : (le32 (n % 4294967296) ++ le32 (n / 4294967296)).drop 4 = le32 (n / 4294967296) := by
    simp [le32]
  rw [e4, e2]; omega

/-- The register image `configure_dc_sync` leaves in one device that wants DC, in write order:
    sync unit deactivated; start time; SYNC0 cycle time; (only for `Sync01`) SYNC1 cycle time;
    activation `0x03` (SYNC0 + cyclic) or `0x07` (SYNC1 + SYNC0 + cyclic). Literal register numbers
    on purpose: the regenerated constants of `Ec.Gen.Dc` must agree with them. -/
def okWrites (start period : Nat) (d : Dev) : List Write :=
  [⟨d.addr, 0x0981, [0]⟩, ⟨d.addr, 0x0990, le64 start⟩, ⟨d.addr, 0x09A0, le64 period⟩] ++
  (match d.sync with
   | .sync01 s1 => [⟨d.addr, 0x09A4, le64 s1⟩, ⟨d.addr, 0x0981, [0x07]⟩]
   | _ => [⟨d.addr, 0x0981, [0x03]⟩])

/-- SYNC1 periods representable in 64 bits (`u64::try_from(sync1_period.as_nanos())` succeeds). -/
def Sync1Fits (d : Dev) : Prop := ∀ s1, d.sync = .sync01 s1 → s1 < U64

theorem startTime_ok (m : Mode) (sys delay period : Nat) (h : sys + delay < U64) (hp : 0 < period) :
    startTime m sys delay period = .ok ((sys + delay) / period * period) := by
  have hle : (sys + delay) / period * period ≤ sys + delay := Nat.div_mul_le_self _ _
  have hlt : (sys + delay) / period * period < U64 := by omega
  have hp' : period ≠ 0 := by omega
  simp [startTime, addU64, divU64, mulU64, h, hp', hlt]

theorem startTime_overflow_checked (sys delay period : Nat) (h : U64 ≤ sys + delay) :
    startTime .checked sys delay period = .panic "attempt to add with overflow" := by
  have : ¬ sys + delay < U64 := by omega
  simp [startTime, addU64, this]

theorem startTime_overflow_wrapping (sys delay period : Nat) (h : U64 ≤ sys + delay) (hp : 0 < period) :
    startTime .wrapping sys delay period = .ok ((sys + delay) % U64 / period * period) := by
  have h1 : ¬ sys + delay < U64 := by omega
  have hle : (sys + delay) % U64 / period * period ≤ (sys + delay) % U64 := Nat.div_mul_le_self _ _
  have hm : (sys + delay) % U64 < U64 := Nat.mod_lt _ (by decide)
  have hlt : (sys + delay) % U64 / period * period < U64 := by omega
  have hp' : period ≠ 0 := by omega
  simp [startTime, addU64, divU64, mulU64, h1, hp', hlt]

theorem devBody_ok (m : Mode) (sys delay period start : Nat) (d : Dev)
    (hs : startTime m sys delay period = .ok start) (hf : Sync1Fits d) :
    devBody m sys delay period d = (okWrites start period d, .ok ()) := by
  unfold devBody okWrites
  rw [hs]
  cases hsync : d.sync with
  | disabled => rfl
  | sync0 => rfl
  | sync01 s1 =>
    have : s1 < U64 := hf s1 hsync
    simp [this]
    decide

theorem devBody_addr (m : Mode) (sys delay period : Nat) (d : Dev) :
    ∀ w ∈ (devBody m sys delay period d).1, w.addr = d.addr := by
  unfold devBody
  cases startTime m sys delay period with
  | panic s => simp
  | err e => simp
  | ok st =>
    cases d.sync with
    | disabled => simp
    | sync0 => simp
    | sync01 s1 =>
      by_cases h : s1 < U64 <;> simp [h]

theorem devLoop_ok (m : Mode) (sys delay period start : Nat)
    (hs : startTime m sys delay period = .ok start) (devs : List Dev)
    (hf : ∀ d ∈ devs, Sync1Fits d) :
    devLoop m sys delay period devs = (((devs.filter (fun d => wants d)).flatMap (okWrites start period)), .ok ()) := by
  induction devs with
  | nil => rfl
  | cons d ds ih =>
    have ih' := ih (fun x hx => hf x (List.mem_cons_of_mem _ hx))
    by_cases hw : wants d = true
    · simp only [devLoop, hw, if_true]
      rw [devBody_ok m sys delay period start d hs (hf d (List.mem_cons_self ..)), ih']
      simp [hw]
    · simp only [devLoop, hw]
      rw [ih']
      simp [hw]

theorem devLoop_addr (m : Mode) (sys delay period : Nat) (devs : List Dev) :
    ∀ w ∈ (devLoop m sys delay period devs).1, ∃ d ∈ devs, wants d = true ∧ w.addr = d.addr := by
  induction devs with
  | nil => simp [devLoop]
  | cons d ds ih =>
    intro w hwm
    by_cases hw : wants d = true
    · simp only [devLoop, hw, if_true] at hwm
      have hb := devBody_addr m sys delay period d
      rcases hbody : devBody m sys delay period d with ⟨ws, r⟩
      rw [hbody] at hwm hb
      cases r with
      | ok u =>
        cases u
        simp only [List.mem_append] at hwm
        rcases hwm with h | h
        · exact ⟨d, List.mem_cons_self .., hw, hb w h⟩
        · rcases ih w h with ⟨d', hd', hw', ha⟩
          exact ⟨d', List.mem_cons_of_mem _ hd', hw', ha⟩
      | err e => exact ⟨d, List.mem_cons_self .., hw, hb w hwm⟩
      | panic s => exact ⟨d, List.mem_cons_self .., hw, hb w hwm⟩
    · simp only [devLoop, hw] at hwm
      rcases ih w hwm with ⟨d', hd', hw', ha⟩
      exact ⟨d', List.mem_cons_of_mem _ hd', hw', ha⟩

/-- In checked builds the loop panics at the first device that wants DC when `sys + delay`
    overflows, after having written only the deactivation of that device. -/
theorem devLoop_overflow_checked (sys delay period : Nat) (h : U64 ≤ sys + delay) (devs : List Dev)
    (hex : ∃ d ∈ devs, wants d = true) :
    ∃ a, devLoop .checked sys delay period devs
      = ([⟨a, 0x0981, [0]⟩], .panic "attempt to add with overflow") := by
  induction devs with
  | nil => simp at hex
  | cons d ds ih =>
    by_cases hw : wants d = true
    · refine ⟨d.addr, ?_⟩
      simp only [devLoop, hw, if_true, devBody, startTime_overflow_checked sys delay period h]
      rfl
    · have : ∃ d ∈ ds, wants d = true := by
        rcases hex with ⟨x, hx, hxw⟩
        rcases List.mem_cons.1 hx with rfl | hx'
        · exact absurd hxw hw
        · exact ⟨x, hx', hxw⟩
      rcases ih this with ⟨a, ha⟩
      exact ⟨a, by simp only [devLoop, hw]; exact ha⟩

end Ec.DcSync
