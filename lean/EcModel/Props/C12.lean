/-
  C12 — EEPROM reads return exactly the stored bytes and parse to what they encode.
  Property theorems only; helper lemmas live in EcModel/Lemmas.
-/
import EcModel.Lemmas.EepromBasic
import EcModel.EepromSpec

namespace Ec.C12
open Ec Ec.Eeprom Ec.EepromSpec

/-! ## Range reads -/

/-- Any sequence of `read` calls on one `EepromRange`, with buffer sizes `ns`; stops at the first failure. -/
def readSeq (m : Mode) (p : Prov) : Range → List Nat → M (List (List Nat) × Range)
  | r, [] => ret ([], r)
  | r, n :: ns =>
    bind (Range.read m p r n) fun res =>
    bind (readSeq m p res.2 ns) fun rest => ret (res.1 :: rest.1, rest.2)

/-- What the property demands of such a sequence: each call returns the stored bytes at the cursor, as many as
    requested but not beyond `endp`, and the cursor advances by that number. -/
def specSeq (rd : Nat → Nat) (endp : Nat) : Nat → List Nat → List (List Nat) × Nat
  | pos, [] => ([], pos)
  | pos, n :: ns =>
    let k := min n (endp - pos)
    let rest := specSeq rd endp (pos + k) ns
    (slice rd pos k :: rest.1, rest.2)

/-- **Range reads are exact.** For every memory, chunk size ≥ 2 (devices serve 4 or 8), build mode, window
    (any cursor, odd or even; any end below 64 KiB) and any sequence of partial reads of any sizes: every call
    returns exactly the stored bytes `[pos, pos + k)` with `k = min(requested, end − pos)`, never a byte from
    `end` on, never an error, never a panic. -/
theorem range_read_exact (m : Mode) (p : Prov) (hcs : 2 ≤ p.cs) (endp : Nat) (he : endp < 65536) :
    ∀ (ns : List Nat) (pos : Nat),
      (readSeq m p ⟨pos, endp⟩ ns).1
        = .ok ((specSeq p.rd endp pos ns).1, ⟨(specSeq p.rd endp pos ns).2, endp⟩) := by
  intro ns
  induction ns with
  | nil => intro pos; rfl
  | cons n ns ih =>
    intro pos
    unfold readSeq
    have hr := read_ok m p hcs ⟨pos, endp⟩ n he
    rw [bind_fst_ok _ hr.1, bind_fst_ok _ (ih _)]
    rfl

/-- Taken together the calls return one contiguous piece of the window, starting at the cursor: never
    anything from beyond the end, and all of the window once enough bytes were requested. -/
theorem range_read_contiguous (rd : Nat → Nat) (endp : Nat) :
    ∀ (ns : List Nat) (pos : Nat),
      (specSeq rd endp pos ns).1.flatten = slice rd pos (min ns.sum (endp - pos)) ∧
      (specSeq rd endp pos ns).2 = pos + min ns.sum (endp - pos) := by
  intro ns
  induction ns with
  | nil => intro pos; simp [specSeq]
  | cons n ns ih =>
    intro pos
    simp only [specSeq, List.flatten_cons, List.sum_cons]
    have := ih (pos + min n (endp - pos))
    rw [this.1, this.2, slice_append]
    constructor
    · congr 1; omega
    · omega

/-- `EepromRange::new(start_word, len_words)`, PARTIAL: when the byte addresses fit the 16-bit cursor the
    window is exactly the bytes of the words asked for. -/
theorem range_window_partial (m : Mode) (w n : Nat) (h : 2 * w + 2 * n < 65536) :
    Range.new m w n = ret ⟨2 * w, 2 * w + 2 * n⟩ := by
  unfold Range.new
  rw [mul16_ok _ _ _ _ (by omega), mul16_ok _ _ _ _ (by omega)]
  simp only [bind_ret]
  rw [add16_ok _ _ _ _ (by omega)]
  simp only [bind_ret]
  congr 2 <;> omega

/-- The full statement ("any start word, any length") is FALSE of the code: the byte cursor is a `u16`, so
    words from 0x8000 up (EEPROMs larger than 64 KiB: the property's 1 Mbit .. 4 Mbit sizes) panic in checked
    builds and are read from the wrong place in wrapping builds (word 0x8000 reads word 0). -/
theorem range_window_counterexample :
    (Range.new .checked 0x8000 4).1 = .panic "new:mul" ∧
    (Range.new .wrapping 0x8000 4).1 = .ok ⟨0, 8⟩ ∧
    (Range.new .checked 0x7ffe 2).1 = .panic "new:add" := by
  decide

/-- `SubDevice::eeprom_read_raw(start_word, buf)` = `start_at(start_word, buf.len()).read(buf)`, PARTIAL: an
    even number of bytes inside the first 64 KiB is returned exactly. -/
theorem read_raw_exact_partial (m : Mode) (p : Prov) (hcs : 2 ≤ p.cs) (w n : Nat)
    (hn : n % 2 = 0) (h : 2 * w + n < 65536) :
    (bind (startAt m w n) fun r => Range.read m p r n).1
      = .ok (slice p.rd (2 * w) n, ⟨2 * w + n, 2 * w + n⟩) := by
  unfold startAt
  rw [range_window_partial m w (n / 2) (by omega)]
  simp only [bind_ret]
  have hr := read_ok m p hcs ⟨2 * w, 2 * w + 2 * (n / 2)⟩ n (by simp only; omega)
  rw [hr.1]
  have : min n (2 * w + 2 * (n / 2) - 2 * w) = n := by omega
  simp only [this]
  congr 3 <;> omega

/-- FALSE for odd lengths: `start_at` turns the byte length into `len_bytes / 2` words, so the last byte is
    cut off — `eeprom_read_raw` into a 3-byte buffer returns 2 bytes, into a 1-byte buffer returns 0 bytes, and
    `eeprom_read::<u8>` (a `read_exact` of 1 byte) fails with `SectionOverrun`. -/
theorem read_raw_odd_counterexample :
    let p : Prov := ⟨fun a => a + 1, 4⟩
    (bind (startAt .checked 4 3) fun r => Range.read .checked p r 3).1 = .ok ([9, 10], ⟨10, 10⟩) ∧
    (bind (startAt .checked 4 1) fun r => Range.read .checked p r 1).1 = .ok ([], ⟨8, 8⟩) ∧
    (bind (startAt .checked 4 1) fun r => eofToOverrun (Range.readExact .checked p r 1)).1 = .err .overrun := by
  decide

/-! ### non-vacuity -/

example : (readSeq .checked ⟨fun a => a, 4⟩ ⟨3, 10⟩ [2, 0, 4, 9, 1]).1
    = .ok ([[3, 4], [], [5, 6, 7, 8], [9], []], ⟨10, 10⟩) := by decide

example : (readSeq .wrapping ⟨fun a => 2 * a, 8⟩ ⟨65530, 65535⟩ [3, 3]).1
    = .ok ([[131060, 131062, 131064], [131066, 131068]], ⟨65535, 65535⟩) := by decide

end Ec.C12
