//! SII EEPROM image construction (ETG2010 / ETG1000.6 §5.4): fixed header, categories, checksum.
//!
//! Written for the simulator; an independent generator for the EEPROM properties may exist in
//! `harness/src/eeprom_gen.rs` — this one only has to produce well-formed images for simulated
//! devices.

pub const CAT_STRINGS: u16 = 10;
pub const CAT_GENERAL: u16 = 30;
pub const CAT_FMMU: u16 = 40;
pub const CAT_SYNCM: u16 = 41;
pub const CAT_FMMU_EX: u16 = 42;
pub const CAT_TXPDO: u16 = 50;
pub const CAT_RXPDO: u16 = 51;
pub const CAT_DC: u16 = 60;
pub const CAT_END: u16 = 0xffff;

/// CRC-8, polynomial 0x07, initial value 0xFF, no reflection, no final xor (ETG1000.6: checksum of
/// the first 14 bytes stored in the low byte of word 7).
pub fn crc8(bytes: &[u8]) -> u8 {
    let mut crc: u8 = 0xff;
    for &b in bytes {
        crc ^= b;
        for _ in 0..8 {
            crc = if crc & 0x80 != 0 { (crc << 1) ^ 0x07 } else { crc << 1 };
        }
    }
    crc
}

pub fn header_checksum_ok(eeprom: &[u8]) -> bool {
    eeprom.len() >= 16 && crc8(&eeprom[..14]) == eeprom[14] && eeprom[15] == 0
}

pub fn fix_checksum(eeprom: &mut [u8]) {
    if eeprom.len() >= 16 {
        eeprom[14] = crc8(&eeprom[..14]);
        eeprom[15] = 0;
    }
}

#[derive(Clone, Debug, PartialEq, Eq)]
pub struct SmDesc {
    pub start: u16,
    pub len: u16,
    pub control: u8,
    /// SII enable byte (bit 0: enable)
    pub enable: u8,
    /// 1 mailbox write (master -> device), 2 mailbox read, 3 outputs, 4 inputs, 0 unused
    pub usage: u8,
}

#[derive(Clone, Debug, PartialEq, Eq)]
pub struct PdoEntryDesc {
    pub index: u16,
    pub sub: u8,
    pub bits: u8,
}

#[derive(Clone, Debug, PartialEq, Eq)]
pub struct PdoDesc {
    pub index: u16,
    pub sm: u8,
    pub entries: Vec<PdoEntryDesc>,
}

impl PdoDesc {
    pub fn bits(&self) -> u32 {
        self.entries.iter().map(|e| e.bits as u32).sum()
    }
}

#[derive(Clone, Debug, PartialEq, Eq)]
pub struct MailboxDesc {
    pub rx_offset: u16,
    pub rx_size: u16,
    pub tx_offset: u16,
    pub tx_size: u16,
    /// bit 2 (0x04) = CoE
    pub protocols: u16,
    /// General category CoE details (bit 0 SDO, bit 1 SDO info, bit 5 complete access ...)
    pub coe_details: u8,
}

/// Everything that goes into the image.
#[derive(Clone, Debug, Default)]
pub struct ImageSpec {
    pub alias: u16,
    pub vendor: u32,
    pub product: u32,
    pub revision: u32,
    pub serial: u32,
    pub mailbox: Option<MailboxDesc>,
    /// Strings category content (1-based indices refer to this list).
    pub strings: Vec<String>,
    /// Emit a General category: (group idx, image idx, order idx, name idx).
    pub general: Option<(u8, u8, u8, u8)>,
    pub fmmus: Vec<u8>,
    pub sms: Vec<SmDesc>,
    pub fmmu_ex: Vec<[u8; 3]>,
    pub tx_pdos: Vec<PdoDesc>,
    pub rx_pdos: Vec<PdoDesc>,
    /// Total size in bytes (padded with 0xFF after the end marker); at least what is needed.
    pub size_bytes: usize,
    pub ports: [u8; 4],
    pub ebus_current: i16,
}

fn put16(v: &mut [u8], word: usize, x: u16) {
    v[2 * word..2 * word + 2].copy_from_slice(&x.to_le_bytes());
}
fn put32(v: &mut [u8], word: usize, x: u32) {
    v[2 * word..2 * word + 4].copy_from_slice(&x.to_le_bytes());
}

fn category(out: &mut Vec<u8>, kind: u16, mut body: Vec<u8>) {
    if body.len() % 2 == 1 {
        body.push(0);
    }
    out.extend_from_slice(&kind.to_le_bytes());
    out.extend_from_slice(&((body.len() / 2) as u16).to_le_bytes());
    out.extend_from_slice(&body);
}

fn pdo_category(pdos: &[PdoDesc]) -> Vec<u8> {
    let mut b = Vec::new();
    for p in pdos {
        b.extend_from_slice(&p.index.to_le_bytes());
        b.push(p.entries.len() as u8);
        b.push(p.sm);
        b.push(0); // DC sync
        b.push(0); // name index
        b.extend_from_slice(&0u16.to_le_bytes()); // flags
        for e in &p.entries {
            b.extend_from_slice(&e.index.to_le_bytes());
            b.push(e.sub);
            b.push(0); // name index
            b.push(if e.bits == 1 { 0x01 } else { 0x05 }); // data type: BOOL / UNSIGNED8 (informative)
            b.push(e.bits);
            b.extend_from_slice(&0u16.to_le_bytes());
        }
    }
    b
}

pub fn build_image(s: &ImageSpec) -> Vec<u8> {
    let mut img = vec![0u8; 128];
    put16(&mut img, 0, 0x0080); // PDI control
    put16(&mut img, 4, s.alias);
    put32(&mut img, 8, s.vendor);
    put32(&mut img, 10, s.product);
    put32(&mut img, 12, s.revision);
    put32(&mut img, 14, s.serial);
    if let Some(m) = &s.mailbox {
        // bootstrap mailbox = standard mailbox
        put16(&mut img, 0x14, m.rx_offset);
        put16(&mut img, 0x15, m.rx_size);
        put16(&mut img, 0x16, m.tx_offset);
        put16(&mut img, 0x17, m.tx_size);
        put16(&mut img, 0x18, m.rx_offset);
        put16(&mut img, 0x19, m.rx_size);
        put16(&mut img, 0x1a, m.tx_offset);
        put16(&mut img, 0x1b, m.tx_size);
        put16(&mut img, 0x1c, m.protocols);
    }
    put16(&mut img, 0x3f, 1); // version

    let mut cats = Vec::new();
    if !s.strings.is_empty() {
        let mut b = vec![s.strings.len() as u8];
        for st in &s.strings {
            let bytes = st.as_bytes();
            b.push(bytes.len() as u8);
            b.extend_from_slice(bytes);
        }
        category(&mut cats, CAT_STRINGS, b);
    }
    if let Some((g, i, o, n)) = s.general {
        let mut b = vec![0u8; 32];
        b[0] = g;
        b[1] = i;
        b[2] = o;
        b[3] = n;
        b[5] = s.mailbox.as_ref().map(|m| m.coe_details).unwrap_or(0);
        b[0x0c..0x0e].copy_from_slice(&s.ebus_current.to_le_bytes());
        b[0x0e] = (s.ports[0] & 0x0f) | (s.ports[1] << 4);
        b[0x0f] = (s.ports[2] & 0x0f) | (s.ports[3] << 4);
        category(&mut cats, CAT_GENERAL, b);
    }
    if !s.fmmus.is_empty() {
        category(&mut cats, CAT_FMMU, s.fmmus.clone());
    }
    if !s.sms.is_empty() {
        let mut b = Vec::new();
        for sm in &s.sms {
            b.extend_from_slice(&sm.start.to_le_bytes());
            b.extend_from_slice(&sm.len.to_le_bytes());
            b.push(sm.control);
            b.push(0);
            b.push(sm.enable);
            b.push(sm.usage);
        }
        category(&mut cats, CAT_SYNCM, b);
    }
    if !s.fmmu_ex.is_empty() {
        let mut b = Vec::new();
        for f in &s.fmmu_ex {
            b.extend_from_slice(f);
        }
        category(&mut cats, CAT_FMMU_EX, b);
    }
    if !s.tx_pdos.is_empty() {
        category(&mut cats, CAT_TXPDO, pdo_category(&s.tx_pdos));
    }
    if !s.rx_pdos.is_empty() {
        category(&mut cats, CAT_RXPDO, pdo_category(&s.rx_pdos));
    }
    img.extend_from_slice(&cats);
    img.extend_from_slice(&CAT_END.to_le_bytes());
    img.extend_from_slice(&[0xff, 0xff]);
    // pad to 8 bytes so 8-byte chunk reads near the end stay inside the array
    while img.len() % 8 != 0 {
        img.push(0xff);
    }
    let size = s.size_bytes.max(img.len()).next_multiple_of(128);
    img.resize(size, 0xff);
    put16(&mut img, 0x3e, (size / 128 - 1) as u16); // size in kbit - 1
    fix_checksum(&mut img);
    img
}
