"""T1 facts for C19: the wire layout of every `#[derive(EtherCrabWire…)]` struct/enum in /repo/src/**/*.rs.

Called from extract.py (`gen_layouts(helpers)`). Writes, from one intermediate representation,
  * lean/EcModel/Generated/Layouts.lean  (returned text): `StructDecl`/`EnumDecl` terms of EcModel/Wire.lean, nested types
    first, plus the tables `structs`/`enums` the theorems in Props/C19.lean and the driver quantify over;
  * harness/gen-types/layouts.txt: the same layouts in the harness' text grammar (id kind file:line derive T-expr).
Anything that cannot be parsed is appended to `missing` with the prefix `wire layout` so ./check attributes it to C19.
"""
import os
import re

_PRIMS = {"u8": ("u8", "Codec.uN 1", 1), "u16": ("u16", "Codec.uN 2", 2), "u32": ("u32", "Codec.uN 4", 4),
          "u64": ("u64", "Codec.uN 8", 8), "i8": ("i8", "Codec.iN 1", 1), "i16": ("i16", "Codec.iN 2", 2),
          "i32": ("i32", "Codec.iN 4", 4), "i64": ("i64", "Codec.iN 8", 8), "f32": ("f32", "Codec.uN 4", 4),
          "f64": ("f64", "Codec.uN 8", 8), "bool": ("bool", "Codec.bool", 1)}
_TOKS = ("u8", "i8", "u16", "i16", "u32", "i32", "u64", "i64", "f32", "f64", "u128", "i128", "bool")


def _match_close(text, i, open_c, close_c):
    """index just after the bracket that closes text[i] (== open_c); skips string literals."""
    depth = 0
    while i < len(text):
        c = text[i]
        if c == '"':
            i += 1
            while i < len(text) and text[i] != '"':
                i += 2 if text[i] == "\\" else 1
        elif c == open_c:
            depth += 1
        elif c == close_c:
            depth -= 1
            if depth == 0:
                return i + 1
        i += 1
    raise ValueError("unbalanced " + open_c)


def _split_top(body, sep=","):
    out, depth, cur = [], 0, []
    for i, c in enumerate(body):
        if c in "([{<":
            depth += 1
        elif c in ")]}":
            depth -= 1
        elif c == ">" and (i == 0 or body[i - 1] not in "-="):
            depth -= 1
        if c == sep and depth == 0:
            out.append("".join(cur))
            cur = []
        else:
            cur.append(c)
    if "".join(cur).strip():
        out.append("".join(cur))
    return out


def _take_attrs(text):
    """leading `#[...]` attributes of `text` -> (list of attribute bodies, rest)."""
    attrs = []
    text = text.lstrip()
    while text.startswith("#["):
        end = _match_close(text, 1, "[", "]")
        attrs.append(text[2:end - 1].strip())
        text = text[end:].lstrip()
    return attrs, text


def _wire_kv(attrs):
    """all `wire(...)` entries of an attribute list as dict key -> value-string (flags -> True)."""
    kv = {}
    for a in attrs:
        m = re.match(r"wire\s*\((.*)\)\s*$", a, flags=re.S)
        if not m:
            continue
        for part in _split_top(m.group(1)):
            part = part.strip()
            if not part:
                continue
            if "=" in part:
                k, v = part.split("=", 1)
                kv[k.strip()] = v.strip()
            else:
                kv[part] = True
    return kv


def _int_lit(tok):
    """integer literal as syn's LitInt::base10_parse sees it (any radix, optional suffix); None if not a literal."""
    t = tok.strip().replace("_", "")
    m = re.match(r"^(0x[0-9a-fA-F]+|0b[01]+|0o[0-7]+|[0-9]+)(u8|u16|u32|u64|u128|usize|i8|i16|i32|i64|i128|isize)?$", t)
    if not m:
        return None
    return int(m.group(1)[2:], 8) if m.group(1).startswith("0o") else int(m.group(1), 0)


def _derive_kind(attrs):
    """R / W / RW for the non-test build, None if the item does not derive a wire trait."""
    kinds = []
    for a in attrs:
        body = a
        m = re.match(r"cfg_attr\s*\((.*)\)\s*$", a, flags=re.S)
        if m:
            parts = _split_top(m.group(1))
            if parts[0].strip() == "test":
                continue
            body = ",".join(parts[1:])
        for dm in re.finditer(r"derive\s*\(([^()]*(?:\([^()]*\)[^()]*)*)\)", body):
            for d in dm.group(1).split(","):
                d = d.strip().split("::")[-1]
                if d == "EtherCrabWireReadWrite":
                    kinds.append("RW")
                elif d == "EtherCrabWireRead":
                    kinds.append("R")
                elif d == "EtherCrabWireWrite":
                    kinds.append("W")
    if not kinds:
        return None
    if "RW" in kinds or ("R" in kinds and "W" in kinds):
        return "RW"
    return kinds[0]


def _opt(v):
    return "none" if v is None else "some %d" % v


_ITEM_RE = re.compile(
    r"((?:#\[(?:[^\[\]]|\[[^\[\]]*\])*\]\s*)+)(?:pub(?:\s*\([^)]*\))?\s+)?(struct|enum)\s+(\w+)\s*(<[^{;(]*?>)?\s*(where[^{;]*)?([{(;])")


def _test_module_spans(text):
    """(start, end) of every `#[cfg(test)] mod x { … }` block."""
    spans = []
    for m in re.finditer(r"#\[cfg\(test\)\]\s*(?:pub\s+)?mod\s+\w+\s*\{", text):
        try:
            spans.append((m.start(), _match_close(text, m.end() - 1, "{", "}")))
        except ValueError:
            spans.append((m.start(), len(text)))
    return spans


def collect_wire_items(repo, strip_comments, missing):
    """Every derive(EtherCrabWire*) struct/enum of the non-test build in /repo/src/**/*.rs, in path order."""
    items = []
    paths = []
    for d, _, fs in os.walk(os.path.join(repo, "src")):
        for f in fs:
            if f.endswith(".rs"):
                paths.append(os.path.join(d, f))
    for path in sorted(paths):
        rel = os.path.relpath(path, repo)
        if rel.startswith("src/verif"):
            continue
        raw = open(path).read()
        text = strip_comments(raw)
        tspans = _test_module_spans(text)
        for m in _ITEM_RE.finditer(text):
            attrs, _ = _take_attrs(m.group(1))
            kind = _derive_kind(attrs)
            if kind is None or any(a <= m.start() < b for a, b in tspans):
                continue
            lm = re.search(r"\b%s\s+%s\b" % (m.group(2), re.escape(m.group(3))), raw)
            line = raw.count("\n", 0, lm.start()) + 1 if lm else 0
            it = {"kind": m.group(2), "name": m.group(3), "file": rel, "line": line, "derive": kind,
                  "generic": bool(m.group(4)), "repr": None, "packed": False}
            wkv = _wire_kv(attrs)
            for a in attrs:
                rm = re.match(r"repr\s*\(([^)]*)\)", a)
                if rm:
                    for r in rm.group(1).split(","):
                        r = r.strip()
                        if r == "packed":
                            it["packed"] = True
                        elif re.match(r"^[ui](8|16|32|64|128|size)$", r):
                            it["repr"] = r
            what = "wire layout %s::%s" % (rel, it["name"])
            if m.group(2) == "struct":
                it["bits"] = _int_lit(wkv["bits"]) if "bits" in wkv and wkv["bits"] is not True else None
                it["bytes"] = _int_lit(wkv["bytes"]) if "bytes" in wkv and wkv["bytes"] is not True else None
                it["named"] = m.group(6) == "{"
                it["fields"] = []
                if it["named"]:
                    end = _match_close(text, m.end() - 1, "{", "}")
                    for fsrc in _split_top(text[m.end():end - 1]):
                        fattrs, rest = _take_attrs(fsrc)
                        fm = re.match(r"(?:pub(?:\s*\([^)]*\))?\s+)?(\w+)\s*:\s*(.+)$", rest.strip(), flags=re.S)
                        if not fm:
                            if rest.strip():
                                missing.append("%s: unparsable field %r" % (what, rest.strip()[:40]))
                            continue
                        kv = _wire_kv(fattrs)
                        fld = {"name": fm.group(1), "ty": re.sub(r"\s+", "", fm.group(2))}
                        for k in ["bits", "bytes", "pre_skip", "pre_skip_bytes", "post_skip", "post_skip_bytes"]:
                            fld[k] = _int_lit(kv[k]) if k in kv and kv[k] is not True else None
                            if k in kv and fld[k] is None:
                                missing.append("%s.%s: non-literal `%s`" % (what, fld["name"], k))
                        fld["skip"] = kv.get("skip") is True
                        it["fields"].append(fld)
            else:
                if m.group(6) != "{":
                    continue
                end = _match_close(text, m.end() - 1, "{", "}")
                it["variants"] = []
                for vsrc in _split_top(text[m.end():end - 1]):
                    vattrs, rest = _take_attrs(vsrc)
                    rest = rest.strip()
                    if not rest:
                        continue
                    vm = re.match(r"(\w+)\s*(\([^)]*\))?\s*(?:=\s*(.+))?$", rest, flags=re.S)
                    if not vm:
                        missing.append("%s: unparsable variant %r" % (what, rest[:40]))
                        continue
                    kv = _wire_kv(vattrs)
                    disc = None
                    if vm.group(3) is not None:
                        dtxt = vm.group(3).strip()
                        neg = dtxt.startswith("-")
                        val = _int_lit(dtxt[1:] if neg else dtxt)
                        if val is None:
                            missing.append("%s::%s: non-literal discriminant %r" % (what, vm.group(1), dtxt[:30]))
                            val = 0
                        disc = -val if neg else val
                    alts = []
                    if "alternatives" in kv and kv["alternatives"] is not True:
                        am = re.match(r"\[(.*)\]$", kv["alternatives"], flags=re.S)
                        if not am:
                            missing.append("%s::%s: unparsable alternatives" % (what, vm.group(1)))
                        else:
                            for a in am.group(1).split(","):
                                a = a.strip()
                                if a:
                                    val = _int_lit(a.lstrip("-"))
                                    if val is None:
                                        missing.append("%s::%s: bad alternative %r" % (what, vm.group(1), a))
                                        val = 0
                                    alts.append(-val if a.startswith("-") else val)
                    it["variants"].append({"name": vm.group(1), "payload": vm.group(2), "disc": disc, "alts": alts,
                                           "catch_all": kv.get("catch_all") is True,
                                           "default": any(a.strip() == "default" for a in vattrs)})
            items.append(it)
    seen = {}  # unique identifiers: type names repeat across modules / function bodies
    for it in items:
        n = seen.get(it["name"], 0)
        seen[it["name"]] = n + 1
        it["id"] = it["name"] if n == 0 else "%s_%d" % (it["name"], n + 1)
    return items


def _texpr_item(it):
    if it["kind"] == "enum":
        vs = []
        for v in it["variants"]:
            s = "_" if v["disc"] is None else str(v["disc"])
            s += "".join("/%d" % a for a in v["alts"])
            s += ("c" if v["catch_all"] else "") + ("d" if v["default"] else "")
            vs.append(s)
        return "e(%s;%s)" % (it["repr"] or "none", ";".join(vs))
    w = [x for x in [("b%d" % it["bits"]) if it["bits"] is not None else None,
                     ("B%d" % it["bytes"]) if it["bytes"] is not None else None,
                     None if it["named"] else "n"] if x]
    fs = []
    for f in it["fields"]:
        a = []
        for k, c in [("bits", "b"), ("bytes", "B"), ("pre_skip", "p"), ("pre_skip_bytes", "P"),
                     ("post_skip", "q"), ("post_skip_bytes", "Q")]:
            if f[k] is not None:
                a.append("%s%d" % (c, f[k]))
        if f["skip"]:
            a.append("k")
        fs.append("%s:%s" % (".".join(a) or "-", f["texpr"]))
    return "s(%s%s)" % (".".join(w) or "-", "".join(";" + f for f in fs))


def collect_manual_sized(repo, strip_comments):
    """`impl EtherCrabWireSized for X { const PACKED_LEN: usize = N; … }` written by hand (bitflags wrappers, PduFlags, …):
    type name -> N (None if N is not a literal). Their behaviour is not modelled (`Codec.unknown N`), their size is."""
    out = {}
    for d, _, fs in os.walk(os.path.join(repo, "src")):
        for f in sorted(fs):
            if not f.endswith(".rs") or os.path.relpath(os.path.join(d, f), repo).startswith("src/verif"):
                continue
            text = strip_comments(open(os.path.join(d, f)).read())
            for m in re.finditer(r"impl\s+(?:[\w:]+::)?EtherCrabWireSized\s+for\s+(\w+)\s*\{", text):
                end = _match_close(text, m.end() - 1, "{", "}")
                pm = re.search(r"const\s+PACKED_LEN\s*:\s*usize\s*=\s*([^;]+);", text[m.end():end])
                out[m.group(1)] = _int_lit(pm.group(1)) if pm else None
    return out


def resolve(items, manual=None):
    """Resolve field types (prims, arrays, other extracted items); returns the items with nested types first."""
    manual = manual or {}
    by_name = {}
    for it in items:
        by_name.setdefault(it["name"], []).append(it)
    order, state = [], {}

    def lookup(name, file):
        c = by_name.get(name, [])
        same = [x for x in c if x["file"] == file]
        return (same or c or [None])[0]

    def ty_of(ty, file):
        """-> (TyTok, Lean codec expression, T-expr, packed length or None)"""
        if ty in _PRIMS:
            tok, codec, n = _PRIMS[ty]
            return tok, codec, ty, n
        if ty in ("u128", "i128"):
            return ty, "Codec.unknown 16", "x", None
        am = re.match(r"^\[(.+);(\w+)\]$", ty)
        if am:
            n = _int_lit(am.group(2))
            _, c, t, el = ty_of(am.group(1), file)
            if n is not None and el is not None:
                return "other", "Codec.array (%s) %d" % (c, n), "a(%d,%s)" % (n, t), el * n
            return "other", "Codec.unknown 0", "x", None
        pm = re.match(r"^(?:\w+::)+(\w+)$", ty)  # a path: the macro sees no single ident (class `other`); resolve by last segment
        if pm and pm.group(1) not in _PRIMS:
            ty = pm.group(1)
        if re.match(r"^\w+$", ty):
            it = lookup(ty, file)
            if it is not None and not it["generic"]:
                visit(it)
                return "other", "%s %s" % ("enumCodec" if it["kind"] == "enum" else "structCodec", it["lean"]), it["texpr"], it["size"]
            if manual.get(ty) is not None:
                return "other", "Codec.unknown %d" % manual[ty], "x%d" % manual[ty], manual[ty]
        return "other", "Codec.unknown 0", "x", None

    def visit(it):
        if state.get(it["id"]):
            return
        state[it["id"]] = 1
        it["lean"] = ("E_" if it["kind"] == "enum" else "S_") + it["id"]
        if it["kind"] == "struct":
            for f in it["fields"]:
                f["tok"], f["codec"], f["texpr"], f["tylen"] = ty_of(f["ty"], it["file"])
            w = it["bits"] if it["bits"] is not None else (it["bytes"] * 8 if it["bytes"] is not None else None)
            it["size"] = None if w is None else (w + 7) // 8
        else:
            it["size"] = {"u8": 1, "i8": 1, "u16": 2, "i16": 2, "u32": 4, "i32": 4, "u64": 8, "i64": 8}.get(it["repr"])
        it["texpr"] = _texpr_item(it)
        order.append(it)

    for it in items:
        visit(it)
    return order


def _lawful_term(codec, by_lean):
    """Lean proof term of `Lawful (<codec expr>)`, or None if the codec contains an unknown/opaque type."""
    m = re.match(r"^Codec\.uN (\d+)$", codec)
    if m:
        return "lawful_uN _"
    m = re.match(r"^Codec\.iN (\d+)$", codec)
    if m:
        return "lawful_iN _"
    if codec == "Codec.bool":
        return "lawful_bool"
    m = re.match(r"^Codec\.array \((.*)\) (\d+)$", codec)
    if m:
        inner = _lawful_term(m.group(1), by_lean)
        return None if inner is None else "lawful_array _ _ (%s) (by decide)" % inner
    m = re.match(r"^(?:enumCodec|structCodec) (\w+)$", codec)
    if m and by_lean.get(m.group(1), {}).get("lawful"):
        return "%s_lawful" % m.group(1)
    return None


def gen_layouts_lawful(items):
    """Generated/LayoutsLawful.lean: for every extracted type without opaque parts, the proof that it satisfies every
    hypothesis of the C19 theorems (decidable side conditions by `decide`, field types by composition)."""
    by_lean = {it["lean"]: it for it in items}
    L = ["-- REGENERATED by /verif/tools/extract.py (extract_layouts.py) from /repo on every run. Do not edit.",
         "-- Obligations: every derived type of /repo/src whose parts are all modelled satisfies the hypotheses of the C19 theorems.",
         "import EcModel.Lemmas.WireEnum", "import EcModel.Generated.Layouts", "namespace Ec.Gen.Layouts", "open Ec.Wire", ""]
    table, opaque = [], []
    for it in items:  # nested types first
        if it["kind"] == "enum":
            it["lawful"] = True
            L.append("theorem %s_lawful : Lawful (enumCodec %s) := enumCodec_lawful _ (by decide)" % (it["lean"], it["lean"]))
            table.append('("%s", ⟨enumCodec %s, %s_lawful⟩)' % (it["id"], it["lean"], it["lean"]))
        else:
            terms = [_lawful_term(f["codec"], by_lean) for f in it["fields"]]
            if any(t is None for t in terms):
                it["lawful"] = False
                opaque.append(it["id"])
                continue
            it["lawful"] = True
            L.append("theorem %s_lawful : Lawful (structCodec %s) :=\n  structCodec_lawful_of_decl _ (by decide) ⟨%s⟩" % (
                it["lean"], it["lean"], ", ".join(terms + ["trivial"])))
            table.append('("%s", ⟨structCodec %s, %s_lawful⟩)' % (it["id"], it["lean"], it["lean"]))
    L.append("")
    L.append("/-- (identifier, codec of the derived type together with the proof that it obeys the codec laws). -/")
    L.append("def lawfulTable : List (String × { c : Codec // Lawful c }) := [")
    L.append(",\n".join("  " + t for t in table))
    L.append("]")
    L.append("/-- structs with a field whose type has a hand-written impl or is unknown to the extractor: not in the table. -/")
    L.append("def opaqueStructs : List String := [%s]" % ", ".join('"%s"' % o for o in opaque))
    L.append("end Ec.Gen.Layouts")
    return "\n".join(L) + "\n"


def gen_layouts(h):
    repo, strip_comments, missing = h["repo"], h["strip_comments"], h["missing"]
    items = resolve(collect_wire_items(repo, strip_comments, missing), collect_manual_sized(repo, strip_comments))
    lawful_text = gen_layouts_lawful(items)
    lp = os.path.join(os.path.dirname(os.path.abspath(__file__)), "..", "lean", "EcModel", "Generated", "LayoutsLawful.lean")
    if not os.path.exists(lp) or open(lp).read() != lawful_text:
        with open(lp, "w") as f:
            f.write(lawful_text)
    L = ["-- REGENERATED by /verif/tools/extract.py (extract_layouts.py) from /repo on every run. Do not edit.",
         "-- Wire layout of every #[derive(EtherCrabWire…)] struct/enum in /repo/src/**/*.rs, as the derive macro sees it.",
         "import EcModel.Wire", "namespace Ec.Gen.Layouts", "open Ec.Wire", ""]
    structs = [it for it in items if it["kind"] == "struct"]
    enums = [it for it in items if it["kind"] == "enum"]
    for it in items:
        L.append("/-- %s:%d `%s` (derive: %s) -/" % (it["file"], it["line"], it["name"], it["derive"]))
        if it["kind"] == "enum":
            vs = []
            for v in it["variants"]:
                parts = []
                if v["disc"] is not None:
                    parts.append("disc := some (%d)" % v["disc"])
                if v["alts"]:
                    parts.append("alternatives := [%s]" % ", ".join(str(a) for a in v["alts"]))
                if v["catch_all"]:
                    parts.append("catchAll := true")
                if v["default"]:
                    parts.append("default := true")
                vs.append("  { %s }" % ", ".join(parts) if parts else "  {}")
            L.append("def %s : EnumDecl := { repr := .%s, variants := [" % (it["lean"], it["repr"] or "missing"))
            L.append(",\n".join(vs))
            L.append("]}")
        else:
            fs = []
            for f in it["fields"]:
                parts = ["ty := .%s" % (f["tok"] if f["tok"] in _TOKS else "other"), "codec := %s" % f["codec"]]
                for k, lk in [("bits", "bits"), ("bytes", "bytes"), ("pre_skip", "preSkip"), ("pre_skip_bytes", "preSkipBytes"),
                              ("post_skip", "postSkip"), ("post_skip_bytes", "postSkipBytes")]:
                    if f[k] is not None:
                        parts.append("%s := some %d" % (lk, f[k]))
                if f["skip"]:
                    parts.append("skip := true")
                fs.append("  { %s }" % ", ".join(parts))
            L.append("def %s : StructDecl := { named := %s, bits := %s, bytes := %s, fields := [" % (
                it["lean"], "true" if it["named"] else "false", _opt(it["bits"]), _opt(it["bytes"])))
            L.append(",\n".join(fs))
            L.append("]}")
        L.append("")
    L.append("/-- (identifier, derive kind R|W|RW, declaration) of every derived struct, nested types first. -/")
    L.append("def structs : List (String × String × StructDecl) := [")
    L.append(",\n".join('  ("%s", "%s", %s)' % (it["id"], it["derive"], it["lean"]) for it in structs))
    L.append("]")
    L.append("def enums : List (String × String × EnumDecl) := [")
    L.append(",\n".join('  ("%s", "%s", %s)' % (it["id"], it["derive"], it["lean"]) for it in enums))
    L.append("]")
    L.append("/-- field names per struct / variant names per enum (diagnostics only). -/")
    L.append("def fieldNames : List (String × List String) := [")
    L.append(",\n".join('  ("%s", [%s])' % (it["id"], ", ".join('"%s"' % f["name"] for f in it["fields"])) for it in structs))
    L.append("]")
    L.append("def variantNames : List (String × List String) := [")
    L.append(",\n".join('  ("%s", [%s])' % (it["id"], ", ".join('"%s"' % v["name"] for v in it["variants"])) for it in enums))
    L.append("]")
    L.append("end Ec.Gen.Layouts")
    if len(structs) < 20 or len(enums) < 10:
        missing.append("wire layouts (found only %d structs, %d enums)" % (len(structs), len(enums)))
    txt = "".join("%s %s %s:%d %s %s\n" % (it["id"], it["kind"], it["file"], it["line"], it["derive"], it["texpr"]) for it in items)
    tp = os.path.join(os.path.dirname(os.path.abspath(__file__)), "..", "harness", "gen-types", "layouts.txt")
    os.makedirs(os.path.dirname(tp), exist_ok=True)
    old = open(tp).read() if os.path.exists(tp) else None
    if old != txt:
        with open(tp, "w") as f:
            f.write(txt)
    return "\n".join(L) + "\n"


def gen_wire_macro(h):
    """Generated/WireMacro.lean: the tables and constants of the derive macro the model *uses* (T1), plus presence checks of
    the code shapes the hand translation follows (a refactor that moves them is reported, not skipped)."""
    repo, strip_comments, missing = h["repo"], h["strip_comments"], h["missing"]

    def rd(name):
        t = open(os.path.join(repo, "ethercrab-wire-derive", "src", name)).read()
        cut = t.find("#[cfg(test)]\nmod tests")
        return strip_comments(t[:cut] if cut >= 0 else t)

    ps, pe, gs, ge = rd("parse_struct.rs"), rd("parse_enum.rs"), rd("generate_struct.rs"), rd("generate_enum.rs")
    arm = r'((?:"\w+"\s*\|\s*)*"\w+")\s*=>\s*'

    def table(text, rhs, what):
        out = []
        for m in re.finditer(arm + rhs, text):
            for name in re.findall(r'"(\w+)"', m.group(1)):
                out.append((name, int(m.group(2))))
        if not out:
            missing.append("wire layout macro fact: " + what)
        return out

    widths = table(ps, r"Some\((\d+)\)", "parse_struct auto width table")
    if not re.search(r"bytes\.map\(\|bytes\|\s*bytes\s*\*\s*8\)", ps):
        missing.append("wire layout macro fact: parse_struct `bytes * 8`")
    sizes = table(ge, r"(\d+)(?:usize)?\s*,", "generate_enum size table")
    half = len(sizes) // 2
    if len(sizes) % 2 or sizes[:half] != sizes[half:]:
        missing.append("wire layout macro fact: generate_enum write/read size tables differ")
    sizes = sizes[:half] if half else sizes
    m = re.search(r"let\s+mut\s+discriminant_accum\s*=\s*(-?\d+)\s*;", pe)
    if not m:
        missing.append("wire layout macro fact: parse_enum discriminant_accum initial value")
    accum_init = int(m.group(1)) if m else 0
    m = re.search(r"None\s*=>\s*discriminant_accum\s*\+\s*(\d+)\s*,", pe)
    if not m:
        missing.append("wire layout macro fact: parse_enum implicit discriminant step")
    step = int(m.group(1)) if m else 1
    alts_advance = bool(re.search(r"discriminant_accum\s*=\s*alternative\s*;", pe))
    shapes = [
        (pe, r"discriminant_accum\s*=\s*variant_discriminant\s*;", "parse_enum accumulator follows the variant's discriminant"),
        (ps, r"meta\.bytes\.len\(\)\s*>\s*1\s*&&\s*\(bit_offset\s*>\s*0\s*\|\|\s*field_width\s*%\s*8\s*>\s*0\)", "parse_struct multibyte alignment check"),
        (ps, r"meta\.bits\.len\(\)\s*<\s*8\s*&&\s*meta\.bytes\.len\(\)\s*>\s*1", "parse_struct small-field crossing check"),
        (ps, r"total_field_width\s*!=\s*width", "parse_struct total width check"),
        (gs, r'ty_name\s*==\s*"u8"\s*\|\|\s*ty_name\s*==\s*"bool"', "generate_struct_write u8/bool shortcut"),
        (gs, r"field\.bytes\.len\(\)\s*==\s*1", "generate_struct_write single-byte branch"),
        (gs, r"field\.bits\.len\(\)\s*<=\s*8", "generate_struct_read small-field branch"),
        (gs, r"\(2u16\.pow\(field\.bits\.len\(\)\s*as\s*u32\)\s*-\s*1\)\s*<<\s*bit_start", "generate_struct mask expression"),
        (gs, r"write_bytes\(0u8,\s*buf\.len\(\)\)", "generate_struct_write zeroing"),
        (ge, r"\*self\s+as\s+#repr_type", "generate_enum_write `as repr` cast"),
        (ge, r"first_chunk::<#size_bytes>\(\)", "generate_enum_read first_chunk"),
    ]
    for text, pat, what in shapes:
        if not re.search(pat, text):
            missing.append("wire layout macro fact: " + what)
    L = ["-- REGENERATED by /verif/tools/extract.py (extract_layouts.py) from /repo/ethercrab-wire-derive on every run. Do not edit.",
         "namespace Ec.Gen.WireMacro",
         "/-- parse_struct.rs: default field width in BYTES by the type's first token. -/",
         "def autoWidthBytes : List (String × Nat) := [%s]" % ", ".join('("%s", %d)' % p for p in widths),
         "/-- generate_enum.rs: PACKED_LEN by repr (both the write and the read half). -/",
         "def reprSizes : List (String × Nat) := [%s]" % ", ".join('("%s", %d)' % p for p in sizes),
         "/-- parse_enum.rs: `let mut discriminant_accum = …;` -/",
         "def accumInit : Int := %d" % accum_init,
         "/-- parse_enum.rs: `None => discriminant_accum + …` -/",
         "def implicitStep : Int := %d" % step,
         "/-- parse_enum.rs: does `discriminant_accum = alternative;` exist (alternatives advance the accumulator)? -/",
         "def alternativesAdvance : Bool := %s" % ("true" if alts_advance else "false"),
         "end Ec.Gen.WireMacro"]
    return "\n".join(L) + "\n"
