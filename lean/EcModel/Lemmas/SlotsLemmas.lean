/-
  Helper lemmas about the storage model (`Slots.lean`).
-/
import EcModel.Slots

namespace Ec

theorem findIdx_spec (p : Slot → Bool) (l : List Slot) (i k : Nat)
    (h : findIdx p l i = some k) :
    i ≤ k ∧ k - i < l.length ∧ p (l.getD (k - i) dummySlot) = true ∧
      ∀ j, j < k - i → p (l.getD j dummySlot) = false := by
  induction l generalizing i with
  | nil => simp [findIdx] at h
  | cons x xs ih =>
    simp only [findIdx] at h
    split at h
    · next hp =>
      simp only [Option.some.injEq] at h; subst h
      simp [hp]
    · next hp =>
      have := ih (i + 1) h
      obtain ⟨h1, h2, h3, h4⟩ := this
      have e : k - i = (k - (i + 1)) + 1 := by omega
      refine ⟨by omega, by simp; omega, ?_, ?_⟩
      · rw [e]; simpa using h3
      · intro j hj
        cases j with
        | zero => simpa using hp
        | succ j => simp; exact h4 j (by omega)

theorem findIdx_none (p : Slot → Bool) (l : List Slot) (i : Nat) (h : findIdx p l i = none) :
    ∀ j, j < l.length → p (l.getD j dummySlot) = false := by
  induction l generalizing i with
  | nil => intro j hj; simp at hj
  | cons x xs ih =>
    simp only [findIdx] at h
    split at h
    · simp at h
    · next hp =>
      intro j hj
      cases j with
      | zero => simpa using hp
      | succ j => simp; exact ih (i + 1) h j (by simpa using hj)

theorem slot_setSlot_ne (s : Sys) (i j : Nat) (x : Slot) (h : j ≠ i) :
    (s.setSlot i x).slot j = s.slot j := by
  have h' : ¬ i = j := fun e => h e.symm
  simp [Sys.slot, Sys.setSlot, List.getD_eq_getElem?_getD, List.getElem?_set, h']

theorem slot_setSlot_eq (s : Sys) (i : Nat) (x : Slot) (h : i < s.n) :
    (s.setSlot i x).slot i = x := by
  simp [Sys.slot, Sys.setSlot, Sys.n] at *
  simp [h]

theorem n_setSlot (s : Sys) (i : Nat) (x : Slot) : (s.setSlot i x).n = s.n := by
  simp [Sys.n, Sys.setSlot]

end Ec
