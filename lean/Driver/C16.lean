import EcModel.Drv.C16
def main : IO Unit := Ec.Drv.runDriver Ec.Drv.C16.handle
