/- Helper lemmas for C10 (group state transitions and summaries). -/
import EcModel.GroupState
import EcModel.Lemmas.WkcLemmas

namespace Ec.Group
open Ec Ec.Wkc

/-! ### OR-fold of reported states -/

def orAll (l : List Nat) : Nat := l.foldl (fun acc s => acc ||| s) 0

theorem foldl_or (a : Nat) (l : List Nat) :
    l.foldl (fun acc s => acc ||| s) a = a ||| l.foldl (fun acc s => acc ||| s) 0 := by
  induction l generalizing a with
  | nil => simp
  | cons x l ih =>
    simp only [List.foldl_cons]
    rw [ih (a ||| x), ih (0 ||| x), Nat.zero_or, Nat.or_assoc]

theorem orAll_cons (x : Nat) (l : List Nat) : orAll (x :: l) = x ||| orAll l := by
  simp only [orAll, List.foldl_cons, Nat.zero_or]
  exact foldl_or x l

theorem orAll_lt (l : List Nat) (h : ∀ s ∈ l, s < 16) : orAll l < 16 := by
  induction l with
  | nil => simp [orAll]
  | cons x l ih =>
    rw [orAll_cons]
    have hx : x < 2 ^ 4 := h x (by simp)
    have hl : orAll l < 2 ^ 4 := ih (fun s hs => h s (by simp [hs]))
    exact Nat.or_lt_two_pow hx hl

theorem and15 : ∀ n < 16, n &&& 15 = n := by decide

theorem groupState_eq_orAll (l : List Nat) (h : ∀ s ∈ l, s < 16) : groupState l = orAll l := by
  unfold groupState GROUP_STATE_ALL
  exact and15 _ (orAll_lt l h)

theorem or_eq_zero : ∀ x < 16, ∀ g < 16, (x ||| g = 0 ↔ x = 0 ∧ g = 0) := by decide

theorem or_eq_bit (v : Nat) (hv : v = 1 ∨ v = 2 ∨ v = 4 ∨ v = 8) :
    ∀ x < 16, ∀ g < 16, (x ||| g = v ↔ (x = v ∨ x = 0) ∧ (g = v ∨ g = 0) ∧ (x = v ∨ g = v)) := by
  rcases hv with rfl | rfl | rfl | rfl <;> decide

theorem orAll_eq_zero (l : List Nat) (h : ∀ s ∈ l, s < 16) : orAll l = 0 ↔ ∀ s ∈ l, s = 0 := by
  induction l with
  | nil => simp [orAll]
  | cons x l ih =>
    have hx : x < 16 := h x (by simp)
    have hl : ∀ s ∈ l, s < 16 := fun s hs => h s (by simp [hs])
    rw [orAll_cons, or_eq_zero x hx _ (orAll_lt l hl), ih hl]
    simp

theorem orAll_eq_bit (v : Nat) (hv : v = 1 ∨ v = 2 ∨ v = 4 ∨ v = 8) (l : List Nat) (h : ∀ s ∈ l, s < 16) :
    orAll l = v ↔ (∃ s ∈ l, s = v) ∧ ∀ s ∈ l, s = v ∨ s = 0 := by
  have hv0 : v ≠ 0 := by omega
  induction l with
  | nil => simp [orAll]; omega
  | cons x l ih =>
    have hx : x < 16 := h x (by simp)
    have hl : ∀ s ∈ l, s < 16 := fun s hs => h s (by simp [hs])
    have ihl := ih hl
    have hz := orAll_eq_zero l hl
    rw [orAll_cons, or_eq_bit v hv x hx _ (orAll_lt l hl)]
    constructor
    · rintro ⟨hx1, hg, hone⟩
      have hg : ((∃ s ∈ l, s = v) ∧ ∀ s ∈ l, s = v ∨ s = 0) ∨ ∀ s ∈ l, s = 0 := hg.imp ihl.1 hz.1
      have hone : x = v ∨ ((∃ s ∈ l, s = v) ∧ ∀ s ∈ l, s = v ∨ s = 0) := hone.imp id ihl.1
      refine ⟨?_, ?_⟩
      · rcases hone with rfl | ⟨hex, _⟩
        · exact ⟨x, by simp, rfl⟩
        · obtain ⟨s, hs, rfl⟩ := hex; exact ⟨s, by simp [hs], rfl⟩
      · intro s hs
        rcases List.mem_cons.1 hs with rfl | hs
        · exact hx1
        · rcases hg with ⟨_, hall⟩ | hz
          · exact hall s hs
          · exact Or.inr (hz s hs)
    · rintro ⟨⟨s, hs, rfl⟩, hall⟩
      refine ⟨hall x (by simp), ?_, ?_⟩
      · by_cases hex : ∃ t ∈ l, t = s
        · exact Or.inl (ihl.2 ⟨hex, fun t ht => hall t (by simp [ht])⟩)
        · right
          apply hz.2
          intro t ht
          rcases hall t (by simp [ht]) with rfl | h0
          · exact absurd ⟨t, ht, rfl⟩ hex
          · exact h0
      · rcases List.mem_cons.1 hs with rfl | hs
        · exact Or.inl rfl
        · exact Or.inr (ihl.2 ⟨⟨s, hs, rfl⟩, fun t ht => hall t (by simp [ht])⟩)

/-- With no `None` entries the OR equals a single bit iff every entry is that bit. -/
theorem orAll_eq_bit_nonone (v : Nat) (hv : v = 1 ∨ v = 2 ∨ v = 4 ∨ v = 8) (l : List Nat) (h : ∀ s ∈ l, s < 16)
    (hn : ∀ s ∈ l, s ≠ 0) : orAll l = v ↔ l ≠ [] ∧ ∀ s ∈ l, s = v := by
  rw [orAll_eq_bit v hv l h]
  constructor
  · rintro ⟨⟨s, hs, _⟩, hall⟩
    refine ⟨by intro e; simp [e] at hs, fun t ht => ?_⟩
    rcases hall t ht with h1 | h0
    · exact h1
    · exact absurd h0 (hn t ht)
  · rintro ⟨hne, hall⟩
    cases l with
    | nil => exact absurd rfl hne
    | cons x l => exact ⟨⟨x, by simp, hall x (by simp)⟩, fun t ht => Or.inl (hall t ht)⟩

theorem ofNat_inj (a b : Nat) (h : SdState.ofNat a = SdState.ofNat b) : a = b := by
  have ha : (SdState.ofNat a).toNat = a := by
    unfold SdState.ofNat; repeat' split
    all_goals simp_all [SdState.toNat]
  have hb : (SdState.ofNat b).toNat = b := by
    unfold SdState.ofNat; repeat' split
    all_goals simp_all [SdState.toNat]
  rw [← ha, ← hb, h]

theorem singleState_some (l : List SdState) (d : SdState) :
    singleState l = some d ↔ l ≠ [] ∧ ∀ s ∈ l, s = d := by
  cases l with
  | nil => simp [singleState]
  | cons x rest =>
    simp only [singleState]
    by_cases hall : rest.all (fun state => state == x) = true
    · rw [if_pos hall]
      have hall' : ∀ s ∈ rest, s = x := by simpa using hall
      constructor
      · intro h
        have hx : x = d := Option.some.inj h
        exact ⟨by simp, fun s hs => by
          rcases List.mem_cons.1 hs with rfl | hs
          · exact hx
          · rw [hall' s hs, hx]⟩
      · rintro ⟨_, hv⟩
        rw [hv x (by simp)]
    · rw [if_neg hall]
      constructor
      · intro h; cases h
      · rintro ⟨_, hv⟩
        exfalso
        apply hall
        simp only [List.all_eq_true, beq_iff_eq]
        intro s hs
        rw [hv s (by simp [hs]), hv x (by simp)]

theorem ofNat_toNat (v : Nat) : (SdState.ofNat v).toNat = v := by
  unfold SdState.ofNat
  repeat' split
  all_goals simp_all [SdState.toNat]

end Ec.Group

namespace Ec.Group
open Ec Ec.Wkc

/-! ### Status frames -/

theorem takeResps_ok (k : Nat) (tr : List Ev) (ps : List Pdu) (r : List Ev) (h : takeResps k tr = some (ps, r)) :
    tr = ps.map Ev.resp ++ r ∧ ps.length = k := by
  induction k generalizing tr ps with
  | zero => simp [takeResps] at h; obtain ⟨rfl, rfl⟩ := h; simp
  | succ k ih =>
    cases tr with
    | nil => simp [takeResps] at h
    | cons e t =>
      cases e with
      | resp p =>
        simp only [takeResps] at h
        split at h
        · rename_i ps' r' hk
          simp only [Option.some.injEq, Prod.mk.injEq] at h
          obtain ⟨rfl, rfl⟩ := h
          obtain ⟨h1, h2⟩ := ih _ _ hk
          simp [h1, h2]
        · simp at h
      | lost => simp [takeResps] at h
      | deadline => simp [takeResps] at h
      | lostDeadline => simp [takeResps] at h

theorem frameEvents_ok (k : Nat) (tr : List Ev) (ps : List Pdu) (r : List Ev) (h : frameEvents k tr = (.ok ps, r)) :
    tr = ps.map Ev.resp ++ r ∧ ps.length = k := by
  cases tr with
  | nil => simp [frameEvents] at h
  | cons e t =>
    cases e with
    | resp p =>
      simp only [frameEvents] at h
      split at h
      · rename_i ps' r' hk
        simp only [Prod.mk.injEq, Res.ok.injEq] at h
        obtain ⟨rfl, rfl⟩ := h
        exact takeResps_ok _ _ _ _ hk
      · simp at h
    | lost => simp [frameEvents] at h
    | deadline => simp [frameEvents] at h
    | lostDeadline => simp [frameEvents] at h

theorem checkWkc_ok (p q : Pdu) (k : Nat) (h : p.checkWkc k = .ok q) : q = p ∧ p.wkc = k := by
  unfold Pdu.checkWkc at h
  by_cases hw : p.wkc = k
  · rw [if_pos hw] at h; cases h; exact ⟨rfl, hw⟩
  · rw [if_neg hw] at h; cases h

/-- A status response reports state `d`: it was answered by exactly one device (working counter
    1), its AL status decodes, the state nibble is `d` and the error indication is clear. -/
def Reports (d : Nat) (p : Pdu) : Prop := p.wkc = 1 ∧ unpackAlControl p.data = .ok ⟨d, false⟩

theorem checkStates_true (d : Nat) (ps : List Pdu) (h : checkStates d ps = .ok true) : ∀ p ∈ ps, Reports d p := by
  induction ps with
  | nil => simp
  | cons p ps ih =>
    simp only [checkStates] at h
    split at h
    · simp at h
    · rename_i q hq
      obtain ⟨rfl, hw⟩ := checkWkc_ok p q 1 hq
      split at h
      · simp at h
      · rename_i c hc
        by_cases he : c.error = true
        · rw [if_pos he] at h; simp at h
        · rw [if_neg he] at h
          by_cases hs : c.state ≠ d
          · rw [if_pos hs] at h; simp at h
          · rw [if_neg hs] at h
            intro r hr
            rcases List.mem_cons.1 hr with rfl | hr
            · refine ⟨hw, ?_⟩
              rw [hc]
              cases c with
              | mk st er => simp at he hs; simp [he, hs]
            · exact ih h r hr

theorem checkStates_false (d : Nat) (ps : List Pdu) (h : checkStates d ps = .ok false) : ∃ p ∈ ps, ¬ Reports d p := by
  induction ps with
  | nil => simp [checkStates] at h
  | cons p ps ih =>
    simp only [checkStates] at h
    split at h
    · simp at h
    · rename_i q hq
      obtain ⟨rfl, hw⟩ := checkWkc_ok p q 1 hq
      split at h
      · simp at h
      · rename_i c hc
        by_cases he : c.error = true
        · rw [if_pos he] at h; simp at h
        · rw [if_neg he] at h
          by_cases hs : c.state ≠ d
          · refine ⟨q, by simp, ?_⟩
            rintro ⟨_, hc'⟩
            rw [hc] at hc'
            cases hc'
            exact hs rfl
          · rw [if_neg hs] at h
            obtain ⟨r, hr, hn⟩ := ih h
            exact ⟨r, by simp [hr], hn⟩

/-- Frames of a round that passed completely: the trace starts with one response per member of
    every frame, in order, each reporting the state; exactly those frames were sent. -/
theorem isStateFrames_true (d : Nat) (fs : List (List Nat)) (tr rest : List Ev) (sent : List (List Dg))
    (h : isStateFrames d fs tr = (.ok true, rest, sent)) :
    ∃ ps : List Pdu, tr = ps.map Ev.resp ++ rest ∧ ps.length = fs.flatten.length ∧ (∀ p ∈ ps, Reports d p) ∧
      sent = fs.map (fun f => f.map fun a => Dg.fprd a Gen.Wkc.REG_AL_STATUS) := by
  induction fs generalizing tr sent with
  | nil =>
    simp only [isStateFrames, Prod.mk.injEq, true_and] at h
    obtain ⟨rfl, rfl⟩ := h
    exact ⟨[], by simp, by simp, by simp, by simp⟩
  | cons f fs ih =>
    simp only [isStateFrames] at h
    split at h
    · simp at h
    · split at h
      · simp at h
      · rename_i pdus t hfe
        obtain ⟨hshape, hlen⟩ := frameEvents_ok _ _ _ _ hfe
        split at h
        · simp at h
        · simp at h
        · rename_i hcs
          simp only [Prod.mk.injEq] at h
          obtain ⟨h1, h2, h3⟩ := h
          obtain ⟨ps, hs1, hs2, hs3, hs4⟩ := ih t (isStateFrames d fs t).2.2 (by
            rw [← h1, ← h2])
          refine ⟨pdus ++ ps, ?_, ?_, ?_, ?_⟩
          · rw [hshape, hs1]; simp
          · simp [hlen, hs2]
          · intro p hp
            rcases List.mem_append.1 hp with hp | hp
            · exact checkStates_true d pdus hcs p hp
            · exact hs3 p hp
          · rw [← h3, hs4]; simp

/-- A round that reports "not there yet" consumed at least one event. -/
theorem isStateFrames_false_consumes (d : Nat) (fs : List (List Nat)) (tr t : List Ev) (s : List (List Dg))
    (hne : ∀ f ∈ fs, f ≠ []) (h : isStateFrames d fs tr = (.ok false, t, s)) : t.length < tr.length := by
  induction fs generalizing tr s with
  | nil => simp [isStateFrames] at h
  | cons f fs ih =>
    simp only [isStateFrames] at h
    split at h
    · simp at h
    · split at h
      · simp at h
      · rename_i pdus t1 hfe
        obtain ⟨hshape, hlen⟩ := frameEvents_ok _ _ _ _ hfe
        have hf : f ≠ [] := hne f (by simp)
        have hpos : 0 < pdus.length := by
          rw [hlen]; exact List.length_pos_iff.2 hf
        have hlt : t1.length < tr.length := by rw [hshape]; simp; omega
        split at h
        · simp at h
        · simp only [Prod.mk.injEq, true_and] at h
          rw [← h.1]; exact hlt
        · simp only [Prod.mk.injEq] at h
          have := ih t1 (isStateFrames d fs t1).2.2 (fun g hg => hne g (by simp [hg])) (by rw [← h.1, ← h.2.1])
          omega

/-- Whatever the result, `isStateFrames` consumes a prefix of the trace. -/
theorem isStateFrames_suffix (d : Nat) (fs : List (List Nat)) (tr : List Ev) (r : Res Bool) (t : List Ev) (s : List (List Dg))
    (h : isStateFrames d fs tr = (r, t, s)) : ∃ q, tr = q ++ t := by
  induction fs generalizing tr r s with
  | nil => simp only [isStateFrames, Prod.mk.injEq] at h; exact ⟨[], by simp [h.2.1]⟩
  | cons f fs ih =>
    simp only [isStateFrames] at h
    split at h
    · rename_i hd
      simp only [Prod.mk.injEq] at h
      cases tr with
      | nil => simp at hd
      | cons e t' => exact ⟨[e], by simp [← h.2.1]⟩
    · split at h
      · rename_i e t1 hfe
        simp only [Prod.mk.injEq] at h
        cases tr with
        | nil => simp [frameEvents] at hfe; exact ⟨[], by simp [← h.2.1, ← hfe.2]⟩
        | cons e0 t0 =>
          cases e0 with
          | resp p =>
            simp only [frameEvents] at hfe
            split at hfe
            · simp at hfe
            · simp only [Prod.mk.injEq] at hfe
              exact ⟨.resp p :: t0, by simp [← h.2.1, ← hfe.2]⟩
          | lost => simp only [frameEvents, Prod.mk.injEq] at hfe; exact ⟨[.lost], by simp [← h.2.1, ← hfe.2]⟩
          | deadline => simp only [frameEvents, Prod.mk.injEq] at hfe; exact ⟨[.deadline], by simp [← h.2.1, ← hfe.2]⟩
          | lostDeadline => simp only [frameEvents, Prod.mk.injEq] at hfe; exact ⟨[.lostDeadline], by simp [← h.2.1, ← hfe.2]⟩
      · rename_i pdus t1 hfe
        obtain ⟨hshape, _⟩ := frameEvents_ok _ _ _ _ hfe
        split at h
        · simp only [Prod.mk.injEq] at h; exact ⟨pdus.map Ev.resp, by rw [hshape, ← h.2.1]⟩
        · simp only [Prod.mk.injEq] at h; exact ⟨pdus.map Ev.resp, by rw [hshape, ← h.2.1]⟩
        · simp only [Prod.mk.injEq] at h
          obtain ⟨q, hq⟩ := ih t1 (isStateFrames d fs t1).1 (isStateFrames d fs t1).2.2 (by rw [← h.2.1])
          exact ⟨pdus.map Ev.resp ++ q, by rw [hshape, hq]; simp⟩

/-! ### Chunking -/

theorem pushStateChecks_bounds (L : Nat) (used num : Nat) (ms : List Nat) :
    (pushStateChecks L used num ms).1 = [] ∨
    (used + (pushStateChecks L used num ms).1.length * CHECK_SIZE ≤ L ∧
     num + (pushStateChecks L used num ms).1.length ≤ max (num + 1) (Gen.Wkc.STATE_CHECKS_BREAK_AFTER + 1)) := by
  induction ms generalizing used num with
  | nil => left; simp [pushStateChecks]
  | cons a rest ih =>
    unfold pushStateChecks
    split
    · rename_i hfit
      split
      · right; simp; omega
      · rename_i hbrk
        right
        rcases ih (used + CHECK_SIZE) (num + 1) with h0 | ⟨h1, h2⟩
        · simp [h0]; omega
        · simp only [List.length_cons]
          constructor
          · rw [Nat.add_mul]; omega
          · omega
    · left; rfl

theorem pushStateChecks_nonempty (L : Nat) (a : Nat) (ms : List Nat) (hL : CHECK_SIZE ≤ L) :
    (pushStateChecks L 0 0 (a :: ms)).1 ≠ [] := by
  unfold pushStateChecks
  rw [if_pos (by omega)]
  split <;> simp

/-- `chunks` splits the members: frames in order, then the unplaced rest. -/
theorem chunks_flatten (L fuel : Nat) (ms : List Nat) :
    (chunks L fuel ms).1.flatten ++ (chunks L fuel ms).2 = ms := by
  induction fuel generalizing ms with
  | zero => simp [chunks]
  | succ fuel ih =>
    simp only [chunks]
    split
    · simp
    · simp only [List.flatten_cons, List.append_assoc]
      rw [ih]
      exact pushStateChecks_append L 0 0 ms

theorem chunks_frames (L fuel : Nat) (ms : List Nat) :
    ∀ f ∈ (chunks L fuel ms).1, f ≠ [] ∧ f.length * CHECK_SIZE ≤ L ∧ f.length ≤ Gen.Wkc.STATE_CHECKS_BREAK_AFTER + 1 := by
  induction fuel generalizing ms with
  | zero => simp [chunks]
  | succ fuel ih =>
    simp only [chunks]
    split
    · simp
    · rename_i hne
      intro f hf
      rcases List.mem_cons.1 hf with rfl | hf
      · refine ⟨hne, ?_⟩
        rcases pushStateChecks_bounds L 0 0 ms with h0 | ⟨h1, h2⟩
        · exact absurd h0 hne
        · constructor
          · omega
          · simp at h2; omega
      · exact ih _ f hf

/-- With room for at least one check per frame, `members.length` rounds of fuel place everybody. -/
theorem chunks_rest (L fuel : Nat) (ms : List Nat) (hL : CHECK_SIZE ≤ L) (hf : ms.length ≤ fuel) :
    (chunks L fuel ms).2 = [] := by
  induction fuel generalizing ms with
  | zero =>
    have : ms = [] := List.length_eq_zero_iff.1 (by omega)
    simp [chunks, this]
  | succ fuel ih =>
    simp only [chunks]
    cases ms with
    | nil => simp [pushStateChecks]
    | cons a rest =>
      rw [if_neg (pushStateChecks_nonempty L a rest hL)]
      simp only
      apply ih
      have h1 := pushStateChecks_length L 0 0 (a :: rest)
      have h2 : (pushStateChecks L 0 0 (a :: rest)).1.length ≠ 0 := by
        intro h0; exact pushStateChecks_nonempty L a rest hL (List.length_eq_zero_iff.1 h0)
      simp at hf h1
      omega

theorem round_complete (L : Nat) (ms : List Nat) (hL : CHECK_SIZE ≤ L) :
    (round L ms).2 = [] ∧ (round L ms).1.flatten = ms := by
  have h2 := chunks_rest L ms.length ms hL (Nat.le_refl _)
  have h1 := chunks_flatten L ms.length ms
  unfold round
  rw [h2] at h1
  exact ⟨h2, by simpa using h1⟩

/-! ### is_state / wait_for_state -/

/-- `is_state` said true: every member was polled exactly once, in order, in frames that fit, and
    every response reported the state — unless (release build only) no check fits a frame. -/
theorem isState_true (m : Mode) (L d : Nat) (members : List Nat) (tr rest : List Ev) (sent : List (List Dg))
    (hm : m = .checked ∨ CHECK_SIZE ≤ L)
    (h : isState m L d members tr = (.ok true, rest, sent)) :
    ∃ ps : List Pdu, tr = ps.map Ev.resp ++ rest ∧ ps.length = members.length ∧ (∀ p ∈ ps, Reports d p) ∧
      sent = (round L members).1.map (fun f => f.map fun a => Dg.fprd a Gen.Wkc.REG_AL_STATUS) ∧
      (round L members).1.flatten = members := by
  unfold isState at h
  split at h
  · rename_i t s hfr
    have hrest : (round L members).2 = [] := by
      by_cases hr : (round L members).2 = []
      · exact hr
      · rw [if_neg hr] at h
        rcases hm with rfl | hL
        · simp at h
        · exact absurd (round_complete L members hL).1 hr
    rw [if_pos hrest] at h
    simp only [Prod.mk.injEq, true_and] at h
    obtain ⟨rfl, rfl⟩ := h
    have hflat : (round L members).1.flatten = members := by
      have := chunks_flatten L members.length members
      unfold round at hrest ⊢
      rw [hrest] at this
      simpa using this
    obtain ⟨ps, h1, h2, h3, h4⟩ := isStateFrames_true d _ _ _ _ hfr
    exact ⟨ps, h1, by rw [h2, hflat], h3, h4, hflat⟩
  · rename_i hother
    rw [h] at hother
    exact absurd rfl (hother _ _)

theorem isState_false_consumes (m : Mode) (L d : Nat) (members : List Nat) (tr t : List Ev) (s : List (List Dg))
    (h : isState m L d members tr = (.ok false, t, s)) : t.length < tr.length := by
  unfold isState at h
  split at h
  · split at h
    · simp at h
    · split at h <;> simp at h
  · exact isStateFrames_false_consumes d _ tr t s (fun f hf => (chunks_frames L _ members f hf).1) h

end Ec.Group

namespace Ec.Group
open Ec Ec.Wkc

/-- `wait_for_state` said Ok: the trace ends (before `rest`) with a complete round in which every
    member, in order, reported the state. -/
theorem waitLoop_ok (m : Mode) (L d : Nat) (members : List Nat) (fuel : Nat) (tr rest : List Ev) (sent : List (List Dg))
    (hm : m = .checked ∨ CHECK_SIZE ≤ L)
    (h : waitLoop m L d members fuel tr = (.ok (), rest, sent)) :
    ∃ (pre : List Ev) (ps : List Pdu), tr = pre ++ ps.map Ev.resp ++ rest ∧ ps.length = members.length ∧
      ∀ p ∈ ps, Reports d p := by
  induction fuel generalizing tr sent with
  | zero => simp [waitLoop] at h
  | succ fuel ih =>
    simp only [waitLoop] at h
    split at h
    · simp at h
    · rename_i t s his
      simp only [Prod.mk.injEq, true_and] at h
      obtain ⟨rfl, rfl⟩ := h
      obtain ⟨ps, h1, h2, h3, _⟩ := isState_true m L d members tr _ _ hm his
      exact ⟨[], ps, by simpa using h1, h2, h3⟩
    · rename_i t s his
      simp only [Prod.mk.injEq] at h
      obtain ⟨pre, ps, h1, h2, h3⟩ := ih t (waitLoop m L d members fuel t).2.2 (by rw [← h.1, ← h.2.1])
      have hcons := isState_false_consumes m L d members tr t s his
      -- the failed round consumed a prefix of the trace
      have hpre : ∃ q, tr = q ++ t := by
        unfold isState at his
        split at his
        · split at his
          · simp at his
          · split at his <;> simp at his
        · exact isStateFrames_suffix d _ tr _ t s his
      obtain ⟨q, hq⟩ := hpre
      exact ⟨q ++ pre, ps, by rw [hq, h1]; simp, h2, h3⟩

end Ec.Group

namespace Ec.Group
open Ec Ec.Wkc

/-! ### Request phase -/

theorem requestNowaitL_ok (a d : Nat) (tr rest : List Ev) (sent : List (List Dg))
    (h : requestNowaitL a d tr = (.ok (), rest, sent)) :
    ∃ p c, tr = .resp p :: rest ∧ p.wkc = 1 ∧ unpackAlControl p.data = .ok c ∧ c.error = false ∧
      sent = [[Dg.fpwr a Gen.Wkc.REG_AL_CONTROL (alControlByte d)]] := by
  cases tr with
  | nil => simp [requestNowaitL] at h
  | cons e t =>
    simp only [requestNowaitL] at h
    split at h
    · simp at h
    · rename_i c h1
      obtain ⟨p, he, hw, hu⟩ := write1_ok _ _ _ _ h1
      by_cases herr : c.error = true
      · rw [if_pos herr] at h
        split at h
        · simp at h
        · split at h <;> simp at h
      · rw [if_neg herr] at h
        simp only [Prod.mk.injEq, true_and] at h
        obtain ⟨rfl, rfl⟩ := h
        exact ⟨p, c, by rw [he], hw, hu, by simpa using herr, rfl⟩

theorem requestNowaitL_suffix (a d : Nat) (tr : List Ev) (r : Res Unit) (t : List Ev) (s : List (List Dg))
    (h : requestNowaitL a d tr = (r, t, s)) : ∃ q, tr = q ++ t := by
  cases tr with
  | nil => simp only [requestNowaitL, Prod.mk.injEq] at h; exact ⟨[], by simp [h.2.1]⟩
  | cons e t0 =>
    simp only [requestNowaitL] at h
    split at h
    · simp only [Prod.mk.injEq] at h; exact ⟨[e], by simp [h.2.1]⟩
    · split at h
      · cases t0 with
        | nil => simp only [Prod.mk.injEq] at h; exact ⟨[e], by simp [← h.2.1]⟩
        | cons e2 t2 =>
          simp only at h
          split at h <;> (simp only [Prod.mk.injEq] at h; exact ⟨[e, e2], by simp [h.2.1]⟩)
      · simp only [Prod.mk.injEq] at h; exact ⟨[e], by simp [h.2.1]⟩

theorem requestNowaitL_addr (a d : Nat) (tr : List Ev) :
    ∀ f ∈ (requestNowaitL a d tr).2.2, ∀ g ∈ f, g.addr = a := by
  cases tr with
  | nil => simp [requestNowaitL]
  | cons e t0 =>
    simp only [requestNowaitL]
    split
    · simp [Dg.addr]
    · split
      · cases t0 with
        | nil => simp [Dg.addr]
        | cons e2 t2 =>
          simp only
          split <;> simp [Dg.addr]
      · simp [Dg.addr]

theorem requestAll_ok (d : Nat) (members : List Nat) (tr rest : List Ev) (sent : List (List Dg))
    (h : requestAll d members tr = (.ok (), rest, sent)) :
    ∃ ps : List Pdu, tr = ps.map Ev.resp ++ rest ∧ ps.length = members.length ∧
      (∀ p ∈ ps, p.wkc = 1 ∧ ∃ c, unpackAlControl p.data = .ok c ∧ c.error = false) ∧
      sent = members.map (fun a => [Dg.fpwr a Gen.Wkc.REG_AL_CONTROL (alControlByte d)]) := by
  induction members generalizing tr sent with
  | nil =>
    simp only [requestAll, Prod.mk.injEq, true_and] at h
    obtain ⟨rfl, rfl⟩ := h
    exact ⟨[], by simp, by simp, by simp, by simp⟩
  | cons a ms ih =>
    simp only [requestAll] at h
    split at h
    · simp at h
    · rename_i t s hone
      obtain ⟨p, c, hshape, hw, hu, he, hs⟩ := requestNowaitL_ok a d tr t s hone
      simp only [Prod.mk.injEq] at h
      obtain ⟨ps, h1, h2, h3, h4⟩ := ih t (requestAll d ms t).2.2 (by rw [← h.1, ← h.2.1])
      refine ⟨p :: ps, ?_, by simp [h2], ?_, ?_⟩
      · rw [hshape, h1]; simp
      · intro q hq
        rcases List.mem_cons.1 hq with rfl | hq
        · exact ⟨hw, c, hu, he⟩
        · exact h3 q hq
      · rw [← h.2.2, hs, h4]; simp

theorem requestAll_suffix (d : Nat) (members : List Nat) (tr : List Ev) (r : Res Unit) (t : List Ev) (s : List (List Dg))
    (h : requestAll d members tr = (r, t, s)) : ∃ q, tr = q ++ t := by
  induction members generalizing tr r s with
  | nil => simp only [requestAll, Prod.mk.injEq] at h; exact ⟨[], by simp [h.2.1]⟩
  | cons a ms ih =>
    simp only [requestAll] at h
    split at h
    · rename_i e t1 s1 hone
      simp only [Prod.mk.injEq] at h
      obtain ⟨q, hq⟩ := requestNowaitL_suffix a d tr _ _ _ hone
      exact ⟨q, by rw [hq, h.2.1]⟩
    · rename_i t1 s1 hone
      simp only [Prod.mk.injEq] at h
      obtain ⟨q, hq⟩ := requestNowaitL_suffix a d tr _ _ _ hone
      obtain ⟨q2, hq2⟩ := ih t1 (requestAll d ms t1).1 (requestAll d ms t1).2.2 (by rw [← h.2.1])
      exact ⟨q ++ q2, by rw [hq, hq2]; simp⟩

theorem requestAll_addr (d : Nat) (members : List Nat) (tr : List Ev) :
    ∀ f ∈ (requestAll d members tr).2.2, ∀ g ∈ f, g.addr ∈ members := by
  induction members generalizing tr with
  | nil => simp [requestAll]
  | cons a ms ih =>
    simp only [requestAll]
    have hone := requestNowaitL_addr a d tr
    split
    · rename_i e t1 s1 heq
      rw [heq] at hone
      intro f hf g hg
      simp [hone f hf g hg]
    · rename_i t1 s1 heq
      rw [heq] at hone
      intro f hf g hg
      rcases List.mem_append.1 hf with hf | hf
      · simp [hone f hf g hg]
      · have := ih t1 f hf g hg
        simp [this]

/-! ### What the status rounds send -/

theorem isStateFrames_sent (d : Nat) (fs : List (List Nat)) (tr : List Ev) :
    ∀ f ∈ (isStateFrames d fs tr).2.2, ∀ g ∈ f, ∃ a, (∃ f' ∈ fs, a ∈ f') ∧ g = Dg.fprd a Gen.Wkc.REG_AL_STATUS := by
  induction fs generalizing tr with
  | nil => simp [isStateFrames]
  | cons f0 fs ih =>
    simp only [isStateFrames]
    have own : ∀ g ∈ f0.map (fun a => Dg.fprd a Gen.Wkc.REG_AL_STATUS),
        ∃ a, (∃ f' ∈ f0 :: fs, a ∈ f') ∧ g = Dg.fprd a Gen.Wkc.REG_AL_STATUS := by
      intro g hg
      obtain ⟨a, ha, rfl⟩ := List.mem_map.1 hg
      exact ⟨a, ⟨f0, by simp, ha⟩, rfl⟩
    split
    · simp
    · split
      · intro f hf g hg
        simp only [List.mem_singleton] at hf
        subst hf
        exact own g hg
      · split
        · intro f hf g hg
          simp only [List.mem_singleton] at hf
          subst hf
          exact own g hg
        · intro f hf g hg
          simp only [List.mem_singleton] at hf
          subst hf
          exact own g hg
        · intro f hf g hg
          simp only [List.cons_append, List.nil_append, List.mem_cons] at hf
          rcases hf with rfl | hf
          · exact own g hg
          · obtain ⟨a, ⟨f', hf', ha⟩, rfl⟩ := ih _ f hf g hg
            exact ⟨a, ⟨f', by simp [hf'], ha⟩, rfl⟩

theorem round_mem (L : Nat) (members : List Nat) (a : Nat) (f : List Nat) (hf : f ∈ (round L members).1) (ha : a ∈ f) :
    a ∈ members := by
  have h := chunks_flatten L members.length members
  have : a ∈ (chunks L members.length members).1.flatten := List.mem_flatten.2 ⟨f, hf, ha⟩
  rw [← h]
  exact List.mem_append_left _ this

theorem isState_sent (m : Mode) (L d : Nat) (members : List Nat) (tr : List Ev) :
    ∀ f ∈ (isState m L d members tr).2.2, ∀ g ∈ f, ∃ a ∈ members, g = Dg.fprd a Gen.Wkc.REG_AL_STATUS := by
  have base := isStateFrames_sent d (round L members).1 tr
  have lift : ∀ f ∈ (isStateFrames d (round L members).1 tr).2.2, ∀ g ∈ f,
      ∃ a ∈ members, g = Dg.fprd a Gen.Wkc.REG_AL_STATUS := by
    intro f hf g hg
    obtain ⟨a, ⟨f', hf', ha⟩, rfl⟩ := base f hf g hg
    exact ⟨a, round_mem L members a f' hf' ha, rfl⟩
  unfold isState
  split
  · rename_i t s hfr
    rw [hfr] at lift
    split
    · exact lift
    · split <;> exact lift
  · exact lift

theorem waitLoop_fprd (m : Mode) (L d : Nat) (members : List Nat) (fuel : Nat) (tr : List Ev) :
    ∀ f ∈ (waitLoop m L d members fuel tr).2.2, ∀ g ∈ f, ∃ a ∈ members, g = Dg.fprd a Gen.Wkc.REG_AL_STATUS := by
  induction fuel generalizing tr with
  | zero => simp [waitLoop]
  | succ fuel ih =>
    simp only [waitLoop]
    have hs := isState_sent m L d members tr
    split
    · rename_i e t s his; rw [his] at hs; exact hs
    · rename_i t s his; rw [his] at hs; exact hs
    · rename_i t s his
      rw [his] at hs
      intro f hf g hg
      rcases List.mem_append.1 hf with hf | hf
      · exact hs f hf g hg
      · exact ih t f hf g hg

theorem waitLoop_addr (m : Mode) (L d : Nat) (members : List Nat) (fuel : Nat) (tr : List Ev) :
    ∀ f ∈ (waitLoop m L d members fuel tr).2.2, ∀ g ∈ f, g.addr ∈ members := by
  intro f hf g hg
  obtain ⟨a, ha, rfl⟩ := waitLoop_fprd m L d members fuel tr f hf g hg
  exact ha

/-! ### Deadline -/

theorem round_first (L a : Nat) (ms : List Nat) (hL : CHECK_SIZE ≤ L) :
    ∃ f fs, (round L (a :: ms)).1 = f :: fs := by
  unfold round
  simp only [List.length_cons, chunks]
  rw [if_neg (pushStateChecks_nonempty L a ms hL)]
  exact ⟨_, _, rfl⟩

theorem isState_deadline (m : Mode) (L d a : Nat) (ms : List Nat) (t : List Ev) (hL : CHECK_SIZE ≤ L) :
    isState m L d (a :: ms) (.deadline :: t) = (.error (.timeout .stateTransition), t, []) := by
  obtain ⟨f, fs, hr⟩ := round_first L a ms hL
  unfold isState
  rw [hr]
  simp [isStateFrames]

theorem isState_lostDeadline (m : Mode) (L d a : Nat) (ms : List Nat) (t : List Ev) (hL : CHECK_SIZE ≤ L) :
    ∃ s, isState m L d (a :: ms) (.lostDeadline :: t) = (.error (.timeout .stateTransition), t, s) := by
  obtain ⟨f, fs, hr⟩ := round_first L a ms hL
  refine ⟨[f.map fun a => Dg.fprd a Gen.Wkc.REG_AL_STATUS], ?_⟩
  unfold isState
  rw [hr]
  simp [isStateFrames, frameEvents]

/-- Any fuel above the trace length gives the same result: every failed round consumes an event. -/
theorem waitLoop_fuel (m : Mode) (L d : Nat) (members : List Nat) (f1 : Nat) :
    ∀ (f2 : Nat) (tr : List Ev), tr.length < f1 → tr.length < f2 →
      waitLoop m L d members f1 tr = waitLoop m L d members f2 tr := by
  induction f1 with
  | zero => intro f2 tr h; omega
  | succ f1 ih =>
    intro f2 tr h1 h2
    cases f2 with
    | zero => omega
    | succ f2 =>
      simp only [waitLoop]
      rcases his : isState m L d members tr with ⟨r, t, s⟩
      cases r with
      | error e => rfl
      | ok b =>
        cases b with
        | true => rfl
        | false =>
          have hc := isState_false_consumes m L d members tr t s his
          simp only
          rw [ih f2 t (by omega) (by omega)]

theorem filter_fpwr_requests (reg v : Nat) (l : List Nat) :
    ((l.map (fun a => [Dg.fpwr a reg v])).flatten.filter Dg.isFpwr) =
      l.map (fun a => Dg.fpwr a reg v) := by
  induction l with
  | nil => simp
  | cons a l ih =>
    simp only [List.map_cons, List.flatten_cons, List.singleton_append]
    rw [List.filter_cons_of_pos (by rfl), ih]

end Ec.Group
