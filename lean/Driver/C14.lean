import EcModel.Drv.C14
def main : IO Unit := Ec.Drv.runDriver Ec.Drv.C14.handle
