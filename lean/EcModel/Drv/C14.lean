/- Line protocol for C14: the shared EEPROM machine (see Drv/Eeprom.lean). -/
import EcModel.Drv.Eeprom

namespace Ec.Drv.C14
def handle : List String → String := Ec.Drv.Eeprom.handle
end Ec.Drv.C14
