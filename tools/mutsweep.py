#!/usr/bin/env python3
"""Mutation sweep: measures which small source changes of /repo the registered checks notice.

  tools/mutsweep.py gen <Cxx> [--files f1,f2] [--max N] [--seed S] [--ops rel,arith,...] > mutants.jsonl
  tools/mutsweep.py run <mutants.jsonl> [--workers K] [--checks C07,C04 | auto] [--tests] --out <results.jsonl>
  tools/mutsweep.py report <results.jsonl>...

`gen` enumerates single-token mutants of the non-test, non-instrumentation code of the property's anchor
files (relational / arithmetic / boolean / constant / method swaps / statement deletion). `run` gives every
worker a private clone of /repo and a private copy of /verif (with its build output), bind-mounts them over
/repo and /verif in a private mount namespace (as tools/seedtest_ns.sh does), applies one mutant at a time and
runs the quick checks of the properties that anchor the mutated file. /repo itself is never touched.

Outcome per (mutant, check): killed-input (VIOLATION with a concrete failing input), killed-tie (VIOLATION ...
no-failing-input-found), nocompile (harness build failed), survived (OK). With --tests, survivors are also run
through the repository's own unit tests (`cargo test --offline --lib` of the crate holding the file).
This is an evaluation tool for the machinery (which code a check is blind to); it decides no property.
"""
import json, os, random, re, subprocess, sys, threading, time, shutil, queue

ROOT = os.path.dirname(os.path.dirname(os.path.abspath(__file__)))
REPO = "/repo"

LOGMAC = re.compile(r"(fmt::|log::|trace!|debug!|info!|warn!|error!|defmt|assert|panic!|unreachable!|todo!|write!|format!|println!)")


def props():
    out = {}
    for l in open(os.path.join(ROOT, "properties.jsonl")):
        p = json.loads(l)
        out[p["id"]] = p
    return out


def code_lines(path):
    """(lineno, text) of lines that are candidate code: outside #[cfg(test)] modules, cfg(ethercrab_verif) items,
    comments, attributes, use lines, logging macros."""
    text = open(path).read().split("\n")
    out = []
    skip_depth = None  # brace depth at which a skipped item started
    depth = 0
    pending_skip = False
    in_block_comment = False
    for i, raw in enumerate(text, 1):
        line = raw
        if in_block_comment:
            if "*/" in line:
                in_block_comment = False
            continue
        if line.strip().startswith("/*"):
            if "*/" not in line:
                in_block_comment = True
            continue
        code = re.sub(r"//.*", "", line)
        s = code.strip()
        if re.match(r"#\[cfg\((test|ethercrab_verif|all\(test)", s) or re.match(r"#\[cfg\(.*miri", s):
            pending_skip = True
        opens = code.count("{")
        closes = code.count("}")
        if pending_skip and skip_depth is None and ("{" in code or s.endswith(";")):
            if "{" in code:
                skip_depth = depth
                pending_skip = False
            elif s.endswith(";") and not s.startswith("#"):
                pending_skip = False
                depth += opens - closes
                continue
        depth += opens - closes
        if skip_depth is not None:
            if depth <= skip_depth:
                skip_depth = None
            continue
        if pending_skip:
            continue
        if not s or s.startswith("#") or s.startswith("use ") or s.startswith("pub use ") or s.startswith("//"):
            continue
        if LOGMAC.search(s):
            continue
        out.append((i, raw))
    return out


REL = [("<=", "<"), (">=", ">"), ("==", "!="), ("!=", "=="), ("<", "<="), (">", ">=")]


def mutate_line(raw):
    """yield (op, newline) single-token mutants of one source line."""
    code_end = raw.find("//")
    code = raw if code_end < 0 else raw[:code_end]
    tail = "" if code_end < 0 else raw[code_end:]
    res = []

    def sub_at(m, repl, op):
        res.append((op, code[: m.start()] + repl + code[m.end():] + tail))

    # relational (avoid generics / arrows / shifts / lifetimes)
    for m in re.finditer(r"(?<![<>=!\-])(<=|>=|==|!=)(?![=>])", code):
        rep = dict(REL)[m.group(1)]
        sub_at(m, rep, "rel")
        if m.group(1) in ("<=", ">="):
            sub_at(m, "==", "rel")
    for m in re.finditer(r"(?<=[\w\)\]] )(<|>)(?= [\w\(\-])", code):
        sub_at(m, dict(REL)[m.group(1)], "rel")
        sub_at(m, "<" if m.group(1) == ">" else ">", "rel")
    # arithmetic
    for m in re.finditer(r"(?<=[\w\)\]] )(\+|-|\*|/|%)(?= [\w\(])", code):
        o = m.group(1)
        for rep in {"+": ["-"], "-": ["+"], "*": ["/", "+"], "/": ["*"], "%": ["/"]}[o]:
            sub_at(m, rep, "arith")
    for m in re.finditer(r"(?<=[\w\)\]] )(\+=|-=)(?= )", code):
        sub_at(m, "-=" if m.group(1) == "+=" else "+=", "arith")
    # boolean
    for m in re.finditer(r"&&|\|\|", code):
        sub_at(m, "||" if m.group(0) == "&&" else "&&", "bool")
    for m in re.finditer(r"(?<![\w!])!(?=[\w\(])(?!=)", code):
        sub_at(m, "", "neg")
    for m in re.finditer(r"\b(true|false)\b", code):
        sub_at(m, "false" if m.group(1) == "true" else "true", "bool")
    # integer literals
    for m in re.finditer(r"(?<![\w.])(0x[0-9a-fA-F_]+|\d[\d_]*)(?![\w.]*\")(?=(u8|u16|u32|u64|usize|i64|i32)?\b)", code):
        tok = m.group(1)
        try:
            v = int(tok.replace("_", ""), 0) if tok.startswith("0x") else int(tok.replace("_", ""))
        except ValueError:
            continue
        fmt = (lambda x: hex(x)) if tok.startswith("0x") else (lambda x: str(x))
        sub_at(m, fmt(v + 1), "const")
        if v > 0:
            sub_at(m, fmt(v - 1), "const")
    # method swaps
    swaps = [("saturating_sub", "wrapping_sub"), ("checked_add", "checked_sub"), ("saturating_add", "wrapping_add"),
             (".min(", ".max("), (".max(", ".min("), ("wrapping_add", "wrapping_sub"), ("wrapping_sub", "wrapping_add"),
             (".rev()", ""), ("div_ceil", "div_euclid"), (".is_some()", ".is_none()"), (".is_none()", ".is_some()"),
             (".is_ok()", ".is_err()"), (".is_err()", ".is_ok()"), (".any(", ".all("), (".all(", ".any("),
             ("to_le_bytes", "to_be_bytes"), ("from_le_bytes", "from_be_bytes"), (".first()", ".last()"), (".last()", ".first()"),
             (".skip(1)", ".skip(0)"), (".take_while(", ".skip_while("), ("Ordering::Relaxed", "Ordering::Relaxed"),
             ("FrameState::Sent", "FrameState::Sending"), ("FrameState::RxBusy", "FrameState::RxDone"),
             ("FrameState::Sendable", "FrameState::Sent"), ("FrameState::None", "FrameState::Created"),
             (".ignore_wkc()", ""), ("..=", ".."), ("SubDeviceState::Op", "SubDeviceState::SafeOp"),
             ("SubDeviceState::PreOp", "SubDeviceState::Init")]
    for a, b in swaps:
        if a == b:
            continue
        for m in re.finditer(re.escape(a), code):
            sub_at(m, b, "swap")
    # statement deletion: a whole-line call / assignment statement
    s = code.strip()
    if s.endswith(";") and not re.match(r"(let|return|break|continue|pub|const|static|type|use|fn|impl|struct|enum|mod)\b", s) \
            and code.count("(") == code.count(")") and code.count("{") == code.count("}") and len(s) > 3:
        res.append(("del", re.match(r"\s*", code).group(0) + "// (deleted)" + tail))
    # early-return removal:  `return Err(...)` handled by del? no (starts with return) -> make condition unreachable is covered by rel/bool
    return res


ORIG = "b58eb77f"  # the pinned snapshot the anchors' line numbers refer to


def fn_extents(text):
    """[(name, first_line, last_line)] of fn items (brace matching from the `fn` line)."""
    lines = text.split("\n")
    out = []
    for i, l in enumerate(lines):
        m = re.match(r"\s*(?:pub(?:\([^)]*\))?\s+)?(?:const\s+)?(?:async\s+)?(?:unsafe\s+)?fn\s+(\w+)", l)
        if not m:
            continue
        depth, started, j = 0, False, i
        while j < len(lines):
            c = re.sub(r"//.*", "", lines[j])
            depth += c.count("{") - c.count("}")
            if "{" in c:
                started = True
            if started and depth <= 0:
                break
            if not started and c.strip().endswith(";"):
                break
            j += 1
        out.append((m.group(1), i + 1, j + 1))
    return out


def focus_ranges(p):
    """{file: [(a, b, fn)]} in the CURRENT tree for the functions the property's anchors point at."""
    import subprocess
    wanted = {}
    lastfile = None
    for mech in p["anchors"].get("mechanism", []):
        for part in re.split(r"[;,]", mech["where"]):
            part = part.strip()
            m = re.match(r"([\w/.\-]+\.rs)(?::(\d+)(?:-(\d+))?)?$", part)
            if m:
                f = m.group(1)
                if "/" not in f:
                    cands = [x for x in p["anchors"]["files"] if x.endswith("/" + f)]
                    f = cands[0] if cands else f
                lastfile = f
                a = int(m.group(2)) if m.group(2) else None
                b = int(m.group(3)) if m.group(3) else a
            else:
                m = re.match(r"(\d+)(?:-(\d+))?$", part)
                if not m or lastfile is None:
                    continue
                f = lastfile
                a = int(m.group(1)); b = int(m.group(2)) if m.group(2) else a
            try:
                old = subprocess.run(["git", "-C", REPO, "show", "%s:%s" % (ORIG, f)], capture_output=True, text=True).stdout
            except Exception:
                continue
            for name, x, y in fn_extents(old):
                if a is None or (x <= b and a <= y):
                    wanted.setdefault(f, set()).add(name)
    res = {}
    for f, names in wanted.items():
        path = os.path.join(REPO, f)
        if not os.path.exists(path):
            continue
        for name, x, y in fn_extents(open(path).read()):
            if name in names:
                res.setdefault(f, []).append((x, y, name))
    return res


def cmd_gen(argv):
    pid = argv[0]
    files = None
    mx = 10 ** 9
    seed = 1
    ops = None
    focus = False
    i = 1
    while i < len(argv):
        if argv[i] == "--files":
            files = argv[i + 1].split(","); i += 2
        elif argv[i] == "--max":
            mx = int(argv[i + 1]); i += 2
        elif argv[i] == "--seed":
            seed = int(argv[i + 1]); i += 2
        elif argv[i] == "--ops":
            ops = set(argv[i + 1].split(",")); i += 2
        elif argv[i] == "--focus":
            focus = True; i += 1
        else:
            i += 1
    P = props()
    if files is None:
        files = P[pid]["anchors"]["files"]
    fr = focus_ranges(P[pid]) if focus else None
    if focus:
        files = [f for f in files if f in fr]
        print("focus: " + "; ".join("%s: %s" % (f, ",".join(sorted(set(n for _, _, n in v)))) for f, v in fr.items()), file=sys.stderr)
    muts = []
    for f in files:
        path = os.path.join(REPO, f)
        if not os.path.exists(path):
            continue
        for ln, raw in code_lines(path):
            if fr is not None and not any(a <= ln <= b for a, b, _ in fr[f]):
                continue
            seen = set()
            for op, new in mutate_line(raw):
                if new == raw or new in seen:
                    continue
                if ops and op not in ops:
                    continue
                seen.add(new)
                muts.append({"file": f, "line": ln, "op": op, "before": raw, "after": new})
    rnd = random.Random(seed)
    rnd.shuffle(muts)
    muts = muts[:mx]
    muts.sort(key=lambda m: (m["file"], m["line"]))
    for n, m in enumerate(muts):
        m["id"] = "%s-%04d" % (pid, n)
        m["prop"] = pid
        print(json.dumps(m))


def checks_for_file(f, P):
    return [pid for pid, p in P.items() if f in p["anchors"]["files"]]


class Worker(threading.Thread):
    def __init__(self, k, q, outf, lock, checks, with_tests):
        super().__init__()
        self.k, self.q, self.outf, self.lock, self.checks, self.with_tests = k, q, outf, lock, checks, with_tests
        self.dir = "/tmp/mw/%d" % k

    def setup(self):
        shutil.rmtree(self.dir, ignore_errors=True)
        os.makedirs(self.dir)
        subprocess.run(["git", "clone", "-q", REPO, self.dir + "/repo"], check=True)
        subprocess.run(["rsync", "-a", "--exclude", "/out", "--exclude", "/.git", "--exclude", "/seeded", "--exclude", "/replays",
                        ROOT + "/", self.dir + "/verif/"], check=True)
        os.makedirs(self.dir + "/verif/out", exist_ok=True)

    def ns(self, script, timeout):
        full = "mount --bind %s/repo /repo && mount --bind %s/verif /verif || exit 97; %s" % (self.dir, self.dir, script)
        try:
            p = subprocess.run(["unshare", "-m", "bash", "-c", full], capture_output=True, text=True, timeout=timeout)
            return p.returncode, p.stdout + p.stderr
        except subprocess.TimeoutExpired:
            return 98, "timeout"

    def run(self):
        self.setup()
        P = props()
        while True:
            try:
                m = self.q.get_nowait()
            except queue.Empty:
                break
            path = os.path.join(self.dir, "repo", m["file"])
            lines = open(path).read().split("\n")
            if lines[m["line"] - 1] != m["before"]:
                continue
            orig = list(lines)
            lines[m["line"] - 1] = m["after"]
            open(path, "w").write("\n".join(lines))
            res = {"id": m["id"], "file": m["file"], "line": m["line"], "op": m["op"], "before": m["before"].strip(),
                   "after": m["after"].strip(), "checks": {}}
            cks = [m["prop"]] if self.checks == ["own"] else self.checks if self.checks else checks_for_file(m["file"], P)
            t0 = time.time()
            for c in cks:
                rc, out = self.ns("cd /verif && ./check %s 2>&1 | grep -E '^(OK|VIOLATION|DETAIL|KNOWN)' | cut -c1-400" % c, 1500)
                if "harness build failed" in out or "could not compile" in out:
                    res["checks"][c] = "nocompile"
                    res["detail"] = out[-300:]
                    break
                vio = [l for l in out.splitlines() if l.startswith("VIOLATION")]
                if rc == 98:
                    res["checks"][c] = "timeout"
                elif not vio and "OK property" in out:
                    res["checks"][c] = "survived"
                elif vio and all("no-failing-input-found" in l for l in vio):
                    res["checks"][c] = "killed-tie"
                    res.setdefault("details", {})[c] = [l for l in out.splitlines() if l.startswith("DETAIL")][:2]
                elif vio:
                    res["checks"][c] = "killed-input"
                    res.setdefault("details", {})[c] = [l for l in out.splitlines() if l.startswith("DETAIL")][:2]
                else:
                    res["checks"][c] = "unknown"
                    res["detail"] = out[-300:]
            res["wall"] = round(time.time() - t0, 1)
            if self.with_tests and res["checks"] and all(v == "survived" for v in res["checks"].values()):
                crate = "ethercrab-wire-derive" if m["file"].startswith("ethercrab-wire-derive") else \
                    "ethercrab-wire" if m["file"].startswith("ethercrab-wire") else "ethercrab"
                rc, out = self.ns("cd /repo && CARGO_TARGET_DIR=%s/tt RUSTUP_TOOLCHAIN=1.88.0 cargo test --offline -p %s --lib 2>&1 | tail -5" % (self.dir, crate), 1800)
                res["unit_tests"] = "pass" if "test result: ok" in out else "fail"
            open(path, "w").write("\n".join(orig))
            with self.lock:
                self.outf.write(json.dumps(res) + "\n")
                self.outf.flush()
        shutil.rmtree(self.dir, ignore_errors=True)


def cmd_run(argv):
    mf = argv[0]
    workers, checks, out, tests = 4, None, None, False
    i = 1
    while i < len(argv):
        if argv[i] == "--workers":
            workers = int(argv[i + 1]); i += 2
        elif argv[i] == "--checks":
            checks = None if argv[i + 1] == "auto" else argv[i + 1].split(","); i += 2
        elif argv[i] == "--out":
            out = argv[i + 1]; i += 2
        elif argv[i] == "--tests":
            tests = True; i += 1
        else:
            i += 1
    done = set()
    if os.path.exists(out):
        for l in open(out):
            done.add(json.loads(l)["id"])
    q = queue.Queue()
    for l in open(mf):
        m = json.loads(l)
        if m["id"] not in done:
            q.put(m)
    os.makedirs(os.path.dirname(os.path.abspath(out)), exist_ok=True)
    outf = open(out, "a")
    lock = threading.Lock()
    ws = [Worker(k, q, outf, lock, checks, tests) for k in range(workers)]
    for w in ws:
        w.start()
    for w in ws:
        w.join()


def cmd_report(argv):
    rows = []
    for f in argv:
        rows += [json.loads(l) for l in open(f)]
    tot = {}
    for r in rows:
        vals = list(r["checks"].values())
        if "nocompile" in vals:
            k = "nocompile"
        elif "killed-input" in vals:
            k = "killed-input"
        elif "killed-tie" in vals:
            k = "killed-tie"
        elif vals and all(v == "survived" for v in vals):
            k = "survived" + ("(unit tests fail)" if r.get("unit_tests") == "fail" else "")
        else:
            k = "other"
        tot[k] = tot.get(k, 0) + 1
        r["_k"] = k
    print(json.dumps(tot))
    for r in rows:
        if r["_k"].startswith("survived") or r["_k"] == "other":
            print("%-18s %s:%d [%s] %s  =>  %s   %s" % (r["_k"], r["file"], r["line"], r["op"], r["before"][:70], r["after"][:70], r["checks"]))


if __name__ == "__main__":
    {"gen": cmd_gen, "run": cmd_run, "report": cmd_report}[sys.argv[1]](sys.argv[2:])
