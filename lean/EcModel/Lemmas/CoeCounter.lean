/-
  C15 helper lemmas: the mailbox counter carried by successive requests.
-/
import EcModel.Lemmas.CoeReply

namespace Ec.Coe
open Ec Ec.Gen.Coe

/-- Counter field of a request image (byte 5, bits 4..6). -/
def reqCounter (img : List Nat) : Nat := bitsOf (img.getD 5 0) 4 3

/-- `k` applications of the counter update. -/
def ctrSeq (c0 : Nat) : Nat → Nat
  | 0 => c0
  | k + 1 => nextCounter (ctrSeq c0 k)

theorem nextCounter_range (c : Nat) (h1 : 1 ≤ c) (h7 : c ≤ 7) : nextCounter c = c % 7 + 1 := by
  have hmax : COUNTER_MAX = 7 := rfl
  have hreset : COUNTER_RESET = 1 := rfl
  unfold nextCounter
  by_cases h : c ≥ COUNTER_MAX
  · rw [if_pos h]; omega
  · rw [if_neg h]; omega

/-- Closed form: starting from c0 in 1..7 the counter cycles through 1..7. -/
theorem ctrSeq_closed (c0 : Nat) (h1 : 1 ≤ c0) (h7 : c0 ≤ 7) : ∀ k, ctrSeq c0 k = (c0 - 1 + k) % 7 + 1 := by
  intro k
  induction k with
  | zero => simp [ctrSeq]; omega
  | succ k ih =>
    simp only [ctrSeq, ih]
    rw [nextCounter_range _ (by omega) (by omega)]
    omega

/-- Every request written so far carries the counter value drawn for it, and the stored counter is the next one. -/
def Sync {σ : Type} (c0 : Nat) (s : St σ) : Prop :=
  s.ctr = ctrSeq c0 s.reqs.length ∧ ∀ k, k < s.reqs.length → reqCounter (s.reqs.getD k []) = ctrSeq c0 k % 8

theorem image_getD5 (wmbx : Nat) (req : List Nat) (hw : 6 ≤ wmbx) (hl : 6 ≤ req.length) :
    (image wmbx req).getD 5 0 = req.getD 5 0 := by
  unfold image
  simp only [List.getD_eq_getElem?_getD]
  rw [List.getElem?_take_of_lt (by omega), List.getElem?_append_left (by omega)]

/-- One "draw the counter, send a request carrying it" step keeps the invariant. -/
theorem draw_mwr_sync {σ ρ : Type} (w : World σ) (cfg : Cfg) (req : List Nat) (u : List Nat → Res ρ)
    (v : Nat → Nat → Bool) (c0 : Nat) (s : St σ) (hs : Sync c0 s) (hm : cfg.hasMailbox = true) (hw : 6 ≤ cfg.wmbx)
    (hl : 6 ≤ req.length) (h5 : req.getD 5 0 = 3 + 16 * (s.ctr % 8)) :
    Sync c0 (mailboxWriteRead w cfg req u v (mailboxCounter s).2).2 := by
  have hfin : ∀ (s1 : St σ), s1.ctr = nextCounter s.ctr → s1.reqs = s.reqs ++ [image cfg.wmbx req] → Sync c0 s1 := by
    intro s1 hc hr
    constructor
    · rw [hc, hr, hs.1]; simp [ctrSeq]
    · intro k hk
      rw [hr] at hk ⊢
      simp only [List.length_append, List.length_cons, List.length_nil] at hk
      by_cases hk' : k < s.reqs.length
      · have := hs.2 k hk'
        simp only [List.getD_eq_getElem?_getD] at this ⊢
        rw [List.getElem?_append_left hk']
        exact this
      · have hke : k = s.reqs.length := by omega
        subst hke
        simp only [List.getD_eq_getElem?_getD, List.getElem?_append_right (Nat.le_refl _), Nat.sub_self,
          List.getElem?_cons_zero, Option.getD_some]
        unfold reqCounter
        rw [image_getD5 cfg.wmbx req hw hl, h5, bits_ctr, ← hs.1]
  unfold mailboxWriteRead
  rw [if_neg (by simp [hm])]
  dsimp only
  have h1 : (writeRequest w cfg req (drainStale (mailboxCounter s).2)).ctr = nextCounter s.ctr := rfl
  have h2 : (writeRequest w cfg req (drainStale (mailboxCounter s).2)).reqs = s.reqs ++ [image cfg.wmbx req] := rfl
  generalize writeRequest w cfg req (drainStale (mailboxCounter s).2) = s1 at h1 h2 ⊢
  unfold readMailbox
  cases s1.outq with
  | nil => exact hfin _ h1 h2
  | cons m q => exact hfin _ h1 h2

theorem uploadRequest_b5 (ctr index : Nat) (access : SubIndex) :
    6 ≤ (uploadRequest ctr index access).length ∧ (uploadRequest ctr index access).getD 5 0 = 3 + 16 * (ctr % 8) := by
  simp [uploadRequest, packMailboxHeader, mbxCoe_eq]

theorem segmentRequest_b5 (ctr : Nat) (toggle : Bool) :
    6 ≤ (segmentRequest ctr toggle).length ∧ (segmentRequest ctr toggle).getD 5 0 = 3 + 16 * (ctr % 8) := by
  simp [segmentRequest, packMailboxHeader, mbxCoe_eq]

theorem downloadRequest_b5 (ctr index : Nat) (access : SubIndex) (data : List Nat) (len : Nat) :
    6 ≤ (downloadRequest ctr index access data len).length ∧
      (downloadRequest ctr index access data len).getD 5 0 = 3 + 16 * (ctr % 8) := by
  simp [downloadRequest, packMailboxHeader, mbxCoe_eq]

theorem segLoop_sync {σ : Type} (w : World σ) (cfg : Cfg) (c0 : Nat) (hm : cfg.hasMailbox = true) (hw : 6 ≤ cfg.wmbx) :
    ∀ (fuel : Nat) (toggle : Bool) (buf : List Nat) (total : Nat) (s : St σ), Sync c0 s →
      Sync c0 (segLoop w cfg fuel toggle buf total s).2 := by
  intro fuel
  induction fuel with
  | zero => intro _ _ _ s hs; exact hs
  | succ fuel ih =>
    intro toggle buf total s hs
    unfold segLoop
    dsimp only
    have h := draw_mwr_sync w cfg (segmentRequest (mailboxCounter s).1 toggle) unpackSdoSegmented (fun _ _ => true) c0 s hs hm
      hw (segmentRequest_b5 _ _).1 (segmentRequest_b5 _ _).2
    generalize mailboxWriteRead w cfg (segmentRequest (mailboxCounter s).1 toggle) unpackSdoSegmented
      (fun _ _ => true) (mailboxCounter s).2 = r at h
    obtain ⟨r1, s'⟩ := r
    cases r1 with
    | err e => exact h
    | panic why => exact h
    | ok hd =>
      obtain ⟨hh, data⟩ := hd
      dsimp only
      repeat' split
      all_goals first
        | exact h
        | exact ih _ _ _ s' h

theorem sdoRead_sync {σ : Type} (w : World σ) (cfg : Cfg) (c0 : Nat) (hm : cfg.hasMailbox = true) (hw : 6 ≤ cfg.wmbx)
    (fuel bufLen index : Nat) (access : SubIndex) (s : St σ) (hs : Sync c0 s) :
    Sync c0 (sdoRead w cfg fuel bufLen index access s).2 := by
  unfold sdoRead
  dsimp only
  have h := draw_mwr_sync w cfg (uploadRequest (mailboxCounter s).1 index access) unpackSdoNormal
    (validateIdx index access.subIndex) c0 s hs hm hw (uploadRequest_b5 _ _ _).1 (uploadRequest_b5 _ _ _).2
  generalize mailboxWriteRead w cfg (uploadRequest (mailboxCounter s).1 index access) unpackSdoNormal
    (validateIdx index access.subIndex) (mailboxCounter s).2 = r at h
  obtain ⟨r1, s'⟩ := r
  cases r1 with
  | err e => exact h
  | panic why => exact h
  | ok hd =>
    obtain ⟨hh, data⟩ := hd
    dsimp only
    split
    · exact h
    · cases unpackU32 data with
      | panic why => exact h
      | err e => exact h
      | ok completeSize =>
        dsimp only
        repeat' split
        all_goals first
          | exact h
          | exact segLoop_sync w cfg c0 hm hw _ _ _ _ s' h

theorem sdoReadT_sync {σ α : Type} (w : World σ) (cfg : Cfg) (c0 : Nat) (hm : cfg.hasMailbox = true) (hw : 6 ≤ cfg.wmbx)
    (fuel : Nat) (T : Dest α) (index : Nat) (access : SubIndex) (s : St σ) (hs : Sync c0 s) :
    Sync c0 (sdoReadT w cfg fuel T index access s).2 := by
  unfold sdoReadT
  have h := sdoRead_sync w cfg c0 hm hw fuel T.bufLen index access s hs
  generalize sdoRead w cfg fuel T.bufLen index access s = r at h
  obtain ⟨r1, s'⟩ := r
  cases r1 <;> exact h

theorem readEach_sync {σ α : Type} (w : World σ) (cfg : Cfg) (c0 : Nat) (hm : cfg.hasMailbox = true) (hw : 6 ≤ cfg.wmbx)
    (fuel : Nat) (T : Dest α) (index : Nat) : ∀ (n i : Nat) (s : St σ), Sync c0 s →
      Sync c0 (readEach w cfg fuel T index n i s).2 := by
  intro n
  induction n with
  | zero => intro _ s hs; exact hs
  | succ n ih =>
    intro i s hs
    unfold readEach
    have h := sdoReadT_sync w cfg c0 hm hw fuel T index (.index i) s hs
    generalize sdoReadT w cfg fuel T index (.index i) s = r at h
    obtain ⟨r1, s'⟩ := r
    cases r1 with
    | err e => exact h
    | panic why => exact h
    | ok v =>
      dsimp only
      have h2 := ih (i + 1) s' h
      generalize readEach w cfg fuel T index n (i + 1) s' = r2 at h2
      obtain ⟨r21, s''⟩ := r2
      cases r21 <;> exact h2

theorem sdoReadArray_sync {σ α : Type} (w : World σ) (cfg : Cfg) (c0 : Nat) (hm : cfg.hasMailbox = true)
    (hw : 6 ≤ cfg.wmbx) (fuel : Nat) (T : Dest α) (maxEntries index : Nat) (s : St σ) (hs : Sync c0 s) :
    Sync c0 (sdoReadArray w cfg fuel T maxEntries index s).2 := by
  unfold sdoReadArray
  have h := sdoReadT_sync w cfg c0 hm hw fuel destU8 index (.index 0) s hs
  generalize sdoReadT w cfg fuel destU8 index (.index 0) s = r at h
  obtain ⟨r1, s'⟩ := r
  cases r1 with
  | err e => exact h
  | panic why => exact h
  | ok len =>
    dsimp only
    split
    · exact h
    · exact readEach_sync w cfg c0 hm hw fuel T index len 1 s' h

theorem sdoWrite_sync {σ : Type} (w : World σ) (cfg : Cfg) (c0 : Nat) (hm : cfg.hasMailbox = true) (hw : 6 ≤ cfg.wmbx)
    (index : Nat) (access : SubIndex) (value : List Nat) (hv : value.length ≤ WRITE_MAX) (s : St σ) (hs : Sync c0 s) :
    Sync c0 (sdoWrite w cfg index access value s).2 := by
  unfold sdoWrite
  dsimp only
  rw [if_neg (by omega)]
  have h := draw_mwr_sync w cfg
    (downloadRequest (mailboxCounter s).1 index access (value ++ zeros (4 - value.length)) value.length)
    unpackSdoExpedited (validateIdx index access.subIndex) c0 s hs hm hw (downloadRequest_b5 _ _ _ _ _).1
    (downloadRequest_b5 _ _ _ _ _).2
  generalize mailboxWriteRead w cfg
    (downloadRequest (mailboxCounter s).1 index access (value ++ zeros (4 - value.length)) value.length)
    unpackSdoExpedited (validateIdx index access.subIndex) (mailboxCounter s).2 = r at h
  obtain ⟨r1, s'⟩ := r
  cases r1 <;> exact h

theorem writeEach_sync {σ : Type} (w : World σ) (cfg : Cfg) (c0 : Nat) (hm : cfg.hasMailbox = true) (hw : 6 ≤ cfg.wmbx)
    (index : Nat) : ∀ (vs : List (List Nat)) (i : Nat) (s : St σ), (∀ v ∈ vs, v.length ≤ WRITE_MAX) → Sync c0 s →
      Sync c0 (writeEach w cfg index i vs s).2 := by
  intro vs
  induction vs with
  | nil => intro _ s _ hs; exact hs
  | cons v vs ih =>
    intro i s hv hs
    unfold writeEach
    have h := sdoWrite_sync w cfg c0 hm hw index (.index (i % 256)) v (hv v List.mem_cons_self) s hs
    generalize sdoWrite w cfg index (.index (i % 256)) v s = r at h
    obtain ⟨r1, s'⟩ := r
    cases r1 with
    | err e => exact h
    | panic why => exact h
    | ok u => exact ih (i + 1) s' (fun v' h' => hv v' (List.mem_cons_of_mem _ h')) h

theorem sdoWriteArray_sync {σ : Type} (w : World σ) (cfg : Cfg) (c0 : Nat) (hm : cfg.hasMailbox = true)
    (hw : 6 ≤ cfg.wmbx) (index : Nat) (values : List (List Nat)) (hv : ∀ v ∈ values, v.length ≤ WRITE_MAX) (s : St σ)
    (hs : Sync c0 s) : Sync c0 (sdoWriteArray w cfg index values s).2 := by
  unfold sdoWriteArray
  have h := sdoWrite_sync w cfg c0 hm hw index (.index 0) [0] (by decide) s hs
  generalize sdoWrite w cfg index (.index 0) [0] s = r at h
  obtain ⟨r1, s'⟩ := r
  cases r1 with
  | err e => exact h
  | panic why => exact h
  | ok u =>
    dsimp only
    have h2 := writeEach_sync w cfg c0 hm hw index values 1 s' hv h
    generalize writeEach w cfg index 1 values s' = r2 at h2
    obtain ⟨r21, s''⟩ := r2
    cases r21 with
    | err e => exact h2
    | panic why => exact h2
    | ok u2 => exact sdoWrite_sync w cfg c0 hm hw index (.index 0) [values.length % 256] (by simp [WRITE_MAX]) s'' h2

end Ec.Coe
