/-
  C04 — every transmitted frame is a well-formed EtherCAT frame saying what was asked.
  Property theorems only; helper lemmas live in EcModel/Lemmas.
-/
import EcModel.Lemmas.FrameInv

namespace Ec.C04

open Ec

/-- One push request, together with the value the shared PDU index counter hands out for it. -/
inductive PushOp where
  | pdu (c : Cmd) (data : List Nat) (lenOv : Option Nat) (idx : Nat)
  | rest (c : Cmd) (bytes : List Nat) (idx : Nat)
  deriving Repr

/-- Run one push; second component: the datagrams that were accepted (returned `Ok`) so far. -/
def stepOp (s : CFrame × List Dgram) (op : PushOp) : CFrame × List Dgram :=
  match op with
  | .pdu c data lenOv idx =>
    let r := s.1.pushPdu c data lenOv idx
    match r.2 with
    | some _ => (r.1, s.2 ++ [⟨c, idx, declLen data lenOv, data⟩])
    | none => (r.1, s.2)
  | .rest c bytes idx =>
    let r := s.1.pushRest c bytes idx
    match r.2.1 with
    | .some k _ => (r.1, s.2 ++ [⟨c, idx, k, bytes.take k⟩])
    | _ => (r.1, s.2)

def run (cap : Nat) (ops : List PushOp) : CFrame × List Dgram :=
  ops.foldl stepOp (CFrame.init cap, [])

theorem pushPdu_fit (f : CFrame) (c : Cmd) (data : List Nat) (lenOv : Option Nat) (idx : Nat)
    (hfit : f.used + (declLen data lenOv + PDU_OVERHEAD) ≤ f.pdu.length) :
    f.pushPdu c data lenOv idx
      = ((f.commit c idx (declLen data lenOv) data).1, some (f.commit c idx (declLen data lenOv) data).2) := by
  unfold CFrame.pushPdu; rw [if_pos hfit]

theorem pushPdu_nofit (f : CFrame) (c : Cmd) (data : List Nat) (lenOv : Option Nat) (idx : Nat)
    (hfit : ¬ f.used + (declLen data lenOv + PDU_OVERHEAD) ≤ f.pdu.length) :
    f.pushPdu c data lenOv idx = (f, none) := by
  unfold CFrame.pushPdu; rw [if_neg hfit]

theorem pushRest_cases (f : CFrame) (c : Cmd) (bytes : List Nat) (idx : Nat) :
    (f.pushRest c bytes idx = (f, .none, false) ∧ (bytes = [] ∨ f.pdu.length - f.used - PDU_OVERHEAD = 0)) ∨
    (f.pushRest c bytes idx = ((f.commit c idx (restLen f bytes) (bytes.take (restLen f bytes))).1,
        .some (restLen f bytes) (f.commit c idx (restLen f bytes) (bytes.take (restLen f bytes))).2, true) ∧
      bytes ≠ [] ∧ f.pdu.length - f.used - PDU_OVERHEAD ≠ 0 ∧
      f.used + (restLen f bytes + PDU_OVERHEAD) ≤ f.pdu.length) ∨
    (f.pushRest c bytes idx = (f, .tooLong, true) ∧ bytes ≠ [] ∧ f.pdu.length - f.used - PDU_OVERHEAD ≠ 0 ∧
      ¬ f.used + (restLen f bytes + PDU_OVERHEAD) ≤ f.pdu.length) := by
  unfold CFrame.pushRest
  by_cases h1 : bytes.isEmpty
  · left; rw [if_pos h1]; exact ⟨rfl, Or.inl (List.isEmpty_iff.1 h1)⟩
  · rw [if_neg h1]
    have hne : bytes ≠ [] := fun e => h1 (List.isEmpty_iff.2 e)
    by_cases h2 : f.pdu.length - f.used - PDU_OVERHEAD = 0
    · left; rw [if_pos h2]; exact ⟨rfl, Or.inr h2⟩
    · right
      rw [if_neg h2]
      by_cases h3 : f.used + (restLen f bytes + PDU_OVERHEAD) ≤ f.pdu.length
      · left; rw [if_pos h3]; exact ⟨rfl, hne, h2, h3⟩
      · right; rw [if_neg h3]; exact ⟨rfl, hne, h2, h3⟩

theorem stepOp_inv (s : CFrame × List Dgram) (op : PushOp) (h : FInv s.1 s.2)
    (hcap : s.1.cap ≤ 2063) : FInv (stepOp s op).1 (stepOp s op).2 ∧ (stepOp s op).1.cap = s.1.cap := by
  cases op with
  | pdu c data lenOv idx =>
    have hb : data.length ≤ declLen data lenOv := by
      unfold declLen; split <;> omega
    by_cases hfit : s.1.used + (declLen data lenOv + PDU_OVERHEAD) ≤ s.1.pdu.length
    · simp only [stepOp, pushPdu_fit _ _ _ _ _ hfit]
      exact ⟨h.commit c idx _ data hb hfit hcap, commit_cap ..⟩
    · simp only [stepOp, pushPdu_nofit _ _ _ _ _ hfit]
      exact ⟨h, trivial⟩
  | rest c bytes idx =>
    rcases pushRest_cases s.1 c bytes idx with ⟨e, _⟩ | ⟨e, _, _, hfit⟩ | ⟨e, _⟩
    · simp only [stepOp, e]; exact ⟨h, trivial⟩
    · simp only [stepOp, e]
      exact ⟨h.commit c idx _ (bytes.take _) (by simp [restLen]) hfit hcap, commit_cap ..⟩
    · simp only [stepOp, e]; exact ⟨h, trivial⟩

theorem run_inv (cap : Nat) (hcap : cap ≤ 2063) (ops : List PushOp) :
    FInv (run cap ops).1 (run cap ops).2 ∧ (run cap ops).1.cap = cap := by
  unfold run
  have : ∀ (ops : List PushOp) (s : CFrame × List Dgram), FInv s.1 s.2 → s.1.cap = cap →
      FInv (ops.foldl stepOp s).1 (ops.foldl stepOp s).2 ∧ (ops.foldl stepOp s).1.cap = cap := by
    intro ops
    induction ops with
    | nil => intro s h hc; exact ⟨h, hc⟩
    | cons op ops ih =>
      intro s h hc
      have := stepOp_inv s op h (by omega)
      exact ih _ this.1 (by rw [this.2, hc])
  exact this ops _ (FInv.init cap) rfl

theorem bytes_of_inv {f : CFrame} {acc : List Dgram} (h : FInv f acc) :
    f.markSendable.asBytes = encodeFrame acc := by
  have hu := h.used
  simp only [CFrame.asBytes, CFrame.markSendable, encodeFrame, h.eth, hu]
  congr 1
  rcases h.shape with ⟨hacc, _, hpdu⟩ | ⟨ds, d, hacc, _, hpdu⟩
  · subst hacc; simp [dgramsSize_nil, encodeDgrams]
  · subst hacc
    rw [hpdu, encodeDgrams_snoc]
    have hl : (encMore ds ++ d.encode false).length = dgramsSize (ds ++ [d]) := by
      have hw : ∀ x ∈ ds, x.data.length ≤ x.len := fun x hx => h.wf x (by simp [hx])
      simp [encMore_length ds hw, Dgram.encode_length d false (h.wf d (by simp)), dgramsSize_snoc]
    rw [← hl, List.take_left]

/-- **C04 main theorem.** For every frame size up to the 11-bit limit and every sequence of pushes
    (with any index values), the bytes handed to the network driver are exactly the independent
    encoding of the datagrams whose push returned `Ok`: broadcast destination, MainDevice source,
    EtherType 0x88A4, length field = exact size of the datagrams, each datagram with the requested
    command/address/length/data zero-padded, zero irq and working counter, `more follows` on all but
    the last. -/
theorem frame_wellformed (cap : Nat) (hcap : cap ≤ 2063) (ops : List PushOp) :
    (run cap ops).1.markSendable.asBytes = encodeFrame (run cap ops).2 :=
  bytes_of_inv (run_inv cap hcap ops).1

/-- The transmitted frame never exceeds the configured frame size. -/
theorem frame_fits (cap : Nat) (hlo : 16 ≤ cap) (hcap : cap ≤ 2063) (ops : List PushOp) :
    (run cap ops).1.markSendable.asBytes.length ≤ cap := by
  obtain ⟨h, hc⟩ := run_inv cap hcap ops
  have hf := h.fits; have hp := h.plen; have he := h.eth
  simp only [CFrame.asBytes, CFrame.markSendable, List.length_append, he, List.length_take, hp]
  simp [ethHeader, Gen.MAINDEVICE_ADDR, ecatHeader, le16]
  rw [hc] at hf ⊢; omega

/-- The length field of the EtherCAT header is the exact size of the datagrams that follow and
    carries protocol type 1. -/
theorem length_field (ds : List Dgram) (h : dgramsSize ds < 2048) :
    rd16 (ecatHeader (dgramsSize ds)) = dgramsSize ds + 4096 := by
  simp only [ecatHeader, Gen.LEN_MASK]
  rw [rd16_le16 _ (by omega), Nat.mod_eq_of_lt h]

/-- A datagram that does not fit is refused (`TooLong`) and the frame is left exactly as it was,
    and it is refused *only* if it does not fit. -/
theorem push_refused_iff (f : CFrame) (c : Cmd) (data : List Nat) (lenOv : Option Nat) (idx : Nat) :
    ((f.pushPdu c data lenOv idx).2 = none ↔ f.pdu.length < f.used + declLen data lenOv + 12) ∧
    ((f.pushPdu c data lenOv idx).2 = none → (f.pushPdu c data lenOv idx).1 = f) := by
  by_cases hfit : f.used + (declLen data lenOv + PDU_OVERHEAD) ≤ f.pdu.length
  · rw [pushPdu_fit _ _ _ _ _ hfit]; simp [PDU_OVERHEAD] at hfit ⊢; omega
  · rw [pushPdu_nofit _ _ _ _ _ hfit]; simp [PDU_OVERHEAD] at hfit ⊢; omega

/-- Fill-the-rest pushes: the reported count is `min (room - 12) bytes.length`, exactly that prefix of
    the bytes is the datagram's data, nothing is pushed iff the input is empty or at most 12 bytes of
    room remain, and the `TooLong` branch is dead. -/
theorem rest_reports (f : CFrame) (c : Cmd) (bytes : List Nat) (idx : Nat) :
    let room := f.pdu.length - f.used
    ((f.pushRest c bytes idx).2.1 = .none ↔ (bytes = [] ∨ room ≤ 12)) ∧
    (f.pushRest c bytes idx).2.1 ≠ .tooLong ∧
    (∀ k h, (f.pushRest c bytes idx).2.1 = .some k h →
        k = min (room - 12) bytes.length ∧ 0 < k ∧
        (f.pushRest c bytes idx).1 = (f.commit c idx k (bytes.take k)).1) := by
  intro room
  rcases pushRest_cases f c bytes idx with ⟨e, hc⟩ | ⟨e, hne, hroom, hfit⟩ | ⟨e, hne, hroom, hnf⟩
  · rw [e]; simp only [PDU_OVERHEAD] at hc
    refine ⟨⟨fun _ => ?_, fun _ => rfl⟩, by simp, by simp⟩
    rcases hc with hc | hc
    · exact Or.inl hc
    · right; show f.pdu.length - f.used ≤ 12; omega
  · rw [e]
    have hlen : 0 < bytes.length := List.length_pos_iff.2 hne
    simp only [PDU_OVERHEAD] at hroom
    refine ⟨⟨fun h => by simp at h, fun h => ?_⟩, by simp, ?_⟩
    · rcases h with h | h
      · exact absurd h hne
      · exfalso; have : f.pdu.length - f.used ≤ 12 := h; omega
    · intro k h hk
      simp only [RestResult.some.injEq] at hk
      obtain ⟨hk, _⟩ := hk
      subst hk
      refine ⟨rfl, ?_, rfl⟩
      simp only [restLen, PDU_OVERHEAD]; omega
  · exfalso
    simp only [restLen, PDU_OVERHEAD] at hnf hroom; omega

/-- Auto-increment commands carry `0 - position` modulo 2^16. -/
theorem aprd_negation (pos r : Nat) (h : pos < 65536) :
    ∃ a, Cmd.mkAprd pos r = .aprd a r ∧ a < 65536 ∧ (a + pos) % 65536 = 0 := by
  refine ⟨(65536 - pos % 65536) % 65536, rfl, Nat.mod_lt _ (by decide), ?_⟩
  omega

theorem apwr_negation (pos r : Nat) (h : pos < 65536) :
    ∃ a, Cmd.mkApwr pos r = .apwr a r ∧ a < 65536 ∧ (a + pos) % 65536 = 0 := by
  refine ⟨(65536 - pos % 65536) % 65536, rfl, Nat.mod_lt _ (by decide), ?_⟩
  omega

/-- The 16-bit address/register pair is transmitted as two little-endian words. -/
theorem pack_addr_reg (a r : Nat) (ha : a < 65536) (hr : r < 65536) :
    (Cmd.fprd a r).pack = le16 a ++ le16 r := by
  simp [Cmd.pack, le32, le16]; omega

/-! Non-vacuity: a concrete two-datagram program with a refused push in the middle. -/
example :
    (run 60 [.pdu (.fpwr 0x1000 0x0120) [8, 0] none 7,
             .pdu (.brd 0 0) [] (some 100) 8,          -- refused: does not fit
             .rest (.lrw 0) [1, 2, 3, 4, 5, 6, 7, 8, 9, 10, 11, 12, 13, 14, 15, 16, 17, 18, 19, 20] 9]).2
      = [⟨.fpwr 0x1000 0x0120, 7, 2, [8, 0]⟩,
         ⟨.lrw 0, 9, 18, [1, 2, 3, 4, 5, 6, 7, 8, 9, 10, 11, 12, 13, 14, 15, 16, 17, 18]⟩] := by
  decide

end Ec.C04
