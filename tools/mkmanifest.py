#!/usr/bin/env python3
"""Writes MANIFEST.json from tools/props.py (claimed checks) + the list of all property ids."""
import json, os, sys
ROOT = os.path.join(os.path.dirname(os.path.abspath(__file__)), "..")
sys.path.insert(0, os.path.dirname(os.path.abspath(__file__)))
from props import PROPS, MANIFEST_TEXT, NOT_APPLICABLE
try:
    from props import NOT_READY
except ImportError:
    NOT_READY = {}

ids = [json.loads(l)["id"] for l in open(os.path.join(ROOT, "properties.jsonl"))]
checks = []
for pid in ids:
    if pid not in PROPS or pid in NOT_READY:
        continue
    t = MANIFEST_TEXT[pid]
    checks.append({
        "property_id": pid,
        "quick_cmd": "./check %s --tier quick" % pid,
        "thorough_cmd": "./check %s --tier thorough" % pid,
        "evidence_file": "evidence/%s.json" % pid,
        "replay_cmd_template": "./check %s --replay {path}" % pid,
        "engine": "lean-proof+correspondence",
        "level_claimed": {"category": "proof", "text": t["text"], "design_ref": "DESIGN.md §6 " + pid},
        "level_note": t["note"],
        "technique": t["technique"],
    })
man = {
    "version": 1,
    "setup_cmd": "./setup.sh",
    "hooks": {
        "guard": "ethercrab_verif",
        "enable": "RUSTFLAGS='--cfg ethercrab_verif' (set in harness/.cargo/config.toml; harness has a path dependency on /repo)",
        "baseline_off_cmd": "cd /repo && RUSTUP_TOOLCHAIN=1.88.0 cargo test --workspace --no-fail-fast --offline",
        "source_commits": [l.strip() for l in open(os.path.join(ROOT, "HOOK_COMMITS.txt")) if l.strip()] if os.path.exists(os.path.join(ROOT, "HOOK_COMMITS.txt")) else [],
        "add_only": True,
    },
    "engines": [
        {"name": "lean-proof+correspondence", "path": "lean/ harness/ tools/ check",
         "serves_properties": [c["property_id"] for c in checks],
         "kind_free_text": "Lean 4 theorems about hand-written executable models (lean/EcModel), tied to /repo on every run by "
                           "regeneration of extracted facts (tools/extract.py) and by a differential correspondence check that runs the "
                           "real code (harness/, built against /repo with --cfg ethercrab_verif) and the model's native driver on the same cases"}
    ],
    "checks": checks,
    "not_applicable": [{"property_id": p, "reason": NOT_APPLICABLE.get(p, NOT_READY.get(p)) or ("check not built yet in this session; see DESIGN.md §6 for the planned model and theorems")}
                       for p in ids if p not in PROPS or p in NOT_READY],
    "notes": "All checks: ./check <id> [--tier quick|thorough]; VERIF_SEED selects the PRNG seed. See DESIGN.md.",
}
json.dump(man, open(os.path.join(ROOT, "MANIFEST.json"), "w"), indent=1)
print("claimed:", [c["property_id"] for c in checks])
