/-
  EcModel.TxRx — hand translation of one process-data cycle of a SubDevice group:
    src/subdevice_group/mod.rs   push_state_checks            -> `pushStateChecks`
                                 tx_rx                        -> `txRx`        (= `cycle` with `dc := none`)
                                 tx_rx_sync_system_time       -> `txRxSyncSystemTime`
                                 tx_rx_dc                     -> `txRxDc`      (loop; the `CycleInfo` arithmetic after it is C18)
                                 process_received_pdi_chunk   -> `consumeLrw`
    src/subdevice_group/tx_rx_response.rs  TxRxResponse       -> `Resp`
  built on `CFrame.pushPdu` / `pushRest` / `canPush` of Frame.lean (created_frame.rs).

  The three Rust loops are the same statements in the same order, except that
    * `tx_rx` tests the exit condition `chunk_len == 0 && total_checks >= self.len()` at the loop head, the two
      clock variants at the loop tail;
    * the clock variants push one `FRMW` to the reference (register `DcSystemTime`, payload `0u64`) while
      `time_read` is false.
  `step` is that common body with the two differences switched on `Cfg.dc`; `loop` runs it with fuel
  (`terminates` in Props/C07 shows the fuel `pdi_len + #SubDevices + 2` is never exhausted).

  The network is an explicit parameter: the list of response frames, each a list of returned datagrams
  (`RPdu`: data and working counter) as `ReceivedPduIter` yields them. A missing response is `Err(Timeout)`.
  `alloc_frame` is assumed to succeed (a free slot exists: one is enough for a single cycle, C03).

  Conventions: `&mut self`/locals become the state record `St`; `pdi_len` is `image.length` (the code slices
  `pdi[..pdi_len]` of a `[u8; MAX_PDI]`, `pdi_len ≤ MAX_PDI` is established by `configure_fmmus`);
  u16/u32 additions go through `addU` (checked build: overflow = panic; wrapping build: modulo).
-/
import EcModel.Frame
import EcModel.Generated.TxRx

namespace Ec.TxRx
open Ec

/-- `a + b` in an unsigned type of `bits` bits; `none` = "attempt to add with overflow" panic. -/
def addU (bits : Nat) (m : Mode) (a b : Nat) : Option Nat :=
  if a + b < 2 ^ bits then some (a + b)
  else match m with
    | .checked => none
    | .wrapping => some ((a + b) % 2 ^ bits)

/-- The `Error` values a cycle can return (`fuel` exists in the model only). -/
inductive TxErr where
  | timeout      -- `frame.await?`: no response (Error::Timeout)
  | internal     -- Error::Internal (`pdus.next().ok_or(..)`, `data.get(0..n).ok_or(..)`)
  | wireShort    -- Error::Wire(ReadBufferTooShort) from `u64::unpack_from_slice` / `AlControl::unpack_from_slice`
  | pduTooLong   -- Error::Pdu(TooLong) from a push
  | fuel
  deriving Repr, DecidableEq

/-- One returned datagram as `ReceivedPduIter` yields it. -/
structure RPdu where
  data : List Nat
  wkc : Nat
  deriving Repr, DecidableEq

/-- One transmitted frame: the bytes handed to the driver and the datagrams whose push returned `Ok`. -/
structure Frame where
  bytes : List Nat
  dgrams : List Dgram
  deriving Repr, DecidableEq

/-- A `CreatedFrame` being filled, the datagrams accepted so far, and the shared PDU index counter. -/
structure Build where
  f : CFrame
  acc : List Dgram
  idx : Nat
  deriving Repr

/-- `AtomicU8::fetch_add(1)` of the shared PDU index counter (value after the draw). -/
def nextIdx (i : Nat) : Nat := (i + 1) % 256

/-- `pdu_loop.alloc_frame()`. -/
def Build.new (cap idx : Nat) : Build := ⟨CFrame.init cap, [], idx⟩

/-- `frame.push_pdu(cmd, data, len_override)?`; `none` = `Err(PduError::TooLong)`. -/
def Build.push (b : Build) (c : Cmd) (data : List Nat) (lenOv : Option Nat) : Option Build :=
  match (b.f.pushPdu c data lenOv b.idx).2 with
  | some _ => some ⟨(b.f.pushPdu c data lenOv b.idx).1,
                    b.acc ++ [⟨c, b.idx, declLen data lenOv, data⟩], nextIdx b.idx⟩
  | none => none

/-- `push_state_checks(subdevices, frame)`: `while frame.can_push_pdu_payload(2) { next SubDevice or break;
    push FPRD(AlStatus, len 2); num += 1; if num > 128 break }`. Returns the frame, the rest of the iterator and
    `num_in_this_frame`; `none` = `Err(TooLong)` from the push. -/
def pushStateChecks (b : Build) : List Nat → Nat → Option (Build × List Nat × Nat)
  | [], num => some (b, [], num)
  | a :: rest, num =>
    if b.f.canPush Gen.TxRx.AL_CONTROL_PACKED_LEN then
      match b.push (.fprd a Gen.TxRx.REG_AlStatus) [] (some Gen.TxRx.AL_CONTROL_PACKED_LEN) with
      | none => none
      | some b' =>
        if num + 1 > Gen.TxRx.STATE_CHECKS_BREAK_AFTER then some (b', rest, num + 1)
        else pushStateChecks b' rest (num + 1)
    else some (b, a :: rest, num)

/-- What a cycle is run with. -/
structure Cfg where
  cap : Nat            -- frame buffer size of the storage (`frame_data_len`); datagram area = cap - 16
  pdiStart : Nat       -- `inner.pdi_start.start_address`
  readLen : Nat        -- `read_pdi_len`
  addrs : List Nat     -- configured addresses of the group's SubDevices, group order
  maxSd : Nat          -- `MAX_SUBDEVICES` (capacity of `subdevice_states`)
  mode : Mode
  dc : Option Nat      -- clock variants: configured address of the DC reference
  deriving Repr

/-- Locals of the loop + the image + the observable network history. -/
structure St where
  image : List Nat            -- `pdi[..pdi_len]`
  sent : Nat                  -- `total_bytes_sent`
  wkc : Nat                   -- `lrw_wkc_sum`
  subs : List Nat             -- `subdevices` (rest of the iterator)
  checks : Nat                -- `total_checks`
  states : List Nat           -- `subdevice_states` (each the 4-bit AL state value)
  time : Nat
  timeRead : Bool
  idx : Nat                   -- shared PDU index counter
  frames : List Frame         -- transmitted so far, in order
  resps : List (List RPdu)    -- responses not yet consumed
  deriving Repr

/-- Result of building one frame. -/
structure Built where
  b : Build
  dcPushed : Bool             -- `dc_handle.is_some()`
  pushed : Option Nat         -- `pushed_chunk` (bytes in this chunk)
  subs : List Nat
  num : Nat                   -- `num_checks_in_this_frame`

/-- `if !time_read { frame.push_pdu(Command::frmw(reference, DcSystemTime), 0u64, None)? }`. -/
def pushDcIf (c : Cfg) (s : St) (b : Build) : Option (Build × Bool) :=
  match c.dc with
  | some ref =>
    if s.timeRead then some (b, false)
    else match b.push (.frmw ref Gen.TxRx.REG_DcSystemTime) (le64 0) none with
      | some b' => some (b', true)
      | none => none
  | none => some (b, false)

/-- `push_state_checks` and the bookkeeping after it. -/
def finishBuild (s : St) (b : Build) (dcPushed : Bool) (pushed : Option Nat) : Outcome TxErr Built :=
  match pushStateChecks b s.subs 0 with
  | none => .err .pduTooLong
  | some (b', rest, num) => .ok ⟨b', dcPushed, pushed, rest, num⟩

/-- The chunk of the image still to send: `pdi[chunk_start..chunk_start + chunk_len]`. -/
def chunkOf (s : St) : List Nat :=
  (s.image.drop (min s.sent s.image.length)).take (s.image.length - s.sent)

/-- Transmit half of the loop body: DC datagram, `push_pdu_slice_rest(Command::lrw(start_addr), chunk)`,
    state checks. -/
def buildFrame (c : Cfg) (s : St) : Outcome TxErr Built :=
  match pushDcIf c s (Build.new c.cap s.idx) with
  | none => .err .pduTooLong
  | some (b1, dcPushed) =>
    if (chunkOf s).isEmpty then finishBuild s b1 dcPushed none
    else
      -- `self.inner().pdi_start.start_address + total_bytes_sent as u32`
      match addU 32 c.mode c.pdiStart (s.sent % 2 ^ 32) with
      | none => .panic "attempt to add with overflow"
      | some addr =>
        match (b1.f.pushRest (.lrw addr) (chunkOf s) b1.idx).2.1 with
        | .tooLong => .err .pduTooLong
        | .none => finishBuild s b1 dcPushed none
        | .some k _ =>
          finishBuild s ⟨(b1.f.pushRest (.lrw addr) (chunkOf s) b1.idx).1,
                         b1.acc ++ [⟨.lrw addr, b1.idx, k, (chunkOf s).take k⟩], nextIdx b1.idx⟩
            dcPushed (some k)

/-- `if dc_handle.is_some() { time = u64::unpack_from_slice(&pdus.next().ok_or(Internal)??)?; time_read = true }`. -/
def consumeDc (dcPushed : Bool) (s : St) (pdus : List RPdu) : Outcome TxErr (St × List RPdu) :=
  if dcPushed then
    match pdus with
    | [] => .err .internal
    | p :: rest =>
      if p.data.length < Gen.TxRx.U64_PACKED_LEN then .err .wireShort
      else .ok ({ s with time := rd64 p.data, timeRead := true }, rest)
  else .ok (s, pdus)

/-- `if let Some((bytes_in_this_chunk, _)) = pushed_chunk { wkc = process_received_pdi_chunk(..)?;
    total_bytes_sent += bytes_in_this_chunk; lrw_wkc_sum += wkc }`. The state is returned in every case because
    the image is written before the additions. -/
def consumeLrw (c : Cfg) (pushed : Option Nat) (s : St) (pdus : List RPdu) :
    St × Outcome TxErr (List RPdu) :=
  match pushed with
  | none => (s, .ok pdus)
  | some k =>
    match pdus with
    | [] => (s, .err .internal)
    | p :: rest =>
      -- rx_range = total_bytes_sent.min(read_pdi_len)..(total_bytes_sent + bytes_in_this_chunk).min(read_pdi_len)
      let lo := min s.sent c.readLen
      let n := min (s.sent + k) c.readLen - lo
      -- data.get(0..inputs_chunk.len()).ok_or(Error::Internal)?
      if p.data.length < n then (s, .err .internal)
      else
        let s1 := { s with image := setRange s.image lo (p.data.take n), sent := s.sent + k }
        match addU 16 c.mode s.wkc p.wkc with
        | none => (s1, .panic "attempt to add with overflow")
        | some w => ({ s1 with wkc := w }, .ok rest)

/-- `for state_check_pdu in pdus { let state = AlControl::unpack_from_slice(&pdu?)?; let _ = states.push(state.state) }`:
    the state is the low `AL_STATE_BITS` bits of byte 0; a push into a full `heapless::Vec` is ignored. -/
def consumeStates (c : Cfg) (s : St) : List RPdu → St × Outcome TxErr Unit
  | [] => (s, .ok ())
  | p :: rest =>
    if p.data.length < Gen.TxRx.AL_CONTROL_PACKED_LEN then (s, .err .wireShort)
    else
      consumeStates c
        { s with states := if s.states.length < c.maxSd
                           then s.states ++ [p.data.getD 0 0 % 2 ^ Gen.TxRx.AL_STATE_BITS] else s.states }
        rest

/-- `chunk_len == 0 && total_checks >= self.len()`. -/
def exitCond (c : Cfg) (chunkLen checks : Nat) : Bool := chunkLen == 0 && decide (c.addrs.length ≤ checks)

/-- Outcome of one pass through the loop body. -/
inductive Step where
  | continue (s : St)
  | done (s : St)
  | fail (s : St) (e : TxErr)
  | panic (s : St) (why : String)

/-- The state a pass ends in, whatever its outcome. -/
def Step.st : Step → St
  | .continue s => s
  | .done s => s
  | .fail s _ => s
  | .panic s _ => s

/-- Receive half of the loop body (`dcPushed` = `dc_handle.is_some()`, `pushed` = `pushed_chunk`, `chunkLen` as
    computed before the frame was built). -/
def consume (c : Cfg) (dcPushed : Bool) (pushed : Option Nat) (chunkLen : Nat) (s : St) (r : List RPdu) : Step :=
  match consumeDc dcPushed s r with
  | .err e => .fail s e
  | .panic w => .panic s w
  | .ok (s3, pdus) =>
    match consumeLrw c pushed s3 pdus with
    | (s4, .err e) => .fail s4 e
    | (s4, .panic w) => .panic s4 w
    | (s4, .ok pdus') =>
      match consumeStates c s4 pdus' with
      | (s5, .err e) => .fail s5 e
      | (s5, .panic w) => .panic s5 w
      | (s5, .ok ()) =>
        if c.dc.isSome && exitCond c chunkLen s5.checks then .done s5 else .continue s5

/-- One pass through the loop body of `tx_rx` (`c.dc = none`) / of the clock variants (`c.dc = some ref`). -/
def step (c : Cfg) (s : St) : Step :=
  if c.dc.isNone && exitCond c (s.image.length - s.sent) s.checks then .done s
  else
    match buildFrame c s with
    | .err e => .fail s e
    | .panic w => .panic s w
    | .ok bt =>
      -- `if frame.is_empty() { break }` (the frame is dropped, nothing is sent)
      if bt.b.f.count == 0 then .done s
      else
        -- mark_sendable + wake_sender: the frame is on the wire
        let s1 := { s with frames := s.frames ++ [⟨bt.b.f.markSendable.asBytes, bt.b.acc⟩],
                           idx := bt.b.idx, subs := bt.subs, checks := s.checks + bt.num }
        match s.resps with
        | [] => .fail s1 .timeout
        | r :: rs => consume c bt.dcPushed bt.pushed (s.image.length - s.sent) { s1 with resps := rs } r

/-- The loop, with fuel. -/
def loop (c : Cfg) : Nat → St → St × Outcome TxErr Unit
  | 0, s => (s, .err .fuel)
  | fuel + 1, s =>
    match step c s with
    | .continue s' => loop c fuel s'
    | .done s' => (s', .ok ())
    | .fail s' e => (s', .err e)
    | .panic s' w => (s', .panic w)

/-- `TxRxResponse { working_counter, subdevice_states, extra }` (`time` = `extra` of the clock variants). -/
structure Resp where
  wkc : Nat
  states : List Nat
  time : Option Nat
  deriving Repr, DecidableEq

/-- Everything observable about one cycle. -/
structure Out where
  frames : List Frame
  image : List Nat
  res : Outcome TxErr Resp
  deriving Repr

def initSt (c : Cfg) (image : List Nat) (resps : List (List RPdu)) (idx0 : Nat) : St :=
  { image := image, sent := 0, wkc := 0, subs := c.addrs, checks := 0, states := [], time := 0,
    timeRead := false, idx := idx0, frames := [], resps := resps }

def fuelFor (c : Cfg) (image : List Nat) : Nat := image.length + c.addrs.length + 2

def finish (c : Cfg) (r : St × Outcome TxErr Unit) : Out :=
  { frames := r.1.frames, image := r.1.image,
    res := match r.2 with
      | .ok () => .ok ⟨r.1.wkc, r.1.states, if c.dc.isSome then some r.1.time else none⟩
      | .err e => .err e
      | .panic w => .panic w }

/-- One whole cycle (variant chosen by `c.dc`). -/
def cycle (c : Cfg) (image : List Nat) (resps : List (List RPdu)) (idx0 : Nat) : Out :=
  finish c (loop c (fuelFor c image) (initSt c image resps idx0))

/-- `SubDeviceGroup::tx_rx`. -/
def txRx (c : Cfg) (image : List Nat) (resps : List (List RPdu)) (idx0 : Nat) : Out :=
  cycle { c with dc := none } image resps idx0

/-- `SubDeviceGroup::tx_rx_sync_system_time`: `maindevice.dc_ref_address()` (`None` iff the stored address is 0)
    selects the clock loop — which takes the image write lock in that branch only — or `self.tx_rx(maindevice)`
    with `extra: None` (which takes the lock itself; the lock is not re-entrant, so the caller must not hold it). -/
def txRxSyncSystemTime (c : Cfg) (dcRefStored : Nat) (image : List Nat) (resps : List (List RPdu))
    (idx0 : Nat) : Out :=
  if dcRefStored > 0 then cycle { c with dc := some dcRefStored } image resps idx0
  else txRx c image resps idx0

/-- `SubDeviceGroup::tx_rx_dc` up to `CycleInfo.dc_system_time` (`self.dc_conf.reference` is the reference). -/
def txRxDc (c : Cfg) (reference : Nat) (image : List Nat) (resps : List (List RPdu)) (idx0 : Nat) : Out :=
  cycle { c with dc := some reference } image resps idx0

end Ec.TxRx
