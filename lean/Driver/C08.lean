import EcModel.Drv.C08
def main : IO Unit := Ec.Drv.runDriver Ec.Drv.C08.handle
