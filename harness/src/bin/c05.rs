//! C05 — the receive path survives any bytes and rejects strangers without side effects.
//! Slot states are set up by driving real operations; then frames (genuine echoes, every kind of
//! structure-aware mutation, raw noise) are handed to the real `PduRx::receive_frame`.
use ecverif::rng::Rng;
use ecverif::seqgen::{Gen, Knobs, dgrams, response_for};
use ecverif::util::{Report, hex};

fn parse_snap(s: &str) -> Vec<(u8, u16, usize, String)> {
    s.split('/')
        .skip(1)
        .map(|p| {
            let f: Vec<&str> = p.split(':').collect();
            (f[0].parse().unwrap(), f[1].parse().unwrap(), f[2].parse().unwrap(), f[3].to_string())
        })
        .collect()
}

/// Property monitor, independent of the Lean model: compares snapshots around one receive_frame.
fn monitor(frame: &[u8], result: &str, before: &str, after: &str, data: usize, rep: &mut Report, line: &str) {
    if result == "panic" {
        rep.fail("c05/panic", "receive_frame panicked", line);
        return;
    }
    let b = parse_snap(before);
    let a = parse_snap(after);
    let changed: Vec<usize> = (0..b.len()).filter(|i| b[*i] != a[*i]).collect();
    let ethercat = frame.len() >= 14 && frame[12] == 0x88 && frame[13] == 0xa4;
    let own = frame.len() >= 12 && frame[6..12] == [0x10; 6];
    if frame.len() >= 14 && (!ethercat || own) && result != "ignored" {
        rep.fail("c05/not-ignored", "non-EtherCAT or self-sourced frame was not ignored", line);
    }
    if changed.len() > 1 {
        rep.fail("c05/many-slots-changed", "more than one slot changed", line);
    }
    // which slot could legitimately accept: first slot in Sent with marker == index of first datagram
    let idx = if frame.len() >= 18 { Some(frame[17] as u16) } else { None };
    // "awaiting this index" is judged by what the request actually carries on the wire (the index byte of the
    // first datagram in the slot's buffer), not by the marker the receive path searches for: a marker that
    // disagrees with the frame is itself a way of accepting strangers
    let byte_at = |h: &str, i: usize| -> Option<u16> { h.get(2 * i..2 * i + 2).and_then(|x| u16::from_str_radix(x, 16).ok()) };
    let owner = idx.and_then(|i| b.iter().position(|s| s.0 == 4 && s.2 >= 12 && byte_at(&s.3, 17) == Some(i) && s.1 == i));
    for (k, s) in b.iter().enumerate() {
        if let Some(first) = byte_at(&s.3, 17) {
            if matches!(s.0, 2 | 3 | 4) && s.2 >= 12 && s.1 != first {
                rep.fail("c05/marker-differs-from-frame", &format!("slot {k} (state {}) is searchable under index {} but its first datagram carries index {first}", s.0, s.1), line);
            }
        }
    }
    for c in &changed {
        if Some(*c) != owner {
            rep.fail("c05/stranger-accepted", "a slot that is not awaiting this index was altered", line);
        }
        // only the PDU area may change, and only inside the slot
        let (bb, ab) = (&b[*c].3, &a[*c].3);
        if bb.len() != ab.len() || bb[..32] != ab[..32] {
            rep.fail("c05/header-clobbered", "bytes outside the PDU area changed", line);
        }
        let _ = data;
    }
    if result == "processed" {
        match owner {
            None => rep.fail("c05/processed-no-owner", "frame processed although no request awaits its index", line),
            Some(o) => {
                if a[o].0 != 6 {
                    rep.fail("c05/processed-state", "accepted slot is not RxDone", line);
                }
            }
        }
    } else if result != "err.internal" && !changed.is_empty() {
        rep.fail("c05/side-effect", "rejected/ignored frame altered a slot", line);
    }
}

fn mutate(rng: &mut Rng, f: &[u8], data: usize) -> (Vec<u8>, &'static str) {
    let mut r = f.to_vec();
    match rng.below(12) {
        0 => (r, "genuine"),
        1 => {
            let n = rng.below(r.len() as u64 + 1) as usize;
            r.truncate(n);
            (r, "truncated")
        }
        2 => {
            let n = rng.range(1, 2 * data as u64) as usize;
            r.extend(rng.bytes(n));
            (r, "extended")
        }
        3 => {
            r[6] = 0x10;
            (r, "own-source")
        }
        4 => {
            r[12] = rng.byte();
            r[13] = rng.byte();
            (r, "ethertype")
        }
        5 => {
            if r.len() >= 16 {
                let l = rng.edgy(2047) as u16;
                let h = (u16::from_le_bytes([r[14], r[15]]) & 0xf800) | l;
                r[14..16].copy_from_slice(&h.to_le_bytes());
            }
            (r, "ecat-length")
        }
        6 => {
            if r.len() >= 16 {
                r[15] = (r[15] & 0x0f) | ((rng.below(16) as u8) << 4);
            }
            (r, "protocol")
        }
        7 => {
            if r.len() >= 18 {
                r[17] = rng.byte();
            }
            (r, "index")
        }
        8 => {
            // lie in a datagram length field
            let ds = dgrams(f);
            if !ds.is_empty() {
                let (p, _) = ds[rng.below(ds.len() as u64) as usize];
                let l = rng.edgy(2047) as u16;
                let fl = (u16::from_le_bytes([r[p + 6], r[p + 7]]) & 0xf800) | l;
                r[p + 6..p + 8].copy_from_slice(&fl.to_le_bytes());
            }
            (r, "dgram-length")
        }
        9 => {
            // oversize payload: declared and present
            let total = data + rng.range(1, 40) as usize;
            r.truncate(16);
            let l = (total - 16).min(2047) as u16;
            r[14..16].copy_from_slice(&(l | 0x1000).to_le_bytes());
            let idx = if f.len() >= 18 { f[17] } else { 0 };
            r.extend([7, idx]);
            r.extend(rng.bytes(l as usize - 2));
            (r, "oversize")
        }
        10 => {
            let k = rng.below(r.len() as u64) as usize;
            r[k] ^= 1 << rng.below(8);
            (r, "bitflip")
        }
        _ => {
            let n = rng.edgy(60) as usize;
            (rng.bytes(n), "noise")
        }
    }
}

fn one_case(rng: &mut Rng, n: usize, data: usize, rep: &mut Report) {
    let knobs = Knobs { rx_garbage: 0, rx_genuine: 3, reset: 0, snap_every_op: false, ..Knobs::default() };
    let mut g = Gen::new("c05", rng, n, data, knobs);
    // set-up: a random prefix of real operations
    let setup = rng.range(0, 30);
    for _ in 0..setup {
        g.random_step();
    }
    // deliveries
    let deliveries = rng.range(1, 6);
    for _ in 0..deliveries {
        let before = g.snap();
        let base: Vec<u8> = if !g.sent.is_empty() && rng.chance(5, 6) {
            let i = rng.below(g.sent.len() as u64) as usize;
            response_for(&g.sent[i].bytes.clone(), rng)
        } else {
            // a plausible frame for an index nobody awaits
            let mut f = vec![0xff; 6];
            f.extend([0x12, 0x10, 0x10, 0x10, 0x10, 0x10, 0x88, 0xa4]);
            let l = rng.range(0, 20) as usize;
            f.extend(((12 + l) as u16 | 0x1000).to_le_bytes());
            // the index: anything, or a neighbour of an index in use (an index burnt by a refused push, an
            // off-by-one in the bookkeeping), or a marker currently stored in some slot
            let stranger_idx = match rng.below(4) {
                0 if !g.sent.is_empty() => {
                    let i = rng.below(g.sent.len() as u64) as usize;
                    let base = g.sent[i].bytes.get(17).copied().unwrap_or(0);
                    base.wrapping_add(*rng.pick(&[255u8, 254, 1, 2]))
                }
                1 => {
                    let snaps = parse_snap(&before);
                    let k = rng.below(snaps.len() as u64) as usize;
                    (snaps[k].1 & 0xff) as u8
                }
                _ => rng.byte(),
            };
            f.extend([4, stranger_idx, 0, 0x10, 0x30, 0x01]);
            f.extend((l as u16).to_le_bytes());
            f.extend([0, 0]);
            f.extend(rng.bytes(l));
            f.extend([1, 0]);
            f
        };
        let (frame, kind) = mutate(rng, &base, data);
        rep.hit(&format!("mut:{kind}"));
        let res = g.op(format!("rx,{}", hex(&frame)));
        rep.hit(&format!("res:{}", res.split('.').take(2).collect::<Vec<_>>().join(".")));
        let after = g.snap();
        for (st, ..) in parse_snap(&before) {
            rep.hit(&format!("slotstate:{st}"));
        }
        let line = g.line();
        monitor(&frame, &res, &before, &after, data, rep, &line);
        // keep going from the new state
        if rng.chance(1, 2) {
            g.random_step();
        }
    }
    let line = g.line();
    if g.outs.iter().any(|o| o == "processed") {
        rep.nontrivial.insert(line.clone());
    }
    let out = g.out_line();
    rep.case(line, out);
}

fn main() {
    let args = ecverif::parse_args();
    let mut rep = Report::default();
    if let Some(cases) = ecverif::replay_cases(&args) {
        for c in cases.iter().filter(|c| c.starts_with("c05 ")) {
            let (out, _w) = ecverif::seq::run_line(c);
            rep.case(c.clone(), out);
        }
    } else {
        let mut rng = Rng::new(args.seed ^ 0xc05);
        let cases = if args.tier == "thorough" { 40000 } else { 12000 };
        for i in 0..cases {
            let n = [1usize, 2, 4][(i % 3) as usize];
            let data = rng.range(28, 72) as usize;
            one_case(&mut rng, n, data, &mut rep);
        }
    }
    rep.write(&args.out, "c05");
}
