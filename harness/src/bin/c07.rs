//! C07 — one process-data cycle of the real `SubDeviceGroup::{tx_rx, tx_rx_sync_system_time, tx_rx_dc}`,
//! observed as the frames handed to the network driver, the process image before/after, and the
//! returned `TxRxResponse`.
//!
//! Two ways of running the real code, one case-line format:
//!  * `sim`: real `MainDevice::init` -> (`configure_dc_sync`) -> `into_op` on a simulated segment of
//!    0..=16 devices with random PDO sizes (large frames), then the cycle on a second MainDevice with
//!    the frame size under test on the same segment; responses are what the simulated devices return.
//!  * `raw`: a group built by the `verif::txrx` hook (any image length / split / logical start /
//!    SubDevice count) answered by a scripted responder: arbitrary returned data, working
//!    counters, AL status words, clock values, plus ill-shaped answers (missing / short / extra
//!    datagrams, lost responses).
//! Case line: see lean/EcModel/Drv/C07.lean. Replay always uses the `raw` path with the recorded answers.
use ecverif::exec::{Fate, Net, run};
use ecverif::rng::Rng;
use ecverif::sim::{DcCaps, DeviceDesc, Segment};
use ecverif::util::{Report, hex, unhex};
use ethercrab::error::{Error, PduError};
use ethercrab::subdevice_group::DcConfiguration;
use ethercrab::verif::txrx::{self, SdSpec};
use ethercrab::{MainDeviceConfig, Timeouts};
use std::cell::RefCell;
use std::panic::{AssertUnwindSafe, catch_unwind};
use std::rc::Rc;
use std::sync::atomic::{AtomicIsize, Ordering};
use txrx::lock_api::RawRwLock;
use std::time::Duration;

const MAX_PDI: usize = 1024;

/// Image lock for the hook-built groups: behaves like any RwLock, but a lock request that can never
/// be granted (the harness is single threaded, so any contention is a self-deadlock) panics with a
/// recognisable message instead of spinning forever as `DefaultLock` (a spin lock) does.
pub struct ProbeLock(AtomicIsize);

const PROBE_MSG: &str = "c07-probe: image lock requested while it is already held";

unsafe impl RawRwLock for ProbeLock {
    #[allow(clippy::declare_interior_mutable_const)]
    const INIT: Self = ProbeLock(AtomicIsize::new(0));
    type GuardMarker = txrx::lock_api::GuardSend;
    fn lock_shared(&self) {
        if !self.try_lock_shared() {
            panic!("{}", PROBE_MSG);
        }
    }
    fn try_lock_shared(&self) -> bool {
        let v = self.0.load(Ordering::SeqCst);
        if v < 0 {
            return false;
        }
        self.0.store(v + 1, Ordering::SeqCst);
        true
    }
    unsafe fn unlock_shared(&self) {
        self.0.fetch_sub(1, Ordering::SeqCst);
    }
    fn lock_exclusive(&self) {
        if !self.try_lock_exclusive() {
            panic!("{}", PROBE_MSG);
        }
    }
    fn try_lock_exclusive(&self) -> bool {
        if self.0.load(Ordering::SeqCst) != 0 {
            return false;
        }
        self.0.store(-1, Ordering::SeqCst);
        true
    }
    unsafe fn unlock_exclusive(&self) {
        self.0.store(0, Ordering::SeqCst);
    }
}

#[derive(Clone, Copy, PartialEq, Eq, Debug)]
enum Variant {
    Plain,
    Sync,
    Dc,
}

impl Variant {
    fn tok(self) -> &'static str {
        match self {
            Variant::Plain => "plain",
            Variant::Sync => "sync",
            Variant::Dc => "dc",
        }
    }
}

type Answer = Vec<(Vec<u8>, u16)>;

#[derive(Clone, Debug)]
struct Case {
    variant: Variant,
    cap: usize,
    pdi_start: u32,
    read_len: usize,
    max_sd: usize,
    /// Sync: value stored in the MainDevice (0 = none); Dc: `dc_conf.reference`.
    dc_ref: u16,
    idx0: u8,
    image: Vec<u8>,
    addrs: Vec<u16>,
    resps: Vec<Answer>,
}

fn mode() -> &'static str {
    if cfg!(debug_assertions) { "chk" } else { "wrap" }
}

impl Case {
    fn to_line(&self) -> String {
        let addrs = if self.addrs.is_empty() { "-".to_string() } else { self.addrs.iter().map(|a| a.to_string()).collect::<Vec<_>>().join(",") };
        let resps = if self.resps.is_empty() {
            "-".to_string()
        } else {
            self.resps
                .iter()
                .map(|f| if f.is_empty() { "_".to_string() } else { f.iter().map(|(d, w)| format!("{}:{}", hex(d), w)).collect::<Vec<_>>().join(",") })
                .collect::<Vec<_>>()
                .join("/")
        };
        format!(
            "c07 {} {} {} {} {} {} {} {} {} {} {}",
            self.variant.tok(),
            mode(),
            self.cap,
            self.pdi_start,
            self.read_len,
            self.max_sd,
            self.dc_ref,
            self.idx0,
            hex(&self.image),
            addrs,
            resps
        )
    }

    /// Does the case sit inside the property's quantifier (frame size at least the variant's minimum, logical
    /// window inside the 32-bit address space, SubDevice count within the group's capacity)?
    fn in_range(&self) -> bool {
        let min = if self.uses_dc() { 50 } else { 30 };
        self.cap >= min && self.cap <= 1514 && self.pdi_start as u64 + self.image.len() as u64 <= 1 << 32 && self.addrs.len() <= self.max_sd && self.read_len <= self.image.len()
    }

    fn uses_dc(&self) -> bool {
        match self.variant {
            Variant::Plain => false,
            Variant::Sync => self.dc_ref != 0,
            Variant::Dc => true,
        }
    }
}

fn parse_case(line: &str) -> Option<Case> {
    let t: Vec<&str> = line.split(' ').collect();
    if t.len() != 12 || t[0] != "c07" {
        return None;
    }
    let variant = match t[1] {
        "plain" => Variant::Plain,
        "sync" => Variant::Sync,
        "dc" => Variant::Dc,
        _ => return None,
    };
    let addrs = if t[10] == "-" { vec![] } else { t[10].split(',').map(|a| a.parse().unwrap()).collect() };
    let resps = if t[11] == "-" {
        vec![]
    } else {
        t[11]
            .split('/')
            .map(|f| {
                if f == "_" {
                    vec![]
                } else {
                    f.split(',')
                        .map(|p| {
                            let (d, w) = p.split_once(':').unwrap();
                            (unhex(d), w.parse().unwrap())
                        })
                        .collect()
                }
            })
            .collect()
    };
    Some(Case {
        variant,
        cap: t[3].parse().ok()?,
        pdi_start: t[4].parse().ok()?,
        read_len: t[5].parse().ok()?,
        max_sd: t[6].parse().ok()?,
        dc_ref: t[7].parse().ok()?,
        idx0: t[8].parse().ok()?,
        image: unhex(t[9]),
        addrs,
        resps,
    })
}

#[derive(Clone, Debug, PartialEq)]
enum Res {
    Ok { wkc: u16, states: Vec<u8>, time: Option<u64> },
    Err(String),
    Panic,
    /// The call would never return (it requested the image lock while holding it).
    Hang,
}

struct Obs {
    sent: Vec<Vec<u8>>,
    after: Vec<u8>,
    res: Res,
}

impl Obs {
    fn to_line(&self) -> String {
        let fr = if self.sent.is_empty() { "-".to_string() } else { self.sent.iter().map(|f| hex(f)).collect::<Vec<_>>().join(";") };
        let res = match &self.res {
            Res::Ok { wkc, states, time } => format!(
                "ok:{}:{}:{}",
                wkc,
                if states.is_empty() { "-".to_string() } else { states.iter().map(|s| s.to_string()).collect::<Vec<_>>().join(",") },
                time.map_or("-".to_string(), |t| t.to_string())
            ),
            Res::Err(e) => format!("err:{e}"),
            Res::Panic => "panic".to_string(),
            Res::Hang => "hang".to_string(),
        };
        format!("{}|{}|{}", fr, hex(&self.after), res)
    }
}

fn err_token(e: &Error) -> String {
    match e {
        Error::Timeout(_) => "timeout".into(),
        Error::Internal => "internal".into(),
        Error::Wire(ethercrab_wire::WireError::ReadBufferTooShort) => "wire".into(),
        Error::Pdu(PduError::TooLong) => "toolong".into(),
        other => format!("other:{other:?}").replace(' ', "_"),
    }
}

// ------------------------------------------------------------------------------------------------
// wire decoding (independent of ethercrab)

#[derive(Clone, Debug)]
struct Dg {
    cmd: u8,
    idx: u8,
    adp: u16,
    ado: u16,
    len: usize,
    data: Vec<u8>,
    #[allow(dead_code)]
    more: bool,
}

impl Dg {
    fn logical(&self) -> u32 {
        self.adp as u32 | ((self.ado as u32) << 16)
    }
}

fn decode(frame: &[u8]) -> Result<Vec<Dg>, String> {
    if frame.len() < 16 {
        return Err("shorter than the headers".into());
    }
    if frame[12..14] != [0x88, 0xa4] {
        return Err("ethertype".into());
    }
    let h = u16::from_le_bytes([frame[14], frame[15]]);
    if h >> 12 != 1 {
        return Err("protocol type".into());
    }
    if (h & 0x7ff) as usize != frame.len() - 16 {
        return Err(format!("length field {} != {} datagram bytes", h & 0x7ff, frame.len() - 16));
    }
    let mut out = Vec::new();
    let mut p = 16;
    loop {
        if p + 12 > frame.len() {
            return Err("truncated datagram header".into());
        }
        let fl = u16::from_le_bytes([frame[p + 6], frame[p + 7]]);
        let len = (fl & 0x7ff) as usize;
        if p + 12 + len > frame.len() {
            return Err("truncated datagram".into());
        }
        let more = fl & 0x8000 != 0;
        out.push(Dg {
            cmd: frame[p],
            idx: frame[p + 1],
            adp: u16::from_le_bytes([frame[p + 2], frame[p + 3]]),
            ado: u16::from_le_bytes([frame[p + 4], frame[p + 5]]),
            len,
            data: frame[p + 10..p + 10 + len].to_vec(),
            more,
        });
        p += 12 + len;
        if !more {
            break;
        }
    }
    if p != frame.len() {
        return Err("bytes after the last datagram".into());
    }
    Ok(out)
}

/// A response frame for `req` carrying the given datagrams (headers taken from the request's
/// datagram at the same position where there is one).
fn build_response(req: &[u8], pdus: &Answer) -> Vec<u8> {
    let reqd = decode(req).unwrap_or_default();
    let mut out = req[..14.min(req.len())].to_vec();
    out[6] |= 0x02;
    let total: usize = pdus.iter().map(|(d, _)| d.len() + 12).sum();
    out.extend_from_slice(&(((total as u16) & 0x7ff) | 0x1000).to_le_bytes());
    for (j, (data, wkc)) in pdus.iter().enumerate() {
        let (cmd, idx, adp, ado) = reqd.get(j).map_or((0, 0, 0, 0), |d| (d.cmd, d.idx, d.adp, d.ado));
        out.push(cmd);
        out.push(idx);
        out.extend_from_slice(&adp.to_le_bytes());
        out.extend_from_slice(&ado.to_le_bytes());
        let more = j + 1 < pdus.len();
        out.extend_from_slice(&((data.len() as u16 & 0x7ff) | if more { 0x8000 } else { 0 }).to_le_bytes());
        out.extend_from_slice(&[0, 0]);
        out.extend_from_slice(data);
        out.extend_from_slice(&wkc.to_le_bytes());
    }
    out
}

// ------------------------------------------------------------------------------------------------
// scripted responder

#[derive(Clone, Debug)]
enum Mutation {
    DropLast,
    Short(usize, usize),
    Long(usize, usize),
    Extra(usize),
    Lose,
}

enum Script {
    Fixed(Vec<Answer>),
    Gen {
        rng: Rng,
        /// what the devices' logical memory returns, indexed from `pdi_start`
        mem: Vec<u8>,
        pdi_start: u32,
        /// 0 realistic, 1 arbitrary u16, 2 heavy (overflow hunting)
        wkc_mode: u8,
        /// 0 mostly OP, 1 standard states, 2 arbitrary bytes
        state_mode: u8,
        mutate: Option<(usize, Mutation)>,
        cap: usize,
    },
}

struct Responder {
    script: Script,
    frame_no: usize,
    given: Vec<Answer>,
}

impl Responder {
    fn answer(&mut self, req: &[u8]) -> Fate {
        let k = self.frame_no;
        self.frame_no += 1;
        let ans: Option<Answer> = match &mut self.script {
            Script::Fixed(list) => list.get(k).filter(|a| !a.is_empty()).cloned(),
            Script::Gen { rng, mem, pdi_start, wkc_mode, state_mode, mutate, cap } => {
                let reqd = decode(req).unwrap_or_default();
                let mut a: Answer = Vec::new();
                for d in &reqd {
                    match d.cmd {
                        12 => {
                            let off = d.logical().wrapping_sub(*pdi_start) as usize;
                            let data: Vec<u8> = (0..d.len).map(|i| mem.get(off + i).copied().unwrap_or_else(|| rng.byte())).collect();
                            let wkc = match *wkc_mode {
                                0 => rng.range(0, 48) as u16,
                                1 => rng.next() as u16,
                                _ => *rng.pick(&[0xffffu16, 0x8000, 0x7fff, 0xfffe, 1, 0]),
                            };
                            a.push((data, wkc));
                        }
                        4 => {
                            let b0 = match *state_mode {
                                0 => 8,
                                1 => *rng.pick(&[1u8, 2, 3, 4, 8, 8, 8, 0x14, 0x12, 0x11]),
                                _ => rng.byte(),
                            };
                            a.push((vec![b0, if *state_mode == 2 { rng.byte() } else { 0 }], rng.range(0, 1) as u16));
                        }
                        14 => a.push((rng.bytes(8), 1)),
                        _ => a.push((d.data.clone(), 0)),
                    }
                }
                let mut lose = false;
                if let Some((at, m)) = mutate.clone() {
                    if at == k {
                        let room = cap.saturating_sub(16);
                        let size = |a: &Answer| a.iter().map(|(d, _)| d.len() + 12).sum::<usize>();
                        match m {
                            Mutation::DropLast => {
                                if a.len() > 1 {
                                    a.pop();
                                }
                            }
                            Mutation::Short(j, n) => {
                                let j = j % a.len().max(1);
                                if let Some(p) = a.get_mut(j) {
                                    let n = n % (p.0.len() + 1);
                                    p.0.truncate(n);
                                }
                            }
                            Mutation::Long(j, n) => {
                                let j = j % a.len().max(1);
                                if size(&a) + n <= room {
                                    if let Some(p) = a.get_mut(j) {
                                        let extra = rng.bytes(n);
                                        p.0.extend_from_slice(&extra);
                                    }
                                }
                            }
                            Mutation::Extra(n) => {
                                for _ in 0..n {
                                    if size(&a) + 14 <= room {
                                        a.push((vec![rng.byte(), 0], 1));
                                    }
                                }
                            }
                            Mutation::Lose => lose = true,
                        }
                    }
                }
                if lose || a.is_empty() { None } else { Some(a) }
            }
        };
        match ans {
            Some(a) => {
                let bytes = build_response(req, &a);
                self.given.push(a);
                Fate::Replace(bytes, 0)
            }
            None => Fate::LoseRequest,
        }
    }
}

// ------------------------------------------------------------------------------------------------
// running the real code

fn timeouts() -> Timeouts {
    Timeouts { pdu: Duration::from_millis(2), ..Timeouts::default() }
}

fn to_res<T>(r: Result<Result<Result<(u16, Vec<u8>, T), Error>, ecverif::exec::Stuck>, Box<dyn std::any::Any + Send>>, time: impl Fn(T) -> Option<u64>) -> Res {
    match r {
        Err(p) => {
            let msg = p.downcast_ref::<String>().cloned().or_else(|| p.downcast_ref::<&str>().map(|s| s.to_string())).unwrap_or_default();
            if msg.contains("c07-probe") { Res::Hang } else { Res::Panic }
        }
        Ok(Err(st)) => Res::Err(format!("stuck:{st:?}")),
        Ok(Ok(Err(e))) => Res::Err(err_token(&e)),
        Ok(Ok(Ok((wkc, states, t)))) => Res::Ok { wkc, states, time: time(t) },
    }
}

/// Split `lo..hi` into `n` consecutive ranges.
fn split_range(lo: usize, hi: usize, n: usize) -> Vec<std::ops::Range<usize>> {
    let len = hi - lo;
    (0..n).map(|i| (lo + len * i / n)..(lo + len * (i + 1) / n)).collect()
}

/// Run one cycle of the real code on a hook-built group with a scripted network.
fn run_raw<const MS: usize>(c: &Case, script: Script, slots: usize, rep: &mut Report) -> (Vec<Answer>, Obs) {
    if std::env::var("C07_TRACE").is_ok() {
        eprintln!("raw {}", &c.to_line()[..c.to_line().len().min(150)]);
    }
    let (mut net, md) = Net::new(Segment::line(vec![]), slots, c.cap, timeouts(), MainDeviceConfig::default());
    net.record_tx = true;
    txrx::set_pdu_idx(md, c.idx0);
    let responder = Rc::new(RefCell::new(Responder { script, frame_no: 0, given: Vec::new() }));
    let r2 = responder.clone();
    net.fate = Some(Box::new(move |b| r2.borrow_mut().answer(b)));
    let n = c.addrs.len();
    let ins = split_range(0, c.read_len.min(c.image.len()), n);
    let outs = split_range(c.read_len.min(c.image.len()), c.image.len(), n);
    let specs: Vec<SdSpec> = (0..n).map(|i| SdSpec { configured_address: c.addrs[i], input: ins[i].clone(), output: outs[i].clone() }).collect();
    let mut after = vec![0u8; c.image.len()];
    let line = c.to_line();

    macro_rules! drive {
        ($group:expr, $call:ident, $time:expr) => {{
            let group = $group;
            txrx::pdi_write(&group, &c.image);
            // the application writes its outputs through the public accessors as well
            for (i, sd) in group.iter(md).enumerate() {
                let mut o = sd.outputs_raw_mut();
                let want = &c.image[outs[i].clone()];
                if o.len() == want.len() {
                    o.copy_from_slice(want);
                } else {
                    rep.fail("c07/accessor-view", "outputs_raw_mut has the wrong length", &line);
                }
            }
            let r = catch_unwind(AssertUnwindSafe(|| run(&mut net, async { group.$call(md).await.map(|r| (r.working_counter, r.subdevice_states.iter().map(|s| u8::from(*s)).collect::<Vec<u8>>(), r.extra)) })));
            txrx::pdi_read(&group, &mut after);
            // the accessors show the same image
            let mut via_in = Vec::new();
            let mut via_out = Vec::new();
            for sd in group.iter(md) {
                let io = sd.io_raw();
                via_in.extend_from_slice(io.inputs());
                via_out.extend_from_slice(io.outputs());
                if sd.inputs_raw()[..] != *io.inputs() || sd.outputs_raw()[..] != *io.outputs() {
                    rep.fail("c07/accessor-view", "inputs_raw/outputs_raw disagree with io_raw", &line);
                }
            }
            if n > 0 && (via_in[..] != after[..c.read_len.min(after.len())] || via_out[..] != after[c.read_len.min(after.len())..]) {
                rep.fail("c07/accessor-view", "the SubDevice accessors do not show the group image", &line);
            }
            to_res(r, $time)
        }};
    }

    let res = match c.variant {
        Variant::Plain => match txrx::group::<MS, MAX_PDI, ProbeLock>(c.pdi_start, c.read_len, c.image.len(), &specs) {
            Ok(g) => drive!(g, tx_rx, |_: ()| None),
            Err(e) => Res::Err(format!("setup:{e:?}")),
        },
        Variant::Sync => match txrx::group::<MS, MAX_PDI, ProbeLock>(c.pdi_start, c.read_len, c.image.len(), &specs) {
            Ok(g) => {
                md.verif_set_dc_reference(c.dc_ref);
                drive!(g, tx_rx_sync_system_time, |t: Option<u64>| t)
            }
            Err(e) => Res::Err(format!("setup:{e:?}")),
        },
        Variant::Dc => match txrx::group_dc::<MS, MAX_PDI, ProbeLock>(c.pdi_start, c.read_len, c.image.len(), &specs, c.dc_ref, 1_000_000, 0) {
            Ok(g) => drive!(g, tx_rx_dc, |ci: ethercrab::subdevice_group::CycleInfo| Some(ci.dc_system_time)),
            Err(e) => Res::Err(format!("setup:{e:?}")),
        },
    };
    let sent = std::mem::take(&mut net.sent);
    net.fate = None;
    unsafe { net.recycle() };
    let given = responder.borrow().given.clone();
    (given, Obs { sent, after, res })
}

// ------------------------------------------------------------------------------------------------
// monitors (independent of the Lean model)

fn ceil_div(a: usize, b: usize) -> usize {
    if b == 0 { usize::MAX / 4 } else { a.div_ceil(b) }
}

fn monitors(c: &Case, obs: &Obs, rep: &mut Report) {
    let line = c.to_line();
    if !c.in_range() {
        rep.hit("outside-quantifier");
        return;
    }
    let pdi_len = c.image.len();
    let a = c.cap - 16;
    let ok = matches!(obs.res, Res::Ok { .. });
    // decode everything that went out
    let mut frames: Vec<Vec<Dg>> = Vec::new();
    for f in &obs.sent {
        if f.len() > c.cap {
            rep.fail("c07/frame-oversize", &format!("frame of {} bytes on a storage of {}-byte frames", f.len(), c.cap), &line);
        }
        match decode(f) {
            Ok(d) => frames.push(d),
            Err(e) => {
                rep.fail("c07/frame-malformed", &e, &line);
                return;
            }
        }
    }
    if frames.iter().any(|f| f.is_empty()) {
        rep.fail("c07/empty-frame", "a frame without datagrams was sent", &line);
    }
    // are the answers shaped like the requests (same datagram count, same lengths)?
    let all_answered = c.resps.len() >= frames.len();
    let shaped = all_answered && frames.iter().zip(&c.resps).all(|(f, r)| f.len() == r.len() && f.iter().zip(r).all(|(d, p)| d.len == p.0.len()));

    // ---- LRW coverage: every image byte in exactly one LRW, contiguous, in order, none outside
    let mut cover = vec![0u32; pdi_len];
    let mut next = c.pdi_start as u64;
    let mut returned: Vec<Option<u8>> = vec![None; pdi_len];
    let mut wkc_sum: u64 = 0;
    let mut wkc_prefix_overflow = false;
    for (k, f) in frames.iter().enumerate() {
        for (j, d) in f.iter().enumerate() {
            if d.cmd != 12 {
                continue;
            }
            if d.len == 0 {
                rep.fail("c07/lrw-empty", "LRW datagram of length 0", &line);
            }
            if d.logical() as u64 != next {
                rep.fail("c07/lrw-order", &format!("LRW at {:#x}, expected the window to continue at {:#x}", d.logical(), next), &line);
            }
            next = d.logical() as u64 + d.len as u64;
            for i in 0..d.len {
                let off = (d.logical() as u64 + i as u64).wrapping_sub(c.pdi_start as u64);
                if off >= pdi_len as u64 {
                    rep.fail("c07/lrw-coverage", &format!("LRW byte at {:#x} outside the group's window", d.logical() as u64 + i as u64), &line);
                    continue;
                }
                let off = off as usize;
                cover[off] += 1;
                // what was transmitted is what the application wrote
                if d.data[i] != c.image[off] {
                    rep.fail(if off >= c.read_len { "c07/outputs-not-sent" } else { "c07/image-not-sent" }, &format!("image byte {off} transmitted as {:#04x}, application wrote {:#04x}", d.data[i], c.image[off]), &line);
                }
                if let Some(p) = c.resps.get(k).and_then(|r| r.get(j)) {
                    returned[off] = p.0.get(i).copied();
                }
            }
            if let Some(p) = c.resps.get(k).and_then(|r| r.get(j)) {
                wkc_sum += p.1 as u64;
                if wkc_sum > 0xffff {
                    wkc_prefix_overflow = true;
                }
            }
        }
    }
    if cover.iter().any(|x| *x > 1) {
        rep.fail("c07/lrw-coverage", "an image byte is carried by more than one LRW datagram", &line);
    }
    if ok && cover.iter().any(|x| *x != 1) {
        rep.fail("c07/lrw-coverage", &format!("successful cycle but image byte {} is carried by {} LRW datagrams", cover.iter().position(|x| *x != 1).unwrap(), cover.iter().find(|x| **x != 1).unwrap()), &line);
    }

    // ---- image after the cycle
    if obs.after.len() != pdi_len {
        rep.fail("c07/image-length", "image length changed", &line);
        return;
    }
    if obs.after[c.read_len..] != c.image[c.read_len..] {
        rep.fail("c07/outputs-changed", "the output part of the image was modified by the cycle", &line);
    }
    if ok {
        for off in 0..c.read_len {
            match returned[off] {
                Some(b) if b == obs.after[off] => {}
                Some(b) => {
                    rep.fail("c07/inputs-mismatch", &format!("input byte {off} is {:#04x}, the network returned {:#04x}", obs.after[off], b), &line);
                    break;
                }
                None => {
                    rep.fail("c07/inputs-mismatch", &format!("successful cycle but nothing was returned for input byte {off}"), &line);
                    break;
                }
            }
        }
    }

    // ---- the clock datagram
    let flat: Vec<&Dg> = frames.iter().flatten().collect();
    let frmw = flat.iter().filter(|d| d.cmd == 14).count();
    if c.uses_dc() {
        let first_ok = flat.first().is_some_and(|d| d.cmd == 14 && d.adp == c.dc_ref && d.ado == 0x0910 && d.len == 8 && d.data.iter().all(|b| *b == 0));
        if !first_ok || frmw != 1 {
            rep.fail("c07/dc-datagram", &format!("{frmw} FRMW datagram(s); first datagram of the cycle is {}", flat.first().map_or("absent".to_string(), |d| format!("cmd {} to {:#06x}:{:#06x} len {}", d.cmd, d.adp, d.ado, d.len))), &line);
        }
        if let Res::Ok { time, .. } = &obs.res {
            let want = c.resps.first().and_then(|r| r.first()).and_then(|p| p.0.get(..8)).map(|b| u64::from_le_bytes(b.try_into().unwrap()));
            if *time != want || want.is_none() {
                rep.fail("c07/dc-time", &format!("reported time {time:?}, the reference returned {want:?}"), &line);
            }
        }
    } else {
        if frmw != 0 {
            rep.fail("c07/dc-datagram", "FRMW datagram in a cycle without clock synchronisation", &line);
        }
        if let Res::Ok { time: Some(_), .. } = &obs.res {
            rep.fail("c07/dc-time", "a system time is reported although none was read", &line);
        }
    }

    // ---- state checks: one FPRD of AL status per SubDevice, group order
    let fprd: Vec<u16> = flat.iter().filter(|d| d.cmd == 4).map(|d| d.adp).collect();
    if flat.iter().any(|d| d.cmd == 4 && (d.ado != 0x0130 || d.len != 2)) {
        rep.fail("c07/state-requests", "state check is not a 2-byte FPRD of 0x0130", &line);
    }
    if fprd[..] != c.addrs[..fprd.len().min(c.addrs.len())] || fprd.len() > c.addrs.len() {
        rep.fail("c07/state-requests", "state checks are not addressed to the SubDevices in group order", &line);
    }
    if flat.iter().any(|d| !matches!(d.cmd, 4 | 12 | 14)) {
        rep.fail("c07/foreign-datagram", "datagram that is neither LRW, state check nor clock", &line);
    }
    if let Res::Ok { wkc, states, .. } = &obs.res {
        if fprd.len() != c.addrs.len() {
            rep.fail("c07/state-requests", &format!("successful cycle with {} state checks for {} SubDevices", fprd.len(), c.addrs.len()), &line);
        }
        if shaped {
            let mut want = Vec::new();
            for (k, f) in frames.iter().enumerate() {
                for (j, d) in f.iter().enumerate() {
                    if d.cmd == 4 {
                        want.push(c.resps[k][j].0[0] & 0x0f);
                    }
                }
            }
            if *states != want {
                rep.fail("c07/states", &format!("reported states {states:?}, devices answered {want:?}"), &line);
            }
            // ---- working counter
            if wkc_sum <= 0xffff {
                if *wkc as u64 != wkc_sum {
                    rep.fail("c07/wkc-sum", &format!("reported working counter {wkc}, sum over the LRW datagrams {wkc_sum}"), &line);
                }
            } else {
                rep.fail("c07/wkc-sum-overflow", &format!("sum of the LRW working counters {wkc_sum} does not fit u16: reported {wkc}"), &line);
            }
        }
    }
    match &obs.res {
        Res::Panic => {
            if wkc_prefix_overflow {
                rep.fail("c07/wkc-sum-overflow", &format!("panic while summing the LRW working counters (sum {wkc_sum} > 65535)"), &line);
            } else {
                rep.fail("c07/panic", "the cycle panicked", &line);
            }
        }
        Res::Hang => {
            if c.variant == Variant::Sync && c.dc_ref == 0 {
                rep.fail("c07/sync-no-reference-deadlock", "tx_rx_sync_system_time without a DC reference calls tx_rx while still holding the image write lock: the call never returns", &line);
            } else {
                rep.fail("c07/deadlock", "the cycle requested the image lock while holding it", &line);
            }
        }
        Res::Err(e) => {
            if shaped && c.resps.len() >= frames.len() {
                rep.fail("c07/spurious-error", &format!("every frame was answered with well-shaped datagrams but the cycle returned {e}"), &line);
            }
        }
        _ => {}
    }

    // ---- frame count
    let per_frame = (a / 14).min(129);
    let bound = ceil_div(pdi_len, a - 12) + ceil_div(c.addrs.len(), per_frame) + if c.uses_dc() { 1 } else { 0 };
    if frames.len() > bound {
        rep.fail("c07/frame-count", &format!("{} frames, bound {}", frames.len(), bound), &line);
    }
}

fn record(c: Case, obs: Obs, rep: &mut Report, path: &str) {
    monitors(&c, &obs, rep);
    let line = c.to_line();
    rep.hit(&format!("path={path}"));
    rep.hit(&format!("variant={}{}", c.variant.tok(), if c.variant == Variant::Sync && c.dc_ref == 0 { "-noref" } else { "" }));
    rep.hit(&format!("result={}", match &obs.res { Res::Ok { .. } => "ok".to_string(), Res::Err(e) => format!("err-{}", e.split(':').next().unwrap()), Res::Panic => "panic".into(), Res::Hang => "hang".into() }));
    rep.hit(&format!("frames={}", match obs.sent.len() { 0 => "0", 1 => "1", 2..=3 => "2-3", 4..=15 => "4-15", 16..=63 => "16-63", _ => "64+" }));
    rep.hit(&format!("pdi={}", match c.image.len() { 0 => "0", 1..=8 => "1-8", 9..=64 => "9-64", 65..=256 => "65-256", _ => "257+" }));
    rep.hit(&format!("subdevices={}", match c.addrs.len() { 0 => "0", 1 => "1", 2..=8 => "2-8", 9..=16 => "9-16", _ => "17+" }));
    rep.hit(&format!("cap={}", match c.cap { 0..=29 => "<30", 30..=49 => "30-49", 50..=63 => "50-63", 64..=199 => "64-199", 200..=1514 => "200-1514", _ => ">1514" }));
    rep.hit(&format!("split={}", if c.image.is_empty() { "empty" } else if c.read_len == 0 { "all-out" } else if c.read_len == c.image.len() { "all-in" } else { "mixed" }));
    if obs.sent.len() >= 2 {
        rep.nontrivial.insert(line.clone());
    }
    rep.case(line, obs.to_line());
}

// ------------------------------------------------------------------------------------------------
// generators

fn gen_addrs(rng: &mut Rng, n: usize) -> Vec<u16> {
    let base = *rng.pick(&[0x1000u16, 0x1000, 0x1000, 1, 0xfff0, 0x2345]);
    (0..n).map(|i| if rng.chance(1, 12) { rng.next() as u16 } else { base.wrapping_add(i as u16) }).collect()
}

fn gen_raw(rng: &mut Rng, cap: usize, variant: Variant, pdi_len: usize, read_len: usize, n: usize, rep: &mut Report) {
    let pdi_start = match rng.below(6) {
        0 => 0,
        1 => rng.next() as u32 & 0xffff,
        2 => (u32::MAX as u64 + 1 - pdi_len as u64) as u32,
        3 => 0x0001_0000 - (pdi_len as u32 / 2),
        _ => rng.next() as u32 & 0x00ff_ffff,
    };
    let pdi_start = if (pdi_start as u64) + pdi_len as u64 > 1 << 32 { 0 } else { pdi_start };
    let dc_ref = match variant {
        Variant::Plain => 0,
        Variant::Sync => {
            if rng.chance(1, 6) {
                0
            } else {
                0x1000 + rng.below(16) as u16
            }
        }
        Variant::Dc => *rng.pick(&[0x1000u16, 0x1001, 0x100f, 0, 0xffff, 0x1234]),
    };
    let c = Case {
        variant,
        cap,
        pdi_start,
        read_len,
        max_sd: 16,
        dc_ref,
        idx0: if rng.chance(1, 3) { 250 + rng.below(6) as u8 } else { rng.byte() },
        image: rng.bytes(pdi_len),
        addrs: gen_addrs(rng, n),
        resps: vec![],
    };
    let mutate = if rng.chance(1, 8) {
        let at = rng.below(4) as usize;
        Some((
            at,
            match rng.below(6) {
                0 => Mutation::DropLast,
                1 | 2 => Mutation::Short(rng.below(3) as usize, rng.below(12) as usize),
                3 => Mutation::Long(rng.below(3) as usize, rng.range(1, 6) as usize),
                4 => Mutation::Extra(rng.range(1, 20) as usize),
                _ => Mutation::Lose,
            },
        ))
    } else {
        None
    };
    let script = Script::Gen {
        rng: Rng::new(rng.next()),
        mem: rng.bytes(pdi_len),
        pdi_start,
        wkc_mode: *rng.pick(&[0u8, 0, 0, 0, 1, 1, 2]),
        state_mode: *rng.pick(&[0u8, 1, 1, 2]),
        mutate,
        cap,
    };
    let slots = *rng.pick(&[1usize, 2, 4]);
    let (given, obs) = run_raw::<16>(&c, script, slots, rep);
    let c = Case { resps: given, ..c };
    record(c, obs, rep, "raw");
}

fn gen_descs(rng: &mut Rng, n: usize, big: bool) -> Vec<DeviceDesc> {
    (0..n)
        .map(|i| {
            let lim = if big { 36 } else { 6 };
            let d = match rng.below(6) {
                0 => DeviceDesc::coupler(&format!("EK{i}")),
                1 => DeviceDesc::digital_in(&format!("DI{i}"), *rng.pick(&[1u8, 2, 4, 8, 16])),
                2 => DeviceDesc::digital_out(&format!("DO{i}"), *rng.pick(&[1u8, 2, 4, 8, 16])),
                _ => DeviceDesc::coe_io(&format!("IO{i}"), rng.range(0, lim) as usize, rng.range(0, lim) as usize, 128),
            };
            d.with_dc(*rng.pick(&[DcCaps::NONE, DcCaps::NONE, DcCaps::BITS32, DcCaps::BITS64])).with_chunk(8)
        })
        .collect()
}

/// One simulated network through the real init; then `trials` cycles with various frame sizes.
fn sim_network(rng: &mut Rng, n: usize, big: bool, with_dc: bool, caps: &[usize], trials: usize, rep: &mut Report) {
    let descs = gen_descs(rng, n, big);
    let seg = Segment::from_descs(&descs);
    let (mut net1, md1) = Net::simple(seg);
    let now = || ecverif::clock::now() * 1000;

    macro_rules! trials {
        ($group:expr, $variants:expr, $seg:expr, $dc_ref:expr, $hasdc:tt) => {{
            let group = $group;
            let mut seg: Segment = $seg;
            let dc_ref: u16 = $dc_ref;
            let (pdi_start, read_len, pdi_len) = group.verif_layout();
            for _ in 0..trials {
                let cap = *rng.pick(caps);
                let variant: Variant = *rng.pick($variants);
                let cap = if variant != Variant::Plain && dc_ref != 0 { cap.max(50) } else { cap };
                // arbitrary device-side state: input memory, AL status
                for (i, dev) in seg.devices.iter_mut().enumerate() {
                    for sm in descs[i].sms.iter().filter(|s| s.usage == 4) {
                        for k in 0..sm.len as usize {
                            dev.mem[sm.start as usize + k] = rng.byte();
                        }
                    }
                    if rng.chance(1, 4) {
                        dev.al.state = *rng.pick(&[1u8, 2, 4, 8, 3]);
                        dev.al.error = rng.chance(1, 2);
                    }
                }
                seg.log.clear();
                seg.log_enabled = true;
                seg.log_data = true;
                let (mut net, md) = Net::new(seg, *rng.pick(&[1usize, 2, 4]), cap, timeouts(), MainDeviceConfig::default());
                net.record_tx = true;
                let idx0 = rng.byte();
                txrx::set_pdu_idx(md, idx0);
                let stored_ref = if variant == Variant::Sync { dc_ref } else { 0 };
                if stored_ref != 0 {
                    md.verif_set_dc_reference(stored_ref);
                }
                // the application writes its outputs (public accessors); sometimes stale inputs too
                if rng.chance(1, 2) {
                    let junk = rng.bytes(pdi_len);
                    txrx::pdi_write(&group, &junk);
                }
                for sd in group.iter(md) {
                    let mut o = sd.outputs_raw_mut();
                    for b in o.iter_mut() {
                        *b = rng.byte();
                    }
                }
                let mut before = vec![0u8; pdi_len];
                txrx::pdi_read(&group, &mut before);
                let addrs: Vec<u16> = group.iter(md).map(|sd| sd.configured_address()).collect();
                let res = match variant {
                    Variant::Plain => to_res(catch_unwind(AssertUnwindSafe(|| run(&mut net, async { group.tx_rx(md).await.map(|r| (r.working_counter, r.subdevice_states.iter().map(|s| u8::from(*s)).collect::<Vec<u8>>(), r.extra)) }))), |_: ()| None),
                    Variant::Sync => to_res(catch_unwind(AssertUnwindSafe(|| run(&mut net, async { group.tx_rx_sync_system_time(md).await.map(|r| (r.working_counter, r.subdevice_states.iter().map(|s| u8::from(*s)).collect::<Vec<u8>>(), r.extra)) }))), |t: Option<u64>| t),
                    Variant::Dc => trials!(@dc $hasdc group, net, md),
                };
                let mut after = vec![0u8; pdi_len];
                txrx::pdi_read(&group, &mut after);
                let resps: Vec<Answer> = net.seg.log.iter().map(|f| f.datagrams.iter().map(|d| (d.data_out.clone(), d.wkc_out)).collect()).collect();
                let sent = std::mem::take(&mut net.sent);
                let c = Case { variant, cap, pdi_start, read_len, max_sd: 16, dc_ref: if variant == Variant::Plain { 0 } else { dc_ref }, idx0, image: before, addrs, resps };
                record(c, Obs { sent, after, res }, rep, "sim");
                seg = unsafe { net.recycle() };
            }
        }};
        (@dc no $group:ident, $net:ident, $md:ident) => {
            unreachable!()
        };
        (@dc yes $group:ident, $net:ident, $md:ident) => {
            to_res(catch_unwind(AssertUnwindSafe(|| run(&mut $net, async { $group.tx_rx_dc($md).await.map(|r| (r.working_counter, r.subdevice_states.iter().map(|s| u8::from(*s)).collect::<Vec<u8>>(), r.extra)) }))), |ci: ethercrab::subdevice_group::CycleInfo| Some(ci.dc_system_time))
        };
    }

    if with_dc {
        let r = run(&mut net1, async {
            let g = md1.init_single_group::<16, MAX_PDI>(now).await?;
            let g = g.into_pre_op_pdi(md1).await?;
            let g = g
                .configure_dc_sync(md1, DcConfiguration { start_delay: Duration::from_millis(1), sync0_period: Duration::from_millis(1), sync0_shift: Duration::from_micros(0) })
                .await?;
            g.into_op(md1).await
        });
        let dc_ref = txrx::dc_ref_address(md1).unwrap_or(0);
        let seg = unsafe { net1.recycle() };
        match r {
            Ok(Ok(group)) => {
                rep.hit("sim-init=dc");
                trials!(group, &[Variant::Dc, Variant::Dc, Variant::Sync, Variant::Plain], seg, dc_ref, yes)
            }
            Ok(Err(e)) => rep.hit(&format!("sim-init-failed={}", err_token(&e))),
            Err(_) => rep.hit("sim-init-stuck"),
        }
    } else {
        let r = run(&mut net1, async {
            let g = md1.init_single_group::<16, MAX_PDI>(now).await?;
            g.into_op(md1).await
        });
        let dc_ref = txrx::dc_ref_address(md1).unwrap_or(0);
        let seg = unsafe { net1.recycle() };
        match r {
            Ok(Ok(group)) => {
                rep.hit("sim-init=plain");
                trials!(group, &[Variant::Plain, Variant::Plain, Variant::Sync], seg, dc_ref, no)
            }
            Ok(Err(e)) => rep.hit(&format!("sim-init-failed={}", err_token(&e))),
            Err(_) => rep.hit("sim-init-stuck"),
        }
    }
}

/// Child process: the witness of the repaired defect `c07/sync-no-reference-deadlock` (KNOWN_FINDINGS `fixed:`) with the real
/// `DefaultLock` (a spin lock; a regression would hang, hence the child process). Prints `returned` if the call
/// comes back; the parent kills it when it does not.
fn probe_deadlock_child() -> ! {
    let (mut net, md) = Net::new(Segment::line(vec![]), 2, 64, timeouts(), MainDeviceConfig::default());
    let g = txrx::group::<16, MAX_PDI, ethercrab::DefaultLock>(0, 0, 0, &[]).expect("group");
    let r = run(&mut net, async { g.tx_rx_sync_system_time(md).await.map(|r| r.working_counter) });
    println!("returned {r:?}");
    std::process::exit(0)
}

/// CPU time (user + system, in clock ticks of 10 ms) a process has consumed so far.
fn cpu_ticks(pid: u32) -> Option<u64> {
    let stat = std::fs::read_to_string(format!("/proc/{pid}/stat")).ok()?;
    // fields after the parenthesised command name; utime and stime are fields 14 and 15 overall
    let rest = &stat[stat.rfind(')')? + 2..];
    let f: Vec<&str> = rest.split(' ').collect();
    Some(f.get(11)?.parse::<u64>().ok()? + f.get(12)?.parse::<u64>().ok()?)
}

/// Run the witness of `c07/sync-no-reference-deadlock` on the unmodified lock in a child process. A call that returns
/// needs a few milliseconds of CPU time; a call spinning on the lock burns CPU for ever. The verdict is therefore
/// taken from the child's CPU time (more than 2 s without exiting = hung), not from wall-clock time, so that a
/// loaded machine cannot fake a hang; after 120 s of wall-clock time without either the probe is inconclusive.
fn probe_deadlock(rep: &mut Report) {
    let Ok(exe) = std::env::current_exe() else { return };
    let Ok(mut child) = std::process::Command::new(exe).arg(std::env::var("C07_PROBE_ARG").unwrap_or_else(|_| "--probe-deadlock".to_string())).stdout(std::process::Stdio::null()).stderr(std::process::Stdio::null()).spawn() else {
        rep.notes.push("deadlock probe: could not spawn the child process".into());
        return;
    };
    let t0 = std::time::Instant::now();
    loop {
        match child.try_wait() {
            Ok(Some(_)) => {
                rep.hit("deadlock-probe=returned");
                return;
            }
            Ok(None) => {
                let spun = cpu_ticks(child.id()).is_some_and(|t| t > 200);
                if spun {
                    let _ = child.kill();
                    let _ = child.wait();
                    rep.hit("deadlock-probe=hung");
                    rep.fail(
                        "c07/sync-no-reference-deadlock",
                        "tx_rx_sync_system_time on a group with the real DefaultLock and no DC reference burnt 2 s of CPU time without returning (child process killed)",
                        "c07 sync chk 64 0 0 16 0 0 - - -",
                    );
                    return;
                }
                if t0.elapsed() > Duration::from_secs(120) {
                    let _ = child.kill();
                    let _ = child.wait();
                    rep.hit("deadlock-probe=inconclusive");
                    rep.notes.push("deadlock probe: child neither returned nor consumed 2 s of CPU within 120 s (machine overloaded?)".into());
                    return;
                }
                std::thread::sleep(Duration::from_millis(20));
            }
            Err(_) => return,
        }
    }
}

/// The witnesses of the known finding and of the repaired one (KNOWN_FINDINGS.txt), replayed on the real code.
fn known_witnesses(rep: &mut Report) {
    probe_deadlock(rep);
    for c in [
        // c07/wkc-sum-overflow: two LRW chunks whose working counters sum to 65536
        Case { variant: Variant::Plain, cap: 30, pdi_start: 0, read_len: 0, max_sd: 16, dc_ref: 0, idx0: 0, image: vec![1, 2, 3, 4], addrs: vec![], resps: vec![vec![(vec![1, 2], 0x8000)], vec![(vec![3, 4], 0x8000)]] },
        // c07/sync-no-reference-deadlock (fixed): must complete, also on the deadlock-detecting lock
        Case { variant: Variant::Sync, cap: 64, pdi_start: 0, read_len: 0, max_sd: 16, dc_ref: 0, idx0: 0, image: vec![], addrs: vec![], resps: vec![] },
    ] {
        let script = Script::Fixed(c.resps.clone());
        let (given, obs) = run_raw::<16>(&c, script, 2, rep);
        let c = Case { resps: given, ..c };
        record(c, obs, rep, "witness");
    }
}

fn corpus(rep: &mut Report) {
    known_witnesses(rep);
    let fixed = |c: Case, rep: &mut Report| {
        let script = Script::Fixed(c.resps.clone());
        let (given, obs) = if c.max_sd == 160 { run_raw::<160>(&c, script, 2, rep) } else { run_raw::<16>(&c, script, 2, rep) };
        let c = Case { resps: given, ..c };
        record(c, obs, rep, "corpus");
    };
    let base = Case { variant: Variant::Plain, cap: 30, pdi_start: 0, read_len: 0, max_sd: 16, dc_ref: 0, idx0: 0, image: vec![], addrs: vec![], resps: vec![] };
    // empty group, empty image: nothing is sent (plain), one clock frame (clock variants)
    fixed(base.clone(), rep);
    fixed(Case { variant: Variant::Sync, cap: 50, dc_ref: 0x1000, resps: vec![vec![(vec![1, 2, 3, 4, 5, 6, 7, 8], 1)]], ..base.clone() }, rep);
    fixed(Case { variant: Variant::Dc, cap: 50, dc_ref: 0x1000, resps: vec![vec![(vec![0xff; 8], 1)]], ..base.clone() }, rep);
    fixed(Case { variant: Variant::Sync, cap: 30, dc_ref: 0, ..base.clone() }, rep);
    // smallest frames: 2 image bytes per frame, one state check per frame
    fixed(
        Case {
            image: vec![1, 2, 3, 4],
            read_len: 2,
            addrs: vec![0x1000, 0x1001],
            idx0: 254,
            resps: vec![vec![(vec![0xa, 0xb], 3)], vec![(vec![0xc, 0xd], 3)], vec![(vec![8, 0], 1)], vec![(vec![0x14, 0], 1)]],
            ..base.clone()
        },
        rep,
    );
    fixed(
        Case {
            variant: Variant::Dc,
            cap: 50,
            dc_ref: 0x1000,
            pdi_start: 100,
            image: vec![1, 2, 3],
            read_len: 1,
            addrs: vec![0x1000],
            resps: vec![vec![(vec![0x11, 0x22, 0x33, 0x44, 0x55, 0x66, 0x77, 0x88], 1), (vec![0xaa, 0xbb], 3)], vec![(vec![0xcc], 3), (vec![8, 0], 1)]],
            ..base.clone()
        },
        rep,
    );
    // last window address 0xffff_ffff (inside), and a window leaving the address space (outside the property)
    fixed(Case { pdi_start: 0xffff_fffc, image: vec![9, 8, 7, 6], read_len: 4, resps: vec![vec![(vec![1, 2], 1)], vec![(vec![3, 4], 1)]], ..base.clone() }, rep);
    fixed(Case { pdi_start: 0xffff_ffff, image: vec![9, 8, 7, 6], read_len: 4, resps: vec![vec![(vec![1, 2], 1)], vec![(vec![3, 4], 1)]], ..base.clone() }, rep);
    // below the minimum frame sizes (outside the property; ties the model's degenerate branches)
    fixed(Case { cap: 28, image: vec![1, 2], addrs: vec![0x1000], ..base.clone() }, rep);
    fixed(Case { cap: 29, image: vec![1, 2], addrs: vec![0x1000], resps: vec![vec![(vec![1], 1)], vec![(vec![2], 1)]], ..base.clone() }, rep);
    fixed(Case { variant: Variant::Dc, cap: 35, dc_ref: 0x1000, image: vec![1], ..base.clone() }, rep);
    fixed(Case { variant: Variant::Dc, cap: 40, dc_ref: 0x1000, image: vec![1], addrs: vec![0x1000], resps: vec![vec![(vec![0; 8], 1)], vec![(vec![5], 1)]], ..base.clone() }, rep);
    // ill-shaped answers
    fixed(Case { image: vec![1, 2], read_len: 2, resps: vec![vec![(vec![1], 1)]], ..base.clone() }, rep); // short LRW data -> Internal
    fixed(Case { cap: 64, image: vec![1, 2], read_len: 1, addrs: vec![0x1000], resps: vec![vec![(vec![7], 1), (vec![8, 0], 1)]], ..base.clone() }, rep); // short but enough for the inputs
    fixed(Case { cap: 64, addrs: vec![0x1000, 0x1001], resps: vec![vec![(vec![8, 0], 1), (vec![4], 1)]], ..base.clone() }, rep); // short AL status -> Wire
    fixed(Case { cap: 64, addrs: vec![0x1000, 0x1001], resps: vec![vec![(vec![8, 0], 1)]], ..base.clone() }, rep); // a state check went missing
    fixed(Case { cap: 64, image: vec![1], read_len: 1, addrs: vec![0x1000], resps: vec![], ..base.clone() }, rep); // timeout
    fixed(Case { variant: Variant::Dc, cap: 64, dc_ref: 0x1000, resps: vec![vec![(vec![1, 2, 3], 1)]], ..base.clone() }, rep); // short clock value
    // the per-frame cap of 129 state checks (jumbo frame, more SubDevices than the property covers)
    let many: Vec<u16> = (0..140).map(|i| 0x1000 + i).collect();
    let ans = |k: usize| -> Answer { (0..k).map(|i| (vec![(i % 16) as u8, 0], 1)).collect() };
    fixed(Case { cap: 2000, max_sd: 160, addrs: many.clone(), resps: vec![ans(129), ans(11)], ..base.clone() }, rep);
    fixed(Case { cap: 1514, max_sd: 160, addrs: many, resps: vec![ans(107), ans(33)], ..base.clone() }, rep);
    // more state answers than the states vector can hold
    fixed(Case { cap: 400, addrs: (0..16).map(|i| 0x1000 + i).collect(), resps: vec![ans(20)], ..base.clone() }, rep);
}

fn run_all(tier: &str, seed: u64, rep: &mut Report) {
    let mut rng = Rng::new(seed ^ 0xc07);
    let thorough = tier == "thorough";
    corpus(rep);

    // ---- every input/output split of small images, at the frame sizes where chunks and checks collide
    let small_caps: &[usize] = if thorough { &[30, 31, 32, 43, 44, 45, 50, 51, 57, 58, 64, 72] } else { &[30, 31, 44, 50, 58] };
    for &cap in small_caps {
        for len in 0..=8usize {
            for read in 0..=len {
                for variant in [Variant::Plain, Variant::Sync, Variant::Dc] {
                    if variant != Variant::Plain && cap < 50 {
                        continue;
                    }
                    let n = *rng.pick(&[0usize, 1, 2, 3]);
                    gen_raw(&mut rng, cap, variant, len, read, n, rep);
                }
            }
        }
    }

    // ---- every frame size from the minimum upward
    let (caps, per): (Vec<usize>, usize) = if thorough {
        let mut v: Vec<usize> = (30..=260).collect();
        v.extend((261..=1514).step_by(5));
        v.extend([1513, 1514]);
        (v, 30)
    } else {
        let mut v: Vec<usize> = (30..=72).collect();
        v.extend((73..=1514).step_by(41));
        v.extend([1513, 1514]);
        (v, 8)
    };
    for &cap in &caps {
        for variant in [Variant::Plain, Variant::Sync, Variant::Dc] {
            if variant != Variant::Plain && cap < 50 {
                continue;
            }
            for _ in 0..per {
                let n = rng.edgy(16) as usize;
                let pdi_len = match rng.below(5) {
                    0 => rng.range(0, 12) as usize,
                    1 => rng.range(0, 80) as usize,
                    // around multiples of what one frame carries
                    2 => ((cap - 28) * rng.range(1, 3) as usize + rng.below(3) as usize).saturating_sub(1).min(640),
                    _ => rng.range(0, 640) as usize,
                };
                // small frames and big images make hundreds of frames: keep those cases rarer
                let pdi_len = if cap < 40 && pdi_len > 200 && !rng.chance(1, 6) { pdi_len % 120 } else { pdi_len };
                let read_len = rng.edgy(pdi_len as u64) as usize;
                gen_raw(&mut rng, cap, variant, pdi_len, read_len, n, rep);
            }
        }
    }

    // ---- end to end through the real init on the simulated segment
    let networks = if thorough { 600 } else { 180 };
    let trials = if thorough { 24 } else { 10 };
    let sim_caps: Vec<usize> = {
        let mut v: Vec<usize> = vec![30, 31, 44, 50, 51, 58, 64, 100, 128, 256, 600, 1128, 1514];
        if thorough {
            v.extend((30..=120).step_by(5));
        }
        v
    };
    for k in 0..networks {
        let n = if k < 17 { k } else { rng.edgy(16) as usize };
        let big = rng.chance(1, 2);
        let with_dc = k % 3 == 2;
        sim_network(&mut rng, n, big, with_dc, &sim_caps, trials, rep);
    }
}

fn main() {
    if std::env::args().any(|a| a == "--probe-deadlock") {
        probe_deadlock_child();
    }
    // self-test of the hang detector: a child that spins like a thread waiting for the lock would
    if std::env::args().any(|a| a == "--probe-spin") {
        loop {
            std::hint::spin_loop();
        }
    }
    let args = ecverif::parse_args();
    let mut rep = Report::default();
    if let Some(cases) = ecverif::replay_cases(&args) {
        // the known-finding witnesses run on every invocation
        known_witnesses(&mut rep);
        for line in cases.iter().filter(|c| c.starts_with("c07 ")) {
            if let Some(c) = parse_case(line) {
                let script = Script::Fixed(c.resps.clone());
                let (given, obs) = if c.max_sd == 160 { run_raw::<160>(&c, script, 2, &mut rep) } else { run_raw::<16>(&c, script, 2, &mut rep) };
                let c = Case { resps: given, ..c };
                record(c, obs, &mut rep, "replay");
            }
        }
    } else {
        run_all(&args.tier, args.seed, &mut rep);
    }
    rep.write(&args.out, "c07");
}
