/-
  Helper lemmas for C07: the receive side. What a well-shaped answer to the frame of one pass looks like, and the
  invariant tying image, working-counter sum, states and clock value to the answers consumed so far.
-/
import EcModel.Lemmas.TxRxFinal

namespace Ec.TxRx
open Ec

theorem ShapedOne.all_len {n : Nat} : ∀ {ds : List Dgram} {r : List RPdu}, ShapedOne ds r →
    (∀ d ∈ ds, d.len = n) → ∀ p ∈ r, p.data.length = n
  | [], [], _, _ => by simp
  | [], _ :: _, h, _ => by simp [ShapedOne] at h
  | _ :: _, [], h, _ => by simp [ShapedOne] at h
  | d :: ds, q :: qs, h, hd => by
    intro p hp
    rcases List.mem_cons.1 hp with e | e
    · subst e; rw [h.1]; exact hd d (by simp)
    · exact ShapedOne.all_len h.2 (fun d' hd' => hd d' (by simp [hd'])) p e

/-- The part of an answer belonging to the clock datagram. -/
theorem shaped_dc {c : Cfg} {s : St} {D1 : List Dgram} {r1 : List RPdu} (m1 : D1.map desc = dcDescs c s)
    (h1 : ShapedOne D1 r1) :
    ∃ pd, r1 = (if needDc c s then [pd] else []) ∧ (needDc c s = true → pd.data.length = 8) ∧
      (D1.zip r1).filter (fun x => isLrw x.1) = [] ∧ (D1.zip r1).filter (fun x => isFprd x.1) = [] := by
  rcases dcDescs_cases c s with ⟨hn, hd⟩ | ⟨ref, _, _, hn, hd⟩
  · rw [hd] at m1
    have : D1 = [] := List.map_eq_nil_iff.1 m1
    subst this
    exact ⟨⟨[], 0⟩, by rw [ShapedOne.nil_left h1, hn]; rfl, by rw [hn]; simp, by simp, by simp⟩
  · rw [hd] at m1
    cases D1 with
    | nil => simp at m1
    | cons d1 t =>
      cases t with
      | cons _ _ => simp at m1
      | nil =>
        simp at m1
        obtain ⟨pd, e, hl⟩ := ShapedOne.single h1
        have hcmd : d1.cmd = .frmw ref 0x0910 := by have := congrArg (·.1) m1; simpa [desc, frmwDesc] using this
        have hlen : d1.len = 8 := by have := congrArg (·.2.1) m1; simpa [desc, frmwDesc] using this
        refine ⟨pd, by rw [e, hn]; rfl, fun _ => by rw [hl, hlen], ?_, ?_⟩ <;>
          simp [e, isLrw, isFprd, hcmd]

/-- The part of an answer belonging to the LRW datagram. -/
theorem shaped_lrw {c : Cfg} {s : St} {D2 : List Dgram} {r2 : List RPdu} (m2 : D2.map desc = lrwDescs c s)
    (h2 : ShapedOne D2 r2) :
    ∃ pl, r2 = (if (pushedOf c s).isSome then [pl] else []) ∧ (∀ k, pushedOf c s = some k → pl.data.length = k) ∧
      ((D2.zip r2).filter (fun x => isLrw x.1)).map (·.2) = (if (pushedOf c s).isSome then [pl] else []) ∧
      (D2.zip r2).filter (fun x => isFprd x.1) = [] := by
  unfold lrwDescs at m2
  by_cases hr : remOf s = 0
  · rw [if_pos hr] at m2
    have : D2 = [] := List.map_eq_nil_iff.1 m2
    subst this
    have hp : pushedOf c s = none := by simp [pushedOf, hr]
    exact ⟨⟨[], 0⟩, by rw [ShapedOne.nil_left h2, hp]; rfl, by rw [hp]; simp, by rw [hp]; simp, by simp⟩
  · rw [if_neg hr] at m2
    have hp : pushedOf c s = some (kOf c s) := by simp [pushedOf, hr]
    cases D2 with
    | nil => simp at m2
    | cons d2 t =>
      cases t with
      | cons _ _ => simp at m2
      | nil =>
        simp at m2
        obtain ⟨pl, e, hl⟩ := ShapedOne.single h2
        have hcmd : d2.cmd = .lrw (c.pdiStart + s.sent) := by
          have := congrArg (·.1) m2; simpa [desc] using this
        have hlen : d2.len = kOf c s := by have := congrArg (·.2.1) m2; simpa [desc] using this
        refine ⟨pl, by rw [e, hp]; rfl, ?_, ?_, ?_⟩
        · intro k hk; rw [hp] at hk; cases hk; rw [hl, hlen]
        · simp [e, hp, isLrw, hcmd]
        · simp [e, isFprd, hcmd]

/-- The part of an answer belonging to the state checks. -/
theorem shaped_states {l : List Nat} : ∀ {D3 : List Dgram} {r3 : List RPdu}, D3.map desc = l.map fprdDesc →
    ShapedOne D3 r3 →
    (∀ p ∈ r3, p.data.length = 2) ∧ r3.length = l.length ∧
      (D3.zip r3).filter (fun x => isLrw x.1) = [] ∧
      ((D3.zip r3).filter (fun x => isFprd x.1)).map (fun x => nib x.2) = r3.map nib := by
  induction l with
  | nil =>
    intro D3 r3 m3 h3
    have : D3 = [] := by cases D3 with
      | nil => rfl
      | cons _ _ => simp at m3
    subst this
    rw [ShapedOne.nil_left h3]; simp
  | cons a t ih =>
    intro D3 r3 m3 h3
    cases D3 with
    | nil => simp at m3
    | cons d ds =>
      cases r3 with
      | nil => simp [ShapedOne] at h3
      | cons p ps =>
        simp only [List.map_cons, List.cons.injEq] at m3
        obtain ⟨ih1, ih2, ih3, ih4⟩ := ih m3.2 h3.2
        have hcmd : d.cmd = .fprd a 304 := by have := congrArg (·.1) m3.1; simpa [desc, fprdDesc] using this
        have hlen : d.len = 2 := by have := congrArg (·.2.1) m3.1; simpa [desc, fprdDesc] using this
        refine ⟨?_, by simp [ih2], ?_, ?_⟩
        · intro q hq
          rcases List.mem_cons.1 hq with e | e
          · subst e; rw [h3.1, hlen]
          · exact ih1 q e
        · rw [List.zip_cons_cons, List.filter_cons_of_neg (by simp [isLrw, hcmd])]; exact ih3
        · rw [List.zip_cons_cons, List.filter_cons_of_pos (by simp [isFprd, hcmd]), List.map_cons, ih4]; rfl

/-- How a well-shaped answer to the frame of a pass from `s` decomposes. -/
structure FrameAns (c : Cfg) (s : St) (fr : Frame) (r : List RPdu) (pd pl : RPdu) (rs : List RPdu) : Prop where
  eq : r = (if needDc c s then [pd] else []) ++ (if (pushedOf c s).isSome then [pl] else []) ++ rs
  dcLen : needDc c s = true → pd.data.length = 8
  lrwLen : ∀ k, pushedOf c s = some k → pl.data.length = k
  stLen : ∀ p ∈ rs, p.data.length = 2
  stCount : rs.length = tOf c s
  lrwAns : ((fr.dgrams.zip r).filter (fun x => isLrw x.1)).map (·.2) = if (pushedOf c s).isSome then [pl] else []
  stAns : ((fr.dgrams.zip r).filter (fun x => isFprd x.1)).map (fun x => nib x.2) = rs.map nib

theorem shaped_frame {c : Cfg} {s : St} {fr : Frame} {r : List RPdu} (hd : fr.dgrams.map desc = planDescs c s)
    (hsh : ShapedOne fr.dgrams r) : ∃ pd pl rs, FrameAns c s fr r pd pl rs := by
  unfold planDescs at hd
  obtain ⟨D12, D3, e1, m12, m3⟩ := List.map_eq_append_iff.1 hd
  obtain ⟨D1, D2, e2, m1, m2⟩ := List.map_eq_append_iff.1 m12
  subst e2
  rw [e1] at hsh
  obtain ⟨r12, r3, er, s12, s3⟩ := ShapedOne.append_inv hsh
  obtain ⟨r1, r2, er12, s1, s2⟩ := ShapedOne.append_inv s12
  subst er12
  obtain ⟨pd, hr1, hpd, f1a, f1b⟩ := shaped_dc m1 s1
  obtain ⟨pl, hr2, hpl, f2a, f2b⟩ := shaped_lrw m2 s2
  obtain ⟨g1, g2, g3, g4⟩ := shaped_states m3 s3
  have hz : fr.dgrams.zip r = D1.zip r1 ++ D2.zip r2 ++ D3.zip r3 := by
    rw [e1, er, List.zip_append (by simp [s1.length, s2.length]), List.zip_append s1.length.symm]
  refine ⟨pd, pl, r3, by rw [er, hr1, hr2], hpd, hpl, g1, ?_, ?_, ?_⟩
  · rw [g2]; simp [List.length_take]; exact Nat.min_eq_left (tOf_le c s)
  · rw [hz]; simp only [List.filter_append, List.map_append, f1a, g3, f2a]; simp
  · rw [hz]; simp only [List.filter_append, List.map_append, f1b, f2b, g4]; simp

/-! ### Appending one answered frame to the history -/

theorem lrwAnswers_snoc (frames : List Frame) (used : List (List RPdu)) (fr : Frame) (r : List RPdu)
    (h : used.length = frames.length) :
    lrwAnswers (frames ++ [fr]) (used ++ [r])
      = lrwAnswers frames used ++ ((fr.dgrams.zip r).filter (fun x => isLrw x.1)).map (·.2) := by
  simp [lrwAnswers, pairs_snoc _ _ _ _ h]

theorem stateAnswers_snoc (frames : List Frame) (used : List (List RPdu)) (fr : Frame) (r : List RPdu)
    (h : used.length = frames.length) :
    stateAnswers (frames ++ [fr]) (used ++ [r])
      = stateAnswers frames used ++ ((fr.dgrams.zip r).filter (fun x => isFprd x.1)).map (fun x => nib x.2) := by
  simp [stateAnswers, pairs_snoc _ _ _ _ h]

/-- Writing the input part of one chunk's answer extends the landed prefix. -/
theorem land_step (img0 R d : List Nat) (sent k RL : Nat) (hR : R.length = sent) (hd : d.length = k) :
    setRange (R.take (min sent RL) ++ img0.drop (min sent RL)) (min sent RL)
        (d.take (min (sent + k) RL - min sent RL))
      = (R ++ d).take (min (sent + k) RL) ++ img0.drop (min (sent + k) RL) := by
  by_cases hle : RL ≤ sent
  · have e1 : min sent RL = RL := Nat.min_eq_right hle
    have e2 : min (sent + k) RL = RL := Nat.min_eq_right (by omega)
    rw [e1, e2, Nat.sub_self, List.take_zero]
    unfold setRange
    simp only [List.append_nil, List.length_nil, Nat.add_zero, List.take_append_drop]
    rw [List.take_append_of_le_length (by omega)]
  · have e1 : min sent RL = sent := Nat.min_eq_left (by omega)
    have hRt : R.take sent = R := by rw [← hR]; exact List.take_length
    rw [e1, hRt]
    generalize hn : min (sent + k) RL - sent = n
    have hm' : min (sent + k) RL = R.length + n := by omega
    have hnk : n ≤ d.length := by omega
    unfold setRange
    have t1 : (R ++ img0.drop sent).take sent = R := by rw [← hR]; exact List.take_left
    have t2 : (R ++ img0.drop sent).drop (sent + (d.take n).length) = img0.drop (sent + n) := by
      have : (d.take n).length = n := by simp [List.length_take]; omega
      rw [this, ← hR, List.drop_append, List.drop_drop]
      simp
    rw [t1, t2, hm', List.take_append, hR]
    simp
    exact (List.take_of_length_le (by omega)).symm

/-! ### The receive-side invariant -/

/-- What the answers consumed so far (`used`, one per transmitted frame) did to the state, if they all had the
    requested shape. -/
structure RFacts (c : Cfg) (image0 : List Nat) (s : St) (used : List (List RPdu)) : Prop where
  retLen : (returned s.frames used).length = s.sent
  image : s.image = (returned s.frames used).take (min s.sent c.readLen) ++ image0.drop (min s.sent c.readLen)
  wkc : s.wkc = lrwWkcSum s.frames used % 65536
  wkcChk : c.mode = .checked → lrwWkcSum s.frames used < 65536
  states : s.states = stateAnswers s.frames used
  nstates : s.states.length = s.checks

def RInv (c : Cfg) (image0 : List Nat) (resps0 : List (List RPdu)) (s : St) : Prop :=
  ∃ used, resps0 = used ++ s.resps ∧ used.length = s.frames.length ∧
    (s.timeRead = true → ∃ p0 rest0 restU, used = (p0 :: rest0) :: restU ∧ s.time = rd64 p0.data) ∧
    ((∀ x ∈ s.frames.zip used, ShapedOne x.1.dgrams x.2) → RFacts c image0 s used)

theorem RInv.init (c : Cfg) (image : List Nat) (resps : List (List RPdu)) (idx0 : Nat) :
    RInv c image resps (initSt c image resps idx0) := by
  refine ⟨[], rfl, rfl, by simp [initSt], fun _ => ⟨?_, ?_, ?_, ?_, ?_, ?_⟩⟩ <;>
    simp [initSt, returned, lrwAnswers, pairs, lrwWkcSum, stateAnswers]

theorem finishStep_st {c : Cfg} {cl : Nat} {x s' : St}
    (h : finishStep c cl x = .continue s' ∨ finishStep c cl x = .done s') : s' = x := by
  unfold finishStep at h
  split at h <;> rcases h with h | h <;> cases h <;> rfl

theorem addU16_some {m : Mode} {a b w S : Nat} (h : addU 16 m a b = some w) (ha : a = S % 65536)
    (hS : m = .checked → S < 65536) : w = (S + b) % 65536 ∧ (m = .checked → S + b < 65536) := by
  unfold addU at h
  split at h
  · rename_i hlt
    cases h
    refine ⟨by omega, fun hm => ?_⟩
    have := hS hm; omega
  · cases m with
    | checked => simp at h
    | wrapping => simp at h; subst h; exact ⟨by omega, fun hm => by cases hm⟩

/-- Fields of the state that reading the clock value leaves alone. -/
theorem ite_dc_fields (b : Bool) (s : St) (t : Nat) :
    let x := (if b then ({ s with time := t, timeRead := true } : St) else s)
    x.image = s.image ∧ x.sent = s.sent ∧ x.wkc = s.wkc ∧ x.states = s.states ∧ x.checks = s.checks ∧
      x.frames = s.frames := by
  cases b <;> simp

theorem RInv.advance {c : Cfg} {image0 : List Nat} {bound : Nat} {resps0 : List (List RPdu)} {s s' : St}
    (hc : CfgOk c image0.length) (hn : c.addrs.length ≤ c.maxSd) (hi : FrInv c image0 bound s)
    (hr : RInv c image0 resps0 s) (ha : Advance c s s') : RInv c image0 resps0 s' := by
  obtain ⟨fr, idx', r, rs, hg, hresp, hres⟩ := ha
  obtain ⟨used, hu, hul, htime, hfacts⟩ := hr
  have hs : s.sent ≤ s.image.length := by rw [hi.len]; exact hi.sent
  generalize hS : ({ sentState s fr idx' (tOf c s) with resps := rs } : St) = sS at hres
  have sSf : sS.frames = s.frames ++ [fr] ∧ sS.resps = rs ∧ sS.image = s.image ∧ sS.sent = s.sent ∧
      sS.wkc = s.wkc ∧ sS.states = s.states ∧ sS.checks = s.checks + tOf c s ∧ sS.time = s.time ∧
      sS.timeRead = s.timeRead := by subst hS; simp [sentState]
  obtain ⟨sSframes, sSresps, sSimage, sSsent, sSwkc, sSstates, sSchecks, sStime, sStr⟩ := sSf
  have hk : ∀ k, pushedOf c s = some k → sS.sent + k ≤ sS.image.length := by
    intro k hk
    unfold pushedOf at hk; split at hk
    · cases hk
    · cases hk; rw [sSsent, sSimage]; unfold kOf remOf; omega
  have ho := consume_other c (needDc c s) (pushedOf c s) (remOf s) sS r hk
  have hcn := consume_cont hres
  have hst : (consume c (needDc c s) (pushedOf c s) (remOf s) sS r).st = s' := by
    rcases hres with h | h <;> rw [h] <;> rfl
  rw [hst] at ho
  have hfr' : s'.frames = s.frames ++ [fr] := by rw [ho.1, sSframes]
  have hrs' : s'.resps = rs := by rw [ho.2.2.2.2.1, sSresps]
  have hchk' : s'.checks = s.checks + tOf c s := by rw [ho.2.2.1, sSchecks]
  refine ⟨used ++ [r], ?_, ?_, ?_, ?_⟩
  · rw [hu, hresp, hrs']; simp
  · rw [hfr']; simp [hul]
  · intro htr'
    have htr : s'.timeRead = (s.timeRead || needDc c s) := by rw [hcn.2.1, sStr]
    by_cases hd : needDc c s = true
    · obtain ⟨p, rest, hrp, ht⟩ := hcn.2.2.1 hd
      have hfr0 : s.frames = [] := by
        have hdc := hi.dc; unfold DcOk at hdc
        simp only [needDc, Bool.and_eq_true, Bool.not_eq_eq_eq_not, Bool.not_true] at hd
        cases hdd : c.dc with
        | none => rw [hdd] at hd; simp at hd
        | some ref => rw [hdd] at hdc; simp only [hd.2, Bool.false_eq_true, if_false] at hdc; exact hdc
      have hu0 : used = [] := List.eq_nil_of_length_eq_zero (by rw [hul, hfr0]; rfl)
      exact ⟨p, rest, [], by rw [hu0, hrp]; rfl, ht⟩
    · have hdf : needDc c s = false := by simpa using hd
      have htrs : s.timeRead = true := by rw [htr, hdf] at htr'; simpa using htr'
      obtain ⟨p0, rest0, restU, hu0, ht0⟩ := htime htrs
      exact ⟨p0, rest0, restU ++ [r], by rw [hu0]; rfl, by rw [hcn.2.2.2.1 hdf, sStime, ht0]⟩
  · intro hsh
    have hz : s'.frames.zip (used ++ [r]) = s.frames.zip used ++ [(fr, r)] := by
      rw [hfr', List.zip_append hul.symm]; rfl
    have hold : ∀ x ∈ s.frames.zip used, ShapedOne x.1.dgrams x.2 :=
      fun x hx => hsh x (by rw [hz]; simp [hx])
    have hnew : ShapedOne fr.dgrams r := hsh (fr, r) (by rw [hz]; simp)
    have F := hfacts hold
    obtain ⟨pd, pl, rs3, fa⟩ := shaped_frame hg.descs hnew
    have hsl : s.subs.length = c.addrs.length - s.checks := by rw [hi.subs]; simp
    have hstl : sS.states.length + rs3.length ≤ c.maxSd := by
      rw [sSstates, F.nstates, fa.stCount]; have := tOf_le c s; have := hi.checks; omega
    have hreq := fa.eq
    have hla := lrwAnswers_snoc s.frames used fr r hul
    have hsa := stateAnswers_snoc s.frames used fr r hul
    rw [fa.lrwAns] at hla; rw [fa.stAns] at hsa
    rw [← hfr'] at hla hsa
    have hstates : sS.states ++ rs3.map nib = stateAnswers s'.frames (used ++ [r]) := by
      rw [hsa, sSstates, F.states]
    have hnst : (sS.states ++ rs3.map nib).length = s'.checks := by
      rw [hchk', List.length_append, sSstates, F.nstates, List.length_map, fa.stCount]
    cases hp : pushedOf c s with
    | none =>
      have heq := consume_shaped c (needDc c s) none (remOf s) sS pd pl rs3 fa.dcLen
        (by intro k hk; cases hk) fa.stLen hstl
      rw [hp] at hreq hla hres
      rw [← hreq] at heq
      simp only [Option.isSome, Bool.false_eq_true, if_false, List.append_nil] at heq hla
      rw [heq] at hres
      have hs' := finishStep_st hres
      have hret : returned s'.frames (used ++ [r]) = returned s.frames used := by unfold returned; rw [hla]
      have hwk : lrwWkcSum s'.frames (used ++ [r]) = lrwWkcSum s.frames used := by unfold lrwWkcSum; rw [hla]
      have ff := ite_dc_fields (needDc c s) sS (rd64 pd.data)
      simp only at ff
      refine ⟨?_, ?_, ?_, ?_, ?_, ?_⟩
      · rw [hret, F.retLen, hs']; simp only; rw [ff.2.1, sSsent]
      · rw [hret, hs']; simp only; rw [ff.1, ff.2.1, sSimage, sSsent]; exact F.image
      · rw [hwk, hs']; simp only; rw [ff.2.2.1, sSwkc]; exact F.wkc
      · rw [hwk]; exact F.wkcChk
      · have e : s'.states = sS.states ++ rs3.map nib := by rw [hs']
        rw [e]; exact hstates
      · rw [hs'] at hnst ⊢; simp only at hnst ⊢; rw [ff.2.2.2.2.1] at hnst ⊢; exact hnst
    | some k =>
      have hkk : k = kOf c s := by
        unfold pushedOf at hp; split at hp
        · cases hp
        · cases hp; rfl
      have hpl : pl.data.length = k := fa.lrwLen k hp
      have heq := consume_shaped c (needDc c s) (some k) (remOf s) sS pd pl rs3 fa.dcLen
        (by intro k' hk'; cases hk'; exact hpl) fa.stLen hstl
      rw [hp] at hreq hla hres
      rw [← hreq] at heq
      simp only [Option.isSome, if_true] at heq hla
      have hret : returned s'.frames (used ++ [r]) = returned s.frames used ++ pl.data := by
        unfold returned; rw [hla]; simp
      have hwk : lrwWkcSum s'.frames (used ++ [r]) = lrwWkcSum s.frames used + pl.wkc := by
        unfold lrwWkcSum; rw [hla]; simp
      have ff := ite_dc_fields (needDc c s) sS (rd64 pd.data)
      simp only at ff
      cases haw : addU 16 c.mode sS.wkc pl.wkc with
      | none =>
        rw [haw] at heq; simp only at heq
        rw [heq] at hres; rcases hres with h | h <;> cases h
      | some w =>
        rw [haw] at heq; simp only at heq
        rw [heq] at hres
        have hs' := finishStep_st hres
        obtain ⟨hw1, hw2⟩ := addU16_some haw (by rw [sSwkc]; exact F.wkc) F.wkcChk
        refine ⟨?_, ?_, ?_, ?_, ?_, ?_⟩
        · rw [hret, hs']; simp only; rw [List.length_append, F.retLen, hpl, sSsent]
        · rw [hret, hs']; simp only
          unfold rxLo rxN
          rw [sSimage, sSsent, F.image]
          exact land_step image0 (returned s.frames used) pl.data s.sent k c.readLen F.retLen hpl
        · rw [hwk, hs']; simp only; exact hw1
        · rw [hwk]; exact hw2
        · have e : s'.states = sS.states ++ rs3.map nib := by rw [hs']
          rw [e]; exact hstates
        · rw [hs'] at hnst ⊢; simp only at hnst ⊢; rw [ff.2.2.2.2.1] at hnst ⊢; exact hnst

theorem finishStep_ne_fail (c : Cfg) (cl : Nat) (x s' : St) (e : TxErr) : finishStep c cl x ≠ .fail s' e := by
  unfold finishStep; split <;> simp

/-- A well-shaped answer is never the reason for an `Err`. -/
theorem consume_shaped_no_fail {c : Cfg} {image0 : List Nat} {bound : Nat} {s : St} {fr : Frame} {idx' : Nat}
    {r : List RPdu} {rs : List (List RPdu)} (hn : c.addrs.length ≤ c.maxSd) (hi : FrInv c image0 bound s)
    (hns : s.states.length = s.checks) (hg : FrameGood c s fr) (hsh : ShapedOne fr.dgrams r) (s' : St) (e : TxErr) :
    consume c (needDc c s) (pushedOf c s) (remOf s) { sentState s fr idx' (tOf c s) with resps := rs } r
      ≠ .fail s' e := by
  obtain ⟨pd, pl, rs3, fa⟩ := shaped_frame hg.descs hsh
  have hsl : s.subs.length = c.addrs.length - s.checks := by rw [hi.subs]; simp
  have hstl : ({ sentState s fr idx' (tOf c s) with resps := rs } : St).states.length + rs3.length ≤ c.maxSd := by
    simp only [sentState]; rw [hns, fa.stCount]; have := tOf_le c s; have := hi.checks; omega
  have hreq := fa.eq
  cases hp : pushedOf c s with
  | none =>
    have heq := consume_shaped c (needDc c s) none (remOf s) { sentState s fr idx' (tOf c s) with resps := rs }
      pd pl rs3 fa.dcLen (by intro k hk; cases hk) fa.stLen hstl
    rw [hp] at hreq
    rw [← hreq] at heq
    rw [heq]; exact finishStep_ne_fail _ _ _ _ _
  | some k =>
    have hpl : pl.data.length = k := fa.lrwLen k hp
    have heq := consume_shaped c (needDc c s) (some k) (remOf s) { sentState s fr idx' (tOf c s) with resps := rs }
      pd pl rs3 fa.dcLen (by intro k' hk'; cases hk'; exact hpl) fa.stLen hstl
    rw [hp] at hreq
    rw [← hreq] at heq
    rw [heq]; dsimp only
    cases addU 16 c.mode ({ sentState s fr idx' (tOf c s) with resps := rs } : St).wkc pl.wkc with
    | none => simp
    | some w => exact finishStep_ne_fail _ _ _ _ _

/-! ### Whole runs -/

theorem FrRInv.continue {c : Cfg} {image0 : List Nat} {bound : Nat} {resps0 : List (List RPdu)} {s s' : St}
    (hc : CfgOk c image0.length) (hn : c.addrs.length ≤ c.maxSd)
    (h : FrInv c image0 bound s ∧ RInv c image0 resps0 s) (hst : step c s = .continue s') :
    FrInv c image0 bound s' ∧ RInv c image0 resps0 s' := by
  have ha := advance_of_continue (by rw [h.1.len]; exact hc) (by rw [h.1.len]; exact h.1.sent) hst
  exact ⟨h.1.advance hc ha, h.2.advance hc hn h.1 ha⟩

/-- A run that ends normally ends in a state satisfying the receive-side invariant. -/
theorem loop_ok_rinv {c : Cfg} {image0 : List Nat} {bound : Nat} {resps0 : List (List RPdu)}
    (hc : CfgOk c image0.length) (hn : c.addrs.length ≤ c.maxSd) (fuel : Nat) (s : St)
    (hi : FrInv c image0 bound s) (hr : RInv c image0 resps0 s) (hok : (loop c fuel s).2 = .ok ()) :
    RInv c image0 resps0 (loop c fuel s).1 := by
  obtain ⟨sl, hl, hcase⟩ := loop_final c (fun s => FrInv c image0 bound s ∧ RInv c image0 resps0 s)
    (fun s s' h hs => FrRInv.continue hc hn h hs) fuel s ⟨hi, hr⟩
  rcases hcase with h | ⟨s', hst, h⟩ | ⟨s', e, hst, h⟩ | ⟨s', w, hst, h⟩
  · rw [h] at hok; cases hok
  · rw [h]
    have hs : sl.sent ≤ sl.image.length := by rw [hl.1.len]; exact hl.1.sent
    rcases done_cases (by rw [hl.1.len]; exact hc) hs hst with ⟨he, _⟩ | ⟨ha, _⟩
    · subst he; exact hl.2
    · exact hl.2.advance hc hn hl.1 ha
  · rw [h] at hok; cases hok
  · rw [h] at hok; cases hok

/-- A run that ends with an `Err` saw an unanswered frame or an answer of the wrong shape. -/
theorem loop_err_misshaped {c : Cfg} {image0 : List Nat} {bound : Nat} {resps0 : List (List RPdu)}
    (hc : CfgOk c image0.length) (hn : c.addrs.length ≤ c.maxSd) (fuel : Nat) (s : St)
    (hi : FrInv c image0 bound s) (hr : RInv c image0 resps0 s) (e : TxErr) (hne : e ≠ .fuel)
    (herr : (loop c fuel s).2 = .err e) : ¬ Shaped (loop c fuel s).1.frames resps0 := by
  obtain ⟨sl, hl, hcase⟩ := loop_final c (fun s => FrInv c image0 bound s ∧ RInv c image0 resps0 s)
    (fun s s' h hs => FrRInv.continue hc hn h hs) fuel s ⟨hi, hr⟩
  rcases hcase with h | ⟨s', hst, h⟩ | ⟨s', e', hst, h⟩ | ⟨s', w, hst, h⟩
  · rw [h] at herr; cases herr; exact absurd rfl hne
  · rw [h] at herr; cases herr
  · rw [h] at herr ⊢; cases herr
    simp only
    have hs : sl.sent ≤ sl.image.length := by rw [hl.1.len]; exact hl.1.sent
    have hc' : CfgOk c sl.image.length := by rw [hl.1.len]; exact hc
    obtain ⟨used, hu, hul, _, hfacts⟩ := hl.2
    rcases step_cases hc' hs with ⟨hd, _⟩ | ⟨fr, idx', hg, ⟨hr0, hf⟩ | ⟨r, rs, hr1, hcn⟩⟩
    · rw [hd] at hst; cases hst
    · -- timeout: one frame more than answers
      rw [hf] at hst; cases hst
      intro hsh
      have := hsh.1
      simp only [sentState, List.length_append, List.length_singleton] at this
      rw [hu, hr0, List.append_nil] at this; omega
    · rw [hcn] at hst
      intro hsh
      have hk : ∀ k, (if remOf sl = 0 then none else some (kOf c sl)) = some k →
          ({ sentState sl fr idx' (tOf c sl) with resps := rs } : St).sent + k
            ≤ ({ sentState sl fr idx' (tOf c sl) with resps := rs } : St).image.length := by
        intro k hk
        split at hk
        · cases hk
        · cases hk; simp only [sentState]; unfold kOf remOf; omega
      have ho := consume_other c (needDc c sl) (if remOf sl = 0 then none else some (kOf c sl)) (remOf sl)
        { sentState sl fr idx' (tOf c sl) with resps := rs } r hk
      rw [hst] at ho
      have hfr' : s'.frames = sl.frames ++ [fr] := ho.1
      have hz : s'.frames.zip resps0 = sl.frames.zip used ++ [(fr, r)] := by
        rw [hfr', hu, hr1]
        have : used ++ r :: rs = (used ++ [r]) ++ rs := by simp
        rw [this, zip_append_extra _ _ _ (by simp [hul]), List.zip_append hul.symm]; rfl
      have hold : ∀ x ∈ sl.frames.zip used, ShapedOne x.1.dgrams x.2 :=
        fun x hx => hsh.2 x (by rw [hz]; simp [hx])
      have hnew : ShapedOne fr.dgrams r := hsh.2 (fr, r) (by rw [hz]; simp)
      exact consume_shaped_no_fail hn hl.1 (hfacts hold).nstates hg hnew s' e (by unfold pushedOf; exact hst)
  · rw [h] at herr; cases herr

end Ec.TxRx
