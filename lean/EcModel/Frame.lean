/-
  EcModel.Frame — hand translation of the frame-building path:
    src/command/mod.rs            Command::{code, pack}, aprd/apwr address negation
    src/pdu_loop/pdu_flags.rs     PduFlags::{pack, unpack}
    src/pdu_loop/pdu_header.rs    PduHeader (derive layout: 1+1+4+2+2 bytes)
    src/pdu_loop/frame_header.rs  EthercatFrameHeader::pdu / pack
    src/pdu_loop/frame_element/frame_box.rs      FrameBox::init
    src/pdu_loop/frame_element/created_frame.rs  push_pdu, push_pdu_slice_rest, can_push_pdu_payload, mark_sendable
    src/pdu_loop/frame_element/sendable_frame.rs as_bytes
  A `&mut self` method becomes a function returning the new frame.
-/
import EcModel.Basic
import EcModel.Generated.Consts

namespace Ec

/-- `Command` with `Reads`/`Writes` flattened. 16-bit fields are `address register`. -/
inductive Cmd where
  | nop
  | aprd (a r : Nat) | fprd (a r : Nat) | brd (a r : Nat) | frmw (a r : Nat) | lrd (addr : Nat)
  | bwr (a r : Nat) | apwr (a r : Nat) | fpwr (a r : Nat) | lwr (addr : Nat) | lrw (addr : Nat)
  deriving Repr, DecidableEq

/-- `Command::code`. -/
def Cmd.code : Cmd → Nat
  | .nop => Gen.CMD_NOP
  | .aprd .. => Gen.CMD_APRD | .fprd .. => Gen.CMD_FPRD | .brd .. => Gen.CMD_BRD
  | .frmw .. => Gen.CMD_FRMW | .lrd .. => Gen.CMD_LRD
  | .bwr .. => Gen.CMD_BWR | .apwr .. => Gen.CMD_APWR | .fpwr .. => Gen.CMD_FPWR
  | .lwr .. => Gen.CMD_LWR | .lrw .. => Gen.CMD_LRW

/-- `Command::pack` (`u32::to_le_bytes((register << 16) + address)` / `address.to_le_bytes()`). -/
def Cmd.pack : Cmd → List Nat
  | .nop => [0, 0, 0, 0]
  | .aprd a r | .fprd a r | .brd a r | .frmw a r | .bwr a r | .apwr a r | .fpwr a r =>
      le32 (r * 65536 + a)
  | .lrd addr | .lwr addr | .lrw addr => le32 addr

/-- `Command::aprd(position, register)`: the wire address is `0u16.wrapping_sub(position)`. -/
def Cmd.mkAprd (pos r : Nat) : Cmd := .aprd ((65536 - pos % 65536) % 65536) r
def Cmd.mkApwr (pos r : Nat) : Cmd := .apwr ((65536 - pos % 65536) % 65536) r

/-- `PduFlags::pack`: `length & LEN_MASK | circulated << 14 | more_follows << 15`, little endian. -/
def flagsPack (len : Nat) (circ more : Bool) : List Nat :=
  le16 (len % (Gen.LEN_MASK + 1) + (if circ then 16384 else 0) + (if more then 32768 else 0))

/-- `PduFlags::unpack_from_slice` on a slice of at least two bytes: (length, circulated, more). -/
def flagsUnpack (b : List Nat) : Nat × Bool × Bool :=
  let src := rd16 b
  (src % (Gen.LEN_MASK + 1), src / 16384 % 2 == 1, src / 32768 % 2 == 1)

/-- Packed `PduHeader`: command code, index, raw command, flags, irq. -/
def pduHeader (c : Cmd) (idx len : Nat) (more : Bool) : List Nat :=
  [c.code, idx] ++ c.pack ++ flagsPack len false more ++ le16 0

/-- `CreatedFrame::PDU_OVERHEAD_BYTES`. -/
def PDU_OVERHEAD : Nat := 12

/-- Ethernet header written by `FrameBox::init`. -/
def ethHeader : List Nat :=
  [255, 255, 255, 255, 255, 255] ++ Gen.MAINDEVICE_ADDR ++
  [Gen.ETHERCAT_ETHERTYPE / 256 % 256, Gen.ETHERCAT_ETHERTYPE % 256]

/-- A frame being built. `pdu` is `FrameBox::pdu_buf` (length `cap - 16`). -/
structure CFrame where
  cap   : Nat
  eth   : List Nat          -- 14 bytes
  ecat  : List Nat          -- 2 bytes EtherCAT frame header
  pdu   : List Nat          -- datagram area
  used  : Nat               -- pdu_payload_len
  count : Nat               -- pdu_count
  last  : Option Nat        -- last_header_location
  deriving Repr, DecidableEq

/-- `claim_created` + `FrameBox::init`. -/
def CFrame.init (cap : Nat) : CFrame :=
  { cap := cap, eth := ethHeader, ecat := zeros 2, pdu := zeros (cap - 16),
    used := 0, count := 0, last := none }

/-- A response handle. -/
structure Handle where
  indexInFrame : Nat
  pduIdx : Nat
  code : Nat
  allocSize : Nat
  deriving Repr, DecidableEq

/-- Set the `more_follows` flag of the header at `loc` (unpack flags, set, repack). -/
def patchMore (pdu : List Nat) (loc : Nat) : List Nat :=
  let fl := flagsUnpack (pdu.drop (loc + 6))
  setRange pdu (loc + 6) (flagsPack fl.1 fl.2.1 true)

/-- Common tail of both push functions after the bounds check succeeded. -/
def CFrame.commit (f : CFrame) (c : Cmd) (idx dataLen : Nat) (bytes : List Nat) : CFrame × Handle :=
  let alloc := dataLen + PDU_OVERHEAD
  let start := f.used
  let pdu1 := setRange f.pdu start (pduHeader c idx dataLen false)
  let pdu2 := setRange pdu1 (start + 10) bytes
  let pdu3 := match f.last with
    | some loc => patchMore pdu2 loc
    | none => pdu2
  let last' := match f.last with
    | some _ => some start
    | none => some 0
  ({ f with pdu := pdu3, used := f.used + alloc, count := f.count + 1, last := last' },
   { indexInFrame := f.count, pduIdx := idx, code := c.code, allocSize := alloc })

/-- `len_override.map_or(data.packed_len(), |l| usize::from(l).max(data.packed_len()))`. -/
def declLen (data : List Nat) (lenOv : Option Nat) : Nat :=
  match lenOv with
  | none => data.length
  | some l => max l data.length

/-- `CreatedFrame::push_pdu(command, data, len_override)`; `idx` is the value drawn from the shared
    PDU index counter (drawn even when the push then fails). `none` = `Err(PduError::TooLong)`. -/
def CFrame.pushPdu (f : CFrame) (c : Cmd) (data : List Nat) (lenOv : Option Nat) (idx : Nat) :
    CFrame × Option Handle :=
  if f.used + (declLen data lenOv + PDU_OVERHEAD) ≤ f.pdu.length then
    ((f.commit c idx (declLen data lenOv) data).1, some (f.commit c idx (declLen data lenOv) data).2)
  else (f, none)

/-- Result of `push_pdu_slice_rest`. -/
inductive RestResult where
  | none                       -- Ok(None): nothing pushed, no index drawn
  | some (k : Nat) (h : Handle) -- Ok(Some((k, handle)))
  | tooLong                    -- Err(TooLong) (unreachable, kept because the code has the branch)
  deriving Repr, DecidableEq

/-- `max_bytes.min(bytes.len())` with `max_bytes = buf.len().saturating_sub(consumed).saturating_sub(12)`. -/
def restLen (f : CFrame) (bytes : List Nat) : Nat :=
  min (f.pdu.length - f.used - PDU_OVERHEAD) bytes.length

/-- `CreatedFrame::push_pdu_slice_rest(command, bytes)`; last component of the result says whether
    an index was drawn from the shared counter. -/
def CFrame.pushRest (f : CFrame) (c : Cmd) (bytes : List Nat) (idx : Nat) :
    CFrame × RestResult × Bool :=
  if bytes.isEmpty then (f, .none, false) else
  if f.pdu.length - f.used - PDU_OVERHEAD = 0 then (f, .none, false) else
  if f.used + (restLen f bytes + PDU_OVERHEAD) ≤ f.pdu.length then
    ((f.commit c idx (restLen f bytes) (bytes.take (restLen f bytes))).1,
      .some (restLen f bytes) (f.commit c idx (restLen f bytes) (bytes.take (restLen f bytes))).2, true)
  else (f, .tooLong, true)

/-- `CreatedFrame::can_push_pdu_payload`. -/
def CFrame.canPush (f : CFrame) (packedLen : Nat) : Bool :=
  f.used + (packedLen + PDU_OVERHEAD) ≤ f.pdu.length

/-- `EthercatFrameHeader::pdu(len).pack()`: `len & LEN_MASK | DlPdu << 12`. -/
def ecatHeader (len : Nat) : List Nat := le16 (len % (Gen.LEN_MASK + 1) + 4096)

/-- `CreatedFrame::mark_sendable` (buffer effect only). -/
def CFrame.markSendable (f : CFrame) : CFrame := { f with ecat := ecatHeader f.used }

/-- `SendableFrame::as_bytes`: the first `14 + 2 + pdu_payload_len` bytes of the buffer. -/
def CFrame.asBytes (f : CFrame) : List Nat := f.eth ++ f.ecat ++ f.pdu.take f.used

/-! ### Independent specification of a well-formed frame -/

/-- One datagram as the caller asked for it. -/
structure Dgram where
  cmd : Cmd
  idx : Nat
  len : Nat            -- declared data length
  data : List Nat      -- caller data, `data.length ≤ len`
  deriving Repr, DecidableEq

/-- Wire encoding of one datagram: header, data zero-padded to `len`, zero working counter. -/
def Dgram.encode (d : Dgram) (more : Bool) : List Nat :=
  pduHeader d.cmd d.idx d.len more ++ d.data ++ zeros (d.len - d.data.length) ++ [0, 0]

/-- All datagrams, `more follows` on all but the last. -/
def encodeDgrams : List Dgram → List Nat
  | [] => []
  | [d] => d.encode false
  | d :: rest => d.encode true ++ encodeDgrams rest

def Dgram.size (d : Dgram) : Nat := d.len + PDU_OVERHEAD

def dgramsSize (ds : List Dgram) : Nat := (ds.map Dgram.size).foldl (· + ·) 0

/-- A complete Ethernet frame carrying `ds`. -/
def encodeFrame (ds : List Dgram) : List Nat :=
  ethHeader ++ ecatHeader (dgramsSize ds) ++ encodeDgrams ds

end Ec
