//! C06 (concurrency clauses) — schedule-quantified runs with deadlines, retries and futures dropped
//! at arbitrary points, including while TX/RX are inside the buffer. See `ecverif::microrun`.
fn main() {
    ecverif::microrun::main_for(
        ecverif::microrun::Profile { key: "c06m", drops: true, timeouts: true, tx_fail: true, rx_noise: true, only: &[] },
        300,
        2000,
    );
}
