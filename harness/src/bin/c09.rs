//! C09 — the real `MainDevice::init` run against simulated networks of 0..MAX+2 devices.
//!
//! case line: `c09 <maxSub> <caps a,b,c> <iters> <assign g,g,u,..|-> <dev;dev;..|->`
//!   dev = `station:al:alias:vendor:product:revision:serial:namehex|-:dc:hasMbx:sm+sm|-:kind.p1.p2.chunk.general.wide`
//! answer:    `<result>|<stations>|<al status>|<collapsed projected command trace>`
use ecverif::exec::{Net, Stuck, run};
use ecverif::rng::Rng;
use ecverif::sim::{CMD_APWR, CMD_FPRD, CMD_FPRW, CMD_FPWR, CMD_FRMW, DatagramLog, DcCaps, DeviceDesc, Segment, cmd_name};
use ecverif::util::{Report, hex, unhex};
use ethercrab::error::{Error, Item};
use ethercrab::subdevice_group::SubDeviceGroupHandle;
use ethercrab::{DcSupport, MainDevice, MainDeviceConfig, SubDeviceGroup, Timeouts};
use std::panic::{AssertUnwindSafe, catch_unwind};

#[derive(Clone, Debug, PartialEq)]
struct DevCase {
    /// 0 coupler, 1 digital in, 2 digital out, 3 CoE io
    kind: u8,
    p1: usize,
    p2: usize,
    chunk: usize,
    general: bool,
    name: Option<String>,
    alias: u16,
    vendor: u32,
    product: u32,
    revision: u32,
    serial: u32,
    dc: DcCaps,
    stale_station: u16,
    stale_al: u8,
}

impl DevCase {
    fn desc(&self) -> DeviceDesc {
        let nm = self.name.clone().unwrap_or_default();
        let mut d = match self.kind {
            0 => DeviceDesc::coupler(&nm),
            1 => DeviceDesc::digital_in(&nm, self.p1 as u8),
            2 => DeviceDesc::digital_out(&nm, self.p1 as u8),
            _ => DeviceDesc::coe_io(&nm, self.p1, self.p2, 128),
        };
        d.name = self.name.clone();
        d.general = self.general;
        d.alias = self.alias;
        d.vendor = self.vendor;
        d.product = self.product;
        d.revision = self.revision;
        d.serial = self.serial;
        d.dc = self.dc;
        d.sii_chunk = self.chunk;
        d
    }
    /// `DcSupport` as the model numbers it.
    fn dc_num(&self) -> u8 {
        match (self.dc.supported, self.dc.enhanced, self.dc.wide64) {
            (false, _, _) => 0,
            (true, false, _) => 1,
            (true, true, true) => 2,
            (true, true, false) => 3,
        }
    }
    /// What the EEPROM says about the name: the order string, if there is a General category
    /// pointing at one.
    fn eeprom_name(&self) -> Option<String> {
        if self.general { self.name.clone() } else { None }
    }
    fn to_field(&self) -> String {
        let d = self.desc();
        let has_mbx = d.mailbox.as_ref().is_some_and(|m| (m.protocols != 0 && m.rx_size > 0) || m.tx_size > 0);
        let sms: Vec<String> = d.sms.iter().enumerate().filter(|(_, s)| s.usage == 1 || s.usage == 2).map(|(i, _)| i.to_string()).collect();
        format!(
            "{}:{}:{}:{}:{}:{}:{}:{}:{}:{}:{}:{}.{}.{}.{}.{}.{}",
            self.stale_station,
            self.stale_al,
            self.alias,
            self.vendor,
            self.product,
            self.revision,
            self.serial,
            self.eeprom_name().map_or("-".to_string(), |n| if n.is_empty() { "-".to_string() } else { hex(n.as_bytes()) }),
            self.dc_num(),
            has_mbx as u8,
            if sms.is_empty() { "-".to_string() } else { sms.join("+") },
            self.kind,
            self.p1,
            self.p2,
            self.chunk,
            self.general as u8,
            self.dc.wide64 as u8,
        )
    }
    fn from_field(s: &str) -> Option<DevCase> {
        let f: Vec<&str> = s.split(':').collect();
        if f.len() < 12 {
            return None;
        }
        let r: Vec<usize> = f[11].split('.').filter_map(|x| x.parse().ok()).collect();
        if r.len() < 6 {
            return None;
        }
        let dcn: u8 = f[8].parse().ok()?;
        let wide = r[5] == 1;
        let dc = match dcn {
            0 => DcCaps::NONE,
            1 => DcCaps { supported: true, wide64: wide, enhanced: false },
            2 => DcCaps::BITS64,
            _ => DcCaps::BITS32,
        };
        let general = r[4] == 1;
        let name = if f[7] == "-" { None } else { Some(String::from_utf8_lossy(&unhex(f[7])).to_string()) };
        Some(DevCase {
            kind: r[0] as u8,
            p1: r[1],
            p2: r[2],
            chunk: r[3],
            general,
            name,
            alias: f[2].parse().ok()?,
            vendor: f[3].parse().ok()?,
            product: f[4].parse().ok()?,
            revision: f[5].parse().ok()?,
            serial: f[6].parse().ok()?,
            dc,
            stale_station: f[0].parse().ok()?,
            stale_al: f[1].parse().ok()?,
        })
    }
}

#[derive(Clone, Debug, PartialEq)]
struct Case {
    max_sub: usize,
    caps: [usize; 3],
    iters: u32,
    assign: Vec<Option<usize>>,
    devs: Vec<DevCase>,
    /// an EARLIER `init` on the same MainDevice against a network of this many (plain) devices, whatever its
    /// outcome (too many devices -> Capacity error, fewer, more, none): the init under test must not depend on it
    prior: Option<usize>,
}

impl Case {
    fn to_line(&self) -> String {
        format!(
            "c09 {} {},{},{} {} {} {}{}",
            self.max_sub,
            self.caps[0],
            self.caps[1],
            self.caps[2],
            self.iters,
            if self.assign.is_empty() { "-".to_string() } else { self.assign.iter().map(|a| a.map_or("u".to_string(), |g| g.to_string())).collect::<Vec<_>>().join(",") },
            if self.devs.is_empty() { "-".to_string() } else { self.devs.iter().map(|d| d.to_field()).collect::<Vec<_>>().join(";") },
            self.prior.map_or(String::new(), |p| format!(" prior={p}")),
        )
    }
    fn from_line(line: &str) -> Option<Case> {
        let t: Vec<&str> = line.split(' ').collect();
        if !(t.len() == 6 || t.len() == 7) || t[0] != "c09" {
            return None;
        }
        let caps: Vec<usize> = t[2].split(',').filter_map(|x| x.parse().ok()).collect();
        if caps.len() != 3 {
            return None;
        }
        let assign = if t[4] == "-" { vec![] } else { t[4].split(',').map(|x| x.parse().ok()).collect() };
        let devs = if t[5] == "-" { vec![] } else { t[5].split(';').map(DevCase::from_field).collect::<Option<Vec<_>>>()? };
        let prior = t.get(6).and_then(|x| x.strip_prefix("prior=")).and_then(|x| x.parse().ok());
        Some(Case { max_sub: t[1].parse().ok()?, caps: [caps[0], caps[1], caps[2]], iters: t[3].parse().ok()?, assign, devs, prior })
    }
}

#[derive(Default)]
struct Groups<const A: usize, const B: usize, const C: usize> {
    g0: SubDeviceGroup<A, 32>,
    g1: SubDeviceGroup<B, 32>,
    g2: SubDeviceGroup<C, 32>,
}

/// What the real code reported about one SubDevice.
#[derive(Clone, Debug, PartialEq)]
struct Seen {
    cfg: u16,
    alias: u16,
    vendor: u32,
    product: u32,
    revision: u32,
    serial: u32,
    name: String,
    dc: u8,
}

enum Outcome {
    Ok(Vec<Vec<Seen>>),
    Err(String),
    Panic(String),
}

fn dc_num(d: DcSupport) -> u8 {
    match d {
        DcSupport::None => 0,
        DcSupport::RefOnly => 1,
        DcSupport::Bits64 => 2,
        DcSupport::Bits32 => 3,
    }
}

fn err_token(e: &Error) -> String {
    match e {
        Error::WorkingCounter { .. } => "wkc".into(),
        Error::Capacity(Item::SubDevice) => "capSub".into(),
        Error::Capacity(Item::Group) => "capGroup".into(),
        Error::UnknownSubDevice => "unknown".into(),
        Error::Timeout(_) => "timeout".into(),
        e => format!("other:{:?}", e).replace(' ', "_"),
    }
}

fn seen_of<const N: usize>(g: &SubDeviceGroup<N, 32>, md: &MainDevice<'_>) -> Vec<Seen> {
    g.iter(md)
        .map(|sd| {
            let id = sd.identity();
            Seen {
                cfg: sd.configured_address(),
                alias: sd.alias_address(),
                vendor: id.vendor_id,
                product: id.product_id,
                revision: id.revision,
                serial: id.serial,
                name: sd.name().to_string(),
                dc: dc_num(sd.dc_support()),
            }
        })
        .collect()
}

fn run_init<const MAX: usize, const A: usize, const B: usize, const C: usize>(net: &mut Net, md: &'static MainDevice<'static>, assign: &[Option<usize>]) -> Outcome {
    let r = catch_unwind(AssertUnwindSafe(|| {
        run(net, async {
            let groups = md
                .init::<MAX, Groups<A, B, C>>(
                    || ecverif::clock::now() * 1000,
                    Groups::default(),
                    |groups, sd| {
                        let idx = sd.configured_address().wrapping_sub(0x1000) as usize;
                        let h: &dyn SubDeviceGroupHandle = match assign.get(idx).copied().flatten() {
                            Some(0) => &groups.g0,
                            Some(1) => &groups.g1,
                            Some(2) => &groups.g2,
                            _ => return Err(Error::UnknownSubDevice),
                        };
                        Ok(h)
                    },
                )
                .await?;
            Ok::<_, Error>(vec![seen_of(&groups.g0, md), seen_of(&groups.g1, md), seen_of(&groups.g2, md)])
        })
    }));
    match r {
        Err(p) => Outcome::Panic(p.downcast_ref::<String>().cloned().or_else(|| p.downcast_ref::<&str>().map(|s| s.to_string())).unwrap_or_default()),
        Ok(Err(Stuck::StepLimit)) => Outcome::Err("stuck:steplimit".into()),
        Ok(Err(Stuck::Deadlock)) => Outcome::Err("stuck:deadlock".into()),
        Ok(Ok(Err(e))) => Outcome::Err(err_token(&e)),
        Ok(Ok(Ok(g))) => Outcome::Ok(g),
    }
}

const CAPS: [[usize; 3]; 6] = [[18, 18, 18], [1, 2, 18], [2, 1, 4], [4, 4, 4], [18, 1, 1], [3, 18, 2]];
const MAXES: [usize; 4] = [2, 4, 8, 16];

fn dispatch(net: &mut Net, md: &'static MainDevice<'static>, c: &Case) -> Outcome {
    macro_rules! caps {
        ($m:literal) => {
            match c.caps {
                [18, 18, 18] => run_init::<$m, 18, 18, 18>(net, md, &c.assign),
                [1, 2, 18] => run_init::<$m, 1, 2, 18>(net, md, &c.assign),
                [2, 1, 4] => run_init::<$m, 2, 1, 4>(net, md, &c.assign),
                [4, 4, 4] => run_init::<$m, 4, 4, 4>(net, md, &c.assign),
                [18, 1, 1] => run_init::<$m, 18, 1, 1>(net, md, &c.assign),
                [3, 18, 2] => run_init::<$m, 3, 18, 2>(net, md, &c.assign),
                _ => Outcome::Err("bad-caps".into()),
            }
        };
    }
    match c.max_sub {
        2 => caps!(2),
        4 => caps!(4),
        8 => caps!(8),
        16 => caps!(16),
        _ => Outcome::Err("bad-max".into()),
    }
}

/// `KIND:target:register`, SII interface registers folded into one token.
fn project(d: &DatagramLog) -> String {
    let fp = matches!(d.cmd, CMD_FPRD | CMD_FPWR | CMD_FPRW);
    if fp && (0x0502..=0x050f).contains(&d.ado) { format!("SII:{:04x}", d.adp) } else { d.project() }
}

fn show_seen(s: &Seen) -> String {
    format!("{}/{:04x}/{}/{}/{}/{}/{}/{}/{}", s.cfg.wrapping_sub(0x1000), s.cfg, s.alias, s.vendor, s.product, s.revision, s.serial, hex(s.name.as_bytes()), s.dc)
}

/// A ring of `n` plain devices (far beyond the group capacities the other cases use): only the address clause is
/// judged — after init the device at ring position i holds station address 0x1000 + i, all distinct. Monitor only
/// (the model line answers `n/a`): added after seed C09e (`0x1000 | i`, identical below 4096 devices).
fn big_ring(n: usize, rep: &mut Report) {
    let line = format!("c09 bigring {n}");
    ecverif::progress::about_to_run(&line);
    // the group (8192 SubDevice records) and the init future live on the stack: run on a thread with a large one
    let (tok, stations): (String, Vec<u16>) = std::thread::Builder::new()
        .stack_size(1 << 30)
        .spawn(move || {
            let descs: Vec<DeviceDesc> = (0..n).map(|_| DeviceDesc { name: Some("R".into()), ..DeviceDesc::default() }).collect();
            let seg = Segment::from_descs(&descs);
            let (mut net, md) = Net::new(seg, 16, 1128, Timeouts::default(), MainDeviceConfig { dc_static_sync_iterations: 0, ..Default::default() });
            net.step_limit = 400_000_000;
            let r = catch_unwind(AssertUnwindSafe(|| run(&mut net, async { md.init_single_group::<8192, 1>(|| ecverif::clock::now() * 1000).await.map(|g| g.len()) })));
            let tok = match &r {
                Err(_) => "panic".to_string(),
                Ok(Err(_)) => "stuck".to_string(),
                Ok(Ok(Err(e))) => format!("err:{}", err_token(e)),
                Ok(Ok(Ok(k))) => format!("ok:{k}"),
            };
            (tok, net.seg.devices.iter().map(|d| d.station_address()).collect())
        })
        .expect("spawn")
        .join()
        .unwrap_or_else(|_| ("panic".to_string(), vec![]));
    if stations.len() != n {
        rep.fail("c09/big-ring-result", &format!("ring of {n}: the run died ({tok})"), &line);
        rep.case(line, "n/a".into());
        return;
    }
    if let Some(i) = (0..n).find(|i| stations[*i] != 0x1000u16.wrapping_add(*i as u16)) {
        rep.fail("c09/big-ring-address", &format!("ring of {n}: device at position {i} holds station address {:#06x}, expected {:#06x} (init: {tok})", stations[i], 0x1000u16.wrapping_add(i as u16)), &line);
    } else if tok != format!("ok:{n}") {
        rep.fail("c09/big-ring-result", &format!("ring of {n}: init answered {tok}, expected ok:{n}"), &line);
    }
    rep.hit("bigring");
    rep.case(line, "n/a".into());
}

fn run_case(c: &Case, rep: &mut Report) {
    let line = c.to_line();
    let n = c.devs.len();
    let descs: Vec<DeviceDesc> = c.devs.iter().map(|d| d.desc()).collect();
    let mut seg = Segment::from_descs(&descs);
    for (e, d) in seg.devices.iter_mut().zip(c.devs.iter()) {
        e.set_station_address(d.stale_station);
        e.al.state = d.stale_al & 0x0f;
        e.al.error = d.stale_al & 0x10 != 0;
        e.al.code = if e.al.error { 0x001b } else { 0 };
        e.sync_status_regs();
    }
    let (mut net, md) = Net::new(seg, 16, 1128, Timeouts::default(), MainDeviceConfig { dc_static_sync_iterations: c.iters, ..Default::default() });
    net.step_limit = 2_000_000;
    if let Some(n0) = c.prior {
        // an earlier init of the same MainDevice against another network (result ignored), then the network
        // under test is plugged in
        let plain: Vec<DeviceDesc> = (0..n0).map(|i| DeviceDesc { name: Some(format!("P{i}")), ..DeviceDesc::default() }).collect();
        let real = core::mem::replace(&mut net.seg, Segment::from_descs(&plain));
        let prior_case = Case { max_sub: c.max_sub, caps: c.caps, iters: 0, assign: (0..n0).map(|i| Some(i % 3)).collect(), devs: vec![], prior: None };
        let _ = dispatch(&mut net, md, &prior_case);
        net.seg = real;
        rep.hit("prior-init");
    }
    let out = dispatch(&mut net, md, c);

    // ---- answer line
    let res = match &out {
        Outcome::Ok(g) => format!("ok:{}", g.iter().map(|m| m.iter().map(show_seen).collect::<Vec<_>>().join(",")).collect::<Vec<_>>().join(";")),
        Outcome::Err(e) => format!("err:{e}"),
        Outcome::Panic(_) => "panic".to_string(),
    };
    let stations: Vec<String> = net.seg.devices.iter().map(|d| d.station_address().to_string()).collect();
    let als: Vec<String> = net.seg.devices.iter().map(|d| d.mem[0x0130].to_string()).collect();
    let mut trace: Vec<String> = Vec::new();
    for d in net.seg.datagrams() {
        let t = project(d);
        if trace.last() != Some(&t) {
            trace.push(t);
        }
    }
    rep.case(line.clone(), format!("{}|{}|{}|{}", res, stations.join(","), als.join(","), trace.join(",")));

    // ---- distribution
    rep.hit(&format!("n={}", n));
    rep.hit(&format!("max={}", c.max_sub));
    rep.hit(&format!("groups_used={}", c.assign.iter().flatten().collect::<std::collections::BTreeSet<_>>().len()));
    rep.hit(match &out {
        Outcome::Ok(_) => "result=ok",
        Outcome::Err(e) if e == "capSub" => "result=capSub",
        Outcome::Err(e) if e == "capGroup" => "result=capGroup",
        Outcome::Err(e) if e == "unknown" => "result=unknown",
        Outcome::Err(_) => "result=other-error",
        Outcome::Panic(_) => "result=panic",
    });
    for d in &c.devs {
        rep.hit(&format!("kind={}", d.kind));
        rep.hit(&format!("dc={}", d.dc_num()));
        rep.hit(&format!("chunk={}", d.chunk));
        rep.hit(if d.eeprom_name().is_some_and(|n| !n.is_empty()) { "named" } else { "unnamed" });
    }
    let mut st: Vec<u16> = c.devs.iter().map(|d| d.stale_station).collect();
    st.sort();
    if st.windows(2).any(|w| w[0] == w[1]) {
        rep.hit("stale-duplicates");
    }
    if c.devs.iter().any(|d| (0x1000..0x1000 + n as u16).contains(&d.stale_station)) {
        rep.hit("stale-in-assigned-range");
    }
    if n >= 2 {
        rep.nontrivial.insert(line.clone());
    }

    // ---- monitors (independent of the Lean model)
    if let Outcome::Panic(p) = &out {
        rep.fail("c09/panic", &format!("init panicked: {p}"), &line);
    }
    if let Outcome::Err(e) = &out {
        if e.starts_with("stuck") || e.starts_with("other") {
            rep.fail("c09/unexpected-error", &format!("init ended with {e}"), &line);
        }
    }
    if n > c.max_sub {
        match &out {
            Outcome::Err(e) if e == "capSub" => {}
            Outcome::Ok(_) => rep.fail("c09/silent-truncation", &format!("{n} devices > capacity {} but init returned Ok", c.max_sub), &line),
            Outcome::Panic(_) => {}
            Outcome::Err(e) => rep.fail("c09/capacity-wrong-error", &format!("{n} devices > capacity {}: {e}", c.max_sub), &line),
        }
    }
    if n >= 1 {
        // every device holds 0x1000 + position after the first loop, whatever it held before
        for (i, d) in net.seg.devices.iter().enumerate() {
            if d.station_address() != 0x1000u16.wrapping_add(i as u16) {
                rep.fail("c09/address-not-assigned", &format!("device at position {i} has station address {:#06x}", d.station_address()), &line);
            }
        }
    }
    if let Outcome::Ok(groups) = &out {
        let mut count = vec![0usize; n];
        for (gi, g) in groups.iter().enumerate() {
            if g.len() > c.caps[gi] {
                rep.fail("c09/group-overfull", &format!("group {gi} holds {} > {}", g.len(), c.caps[gi]), &line);
            }
            let mut last = None;
            for s in g {
                let i = s.cfg.wrapping_sub(0x1000) as usize;
                if i >= n {
                    rep.fail("c09/phantom-device", &format!("record with address {:#06x} on a network of {n}", s.cfg), &line);
                    continue;
                }
                count[i] += 1;
                if c.assign.get(i).copied().flatten() != Some(gi) {
                    rep.fail("c09/wrong-group", &format!("device {i} in group {gi}"), &line);
                }
                if last.is_some_and(|l| l >= i) {
                    rep.fail("c09/group-order", &format!("group {gi} not in ring order"), &line);
                }
                last = Some(i);
                // the record must say what THIS device's description says
                let d = &c.devs[i];
                let want_name = match d.eeprom_name() {
                    Some(nm) if !nm.is_empty() => nm,
                    _ => format!("manu. {:#010x}, device {:#010x}, serial {:#010x}", d.vendor, d.product, d.serial),
                };
                let want = Seen { cfg: 0x1000 + i as u16, alias: d.alias, vendor: d.vendor, product: d.product, revision: d.revision, serial: d.serial, name: want_name, dc: d.dc_num() };
                if *s != want {
                    rep.fail("c09/record-mismatch", &format!("record {i}: {:?} expected {:?}", s, want), &line);
                }
            }
        }
        if count.iter().any(|&k| k != 1) {
            rep.fail("c09/not-exactly-one-group", &format!("membership counts {:?}", count), &line);
        }
        for (i, d) in net.seg.devices.iter().enumerate() {
            if d.mem[0x0130] != 2 {
                rep.fail("c09/not-preop", &format!("device {i} AL status {:#04x} after Ok", d.mem[0x0130]), &line);
            }
        }
        if n == 0 && groups.iter().any(|g| !g.is_empty()) {
            rep.fail("c09/empty-network-nonempty-group", "n = 0 but a group has members", &line);
        }
    }
    // cross-talk: a datagram addressed to one device executed by another / by several
    let mut seen_fp = false;
    for d in net.seg.datagrams() {
        match d.cmd {
            CMD_APWR => {
                if seen_fp {
                    rep.fail("c09/fp-before-ap-done", "an auto-increment write after configured-address traffic", &line);
                }
                if d.executed_by != [d.ap_position()] {
                    rep.fail("c09/crosstalk", &format!("{} executed by {:?}", d.project(), d.executed_by), &line);
                }
            }
            CMD_FPRD | CMD_FPWR | CMD_FPRW | CMD_FRMW => {
                seen_fp = true;
                let want = d.adp.wrapping_sub(0x1000);
                let ok = if d.cmd == CMD_FRMW { d.executed_by.contains(&want) } else { d.executed_by == [want] };
                // reads of the DC block of a non-DC device legitimately execute nowhere (not issued by init)
                if !ok {
                    rep.fail("c09/crosstalk", &format!("{} ({}) executed by {:?}", d.project(), cmd_name(d.cmd), d.executed_by), &line);
                }
            }
            _ => {}
        }
    }
    if !net.rx_errors.is_empty() {
        rep.fail("c09/rx-error", &format!("{:?}", net.rx_errors), &line);
    }
    unsafe { net.recycle() };
}

/// Simulator-vs-spec: one raw datagram on the station address register through `Segment::process_frame`,
/// compared with `EcModel.Net` (`c09 net <stations> <kind> <adp> <value>`).
fn run_net_case(rng: &mut Rng, rep: &mut Report) {
    let n = match rng.below(6) {
        0 => 0,
        1 => 1,
        _ => rng.range(0, 24) as usize,
    };
    let pool: Vec<u16> = (0..3).map(|_| rng.next() as u16).chain([0, 0x1000, 0x1001, 0xffff]).collect();
    let stations: Vec<u16> = (0..n).map(|_| *rng.pick(&pool)).collect();
    let kind = *rng.pick(&["aprd", "apwr", "fprd", "fpwr", "brd", "bwr"]);
    let adp: u16 = match rng.below(6) {
        0 => 0,
        1 => 0u16.wrapping_sub(rng.below(n.max(1) as u64) as u16),
        2 => *rng.pick(&pool),
        3 => 0xffff,
        4 => 0u16.wrapping_sub(n as u16),
        _ => rng.next() as u16,
    };
    let v: u16 = if kind == "brd" && rng.chance(1, 2) { 0 } else { rng.next() as u16 };
    exec_net_case(&stations, kind, adp, v, rep);
}

fn replay_net_case(line: &str, rep: &mut Report) -> bool {
    let t: Vec<&str> = line.split(' ').collect();
    if t.len() != 6 || t[1] != "net" {
        return false;
    }
    let stations: Vec<u16> = if t[2] == "-" { vec![] } else { t[2].split(',').filter_map(|x| x.parse().ok()).collect() };
    let (Ok(adp), Ok(v)) = (t[4].parse::<u16>(), t[5].parse::<u16>()) else { return false };
    exec_net_case(&stations, t[3], adp, v, rep);
    true
}

fn exec_net_case(stations: &[u16], kind: &str, adp: u16, v: u16, rep: &mut Report) {
    use ecverif::sim::Esc;
    let n = stations.len();
    let cmd: u8 = match kind {
        "aprd" => 1,
        "apwr" => 2,
        "fprd" => 4,
        "fpwr" => 5,
        "brd" => 7,
        _ => 8,
    };
    let line = format!("c09 net {} {} {} {}", if n == 0 { "-".to_string() } else { stations.iter().map(|s| s.to_string()).collect::<Vec<_>>().join(",") }, kind, adp, v);
    let mut seg = Segment::line((0..n).map(|_| Esc::blank()).collect());
    for (e, s) in seg.devices.iter_mut().zip(stations.iter()) {
        e.set_station_address(*s);
    }
    let mut f = vec![0xffu8; 6];
    f.extend_from_slice(&[0x10; 6]);
    f.extend_from_slice(&[0x88, 0xa4]);
    f.extend_from_slice(&(14u16 | 0x1000).to_le_bytes());
    f.push(cmd);
    f.push(0x42);
    f.extend_from_slice(&adp.to_le_bytes());
    f.extend_from_slice(&0x0010u16.to_le_bytes());
    f.extend_from_slice(&2u16.to_le_bytes());
    f.extend_from_slice(&[0, 0]);
    f.extend_from_slice(&v.to_le_bytes());
    f.extend_from_slice(&[0, 0]);
    let r = seg.process_frame(&f);
    let d = seg.datagrams().next().cloned();
    let out = match d {
        Some(d) if r.len() == f.len() => format!(
            "{}|{}|{}|{}",
            d.executed_by.iter().map(|x| x.to_string()).collect::<Vec<_>>().join(","),
            d.wkc_out,
            seg.devices.iter().map(|e| e.station_address().to_string()).collect::<Vec<_>>().join(","),
            u16::from_le_bytes([r[26], r[27]])
        ),
        _ => "no-datagram".to_string(),
    };
    rep.hit(&format!("net:{kind}"));
    rep.case(line, out);
}

const NAMES: [&str; 8] = ["EK1100", "EL2004", "EL1008", "EL3004", "AKD servo drive", "X", "LAN9252-EVB", "a name that is exactly forty-two chars long!"];

fn gen_dev(rng: &mut Rng, n: usize) -> DevCase {
    let kind = rng.below(4) as u8;
    let (p1, p2) = match kind {
        0 => (0, 0),
        1 | 2 => (*rng.pick(&[1usize, 2, 4, 8, 16]), 0),
        _ => (rng.range(0, 6) as usize, rng.range(0, 6) as usize),
    };
    let (general, name) = match rng.below(8) {
        0 => (false, Some("hidden".to_string())),
        1 => (true, None),
        _ => (true, Some(rng.pick(&NAMES).to_string())),
    };
    let stale_station = match rng.below(8) {
        0 => 0,
        1 => 0x1000,
        2 => 0x1000 + rng.below(n.max(1) as u64) as u16,
        3 => 0x1000 + (n as u16).wrapping_sub(1),
        4 => 0xffff,
        5 => 0x1001,
        _ => rng.next() as u16,
    };
    DevCase {
        kind,
        p1,
        p2,
        chunk: *rng.pick(&[4usize, 8]),
        general,
        name,
        alias: if rng.chance(1, 3) { 0 } else { rng.next() as u16 },
        vendor: *rng.pick(&[2u32, 0x0000_0539, 0xffff_ffff, 0x1234_5678]),
        product: rng.next() as u32,
        revision: rng.next() as u32,
        serial: if rng.chance(1, 2) { 0 } else { rng.next() as u32 },
        dc: *rng.pick(&[DcCaps::NONE, DcCaps::NONE, DcCaps::REF_ONLY, DcCaps::REF_ONLY64, DcCaps::BITS32, DcCaps::BITS64]),
        stale_station,
        stale_al: *rng.pick(&[1u8, 1, 2, 4, 8, 0x11, 0x12, 0x14]),
    }
}

fn gen_case(rng: &mut Rng) -> Case {
    let max_sub = *rng.pick(&MAXES);
    let n = match rng.below(10) {
        0 => 0,
        1 => max_sub,
        2 => max_sub + 1,
        3 => max_sub + 2,
        4 => 1,
        _ => rng.range(0, max_sub as u64 + 2) as usize,
    };
    let caps = if rng.chance(2, 3) { CAPS[0] } else { *rng.pick(&CAPS) };
    let used = rng.range(1, 3) as usize;
    let unknown = rng.chance(1, 25);
    let assign = (0..n).map(|_| if unknown && rng.chance(1, 4) { None } else { Some(rng.below(used as u64) as usize) }).collect();
    let prior = if rng.chance(1, 3) { Some(*rng.pick(&[0usize, 1, max_sub, max_sub + 1, max_sub + 3, n + 1, n.saturating_sub(1)])) } else { None };
    Case { max_sub, caps, iters: *rng.pick(&[0u32, 1, 2, 3]), assign, devs: (0..n).map(|_| gen_dev(rng, n)).collect(), prior }
}

fn corpus() -> Vec<Case> {
    let mut out = Vec::new();
    let mut rng = Rng::new(0xC09);
    let plain = |name: &str, stale: u16| DevCase {
        kind: 0,
        p1: 0,
        p2: 0,
        chunk: 4,
        general: true,
        name: Some(name.to_string()),
        alias: 0,
        vendor: 2,
        product: 0x044c_2c52,
        revision: 0x0011_0000,
        serial: 0,
        dc: DcCaps::NONE,
        stale_station: stale,
        stale_al: 1,
    };
    // empty network
    out.push(Case { max_sub: 2, caps: CAPS[0], iters: 0, assign: vec![], devs: vec![], prior: None });
    out.push(Case { max_sub: 16, caps: CAPS[3], iters: 2, assign: vec![], devs: vec![], prior: None });
    // a single device of every kind
    for kind in 0..4u8 {
        let mut d = gen_dev(&mut rng, 1);
        d.kind = kind;
        d.p1 = 4;
        d.p2 = 2;
        out.push(Case { max_sub: 2, caps: CAPS[0], iters: 1, assign: vec![Some(0)], devs: vec![d], prior: None });
    }
    // exactly at, one above and two above the capacity, for every capacity
    for &m in &MAXES {
        for extra in 0..=2usize {
            let n = m + extra;
            out.push(Case { max_sub: m, caps: CAPS[0], iters: 1, assign: (0..n).map(|i| Some(i % 3)).collect(), devs: (0..n).map(|_| gen_dev(&mut rng, n)).collect(), prior: None });
        }
    }
    // every device carries the SAME stale address, which is also the first address init hands out
    for stale in [0x1000u16, 0x1001, 0x1003, 0] {
        out.push(Case { max_sub: 4, caps: CAPS[0], iters: 0, assign: vec![Some(0); 4], devs: (0..4).map(|i| plain(&format!("D{i}"), stale)).collect(), prior: None });
    }
    // stale addresses are the assigned range in reverse order (device i holds what device n-1-i will get)
    out.push(Case { max_sub: 8, caps: CAPS[0], iters: 0, assign: vec![Some(1); 6], devs: (0..6u16).map(|i| plain("R", 0x1000 + 5 - i)).collect(), prior: None });
    // shifted by one: device i holds what device i+1 will get (the case the comment in init describes)
    out.push(Case { max_sub: 8, caps: CAPS[0], iters: 0, assign: vec![Some(0); 5], devs: (0..5u16).map(|i| plain("S", 0x1001 + i)).collect(), prior: None });
    // a group overflows although the network fits
    out.push(Case { max_sub: 8, caps: CAPS[1], iters: 0, assign: vec![Some(0), Some(0), Some(2)], devs: (0..3).map(|i| plain(&format!("G{i}"), 0)).collect(), prior: None });
    // three groups on a MainDevice with room for two group ids
    out.push(Case { max_sub: 2, caps: CAPS[0], iters: 0, assign: vec![Some(0), Some(1)], devs: (0..2).map(|i| plain(&format!("H{i}"), 7)).collect(), prior: None });
    // unknown SubDevice
    out.push(Case { max_sub: 4, caps: CAPS[0], iters: 0, assign: vec![Some(0), None, Some(1)], devs: (0..3).map(|i| plain(&format!("U{i}"), 0x2000)).collect(), prior: None });
    // no names at all, 8-byte SII, mailboxes, every DC flavour
    let mut devs = Vec::new();
    for (i, dc) in [DcCaps::NONE, DcCaps::REF_ONLY, DcCaps::BITS32, DcCaps::BITS64, DcCaps::REF_ONLY64].iter().enumerate() {
        let mut d = plain("", 0x1000);
        d.kind = 3;
        d.p1 = i;
        d.p2 = 5 - i;
        d.chunk = 8;
        d.name = None;
        d.general = i % 2 == 0;
        d.dc = *dc;
        d.serial = i as u32;
        devs.push(d);
    }
    // an init that failed with Capacity (3 devices, capacity 2) must not spoil a later init of a fitting network
    out.push(Case { max_sub: 2, caps: CAPS[0], iters: 0, assign: vec![Some(0), Some(1)], devs: (0..2).map(|i| plain(&format!("K{i}"), 0)).collect(), prior: Some(3) });
    out.push(Case { max_sub: 4, caps: CAPS[0], iters: 0, assign: vec![Some(0); 3], devs: (0..3).map(|i| plain(&format!("L{i}"), 0)).collect(), prior: Some(1) });
    out.push(Case { max_sub: 8, caps: CAPS[0], iters: 3, assign: vec![Some(2), Some(0), Some(1), Some(0), Some(2)], devs, prior: None });
    out
}

fn main() {
    let args = ecverif::parse_args();
    let mut rep = Report::default();
    if let Some(lines) = ecverif::replay_cases(&args) {
        for l in lines {
            if replay_net_case(&l, &mut rep) {
                continue;
            }
            if let Some(n) = l.strip_prefix("c09 bigring ").and_then(|x| x.trim().parse::<usize>().ok()) {
                big_ring(n.min(8191), &mut rep);
                continue;
            }
            match Case::from_line(&l) {
                Some(c) => run_case(&c, &mut rep),
                None => rep.notes.push(format!("unparsable replay case: {l}")),
            }
        }
        rep.write(&args.out, "c09");
        return;
    }
    let corpus = corpus();
    for c in &corpus {
        // the line format must round-trip (replay depends on it)
        let again = Case::from_line(&c.to_line()).map(|c2| c2.to_line());
        if again.as_deref() != Some(c.to_line().as_str()) {
            rep.notes.push(format!("case line does not round-trip: {}", c.to_line()));
        }
        run_case(c, &mut rep);
    }
    let mut rng = Rng::new(args.seed);
    let count = if args.tier == "thorough" { 60_000 } else { 2_000 };
    for _ in 0..count {
        let c = gen_case(&mut rng);
        run_case(&c, &mut rep);
    }
    // the environment semantics the theorems rest on: simulator vs EcModel.Net
    for _ in 0..(if args.tier == "thorough" { 40_000 } else { 6_000 }) {
        run_net_case(&mut rng, &mut rep);
    }
    // the address clause beyond 4096 devices (0x1000 + i has a carry out of the low 12 bits only there)
    // (more than an hour on this simulator: every frame passes 4100 simulated devices; only with C09_BIGRING=1, in no tier)
    if std::env::var_os("C09_BIGRING").is_some() {
        big_ring(4100, &mut rep);
    }
    rep.notes.push(format!("corpus cases: {}", corpus.len()));
    rep.write(&args.out, "c09");
}
