/-
  EcModel.Net — the abstract EtherCAT segment: a ring of devices and which of them execute a
  datagram (ETG1000.4 §5.4: addressing and working counter).

  A segment is observed through three per-device columns (lists indexed by ring position): the
  configured station address register, some register being written, some register being read.
  A command is characterised by its *executors*: the ring positions whose device executes it, in
  ring order.  The working counter of a plain read or write is the number of executors (mod 2^16);
  a write stores at all executors; a read returns what the LAST executor inserted (each executor
  overwrites the data field; only broadcast reads OR their data together).

  The same semantics is implemented by the simulator (`harness/src/sim/mod.rs`); its `executed_by`
  log is what the cross-talk monitor compares against.
-/
import EcModel.Basic

namespace Ec.Net

/-- Auto-increment addressing: the device at ring position `p` sees address `a + p (mod 2^16)` and
    executes iff that is 0 (every device increments the address field by one). -/
def apExecutors (a n : Nat) : List Nat :=
  (List.range n).filter fun p => (a + p) % 65536 == 0

/-- Configured-address addressing: every device whose station address register equals `addr`. -/
def fpExecutors (stations : List Nat) (addr : Nat) : List Nat :=
  (List.range stations.length).filter fun p => stations[p]? == some addr

/-- Broadcast: everybody. -/
def bExecutors (n : Nat) : List Nat := List.range n

/-- Working counter (a `u16`, incremented once per executor) of a read or a write. -/
def wkc (ex : List Nat) : Nat := ex.length % 65536

/-- A write of `v` into one register column by the executors. -/
def writeAt {α : Type} (ex : List Nat) (v : α) (col : List α) : List α :=
  col.mapIdx fun p x => if ex.contains p then v else x

/-- A (non-broadcast) read: the last executor's value is what comes back. -/
def readLast {α : Type} (ex : List Nat) (col : List α) : Option α :=
  ex.getLast?.bind fun p => col[p]?

/-- A broadcast read ORs the values together. -/
def brdOr (col : List Nat) : Nat := col.foldl Nat.lor 0

/-- `Command::apwr(idx, ..)`/`aprd`: the address field sent for ring position `idx` is
    `0u16.wrapping_sub(idx)`. -/
def apAddr (idx : Nat) : Nat := (65536 - idx % 65536) % 65536

end Ec.Net
