/-
  C11 — a device that did not answer is never mistaken for one that did.
  Property theorems only; helper lemmas live in EcModel/Lemmas/WkcLemmas.lean.

  Reading guide. `Exchange` is the result of one datagram round trip (`MainDevice::single_pdu`):
  a transport error or the payload + working counter that came back — ANY payload and counter
  (absent device, device that dropped out, hostile wire). The composite paths run against a list
  of such events, one per datagram in the order the code sends them.
-/
import EcModel.Lemmas.WkcLemmas
import EcModel.Lemmas.WkcEepromLemmas
import EcModel.Generated.WkcEeprom
import EcModel.Lemmas.GroupLemmas

namespace Ec.C11
open Ec Ec.Wkc

/-! ### The builders -/

/-- `WrappedRead::new` / `WrappedWrite::new` expect one responder; `with_wkc(k)` expects `k`;
    `ignore_wkc()` expects nothing. (The literal `1` is re-read from the sources on every run.) -/
theorem default_expected_is_one :
    WrappedRead.new.wkc = some 1 ∧ WrappedWrite.new.wkc = some 1 ∧
    (∀ r k, (WrappedRead.withWkc r k).wkc = some k) ∧ (∀ w k, (WrappedWrite.withWkc w k).wkc = some k) ∧
    (∀ r, (WrappedRead.ignoreWkc r).wkc = none) ∧ (∀ w, (WrappedWrite.ignoreWkc w).wkc = none) := by
  refine ⟨by decide, by decide, ?_, ?_, ?_, ?_⟩ <;> intros <;> rfl

/-- A checked builder method returns `Ok` only if the datagram came back, its working counter
    equals the expected value, and the value is the decoding of exactly that datagram's payload. -/
theorem checked_returns_only_on_match {α : Type} (k : Nat) (ex : Exchange) (unpack : List Nat → Res α) (v : α) :
    (∀ r : WrappedRead, r.wkc = some k → r.receive ex unpack = .ok v →
        ∃ p, ex = .ok p ∧ p.wkc = k ∧ unpack p.data = .ok v) ∧
    (∀ w : WrappedWrite, w.wkc = some k → w.sendReceive ex unpack = .ok v →
        ∃ p, ex = .ok p ∧ p.wkc = k ∧ unpack p.data = .ok v) :=
  ⟨fun r hk h => receive_ok r ex unpack v k hk h, fun w hk h => sendReceive_ok w ex unpack v k hk h⟩

/-- Same for the slice-returning methods: the returned view is the received datagram itself. -/
theorem checked_slice_returns_only_on_match (k : Nat) (ex : Exchange) (q : Pdu) :
    (∀ r : WrappedRead, r.wkc = some k → r.receiveSlice ex = .ok q → ex = .ok q ∧ q.wkc = k) ∧
    (∀ w : WrappedWrite, w.wkc = some k → w.sendReceiveSlice ex = .ok q → ex = .ok q ∧ q.wkc = k) :=
  ⟨fun r hk h => receiveSlice_ok r ex q k hk h, fun w hk h => sendReceiveSlice_ok w ex q k hk h⟩

/-- When the counter differs the result is `Err(WorkingCounter { expected, received })` with
    exactly the two counts — for all four checked methods, whatever the payload decodes to. -/
theorem mismatch_error_carries_counts {α : Type} (k : Nat) (p : Pdu) (unpack : List Nat → Res α) (h : p.wkc ≠ k) :
    (∀ r : WrappedRead, r.wkc = some k →
        r.receive (.ok p) unpack = .error (.workingCounter k p.wkc) ∧
        r.receiveSlice (.ok p) = .error (.workingCounter k p.wkc)) ∧
    (∀ w : WrappedWrite, w.wkc = some k →
        w.sendReceive (.ok p) unpack = .error (.workingCounter k p.wkc) ∧
        w.sendReceiveSlice (.ok p) = .error (.workingCounter k p.wkc)) := by
  refine ⟨fun r hk => ?_, fun w hk => ?_⟩
  · simp [WrappedRead.receive, WrappedRead.receiveSlice, hk, maybeWkc_mismatch p k h]
  · simp [WrappedWrite.sendReceive, WrappedWrite.sendReceiveSlice, hk, maybeWkc_mismatch p k h]

/-- A matching counter never produces a working-counter error: the value is the decoded payload. -/
theorem match_is_accepted {α : Type} (k : Nat) (p : Pdu) (unpack : List Nat → Res α) (h : p.wkc = k) :
    (∀ r : WrappedRead, r.wkc = some k → r.receive (.ok p) unpack = unpack p.data ∧ r.receiveSlice (.ok p) = .ok p) ∧
    (∀ w : WrappedWrite, w.wkc = some k → w.sendReceive (.ok p) unpack = unpack p.data ∧ w.sendReceiveSlice (.ok p) = .ok p) := by
  refine ⟨fun r hk => ?_, fun w hk => ?_⟩
  · simp [WrappedRead.receive, WrappedRead.receiveSlice, hk, Pdu.maybeWkc, Pdu.checkWkc, h]
  · simp [WrappedWrite.sendReceive, WrappedWrite.sendReceiveSlice, hk, Pdu.maybeWkc, Pdu.checkWkc, h]

/-- A datagram that did not come back is an error for every method, the exempt ones included:
    no method invents a value. -/
theorem transport_error_passes_through {α : Type} (e : Err) (unpack : List Nat → Res α) (r : WrappedRead) (w : WrappedWrite) :
    r.receive (.error e) unpack = .error e ∧ r.receiveSlice (.error e) = .error e ∧
    r.receiveWkc (.error e) = .error e ∧ w.send (.error e) = .error e ∧
    w.sendReceive (.error e) unpack = .error e ∧ w.sendReceiveSlice (.error e) = .error e :=
  ⟨rfl, rfl, rfl, rfl, rfl, rfl⟩

/-- The two documented exemptions, stated as what they do: `send` accepts any counter (and hands
    nothing back), `receive_wkc` hands the counter itself to the caller; `ignore_wkc()` accepts
    any counter. -/
theorem exemptions_as_coded (p : Pdu) (w : WrappedWrite) (r : WrappedRead) :
    w.send (.ok p) = .ok () ∧ r.receiveWkc (.ok p) = .ok p.wkc ∧
    r.ignoreWkc.receiveSlice (.ok p) = .ok p ∧ w.ignoreWkc.sendReceiveSlice (.ok p) = .ok p :=
  ⟨rfl, rfl, rfl, rfl⟩

/-! ### Composite paths: the value handed back was produced by a checked exchange -/

/-- `register_read` / `register_write`: the value is the payload of the one datagram, which came
    back with working counter 1. -/
theorem register_access_checked (n : Nat) (tr rest : List Ev) (v : List Nat) :
    (registerRead n tr = (.ok v, rest) → ∃ p, tr = .resp p :: rest ∧ p.wkc = 1 ∧ unpackBytes n p.data = .ok v) ∧
    (registerWrite n tr = (.ok v, rest) → ∃ p, tr = .resp p :: rest ∧ p.wkc = 1 ∧ unpackBytes n p.data = .ok v) := by
  constructor <;> intro h <;> cases tr with
  | nil => simp [registerRead, registerWrite] at h
  | cons e t =>
    simp only [registerRead, registerWrite, Prod.mk.injEq] at h
    obtain ⟨h1, rfl⟩ := h
    first
      | (obtain ⟨p, he, hw, hu⟩ := read1_ok _ _ _ _ h1; exact ⟨p, by rw [he], hw, hu⟩)
      | (obtain ⟨p, he, hw, hu⟩ := write1_ok _ _ _ _ h1; exact ⟨p, by rw [he], hw, hu⟩)

/-- `SubDeviceRef::status`: both registers were read with working counter 1 and the pair is their
    decoding (state nibble without error bit, status code). -/
theorem status_checked (tr rest : List Ev) (s c : Nat) (h : status tr = (.ok (s, c), rest)) :
    ∃ p1 p2, tr = .resp p1 :: .resp p2 :: rest ∧ p1.wkc = 1 ∧ p2.wkc = 1 ∧
      unpackAlControl p1.data = .ok ⟨s, false⟩ ∧ unpackCode p2.data = .ok c := by
  match tr with
  | [] => simp [status] at h
  | [_] => simp [status] at h
  | e1 :: e2 :: t =>
    simp only [status] at h
    by_cases hl : e1 = .lost
    · rw [if_pos hl] at h
      split at h <;> simp at h
    · rw [if_neg hl] at h
      split at h
      · simp at h
      · rename_i ctl h1
        obtain ⟨p1, he1, hw1, hu1⟩ := read1_ok _ _ _ _ h1
        have third : ∀ (l : List Ev) v r, statusThird l ≠ (.ok v, r) := by
          intro l v r hh
          cases l with
          | nil => simp [statusThird] at hh
          | cons e3 t3 =>
            simp only [statusThird] at hh
            split at hh <;> simp at hh
        by_cases herr : ctl.error = true
        · rw [if_pos herr] at h
          by_cases hl2 : e2 = .lost
          · rw [if_pos hl2] at h; exact absurd h (third _ _ _)
          · rw [if_neg hl2] at h
            split at h
            · simp at h
            · exact absurd h (third _ _ _)
        · rw [if_neg herr] at h
          split at h
          · simp at h
          · rename_i code h2
            obtain ⟨p2, he2, hw2, hu2⟩ := read1_ok _ _ _ _ h2
            simp only [Prod.mk.injEq, Res.ok.injEq] at h
            obtain ⟨⟨rfl, rfl⟩, rfl⟩ := h
            refine ⟨p1, p2, by rw [he1, he2], hw1, hw2, ?_, hu2⟩
            rw [hu1]
            cases ctl with
            | mk st er => simp at herr; simp [herr]

/-- `request_subdevice_state_nowait`: success means the AL control write was acknowledged by
    exactly one device (working counter 1) and the read-back carried no error bit. -/
theorem state_request_checked (tr rest : List Ev) (h : requestNowait tr = (.ok (), rest)) :
    ∃ p c, tr = .resp p :: rest ∧ p.wkc = 1 ∧ unpackAlControl p.data = .ok c ∧ c.error = false := by
  cases tr with
  | nil => simp [requestNowait] at h
  | cons e t =>
    simp only [requestNowait] at h
    split at h
    · simp at h
    · rename_i c h1
      obtain ⟨p, he, hw, hu⟩ := write1_ok _ _ _ _ h1
      by_cases herr : c.error = true
      · rw [if_pos herr] at h
        split at h
        · simp at h
        · split at h <;> simp at h
      · rw [if_neg herr] at h
        simp only [Prod.mk.injEq, true_and] at h
        subst h
        exact ⟨p, c, by rw [he], hw, hu, by simpa using herr⟩

/-- EEPROM `read_chunk`: the bytes returned are the payload of a data-register read that came back
    with working counter 1, and it was preceded by SII status polls that ALL came back with working
    counter 1, the last of them showing "not busy". The only exchange whose counter was not looked
    at is the first one (`e0`, the fire-and-forget write of the read command — documented exempt). -/
theorem eeprom_read_checked (tr rest : List Ev) (d : List Nat) (h : readChunk tr = (.ok d, rest)) :
    ∃ (e0 : Ev) (polls : List Pdu) (ps pd : Pdu),
      tr = e0 :: (polls.map Ev.resp ++ .resp ps :: .resp pd :: rest) ∧
      (∀ q ∈ polls, q.wkc = 1) ∧ ps.wkc = 1 ∧ pd.wkc = 1 ∧ d = pd.data := by
  cases tr with
  | nil => simp [readChunk] at h
  | cons e0 t =>
    simp only [readChunk] at h
    split at h
    · simp at h
    · split at h
      · simp at h
      · rename_i st t1 hwait
        obtain ⟨polls, ps, hshape, hpolls, hps, _, _⟩ := waitWhileBusy_ok _ _ _ hwait
        cases t1 with
        | nil => simp at h
        | cons e2 t2 =>
          simp only at h
          split at h
          · simp at h
          · rename_i pd hslice
            obtain ⟨he2, hw2⟩ := slice1_ok _ _ _ hslice
            simp only [Prod.mk.injEq, Res.ok.injEq] at h
            obtain ⟨rfl, rfl⟩ := h
            exact ⟨e0, polls, ps, pd, by rw [hshape, he2], hpolls, hps, hw2, rfl⟩

/-- EEPROM `write_word`: `Ok` rests on a checked SII status poll — the acknowledgement that the
    interface is no longer busy came back with working counter 1 — after the (fire-and-forget,
    documented exempt) data and command writes. -/
theorem eeprom_write_checked (tr rest : List Ev) (h : writeWord tr = (.ok (), rest)) :
    ∃ (pre : List Ev) (p : Pdu), tr = pre ++ .resp p :: rest ∧ p.wkc = 1 := by
  unfold writeWord at h
  split at h
  · simp at h
  · rename_i st t hw
    obtain ⟨polls, p0, hshape, _, _, _, _⟩ := waitWhileBusy_ok _ _ _ hw
    obtain ⟨pre, p, hp, hpw⟩ := writeLoop_ok 0 t rest h
    exact ⟨polls.map Ev.resp ++ .resp p0 :: pre, p, by rw [hshape, hp]; simp, hpw⟩

/-- `clear_errors`: success rests on a status read (and, if errors were flagged, a write-read-back)
    with working counter 1. -/
theorem eeprom_clear_errors_checked (tr rest : List Ev) (h : clearErrors tr = (.ok (), rest)) :
    ∃ p t, tr = .resp p :: t ∧ p.wkc = 1 ∧
      (t = rest ∨ ∃ p2, t = .resp p2 :: rest ∧ p2.wkc = 1) := by
  cases tr with
  | nil => simp [clearErrors] at h
  | cons e t =>
    simp only [clearErrors] at h
    split at h
    · simp at h
    · rename_i st h1
      obtain ⟨p, he, hw, _⟩ := read1_ok _ _ _ _ h1
      by_cases herr : st.hasError = true
      · rw [if_pos herr] at h
        cases t with
        | nil => simp at h
        | cons e2 t2 =>
          simp only at h
          split at h
          · simp at h
          · rename_i st2 h2
            obtain ⟨p2, he2, hw2, _⟩ := write1_ok _ _ _ _ h2
            by_cases herr2 : st2.hasError = true
            · rw [if_pos herr2] at h; simp at h
            · rw [if_neg herr2] at h
              simp only [Prod.mk.injEq, true_and] at h
              subst h
              exact ⟨p, e2 :: t2, by rw [he], hw, Or.inr ⟨p2, by rw [he2], hw2⟩⟩
      · rw [if_neg herr] at h
        simp only [Prod.mk.injEq, true_and] at h
        subst h
        exact ⟨p, t, by rw [he], hw, Or.inl rfl⟩

/-- One CoE mailbox round trip (the exchange under every SDO read/write): the raw response handed
    to the CoE layer is the payload of a mailbox read that came back with working counter 1,
    directly preceded by a "mailbox full" status poll that came back with working counter 1. -/
theorem sdo_checked (tr rest : List Ev) (d : List Nat) (h : mailboxWriteRead tr = (.ok d, rest)) :
    ∃ (pre : List Ev) (pf pd : Pdu), tr = pre ++ .resp pf :: .resp pd :: rest ∧
      pf.wkc = 1 ∧ unpackSmFull pf.data = .ok true ∧ pd.wkc = 1 ∧ d = pd.data := by
  unfold mailboxWriteRead at h
  split at h
  · simp at h
  · rename_i t hclear
    obtain ⟨pre0, hpre0⟩ := clearLoop_suffix _ _ _ _ hclear
    split at h
    · simp at h
    · rename_i t1 hecho
      obtain ⟨polls1, p1, hs1, _, _, _⟩ := waitSm_ok _ _ _ _ hecho
      cases t1 with
      | nil => simp at h
      | cons e t2 =>
        simp only at h
        split at h
        · simp at h
        · split at h
          · simp at h
          · rename_i t3 hresp
            obtain ⟨polls3, pf, hs3, _, hwf, huf⟩ := waitSm_ok _ _ _ _ hresp
            cases t3 with
            | nil => simp at h
            | cons e4 t4 =>
              simp only at h
              split at h
              · simp at h
              · rename_i pd hslice
                obtain ⟨he4, hw4⟩ := slice1_ok _ _ _ hslice
                simp only [Prod.mk.injEq, Res.ok.injEq] at h
                obtain ⟨rfl, rfl⟩ := h
                refine ⟨pre0 ++ (polls1.map Ev.resp ++ [.resp p1]) ++ [e] ++ polls3.map Ev.resp, pf, pd, ?_, hwf, huf, hw4, rfl⟩
                rw [hpre0, hs1, hs3, he4]
                simp

/-- `MainDevice::wait_for_state`: success means the last broadcast read came back with working
    counter = number of SubDevices, reported the desired state and no error bit. -/
theorem md_wait_checked (num desired : Nat) (tr rest : List Ev) (h : mdWaitForState num desired tr = (.ok (), rest)) :
    ∃ (pre : List Ev) (p : Pdu), tr = pre ++ .resp p :: rest ∧ p.wkc = num ∧
      unpackAlControl p.data = .ok ⟨desired, false⟩ :=
  mdWaitForState_ok num desired tr rest h

/-! ### Absent device: no composite path ever succeeds -/

/-- No response in the trace carries working counter 1 (the addressed device is absent / dropped
    out / the wire changed every counter). -/
def NoneAnswered (tr : List Ev) : Prop := ∀ p, Ev.resp p ∈ tr → p.wkc ≠ 1

/-- Against a device that never answers, none of the data-returning paths reports success —
    whatever payload bytes come back. -/
theorem absent_device_never_ok (tr : List Ev) (hno : NoneAnswered tr) :
    (∀ n v rest, registerRead n tr ≠ (.ok v, rest)) ∧
    (∀ n v rest, registerWrite n tr ≠ (.ok v, rest)) ∧
    (∀ v rest, status tr ≠ (.ok v, rest)) ∧
    (∀ rest, requestNowait tr ≠ (.ok (), rest)) ∧
    (∀ d rest, readChunk tr ≠ (.ok d, rest)) ∧
    (∀ rest, writeWord tr ≠ (.ok (), rest)) ∧
    (∀ rest, clearErrors tr ≠ (.ok (), rest)) ∧
    (∀ d rest, mailboxWriteRead tr ≠ (.ok d, rest)) := by
  refine ⟨?_, ?_, ?_, ?_, ?_, ?_, ?_, ?_⟩
  · intro n v rest h
    obtain ⟨p, rfl, hw, _⟩ := (register_access_checked n tr rest v).1 h
    exact hno p (by simp) hw
  · intro n v rest h
    obtain ⟨p, rfl, hw, _⟩ := (register_access_checked n tr rest v).2 h
    exact hno p (by simp) hw
  · intro v rest h
    obtain ⟨p1, _, rfl, hw, _⟩ := status_checked tr rest v.1 v.2 h
    exact hno p1 (by simp) hw
  · intro rest h
    obtain ⟨p, _, rfl, hw, _⟩ := state_request_checked tr rest h
    exact hno p (by simp) hw
  · intro d rest h
    obtain ⟨_, _, _, pd, rfl, _, _, hw, _⟩ := eeprom_read_checked tr rest d h
    exact hno pd (by simp) hw
  · intro rest h
    obtain ⟨_, p, rfl, hw⟩ := eeprom_write_checked tr rest h
    exact hno p (by simp) hw
  · intro rest h
    obtain ⟨p, _, rfl, hw, _⟩ := eeprom_clear_errors_checked tr rest h
    exact hno p (by simp) hw
  · intro d rest h
    obtain ⟨_, _, pd, rfl, _, _, hw, _⟩ := sdo_checked tr rest d h
    exact hno pd (by simp) hw

/-! ### Group transitions -/

/-- The request phase of a group transition is checked: a group with at least one member never
    gets its new typestate from devices that do not answer (the first AL control write fails). -/
theorem group_transition_absent (m : Mode) (pduLen desired a : Nat) (members : List Nat) (tr : List Ev)
    (hno : NoneAnswered tr) (rest : List Ev) (sent : List (List Group.Dg)) :
    Group.transitionTo m pduLen desired (a :: members) tr ≠ (.ok (), rest, sent) := by
  intro h
  unfold Group.transitionTo Group.requestAll at h
  cases tr with
  | nil => simp [Group.requestNowaitL] at h
  | cons e t =>
    unfold Group.requestNowaitL at h
    simp only at h
    cases hsr : WrappedWrite.new.sendReceive (exch none e) unpackAlControl with
    | error er => simp [hsr] at h
    | ok c =>
      obtain ⟨p, he, hw, _⟩ := write1_ok _ _ _ _ hsr
      exact hno p (by rw [he]; simp) hw

/-- The status polls of a group transition are checked too: a transition that returns Ok ended on
    a round in which every member's status datagram came back with working counter 1 (`Reports`
    includes the counter). -/
theorem group_transition_checked (m : Mode) (pduLen desired : Nat) (members : List Nat) (tr rest : List Ev)
    (sent : List (List Group.Dg)) (hm : m = .checked ∨ Group.CHECK_SIZE ≤ pduLen)
    (h : Group.transitionTo m pduLen desired members tr = (.ok (), rest, sent)) :
    ∃ (pre : List Ev) (ps : List Pdu), tr = pre ++ ps.map Ev.resp ++ rest ∧ ps.length = members.length ∧
      ∀ p ∈ ps, p.wkc = 1 := by
  unfold Group.transitionTo at h
  split at h
  · simp at h
  · rename_i t s hreq
    simp only [Prod.mk.injEq] at h
    obtain ⟨pre, ps, h1, h2, h3⟩ := Group.waitLoop_ok m pduLen desired members _ t rest
      (Group.waitForState m pduLen desired members t).2.2 hm (by
        show Group.waitForState m pduLen desired members t = _
        rw [← h.1, ← h.2.1])
    obtain ⟨q, hq⟩ := Group.requestAll_suffix desired members tr _ t s hreq
    exact ⟨q ++ pre, ps, by rw [hq, h1]; simp, h2, fun p hp => (h3 p hp).1⟩

/-- A status poll that was not answered by exactly one device ends `is_state` with
    `WorkingCounter { expected: 1, received }`, whatever its bytes say. -/
theorem group_poll_mismatch_is_error (desired : Nat) (p : Pdu) (ps : List Pdu) (h : p.wkc ≠ 1) :
    Group.checkStates desired (p :: ps) = .error (.workingCounter 1 p.wkc) := by
  simp [Group.checkStates, Pdu.checkWkc, h]

/-- The former witnesses of the gap: a status poll with a foreign counter but bytes saying OP, and a
    member that dropped out after its AL control write (zero payload, counter 0), now both end in the
    working-counter error. -/
theorem group_status_poll_former_witnesses :
    Group.transitionTo .checked 100 8 [0x1000] [.resp ⟨[8, 0], 1⟩, .resp ⟨[8, 0], 2⟩]
      = (.error (.workingCounter 1 2), [], [[.fpwr 0x1000 0x120 8], [.fprd 0x1000 0x130]]) ∧
    Group.transitionTo .checked 100 8 [0x1000] [.resp ⟨[8, 0], 1⟩, .resp ⟨[0, 0], 0⟩]
      = (.error (.workingCounter 1 0), [], [[.fpwr 0x1000 0x120 8], [.fprd 0x1000 0x130]]) := by
  decide

/-! ### The exempt set, as data re-read from the sources (T1) -/

/-- Reviewed `.ignore_wkc()` call sites. Each one is an exemption the property allows ("callers
    that explicitly opt out"); none of them hands data of an unanswered datagram to the user:
    latch_dc_times / write_dc_parameters / configure_dc_sync (DC set-up, C17/C18), reset_subdevices
    (broadcast resets before the device count is known), wait_for_mailboxes (dummy read that only
    empties a stale mailbox; result discarded), MainDevice::wait_for_state (status-code sweep of
    the error branch, only logged), SubDeviceRef::wait_for_state (crate-private, unused by the
    group paths). -/
def reviewedIgnoreWkc : List (String × String) := [
  ("dc.rs", "latch_dc_times"),
  ("dc.rs", "write_dc_parameters"),
  ("dc.rs", "write_dc_parameters"),
  ("mailbox/coe/mod.rs", "wait_for_mailboxes"),
  ("maindevice.rs", "reset_subdevices"),
  ("maindevice.rs", "reset_subdevices"),
  ("maindevice.rs", "reset_subdevices"),
  ("maindevice.rs", "wait_for_state"),
  ("subdevice/mod.rs", "wait_for_state"),
  ("subdevice_group/mod.rs", "configure_dc_sync")]

/-- Reviewed `WrappedWrite::send` call sites (fire-and-forget write, outside the quantifier). The
    ones inside data-returning paths are followed by a checked exchange with the same device
    (`eeprom_read_checked`, `sdo_checked`): read_chunk, write_word ×2, mailbox_write_read,
    send_sdo_info_service; the rest are configuration writes. -/
def reviewedSend : List (String × String) := [
  ("dc.rs", "latch_dc_times"),
  ("dc.rs", "write_dc_parameters"),
  ("dc.rs", "write_dc_parameters"),
  ("eeprom/device_provider.rs", "read_chunk"),
  ("eeprom/device_provider.rs", "write_word"),
  ("eeprom/device_provider.rs", "write_word"),
  ("mailbox/coe/mod.rs", "mailbox_write_read"),
  ("mailbox/coe/mod.rs", "send_sdo_info_service"),
  ("maindevice.rs", "reset_subdevices"),
  ("maindevice.rs", "reset_subdevices"),
  ("maindevice.rs", "reset_subdevices"),
  ("maindevice.rs", "init"),
  ("subdevice/configuration.rs", "write_sm_config"),
  ("subdevice/configuration.rs", "write_fmmu_config"),
  ("subdevice/mod.rs", "set_eeprom_mode"),
  ("subdevice/mod.rs", "set_eeprom_mode"),
  ("subdevice_group/mod.rs", "configure_dc_sync"),
  ("subdevice_group/mod.rs", "configure_dc_sync"),
  ("subdevice_group/mod.rs", "configure_dc_sync"),
  ("subdevice_group/mod.rs", "configure_dc_sync"),
  ("subdevice_group/mod.rs", "configure_dc_sync")]

/-- `receive_wkc`: the counter IS the value (device count, DC static sync). -/
def reviewedReceiveWkc : List (String × String) := [
  ("dc.rs", "run_dc_static_sync"),
  ("maindevice.rs", "count_subdevices")]

/-- Code that consumes raw `ReceivedPdu`s without the builders: `single_pdu` (wrapped by the
    builders), the `tx_rx*` cycle functions (the summed counter is returned to the caller in
    `TxRxResponse`; C07) and `is_state`, which applies `ReceivedPdu::wkc(1)` to every status
    datagram itself (`reviewedRawPduChecked`). -/
def reviewedRawPdu : List (String × String) := [
  ("maindevice.rs", "single_pdu"),
  ("subdevice_group/mod.rs", "is_state"),
  ("subdevice_group/mod.rs", "tx_rx"),
  ("subdevice_group/mod.rs", "tx_rx_sync_system_time"),
  ("subdevice_group/mod.rs", "tx_rx_dc")]

/-- Raw consumers that check the counter of what they consume. -/
def reviewedRawPduChecked : List (String × String) := [("subdevice_group/mod.rs", "is_state")]

/-- Generated obligation: the opt-out sites found in /repo are exactly the reviewed ones. A new
    `.ignore_wkc()`, a new `.send(`, a new raw consumer or a new `receive_wkc` caller changes the
    regenerated list and this stops checking; so does removing the counter check from `is_state`. -/
theorem exempt_sites :
    Gen.Wkc.ignoreWkcSites = reviewedIgnoreWkc ∧ Gen.Wkc.sendSites = reviewedSend ∧
    Gen.Wkc.receiveWkcSites = reviewedReceiveWkc ∧ Gen.Wkc.rawPduSites = reviewedRawPdu ∧
    Gen.Wkc.rawPduSitesChecked = reviewedRawPduChecked := by
  decide

/-- Reviewed call sites of the provider methods above the provider, with the fate of each result.
    ALL are `.await?`: this is what `readLoop`, `rangeRead`, `categoryLoop`, `writeLoopR` translate
    (`| (.error e, t) => (.error (.base e), t)` at every provider call). -/
def reviewedProviderCalls : List (String × String × String × String) := [
  ("eeprom/mod.rs", "read_byte", "clear_errors", "?"),
  ("eeprom/mod.rs", "read_byte", "read_chunk", "?"),
  ("eeprom/mod.rs", "read", "clear_errors", "?"),
  ("eeprom/mod.rs", "read", "read_chunk", "?"),
  ("eeprom/mod.rs", "write", "write_word", "?"),
  ("subdevice/eeprom.rs", "category", "read_chunk", "?")]

/-- Reviewed calls of `EepromRange::{read, read_exact, read_byte, write_all}` by the SubDevice layer.
    `?` = error ends the caller, `ret` = the result is the caller's result (`eeprom_read_raw`),
    `other` = the two item iterators, which match on the `read_exact` result: `UnexpectedEof` is the
    end of the category (`Ok(None)`), `Other(e)` is returned as `Err(e)` — no error is swallowed. -/
def reviewedRangeCalls : List (String × String × String × String) := [
  ("subdevice/eeprom.rs", "station_alias", "read_exact", "?"),
  ("subdevice/eeprom.rs", "set_station_alias", "read_exact", "?"),
  ("subdevice/eeprom.rs", "set_station_alias", "write_all", "?"),
  ("subdevice/eeprom.rs", "set_station_alias", "write_all", "?"),
  ("subdevice/eeprom.rs", "size", "read_exact", "?"),
  ("subdevice/eeprom.rs", "mailbox_config", "read_exact", "?"),
  ("subdevice/eeprom.rs", "general", "read_exact", "?"),
  ("subdevice/eeprom.rs", "identity", "read_exact", "?"),
  ("subdevice/eeprom.rs", "fmmus", "read", "?"),
  ("subdevice/eeprom.rs", "find_string", "read_byte", "?"),
  ("subdevice/eeprom.rs", "find_string", "read_byte", "?"),
  ("subdevice/eeprom.rs", "find_string", "read_byte", "?"),
  ("subdevice/eeprom.rs", "find_string", "read_exact", "?"),
  ("subdevice/eeprom.rs", "next", "read_exact", "other"),
  ("subdevice/eeprom.rs", "next_sub_item", "read_exact", "other"),
  ("subdevice/mod.rs", "eeprom_read_raw", "read", "ret"),
  ("subdevice/mod.rs", "eeprom_read", "read_exact", "?"),
  ("subdevice/mod.rs", "eeprom_write_dangerously", "write_all", "?")]

/-- Generated obligation: the provider / range call sites found in /repo and what happens to their
    results are exactly the reviewed ones. Turning a `.await?` of the chunk loop into anything else
    (a `match` that breaks out with the bytes read so far, `.ok()`, `unwrap_or`) changes the
    regenerated list and this stops checking. -/
theorem eeprom_error_paths :
    Gen.WkcEeprom.providerCalls = reviewedProviderCalls ∧ Gen.WkcEeprom.rangeCalls = reviewedRangeCalls ∧
    (∀ c ∈ Gen.WkcEeprom.providerCalls, c.2.2.2 = "?") := by
  decide

/-- Generated obligation: of the builder methods that go through `common(..)`, exactly `receive`,
    `receive_slice`, `send_receive`, `send_receive_slice` pass the response through
    `maybe_wkc(self.wkc)`; `ReceivedPdu::wkc` compares for equality and reports both counts. -/
theorem checked_methods :
    Gen.Wkc.readMethods = ["receive", "receive_slice", "receive_wkc"] ∧
    Gen.Wkc.readMethodsChecked = ["receive", "receive_slice"] ∧
    Gen.Wkc.writeMethods = ["send", "send_receive", "send_receive_slice"] ∧
    Gen.Wkc.writeMethodsChecked = ["send_receive", "send_receive_slice"] ∧
    Gen.Wkc.wkcCheckShape = true := by
  decide

/-! ### Multi-datagram EEPROM accesses: the paths above the provider

  `EepromRange::read` (one `clear_errors`, then one `read_chunk` per 4/8-byte chunk), `read_exact`,
  `SubDeviceEeprom::fmmus`, `write_all`, and the public `SubDevice::{eeprom_read_raw, eeprom_read,
  eeprom_write_dangerously, set_alias_address}` built on them. The datagrams the property requires to
  be checked on these paths are: every SII status poll (FPRD 0x0502), every data read (FPRD 0x0508)
  and the error-reset write-and-read-back of `clear_errors` (FPWR 0x0502 via `send_receive`). The
  command writes go through `WrappedWrite::send` (documented exempt, `reviewedSend`). -/

/-- Every datagram of a successful `clear_errors` came back with working counter 1. -/
theorem eeprom_clear_serviced (c : List Ev) (h : ClearOk c) : ∀ e ∈ c, ∃ p, e = .resp p ∧ p.wkc = 1 := by
  cases h with
  | clean p hw _ => intro e he; simp at he; exact ⟨p, he, hw⟩
  | reset p p2 hw _ hw2 _ =>
    intro e he
    simp at he
    rcases he with rfl | rfl
    · exact ⟨p, rfl, hw⟩
    · exact ⟨p2, rfl, hw2⟩

/-- `EepromRange::read`, for every window, buffer length, start parity, chunk size and trace: if it
    returns `Ok` then (1) it returns as many bytes as were asked for and lie inside the window —
    never fewer; (2) unless the window was empty (no datagram sent), the datagrams it consumed are
    those of a `clear_errors` all of whose datagrams had working counter 1, followed by chunk reads
    in EVERY one of which every status poll and the data read had working counter 1; (3) the bytes
    are gathered from exactly the payloads of those data reads (`gather`: odd start drops a byte,
    last chunk cut), so every byte returned was delivered by a data read that was serviced. -/
theorem eeprom_range_read_checked (pos endp n : Nat) (tr rest : List Ev) (out : List Nat) (pos' : Nat)
    (h : rangeRead pos endp n tr = (.ok (out, pos'), rest)) :
    out.length = min n (endp - pos) ∧
    ((endp - pos = 0 ∧ rest = tr) ∨
     ∃ (clr : List Ev) (segs : List ChunkSeg), ClearOk clr ∧
       tr = clr ++ (segs.flatMap ChunkSeg.events ++ rest) ∧ (∀ s ∈ segs, s.Checked) ∧
       out = gather pos (min n (endp - pos)) (segs.map fun s => s.data.data) ∧
       (∀ b ∈ out, ∃ s ∈ segs, s.data.wkc = 1 ∧ b ∈ s.data.data)) := by
  refine ⟨rangeRead_ok_length _ _ _ _ _ _ _ h, ?_⟩
  rcases rangeRead_ok _ _ _ _ _ _ _ h with ⟨h0, _, _, hr⟩ | ⟨_, clr, segs, hc, hshape, hchk, hout, _, _⟩
  · exact Or.inl ⟨h0, hr⟩
  · refine Or.inr ⟨clr, segs, hc, hshape, hchk, hout, ?_⟩
    intro b hb
    rw [hout] at hb
    obtain ⟨d, hd, hbd⟩ := gather_subset _ _ _ _ hb
    obtain ⟨s, hs, rfl⟩ := List.mem_map.1 hd
    exact ⟨s, hs, (hchk s hs).2.2, hbd⟩

/-- The window `start_at(word, n)` builds holds the `n` bytes unless it runs into the end of the
    16-bit word address space. -/
theorem eeprom_window (word n : Nat) :
    min n ((startAt word n).2 - (startAt word n).1) = min n (131072 - word * 2) := by
  simp only [startAt, EE_SPACE, Gen.Eeprom.ADDRESS_SPACE_BYTES]
  omega

/-- The public `SubDevice::eeprom_read_raw(word, buf)`: `Ok` only with the whole buffer (as far as
    the address space reaches), every required datagram serviced. -/
theorem eeprom_raw_read_checked (word n : Nat) (tr rest : List Ev) (out : List Nat)
    (h : eeRaw word n 0 n tr = (.ok out, rest)) :
    out.length = min n (131072 - word * 2) ∧
    ((131072 - word * 2 = 0 ∧ rest = tr) ∨ n = 0 ∨
     ∃ (clr : List Ev) (segs : List ChunkSeg), ClearOk clr ∧
       tr = clr ++ (segs.flatMap ChunkSeg.events ++ rest) ∧ (∀ s ∈ segs, s.Checked) ∧
       (∀ b ∈ out, ∃ s ∈ segs, s.data.wkc = 1 ∧ b ∈ s.data.data)) := by
  simp only [eeRaw, if_true] at h
  obtain ⟨pos', h'⟩ := bytesOnly_ok _ _ _ h
  obtain ⟨hl, hrest⟩ := eeprom_range_read_checked _ _ _ _ _ _ _ h'
  rw [eeprom_window] at hl
  refine ⟨hl, ?_⟩
  rcases hrest with ⟨h0, hr⟩ | ⟨clr, segs, hc, hshape, hchk, _, hb⟩
  · simp only [startAt, EE_SPACE, Gen.Eeprom.ADDRESS_SPACE_BYTES] at h0
    by_cases hn : n = 0
    · exact Or.inr (Or.inl hn)
    · exact Or.inl ⟨by omega, hr⟩
  · exact Or.inr (Or.inr ⟨clr, segs, hc, hshape, hchk, hb⟩)

/-- `read_exact`-based reads (`SubDevice::eeprom_read::<T>`, identity, alias, size, mailbox
    configuration): `Ok` always carries exactly the `n` bytes of the type … -/
theorem eeprom_typed_read_never_short (word n : Nat) (tr rest : List Ev) (out : List Nat)
    (h : eeTyped word n tr = (.ok out, rest)) : out.length = n := by
  have := readExactLoop_ok_length _ _ _ _ _ _ _ h
  simpa using this

/-- … and when the window does not hit the end of the address space it is ONE `read`, so
    `eeprom_range_read_checked` applies to it: every required datagram was serviced. -/
theorem eeprom_typed_read_checked (word n : Nat) (tr rest : List Ev) (out : List Nat) (hn : 0 < n)
    (hwin : word * 2 + (n + 1) / 2 * 2 ≤ 131072) (h : eeTyped word n tr = (.ok out, rest)) :
    out.length = n ∧
    ∃ (clr : List Ev) (segs : List ChunkSeg), ClearOk clr ∧
      tr = clr ++ (segs.flatMap ChunkSeg.events ++ rest) ∧ (∀ s ∈ segs, s.Checked) ∧
      (∀ b ∈ out, ∃ s ∈ segs, s.data.wkc = 1 ∧ b ∈ s.data.data) := by
  refine ⟨eeprom_typed_read_never_short _ _ _ _ _ h, ?_⟩
  have hfit : n ≤ (startAt word n).2 - (startAt word n).1 := by
    simp only [startAt, EE_SPACE, Gen.Eeprom.ADDRESS_SPACE_BYTES]; omega
  simp only [eeTyped] at h
  rw [readExact_single _ _ _ _ hn hfit] at h
  obtain ⟨pos', h'⟩ := bytesOnly_ok _ _ _ h
  rcases (eeprom_range_read_checked _ _ _ _ _ _ _ h').2 with ⟨h0, _⟩ | ⟨clr, segs, hc, hshape, hchk, _, hb⟩
  · omega
  · exact ⟨clr, segs, hc, hshape, hchk, hb⟩

/-- Fault propagation through `read`, for EVERY number of chunks already copied and EVERY datagram
    position of the failing chunk read: after a serviced `clear_errors` and any sequence of healthy
    chunk reads that leaves the buffer unfilled (`advance … = some (_, want')`, `want' > 0`), a chunk
    read that fails in any of the ways `ChunkFault` lists — a status poll at any position or the data
    read coming back with working counter `r ≠ 1`, or a lost frame, or the EEPROM deadline — makes
    `read` return exactly that error: `WorkingCounter { expected: 1, received: r }` (resp.
    `Timeout(Pdu)` / `Timeout(Eeprom)`), never `Ok` with the bytes copied so far. The same for a
    failing `clear_errors`. -/
theorem eeprom_fault_propagates (pos endp n : Nat) (clr : List Ev) (segs : List ChunkSeg) (pos' want' : Nat)
    (f : List Ev) (e : Err) (t : List Ev) (h0 : endp - pos ≠ 0) (hc : ClearOk clr) (hh : ∀ s ∈ segs, s.Healthy)
    (hadv : advance pos (min n (endp - pos)) (segs.map fun s => s.data.data) = some (pos', want'))
    (hw : 0 < want') (hp : pos' / 2 < 65536) (hf : ChunkFault f e) :
    rangeRead pos endp n (clr ++ (segs.flatMap ChunkSeg.events ++ (f ++ t))) = (.error (.base e), t) ∧
    ((∃ r, r ≠ 1 ∧ e = .workingCounter 1 r) ∨ e = .timeout .pdu ∨ e = .timeout .eeprom) := by
  refine ⟨rangeRead_fault_chunk pos endp n clr segs pos' want' f e t h0 hc hh hadv hw hp hf, ?_⟩
  cases hf with
  | cmdLost => exact Or.inr (Or.inl rfl)
  | poll _ _ p _ hw' => exact Or.inl ⟨p.wkc, hw', rfl⟩
  | pollLost => exact Or.inr (Or.inl rfl)
  | pollDeadline => exact Or.inr (Or.inr rfl)
  | data _ _ _ p _ _ _ hw' => exact Or.inl ⟨p.wkc, hw', rfl⟩
  | dataLost => exact Or.inr (Or.inl rfl)

theorem eeprom_clear_fault_propagates (pos endp n : Nat) (f : List Ev) (e : Err) (t : List Ev)
    (h0 : endp - pos ≠ 0) (hf : ClearFault f e) :
    rangeRead pos endp n (f ++ t) = (.error (.base e), t) ∧
    ((∃ r, r ≠ 1 ∧ e = .workingCounter 1 r) ∨ e = .timeout .pdu) := by
  refine ⟨rangeRead_fault_clear pos endp n f e t h0 hf, ?_⟩
  cases hf with
  | status p hw => exact Or.inl ⟨p.wkc, hw, rfl⟩
  | statusLost => exact Or.inr rfl
  | reset _ p2 _ _ hw => exact Or.inl ⟨p2.wkc, hw, rfl⟩
  | resetLost => exact Or.inr rfl

/-- The same for the devices that exist and the public entry points: SII reads of `L = 4` or `8`
    bytes, `k` healthy chunks that do not yet cover the `n` bytes asked for (ANY `k` with `L·k < n`),
    then a chunk read that fails: `eeprom_read_raw` and `eeprom_read::<T>` both return the failing
    datagram's error. (A device that drops out after the k-th chunk makes the next status poll come
    back with counter 0: `ChunkFault.poll` with `busy = []`.) -/
theorem eeprom_fault_after_k_chunks (word n L : Nat) (clr : List Ev) (segs : List ChunkSeg) (f : List Ev) (e : Err)
    (t : List Ev) (hL : L = 4 ∨ L = 8) (hc : ClearOk clr) (hh : ∀ s ∈ segs, s.Healthy)
    (hlen : ∀ s ∈ segs, s.data.data.length = L) (hmore : L * segs.length < n)
    (hwin : word * 2 + (n + 1) / 2 * 2 ≤ 131072) (hf : ChunkFault f e) :
    eeRaw word n 0 n (clr ++ (segs.flatMap ChunkSeg.events ++ (f ++ t))) = (.error (.base e), t) ∧
    eeTyped word n (clr ++ (segs.flatMap ChunkSeg.events ++ (f ++ t))) = (.error (.base e), t) := by
  have hL0 : 0 < L := by omega
  have hL2 : L % 2 = 0 := by omega
  have hwinv : (startAt word n).2 - (startAt word n).1 = (n + 1) / 2 * 2 := by
    simp only [startAt, EE_SPACE, Gen.Eeprom.ADDRESS_SPACE_BYTES]; omega
  have hpos : (startAt word n).1 = word * 2 := rfl
  have hmin : min n ((startAt word n).2 - (startAt word n).1) = n := by rw [hwinv]; omega
  have hadv := advance_uniform L hL0 hL2 (segs.map fun s => s.data.data) (word * 2) n (by omega)
    (by intro d hd; obtain ⟨s, hs, rfl⟩ := List.mem_map.1 hd; exact hlen s hs)
    (by rw [List.length_map]; omega) (by rw [List.length_map]; omega)
  rw [List.length_map] at hadv
  have hrr := rangeRead_fault_chunk (startAt word n).1 (startAt word n).2 n clr segs _ _ f e t
    (by rw [hwinv]; omega) hc hh (by rw [hmin, hpos]; exact hadv) (by omega) (by omega) hf
  constructor
  · simp only [eeRaw, if_true, hrr, bytesOnly]
  · simp only [eeTyped]
    rw [readExact_single _ _ _ _ (by omega) (by rw [hwinv]; omega), hrr]
    rfl

/-- A device that answers everything gets its data through: the loop returns exactly what the data
    reads delivered (the theorems above are not vacuous for any number of chunks). -/
theorem eeprom_healthy_read_returns_all (pos endp n : Nat) (clr : List Ev) (segs : List ChunkSeg) (t : List Ev)
    (h0 : endp - pos ≠ 0) (hc : ClearOk clr) (hh : ∀ s ∈ segs, s.Healthy)
    (hf : fills pos (min n (endp - pos)) (segs.map fun s => s.data.data) = true) :
    rangeRead pos endp n (clr ++ (segs.flatMap ChunkSeg.events ++ t))
      = (.ok (gather pos (min n (endp - pos)) (segs.map fun s => s.data.data), pos + min n (endp - pos)), t) :=
  rangeRead_healthy pos endp n clr segs t h0 hc hh hf

/-- `SubDeviceEeprom::fmmus` (one `read` of the whole category): `Ok` means every chunk read of the
    category search was serviced, and — if the category exists — the list has as many entries as
    the category holds (up to the 16 of the buffer, never fewer) and is the decoding of the bytes of
    a `read` to which `eeprom_range_read_checked` applies. -/
theorem eeprom_fmmus_checked (tr rest : List Ev) (us : List Nat) (h : eeFmmus tr = (.ok us, rest)) :
    ∃ walk : List ChunkSeg, (∀ s ∈ walk, s.Checked) ∧
      ((us = [] ∧ tr = walk.flatMap ChunkSeg.events ++ rest) ∨
       ∃ (pos endp : Nat) (t : List Ev) (bytes : List Nat) (pos' : Nat),
         tr = walk.flatMap ChunkSeg.events ++ t ∧
         rangeRead pos endp Gen.Eeprom.FMMU_READ_BUF t = (.ok (bytes, pos'), rest) ∧
         parseFmmus bytes = some us ∧ us.length = min Gen.Eeprom.FMMU_READ_BUF (endp - pos)) := by
  unfold eeFmmus at h
  split at h
  · simp at h
  · rename_i t hwalk
    obtain ⟨walk, hshape, hchk⟩ := categoryLoop_ok _ _ _ _ _ _ hwalk
    simp only [Prod.mk.injEq, ERes.ok.injEq] at h
    obtain ⟨rfl, rfl⟩ := h
    exact ⟨walk, hchk, Or.inl ⟨rfl, hshape⟩⟩
  · rename_i r t hwalk
    obtain ⟨walk, hshape, hchk⟩ := categoryLoop_ok _ _ _ _ _ _ hwalk
    split at h
    · simp at h
    · rename_i bytes pos' t2 hread
      split at h
      · rename_i us' hparse
        simp only [Prod.mk.injEq, ERes.ok.injEq] at h
        obtain ⟨rfl, rfl⟩ := h
        refine ⟨walk, hchk, Or.inr ⟨r.1, r.2, t, bytes, pos', hshape, hread, hparse, ?_⟩⟩
        rw [parseFmmus_length _ _ hparse, rangeRead_ok_length _ _ _ _ _ _ _ hread]
      · simp at h

/-- `fmmus` hands on any failure of the category search's chunk reads and of its `read`: with
    `eeprom_fault_propagates`, a datagram of the category read that is not serviced makes the query
    fail with the working-counter error instead of returning a truncated list. -/
theorem eeprom_fmmus_fault_propagates (tr t t2 : List Ev) (r : Nat × Nat) (e : EErr) (e0 : Err) :
    (categoryLoop Gen.Eeprom.CAT_FMMU Gen.Eeprom.SII_FIRST_CATEGORY_START 0 tr = (.ok (some r), t) →
      rangeRead r.1 r.2 Gen.Eeprom.FMMU_READ_BUF t = (.error e, t2) → eeFmmus tr = (.error e, t2)) ∧
    (readChunk tr = (.error e0, t) → eeFmmus tr = (.error (.base e0), t)) := by
  constructor
  · intro hwalk hread
    unfold eeFmmus
    rw [hwalk]
    simp only [hread]
  · intro hbad
    unfold eeFmmus
    rw [categoryLoop_first_chunk_fault _ _ _ _ _ _ hbad]

/-- Multi-word writes (`eeprom_write_dangerously::<T>`, `write_all`): `Ok` means ALL `⌈n/2⌉` words
    were written and each `write_word` ended on a status poll that came back with working counter 1
    (for every `n > 0`). -/
theorem eeprom_write_all_checked (word n : Nat) (tr rest : List Ev) (hn : 0 < n)
    (hwin : word * 2 + (n + 1) / 2 * 2 ≤ 131072) (h : eeWrite word n tr = (.ok (), rest)) :
    ∃ ws : List (List Ev × Pdu), tr = wordsEvents ws ++ rest ∧ (∀ w ∈ ws, w.2.wkc = 1) ∧
      ws.length = (n + 1) / 2 := by
  have hwinv : (startAt word n).2 - (startAt word n).1 = (n + 1) / 2 * 2 := by
    simp only [startAt, EE_SPACE, Gen.Eeprom.ADDRESS_SPACE_BYTES]; omega
  have hb : List.replicate n 0 ≠ [] := by
    intro hnil
    have := congrArg List.length hnil
    simp at this; omega
  obtain ⟨ws, h1, h2, h3⟩ := writeAllLoop_ok_fits _ _ _ _ _ hb (by rw [hwinv]; simp) h
  exact ⟨ws, h1, h2, by simpa using h3⟩

/-- The write stops at the first word whose `write_word` fails — after ANY number `k` of completed
    words — with that error, e.g. `WorkingCounter { expected: 1, received: r }` of a status poll
    (`write_word_poll_mismatch`). -/
theorem eeprom_write_fault_propagates (word n : Nat) (ws : List (List Ev)) (tail t : List Ev) (e : Err)
    (hok : ∀ w ∈ ws, ∀ x, writeWord (w ++ x) = (.ok (), x)) (hk : ws.length < (n + 1) / 2)
    (hwin : word * 2 + (n + 1) / 2 * 2 ≤ 131072) (hbad : writeWord tail = (.error e, t)) :
    eeWrite word n (ws.flatten ++ tail) = (.error (.base e), t) := by
  have hwinv : (startAt word n).2 - (startAt word n).1 = (n + 1) / 2 * 2 := by
    simp only [startAt, EE_SPACE, Gen.Eeprom.ADDRESS_SPACE_BYTES]; omega
  have hend : (startAt word n).2 = word * 2 + (n + 1) / 2 * 2 := by
    simp only [startAt, EE_SPACE, Gen.Eeprom.ADDRESS_SPACE_BYTES]; omega
  have hpos : (startAt word n).1 = word * 2 := rfl
  have hb : List.replicate n 0 ≠ [] := by
    intro hnil
    have := congrArg List.length hnil
    simp at this; omega
  unfold eeWrite
  apply writeAllLoop_first_write_error _ _ _ _ _ _ hb
  unfold rangeWrite
  rw [if_neg (by rw [hwinv]; omega)]
  exact writeLoopR_stops_at_failing_word ws _ _ _ 0 tail t e hok (by simpa using hk)
    (by rw [hpos, hend]; omega) (by rw [hpos]; omega) hbad

/-- A `write_word` whose first status poll, or whose completion poll after the two (exempt) writes,
    is not serviced fails with the working-counter error. -/
theorem write_word_poll_mismatch (p idle d c : Pdu) (t : List Ev) (hw : p.wkc ≠ 1)
    (hiw : idle.wkc = 1) (hib : SaysBusy false idle) :
    writeWord (.resp p :: t) = (.error (.workingCounter 1 p.wkc), t) ∧
    writeWord (.resp idle :: .resp d :: .resp c :: .resp p :: t) = (.error (.workingCounter 1 p.wkc), t) := by
  obtain ⟨st, hst, hb⟩ := hib
  constructor
  · unfold writeWord
    rw [waitWhileBusy_mismatch _ _ hw]
  · unfold writeWord
    rw [waitWhileBusy_idle _ _ st hiw hst hb]
    simp only
    rw [writeLoop]
    simp only [send_resp]
    split
    · rename_i er t1 heq
      rw [waitWhileBusy_mismatch _ _ hw] at heq
      simp only [Prod.mk.injEq, Res.error.injEq] at heq
      obtain ⟨rfl, rfl⟩ := heq
      rfl
    · rename_i st' t1 heq
      rw [waitWhileBusy_mismatch _ _ hw] at heq
      simp at heq

/-! ### Non-vacuity -/

/-- One chunk read of a healthy device with 4-byte SII reads: command answered, idle at the first
    poll, data `d` — every datagram with working counter 1. -/
def seg4 (d : List Nat) : ChunkSeg := ⟨⟨[0, 1, 0, 0, 0, 0], 1⟩, [], ⟨[0, 0], 1⟩, ⟨d, 1⟩⟩

theorem seg4_healthy (d : List Nat) : (seg4 d).Healthy :=
  ⟨⟨by simp [seg4], rfl, rfl⟩, by simp [seg4],
    ⟨⟨false, false, false, false, false, false⟩, (by decide : unpackSii [0, 0] = .ok ⟨false, false, false, false, false, false⟩), rfl⟩⟩

theorem clear_clean : ClearOk [.resp ⟨[0, 0], 1⟩] :=
  .clean _ rfl ⟨⟨false, false, false, false, false, false⟩, by decide, rfl⟩

/-- A healthy 12-byte `eeprom_read_raw` at word 5 (status read of `clear_errors`, then three chunk
    reads of 4 bytes): all 12 bytes, in order. -/
example : eeRaw 5 12 0 12 (.resp ⟨[0, 0], 1⟩ ::
      ((seg4 [1, 2, 3, 4]).events ++ ((seg4 [5, 6, 7, 8]).events ++ (seg4 [9, 10, 11, 12]).events)))
    = (.ok [1, 2, 3, 4, 5, 6, 7, 8, 9, 10, 11, 12], []) := by
  have h := eeprom_healthy_read_returns_all 10 22 12 [.resp ⟨[0, 0], 1⟩]
    [seg4 [1, 2, 3, 4], seg4 [5, 6, 7, 8], seg4 [9, 10, 11, 12]] [] (by decide) clear_clean
    (by intro s hs; simp at hs; rcases hs with rfl | rfl | rfl <;> exact seg4_healthy _) (by decide)
  have hg : gather 10 (min 12 (22 - 10)) ([seg4 [1, 2, 3, 4], seg4 [5, 6, 7, 8], seg4 [9, 10, 11, 12]].map fun s => s.data.data)
      = [1, 2, 3, 4, 5, 6, 7, 8, 9, 10, 11, 12] := by decide
  rw [hg] at h
  have hs : startAt 5 12 = (10, 22) := by decide
  simp only [eeRaw, if_true, hs]
  simp only [List.flatMap_cons, List.flatMap_nil, List.append_nil, List.cons_append, List.nil_append] at h
  rw [h]
  rfl

/-- The device drops out right after the first chunk of that read (the next command write and status
    poll come back untouched, counter 0): `WorkingCounter { expected: 1, received: 0 }`, not `Ok(4)`. -/
example : eeRaw 5 12 0 12 (.resp ⟨[0, 0], 1⟩ ::
      ((seg4 [1, 2, 3, 4]).events ++ [.resp ⟨[0, 1, 0, 0, 0, 0], 0⟩, .resp ⟨[0, 0], 0⟩]))
    = (.error (.base (.workingCounter 1 0)), []) := by
  have h := (eeprom_fault_after_k_chunks 5 12 4 [.resp ⟨[0, 0], 1⟩] [seg4 [1, 2, 3, 4]]
    [.resp ⟨[0, 1, 0, 0, 0, 0], 0⟩, .resp ⟨[0, 0], 0⟩] (.workingCounter 1 0) [] (Or.inl rfl) clear_clean
    (by intro s hs; simp at hs; subst hs; exact seg4_healthy _) (by intro s hs; simp at hs; subst hs; rfl)
    (by decide) (by decide) (ChunkFault.poll ⟨[0, 1, 0, 0, 0, 0], 0⟩ [] ⟨[0, 0], 0⟩ (by simp) (by decide))).1
  simpa using h

/-- The same drop-out under an `fmmus()` query whose category (6 entries at word 0x42) was found by a
    healthy search: the query fails with the working-counter error, no truncated list. -/
example (walk t : List Ev)
    (hwalk : categoryLoop Gen.Eeprom.CAT_FMMU Gen.Eeprom.SII_FIRST_CATEGORY_START 0 (walk ++ t) = (.ok (some (132, 138)), t))
    (ht : t = .resp ⟨[0, 0], 1⟩ :: ((seg4 [1, 2, 3, 1]).events ++ [.resp ⟨[0, 1, 0, 0, 0, 0], 0⟩, .resp ⟨[0, 0], 0⟩])) :
    eeFmmus (walk ++ t) = (.error (.base (.workingCounter 1 0)), []) := by
  refine (eeprom_fmmus_fault_propagates (walk ++ t) t [] (132, 138) _ (.timeout .pdu)).1 hwalk ?_
  have h := (eeprom_fault_propagates 132 138 16 [.resp ⟨[0, 0], 1⟩] [seg4 [1, 2, 3, 1]] 136 2
    [.resp ⟨[0, 1, 0, 0, 0, 0], 0⟩, .resp ⟨[0, 0], 0⟩] (.workingCounter 1 0) [] (by decide) clear_clean
    (by intro s hs; simp at hs; subst hs; exact seg4_healthy _) (by decide) (by decide) (by decide)
    (ChunkFault.poll ⟨[0, 1, 0, 0, 0, 0], 0⟩ [] ⟨[0, 0], 0⟩ (by simp) (by decide))).1
  rw [ht]
  simpa [Gen.Eeprom.FMMU_READ_BUF] using h

/-- A healthy EEPROM read: command write, one busy poll, one idle poll, 4 data bytes. -/
example : readChunk [.resp ⟨[0, 1, 0x40, 0, 0, 0], 1⟩, .resp ⟨[0, 0x80], 1⟩, .resp ⟨[0, 0], 1⟩,
    .resp ⟨[1, 2, 3, 4], 1⟩] = (.ok [1, 2, 3, 4], []) := by decide

/-- The same with the device gone before the data read: working-counter error with both counts. -/
example : readChunk [.resp ⟨[0, 1, 0x40, 0, 0, 0], 1⟩, .resp ⟨[0, 0], 1⟩, .resp ⟨[0, 0, 0, 0], 0⟩]
    = (.error (.workingCounter 1 0), []) := by decide

/-- Expected counts other than 1: a broadcast read over three devices. -/
example : (WrappedRead.new.withWkc 3).receive (.ok ⟨[8, 0], 3⟩) unpackAlControl = .ok ⟨8, false⟩ ∧
    (WrappedRead.new.withWkc 3).receive (.ok ⟨[8, 0], 2⟩) unpackAlControl = .error (.workingCounter 3 2) := by decide

/-- A healthy mailbox round trip (empty out-mailbox, free in-mailbox, request, one empty poll, one
    full poll, response). -/
example : mailboxWriteRead [.resp ⟨[0], 1⟩, .resp ⟨[0], 1⟩, .resp ⟨[9, 9], 1⟩, .resp ⟨[0], 1⟩, .resp ⟨[8], 1⟩,
    .resp ⟨[7, 7, 7], 1⟩] = (.ok [7, 7, 7], []) := by decide

/-- `status` on a healthy device in OP. -/
example : status [.resp ⟨[8, 0], 1⟩, .resp ⟨[0, 0], 1⟩] = (.ok (8, 0), []) := by decide

end Ec.C11
