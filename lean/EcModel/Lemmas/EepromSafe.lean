/-
  Totality / boundedness calculus for the EEPROM model (C13): a Hoare-style predicate on the cost-counting
  monad and its rules, then one lemma per translated function, for arbitrary memories and both build modes.
-/
import EcModel.Lemmas.EepromBasic

namespace Ec.Eeprom
open Ec

/-- The arithmetic sites of the translated code at which a `u16` overflow is possible. -/
def knownSites : List String :=
  ["new:mul", "new:add", "skip_ahead_bytes:add", "read_byte:add", "category:mul", "category:add",
   "size:add", "size:mul"]

/-- Panic sites that can fire in a build mode: the overflow sites with overflow checks, none without. -/
def sites : Mode → List String
  | .checked => knownSites
  | .wrapping => []

/-- `Tri K hang B Q x`: `x` makes at most `B` provider calls; it runs out of fuel (= does not terminate) only
    if `hang` allows it; if it panics, the site is in `K`; if it returns `a`, then `Q a`. -/
structure Tri {α : Type} (K : List String) (hang : Bool) (B : Nat) (Q : α → Prop) (x : M α) : Prop where
  cost : x.2 ≤ B
  nofuel : hang = false → x.1 ≠ .err .fuel
  panics : ∀ w, x.1 = .panic w → w ∈ K
  post : ∀ a, x.1 = .ok a → Q a

namespace Tri
variable {α β : Type} {K : List String} {hang : Bool}

theorem ret {Q : α → Prop} {a : α} (B : Nat) (h : Q a) : Tri K hang B Q (ret a) := by
  refine ⟨Nat.zero_le _, ?_, ?_, ?_⟩
  · intro _ h'; cases h'
  · intro _ h'; cases h'
  · intro b hb; cases hb; exact h

theorem fail {Q : α → Prop} (B : Nat) (e : Err) (he : e ≠ .fuel) : Tri K hang B Q (fail e : M α) := by
  refine ⟨Nat.zero_le _, ?_, ?_, ?_⟩
  · intro _ h'; cases h'; exact he rfl
  · intro _ h'; cases h'
  · intro _ h'; cases h'

theorem panicAt {Q : α → Prop} (B : Nat) (w : String) (hw : w ∈ K) : Tri K hang B Q (panicAt w : M α) := by
  refine ⟨Nat.zero_le _, ?_, ?_, ?_⟩
  · intro _ h'; cases h'
  · intro w' h'; cases h'; exact hw
  · intro _ h'; cases h'

theorem mono {Q Q' : α → Prop} {B B' : Nat} {x : M α} (h : Tri K hang B Q x) (hB : B ≤ B')
    (hQ : ∀ a, Q a → Q' a) : Tri K hang B' Q' x :=
  ⟨Nat.le_trans h.cost hB, h.nofuel, h.panics, fun a ha => hQ a (h.post a ha)⟩

theorem bind {P : α → Prop} {Q : β → Prop} {B1 B2 : Nat} {x : M α} {f : α → M β}
    (hx : Tri K hang B1 P x) (hf : ∀ a, P a → Tri K hang B2 Q (f a)) :
    Tri K hang (B1 + B2) Q (Eeprom.bind x f) := by
  cases hx1 : x.1 with
  | ok a =>
    have hfa := hf a (hx.post a hx1)
    rw [bind_eq_ok f hx1]
    exact ⟨Nat.add_le_add hx.cost hfa.cost, hfa.nofuel, hfa.panics, hfa.post⟩
  | err e =>
    rw [bind_eq_err f hx1]
    refine ⟨Nat.le_trans hx.cost (Nat.le_add_right _ _), ?_, ?_, ?_⟩
    · intro hh h'; cases h'; exact hx.nofuel hh hx1
    · intro _ h'; cases h'
    · intro _ h'; cases h'
  | panic w =>
    rw [bind_eq_panic f hx1]
    refine ⟨Nat.le_trans hx.cost (Nat.le_add_right _ _), ?_, ?_, ?_⟩
    · intro _ h'; cases h'
    · intro w' h'; cases h'; exact hx.panics w hx1
    · intro _ h'; cases h'

/-- One provider call, then `f`. -/
theorem call {Q : β → Prop} {B : Nat} {a : α} {f : α → M β} (hf : Tri K hang B Q (f a)) :
    Tri K hang (1 + B) Q (Eeprom.bind (Eeprom.call a) f) := by
  rw [bind_call]
  exact ⟨Nat.add_le_add_left hf.cost 1, hf.nofuel, hf.panics, hf.post⟩

theorem addCost {Q : α → Prop} {B : Nat} {x : M α} (n : Nat) (h : Tri K hang B Q x) :
    Tri K hang (n + B) Q (Eeprom.addCost n x) :=
  ⟨Nat.add_le_add_left h.cost n, h.nofuel, h.panics, h.post⟩

/-- A computation known to return `a` with cost at most `B`. -/
theorem of_ok {Q : α → Prop} {B : Nat} {x : M α} {a : α} (h1 : x.1 = .ok a) (h2 : x.2 ≤ B) (hq : Q a) :
    Tri K hang B Q x := by
  refine ⟨h2, ?_, ?_, ?_⟩
  · intro _ h'; rw [h1] at h'; cases h'
  · intro _ h'; rw [h1] at h'; cases h'
  · intro b hb; rw [h1] at hb; cases hb; exact hq

theorem of_err {Q : α → Prop} {B : Nat} {x : M α} {e : Err} (h1 : x.1 = .err e) (h2 : x.2 ≤ B) (he : e ≠ .fuel) :
    Tri K hang B Q x := by
  refine ⟨h2, ?_, ?_, ?_⟩
  · intro _ h'; rw [h1] at h'; cases h'; exact he rfl
  · intro _ h'; rw [h1] at h'; cases h'
  · intro b hb; rw [h1] at hb; cases hb

end Tri

/-! ### arithmetic -/

theorem add16_tri (m : Mode) (hang : Bool) (s : String) (hs : s ∈ knownSites) (a b : Nat) :
    Tri (sites m) hang 0 (fun v => v < 65536 ∧ (m = .checked → v = a + b)) (add16 m s a b) := by
  unfold add16
  split
  · exact Tri.ret 0 ⟨by assumption, fun _ => rfl⟩
  · cases m with
    | checked => exact Tri.panicAt 0 s hs
    | wrapping => exact Tri.ret 0 ⟨Nat.mod_lt _ (by omega), fun h => by cases h⟩

theorem mul16_tri (m : Mode) (hang : Bool) (s : String) (hs : s ∈ knownSites) (a b : Nat) :
    Tri (sites m) hang 0 (fun v => v < 65536 ∧ (m = .checked → v = a * b)) (mul16 m s a b) := by
  unfold mul16
  split
  · exact Tri.ret 0 ⟨by assumption, fun _ => rfl⟩
  · cases m with
    | checked => exact Tri.panicAt 0 s hs
    | wrapping => exact Tri.ret 0 ⟨Nat.mod_lt _ (by omega), fun h => by cases h⟩

/-- A sum that provably fits never panics, in any mode, whatever the site. -/
theorem add16_small {K : List String} {hang : Bool} (m : Mode) (s : String) (a b : Nat) (h : a + b < 65536) :
    Tri K hang 0 (fun v => v = a + b) (add16 m s a b) := by
  rw [add16_ok _ _ _ _ h]; exact Tri.ret 0 rfl

/-! ### `EepromRange` -/

/-- Both fields are `u16` values. -/
def Range.WF (r : Range) : Prop := r.pos < 65536 ∧ r.endp < 65536

theorem new_tri (m : Mode) (hang : Bool) (w n : Nat) :
    Tri (sites m) hang 0 (fun r => r.WF ∧ (m = .checked → r.pos = w * 2 ∧ r.endp = w * 2 + n * 2))
      (Range.new m w n) := by
  unfold Range.new
  have h := Tri.bind (mul16_tri m hang "new:mul" (by decide) w 2) (Q := fun r : Range =>
      r.WF ∧ (m = .checked → r.pos = w * 2 ∧ r.endp = w * 2 + n * 2)) (B2 := 0) (f := fun bp =>
      Eeprom.bind (mul16 m "new:mul" w 2) fun a => Eeprom.bind (mul16 m "new:mul" n 2) fun b =>
      Eeprom.bind (add16 m "new:add" a b) fun e => ret ⟨bp, e⟩) ?_
  · exact h
  · intro bp hbp
    refine (Tri.bind (mul16_tri m hang "new:mul" (by decide) w 2) (B2 := 0) ?_)
    intro a ha
    refine (Tri.bind (mul16_tri m hang "new:mul" (by decide) n 2) (B2 := 0) ?_)
    intro b hb
    refine (Tri.bind (add16_tri m hang "new:add" (by decide) a b) (B2 := 0) ?_)
    intro e he
    refine Tri.ret 0 ⟨⟨hbp.1, he.1⟩, fun hm => ?_⟩
    simp only [hbp.2 hm, ha.2 hm, hb.2 hm, he.2 hm, and_self]

theorem startAt_tri (m : Mode) (hang : Bool) (w n : Nat) :
    Tri (sites m) hang 0 (fun r => r.WF) (startAt m w n) :=
  (new_tri m hang w (n / 2)).mono (Nat.le_refl _) fun _ h => h.1

theorem skip_tri (m : Mode) (hang : Bool) (r : Range) (hr : r.WF) (k : Nat) :
    Tri (sites m) hang 0 (fun r' => r'.WF ∧ r'.endp = r.endp) (Range.skip m r k) := by
  unfold Range.skip
  refine (Tri.bind (add16_tri m hang "skip_ahead_bytes:add" (by decide) r.pos k) (B2 := 0) ?_)
  intro _ _
  refine (Tri.bind (add16_tri m hang "skip_ahead_bytes:add" (by decide) r.pos k) (B2 := 0) ?_)
  intro s _
  split
  · exact Tri.fail 0 _ (by decide)
  · refine (Tri.bind (add16_tri m hang "skip_ahead_bytes:add" (by decide) r.pos k) (B2 := 0) ?_)
    intro s' hs'
    exact Tri.ret 0 ⟨⟨hs'.1, hr.2⟩, rfl⟩

theorem readByte_tri (m : Mode) (hang : Bool) (p : Prov) (hcs : 2 ≤ p.cs) (r : Range) (hr : r.WF) :
    Tri (sites m) hang 2 (fun res => res.1 = p.rd r.pos ∧ res.2.WF ∧ res.2.endp = r.endp)
      (Range.readByte m p r) := by
  unfold Range.readByte clearErrors readChunk
  refine Tri.call (B := 1) ?_
  refine Tri.call (B := 0) ?_
  refine (Tri.bind (add16_tri m hang "read_byte:add" (by decide) r.pos 1) (B2 := 0) ?_)
  intro np hnp
  have hget : (chunkAt p (r.pos / 2))[r.pos % 2]? = some (p.rd r.pos) := by
    unfold chunkAt
    rw [slice_getElem?, if_pos (by omega)]
    congr 2; omega
  rw [hget]
  exact Tri.ret 0 ⟨rfl, ⟨hnp.1, hr.2⟩, rfl⟩

theorem read_tri {K : List String} (m : Mode) (hang : Bool) (p : Prov) (hcs : 2 ≤ p.cs) (r : Range) (hr : r.WF)
    (n : Nat) :
    Tri K hang (n + 1)
      (fun res => res.1 = slice p.rd r.pos (min n (r.endp - r.pos)) ∧ res.2.WF ∧ res.2.endp = r.endp ∧
        res.2.pos = r.pos + min n (r.endp - r.pos))
      (Range.read m p r n) := by
  have h := read_ok m p hcs r n hr.2
  refine Tri.of_ok h.1 (by have := h.2; omega) ⟨rfl, ⟨?_, hr.2⟩, rfl, rfl⟩
  have := hr.1; have := hr.2
  simp only; omega

/-- `read_exact`: either all `n` bytes (`ok`) or `UnexpectedEof`; never a panic, at most `n + 1` calls. -/
theorem readExact_tri {K : List String} (m : Mode) (hang : Bool) (p : Prov) (hcs : 2 ≤ p.cs) (r : Range)
    (hr : r.WF) (n : Nat) :
    Tri K hang (n + 1)
      (fun res => res.1 = slice p.rd r.pos n ∧ res.2.WF ∧ res.2.endp = r.endp ∧ res.2.pos = r.pos + n ∧
        r.pos + n ≤ max r.endp r.pos)
      (Range.readExact m p r n) := by
  by_cases hfit : r.pos + n ≤ r.endp
  · have h := readExact_ok m p hcs r n hr.2 hfit
    refine Tri.of_ok h.1 h.2 ⟨rfl, ⟨?_, hr.2⟩, rfl, rfl, ?_⟩
    · have := hr.2; simp only; omega
    · omega
  · by_cases hn : n = 0
    · subst hn
      refine Tri.of_ok (a := ([], r)) ?_ ?_ ⟨by simp, hr, rfl, rfl, by omega⟩
      · simp [Range.readExact, readExactLoop]
      · simp [Range.readExact, readExactLoop]
    · have h := readExact_eof m p hcs r n hr.2 (by omega) hfit
      exact Tri.of_err h.1 h.2 (by decide)

theorem eofToOverrun_tri {α : Type} {K : List String} {hang : Bool} {B : Nat} {Q : α → Prop} {x : M α}
    (h : Tri K hang B Q x) : Tri K hang B Q (eofToOverrun x) := by
  unfold eofToOverrun
  split
  · refine ⟨h.cost, ?_, ?_, ?_⟩
    · intro _ h'; cases h'
    · intro _ h'; cases h'
    · intro _ h'; cases h'
  · exact h

end Ec.Eeprom
