/-
  EcModel.Init — hand translation of network initialisation:
    `MainDevice::{init, count_subdevices, reset_subdevices, wait_for_state}`   (src/maindevice.rs)
    `SubDevice::new`, `SubDeviceRef::{wait_for_state, set_eeprom_mode, request_subdevice_state}` (src/subdevice/mod.rs)
    `dc::{latch_dc_times, configure_dc, run_dc_static_sync}` (command sequence only)  (src/dc.rs)
    `SubDeviceGroupHandle::push`, `SubDeviceGroupRef::into_pre_op`            (src/subdevice_group/handle.rs)
    `SubDeviceRef::configure_mailboxes` (command sequence only)               (src/subdevice/configuration.rs)
  over the abstract segment of `EcModel.Net`.

  The environment: a ring of responsive devices (every datagram comes back, AL requests are accepted at
  once, a line topology).  Per device the model carries the station address register, the AL status and
  `DevInfo`: what the MainDevice reads from that device's EEPROM and registers.  Everything the
  MainDevice learns about a device it learns through a read addressed to a station address, i.e. from
  whichever devices execute that read (`Net.fpExecutors`) — that is what makes "record i comes from
  device i" a theorem rather than a definition.

  The command trace is kept in two logs whose token types differ: phase 1 (count, reset, address
  assignment) can only emit broadcast and auto-increment commands, everything after it only
  configured-address and broadcast commands — as in the code, where the two loops over
  `0..num_subdevices` are separate (T1 fact `Gen.Init.twoPhase`).  SII EEPROM accesses
  (registers 0x0502..0x050F) are projected to one `sii` token.
-/
import EcModel.Net
import EcModel.Generated.Consts
import EcModel.Generated.Init

namespace Ec.Init

open Ec Ec.Net Ec.Gen.Init

/-- What the MainDevice reads from one device during init. Never written during init. -/
structure DevInfo where
  alias : Nat
  vendor : Nat
  product : Nat
  revision : Nat
  serial : Nat
  /-- order string of the EEPROM (`None`: no General category / no string) -/
  name : Option (List Nat)
  /-- `SupportFlags::dc_support()`: 0 None, 1 RefOnly, 2 Bits64, 3 Bits32 -/
  dc : Nat
  /-- `DefaultMailbox::has_mailbox()` -/
  hasMbx : Bool
  /-- indices of the sync managers of mailbox type, in EEPROM order -/
  mbxSms : List Nat
  deriving Repr, DecidableEq, Inhabited

/-- A device before init: arbitrary (possibly duplicate) station address, arbitrary AL status. -/
structure Dev where
  info : DevInfo
  station : Nat
  al : Nat
  deriving Repr, DecidableEq, Inhabited

/-- `SubDevice` as returned by `SubDevice::new`. -/
structure Record where
  index : Nat
  cfg : Nat
  info : DevInfo
  deriving Repr, DecidableEq, Inhabited

inductive Err where
  | wkc | capSub | capGroup | unknown | timeout
  deriving Repr, DecidableEq

/-- Commands phase 1 can emit. -/
inductive Tok1 where
  | brd (reg : Nat)
  | bwr (reg : Nat)
  | apwr (pos reg : Nat)
  deriving Repr, DecidableEq

/-- Commands everything after phase 1 can emit (`addr` = station address used). -/
inductive Tok2 where
  | fprd (addr reg : Nat)
  | fpwr (addr reg : Nat)
  | sii (addr : Nat)
  | frmw (addr reg : Nat)
  | brd (reg : Nat)
  | bwr (reg : Nat)
  deriving Repr, DecidableEq

/-- Log entries: the command and the ring positions that executed it. -/
abbrev Entry1 := Tok1 × List Nat
abbrev Entry2 := Tok2 × List Nat

/-- `BASE_SUBDEVICE_ADDRESS.wrapping_add(subdevice_idx)`. -/
def cfgAddr (idx : Nat) : Nat := (Ec.Gen.BASE_SUBDEVICE_ADDRESS + idx) % 65536

/-- `reset_subdevices`: the registers blanked by broadcast writes, in order. -/
def resetRegs : List Nat :=
  [REG_AlControl] ++ fmmuRegs ++ smRegs ++
  [REG_DcSystemTime, REG_DcSystemTimeOffset, REG_DcSystemTimeTransmissionDelay, REG_DcSystemTimeDifference,
   REG_DcSyncActive, REG_DcSyncStartTime, REG_DcSync0CycleTime, REG_DcSync1CycleTime,
   REG_DcControlLoopParam3, REG_DcControlLoopParam1]

def resetLog (len : Nat) : List Entry1 := resetRegs.map fun r => (Tok1.bwr r, bExecutors len)

/-- First loop of `init`: `for subdevice_idx in 0..num_subdevices { apwr(idx, 0x0010).send(0x1000 + idx) }`.
    `todo` iterations remain, the next index is `i`. An APWR whose working counter is not 1 aborts. -/
def assignLoop (len : Nat) : Nat → Nat → List Nat → List Entry1 → Outcome Err Unit × List Nat × List Entry1
  | 0, _, stations, log => (.ok (), stations, log)
  | t + 1, i, stations, log =>
    let ex := apExecutors (apAddr i) len
    let stations' := writeAt ex (cfgAddr i) stations
    let log' := log ++ [(Tok1.apwr i REG_ConfiguredStationAddress, ex)]
    if wkc ex ≠ 1 then (.err .wkc, stations', log') else assignLoop len t (i + 1) stations' log'

/-- `SubDevice::new(maindevice, index, configured_address)`. -/
def subdeviceNew (stations als : List Nat) (infos : List DevInfo) (i : Nat) : Outcome Err Record × List Entry2 :=
  let addr := cfgAddr i
  let ex := fpExecutors stations addr
  -- wait_for_state(Init): FPRD AL status, working counter ignored, until the state nibble is Init
  let l0 : List Entry2 := [(.fprd addr REG_AlStatus, ex)]
  if (readLast ex als).map (· % 16) ≠ some 1 then (.err .timeout, l0) else
  -- set_eeprom_mode(Master): two FPWRs that insist on working counter 1
  let l1 := l0 ++ [(.fpwr addr REG_SiiConfig, ex)]
  if wkc ex ≠ 1 then (.err .wkc, l1) else
  let l2 := l1 ++ [(.fpwr addr REG_SiiConfig, ex), (.sii addr, ex), (.fprd addr REG_SupportFlags, ex),
                   (.fprd addr REG_ConfiguredStationAlias, ex), (.fprd addr REG_DlStatus, ex)]
  (.ok ⟨i, addr, (readLast ex infos).getD default⟩, l2)

/-- Second loop of `init`: `SubDevice::new` then `subdevices.push_back(..)` into a `Deque` of `maxSub`. -/
def newLoop (maxSub : Nat) (stations als : List Nat) (infos : List DevInfo) :
    Nat → Nat → List Record → List Entry2 → Outcome Err (List Record) × List Entry2
  | 0, _, acc, log => (.ok acc, log)
  | t + 1, i, acc, log =>
    match subdeviceNew stations als infos i with
    | (.ok r, l) =>
      if acc.length ≥ maxSub then (.err .capSub, log ++ l)
      else newLoop maxSub stations als infos t (i + 1) (acc ++ [r]) (log ++ l)
    | (.err e, l) => (.err e, log ++ l)
    | (.panic s, l) => (.panic s, log ++ l)

/-- `latch_dc_times` second half: per DC device FPRD 0x0918 (working counter ignored), FPRD 0x0900. -/
def dcReadLoop (stations : List Nat) : List Record → List Entry2 → Outcome Err Unit × List Entry2
  | [], log => (.ok (), log)
  | r :: rs, log =>
    let ex := fpExecutors stations r.cfg
    let log' := log ++ [(.fprd r.cfg REG_DcReceiveTime, ex), (.fprd r.cfg REG_DcTimePort0, ex)]
    if wkc ex ≠ 1 then (.err .wkc, log') else dcReadLoop stations rs log'

/-- `write_dc_parameters` for every DC device (working counters ignored). -/
def dcWriteLog (stations : List Nat) (dcs : List Record) : List Entry2 :=
  dcs.flatMap fun r =>
    let ex := fpExecutors stations r.cfg
    [(Tok2.fpwr r.cfg REG_DcSystemTimeOffset, ex), (Tok2.fpwr r.cfg REG_DcSystemTimeTransmissionDelay, ex)]

/-- `configure_dc` + `run_dc_static_sync` as a command sequence (line topology: no topology error). -/
def dcPhase (stations : List Nat) (infos : List DevInfo) (records : List Record) (iters : Nat) :
    Outcome Err Unit × List Entry2 :=
  let dcs := records.filter fun r => r.info.dc ≠ 0
  -- devices without DC do not implement the 0x09xx block: they do not count
  let exB := (bExecutors infos.length).filter fun p => (infos[p]?.map (·.dc)).getD 0 ≠ 0
  let l0 : List Entry2 := [(.bwr REG_DcTimePort0, exB)]
  if wkc exB ≠ dcs.length % 65536 then (.err .wkc, l0) else
  match dcReadLoop stations dcs l0 with
  | (.ok (), l1) =>
    match dcs with
    | [] => (.ok (), l1)
    | ref :: _ =>
      (.ok (), l1 ++ dcWriteLog stations dcs
        ++ List.replicate iters (Tok2.frmw ref.cfg REG_DcSystemTime, fpExecutors stations ref.cfg))
  | (.err e, l1) => (.err e, l1)
  | (.panic s, l1) => (.panic s, l1)

/-- Groups under construction: members per group, capacities, and the ids in first-use order
    (`group_map: FnvIndexMap<_, _, MAX_SUBDEVICES>`). -/
structure Groups where
  members : List (List Record)
  order : List Nat
  deriving Repr

/-- `while let Some(subdevice) = subdevices.pop_front() { group_filter; group.push; group_map.insert }`. -/
def groupLoop (maxSub : Nat) (caps : List Nat) (assign : Record → Option Nat) :
    List Record → Groups → Outcome Err Groups
  | [], g => .ok g
  | r :: rs, g =>
    match assign r with
    | none => .err .unknown
    | some k =>
      if k ≥ g.members.length then .err .unknown else
      if (g.members.getD k []).length ≥ caps.getD k 0 then .err .capSub else
      let members := g.members.modify k (· ++ [r])
      if g.order.contains k then groupLoop maxSub caps assign rs ⟨members, g.order⟩
      else if g.order.length ≥ maxSub then .err .capGroup
      else groupLoop maxSub caps assign rs ⟨members, g.order ++ [k]⟩

/-- `configure_mailboxes` of one SubDevice: EEPROM mode, mailbox sync managers, request PRE-OP, wait. -/
def configureMailboxes (stations als : List Nat) (infos : List DevInfo) (r : Record) :
    Outcome Err (List Nat) × List Entry2 :=
  let ex := fpExecutors stations r.cfg
  let l0 : List Entry2 := [(.fpwr r.cfg REG_SiiConfig, ex)]
  if wkc ex ≠ 1 then (.err .wkc, l0) else
  let info := (readLast ex infos).getD default
  let sms : List Entry2 := if info.hasMbx then info.mbxSms.map fun k => (Tok2.fpwr r.cfg (REG_Sm0 + 8 * k), ex) else []
  let als' := writeAt ex 2 als
  let l1 := l0 ++ [(.fpwr r.cfg REG_SiiConfig, ex), (.sii r.cfg, ex)] ++ sms ++
    [(.fpwr r.cfg REG_SiiConfig, ex), (.fpwr r.cfg REG_SiiConfig, ex), (.fpwr r.cfg REG_AlControl, ex),
     (.fprd r.cfg REG_AlStatus, ex)]
  if (readLast ex als').map (· % 16) ≠ some 2 then (.err .timeout, l1) else
  (.ok als', l1 ++ [(.fpwr r.cfg REG_SiiConfig, ex), (.fpwr r.cfg REG_SiiConfig, ex)])

/-- `SubDeviceGroupRef::into_pre_op`: every member in order. -/
def preopMembers (stations : List Nat) (infos : List DevInfo) :
    List Record → List Nat → List Entry2 → Outcome Err (List Nat) × List Entry2
  | [], als, log => (.ok als, log)
  | r :: rs, als, log =>
    match configureMailboxes stations als infos r with
    | (.ok als', l) => preopMembers stations infos rs als' (log ++ l)
    | (.err e, l) => (.err e, log ++ l)
    | (.panic s, l) => (.panic s, log ++ l)

/-- `for (id, group) in group_map.into_iter() { group.into_pre_op(..) }`. The caller passes the ids in
    iteration order: heapless' `IndexMap::into_iter` pops entries from the back, so that is the REVERSE of
    first-use order (found by the correspondence check; harmless for C09, it only decides which group gets
    which PDI window). -/
def preopGroups (stations : List Nat) (infos : List DevInfo) (members : List (List Record)) :
    List Nat → List Nat → List Entry2 → Outcome Err (List Nat) × List Nat × List Entry2
  | [], als, log => (.ok als, als, log)
  | k :: ks, als, log =>
    match preopMembers stations infos (members.getD k []) als log with
    | (.ok als', log') => preopGroups stations infos members ks als' log'
    | (.err e, log') => (.err e, als, log')
    | (.panic s, log') => (.panic s, als, log')

/-- Result of an `init` run: outcome, final register columns, the two command logs. -/
structure Run where
  result : Outcome Err (List (List Record))
  stations : List Nat
  als : List Nat
  log1 : List Entry1
  log2 : List Entry2
  deriving Repr

/-- Everything after the address assignment loop. Reads `stations`, never writes them. -/
def afterAssign (maxSub : Nat) (caps : List Nat) (assign : Record → Option Nat) (iters n : Nat)
    (stations als : List Nat) (infos : List DevInfo) :
    Outcome Err (List (List Record)) × List Nat × List Entry2 :=
  match newLoop maxSub stations als infos n 0 [] [] with
  | (.err e, l) => (.err e, als, l)
  | (.panic s, l) => (.panic s, als, l)
  | (.ok records, l) =>
    match dcPhase stations infos records iters with
    | (.err e, l2) => (.err e, als, l ++ l2)
    | (.panic s, l2) => (.panic s, als, l ++ l2)
    | (.ok (), l2) =>
      match groupLoop maxSub caps assign records ⟨caps.map fun _ => [], []⟩ with
      | .err e => (.err e, als, l ++ l2)
      | .panic s => (.panic s, als, l ++ l2)
      | .ok g =>
        match preopGroups stations infos g.members g.order.reverse als (l ++ l2) with
        | (.err e, als', l3) => (.err e, als', l3)
        | (.panic s, als', l3) => (.panic s, als', l3)
        | (.ok als', _, l3) =>
          -- wait_for_state(PreOp): BRD AL status, working counter = n, OR of all status words
          let l4 := l3 ++ [(Tok2.brd REG_AlStatus, bExecutors als'.length)]
          if wkc (bExecutors als'.length) ≠ n then (.err .wkc, als', l4)
          else if brdOr als' % 16 ≠ 2 then (.err .timeout, als', l4)
          else (.ok g.members, als', l4)

/-- `MainDevice::init::<MAX_SUBDEVICES, _>(now, groups, group_filter)` on a ring of devices.
    `caps`: capacity of each group; `assign`: the group filter (`none` = `Err(UnknownSubDevice)`);
    `iters`: `dc_static_sync_iterations`. -/
def init (maxSub : Nat) (caps : List Nat) (assign : Record → Option Nat) (iters : Nat) (ring : List Dev) : Run :=
  let stations0 := ring.map (·.station)
  let als0 := ring.map (·.al)
  let infos := ring.map (·.info)
  let len := ring.length
  -- count_subdevices: BRD, the working counter is the count
  let n := wkc (bExecutors len)
  let lBrd : List Entry1 := [(.brd REG_Type, bExecutors len)]
  if n = 0 then ⟨.ok (caps.map fun _ => []), stations0, als0, lBrd, []⟩ else
  -- reset_subdevices: AL control <- INIT + acknowledge, then blanking
  let als1 := writeAt (bExecutors len) 1 als0
  let l1 := lBrd ++ resetLog len
  match assignLoop len n 0 stations0 l1 with
  | (.err e, stations, l1') => ⟨.err e, stations, als1, l1', []⟩
  | (.panic s, stations, l1') => ⟨.panic s, stations, als1, l1', []⟩
  | (.ok (), stations, l1') =>
    let r := afterAssign maxSub caps assign iters n stations als1 infos
    ⟨r.1, stations, r.2.1, l1', r.2.2⟩

/-- The variant the code comment in `init` warns about: ONE loop doing `apwr(i)` immediately followed by
    `SubDevice::new(i)`. Only used to show that the two-phase structure is needed. -/
def onePhaseLoop (len : Nat) (als : List Nat) (infos : List DevInfo) :
    Nat → Nat → List Nat → List Record → Outcome Err (List Record) × List Nat
  | 0, _, stations, acc => (.ok acc, stations)
  | t + 1, i, stations, acc =>
    let ex := apExecutors (apAddr i) len
    let stations' := writeAt ex (cfgAddr i) stations
    if wkc ex ≠ 1 then (.err .wkc, stations') else
    match (subdeviceNew stations' als infos i).1 with
    | .ok r => onePhaseLoop len als infos t (i + 1) stations' (acc ++ [r])
    | .err e => (.err e, stations')
    | .panic s => (.panic s, stations')

end Ec.Init
