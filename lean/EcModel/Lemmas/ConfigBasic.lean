/-
  Helper lemmas for C08 (1/3): the outcome monad, machine arithmetic in `Mode.checked`, exact bit sums,
  `physAt` / contiguity, register-file updates.
-/
import EcModel.Config

namespace Ec.Config
open Ec

/-! ### bind / arith -/

theorem bind_eq_ok {α β : Type} {x : Out α} {f : α → Out β} {b : β} :
    bind x f = .ok b ↔ ∃ a, x = .ok a ∧ f a = .ok b := by
  cases x <;> simp [bind]

theorem arith_checked_ok {w : String} {e b v : Nat} :
    arith .checked w e b = .ok v ↔ e < b ∧ v = e := by
  unfold arith
  by_cases h : e < b
  · simp [h]; exact eq_comm
  · simp [h]

/-- Whenever the overflow-checking build computes a value, the wrapping build computes the same value. -/
theorem arith_mode {w : String} {e b v : Nat} (m : Mode) (h : arith .checked w e b = .ok v) :
    arith m w e b = .ok v := by
  obtain ⟨h1, h2⟩ := arith_checked_ok.1 h
  subst h2
  unfold arith; simp [h1]

theorem add64_ok {a b v : Nat} : add64 .checked a b = .ok v ↔ a + b < 18446744073709551616 ∧ v = a + b := by
  unfold add64 U64; exact arith_checked_ok

theorem mul64_ok {a b v : Nat} : mul64 .checked a b = .ok v ↔ a * b < 18446744073709551616 ∧ v = a * b := by
  unfold mul64 U64; exact arith_checked_ok

theorem add32_ok {a b v : Nat} : add32 .checked a b = .ok v ↔ a + b < 4294967296 ∧ v = a + b := by
  unfold add32 U32; exact arith_checked_ok

theorem subWrap_ok {bd a b v : Nat} : subWrap .checked bd a b = .ok v ↔ b ≤ a ∧ v = a - b := by
  unfold subWrap
  by_cases h : b ≤ a
  · simp [h]; exact eq_comm
  · simp [h]

theorem subWrap_mode {bd a b v : Nat} (m : Mode) (h : subWrap .checked bd a b = .ok v) :
    subWrap m bd a b = .ok v := by
  obtain ⟨h1, h2⟩ := subWrap_ok.1 h
  subst h2
  unfold subWrap; simp [h1]

/-- `div_ceil(8)` is the rounding of the specification. -/
theorem divCeil8_eq (bits : Nat) : divCeil8 bits = (bits + 7) / 8 := by
  unfold divCeil8
  split <;> omega

theorem lenBytes_ok {bits v : Nat} : lenBytes bits = .ok v ↔ (bits + 7) / 8 < 65536 ∧ v = (bits + 7) / 8 := by
  unfold lenBytes U16
  rw [divCeil8_eq]
  by_cases h : (bits + 7) / 8 < 65536
  · simp [h]; exact eq_comm
  · simp [h]

/-- The byte length of a sync manager is either exact or the conversion error — never anything else. -/
theorem lenBytes_cases (bits : Nat) :
    ((bits + 7) / 8 < 65536 ∧ lenBytes bits = .ok ((bits + 7) / 8)) ∨
    (65536 ≤ (bits + 7) / 8 ∧ lenBytes bits = .err .intConv) := by
  unfold lenBytes U16
  rw [divCeil8_eq]
  by_cases h : (bits + 7) / 8 < 65536
  · left; simp [h]
  · right; simp [h]; omega

theorem extendLen_ok {a b v : Nat} : extendLen a b = .ok v ↔ a + b < 65536 ∧ v = a + b := by
  unfold extendLen U16
  by_cases h : a + b < 65536
  · simp [h]; exact eq_comm
  · simp [h]

theorem increment_ok {off bytes v : Nat} :
    increment .checked off bytes = .ok v ↔ off + bytes < 4294967296 ∧ v = off + bytes := by
  unfold increment; exact add32_ok

/-- `PdiOffset::increment_byte_aligned` after the fix: the rounding cannot overflow; only the `u32` address can. -/
theorem incrementByteAligned_ok {off bits v : Nat} :
    incrementByteAligned .checked off bits = .ok v ↔
      off + (bits + 7) / 8 < 4294967296 ∧ v = off + (bits + 7) / 8 := by
  unfold incrementByteAligned
  rw [divCeil8_eq]
  exact increment_ok

/-! ### exact bit sums -/

theorem natSum_append (a b : List Nat) : natSum (a ++ b) = natSum a + natSum b := by
  induction a with
  | nil => simp [natSum]
  | cons x xs ih => simp [natSum, ih]; omega

theorem sumMappings_ok {acc v : Nat} {l : List Nat} (h : sumMappings .checked acc l = .ok v) :
    v = acc + natSum l := by
  induction l generalizing acc with
  | nil => simp [sumMappings] at h; simp [natSum, h]
  | cons b rest ih =>
    simp only [sumMappings] at h
    obtain ⟨a', ha, hr⟩ := bind_eq_ok.1 h
    obtain ⟨_, rfl⟩ := add64_ok.1 ha
    have := ih hr
    simp [natSum]; omega

theorem coeSmBitLen_ok {os : List (Nat × Nat)} {acc v : Nat} {l : List CoePdo}
    (h : coeSmBitLen .checked os acc l = .ok v) : v = acc + coeBitsSpec os l := by
  induction l generalizing acc with
  | nil => simp [coeSmBitLen] at h; simp [coeBitsSpec, natSum, h]
  | cons p rest ih =>
    simp only [coeSmBitLen] at h
    obtain ⟨pl, h1, h⟩ := bind_eq_ok.1 h
    obtain ⟨pl', h2, h⟩ := bind_eq_ok.1 h
    obtain ⟨acc', h3, h⟩ := bind_eq_ok.1 h
    have e1 := sumMappings_ok h1
    obtain ⟨_, rfl⟩ := mul64_ok.1 h2
    obtain ⟨_, rfl⟩ := add64_ok.1 h3
    have := ih h
    simp only [coeBitsSpec, List.map, natSum] at this ⊢
    rw [this, e1]; simp; omega

theorem eepromSmBitLen_ok {os : List (Nat × Nat)} {i acc v : Nat} {l : List Pdo}
    (h : eepromSmBitLen .checked os i acc l = .ok v) : v = acc + eepromBitsSpec os i l := by
  induction l generalizing acc with
  | nil => simp [eepromSmBitLen] at h; simp [eepromBitsSpec, natSum, h]
  | cons p rest ih =>
    simp only [eepromSmBitLen] at h
    by_cases hp : p.sm = i
    · rw [if_pos hp] at h
      obtain ⟨l1, h1, h⟩ := bind_eq_ok.1 h
      obtain ⟨acc', h2, h⟩ := bind_eq_ok.1 h
      obtain ⟨_, rfl⟩ := mul64_ok.1 h1
      obtain ⟨_, rfl⟩ := add64_ok.1 h2
      have := ih h
      simp only [eepromBitsSpec] at this ⊢
      rw [this]
      simp [List.filter, hp, natSum]; omega
    · rw [if_neg hp] at h
      have := ih h
      simp only [eepromBitsSpec] at this ⊢
      rw [this]
      have hb : (p.sm == i) = false := by simp [hp]
      simp [List.filter, hb]

/-! ### register file updates -/

@[simp] theorem setFmmu_fmmu_same (r : Regs) (i : Nat) (f : Fmmu) : (r.setFmmu i f).fmmu i = f := by
  simp [Regs.setFmmu]

theorem setFmmu_fmmu_other (r : Regs) {i j : Nat} (f : Fmmu) (h : j ≠ i) : (r.setFmmu i f).fmmu j = r.fmmu j := by
  simp [Regs.setFmmu, h]

@[simp] theorem setFmmu_sm (r : Regs) (i : Nat) (f : Fmmu) : (r.setFmmu i f).sm = r.sm := rfl

@[simp] theorem setSm_fmmu (r : Regs) (i : Nat) (s : SmReg) : (r.setSm i s).fmmu = r.fmmu := rfl

@[simp] theorem setSm_sm_same (r : Regs) (i : Nat) (s : SmReg) : (r.setSm i s).sm i = s := by
  simp [Regs.setSm]

theorem setSm_sm_other (r : Regs) {i j : Nat} (s : SmReg) (h : j ≠ i) : (r.setSm i s).sm j = r.sm j := by
  simp [Regs.setSm, h]

/-! ### physAt and contiguity -/

/-- Total length of a list of physical ranges. -/
def rangesLen (ws : List (Nat × Nat)) : Nat := natSum (ws.map (·.2))

theorem physAt_some_lt {ws : List (Nat × Nat)} {k p : Nat} (h : physAt ws k = some p) : k < rangesLen ws := by
  induction ws generalizing k with
  | nil => simp [physAt] at h
  | cons w rest ih =>
    obtain ⟨s, n⟩ := w
    simp only [physAt] at h
    simp only [rangesLen, List.map, natSum]
    by_cases hk : k < n
    · omega
    · rw [if_neg hk] at h
      have := ih h
      simp only [rangesLen] at this
      omega

theorem physAt_isSome_of_lt {ws : List (Nat × Nat)} {k : Nat} (h : k < rangesLen ws) : ∃ p, physAt ws k = some p := by
  induction ws generalizing k with
  | nil => simp [rangesLen, natSum] at h
  | cons w rest ih =>
    obtain ⟨s, n⟩ := w
    simp only [physAt]
    simp only [rangesLen, List.map, natSum] at h
    by_cases hk : k < n
    · exact ⟨s + k, by rw [if_pos hk]⟩
    · rw [if_neg hk]
      exact ih (by simp only [rangesLen]; omega)

/-- The ranges follow each other without holes, the next non-empty one starting at `s`
    (empty ranges may sit anywhere). -/
def Contig : Nat → List (Nat × Nat) → Prop
  | _, [] => True
  | s, (st, n) :: rest => if n = 0 then Contig s rest else st = s ∧ Contig (s + n) rest

theorem physAt_contig {s : Nat} {ws : List (Nat × Nat)} {k : Nat} (hc : Contig s ws) (hk : k < rangesLen ws) :
    physAt ws k = some (s + k) := by
  induction ws generalizing s k with
  | nil => simp [rangesLen, natSum] at hk
  | cons w rest ih =>
    obtain ⟨st, n⟩ := w
    simp only [Contig] at hc
    simp only [rangesLen, List.map, natSum] at hk
    simp only [physAt]
    by_cases hn : n = 0
    · rw [if_pos hn] at hc
      subst hn
      simp only [Nat.not_lt_zero, if_false, Nat.sub_zero]
      exact ih hc (by simp only [rangesLen]; omega)
    · rw [if_neg hn] at hc
      obtain ⟨rfl, hc⟩ := hc
      by_cases hkn : k < n
      · rw [if_pos hkn]
      · rw [if_neg hkn]
        rw [ih hc (by simp only [rangesLen]; omega)]
        congr 1; omega

end Ec.Config
