//! C03 — frame slots are always returned: capacity is never lost.
//! Histories of real API operations (several bias profiles, 1/2/4/8 slots) are run on the real
//! storage; then every live handle is disposed of in a random order and the storage is probed with
//! n allocations (+ one more that must fail). The same op lines are replayed on the Lean model
//! (`drv_seq`) and diffed token by token; the monitors below look only at the implementation.
use ecverif::rng::Rng;
use ecverif::seq::H;
use ecverif::seqgen::{Gen, Knobs, response_for};
use ecverif::util::{Report, hex};
use std::collections::BTreeMap;

/// Slot states as `FrameState` discriminants, read through the inspector hook.
fn states(g: &Gen) -> Vec<u8> {
    (0..g.w.n).map(|i| g.w.slot(i).0).collect()
}

struct Mon {
    /// register -> slot of the owner handle it holds (learnt from `al` results)
    slot_of: BTreeMap<u32, usize>,
}

impl Mon {
    fn new() -> Mon {
        Mon { slot_of: BTreeMap::new() }
    }

    /// Run one op through the generator with the implementation-side monitors around it.
    fn op(&mut self, g: &mut Gen, op: String, rep: &mut Report) -> String {
        let before = states(g);
        let out = g.op(op.clone());
        let after = states(g);
        self.check(g, &op, &out, &before, &after, rep);
        out
    }

    /// One step chosen by the adaptive generator, with the same monitors.
    fn random_step(&mut self, g: &mut Gen, rep: &mut Report) {
        let before = states(g);
        let k = g.ops.len();
        if !g.random_step() {
            return;
        }
        let after = states(g);
        let (op, out) = (g.ops[k].clone(), g.outs[k].clone());
        self.check(g, &op, &out, &before, &after, rep);
    }

    /// Implementation-side monitors around one executed op (`before`/`after`: FrameState of every slot).
    fn check(&mut self, g: &Gen, op: &str, out: &str, before: &[u8], after: &[u8], rep: &mut Report) {
        let f: Vec<&str> = op.split(',').collect();
        let reg: Option<u32> = f.get(1).and_then(|s| s.parse().ok());
        rep.hit(&format!("op:{}", f[0]));
        if out.starts_with("panic") {
            rep.fail("c03/panic", "an API operation panicked", &g.line());
        }
        match f[0] {
            "al" => {
                if out == "err.swapstate" {
                    rep.hit("alloc:full");
                    if before.iter().any(|s| *s == 0) {
                        rep.fail("c03/alloc-failed-with-free-slot", "alloc_frame failed although a slot was None", &g.line());
                    }
                } else if let Some(s) = out.strip_prefix("ok.") {
                    let s: usize = s.parse().unwrap();
                    rep.hit("alloc:ok");
                    if before[s] != 0 {
                        rep.fail("c03/alloc-claimed-held-slot", "alloc_frame handed out a slot that was not None", &g.line());
                    }
                    if after[s] != 1 {
                        rep.fail("c03/alloc-state", "allocated slot is not Created", &g.line());
                    }
                    self.slot_of.insert(reg.unwrap(), s);
                } else {
                    rep.fail("c03/alloc-result", "unexpected alloc_frame result", &g.line());
                }
            }
            "dc" => {
                if let Some(s) = reg.and_then(|r| self.slot_of.remove(&r)) {
                    rep.hit(&format!("dropcreated@{}", before[s]));
                    if before[s] != 1 || after[s] != 0 {
                        rep.fail("c03/created-drop-not-released", "dropping an unsent CreatedFrame did not release its slot", &g.line());
                    }
                }
            }
            "df" => {
                if let Some(s) = reg.and_then(|r| self.slot_of.remove(&r)) {
                    rep.hit(&format!("dropfut@{}", before[s]));
                    if after[s] != 0 {
                        rep.fail("c03/fut-drop-not-released", "dropping the future did not release its slot", &g.line());
                    }
                }
            }
            "po" => {
                if let Some(s) = reg.and_then(|r| self.slot_of.get(&r).copied()) {
                    rep.hit(&format!("poll@{}:{}", before[s], out));
                    if out.starts_with("ready.err") {
                        self.slot_of.remove(&reg.unwrap());
                        if after[s] != 0 {
                            rep.fail("c03/timeout-not-released", "a future that resolved to an error kept its slot", &g.line());
                        }
                    }
                }
            }
            "dr" | "dv" | "it" => {
                if let Some(s) = reg.and_then(|r| self.slot_of.remove(&r)) {
                    if after[s] != 0 {
                        rep.fail("c03/response-drop-not-released", "dropping the response did not release its slot", &g.line());
                    }
                }
            }
            "fp" => {
                if !out.starts_with("ok.") {
                    if let Some(s) = reg.and_then(|r| self.slot_of.remove(&r)) {
                        rep.hit("first:rejected");
                        if after[s] != 0 {
                            rep.fail("c03/response-drop-not-released", "a rejected response kept its slot", &g.line());
                        }
                    }
                }
            }
            "ts" => rep.hit(&format!("send:{}", out.split('.').next().unwrap_or(""))),
            "rx" => rep.hit(&format!("rx:{}", out.split('.').take(2).collect::<Vec<_>>().join("."))),
            "rs" => {
                self.slot_of.clear();
                if after.iter().any(|s| *s != 0) {
                    rep.fail("c03/reset-not-empty", "reset left a slot held", &g.line());
                }
            }
            _ => {}
        }
    }
}

/// Dispose of every live handle in a random order, then probe the capacity.
fn drain_and_probe(g: &mut Gen, mon: &mut Mon, rng: &mut Rng, rep: &mut Report) {
    let mut regs: Vec<(u32, u8)> = g
        .w
        .regs
        .iter()
        .map(|(r, h)| {
            (*r, match h {
                H::Created(_) => 0,
                H::Fut(_) => 1,
                H::Sendable(_) => 2,
                H::Received(_) => 3,
                H::View(_) => 4,
            })
        })
        .collect();
    // Fisher-Yates
    for i in (1..regs.len()).rev() {
        let j = rng.below(i as u64 + 1) as usize;
        regs.swap(i, j);
    }
    rep.hit(&format!("drain:handles={}", regs.len().min(6)));
    for (r, kind) in regs {
        rep.hit(&format!("drain:kind{kind}"));
        let op = match kind {
            0 => format!("dc,{r}"),
            1 => format!("df,{r}"),
            2 => format!("ts,{r},{}", rng.below(3)),
            3 => format!("dr,{r}"),
            _ => format!("dv,{r}"),
        };
        mon.op(g, op, rep);
    }
    g.snap();
    let st = states(g);
    if st.iter().any(|s| *s != 0) {
        rep.fail("c03/slot-leaked", &format!("after dropping every handle the slot states are {st:?}"), &g.line());
    }
    // probe: n allocations succeed, the next one fails
    let n = g.w.n;
    for k in 0..n {
        let out = mon.op(g, format!("al,{}", 100 + k), rep);
        if !out.starts_with("ok.") {
            rep.fail("c03/probe-alloc-failed", &format!("allocation {} of {n} after the drain failed", k + 1), &g.line());
        }
    }
    let out = mon.op(g, format!("al,{}", 100 + n), rep);
    if out != "err.swapstate" {
        rep.fail("c03/overallocation", "more than n frames could be allocated", &g.line());
    }
    // and the probe's frames go back as well
    for k in 0..n {
        mon.op(g, format!("dc,{}", 100 + k), rep);
    }
    if states(g).iter().any(|s| *s != 0) {
        rep.fail("c03/slot-leaked", "probe frames were not released", &g.line());
    }
}

fn profiles() -> Vec<(&'static str, Knobs)> {
    let base = Knobs { snap_every_op: false, reset: 0, ..Knobs::default() };
    vec![
        ("balanced", base.clone()),
        ("sendfail", Knobs { txsend_fail: 5, txnext: 16, ..base.clone() }),
        ("lossy", Knobs { rx_genuine: 2, advance: 8, poll: 16, max_retries: 0, ..base.clone() }),
        ("retries", Knobs { rx_genuine: 3, advance: 10, poll: 16, max_retries: 3, ..base.clone() }),
        ("abandon", Knobs { drop_fut: 8, drop_created: 5, read: 6, ..base.clone() }),
        ("noise", Knobs { rx_garbage: 8, rx_genuine: 14, ..base.clone() }),
        ("reset", Knobs { reset: 6, alloc: 4, drop_fut: 4, drop_created: 3, ..base.clone() }),
    ]
}

/// A well-formed EtherCAT frame answering `sent` (same first index) whose payload is larger than the
/// slot's PDU area.
fn oversize_for(sent: &[u8], data: usize, rng: &mut Rng) -> Vec<u8> {
    let mut r = sent[..16].to_vec();
    r[6] = 0x12;
    let l = (data - 16 + rng.range(1, 24) as usize).min(2047);
    r[14..16].copy_from_slice(&((l as u16) | 0x1000).to_le_bytes());
    let idx = if sent.len() >= 18 { sent[17] } else { 0 };
    r.extend([7, idx]);
    r.extend(rng.bytes(l - 2));
    r
}

fn random_case(rng: &mut Rng, n: usize, profile: &(&'static str, Knobs), rep: &mut Report) {
    let data = rng.range(28, 72) as usize;
    let mut g = Gen::new("c03", rng, n, data, profile.1.clone());
    let mut mon = Mon::new();
    rep.hit(&format!("profile:{}", profile.0));
    rep.hit(&format!("slots:{n}"));
    let steps = rng.range(0, 25 + 12 * n as u64);
    for i in 0..steps {
        if !g.sent.is_empty() && rng.chance(1, 25) {
            // a response that does not fit the slot: the claimed slot stays in RxBusy until its
            // owner gives up (the only way into that state in a sequential history)
            let f = g.sent[rng.below(g.sent.len() as u64) as usize].bytes.clone();
            mon.op(&mut g, format!("rx,{}", hex(&oversize_for(&f, data, rng))), rep);
            continue;
        }
        mon.random_step(&mut g, rep);
        if i % 16 == 15 {
            g.snap();
        }
    }
    let timeouts = g.outs.iter().filter(|o| *o == "ready.err.timeout").count();
    let fails = g.outs.iter().filter(|o| o.starts_with("partial.") || o.starts_with("err.ff")).count();
    let mut drng = Rng(rng.next());
    drain_and_probe(&mut g, &mut mon, &mut drng, rep);
    let line = g.line();
    if timeouts + fails > 0 || g.outs.iter().any(|o| o == "ready.ok") {
        rep.nontrivial.insert(line.clone());
    }
    let out = g.out_line();
    rep.case(line, out);
}

// ------------------------------------------------------------------------------------------------
// exhaustive enumeration over one slot

const EX_DATA: usize = 32;

fn ex_gen(prefix: &[String], fi: u8, pi: u8) -> (Gen, Mon, Report) {
    // fixed counters: every node of the tree re-runs its prefix on an identical storage
    ecverif::clock::clear();
    let mut g = Gen {
        rng: Rng(1),
        w: ecverif::seq::World::new(1, EX_DATA, fi, pi),
        ops: vec![],
        outs: vec![],
        sent: vec![],
        pushed: Default::default(),
        knobs: Knobs { snap_every_op: false, ..Knobs::default() },
        key: "c03".to_string(),
        fi,
        pi,
    };
    let mut mon = Mon::new();
    let mut rep = Report::default();
    for op in prefix {
        mon.op(&mut g, op.clone(), &mut rep);
    }
    (g, mon, rep)
}

/// Operations enabled at a node of the 1-slot tree. Register 0 holds the owner handle, registers
/// 1 and 2 the TX side's frames, register 3 is used for allocations that must fail.
fn ex_choices(g: &Gen, depth_left: usize) -> Vec<String> {
    let mut c = Vec::new();
    let _ = depth_left;
    match g.w.regs.get(&0) {
        None => c.push("al,0".to_string()),
        Some(H::Created(_)) => {
            c.push("pu,0,fprd.4096.304,aabb,-".to_string());
            c.push("mk,0,0,10".to_string());
            c.push("mk,0,1,10".to_string());
            c.push("dc,0".to_string());
            c.push("al,3".to_string());
        }
        Some(H::Fut(_)) => {
            c.push("po,0".to_string());
            c.push("df,0".to_string());
            c.push("ad,11".to_string());
            c.push("al,3".to_string());
        }
        Some(H::Received(_)) => {
            c.push("dr,0".to_string());
            let (code, idx) = g.pushed.get(&0).and_then(|v| v.first().copied()).unwrap_or((4, 0));
            c.push(format!("fp,0,{code},{idx}"));
            c.push("it,0,3".to_string());
        }
        Some(H::View(_)) => {
            c.push("dv,0".to_string());
            c.push("vt,0,1".to_string());
        }
        Some(H::Sendable(_)) => {}
    }
    let tx_regs: Vec<u32> = [1u32, 2].iter().copied().filter(|r| g.w.regs.contains_key(r)).collect();
    if let Some(free) = [1u32, 2].iter().find(|r| !g.w.regs.contains_key(r)) {
        c.push(format!("tn,{free}"));
    }
    for r in tx_regs {
        c.push(format!("ts,{r},0"));
        c.push(format!("ts,{r},2"));
    }
    if let Some(f) = g.sent.last() {
        let resp = response_for(&f.bytes, &mut Rng(7));
        c.push(format!("rx,{}", hex(&resp)));
    }
    if g.w.regs.is_empty() && !g.ops.is_empty() {
        c.push("rs".to_string());
    }
    c
}

fn exhaustive(prefix: &mut Vec<String>, depth_left: usize, fi: u8, pi: u8, rep: &mut Report, nodes: &mut u64) {
    let (mut g, mut mon, sub) = ex_gen(prefix, fi, pi);
    let choices = ex_choices(&g, depth_left);
    // every node is a complete history: drain + probe
    let mut local = Report::default();
    let mut drng = Rng(*nodes);
    drain_and_probe(&mut g, &mut mon, &mut drng, &mut local);
    for (k, w, c) in sub.monitor_failures.iter().chain(local.monitor_failures.iter()) {
        rep.fail(k, w, c);
    }
    *nodes += 1;
    for (k, v) in local.dist.iter().chain(sub.dist.iter()) {
        *rep.dist.entry(format!("ex:{k}")).or_insert(0) += v;
    }
    rep.case(g.line(), g.out_line());
    if depth_left == 0 {
        return;
    }
    for ch in choices {
        prefix.push(ch);
        exhaustive(prefix, depth_left - 1, fi, pi, rep, nodes);
        prefix.pop();
    }
}

fn main() {
    let args = ecverif::parse_args();
    let mut rep = Report::default();
    if let Some(cases) = ecverif::replay_cases(&args) {
        for c in cases.iter().filter(|c| c.starts_with("c03 ")) {
            let (out, w) = ecverif::seq::run_line(c);
            // the replayed line ends with drain + probe: re-evaluate the final monitors on it
            let toks: Vec<&str> = out.split(';').collect();
            if toks.iter().any(|t| t.starts_with("panic")) {
                rep.fail("c03/panic", "an API operation panicked", c);
            }
            if (0..w.n).any(|i| w.slot(i).0 != 0) && c.contains(";al,100") {
                rep.fail("c03/slot-leaked", "a slot is still held at the end of the drained and probed history", c);
            }
            rep.case(c.clone(), out);
        }
    } else {
        let thorough = args.tier == "thorough";
        let mut rng = Rng::new(args.seed ^ 0xc03);
        let profs = profiles();
        let cases = if thorough { 120000 } else { 10000 };
        for i in 0..cases {
            let n = [1usize, 2, 4, 8][(i % 4) as usize];
            let p = &profs[(i / 4) as usize % profs.len()];
            random_case(&mut rng, n, p, &mut rep);
        }
        // exhaustive-to-depth over one slot
        let depth: usize = std::env::var("C03_DEPTH").ok().and_then(|s| s.parse().ok()).unwrap_or(if thorough { 8 } else { 6 });
        let mut nodes = 0u64;
        for (fi, pi) in [(0u8, 0u8), (255, 255)] {
            let before = nodes;
            exhaustive(&mut Vec::new(), depth, fi, pi, &mut rep, &mut nodes);
            rep.notes.push(format!("exhaustive 1-slot tree fi={fi} pi={pi}: depth {depth}, {} histories, each drained and probed", nodes - before));
        }
        rep.hit(&format!("exhaustive:nodes={nodes}"));
    }
    rep.write(&args.out, "c03");
}
