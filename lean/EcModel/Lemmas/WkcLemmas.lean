/- Helper lemmas for C11 (working-counter checks). -/
import EcModel.Wkc

namespace Ec.Wkc

theorem exch_ok (r : Option TimeoutKind) (e : Ev) (p : Pdu) : exch r e = .ok p ↔ e = .resp p := by
  cases e <;> cases r <;> simp [exch]

theorem maybeWkc_ok (p q : Pdu) (k : Nat) (h : p.maybeWkc (some k) = .ok q) : q = p ∧ p.wkc = k := by
  simp only [Pdu.maybeWkc, Pdu.checkWkc] at h
  by_cases hw : p.wkc = k
  · rw [if_pos hw] at h; cases h; exact ⟨rfl, hw⟩
  · rw [if_neg hw] at h; cases h

theorem maybeWkc_mismatch (p : Pdu) (k : Nat) (h : p.wkc ≠ k) :
    p.maybeWkc (some k) = .error (.workingCounter k p.wkc) := by
  simp [Pdu.maybeWkc, Pdu.checkWkc, h]

theorem receive_ok {α : Type} (r : WrappedRead) (ex : Exchange) (unpack : List Nat → Res α) (v : α) (k : Nat)
    (hk : r.wkc = some k) (h : r.receive ex unpack = .ok v) :
    ∃ p, ex = .ok p ∧ p.wkc = k ∧ unpack p.data = .ok v := by
  unfold WrappedRead.receive at h
  cases ex with
  | error e => simp at h
  | ok p =>
    simp only [hk, Pdu.maybeWkc, Pdu.checkWkc] at h
    by_cases hw : p.wkc = k
    · rw [if_pos hw] at h; exact ⟨p, rfl, hw, h⟩
    · rw [if_neg hw] at h; simp at h

theorem receiveSlice_ok (r : WrappedRead) (ex : Exchange) (q : Pdu) (k : Nat)
    (hk : r.wkc = some k) (h : r.receiveSlice ex = .ok q) : ex = .ok q ∧ q.wkc = k := by
  unfold WrappedRead.receiveSlice at h
  cases ex with
  | error e => simp at h
  | ok p =>
    rw [hk] at h
    have := maybeWkc_ok p q k h
    exact ⟨by rw [this.1], by rw [this.1]; exact this.2⟩

theorem sendReceive_ok {α : Type} (w : WrappedWrite) (ex : Exchange) (unpack : List Nat → Res α) (v : α) (k : Nat)
    (hk : w.wkc = some k) (h : w.sendReceive ex unpack = .ok v) :
    ∃ p, ex = .ok p ∧ p.wkc = k ∧ unpack p.data = .ok v := by
  unfold WrappedWrite.sendReceive at h
  cases ex with
  | error e => simp at h
  | ok p =>
    simp only [hk, Pdu.maybeWkc, Pdu.checkWkc] at h
    by_cases hw : p.wkc = k
    · rw [if_pos hw] at h; exact ⟨p, rfl, hw, h⟩
    · rw [if_neg hw] at h; simp at h

theorem sendReceiveSlice_ok (w : WrappedWrite) (ex : Exchange) (q : Pdu) (k : Nat)
    (hk : w.wkc = some k) (h : w.sendReceiveSlice ex = .ok q) : ex = .ok q ∧ q.wkc = k := by
  unfold WrappedWrite.sendReceiveSlice at h
  cases ex with
  | error e => simp at h
  | ok p =>
    rw [hk] at h
    have := maybeWkc_ok p q k h
    exact ⟨by rw [this.1], by rw [this.1]; exact this.2⟩

theorem send_ok (w : WrappedWrite) (ex : Exchange) (h : w.send ex = .ok ()) : ∃ p, ex = .ok p := by
  cases ex with
  | error e => simp [WrappedWrite.send] at h
  | ok p => exact ⟨p, rfl⟩

theorem new_read_wkc : WrappedRead.new.wkc = some 1 := by decide
theorem new_write_wkc : WrappedWrite.new.wkc = some 1 := by decide

/-- A default-checked typed read of one event: success pins the event down. -/
theorem read1_ok {α : Type} (r : Option TimeoutKind) (e : Ev) (unpack : List Nat → Res α) (v : α)
    (h : WrappedRead.new.receive (exch r e) unpack = .ok v) :
    ∃ p, e = .resp p ∧ p.wkc = 1 ∧ unpack p.data = .ok v := by
  obtain ⟨p, h1, h2, h3⟩ := receive_ok _ _ _ _ 1 new_read_wkc h
  exact ⟨p, (exch_ok r e p).1 h1, h2, h3⟩

theorem write1_ok {α : Type} (r : Option TimeoutKind) (e : Ev) (unpack : List Nat → Res α) (v : α)
    (h : WrappedWrite.new.sendReceive (exch r e) unpack = .ok v) :
    ∃ p, e = .resp p ∧ p.wkc = 1 ∧ unpack p.data = .ok v := by
  obtain ⟨p, h1, h2, h3⟩ := sendReceive_ok _ _ _ _ 1 new_write_wkc h
  exact ⟨p, (exch_ok r e p).1 h1, h2, h3⟩

theorem slice1_ok (r : Option TimeoutKind) (e : Ev) (q : Pdu)
    (h : WrappedRead.new.receiveSlice (exch r e) = .ok q) : e = .resp q ∧ q.wkc = 1 := by
  obtain ⟨h1, h2⟩ := receiveSlice_ok _ _ _ 1 new_read_wkc h
  exact ⟨(exch_ok r e q).1 h1, h2⟩

/-- Successful `wait_while_busy`: a run of checked busy polls, then one checked idle poll. -/
theorem waitWhileBusy_ok (tr rest : List Ev) (c : SiiControl) (h : waitWhileBusy tr = (.ok c, rest)) :
    ∃ (polls : List Pdu) (p : Pdu), tr = polls.map Ev.resp ++ .resp p :: rest ∧ (∀ q ∈ polls, q.wkc = 1) ∧ p.wkc = 1 ∧
      unpackSii p.data = .ok c ∧ c.busy = false := by
  induction tr with
  | nil => simp [waitWhileBusy] at h
  | cons e t ih =>
    unfold waitWhileBusy at h
    split at h
    · simp at h
    · rename_i c' hc
      obtain ⟨p, he, hw, hu⟩ := read1_ok _ _ _ _ hc
      by_cases hb : c'.busy = true
      · rw [if_pos hb] at h
        obtain ⟨polls, p2, h1, h2, h3, h4, h5⟩ := ih h
        refine ⟨p :: polls, p2, ?_, ?_, h3, h4, h5⟩
        · simp [he, h1]
        · intro q hq
          rcases List.mem_cons.1 hq with rfl | hq
          · exact hw
          · exact h2 q hq
      · rw [if_neg hb] at h
        simp only [Prod.mk.injEq, Res.ok.injEq] at h
        obtain ⟨rfl, rfl⟩ := h
        exact ⟨[], p, by simp [he], by simp, hw, hu, by simpa using hb⟩

/-- Successful SM status poll loop: checked polls, the last one shows the wanted flag. -/
theorem waitSm_ok (k : TimeoutKind) (want : Bool) (tr rest : List Ev) (h : waitSm k want tr = (.ok (), rest)) :
    ∃ (polls : List Pdu) (p : Pdu), tr = polls.map Ev.resp ++ .resp p :: rest ∧ (∀ q ∈ polls, q.wkc = 1) ∧ p.wkc = 1 ∧
      unpackSmFull p.data = .ok want := by
  induction tr with
  | nil => simp [waitSm] at h
  | cons e t ih =>
    unfold waitSm at h
    split at h
    · simp at h
    · rename_i full hc
      obtain ⟨p, he, hw, hu⟩ := read1_ok _ _ _ _ hc
      by_cases hb : full = want
      · rw [if_pos hb] at h
        simp only [Prod.mk.injEq, true_and] at h
        subst h
        exact ⟨[], p, by simp [he], by simp, hw, by rw [hu, hb]⟩
      · rw [if_neg hb] at h
        obtain ⟨polls, p2, h1, h2, h3, h4⟩ := ih h
        refine ⟨p :: polls, p2, ?_, ?_, h3, h4⟩
        · simp [he, h1]
        · intro q hq
          rcases List.mem_cons.1 hq with rfl | hq
          · exact hw
          · exact h2 q hq

/-- The clearing loop only consumes a prefix. -/
theorem clearLoop_suffix (n : Nat) (tr rest : List Ev) (r : Res Unit) (h : clearLoop n tr = (r, rest)) :
    ∃ pre, tr = pre ++ rest := by
  induction n generalizing tr with
  | zero => simp [clearLoop] at h; exact ⟨[], by simp [h.2]⟩
  | succ n ih =>
    cases tr with
    | nil => simp [clearLoop] at h; exact ⟨[], by simp [h.2]⟩
    | cons e t =>
      unfold clearLoop at h
      split at h
      · simp only [Prod.mk.injEq] at h; exact ⟨[e], by simp [h.2]⟩
      · split at h
        · cases t with
          | nil => simp at h; exact ⟨[e], by simp [h.2]⟩
          | cons e2 t2 =>
            simp only at h
            split at h
            · simp only [Prod.mk.injEq] at h; exact ⟨[e, e2], by simp [h.2]⟩
            · obtain ⟨pre, hp⟩ := ih t2 h
              exact ⟨e :: e2 :: pre, by simp [hp]⟩
        · simp only [Prod.mk.injEq] at h; exact ⟨[e], by simp [h.2]⟩

/-- `MainDevice::wait_for_state` said Ok: the last broadcast read was answered by `num` devices,
    reported the state and no error bit. -/
theorem mdWaitForState_ok (num desired : Nat) (tr rest : List Ev) (h : mdWaitForState num desired tr = (.ok (), rest)) :
    ∃ (pre : List Ev) (p : Pdu), tr = pre ++ .resp p :: rest ∧ p.wkc = num ∧
      unpackAlControl p.data = .ok ⟨desired, false⟩ := by
  induction tr with
  | nil => simp [mdWaitForState] at h
  | cons e t ih =>
    simp only [mdWaitForState] at h
    split at h
    · simp at h
    · rename_i st h1
      obtain ⟨p, hex, hw, hu⟩ := receive_ok _ _ _ _ num rfl h1
      have he := (exch_ok _ _ _).1 hex
      by_cases herr : st.error = true
      · rw [if_pos herr] at h
        exfalso
        generalize num = n at h
        clear ih h1 hw hex he hu
        induction n generalizing t with
        | zero => simp [codeSweep] at h
        | succ n ihn =>
          cases t with
          | nil => simp [codeSweep] at h
          | cons e' t' =>
            cases e' with
            | deadline => simp [codeSweep] at h
            | lostDeadline => simp [codeSweep] at h
            | lost => simp only [codeSweep] at h; exact ihn _ h
            | resp q => simp only [codeSweep] at h; exact ihn _ h
      · rw [if_neg herr] at h
        by_cases hst : st.state = desired
        · rw [if_pos hst] at h
          simp only [Prod.mk.injEq, true_and] at h
          subst h
          refine ⟨[], p, by rw [he]; rfl, hw, ?_⟩
          rw [hu]
          cases st with
          | mk s er => simp at herr hst; simp [herr, hst]
        · rw [if_neg hst] at h
          obtain ⟨pre, p2, h1', h2', h3'⟩ := ih h
          exact ⟨e :: pre, p2, by rw [h1']; rfl, h2', h3'⟩

/-- `write_word`'s retry loop said Ok: the last event it consumed is a checked (counter 1) status poll. -/
theorem writeLoop_ok (retries : Nat) (tr : List Ev) :
    ∀ rest, writeLoop retries tr = (.ok (), rest) →
      ∃ (pre : List Ev) (p : Pdu), tr = pre ++ .resp p :: rest ∧ p.wkc = 1 := by
  fun_induction writeLoop retries tr with
  | case1 => intro rest h; simp at h
  | case2 => intro rest h; simp at h
  | case3 => intro rest h; simp at h
  | case4 retries e1 e2 t h1 h2 st t1 hw hcond hlt ih =>
    intro rest h
    obtain ⟨polls, p, hshape, _, _, _, _⟩ := waitWhileBusy_ok _ _ _ hw
    obtain ⟨pre, q, hq, hqw⟩ := ih rest h
    exact ⟨e1 :: e2 :: (polls.map Ev.resp ++ [.resp p]) ++ pre, q, by rw [hshape, hq]; simp, hqw⟩
  | case5 retries e1 e2 t h1 h2 st t1 hw hcond =>
    intro rest h
    obtain ⟨polls, p, hshape, _, hp, _, _⟩ := waitWhileBusy_ok _ _ _ hw
    simp only [Prod.mk.injEq, true_and] at h
    subst h
    exact ⟨e1 :: e2 :: polls.map Ev.resp, p, by rw [hshape]; simp, hp⟩
  | case6 => intro rest h; simp at h
  | case7 => intro rest h; simp at h
  | case8 => intro rest h; simp at h

end Ec.Wkc
