//! A minimal in-process EtherCAT responder used by the DC properties (C17, C18): the real
//! `MainDevice` talks to it through the public `PduTx`/`PduRx` API. Every sent frame is answered
//! immediately, datagram by datagram, by a [`Responder`]; no time passes on the virtual clock, so
//! no timeout can fire. (The full simulated segment lives in `sim/`; this one only knows registers.)
use crate::util::poll_once;
use core::future::Future;
use core::pin::Pin;
use core::task::Poll;
use ethercrab::{MainDevice, MainDeviceConfig, PduRx, PduStorage, PduTx, Timeouts};

pub const APRD: u8 = 1;
pub const APWR: u8 = 2;
pub const FPRD: u8 = 4;
pub const FPWR: u8 = 5;
pub const BRD: u8 = 7;
pub const BWR: u8 = 8;
pub const LRD: u8 = 10;
pub const LWR: u8 = 11;
pub const LRW: u8 = 12;
pub const FRMW: u8 = 14;

/// The devices: called once per datagram, in frame order. `data` is the datagram's data area
/// (request bytes in, response bytes out); the return value is added to the working counter.
pub trait Responder {
    fn on_pdu(&mut self, cmd: u8, adp: u16, ado: u16, data: &mut [u8]) -> u16;
}

/// Turn a transmitted frame into the frame that comes back from the segment.
pub fn respond(frame: &mut [u8], r: &mut dyn Responder) {
    if frame.len() < 16 {
        return;
    }
    // source address must differ from the MainDevice's own, else the frame is taken for an echo
    frame[6] = 0x12;
    let mut p = 16usize;
    loop {
        if p + 12 > frame.len() {
            break;
        }
        let cmd = frame[p];
        let adp = u16::from_le_bytes([frame[p + 2], frame[p + 3]]);
        let ado = u16::from_le_bytes([frame[p + 4], frame[p + 5]]);
        let lf = u16::from_le_bytes([frame[p + 6], frame[p + 7]]);
        let len = (lf & 0x7ff) as usize;
        let more = lf & 0x8000 != 0;
        if p + 12 + len > frame.len() {
            break;
        }
        let wkc = r.on_pdu(cmd, adp, ado, &mut frame[p + 10..p + 10 + len]);
        let w = p + 10 + len;
        let old = u16::from_le_bytes([frame[w], frame[w + 1]]);
        frame[w..w + 2].copy_from_slice(&old.wrapping_add(wkc).to_le_bytes());
        p += 12 + len;
        if !more {
            break;
        }
    }
}

pub struct Net {
    pub tx: PduTx<'static>,
    pub rx: PduRx<'static>,
    pub maindevice: &'static MainDevice<'static>,
    /// number of frames exchanged so far
    pub frames: usize,
}

/// A fresh MainDevice over leaked storage (4 frames of 512 bytes).
pub fn new_net() -> Net {
    let storage: &'static PduStorage<4, 512> = Box::leak(Box::new(PduStorage::new()));
    let (tx, rx, pdu_loop) = storage.try_split().expect("split");
    let maindevice = Box::leak(Box::new(MainDevice::new(pdu_loop, Timeouts::default(), MainDeviceConfig::default())));
    Net { tx, rx, maindevice, frames: 0 }
}

struct WokenFlag(std::sync::atomic::AtomicBool);
impl std::task::Wake for WokenFlag {
    fn wake(self: std::sync::Arc<Self>) {
        self.0.store(true, std::sync::atomic::Ordering::SeqCst);
    }
    fn wake_by_ref(self: &std::sync::Arc<Self>) {
        self.0.store(true, std::sync::atomic::Ordering::SeqCst);
    }
}
thread_local! {
    static TX_WOKEN: std::sync::Arc<WokenFlag> = std::sync::Arc::new(WokenFlag(std::sync::atomic::AtomicBool::new(false)));
}

/// Poll `fut` to completion, answering every frame it sends. `None` = the future is pending
/// although nothing was sent (stuck), which is reported by the callers.
pub fn drive<F: Future>(mut fut: Pin<&mut F>, net: &mut Net, r: &mut dyn Responder) -> Option<F::Output> {
    TX_WOKEN.with(|f| {
        f.0.store(false, std::sync::atomic::Ordering::SeqCst);
        net.tx.replace_waker(&std::task::Waker::from(f.clone()));
    });
    for _ in 0..1_000_000 {
        if let Poll::Ready(v) = poll_once(fut.as_mut()) {
            return Some(v);
        }
        let mut any = false;
        // like a real TX task (`tx_rx_task`): look for sendable frames only after `wake_sender()`
        // woke the registered waker; a frame marked sendable without a wake-up stays unsent (-> stuck)
        if !TX_WOKEN.with(|f| f.0.swap(false, std::sync::atomic::Ordering::SeqCst)) {
            return None;
        }
        TX_WOKEN.with(|f| net.tx.replace_waker(&std::task::Waker::from(f.clone())));
        while let Some(sf) = net.tx.next_sendable_frame() {
            let mut bytes = Vec::new();
            let _ = sf.send_blocking(|b| {
                bytes = b.to_vec();
                Ok(b.len())
            });
            respond(&mut bytes, r);
            let _ = net.rx.receive_frame(&bytes);
            net.frames += 1;
            any = true;
        }
        if !any {
            return None;
        }
    }
    None
}

static LAST_PANIC: std::sync::Mutex<String> = std::sync::Mutex::new(String::new());

/// Replace the panic hook by one that records the message (and location) of the last panic, so a
/// case can report *which* panic the implementation hit.
pub fn install_panic_capture() {
    std::panic::set_hook(Box::new(|info| {
        let msg = if let Some(s) = info.payload().downcast_ref::<&str>() {
            s.to_string()
        } else if let Some(s) = info.payload().downcast_ref::<String>() {
            s.clone()
        } else {
            "?".to_string()
        };
        let loc = info.location().map(|l| format!(" @{}:{}", l.file(), l.line())).unwrap_or_default();
        if std::env::var_os("VERIF_PANIC_VERBOSE").is_some() {
            eprintln!("panic: {msg}{loc}");
        }
        *LAST_PANIC.lock().unwrap_or_else(|e| e.into_inner()) = msg + &loc;
    }));
}

/// Message of the last caught panic (cleared by the call).
pub fn take_panic() -> String {
    std::mem::take(&mut *LAST_PANIC.lock().unwrap_or_else(|e| e.into_inner()))
}
