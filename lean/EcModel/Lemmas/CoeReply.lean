/-
  C15 helper lemmas: what the client's decoders and `mailbox_write_read` do on one well-formed reply.
-/
import EcModel.Lemmas.CoeTotal
import EcModel.Lemmas.CoeInside
import EcModel.CoeHonest

namespace Ec.Coe
open Ec Ec.Gen.Coe

/-! ### Constants from the generated tables -/

theorem mbxCoe_eq : mbxCoe = 3 := by decide
theorem svcEmergency_eq : svcEmergency = 1 := by decide
theorem svcSdoRequest_eq : svcSdoRequest = 2 := by decide
theorem cmdUpload_eq : cmdUpload = 2 := by decide
theorem cmdDownload_eq : cmdDownload = 1 := by decide
theorem cmdAbort_eq : cmdAbort = 4 := by decide
theorem cmdUploadSegment_eq : cmdUploadSegment = 3 := by decide

theorem validDisc_priority (x : Nat) : validDisc priority (bitsOf x 6 2) = true := by
  have h : bitsOf x 6 2 < 4 := by unfold bitsOf; omega
  generalize bitsOf x 6 2 = p at h
  have : p = 0 ∨ p = 1 ∨ p = 2 ∨ p = 3 := by omega
  rcases this with rfl | rfl | rfl | rfl <;> decide

/-! ### Mailbox images -/

theorem image_of_le (mbx : Nat) (m : List Nat) (h : m.length ≤ mbx) : image mbx m = m ++ zeros (mbx - m.length) := by
  unfold image
  apply List.take_of_length_le
  simp [zeros]; omega

/-! ### Decoders on a message in cons form -/

theorem unpackHeadersRaw_cons (l0 l1 a2 a3 a4 a5 a6 a7 a8 a9 a10 a11 : Nat) (tl : List Nat)
    (hty : validDisc mailboxType (bitsOf a5 0 4) = true) (hsvc : validDisc coeService (bitsOf a7 4 4) = true)
    (hcmd : validDisc coeCommand (bitsOf a8 5 3) = true) :
    unpackHeadersRaw (l0 :: l1 :: a2 :: a3 :: a4 :: a5 :: a6 :: a7 :: a8 :: a9 :: a10 :: a11 :: tl) =
      .ok { header := { length := l0 + 256 * l1, priority := bitsOf a4 6 2, mailboxType := bitsOf a5 0 4,
                        counter := bitsOf a5 4 3 },
            service := bitsOf a7 4 4, command := bitsOf a8 5 3, address := a9 + 256 * a10, subIndex := a11 } := by
  simp [unpackHeadersRaw, unpackMailboxHeader, unpackService, unpackCommand, LEN_HeadersRaw, LEN_MailboxHeader,
    validDisc_priority, hty, hsvc, hcmd, rd16]

theorem unpackCoeHeaders_cons (l0 l1 a2 a3 a4 a5 a6 a7 : Nat) (tl : List Nat)
    (hty : validDisc mailboxType (bitsOf a5 0 4) = true) (hsvc : validDisc coeService (bitsOf a7 4 4) = true) :
    unpackCoeHeaders (l0 :: l1 :: a2 :: a3 :: a4 :: a5 :: a6 :: a7 :: tl) =
      .ok ({ length := l0 + 256 * l1, priority := bitsOf a4 6 2, mailboxType := bitsOf a5 0 4, counter := bitsOf a5 4 3 },
           bitsOf a7 4 4) := by
  simp [unpackCoeHeaders, unpackMailboxHeader, unpackService, LEN_CoeHeadersRaw, LEN_MailboxHeader, validDisc_priority,
    hty, hsvc, rd16]

theorem unpackSdoNormal_cons (l0 l1 a2 a3 a4 a5 a6 a7 a8 a9 a10 a11 : Nat) (tl : List Nat)
    (hty : validDisc mailboxType (bitsOf a5 0 4) = true) (hsvc : validDisc coeService (bitsOf a7 4 4) = true)
    (hcmd : validDisc coeCommand (bitsOf a8 5 3) = true) :
    unpackSdoNormal (l0 :: l1 :: a2 :: a3 :: a4 :: a5 :: a6 :: a7 :: a8 :: a9 :: a10 :: a11 :: tl) =
      .ok { header := { length := l0 + 256 * l1, priority := bitsOf a4 6 2, mailboxType := bitsOf a5 0 4,
                        counter := bitsOf a5 4 3 },
            service := bitsOf a7 4 4, sizeIndicator := bitsOf a8 0 1 != 0, expedited := bitsOf a8 1 1 != 0,
            size := bitsOf a8 2 2, completeAccess := bitsOf a8 4 1 != 0, command := bitsOf a8 5 3,
            index := a9 + 256 * a10, subIndex := a11 } := by
  simp [unpackSdoNormal, unpackMailboxHeader, unpackService, unpackCommand, LEN_SdoNormal, LEN_MailboxHeader,
    validDisc_priority, hty, hsvc, hcmd, rd16]

/-! ### mailbox_write_read when the device answers with exactly one message -/

/-- `mailbox_write_read` when the device answers with at least one message: the first one is triaged, the others stay
    queued in the device. -/
theorem mwr_head {σ ρ : Type} (w : World σ) (cfg : Cfg) (req : List Nat) (u : List Nat → Res ρ) (v : Nat → Nat → Bool)
    (s : St σ) (d' : σ) (m : List Nat) (rest : List (List Nat)) (hm : cfg.hasMailbox = true)
    (hq : s.outq.length ≤ DRAIN_ROUNDS) (hr : w.respond s.dev (image cfg.wmbx req) = (d', m :: rest)) :
    mailboxWriteRead w cfg req u v s =
      (triage cfg u v (mkPdu cfg (image cfg.rmbx m)),
        { ctr := s.ctr, dev := d', outq := rest, reqs := s.reqs ++ [image cfg.wmbx req],
          reads := s.reads + s.outq.length + 1 }) := by
  unfold mailboxWriteRead
  rw [if_neg (by simp [hm])]
  have hdrop : s.outq.drop DRAIN_ROUNDS = [] := List.drop_eq_nil_of_le hq
  simp only [drainStale, writeRequest, readMailbox, hr, hdrop, List.nil_append, Nat.min_eq_right hq]

theorem mwr_single {σ ρ : Type} (w : World σ) (cfg : Cfg) (req : List Nat) (u : List Nat → Res ρ) (v : Nat → Nat → Bool)
    (s : St σ) (d' : σ) (m : List Nat) (hm : cfg.hasMailbox = true) (hq : s.outq.length ≤ DRAIN_ROUNDS)
    (hr : w.respond s.dev (image cfg.wmbx req) = (d', [m])) :
    mailboxWriteRead w cfg req u v s =
      (triage cfg u v (mkPdu cfg (image cfg.rmbx m)),
        { ctr := s.ctr, dev := d', outq := [], reqs := s.reqs ++ [image cfg.wmbx req],
          reads := s.reads + s.outq.length + 1 }) :=
  mwr_head w cfg req u v s d' m [] hm hq hr

/-! ### Bit fields of the bytes an honest server sends -/

theorem bits_type (c : Nat) : bitsOf (3 + 16 * (c % 8)) 0 4 = 3 := by unfold bitsOf; omega
theorem bits_ctr (c : Nat) : bitsOf (3 + 16 * (c % 8)) 4 3 = c % 8 := by unfold bitsOf; omega
theorem bits_prio0 : bitsOf 0 6 2 = 0 := by decide
theorem bits_svc (s : Nat) (h : s < 16) : bitsOf (16 * s) 4 4 = s := by unfold bitsOf; omega

theorem completeBit_cases (c : Bool) : CoeSrv.completeBit c = 0 ∧ c = false ∨ CoeSrv.completeBit c = 16 ∧ c = true := by
  cases c <;> simp [CoeSrv.completeBit]

/-- Command byte of an expedited upload response for `n` data bytes. -/
theorem bits_expedited (n : Nat) (c : Bool) (h1 : 1 ≤ n) (h4 : n ≤ 4) :
    bitsOf (0x43 + 4 * (4 - n) + CoeSrv.completeBit c) 0 1 = 1 ∧
    bitsOf (0x43 + 4 * (4 - n) + CoeSrv.completeBit c) 1 1 = 1 ∧
    bitsOf (0x43 + 4 * (4 - n) + CoeSrv.completeBit c) 2 2 = 4 - n ∧
    (bitsOf (0x43 + 4 * (4 - n) + CoeSrv.completeBit c) 4 1 != 0) = c ∧
    bitsOf (0x43 + 4 * (4 - n) + CoeSrv.completeBit c) 5 3 = 2 := by
  rcases completeBit_cases c with ⟨hc, rfl⟩ | ⟨hc, rfl⟩ <;> rw [hc] <;> unfold bitsOf <;>
    refine ⟨by omega, by omega, by omega, ?_, by omega⟩
  · simp; omega
  · simp; omega

/-- Command byte of a normal upload response. -/
theorem bits_normal (c : Bool) :
    bitsOf (0x41 + CoeSrv.completeBit c) 0 1 = 1 ∧
    bitsOf (0x41 + CoeSrv.completeBit c) 1 1 = 0 ∧
    bitsOf (0x41 + CoeSrv.completeBit c) 2 2 = 0 ∧
    (bitsOf (0x41 + CoeSrv.completeBit c) 4 1 != 0) = c ∧
    bitsOf (0x41 + CoeSrv.completeBit c) 5 3 = 2 := by
  cases c <;> decide

theorem le16_index (index : Nat) (h : index < 65536) : index % 256 + 256 * (index / 256 % 256) = index := by omega

end Ec.Coe
