/-
  Helper lemmas for C08 (4/4): totality of the configuration arithmetic after the repair of
  c08/pdo-bit-length-u16-overflow.

  `Safe f`: the mode-indexed computation `f` never panics and gives the same outcome in every build mode.
  `Device.TypesOk`: the numbers of a description fit the Rust types they are read into (nothing else).
  Under `TypesOk` the `u64` bit sums cannot overflow, the byte length is `ok` or `Err.intConv`, and the only
  unchecked operation left is the `u32` logical address, which needs thousands of devices to overflow.
-/
import EcModel.Lemmas.ConfigGroup

namespace Ec.Config
open Ec

/-! ### the calculus -/

/-- Never a panic, and the same outcome (value or error) in the overflow-checking and the wrapping build. -/
def Safe {α : Type} (f : Mode → Out α) : Prop :=
  (∀ w, f .checked ≠ .panic w) ∧ ∀ m, f m = f .checked

theorem Safe.const {α : Type} {x : Out α} (h : ∀ w, x ≠ .panic w) : Safe (fun _ => x) :=
  ⟨h, fun _ => rfl⟩

theorem Safe.ok {α : Type} (a : α) : Safe (fun _ => (.ok a : Out α)) :=
  Safe.const (by intro w h; cases h)

theorem Safe.err {α : Type} (e : Err) : Safe (fun _ => (.err e : Out α)) :=
  Safe.const (by intro w h; cases h)

theorem Safe.bind {α β : Type} {x : Mode → Out α} {g : Mode → α → Out β} (hx : Safe x)
    (hg : ∀ a, x .checked = .ok a → Safe (fun m => g m a)) : Safe (fun m => Config.bind (x m) (g m)) := by
  obtain ⟨hx1, hx2⟩ := hx
  cases hc : x .checked with
  | ok a =>
    obtain ⟨hg1, hg2⟩ := hg a hc
    refine ⟨?_, ?_⟩
    · intro w; simp only [hc, Config.bind]; exact hg1 w
    · intro m; simp only [hx2 m, hc, Config.bind]; exact hg2 m
  | err e =>
    refine ⟨?_, ?_⟩
    · intro w; simp [hc, Config.bind]
    · intro m; simp only [hx2 m, hc, Config.bind]
  | panic w => exact absurd hc (hx1 w)

theorem Safe.arith {w : String} {e b : Nat} (h : e < b) : Safe (fun m => arith m w e b) := by
  refine ⟨?_, ?_⟩
  · intro w'; unfold Config.arith; simp [h]
  · intro m; unfold Config.arith; simp [h]

theorem Safe.subWrap {bd a b : Nat} (h : b ≤ a) : Safe (fun m => subWrap m bd a b) := by
  refine ⟨?_, ?_⟩
  · intro w'; unfold Config.subWrap; simp [h]
  · intro m; unfold Config.subWrap; simp [h]

theorem lenBytes_no_panic (bits : Nat) (w : String) : lenBytes bits ≠ .panic w := by
  unfold lenBytes; split <;> intro h <;> cases h

theorem extendLen_no_panic (a b : Nat) (w : String) : extendLen a b ≠ .panic w := by
  unfold extendLen; split <;> intro h <;> cases h

/-! ### what the Rust types guarantee -/

/-- The numbers of a device description fit the Rust types the MainDevice reads them into. -/
structure Device.TypesOk (d : Device) : Prop where
  /-- `DefaultMailbox::{subdevice_receive_size, subdevice_send_size}: u16`. -/
  mbx : d.mailbox.recvSize < 65536 ∧ d.mailbox.sendSize < 65536
  /-- `oversampling_config: &[(u16, u16)]`. -/
  os : ∀ p ∈ d.oversampling, p.2 < 65536
  /-- `heapless::Vec<Pdo, 64>` (more: `Error::Capacity`, C13 `collections_bounded`), `Pdo::bit_len: u16`. -/
  tx : d.txPdos.length ≤ 64 ∧ ∀ p ∈ d.txPdos, p.bitLen < 65536
  rx : d.rxPdos.length ≤ 64 ∧ ∀ p ∈ d.rxPdos, p.bitLen < 65536
  /-- sub-index 0 of an assignment / mapping object is read as `u8`; `Mapping::mapping_bit_len: u8`. -/
  coe : ∀ i pdos, d.coe i = some pdos →
    pdos.length ≤ 255 ∧ ∀ p ∈ pdos, p.mappings.length ≤ 255 ∧ ∀ b ∈ p.mappings, b < 256

theorem oversamplingOf_lt {os : List (Nat × Nat)} (h : ∀ p ∈ os, p.2 < 65536) (i : Nat) :
    oversamplingOf os i < 65536 := by
  unfold oversamplingOf
  split
  · rename_i p hp
    exact h p (List.mem_of_find?_eq_some hp)
  · omega

theorem natSum_le_bound {l : List Nat} {B : Nat} (h : ∀ x ∈ l, x ≤ B) : natSum l ≤ B * l.length := by
  induction l with
  | nil => simp [natSum]
  | cons x rest ih =>
    have h1 := h x (by simp)
    have h2 := ih (fun y hy => h y (by simp [hy]))
    simp only [natSum, List.length_cons, Nat.mul_add, Nat.mul_one]
    omega

/-- `omega` must not be asked to eliminate a variable with a large literal coefficient (it exhausts the
    recursion depth); the lemmas below therefore carry the step size as a variable `K` bounded from below. -/
theorem mul_len_lt {K n N B acc : Nat} (hn : n ≤ N) (hB : acc + K * N < B) : acc + K * n < B := by
  have := Nat.mul_le_mul_left K hn
  omega

/-! ### bit sums: `u64` is wide enough -/

theorem sumMappings_safe : ∀ (l : List Nat) (acc : Nat), acc + 255 * l.length < 18446744073709551616 →
    (∀ b ∈ l, b < 256) → Safe (fun m => sumMappings m acc l) := by
  intro l
  induction l with
  | nil => intro acc _ _; simp only [sumMappings]; exact Safe.ok acc
  | cons b rest ih =>
    intro acc hacc hb
    simp only [sumMappings]
    have hb0 := hb b (by simp)
    simp only [List.length_cons] at hacc
    refine Safe.bind (Safe.arith (by unfold U64; omega)) ?_
    intro a ha
    obtain ⟨_, rfl⟩ := add64_ok.1 ha
    exact ih _ (by omega) (fun y hy => hb y (by simp [hy]))

theorem mul_le_bound {a b A B : Nat} (ha : a ≤ A) (hb : b ≤ B) : a * b ≤ A * B := Nat.mul_le_mul ha hb

theorem coeSmBitLen_safe {os : List (Nat × Nat)} (hos : ∀ p ∈ os, p.2 < 65536) :
    ∀ (K : Nat), 4261413375 ≤ K →
    ∀ (l : List CoePdo) (acc : Nat), acc + K * l.length < 18446744073709551616 →
    (∀ p ∈ l, p.mappings.length ≤ 255 ∧ ∀ b ∈ p.mappings, b < 256) →
    Safe (fun m => coeSmBitLen m os acc l) := by
  intro K hK l
  induction l with
  | nil => intro acc _ _; simp only [coeSmBitLen]; exact Safe.ok acc
  | cons p rest ih =>
    intro acc hacc hp
    simp only [coeSmBitLen]
    obtain ⟨hl, hb⟩ := hp p (by simp)
    simp only [List.length_cons, Nat.mul_add, Nat.mul_one] at hacc
    refine Safe.bind (sumMappings_safe _ _ (by omega) hb) ?_
    intro pl hpl
    have e1 := sumMappings_ok hpl
    have b1 : natSum p.mappings ≤ 255 * p.mappings.length :=
      natSum_le_bound (fun x hx => by have := hb x hx; omega)
    have hpl' : pl ≤ 65025 := by omega
    have hov := oversamplingOf_lt hos p.index
    have hmul : pl * oversamplingOf os p.index ≤ 65025 * 65535 := mul_le_bound hpl' (by omega)
    have hk : (65025 : Nat) * 65535 = 4261413375 := by decide
    rw [hk] at hmul
    refine Safe.bind (Safe.arith (by unfold U64; omega)) ?_
    intro pl2 hpl2
    obtain ⟨_, rfl⟩ := mul64_ok.1 hpl2
    refine Safe.bind (Safe.arith (by unfold U64; omega)) ?_
    intro acc' hacc'
    obtain ⟨_, rfl⟩ := add64_ok.1 hacc'
    exact ih _ (by omega) (fun y hy => hp y (by simp [hy]))

theorem eepromSmBitLen_safe {os : List (Nat × Nat)} (hos : ∀ p ∈ os, p.2 < 65536) (i : Nat) :
    ∀ (K : Nat), 4294836225 ≤ K →
    ∀ (l : List Pdo) (acc : Nat), acc + K * l.length < 18446744073709551616 →
    (∀ p ∈ l, p.bitLen < 65536) → Safe (fun m => eepromSmBitLen m os i acc l) := by
  intro K hK l
  induction l with
  | nil => intro acc _ _; simp only [eepromSmBitLen]; exact Safe.ok acc
  | cons p rest ih =>
    intro acc hacc hp
    simp only [eepromSmBitLen]
    simp only [List.length_cons, Nat.mul_add, Nat.mul_one] at hacc
    have hrest : ∀ y ∈ rest, y.bitLen < 65536 := fun y hy => hp y (by simp [hy])
    by_cases hsm : p.sm = i
    · simp only [hsm, if_true]
      have hb := hp p (by simp)
      have hov := oversamplingOf_lt hos p.index
      have hmul : p.bitLen * oversamplingOf os p.index ≤ 65535 * 65535 := mul_le_bound (by omega) (by omega)
      have hk : (65535 : Nat) * 65535 = 4294836225 := by decide
      rw [hk] at hmul
      refine Safe.bind (Safe.arith (by unfold U64; omega)) ?_
      intro l1 hl1
      obtain ⟨_, rfl⟩ := mul64_ok.1 hl1
      refine Safe.bind (Safe.arith (by unfold U64; omega)) ?_
      intro acc' hacc'
      obtain ⟨_, rfl⟩ := add64_ok.1 hacc'
      exact ih _ (by omega) hrest
    · simp only [hsm, if_false]
      exact ih _ (by omega) hrest

/-! ### one sync manager, one direction, one device -/

theorem writeFmmuConfig_off {r : Regs} {fi off ty : Nat} {cfg : SmReg} {p : Regs × Nat}
    (h : writeFmmuConfig .checked r fi off ty cfg = .ok p) : p.2 = off + cfg.len := by
  by_cases he : (r.fmmu fi).enable = true
  · rw [writeFmmuConfig_enabled he h]
  · rw [writeFmmuConfig_fresh (by simpa using he) h]

theorem writeFmmuConfig_safe (r : Regs) (fi off ty : Nat) (cfg : SmReg) (h : off + cfg.len < 4294967296) :
    Safe (fun m => writeFmmuConfig m r fi off ty cfg) := by
  unfold writeFmmuConfig
  refine Safe.bind (Safe.const ?_) ?_
  · intro w
    split
    · intro hh
      cases hx : extendLen (r.fmmu fi).length cfg.len with
      | ok v => rw [hx] at hh; simp [Config.bind] at hh
      | err e => rw [hx] at hh; simp [Config.bind] at hh
      | panic w' => exact extendLen_no_panic _ _ _ hx
    · intro hh; cases hh
  · intro f _
    refine Safe.bind (Safe.arith (by unfold U32; omega)) ?_
    intro off' _
    exact Safe.ok _

/-- Size of one step of the logical address: a sync manager has at most 65535 bytes. -/
theorem eepromLoop_safe {d : Device} {dir : Dir} {pdos : List Pdo} (hos : ∀ p ∈ d.oversampling, p.2 < 65536)
    (hl : pdos.length ≤ 64) (hb : ∀ p ∈ pdos, p.bitLen < 65536) :
    ∀ (K : Nat), 65535 ≤ K →
    ∀ (L : List (Nat × SmDesc)) (r : Regs) (off : Nat), off + K * L.length < 4294967296 →
      Safe (fun m => eepromLoop m d dir pdos L r off) ∧
      ∀ res, eepromLoop .checked d dir pdos L r off = .ok res → off ≤ res.2 ∧ res.2 ≤ off + K * L.length := by
  have h64 : 0 + 4294836225 * pdos.length < 18446744073709551616 := mul_len_lt hl (by decide)
  intro K hK L
  induction L with
  | nil =>
    intro r off _
    simp only [eepromLoop]
    exact ⟨Safe.ok _, by intro res h; simp at h; subst h; simp⟩
  | cons x rest ih =>
    intro r off hoff
    obtain ⟨i, sm⟩ := x
    simp only [List.length_cons, Nat.mul_add, Nat.mul_one] at hoff
    by_cases hty : ¬ sm.usageType = dir.smType
    · simp only [eepromLoop, hty, ne_eq, not_false_eq_true, if_true]
      obtain ⟨s1, s2⟩ := ih r off (by omega)
      refine ⟨s1, ?_⟩
      intro res h
      have := s2 res h
      simp only [List.length_cons, Nat.mul_add, Nat.mul_one]
      omega
    · have hty' : sm.usageType = dir.smType := by simpa using hty
      simp only [eepromLoop, hty', ne_eq, not_true_eq_false, if_false]
      refine ⟨?_, ?_⟩
      · refine Safe.bind (eepromSmBitLen_safe hos i 4294836225 (Nat.le_refl _) pdos 0 h64 hb) ?_
        intro bits _
        refine Safe.bind (Safe.const (lenBytes_no_panic bits)) ?_
        intro lb hlb
        obtain ⟨hlt, rfl⟩ := lenBytes_ok.1 hlb
        refine Safe.bind (writeFmmuConfig_safe _ _ _ _ _ (by simp only [writeSmConfig]; omega)) ?_
        intro p hp
        have e := writeFmmuConfig_off hp
        simp only [writeSmConfig] at e
        exact (ih p.1 p.2 (by omega)).1
      · intro res h
        obtain ⟨bits, _, h⟩ := bind_eq_ok.1 h
        obtain ⟨lb, hlb, h⟩ := bind_eq_ok.1 h
        obtain ⟨hlt, rfl⟩ := lenBytes_ok.1 hlb
        obtain ⟨p, hp, h⟩ := bind_eq_ok.1 h
        have e := writeFmmuConfig_off hp
        simp only [writeSmConfig] at e
        have := (ih p.1 p.2 (by omega)).2 res h
        simp only [List.length_cons, Nat.mul_add, Nat.mul_one]
        omega

theorem coeLoop_safe {d : Device} {dir : Dir} (hos : ∀ p ∈ d.oversampling, p.2 < 65536)
    (hc : ∀ i pdos, d.coe i = some pdos →
      pdos.length ≤ 255 ∧ ∀ p ∈ pdos, p.mappings.length ≤ 255 ∧ ∀ b ∈ p.mappings, b < 256) :
    ∀ (K : Nat), 65535 ≤ K →
    ∀ (L : List (Nat × SmDesc)) (r : Regs) (off : Nat), off + K * L.length < 4294967296 →
      Safe (fun m => coeLoop m d dir L r off) ∧
      ∀ res, coeLoop .checked d dir L r off = .ok res → off ≤ res.2 ∧ res.2 ≤ off + K * L.length := by
  intro K hK L
  induction L with
  | nil =>
    intro r off _
    simp only [coeLoop]
    exact ⟨Safe.ok _, by intro res h; simp at h; subst h; simp⟩
  | cons x rest ih =>
    intro r off hoff
    obtain ⟨i, sm⟩ := x
    simp only [List.length_cons, Nat.mul_add, Nat.mul_one] at hoff
    by_cases hty : ¬ sm.usageType = dir.smType
    · simp only [coeLoop, hty, ne_eq, not_false_eq_true, if_true]
      obtain ⟨s1, s2⟩ := ih r off (by omega)
      refine ⟨s1, ?_⟩
      intro res h
      have := s2 res h
      simp only [List.length_cons, Nat.mul_add, Nat.mul_one]
      omega
    · have hty' : sm.usageType = dir.smType := by simpa using hty
      simp only [coeLoop, hty', ne_eq, not_true_eq_false, if_false]
      cases hco : d.coe i with
      | none => exact ⟨Safe.err _, by intro res h; simp at h⟩
      | some pdos =>
        simp only
        obtain ⟨hlen, hmap⟩ := hc i pdos hco
        have h64 : 0 + 4261413375 * pdos.length < 18446744073709551616 := mul_len_lt hlen (by decide)
        refine ⟨?_, ?_⟩
        · refine Safe.bind (coeSmBitLen_safe hos 4261413375 (Nat.le_refl _) pdos 0 h64 hmap) ?_
          intro bits _
          refine Safe.bind (Safe.const (lenBytes_no_panic bits)) ?_
          intro lb hlb
          obtain ⟨hlt, rfl⟩ := lenBytes_ok.1 hlb
          by_cases hpos : bits > 0
          · simp only [hpos, if_true]
            cases hp : position dir.fmmuType d.fmmuUsage with
            | none => exact Safe.err _
            | some fi =>
              simp only
              refine Safe.bind (writeFmmuConfig_safe _ _ _ _ _ (by simp only [writeSmConfig]; omega)) ?_
              intro p hp
              have e := writeFmmuConfig_off hp
              simp only [writeSmConfig] at e
              exact (ih p.1 p.2 (by omega)).1
          · simp only [hpos, if_false]
            exact (ih _ off (by omega)).1
        · intro res h
          obtain ⟨bits, _, h⟩ := bind_eq_ok.1 h
          obtain ⟨lb, hlb, h⟩ := bind_eq_ok.1 h
          obtain ⟨hlt, rfl⟩ := lenBytes_ok.1 hlb
          simp only [List.length_cons, Nat.mul_add, Nat.mul_one]
          by_cases hpos : bits > 0
          · simp only [hpos, if_true] at h
            cases hp : position dir.fmmuType d.fmmuUsage with
            | none => simp [hp] at h
            | some fi =>
              simp only [hp] at h
              obtain ⟨p, hp, h⟩ := bind_eq_ok.1 h
              have e := writeFmmuConfig_off hp
              simp only [writeSmConfig] at e
              have := (ih p.1 p.2 (by omega)).2 res h
              omega
          · simp only [hpos, if_false] at h
            have := (ih _ off (by omega)).2 res h
            omega

theorem enumFrom_length {α : Type} (n : Nat) (l : List α) : (enumFrom n l).length = l.length := by
  induction l generalizing n with
  | nil => simp [enumFrom]
  | cons a rest ih => simp [enumFrom, ih]

/-- One direction on one device: at most 8 sync managers of at most 65535 bytes each. -/
theorem configureFmmus_safe {d : Device} (hd : d.TypesOk) (st : DevState) {off gs : Nat} (dir : Dir)
    (hgs : gs ≤ off) (hoff : off + 524280 < 4294967296) :
    Safe (fun m => configureFmmus m d st off gs dir) ∧
    ∀ res, configureFmmus .checked d st off gs dir = .ok res → off ≤ res.1 ∧ res.1 ≤ off + 524280 := by
  unfold configureFmmus
  by_cases hcap : d.sms.length > 8
  · simp only [hcap, if_true]
    exact ⟨Safe.err _, by intro res h; simp at h⟩
  · simp only [hcap, if_false]
    have hlen8 : (enumFrom 0 d.sms).length ≤ 8 := by rw [enumFrom_length]; omega
    have hk8 : (65535 : Nat) * 8 = 524280 := by decide
    have hlen : 65535 * (enumFrom 0 d.sms).length ≤ 524280 := by
      rw [← hk8]; exact Nat.mul_le_mul_left _ hlen8
    have hstep : off + 65535 * (enumFrom 0 d.sms).length < 4294967296 := by
      generalize 65535 * (enumFrom 0 d.sms).length = X at hlen ⊢
      omega
    -- the sync manager loop of the path taken
    have hloop : Safe (fun m => if st.hasCoe then coeLoop m d dir (enumFrom 0 d.sms) st.regs off
          else eepromLoop m d dir (match dir with | .input => d.txPdos | .output => d.rxPdos)
                 (enumFrom 0 d.sms) st.regs off) ∧
        ∀ p, (if st.hasCoe then coeLoop .checked d dir (enumFrom 0 d.sms) st.regs off
          else eepromLoop .checked d dir (match dir with | .input => d.txPdos | .output => d.rxPdos)
                 (enumFrom 0 d.sms) st.regs off) = .ok p → off ≤ p.2 ∧ p.2 ≤ off + 524280 := by
      cases hco : st.hasCoe with
      | true =>
        simp only [if_true]
        obtain ⟨s1, s2⟩ := coeLoop_safe (dir := dir) hd.os hd.coe 65535 (Nat.le_refl _) (enumFrom 0 d.sms) st.regs off hstep
        refine ⟨s1, fun p hp => ?_⟩
        have := s2 p hp
        generalize 65535 * (enumFrom 0 d.sms).length = X at hlen this
        omega
      | false =>
        simp only [Bool.false_eq_true, if_false]
        have hp : (match dir with | .input => d.txPdos | .output => d.rxPdos).length ≤ 64 ∧
            ∀ p ∈ (match dir with | .input => d.txPdos | .output => d.rxPdos : List Pdo), p.bitLen < 65536 := by
          cases dir
          · exact hd.tx
          · exact hd.rx
        obtain ⟨s1, s2⟩ := eepromLoop_safe (dir := dir) hd.os hp.1 hp.2 65535 (Nat.le_refl _) (enumFrom 0 d.sms) st.regs off hstep
        refine ⟨s1, fun p hp => ?_⟩
        have := s2 p hp
        generalize 65535 * (enumFrom 0 d.sms).length = X at hlen this
        omega
    refine ⟨?_, ?_⟩
    · refine Safe.bind hloop.1 ?_
      intro p hp
      have := hloop.2 p hp
      refine Safe.bind (Safe.subWrap hgs) ?_
      intro s _
      refine Safe.bind (Safe.subWrap (by omega)) ?_
      intro e _
      exact Safe.ok _
    · intro res h
      obtain ⟨p, hp, h⟩ := bind_eq_ok.1 h
      obtain ⟨s, _, h⟩ := bind_eq_ok.1 h
      obtain ⟨e, _, h⟩ := bind_eq_ok.1 h
      simp only [Outcome.ok.injEq] at h
      subst h
      exact hloop.2 p hp

/-! ### a group -/

theorem passDir_safe (dir : Dir) (gs : Nat) (K : Nat) (hK : 524280 ≤ K) :
    ∀ (devs : List (Device × DevState)) (off : Nat),
    (∀ x ∈ devs, x.1.TypesOk) → gs ≤ off → off + K * devs.length < 4294967296 →
    Safe (fun m => passDir m dir gs off devs) ∧
    ∀ res, passDir .checked dir gs off devs = .ok res →
      off ≤ res.1 ∧ res.1 ≤ off + K * devs.length ∧ res.2.map (·.1) = devs.map (·.1) := by
  intro devs
  induction devs with
  | nil =>
    intro off _ _ _
    simp only [passDir]
    exact ⟨Safe.ok _, by intro res h; simp at h; subst h; simp⟩
  | cons x rest ih =>
    intro off hty hgs hoff
    obtain ⟨d, st⟩ := x
    simp only [List.length_cons, Nat.mul_add, Nat.mul_one] at hoff
    have hd := hty (d, st) (by simp)
    have hrest : ∀ y ∈ rest, y.1.TypesOk := fun y hy => hty y (by simp [hy])
    obtain ⟨c1, c2⟩ := configureFmmus_safe hd st dir hgs (by omega)
    simp only [passDir]
    refine ⟨?_, ?_⟩
    · refine Safe.bind c1 ?_
      intro p hp
      have := c2 p hp
      refine Safe.bind (ih p.1 hrest (by omega) (by omega)).1 ?_
      intro q _
      exact Safe.ok _
    · intro res h
      obtain ⟨p, hp, h⟩ := bind_eq_ok.1 h
      obtain ⟨q, hq, h⟩ := bind_eq_ok.1 h
      simp only [Outcome.ok.injEq] at h
      subst h
      have b1 := c2 p hp
      obtain ⟨b2, b3, b4⟩ := (ih p.1 hrest (by omega) (by omega)).2 q hq
      simp only [List.length_cons, Nat.mul_add, Nat.mul_one, List.map_cons, b4]
      refine ⟨by omega, by omega, trivial⟩

/-- **Totality of a group's configuration.** For every group whose device descriptions fit their Rust types
    and whose logical range stays inside `u32` (each device needs at most 2 × 8 × 65535 bytes), the two passes
    never panic and compute the same outcome in both build modes. -/
theorem groupLayout_safe {start : Nat} {devs : List (Device × DevState)} (hty : ∀ x ∈ devs, x.1.TypesOk)
    (hsz : start + 1048560 * devs.length < 4294967296) : Safe (fun m => groupLayout m start devs) := by
  unfold groupLayout
  have e2 : 1048560 * devs.length = 524280 * devs.length + 524280 * devs.length := by rw [← Nat.add_mul]
  rw [e2] at hsz
  obtain ⟨p1s, p1b⟩ := passDir_safe .input start 524280 (Nat.le_refl _) devs start hty (Nat.le_refl _) (by omega)
  refine Safe.bind p1s ?_
  intro p1 hp1
  obtain ⟨b1, b2, b3⟩ := p1b p1 hp1
  refine Safe.bind (Safe.subWrap b1) ?_
  intro rl _
  have hlen : p1.2.length = devs.length := by
    have := congrArg List.length b3
    simpa using this
  have hty2 : ∀ x ∈ p1.2, x.1.TypesOk := by
    intro x hx
    have : x.1 ∈ devs.map (·.1) := by rw [← b3]; exact List.mem_map_of_mem hx
    obtain ⟨y, hy, e⟩ := List.mem_map.1 this
    rw [← e]; exact hty y hy
  obtain ⟨p2s, p2b⟩ := passDir_safe .output start 524280 (Nat.le_refl _) p1.2 p1.1 hty2 b1 (by rw [hlen]; omega)
  refine Safe.bind p2s ?_
  intro p2 hp2
  obtain ⟨c1, _, _⟩ := p2b p2 hp2
  refine Safe.bind (Safe.subWrap (by omega)) ?_
  intro pl _
  exact Safe.ok _

theorem checkLen_no_panic (maxPdi : Nat) (g : GroupLayout) (w : String) : checkLen maxPdi g ≠ .panic w := by
  unfold checkLen; split <;> intro h <;> cases h

theorem groupConfigureFmmus_safe {start : Nat} {devs : List (Device × DevState)} (maxPdi : Nat)
    (hty : ∀ x ∈ devs, x.1.TypesOk) (hsz : start + 1048560 * devs.length < 4294967296) :
    Safe (fun m => groupConfigureFmmus m start maxPdi devs) := by
  unfold groupConfigureFmmus
  exact Safe.bind (groupLayout_safe hty hsz) (fun g _ => Safe.const (checkLen_no_panic maxPdi g))

/-! ### the whole network -/

theorem groupStarts_safe (K : Nat) (hK : 65535 ≤ K) : ∀ (mps : List Nat) (off : Nat),
    off + K * mps.length < 4294967296 →
    Safe (fun m => groupStarts m off mps) ∧
    ∀ starts, groupStarts .checked off mps = .ok starts → ∀ s ∈ starts, s ≤ off + K * mps.length := by
  intro mps
  induction mps with
  | nil =>
    intro off _
    simp only [groupStarts]
    exact ⟨Safe.ok _, by intro starts h; simp at h; subst h; simp⟩
  | cons mp rest ih =>
    intro off hoff
    simp only [List.length_cons, Nat.mul_add, Nat.mul_one] at hoff
    have hmp : mp % U16 < 65536 := by unfold U16; exact Nat.mod_lt _ (by omega)
    simp only [groupStarts, increment]
    refine ⟨?_, ?_⟩
    · refine Safe.bind (Safe.arith (by unfold U32; omega)) ?_
      intro off' ho
      obtain ⟨_, rfl⟩ := add32_ok.1 ho
      refine Safe.bind (ih _ (by omega)).1 ?_
      intro l _
      exact Safe.ok _
    · intro starts h
      obtain ⟨off', ho, h⟩ := bind_eq_ok.1 h
      obtain ⟨_, rfl⟩ := add32_ok.1 ho
      obtain ⟨l, hl, h⟩ := bind_eq_ok.1 h
      simp only [Outcome.ok.injEq] at h
      subst h
      intro s hs
      simp only [List.length_cons, Nat.mul_add, Nat.mul_one]
      rcases List.mem_cons.1 hs with rfl | hs
      · omega
      · have := (ih _ (by omega)).2 l hl s hs
        omega

theorem groupMapOrder_length : ∀ (l seen : List Nat), (groupMapOrder seen l).length ≤ seen.length + l.length := by
  intro l
  induction l with
  | nil => intro seen; simp [groupMapOrder]
  | cons g rest ih =>
    intro seen
    simp only [groupMapOrder]
    split
    · have := ih seen; simp only [List.length_cons]; omega
    · have := ih (g :: seen); simp only [List.length_cons] at this ⊢; omega

theorem order_length (n : Net) : n.order.length ≤ n.devices.length := by
  have := groupMapOrder_length (n.devices.map (·.2)) []
  simpa [Net.order] using this

theorem members_length (n : Net) (slot : Nat) : (n.members slot).length ≤ n.devices.length := by
  unfold Net.members
  rw [List.length_map]
  exact List.length_filter_le _ _

theorem members_typesOk {n : Net} (h : ∀ x ∈ n.devices, x.1.TypesOk) (slot : Nat) :
    ∀ y ∈ n.members slot, y.1.TypesOk := by
  intro y hy
  unfold Net.members at hy
  obtain ⟨x, hx, rfl⟩ := List.mem_map.1 hy
  exact h x ((List.mem_filter.1 hx).1)

theorem initPhase_safe {n : Net} (hsz : 0 + 65535 * n.devices.length < 4294967296) :
    Safe (fun m => initPhase m n) ∧
    ∀ gs, initPhase .checked n = .ok gs → ∀ x ∈ gs, x.2 ≤ 65535 * n.devices.length := by
  have hlen : (n.order.map n.maxPdi).length ≤ n.devices.length := by rw [List.length_map]; exact order_length n
  have h0 : 0 + 65535 * (n.order.map n.maxPdi).length < 4294967296 := mul_len_lt hlen hsz
  obtain ⟨s1, s2⟩ := groupStarts_safe 65535 (Nat.le_refl _) _ 0 h0
  unfold initPhase
  split
  · exact ⟨Safe.err _, by intro gs h; cases h⟩
  · refine ⟨Safe.bind s1 (fun starts _ => Safe.ok _), ?_⟩
    intro gs h
    obtain ⟨starts, hs, h⟩ := bind_eq_ok.1 h
    simp only [Outcome.ok.injEq] at h
    subst h
    intro x hx
    obtain ⟨a, b⟩ := x
    have hb := s2 starts hs b (List.of_mem_zip hx).2
    have := Nat.mul_le_mul_left 65535 hlen
    exact Nat.le_trans (by simpa using hb) this

/-- **Totality for a whole network**: `init` (group start addresses) and every group's configuration. -/
theorem configNet_safe {n : Net} (hty : ∀ x ∈ n.devices, x.1.TypesOk)
    (hsz : 65535 * n.devices.length + 1048560 * n.devices.length < 4294967296) :
    Safe (fun m => configNet m n) ∧
    ∀ res, configNet .checked n = .ok res → ∀ u ∈ res, ∀ w, u.2.2 ≠ .panic w := by
  have hsz0 : 0 + 65535 * n.devices.length < 4294967296 := by
    generalize 65535 * n.devices.length = X at hsz ⊢
    generalize 1048560 * n.devices.length = Y at hsz
    omega
  obtain ⟨i1, i2⟩ := initPhase_safe hsz0
  have hgrp : ∀ gs, initPhase .checked n = .ok gs → ∀ x ∈ gs,
      Safe (fun m => groupConfigureFmmus m x.2 (n.maxPdi x.1) (n.members x.1)) := by
    intro gs hgs x hx
    refine groupConfigureFmmus_safe _ (members_typesOk hty x.1) ?_
    have b1 := i2 gs hgs x hx
    have b2 := Nat.mul_le_mul_left 1048560 (members_length n x.1)
    generalize 65535 * n.devices.length = X at hsz b1
    generalize 1048560 * n.devices.length = Y at hsz b2
    generalize 1048560 * (n.members x.1).length = Z at b2 ⊢
    omega
  unfold configNet
  refine ⟨?_, ?_⟩
  · refine Safe.bind i1 ?_
    intro gs hgs
    refine ⟨(by intro w h; cases h), ?_⟩
    intro m
    show Outcome.ok _ = Outcome.ok _
    congr 1
    apply List.map_congr_left
    intro x hx
    have := (hgrp gs hgs x hx).2 m
    simp only at this
    rw [this]
  · intro res h
    obtain ⟨gs, hgs, h⟩ := bind_eq_ok.1 h
    simp only [Outcome.ok.injEq] at h
    subst h
    intro u hu w
    obtain ⟨x, hx, rfl⟩ := List.mem_map.1 hu
    exact (hgrp gs hgs x hx).1 w

/-! ### the length registers hold what the model says they hold -/

/-- Every sync manager / FMMU length in the register file fits the 16-bit register it is written to (so the
    model's natural numbers ARE the register contents). -/
def Regs.Rep (r : Regs) : Prop := ∀ k, (r.sm k).len < 65536 ∧ (r.fmmu k).length < 65536

theorem Regs.Rep.setSm {r : Regs} (h : r.Rep) (i : Nat) {v : SmReg} (hv : v.len < 65536) : (r.setSm i v).Rep := by
  intro k
  refine ⟨?_, by simpa using (h k).2⟩
  by_cases hk : k = i
  · subst hk; simpa using hv
  · rw [setSm_sm_other _ _ hk]; exact (h k).1

theorem Regs.Rep.setFmmu {r : Regs} (h : r.Rep) (i : Nat) {f : Fmmu} (hf : f.length < 65536) :
    (r.setFmmu i f).Rep := by
  intro k
  refine ⟨by simpa using (h k).1, ?_⟩
  by_cases hk : k = i
  · subst hk; simpa using hf
  · rw [setFmmu_fmmu_other _ _ hk]; exact (h k).2

theorem writeSmConfig_rep {r : Regs} (h : r.Rep) (i : Nat) (sm : SmDesc) {lb : Nat} (hlb : lb < 65536) :
    (writeSmConfig r i sm lb).1.Rep ∧ (writeSmConfig r i sm lb).2.len = lb := by
  simp only [writeSmConfig]
  exact ⟨h.setSm i (by simpa using hlb), trivial⟩

theorem writeFmmuConfig_rep {m : Mode} {r : Regs} {fi off ty : Nat} {cfg : SmReg} {p : Regs × Nat}
    (hr : r.Rep) (hc : cfg.len < 65536) (h : writeFmmuConfig m r fi off ty cfg = .ok p) : p.1.Rep := by
  unfold writeFmmuConfig at h
  obtain ⟨f, hf, h⟩ := bind_eq_ok.1 h
  obtain ⟨o, _, h⟩ := bind_eq_ok.1 h
  simp only [Outcome.ok.injEq] at h
  subst h
  refine hr.setFmmu fi ?_
  by_cases he : (r.fmmu fi).enable = true
  · simp only [he, if_true] at hf
    obtain ⟨l, hl, hf⟩ := bind_eq_ok.1 hf
    obtain ⟨hlt, rfl⟩ := extendLen_ok.1 hl
    simp only [Outcome.ok.injEq] at hf
    subst hf
    exact hlt
  · simp only [he] at hf
    simp only [Bool.false_eq_true, if_false, Outcome.ok.injEq] at hf
    subst hf
    exact hc

theorem eepromLoop_rep {m : Mode} {d : Device} {dir : Dir} {pdos : List Pdo} :
    ∀ (L : List (Nat × SmDesc)) (r : Regs) (off : Nat) (res : Regs × Nat), r.Rep →
      eepromLoop m d dir pdos L r off = .ok res → res.1.Rep := by
  intro L
  induction L with
  | nil => intro r off res hr h; simp [eepromLoop] at h; subst h; exact hr
  | cons x rest ih =>
    intro r off res hr h
    obtain ⟨i, sm⟩ := x
    by_cases hty : sm.usageType = dir.smType
    · simp only [eepromLoop, hty, ne_eq, not_true_eq_false, if_false] at h
      obtain ⟨bits, _, h⟩ := bind_eq_ok.1 h
      obtain ⟨lb, hlb, h⟩ := bind_eq_ok.1 h
      obtain ⟨hlt, rfl⟩ := lenBytes_ok.1 hlb
      obtain ⟨p, hp, h⟩ := bind_eq_ok.1 h
      obtain ⟨w1, w2⟩ := writeSmConfig_rep hr i sm hlt
      exact ih _ _ _ (writeFmmuConfig_rep w1 (by rw [w2]; exact hlt) hp) h
    · simp only [eepromLoop, hty, ne_eq, not_false_eq_true, if_true] at h
      exact ih _ _ _ hr h

theorem coeLoop_rep {m : Mode} {d : Device} {dir : Dir} :
    ∀ (L : List (Nat × SmDesc)) (r : Regs) (off : Nat) (res : Regs × Nat), r.Rep →
      coeLoop m d dir L r off = .ok res → res.1.Rep := by
  intro L
  induction L with
  | nil => intro r off res hr h; simp [coeLoop] at h; subst h; exact hr
  | cons x rest ih =>
    intro r off res hr h
    obtain ⟨i, sm⟩ := x
    by_cases hty : sm.usageType = dir.smType
    · simp only [coeLoop, hty, ne_eq, not_true_eq_false, if_false] at h
      cases hc : d.coe i with
      | none => simp [hc] at h
      | some pdos =>
        simp only [hc] at h
        obtain ⟨bits, _, h⟩ := bind_eq_ok.1 h
        obtain ⟨lb, hlb, h⟩ := bind_eq_ok.1 h
        obtain ⟨hlt, rfl⟩ := lenBytes_ok.1 hlb
        obtain ⟨w1, w2⟩ := writeSmConfig_rep hr i sm hlt
        by_cases hpos : bits > 0
        · simp only [hpos, if_true] at h
          cases hp : position dir.fmmuType d.fmmuUsage with
          | none => simp [hp] at h
          | some fi =>
            simp only [hp] at h
            obtain ⟨p, hp, h⟩ := bind_eq_ok.1 h
            exact ih _ _ _ (writeFmmuConfig_rep w1 (by rw [w2]; exact hlt) hp) h
        · simp only [hpos, if_false] at h
          exact ih _ _ _ w1 h
    · simp only [coeLoop, hty, ne_eq, not_false_eq_true, if_true] at h
      exact ih _ _ _ hr h

theorem configureFmmus_rep {m : Mode} {d : Device} {st : DevState} {off gs : Nat} {dir : Dir}
    {res : Nat × DevState} (hr : st.regs.Rep) (h : configureFmmus m d st off gs dir = .ok res) :
    res.2.regs.Rep := by
  unfold configureFmmus at h
  by_cases hcap : d.sms.length > 8
  · simp [hcap] at h
  · rw [if_neg hcap] at h
    obtain ⟨p, hp, h⟩ := bind_eq_ok.1 h
    obtain ⟨s, _, h⟩ := bind_eq_ok.1 h
    obtain ⟨e, _, h⟩ := bind_eq_ok.1 h
    simp only [Outcome.ok.injEq] at h
    subst h
    have hp1 : p.1.Rep := by
      cases hc : st.hasCoe with
      | true => simp only [hc, if_true] at hp; exact coeLoop_rep _ _ _ _ hr hp
      | false => simp only [hc, Bool.false_eq_true, if_false] at hp; exact eepromLoop_rep _ _ _ _ hr hp
    cases dir <;> exact hp1

theorem passDir_rep {m : Mode} {dir : Dir} {gs : Nat} : ∀ (devs : List (Device × DevState)) (off : Nat)
    (res : Nat × List (Device × DevState)), (∀ x ∈ devs, x.2.regs.Rep) →
    passDir m dir gs off devs = .ok res → ∀ x ∈ res.2, x.2.regs.Rep := by
  intro devs
  induction devs with
  | nil => intro off res _ h; simp [passDir] at h; subst h; simp
  | cons x rest ih =>
    intro off res hr h
    obtain ⟨d, st⟩ := x
    obtain ⟨off', st', q, hc, hq, rfl⟩ := passDir_cons h
    intro y hy
    rcases List.mem_cons.1 hy with rfl | hy
    · exact configureFmmus_rep (hr (d, st) (by simp)) hc
    · exact ih _ _ (fun z hz => hr z (by simp [hz])) hq y hy

theorem groupLayout_rep {m : Mode} {start : Nat} {devs : List (Device × DevState)} {g : GroupLayout}
    (hr : ∀ x ∈ devs, x.2.regs.Rep) (h : groupLayout m start devs = .ok g) : ∀ x ∈ g.devs, x.2.regs.Rep := by
  unfold groupLayout at h
  obtain ⟨q1, h1, h⟩ := bind_eq_ok.1 h
  obtain ⟨rl, _, h⟩ := bind_eq_ok.1 h
  obtain ⟨q2, h2, h⟩ := bind_eq_ok.1 h
  obtain ⟨pl, _, h⟩ := bind_eq_ok.1 h
  simp only [Outcome.ok.injEq] at h
  subst h
  exact passDir_rep _ _ _ (passDir_rep _ _ _ hr h1) h2

theorem mailboxLoop_rep (mb : MailboxCfg) (hmb : mb.recvSize < 65536 ∧ mb.sendSize < 65536) :
    ∀ (L : List (Nat × SmDesc)) (r : Regs) (rd : Bool), r.Rep → (mailboxLoop mb L r rd).1.Rep := by
  intro L
  induction L with
  | nil => intro r rd hr; simpa [mailboxLoop] using hr
  | cons x rest ih =>
    intro r rd hr
    obtain ⟨i, sm⟩ := x
    simp only [mailboxLoop]
    split
    · exact ih _ _ (writeSmConfig_rep hr i sm hmb.1).1
    · split
      · exact ih _ _ (writeSmConfig_rep hr i sm hmb.2).1
      · exact ih _ _ hr

theorem initDev_rep {d : Device} (hd : d.TypesOk) : (initDev d).regs.Rep := by
  have h0 : Regs.zero.Rep := by intro k; simp [Regs.zero]
  unfold initDev configureMailboxSms
  split
  · exact h0
  · exact mailboxLoop_rep _ hd.mbx _ _ _ h0

end Ec.Config
