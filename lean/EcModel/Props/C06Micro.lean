/-
  C06 (concurrency clauses) — expiry or abandonment of a request AT ANY MOMENT, including while the
  transmit or receive side is inside its buffer. Stated on the slot status protocol
  (`Lifecycle.lean`, events = the status-access sites regenerated from /repo).

  What holds for the current code is proved; what does not hold is exhibited by a counterexample
  (closed by `decide`), carried as a known finding and replayed on the real code by the baton
  scheduler (harness binary `c06m`).
-/
import EcModel.Props.C02

namespace Ec.C06Micro
open Ec Ec.Lifecycle Ec.C02

/-- **abandon_safe_partial.** Abandoning (drop or final timeout) while nobody is inside the buffer —
    the slot is Sendable, Sent, RxDone, or RxBusy after the RX side gave up — keeps the ownership
    invariant and frees the slot. -/
theorem abandon_safe_partial (x x' : LSlot) (h : SlotInv x) (hout : ¬ AbandonInside x .abandon)
    (hs : step x .abandon = some x') : SlotInv x' ∧ x'.st = .none ∧ x'.tok = ⟨0, 0, 0, 0, 0⟩ := by
  refine ⟨inv_step x x' .abandon h hout hs, ?_⟩
  obtain ⟨st, tok⟩ := x
  cases st <;> simp only [SlotInv] at h <;> (first | subst h | (rcases h with h | h <;> subst h)) <;>
    simp [step, AbandonInside] at hs hout ⊢ <;> (try subst hs) <;> simp

/-- **retry_is_safe.** A deadline that expires with retries left never disturbs a party that is inside
    the buffer and never discards a response: the re-queue is a compare-exchange from `Sent`
    (commit b5bf0e20), so in every other state it changes nothing. -/
theorem retry_is_safe (x x' : LSlot) (h : SlotInv x) (hs : step x .retry = some x') :
    SlotInv x' ∧ (x.st ≠ .sent → x' = x) ∧ (x.st = .sent → x'.st = .sendable ∧ x'.tok = x.tok) := by
  refine ⟨inv_step x x' .retry h (by simp [AbandonInside]) hs, ?_, ?_⟩
  · intro hne
    simp only [step, cas] at hs
    split at hs
    · cases hs
    · simp [hne] at hs; exact hs.symm
  · intro he
    simp only [step, cas] at hs
    split at hs
    · cases hs
    · simp [he] at hs; subst hs; simp

/-- **stale_tx_cannot_resurrect.** After the request was abandoned while the TX side held the frame,
    the TX side's completion (`mark_sent` / `release_sending_claim`, compare-exchanges from `Sending`
    since commit 362a9e12) leaves a free slot free: the slot is not lost. -/
theorem stale_tx_cannot_resurrect :
    (run init [.claimCreated, .markSendable, .txClaim, .abandon, .txSent]).st = .none ∧
    (run init [.claimCreated, .markSendable, .txClaim, .abandon, .txRelease]).st = .none ∧
    SlotInv (run init [.claimCreated, .markSendable, .txClaim, .abandon, .txSent]) := by decide

/-- In general: whatever the stale TX/RX party does after an abandonment inside the window, once it
    has finished the status word again determines the handles (the slot "heals"), provided nobody
    re-claimed the slot meanwhile. -/
theorem heals_after_stale_party_finishes (e : Ev) (he : e = .txSent ∨ e = .txRelease) :
    SlotInv (run init [.claimCreated, .markSendable, .txClaim, .abandon, e]) ∧
    SlotInv (run init [.claimCreated, .markSendable, .txClaim, .txSent, .rxClaim, .abandon, .rxDone]) := by
  rcases he with rfl | rfl <;> decide

/-- **abandon_inside_breaks_exclusion (known finding, key `c06m/two-parties@store-over-inside`).**
    The full safety clause is FALSE of the current code: final timeout / drop stores `None` while TX
    (or RX) is inside; the slot can be claimed and rebuilt by another request while the first party
    still reads (or writes) the buffer. -/
theorem abandon_inside_tx_counterexample :
    inside (run init [.claimCreated, .markSendable, .txClaim, .abandon, .claimCreated]).tok = 2 := by decide

theorem abandon_inside_rx_counterexample :
    inside (run init [.claimCreated, .markSendable, .txClaim, .txSent, .rxClaim, .abandon, .claimCreated]).tok = 2 := by
  decide

/-- Before commit b5bf0e20 the retry was a plain store: modelled here as a store event to document
    what the fix removed — a response that had just completed (`RxDone`) was overwritten. -/
def retryStore (x : LSlot) : LSlot := { x with st := .sendable }

theorem old_retry_discarded_response :
    let x := run init [.claimCreated, .markSendable, .txClaim, .txSent, .rxClaim, .rxDone]
    x.st = .rxDone ∧ (retryStore x).st = .sendable ∧ ¬ SlotInv (retryStore (run init [.claimCreated, .markSendable, .txClaim, .txSent, .rxClaim])) := by
  decide

end Ec.C06Micro
