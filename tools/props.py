"""Per-property configuration of ./check."""

PROPS = {
    "C04": {
        "lean_modules": ["EcModel.Props.C04"],
        "harness": ["c04"],
        "t1_facts": ["LEN_MASK", "ETHERCAT_ETHERTYPE", "MAINDEVICE_ADDR", "command constant", "Command::code"],
        "modelled": "Command::{code,pack,aprd,apwr}, PduFlags pack/unpack, PduHeader layout, EthercatFrameHeader::pdu, "
                    "FrameBox::init, CreatedFrame::{push_pdu,push_pdu_slice_rest,can_push_pdu_payload,mark_sendable}, "
                    "SendableFrame::as_bytes",
        "rule": "corpus of boundary programs, then random push programs (1-6 ops: push_pdu with all 11 command kinds, "
                "payload 0..room+20, length override below/equal/above, fill-the-rest of 0..2*cap bytes, can_push queries) "
                "for every frame size 28..1514 (thorough) or a stride (quick); real bytes are those handed to "
                "send_blocking's closure. non-trivial = frame with >= 2 accepted datagrams; distinct = distinct case line",
        "assumptions": [
            "frame size <= 2047+16 (property's own bound)",
            "payload type modelled as its packed byte string (EtherCrabWireWrite for &[u8])",
            "dynamic-size storage hook (verif::VerifDynStorage) mirrors PduStorage::as_ref's stride computation",
        ],
    },
}

PROPS["C05"] = {
    "lean_modules": ["EcModel.Props.C05"],
    "harness": ["c05"],
    "drivers": {"c05": "drv_seq"},
    "t1_facts": ["ETHERCAT_ETHERTYPE", "MAINDEVICE_ADDR", "LEN_MASK", "FrameState", "transition"],
    "modelled": "PduRx::receive_frame, EthernetFrame::{new_checked,ethertype,src_addr,payload}, EthercatFrameHeader::unpack, "
                "PduStorageRef::{frame_index_by_first_pdu_index,claim_receiving}, ReceivingFrame::mark_received, and (for the "
                "set-up of slot states) the whole sequential storage API in Slots.lean",
    "rule": "per case: 1/2/4 slots of 28..72 bytes; a random prefix of 0-30 real operations (alloc, pushes, mark_sendable, TX claim/"
            "send ok/partial/err, genuine responses, polls, drops, response reads, clock advances) puts the slots into reachable "
            "states; then 1-6 deliveries of: a genuine echo, truncated at any point, extended, own source MAC, other EtherType, "
            "EtherCAT length 0..2047, protocol nibble 0..15, index 0..255, lying datagram length, oversize payload, bit flip, raw "
            "noise, or a well-formed frame for an index nobody awaits; result token and full snapshot of every slot compared with the "
            "model; non-trivial = case in which at least one frame was accepted; distinct = distinct case line",
    "assumptions": [
        "sequential delivery (RX is one task: &mut self); interleavings with other tasks are C01/C02",
        "'never panics' of the implementation rests on the translation of which operations can panic (checked by catch_unwind on every generated case) ",
    ],
}

NOT_APPLICABLE = {}

MANIFEST_TEXT = {
    "C05": {
        "text": "Theorems for every byte list and every storage state (any slot count/contents): rx_total (no panic branch "
                "reachable), rx_cases (complete characterisation: either nothing changes or exactly the first slot in Sent whose "
                "marker equals the frame's first index is claimed and receives exactly the declared payload inside its PDU area), "
                "rx_frame_condition, rx_rejects_strangers, rx_accepts_only_awaiting, rx_ignores, rx_copy_bounded. Tied to the code "
                "by regenerated constants and by diffing result + full slot snapshots on mutated frames in reachable slot states.",
        "note": "Trusted: Lean kernel; hand translation of receive_frame (incl. which slice operations can panic); the set-up "
                "operations' model is validated by the same correspondence. An oversize payload leaves the accepted slot in RxBusy "
                "(allowed by the property; recovered by the deadline, C06).",
        "technique": "Lean 4 proof (case analysis of a total model, all inputs and states) + differential correspondence",
    },
    "C04": {
        "text": "Theorem frame_wellformed: for every frame size <= 2063 and every sequence of push_pdu / push_pdu_slice_rest "
                "calls with any index values, the bytes given to the driver equal an independently written encoder applied to "
                "exactly the accepted datagrams (broadcast dst, MainDevice src, 0x88A4, exact length field, zero-padded data, "
                "zero irq/wkc, more-follows on all but the last); frame_fits, push_refused_iff, rest_reports, aprd/apwr negation. "
                "Unbounded in program length and contents; proved by an invariant over the push list. Tied to the code by "
                "regenerated constants/command codes and by diffing model vs real bytes for every frame size 28..1514.",
        "note": "Trusted: Lean kernel; hand translation of the push/flag-patch code (validated only on the generated cases); "
                "the EtherCrabWireWrite payload is modelled as its packed bytes; frame sizes above 2063 excluded by the property.",
        "technique": "Lean 4 proof (invariant by induction over push operations) + differential correspondence",
    },
}


if __name__ == "__main__":
    import sys
    if "--targets" in sys.argv:
        seen = []
        for pid, cfg in PROPS.items():
            for m in cfg["lean_modules"]:
                if m not in seen:
                    seen.append(m)
            for k in cfg.get("harness", []):
                d = cfg.get("drivers", {}).get(k, "drv_" + k)
                if d not in seen:
                    seen.append(d)
        print(" ".join(seen))
