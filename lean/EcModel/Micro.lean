/-
  EcModel.Micro — micro-step (shared-access granularity) model of the PDU loop under arbitrary
  thread interleavings. One step of a thread = the code between two consecutive
  `verif::yield_point(site)` calls of the real code (sites are placed immediately before every access
  to shared state: slot status, first-PDU marker, wakers, the two counters, and the frame buffer).
  Thread-local handles live in per-thread registers. The operations and their results are the same
  tokens as in the sequential model (`Slots.lean`), whose definitions are reused.
  Sequential consistency is assumed (the harness runs one thread at a time).
-/
import EcModel.Slots

namespace Ec.Micro
open Ec

/-- Where a thread is inside the operation it is executing (the yield site it waits at), with the
    operation's locals. -/
inductive Pc where
  | idle                                                    -- site 100: before the next operation
  | alFetch (r j : Nat)                                     -- site 1
  | alCas (r j idx : Nat)                                   -- site 2
  | alWaker (r k : Nat) | alFirst (r k : Nat) | alBuf (r k : Nat)   -- sites 3,4,5
  | puFetch (r : Nat) (c : Cmd) (data : List Nat) (lenOv : Option Nat) (rest : Bool)   -- site 6
  | puWrite (r : Nat) (c : Cmd) (data : List Nat) (lenOv : Option Nat) (rest : Bool) (idx : Nat)  -- site 7
  | puFirst (r idx : Nat) (out : String) (patch : Option Nat)       -- site 8
  | puPatch (r : Nat) (out : String) (loc : Nat)                    -- site 9
  | mkHdr (r retries timeout : Nat) | mkStore (r retries timeout : Nat) | mkDrop (r : Nat)  -- 10,11,12
  | dcCas (r : Nat)                                         -- site 12
  | tnCas (r i : Nat)                                       -- site 23
  | tsRead (r o : Nat) | tsMark (r o : Nat) (bytes : List Nat)      -- sites 24, 25/26
  | rxState (i : Nat) (p : List Nat) (idx : Nat)            -- site 27
  | rxMarker (i : Nat) (p : List Nat) (idx : Nat)           -- site 28
  | rxClaim (k : Nat) (p : List Nat) (idx : Nat) | rxCopy (k : Nat) (p : List Nat) | rxMark (k : Nat) | rxWake (k : Nat)  -- 29..32
  | rxVerify (k : Nat) (p : List Nat) (idx : Nat)      -- site 28 again: marker re-checked while the frame is held
  | rxUnclaim (k : Nat)                               -- site 33: RxBusy → Sent hand-back
  | poWaker (r : Nat) | poCas (r : Nat) | poRelease (r : Nat) | poRetry (r : Nat) (was : St) (deadline' : Nat)  -- 13,14,15,16 (the new timer is created before site 16)
  | dfStore (r : Nat)                                       -- site 15
  | fpRead (r code idx : Nat)                               -- site 18
  | rfClear (r : Nat) (out : String) | rfCas (r : Nat) (out : String)   -- sites 19, 20
  | itNext (r : Nat) (left : Nat) (pos : Option Nat) (acc : List String)   -- site 21
  | itRead (r : Nat) (left : Nat) (pos : Option Nat) (acc : List String) (off len wkc : Nat)  -- site 22
  | vrRead (r : Nat)                                        -- site 22
  deriving Repr

structure Thread where
  prog : List String
  pc : Pc
  regs : List Hd
  outs : List String       -- results, newest first
  deriving Repr

structure MWorld where
  sys : Sys
  threads : List Thread
  deriving Repr

def Thread.done (t : Thread) (out : String) : Thread := { t with pc := .idle, outs := out :: t.outs }

def Thread.finished (t : Thread) : Bool :=
  match t.pc with
  | .idle => t.prog.isEmpty
  | _ => false

def splitOn (s sep : String) : List String := s.splitOn sep
def nat! (s : String) : Nat := s.toNat?.getD 0
def optNat (s : String) : Option Nat := if s = "-" then none else s.toNat?
def hex! (s : String) : List Nat := (parseHex s).getD []

def parseCmd (s : String) : Cmd :=
  match splitOn s "." with
  | ["aprd", a, r] => .aprd (nat! a) (nat! r)
  | ["fprd", a, r] => .fprd (nat! a) (nat! r)
  | ["brd", a, r] => .brd (nat! a) (nat! r)
  | ["frmw", a, r] => .frmw (nat! a) (nat! r)
  | ["bwr", a, r] => .bwr (nat! a) (nat! r)
  | ["apwr", a, r] => .apwr (nat! a) (nat! r)
  | ["fpwr", a, r] => .fpwr (nat! a) (nat! r)
  | ["lrd", a] => .lrd (nat! a)
  | ["lwr", a] => .lwr (nat! a)
  | ["lrw", a] => .lrw (nat! a)
  | _ => .nop

/-- Site 100 → first shared access of the next operation (local prelude only). -/
def begin (s : Sys) (t : Thread) : Sys × Thread :=
  match t.prog with
  | [] => (s, t)
  | op :: rest =>
    let t := { t with prog := rest }
    match splitOn op "," with
    | ["al", r] => (s, { t with pc := .alFetch (nat! r) 0 })
    | ["pu", r, c, d, l] =>
      (match getH t.regs (nat! r) with
       | some ⟨_, _, .created _ _⟩ => (s, { t with pc := .puFetch (nat! r) (parseCmd c) (hex! d) (optNat l) false })
       | _ => (s, t.done "bad-op"))
    | ["re", r, c, d] =>
      (match getH t.regs (nat! r) with
       | some ⟨_, k, .created _ _⟩ =>
         let x := s.slot k
         let bytes := hex! d
         -- `bytes.is_empty()` and `max_bytes == 0` are decided before the index is drawn
         if bytes.isEmpty ∨ (x.buf.drop 16).length - x.used - PDU_OVERHEAD = 0 then (s, t.done "none")
         else (s, { t with pc := .puFetch (nat! r) (parseCmd c) bytes none true })
       | _ => (s, t.done "bad-op"))
    | ["mk", r, retries, timeout] =>
      (match getH t.regs (nat! r) with
       | some ⟨_, _, .created _ _⟩ => (s, { t with pc := .mkHdr (nat! r) (nat! retries) (nat! timeout) })
       | _ => (s, t.done "bad-op"))
    | ["dc", r] =>
      (match getH t.regs (nat! r) with
       | some ⟨_, _, .created _ _⟩ => (s, { t with pc := .dcCas (nat! r) })
       | _ => (s, t.done "bad-op"))
    | ["tn", r] => if s.exit ∨ s.n = 0 then (s, t.done "none") else (s, { t with pc := .tnCas (nat! r) 0 })
    | ["ts", r, o] =>
      (match getH t.regs (nat! r) with
       | some ⟨_, _, .sendable⟩ => (s, { t with pc := .tsRead (nat! r) (nat! o) })
       | _ => (s, t.done "bad-op"))
    | ["rx", h] =>
      (match rxParse s.exit (hex! h) with
       | .error e => (s, t.done e.show)
       | .ok (p, idx) => if s.n = 0 then (s, t.done "err.decode") else (s, { t with pc := .rxState 0 p idx }))
    | ["po", r] =>
      (match getH t.regs (nat! r) with
       | some ⟨_, _, .fut _ _ _ _⟩ => (s, { t with pc := .poWaker (nat! r) })
       | _ => (s, t.done "bad-op"))
    | ["df", r] =>
      (match getH t.regs (nat! r) with
       | some ⟨_, _, .fut _ _ _ _⟩ => (s, { t with pc := .dfStore (nat! r) })
       | _ => (s, t.done "bad-op"))
    | ["fp", r, code, idx] =>
      (match getH t.regs (nat! r) with
       | some ⟨_, _, .received⟩ => (s, { t with pc := .fpRead (nat! r) (nat! code) (nat! idx) })
       | _ => (s, t.done "bad-op"))
    | ["it", r, m] =>
      (match getH t.regs (nat! r) with
       | some ⟨_, k, .received⟩ =>
         if nat! m = 0 ∨ (s.slot k).used = 0 then (s, { t with pc := .rfClear (nat! r) "" })
         else (s, { t with pc := .itNext (nat! r) (nat! m) (some 0) [] })
       | _ => (s, t.done "bad-op"))
    | ["dr", r] =>
      (match getH t.regs (nat! r) with
       | some ⟨_, _, .received⟩ => (s, { t with pc := .rfClear (nat! r) "ok" })
       | _ => (s, t.done "bad-op"))
    | ["dv", r] =>
      (match getH t.regs (nat! r) with
       | some ⟨_, _, .view _ _ _⟩ => (s, { t with pc := .rfClear (nat! r) "ok" })
       | _ => (s, t.done "bad-op"))
    | ["vr", r] =>
      (match getH t.regs (nat! r) with
       | some ⟨_, _, .view _ _ _⟩ => (s, { t with pc := .vrRead (nat! r) })
       | _ => (s, t.done "bad-op"))
    | ["vt", r, k] =>
      (match getH t.regs (nat! r) with
       | some ⟨_, sl, .view off len wkc⟩ =>
         let c := min (nat! k) len
         (s, { (t.done "ok") with regs := putH t.regs ⟨nat! r, sl, .view (off + c) (len - c) wkc⟩ })
       | _ => (s, t.done "bad-op"))
    | ["no"] => (s, t.done "ok")
    | _ => (s, t.done "bad-op")

def slotOf (t : Thread) (r : Nat) : Nat := match getH t.regs r with | some h => h.slot | none => 0

/-- One granted step of thread `t`. -/
def stepThread (s : Sys) (t : Thread) : Sys × Thread :=
  match t.pc with
  | .idle => begin s t
  -- alloc_frame ------------------------------------------------------------------------------
  | .alFetch r j =>
    let idx := s.frameIdx % 256 % s.n
    ({ s with frameIdx := (s.frameIdx + 1) % 256 }, { t with pc := .alCas r j idx })
  | .alCas r j idx =>
    let x := s.slot idx
    if x.st = .none then (s.setSlot idx { x with st := .created, used := 0 }, { t with pc := .alWaker r idx })
    else if j + 1 < 2 * s.n then (s, { t with pc := .alFetch r (j + 1) })
    else (s, t.done "err.swapstate")
  | .alWaker r k => (s, { t with pc := .alFirst r k })
  | .alFirst r k =>
    let x := s.slot k
    (s.setSlot k { x with first := Gen.FIRST_PDU_EMPTY }, { t with pc := .alBuf r k })
  | .alBuf r k =>
    let x := s.slot k
    (s.setSlot k { x with used := 0, buf := ethHeader ++ zeros (s.data - 14) },
      { (t.done s!"ok.{k}") with regs := putH t.regs ⟨r, k, .created 0 none⟩ })
  -- push_pdu / push_pdu_slice_rest -------------------------------------------------------------
  | .puFetch r c data lenOv rest =>
    ({ s with pduIdx := (s.pduIdx + 1) % 256 }, { t with pc := .puWrite r c data lenOv rest s.pduIdx })
  | .puWrite r c data lenOv rest idx =>
    (match getH t.regs r with
     | some ⟨_, k, .created count last⟩ =>
       let x := s.slot k
       let f := slotFrame s x count last
       if rest then
         let res := f.pushRest c data idx
         (match res.2.1 with
          | .some n h =>
            -- header+data written, used advanced; marker and flag patch are separate accesses
            let f1 : CFrame := { res.1 with pdu := setRange (setRange f.pdu f.used (pduHeader c idx n false)) (f.used + 10) (data.take n) }
            (s.setSlot k (frameSlot x f1 none),
              { t with pc := .puFirst r idx (s!"some.{n}." ++ showHandle h) last,
                       regs := putH t.regs ⟨r, k, .created res.1.count res.1.last⟩ })
          | .none => (s, t.done "none")
          | .tooLong => (s, t.done "toolong"))
       else
         let res := f.pushPdu c data lenOv idx
         (match res.2 with
          | some h =>
            let f1 : CFrame := { res.1 with pdu := setRange (setRange f.pdu f.used (pduHeader c idx (declLen data lenOv) false)) (f.used + 10) data }
            (s.setSlot k (frameSlot x f1 none),
              { t with pc := .puFirst r idx ("ok." ++ showHandle h) last,
                       regs := putH t.regs ⟨r, k, .created res.1.count res.1.last⟩ })
          | none => (s, t.done "toolong"))
     | _ => (s, t.done "bad-op"))
  | .puFirst r idx out patch =>
    let k := slotOf t r
    let x := s.slot k
    let s' := if x.first = Gen.FIRST_PDU_EMPTY then s.setSlot k { x with first := idx } else s
    (match patch with
     | some loc => (s', { t with pc := .puPatch r out loc })
     | none => (s', t.done out))
  | .puPatch r out loc =>
    let k := slotOf t r
    let x := s.slot k
    (s.setSlot k { x with buf := x.buf.take 16 ++ patchMore (x.buf.drop 16) loc }, t.done out)
  -- mark_sendable ----------------------------------------------------------------------------------
  | .mkHdr r retries timeout =>
    let k := slotOf t r
    let x := s.slot k
    (s.setSlot k { x with buf := setRange x.buf 14 (ecatHeader x.used) }, { t with pc := .mkStore r retries timeout })
  | .mkStore r retries timeout =>
    let k := slotOf t r
    let x := s.slot k
    (s.setSlot k { x with st := .sendable },
      { t with pc := .mkDrop r, regs := putH t.regs ⟨r, k, .fut retries (s.now + timeout) timeout false⟩ })
  | .mkDrop r =>
    -- Drop of the consumed CreatedFrame: Created → None compare-exchange
    let k := slotOf t r
    let x := s.slot k
    ((if x.st = .created then s.setSlot k { x with st := .none } else s), t.done "ok")
  | .dcCas r =>
    let k := slotOf t r
    let x := s.slot k
    ((if x.st = .created then s.setSlot k { x with st := .none } else s),
      { (t.done "ok") with regs := delH t.regs r })
  -- transmit side ------------------------------------------------------------------------------------
  | .tnCas r i =>
    let x := s.slot i
    if x.st = .sendable then
      (s.setSlot i { x with st := .sending }, { (t.done s!"some.{i}") with regs := putH t.regs ⟨r, i, .sendable⟩ })
    else if i + 1 < s.n then (s, { t with pc := .tnCas r (i + 1) })
    else (s, t.done "none")
  | .tsRead r o =>
    let k := slotOf t r
    let x := s.slot k
    (s, { t with pc := .tsMark r o (x.buf.take (16 + x.used)) })
  | .tsMark r o bytes =>
    let k := slotOf t r
    let x := s.slot k
    let target := if o = 0 then St.sent else St.sendable
    ((if x.st = .sending then s.setSlot k { x with st := target } else s),
      { (t.done ((if o = 0 then "ok." else if o = 1 then "partial." else "err.") ++ hexBytes bytes)) with
        regs := delH t.regs r })
  -- receive side -------------------------------------------------------------------------------------
  | .rxState i p idx =>
    if (s.slot i).st = .sent then (s, { t with pc := .rxMarker i p idx })
    else if i + 1 < s.n then (s, { t with pc := .rxState (i + 1) p idx })
    else (s, t.done "err.decode")
  | .rxMarker i p idx =>
    if (s.slot i).first = idx then (s, { t with pc := .rxClaim i p idx })
    else if i + 1 < s.n then (s, { t with pc := .rxState (i + 1) p idx })
    else (s, t.done "err.decode")
  | .rxClaim k p idx =>
    let x := s.slot k
    if x.st = .sent then (s.setSlot k { x with st := .rxBusy }, { t with pc := .rxVerify k p idx })
    else (s, t.done s!"err.invalidindex.{k}")
  | .rxVerify k p idx =>
    -- the request found by the lookup may have been dropped and the slot re-used since: the marker
    -- is stable now that the frame is held
    if (s.slot k).first = idx then (s, { t with pc := .rxCopy k p })
    else (s, { t with pc := .rxUnclaim k })
  | .rxUnclaim k =>
    let x := s.slot k
    ((if x.st = .rxBusy then s.setSlot k { x with st := .sent } else s), t.done s!"err.invalidindex.{k}")
  | .rxCopy k p =>
    let x := s.slot k
    if s.data - 16 < p.length then (s, t.done "err.internal")
    else (s.setSlot k { x with buf := setRange x.buf 16 p }, { t with pc := .rxMark k })
  | .rxMark k =>
    let x := s.slot k
    if x.st = .rxBusy then (s.setSlot k { x with st := .rxDone }, { t with pc := .rxWake k })
    else (s, t.done "err.invalidframestate")
  | .rxWake _ => (s, t.done "processed")
  -- the awaiting future ------------------------------------------------------------------------------
  | .poWaker r => (s, { t with pc := .poCas r })
  | .poCas r =>
    (match getH t.regs r with
     | some ⟨_, k, .fut retries deadline timeout armed⟩ =>
       let x := s.slot k
       if x.st = .rxDone then
         (s.setSlot k { x with st := .rxProcessing }, { (t.done "ready.ok") with regs := putH t.regs ⟨r, k, .received⟩ })
       else
         let was := x.st
         let okWas := was = .sendable ∨ was = .sending ∨ was = .sent ∨ was = .rxBusy
         if armed ∧ s.now ≥ deadline then
           if retries = 0 then (s, { t with pc := .poRelease r })
           else (s, { t with pc := .poRetry r was (s.now + timeout) })
         else if okWas then (s, { (t.done "pending") with regs := putH t.regs ⟨r, k, .fut retries deadline timeout true⟩ })
         else (s, { (t.done "ready.err.invalidframestate") with regs := delH t.regs r })
     | _ => (s, t.done "bad-op"))
  | .poRelease r =>
    let k := slotOf t r
    let x := s.slot k
    (s.setSlot k { x with st := .none }, { (t.done "ready.err.timeout") with regs := delH t.regs r })
  | .poRetry r was deadline' =>
    (match getH t.regs r with
     | some ⟨_, k, .fut retries _ timeout _⟩ =>
       let x := s.slot k
       let s' := if x.st = .sent then s.setSlot k { x with st := .sendable } else s
       if was = .sendable ∨ was = .sending ∨ was = .sent ∨ was = .rxBusy then
         (s', { (t.done "pending") with regs := putH t.regs ⟨r, k, .fut (retries - 1) deadline' timeout true⟩ })
       else (s', { (t.done "ready.err.invalidframestate") with regs := delH t.regs r })
     | _ => (s, t.done "bad-op"))
  | .dfStore r =>
    let k := slotOf t r
    let x := s.slot k
    (s.setSlot k { x with st := .none }, { (t.done "ok") with regs := delH t.regs r })
  -- reading the response -------------------------------------------------------------------------------
  | .fpRead r code idx =>
    let k := slotOf t r
    let x := s.slot k
    (match parsePduAt (x.buf.drop 16) 0 with
     | .errWireShort => (s, { t with pc := .rfClear r "err.wire.short" })
     | .errTooLong => (s, { t with pc := .rfClear r "err.toolong" })
     | .errInternal => (s, { t with pc := .rfClear r "err.internal" })
     | .ok off len wkc c i _ =>
       if c ≠ code then (s, { t with pc := .rfClear r "err.decode" })
       else if i ≠ idx then (s, { t with pc := .rfClear r s!"err.invalidindex.{i}" })
       else (s, { (t.done s!"ok.{len}.{wkc}") with regs := putH t.regs ⟨r, k, .view (16 + off) len wkc⟩ }))
  | .rfClear r out =>
    let k := slotOf t r
    let x := s.slot k
    (s.setSlot k { x with first := Gen.FIRST_PDU_EMPTY }, { t with pc := .rfCas r out })
  | .rfCas r out =>
    let k := slotOf t r
    let x := s.slot k
    if x.st = .rxProcessing then (s.setSlot k { x with st := .none }, { (t.done out) with regs := delH t.regs r })
    else (s, { (t.done "panic") with regs := delH t.regs r })
  | .itNext r left pos acc =>
    let k := slotOf t r
    let x := s.slot k
    let pdu := x.buf.drop 16
    let finish (acc : List String) : Sys × Thread :=
      (s, { t with pc := .rfClear r (String.intercalate "," acc.reverse) })
    (match pos with
     | none => finish acc
     | some p =>
       if pdu.length < p then finish acc else
       let again (tok : String) : Sys × Thread :=
         if left ≤ 1 then finish (tok :: acc) else (s, { t with pc := .itNext r (left - 1) (some p) (tok :: acc) })
       match parsePduAt pdu p with
       | .errWireShort => again "err.wire.short"
       | .errTooLong => again "err.toolong"
       | .errInternal => again "err.internal"
       | .ok off len wkc _ _ more =>
         (s, { t with pc := .itRead r left (if more then some (p + 10 + len + 2) else none) acc off len wkc }))
  | .itRead r left pos acc off len wkc =>
    let k := slotOf t r
    let x := s.slot k
    let item := s!"{hexBytes (((x.buf.drop 16).drop off).take len)}.{wkc}"
    if left ≤ 1 then (s, { t with pc := .rfClear r (String.intercalate "," (item :: acc).reverse) })
    else if pos.isNone then (s, { t with pc := .itNext r (left - 1) pos (item :: acc) })
    else (s, { t with pc := .itNext r (left - 1) pos (item :: acc) })
  | .vrRead r =>
    (match getH t.regs r with
     | some ⟨_, k, .view off len wkc⟩ => (s, t.done s!"{hexBytes (viewBytes s k off len)}.{len}.{wkc}")
     | _ => (s, t.done "bad-op"))

/-- Grant the baton to thread `tid` for one step. -/
def step (w : MWorld) (tid : Nat) : Option MWorld :=
  match w.threads[tid]? with
  | none => none
  | some t =>
    if t.finished then none else
    let r := stepThread w.sys t
    some { sys := r.1, threads := w.threads.set tid r.2 }

/-- FNV-1a (32 bit) of a string, for compact per-step snapshots in the line protocol. -/
def fnv32 (s : String) : Nat :=
  s.toUTF8.foldl (fun h b => ((h ^^^ b.toNat) * 16777619) % 4294967296) 2166136261

def snapshot (s : Sys) : String :=
  s!"{s.frameIdx}.{s.pduIdx}/" ++ String.intercalate "/" (s.slots.map snapSlot)

end Ec.Micro
