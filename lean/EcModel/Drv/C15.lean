/- Line protocol for C15: see Drv/Coe.lean. -/
import EcModel.Drv.Coe

namespace Ec.Drv.C15

def handle (args : List String) : String := Ec.Drv.Coe.handle args

end Ec.Drv.C15
