/-
  The specification server of `CoeServer.lean` as an environment (`World`) of the client model of `Coe.lean`.
-/
import EcModel.Coe
import EcModel.CoeServer

namespace Ec.Coe
open Ec

/-- The honest device of C15. -/
def serverWorld : World CoeSrv.Server where
  respond := CoeSrv.serve

end Ec.Coe
