//! C12 — EEPROM range reads return exactly the stored bytes; the SII parsers return what a well-formed image
//! encodes. The REAL `EepromRange` / `SubDeviceEeprom` run on the in-memory provider (4 or 8 bytes per access).
use ecverif::eeprom_gen::{self as eg, CatDesc, Case, DeviceDesc, Fill, GenOpts, Oracle};
use ecverif::rng::Rng;
use ecverif::util::{Report, hex, unhex};

fn mem_byte(case: &Case, a: u32) -> u8 {
    match case.fill {
        Fill::Wrap => {
            if case.img.is_empty() {
                0xff
            } else {
                case.img[a as usize % case.img.len()]
            }
        }
        Fill::Ff => case.img.get(a as usize).copied().unwrap_or(0xff),
        Fill::Zero => case.img.get(a as usize).copied().unwrap_or(0),
    }
}

/// Monitor of a read-only range query (`rg`/`sa` with ops r/x only): every returned byte string must be the
/// stored bytes at the cursor, its length `min(requested, window end - cursor)`.
fn check_range_query(case: &Case, q: &str, body: &str, line: &str, rep: &mut Report) {
    let f: Vec<&str> = q.split(':').collect();
    let via_start_at = f[0] == "sa";
    let start: u32 = f[1].parse().unwrap();
    let len: u32 = f[2].parse().unwrap();
    // the window the caller asked for, in bytes
    let lo = 2 * start;
    // ... clipped to the 2^16 words the provider's word addresses can reach
    // start_at covers `len` bytes rounded up to whole words
    let hi = (if via_start_at { lo + 2 * len.div_ceil(2) } else { lo + 2 * len }).min(0x2_0000);
    let representable = true;
    let ops: Vec<&str> = f[3].split(',').collect();
    let outs: Vec<&str> = body.split('|').next().unwrap().split(',').collect();
    let mut pos = lo;
    let mut bad: Option<(&str, String)> = None;
    for (i, op) in ops.iter().enumerate() {
        let Some(out) = outs.get(i) else { break };
        let n: u32 = op[1..].parse().unwrap();
        let want = n.min(hi.saturating_sub(pos));
        let exp: Vec<u8> = (0..want).map(|k| mem_byte(case, pos + k)).collect();
        let kind = &op[..1];
        if out.starts_with('!') {
            bad = Some(("panic", format!("op {op} panicked: {out}")));
            break;
        }
        match kind {
            "r" => {
                let got = out.strip_prefix("r=").map(unhex);
                match got {
                    Some(g) if g == exp => pos += want,
                    Some(g) if g.len() as u32 != want => {
                        bad = Some(("count", format!("read of {n} at byte {pos} returned {} bytes, window {lo}..{hi} allows {want}", g.len())));
                        break;
                    }
                    Some(g) => {
                        bad = Some(("bytes", format!("read of {n} at byte {pos} returned {} but the image holds {}", hex(&g), hex(&exp))));
                        break;
                    }
                    None => {
                        bad = Some(("error", format!("read failed: {out}")));
                        break;
                    }
                }
            }
            "x" => {
                if want == n {
                    match out.strip_prefix("x=").filter(|s| !s.starts_with('E') && *s != "eof").map(unhex) {
                        Some(g) if g == exp => pos += n,
                        Some(g) => {
                            bad = Some(("bytes", format!("read_exact of {n} at byte {pos} returned {} but the image holds {}", hex(&g), hex(&exp))));
                            break;
                        }
                        None => {
                            bad = Some(("count", format!("read_exact of {n} at byte {pos} failed ({out}) although the window {lo}..{hi} holds the bytes")));
                            break;
                        }
                    }
                } else {
                    if *out != "x=eof" {
                        bad = Some(("count", format!("read_exact of {n} at byte {pos} gave {out}, but only {want} bytes are left in {lo}..{hi}")));
                    }
                    break;
                }
            }
            _ => return, // mixed sequences are compared with the model only
        }
    }
    if let Some((k, what)) = bad {
        if !representable {
            eg::fail(rep, "c12/range-beyond-64k", &format!("window ends beyond byte 65535 (u16 cursor): {what}"), line);
        } else {
            eg::fail(rep, &format!("c12/range-{k}"), &what, line);
        }
    }
}

/// All (start, length) ranges on a small image, several read schedules each.
fn range_cases(rng: &mut Rng, words: usize, checked: bool, rep: &mut Report) {
    let img = rng.bytes(2 * words);
    for cs in [4usize, 8] {
        for start in 0..=words + 1 {
            let mut queries = Vec::new();
            for len in 0..=words + 2 - start.min(words + 1) {
                let nbytes = 2 * len;
                // one read of exactly / less / more than the window
                for n in [nbytes, nbytes.saturating_sub(1), nbytes + 1, nbytes + 9, 1, 0] {
                    queries.push(format!("rg:{start}:{len}:r{n},r1"));
                }
                queries.push(format!("rg:{start}:{len}:x{nbytes},r1"));
                queries.push(format!("rg:{start}:{len}:x{}", nbytes + 1));
                // a random sequence of partial reads that together exceed the window
                let mut ops = Vec::new();
                let mut total = 0;
                while total <= nbytes + 2 && ops.len() < 12 {
                    let n = rng.range(0, 5) as usize;
                    total += n;
                    ops.push(format!("r{n}"));
                }
                queries.push(format!("rg:{start}:{len}:{}", ops.join(",")));
                // byte-wise
                queries.push(format!("rg:{start}:{len}:{}", vec!["r1"; nbytes + 2].join(",")));
                // through start_at with every byte length (odd and even)
                for lb in [nbytes, nbytes + 1] {
                    queries.push(format!("sa:{start}:{lb}:r{lb},r1"));
                    queries.push(format!("sa:{start}:{lb}:x{lb}"));
                }
            }
            let case = Case { key: "c12".into(), cs, fill: *rng.pick(&[Fill::Ff, Fill::Zero, Fill::Wrap]), img: img.clone(), queries };
            run_range_case(&case, checked, rep);
        }
    }
}

fn run_range_case(case: &Case, checked: bool, rep: &mut Report) {
    let line = case.to_line(checked);
    let (_p, res) = eg::run_case(case);
    for (q, r) in case.queries.iter().zip(&res) {
        check_range_query(case, q, &r.body, &line, rep);
        rep.hit(if q.starts_with("sa") { "range-start_at" } else { "range-new" });
    }
    rep.hit(&format!("range-cs{}", case.cs));
    rep.nontrivial.insert(line.clone());
    rep.case(line, eg::answer_line(&res));
}

/// Random ranges anywhere in the 16-bit word space of a large image.
fn random_range_case(rng: &mut Rng, img: &[u8], checked: bool, rep: &mut Report) {
    let words = (img.len() / 2).max(1) as u64;
    let words = words.min(0xffff);
    let mut queries = Vec::new();
    for _ in 0..40 {
        let start = match rng.below(6) {
            0 => rng.range(0x7ff0, 0x8010),
            1 => rng.range(0xfff0, 0xffff),
            _ => rng.below(words),
        };
        let len = match rng.below(5) {
            0 => rng.edgy(0xffff),
            _ => rng.range(0, 40),
        };
        let mut ops = Vec::new();
        for _ in 0..rng.range(1, 5) {
            let n = rng.edgy(2 * len.min(64) + 3);
            ops.push(format!("{}{n}", if rng.chance(1, 4) { "x" } else { "r" }));
        }
        if rng.chance(1, 4) {
            queries.push(format!("sa:{start}:{}:{}", rng.edgy(2 * len.min(200) + 1), ops.join(",")));
        } else {
            queries.push(format!("rg:{start}:{len}:{}", ops.join(",")));
        }
    }
    let case = Case { key: "c12".into(), cs: if rng.chance(1, 2) { 4 } else { 8 }, fill: *rng.pick(&[Fill::Ff, Fill::Wrap]), img: img.to_vec(), queries };
    run_range_case(&case, checked, rep);
}

/// Mixed operation sequences (read, read_exact, read_byte, skip, position): compared with the model only.
fn mixed_case(rng: &mut Rng, checked: bool, rep: &mut Report) {
    let img = { let n = rng.range(0, 64) as usize; rng.bytes(n) };
    let mut queries = Vec::new();
    for _ in 0..12 {
        let start = rng.edgy(40);
        let len = rng.edgy(20);
        let mut ops = Vec::new();
        for _ in 0..rng.range(1, 8) {
            ops.push(match rng.below(6) {
                0 => "b".to_string(),
                1 => format!("s{}", rng.edgy(50)),
                2 => format!("x{}", rng.edgy(12)),
                3 => "p".to_string(),
                _ => format!("r{}", rng.edgy(12)),
            });
        }
        queries.push(format!("rg:{start}:{len}:{}", ops.join(",")));
    }
    let case = Case { key: "c12".into(), cs: if rng.chance(1, 2) { 4 } else { 8 }, fill: *rng.pick(&[Fill::Ff, Fill::Zero, Fill::Wrap]), img, queries };
    let line = case.to_line(checked);
    let (_p, res) = eg::run_case(&case);
    rep.hit("mixed-ops");
    rep.case(line, eg::answer_line(&res));
}

/// All queries for one device description, with the oracle's expectation (None: no expectation).
fn device_queries(d: &DeviceDesc, rng: &mut Rng) -> Vec<(String, Option<String>)> {
    let o = Oracle { d };
    let (_img, extents) = d.encode();
    let mut q: Vec<(String, Option<String>)> = vec![
        ("id".into(), Some(o.identity())),
        ("alias".into(), Some(o.alias())),
        ("size".into(), Some(o.size())),
        ("mbox".into(), o.mailbox()),
        ("gen".into(), Some(o.general_answer())),
        ("sms".into(), Some(o.sms())),
        ("fmmus".into(), Some(o.fmmus())),
        ("fmmuex".into(), Some(o.fmmuex())),
        ("pdos:t".into(), Some(o.pdos(true))),
        ("pdos:r".into(), Some(o.pdos(false))),
    ];
    let nstr = o.strings().map(|s| s.len()).unwrap_or(0);
    let mut idxs: Vec<usize> = vec![0, 1, nstr, nstr + 1];
    for _ in 0..3 {
        idxs.push(rng.range(0, nstr as u64 + 2) as usize);
    }
    idxs.sort();
    idxs.dedup();
    for i in idxs.into_iter().filter(|i| *i <= 255) {
        let n = *rng.pick(&eg::STRING_NS);
        q.push((format!("str:{n}:{i}"), Some(o.string(n, i as u8))));
    }
    let n = *rng.pick(&[64usize, 16, 255]);
    q.push((format!("name:{n}"), Some(o.name(n))));
    let n = *rng.pick(&[128usize, 16, 255]);
    q.push((format!("desc:{n}"), Some(o.desc(n))));
    // category extents: first category of each searched type
    for t in [10u16, 30, 40, 41, 42, 50, 51] {
        let exp = match extents.iter().find(|e| e.0 == t) {
            Some((_, off, len)) => format!("some.{}.{}", off, off + len),
            None => "none".into(),
        };
        q.push((format!("cat:{t}"), Some(exp)));
    }
    q
}

/// Byte offset (exclusive) up to which the image must be walked/read to answer a query about category `t`
/// (its body end, or the end marker when absent).
fn reach_of(d: &DeviceDesc, t: Option<u16>) -> usize {
    let (img, extents) = d.encode();
    match t.and_then(|t| extents.iter().find(|e| e.0 == t)) {
        Some((_, off, len)) => off + len,
        None => img.len() + 2,
    }
}

fn query_category(q: &str, d: &DeviceDesc) -> Vec<Option<u16>> {
    let f: Vec<&str> = q.split(':').collect();
    match f[0] {
        "gen" => vec![Some(30)],
        "sms" => vec![Some(41)],
        "fmmus" => vec![Some(40)],
        "fmmuex" => vec![Some(42)],
        "pdos" => vec![Some(if f[1] == "t" { 50 } else { 51 })],
        "str" => vec![Some(10)],
        "name" | "desc" => vec![Some(30), Some(10)],
        "cat" => vec![Some(f[1].parse().unwrap())],
        _ => {
            let _ = d;
            vec![]
        }
    }
}

fn run_device_case(d: &DeviceDesc, pad_to_size: bool, rng: &mut Rng, checked: bool, rep: &mut Report) {
    let (mut img, _ext) = d.encode();
    if pad_to_size {
        let w = u16::from_le_bytes([d.header[124], d.header[125]]) as usize;
        let size = (w + 1) * 128;
        if img.len() < size {
            img.resize(size, 0xff);
        }
    }
    let qs = device_queries(d, rng);
    let case = Case {
        key: "c12".into(),
        cs: if rng.chance(1, 2) { 4 } else { 8 },
        fill: *rng.pick(&[Fill::Ff, Fill::Zero]),
        img,
        queries: qs.iter().map(|x| x.0.clone()).collect(),
    };
    let line = case.to_line(checked);
    let (_p, res) = eg::run_case(&case);
    let nstr = Oracle { d }.strings().map(|s| s.len()).unwrap_or(0);
    let size_word = u16::from_le_bytes([d.header[124], d.header[125]]);
    let empties_before = |t: Option<u16>| -> usize {
        // categories of zero length visited before the target (the code gives up after 32 of them)
        let mut n = 0;
        for c in &d.cats {
            if c.body().is_empty() {
                n += 1;
            }
            if Some(c.type_code()) == t {
                break;
            }
        }
        n
    };
    for ((q, exp), r) in qs.iter().zip(&res) {
        let kind = q.split(':').next().unwrap();
        rep.hit(&format!("parse-{kind}"));
        let Some(exp) = exp else { continue };
        if &r.body == exp {
            continue;
        }
        let what = format!("{q}: got {} but the image encodes {}", &r.body[..r.body.len().min(200)], &exp[..exp.len().min(200)]);
        let cats = query_category(q, d);
        let beyond = cats.iter().any(|t| reach_of(d, *t) > 0x2_0000);
        let many_empty = cats.iter().any(|t| empties_before(*t) >= 32);
        if beyond {
            eg::fail(rep, "c12/category-beyond-128k", &format!("category data beyond word 0xFFFF cannot be addressed through EepromDataProvider: {what}"), &line);
        } else if many_empty {
            eg::fail(rep, "c12/empty-category-heuristic", &format!("32 empty categories stop the search: {what}"), &line);
        } else if kind == "size" && size_word >= 511 {
            eg::fail(rep, "c12/size-overflow", &format!("size word {size_word}: (word + 1) * 128 does not fit u16: {what}"), &line);
        } else if (kind == "str" && q.rsplit(':').next().unwrap().parse::<usize>().unwrap() == nstr + 1)
            || ((kind == "name" || kind == "desc")
                && Oracle { d }.general().map(|g| (if kind == "name" { g.order_idx } else { g.name_idx }) as usize == nstr + 1).unwrap_or(false))
        {
            eg::fail(rep, "c12/find-string-one-past", &format!("string index one past the table ({} strings) is not reported absent: {what}", nstr), &line);
        } else {
            eg::fail(rep, &format!("c12/parse-{kind}"), &what, &line);
        }
    }
    rep.hit(&format!("device-cats={}", d.cats.len().min(12)));
    rep.hit(&format!("device-cs{}", case.cs));
    if d.cats.len() >= 3 {
        rep.nontrivial.insert(hex(&case.img[..case.img.len().min(4096)]));
    }
    rep.case(line, eg::answer_line(&res));
}

fn main() {
    let args = ecverif::parse_args();
    eg::install_panic_capture();
    let checked = eg::is_checked_build();
    let mut rep = Report::default();
    rep.notes.push(format!("c12 arithmetic profile: {}", if checked { "checked (debug)" } else { "wrapping (release)" }));
    if let Some(cases) = ecverif::replay_cases(&args) {
        for c in cases.iter().filter(|c| c.starts_with("c12 ")) {
            if let Some(case) = Case::parse(c) {
                let (_p, res) = eg::run_case(&case);
                let line = case.to_line(checked);
                for (q, r) in case.queries.iter().zip(&res) {
                    if q.starts_with("rg:") || q.starts_with("sa:") {
                        check_range_query(&case, q, &r.body, &line, &mut rep);
                    }
                }
                rep.case(line, eg::answer_line(&res));
            }
        }
    } else {
        let r = std::panic::catch_unwind(std::panic::AssertUnwindSafe(|| run(&args.tier, args.seed, checked, &mut rep)));
        if r.is_err() {
            eprintln!("harness bug: generator/monitor panicked: {:?}", eg::take_last_panic());
            std::process::exit(3);
        }
    }
    rep.write(&args.out, "c12");
}

fn corpus_devices() -> Vec<DeviceDesc> {
    let mut hdr = vec![0u8; 128];
    hdr[8] = 0x34;
    hdr[9] = 0x12;
    hdr[16..20].copy_from_slice(&2u32.to_le_bytes());
    hdr[20..24].copy_from_slice(&0x044c2c52u32.to_le_bytes());
    hdr[48..58].copy_from_slice(&[0x00, 0x10, 0x80, 0x00, 0x80, 0x10, 0x80, 0x00, 0x04, 0x00]);
    hdr[124] = 15;
    let strings = vec![b"EL2889".to_vec(), b"DigOut".to_vec(), vec![0x45, 0x4c, 0xb5, 0x00, 0x41], vec![]];
    let general = eg::GeneralDesc {
        group_idx: 2,
        image_idx: 0,
        order_idx: 1,
        name_idx: 3,
        coe_details: 0x23,
        foe: 0,
        eoe: 1,
        flags: 0x11,
        ebus_current: (-2000i16) as u16,
        ports: [3, 0, 1, 4],
        phys_addr: 0x1234,
        reserved: [0; 5],
        tail: vec![0; 14],
    };
    let sm = |start, len, control, usage| eg::SmDesc { start, len, control, enable: 1, usage };
    let pdo = |index, sm, bits: &[u8]| eg::PdoDesc { index, sm, dc_sync: 0, name_idx: 0, flags: 0, entries: bits.iter().map(|b| (0x7000, 1, 0, 1, *b, 0)).collect() };
    let full = DeviceDesc {
        header: hdr.clone(),
        cats: vec![
            CatDesc::Strings(strings.clone()),
            CatDesc::Unknown(0x1234, vec![1, 2, 3]),
            CatDesc::General(general.clone()),
            CatDesc::Fmmu(vec![1, 2, 3]),
            CatDesc::Sm(vec![sm(0x1000, 128, 0x26, 1), sm(0x1080, 128, 0x22, 2), sm(0x1100, 2, 0x24, 3), sm(0x1180, 6, 0x20, 4)]),
            CatDesc::FmmuEx(vec![[0, 2, 0], [0, 3, 0]]),
            CatDesc::TxPdo(vec![pdo(0x1a00, 3, &[1, 1, 1, 1, 4, 8]), pdo(0x1a01, 3, &[16, 16])]),
            CatDesc::RxPdo(vec![pdo(0x1600, 2, &[255; 255])]),
        ],
        pad: 0,
        end_marker: true,
    };
    // string index one past the table: name index 5 with 4 strings
    let mut g2 = general.clone();
    g2.name_idx = 5;
    g2.order_idx = 5;
    let one_past = DeviceDesc { header: hdr.clone(), cats: vec![CatDesc::Strings(strings.clone()), CatDesc::General(g2)], pad: 0, end_marker: true };
    // size word 511 (64 KiB) and 4095 (4 Mbit)
    let mut h2 = hdr.clone();
    h2[124..126].copy_from_slice(&511u16.to_le_bytes());
    let size511 = DeviceDesc { header: h2, cats: vec![], pad: 0xff, end_marker: true };
    // a category whose body ends beyond byte 65535
    let far = DeviceDesc {
        header: hdr.clone(),
        cats: vec![CatDesc::Unknown(0x2000, vec![0x11; 65400]), CatDesc::Sm(vec![sm(0x1000, 128, 0x26, 1)]), CatDesc::Fmmu(vec![1, 2])],
        pad: 0,
        end_marker: true,
    };
    // PDO header fields the parser skips (DC sync, name string index, flags) at their extremes; exactly 64 PDOs
    // (the heapless capacity) in one direction and 65 (one too many: Capacity(Pdo)) in the other; General behind
    // Strings and PDOs
    let pdo_x = |index: u16, sm, n: usize| eg::PdoDesc {
        index,
        sm,
        dc_sync: 0xff,
        name_idx: 0xff,
        flags: 0xffff,
        entries: (0..n).map(|i| (0xffff, 0xff, 0xff, 0xff, (i % 7) as u8, 0xffff)).collect(),
    };
    let at_cap = DeviceDesc {
        header: hdr.clone(),
        cats: vec![
            CatDesc::Strings(strings.clone()),
            CatDesc::TxPdo((0..64).map(|i| pdo_x(0x1a00 + i, 3, (i % 4) as usize)).collect()),
            CatDesc::RxPdo((0..65).map(|i| pdo_x(0x1600 + i, 2, (i % 3) as usize)).collect()),
            CatDesc::General(general.clone()),
        ],
        pad: 0,
        end_marker: true,
    };
    // a PDO with the maximum of 255 entries next to an empty one, General in front of Strings
    let max_entries = DeviceDesc {
        header: hdr.clone(),
        cats: vec![
            CatDesc::General(general.clone()),
            CatDesc::RxPdo(vec![pdo_x(0x1600, 0, 0), pdo_x(0xffff, 0xff, 255), pdo_x(0, 0, 1)]),
            CatDesc::Strings(strings.clone()),
        ],
        pad: 0,
        end_marker: true,
    };
    // no categories at all, no end marker
    let blank = DeviceDesc { header: hdr, cats: vec![], pad: 0xff, end_marker: false };
    vec![full, one_past, size511, far, at_cap, max_entries, blank]
}

fn run(tier: &str, seed: u64, checked: bool, rep: &mut Report) {
    let mut rng = Rng::new(seed ^ 0xc12);
    let thorough = tier == "thorough";
    // corpus
    for d in corpus_devices() {
        run_device_case(&d, false, &mut rng, checked, rep);
    }
    // all ranges on small images
    for words in if thorough { vec![0usize, 1, 2, 3, 5, 8, 12, 16] } else { vec![0usize, 1, 3, 6] } {
        range_cases(&mut rng, words, checked, rep);
    }
    // random ranges on large images (up to 4 Mbit)
    for kbit in if thorough { vec![1usize, 16, 512, 1024, 4096] } else { vec![1usize, 512] } {
        let img = rng.bytes(kbit * 128);
        for _ in 0..if thorough { 6 } else { 2 } {
            random_range_case(&mut rng, &img, checked, rep);
        }
    }
    for _ in 0..if thorough { 4000 } else { 300 } {
        mixed_case(&mut rng, checked, rep);
    }
    // device descriptions
    let n_small = if thorough { 12_000 } else { 2_500 };
    let small = GenOpts::small();
    for _ in 0..n_small {
        let mut d = eg::gen_device(&mut rng, &small);
        // now and then around the capacity of the PDO list: 63..67 PDOs (more than 64 must be refused)
        if rng.chance(1, 16) {
            for c in d.cats.iter_mut() {
                if let CatDesc::TxPdo(p) | CatDesc::RxPdo(p) = c {
                    let n = rng.range(63, 67) as usize;
                    *p = (0..n).map(|_| eg::gen_pdo(&mut rng, small.max_entries)).collect();
                    rep.hit(if n > 64 { "pdos-over-capacity" } else { "pdos-at-capacity" });
                }
            }
        }
        run_device_case(&d, false, &mut rng, checked, rep);
    }
    let n_full = if thorough { 400 } else { 60 };
    let full = GenOpts::full();
    for i in 0..n_full {
        let mut d = eg::gen_device(&mut rng, &full);
        // EepromDataProvider addresses 2^16 words: keep the categories inside 128 KiB
        while d.encode().0.len() > 0x2_0000 - 8 {
            for c in d.cats.iter_mut() {
                if let CatDesc::TxPdo(p) | CatDesc::RxPdo(p) = c {
                    p.pop();
                }
            }
        }
        // pad a few images to their declared size (1 Kbit .. 4 Mbit)
        run_device_case(&d, i % 8 == 0, &mut rng, checked, rep);
    }
}
