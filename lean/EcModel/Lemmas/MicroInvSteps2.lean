/-
  Preservation of `MInv` by one micro-step, per program counter.
  Part 2: transmit side, receive side, the awaiting future (poll / retry / final timeout / drop).
-/
import EcModel.Lemmas.MicroInv

namespace Ec.Micro
open Ec

variable {w : MWorld} {tid : Nat} {prog outs : List String} {regs : List Hd}

/-! ### transmit side -/

/-- `claim_sending`: `Sendable → Sending` compare-exchange; on success the `SendableFrame` is stored in
    register `r` (whatever was there is overwritten). -/
theorem inv_tnCas (hI : MInv w) {r i : Nat}
    (ht : w.threads[tid]? = some ⟨prog, .tnCas r i, regs, outs⟩) :
    MInv (next w tid (stepThread w.sys ⟨prog, .tnCas r i, regs, outs⟩)) := by
  have hR : Regs regs := hI.regs _ (mem_of_get ht)
  simp only [stepThread]
  split
  · next hst =>
    have hlt : i < w.sys.n := st_ne_none_lt (by rw [hst]; simp)
    refine hI.step_set ht i _ hlt (regs_putH hR _) ⟨trivial, trivial⟩ ?_ ?_
    · intro k ρ hne
      have := hcount_delH_le regs r k ρ
      simp only [tcount, pcount, Pc.claim, Thread.done, hcount_putH, roleOf_sendable, one_ne_slot hne]
      omega
    · intro rest h0 _ ρ
      have h1 := h0 ρ
      rw [hst] at h1
      have := hcount_delH_le regs r i ρ
      simp only [tcount, pcount, Pc.claim, Thread.done, hcount_putH, roleOf_sendable] at h1 ⊢
      cases ρ <;> simp [cap, one] at h1 ⊢ <;> omega
  · split
    · exact hI.step_same ht (CapLe.refl _) hR ⟨trivial, trivial⟩ (fun _ _ => Nat.le_refl _)
    · exact hI.step_same ht (CapLe.refl _) hR ⟨trivial, trivial⟩ (fun _ _ => Nat.le_refl _)

theorem inv_tsRead (hI : MInv w) {r o : Nat}
    (ht : w.threads[tid]? = some ⟨prog, .tsRead r o, regs, outs⟩) :
    MInv (next w tid (stepThread w.sys ⟨prog, .tsRead r o, regs, outs⟩)) := by
  have hR : Regs regs := hI.regs _ (mem_of_get ht)
  obtain ⟨h, e, hρ⟩ := hI.need ht (r := r) (ρ := .tx) rfl
  simp only [stepThread]
  exact hI.step_same ht (CapLe.refl _) hR ⟨⟨h, e, hρ⟩, trivial⟩ (fun _ _ => Nat.le_refl _)

/-- `mark_sent` / `release_sending_claim`: compare-exchange from `Sending`, by the TX side, which then
    drops its handle. -/
theorem inv_tsMark (hI : MInv w) {r o : Nat} {bytes : List Nat}
    (ht : w.threads[tid]? = some ⟨prog, .tsMark r o bytes, regs, outs⟩) :
    MInv (next w tid (stepThread w.sys ⟨prog, .tsMark r o bytes, regs, outs⟩)) := by
  have hR : Regs regs := hI.regs _ (mem_of_get ht)
  obtain ⟨h, e, hρ⟩ := hI.need ht (r := r) (ρ := .tx) rfl
  have hg := hI.of_get ht e
  by_cases hst : (w.sys.slot h.slot).st = .sending
  · simp only [stepThread, slotOf, e, if_pos hst]
    refine hI.step_set ht h.slot _ hg.2 (regs_delH hR _) ⟨trivial, trivial⟩ ?_ ?_
    · intro k ρ hne
      simp only [tcount, pcount, Pc.claim, Thread.done, hcount_delH_some hR e k ρ]
      omega
    · intro rest h0 _ ρ
      have h1 := h0 ρ
      rw [hst] at h1
      simp only [tcount, pcount, Pc.claim, Thread.done, hcount_delH_some hR e, hρ] at h1 ⊢
      split <;> cases ρ <;> simp [cap, one] at h1 ⊢ <;> omega
  · simp only [stepThread, slotOf, e, if_neg hst]
    refine hI.step_same ht (CapLe.refl _) (regs_delH hR _) ⟨trivial, trivial⟩ ?_
    intro k ρ
    have := hcount_delH_le regs r k ρ
    simp only [tcount, pcount, Pc.claim, Thread.done]
    omega

/-! ### receive side -/

theorem inv_rxState (hI : MInv w) {i : Nat} {p : List Nat} {idx : Nat}
    (ht : w.threads[tid]? = some ⟨prog, .rxState i p idx, regs, outs⟩) :
    MInv (next w tid (stepThread w.sys ⟨prog, .rxState i p idx, regs, outs⟩)) := by
  have hR : Regs regs := hI.regs _ (mem_of_get ht)
  simp only [stepThread]
  repeat' split
  all_goals exact hI.step_same ht (CapLe.refl _) hR ⟨trivial, trivial⟩ (fun _ _ => Nat.le_refl _)

theorem inv_rxMarker (hI : MInv w) {i : Nat} {p : List Nat} {idx : Nat}
    (ht : w.threads[tid]? = some ⟨prog, .rxMarker i p idx, regs, outs⟩) :
    MInv (next w tid (stepThread w.sys ⟨prog, .rxMarker i p idx, regs, outs⟩)) := by
  have hR : Regs regs := hI.regs _ (mem_of_get ht)
  simp only [stepThread]
  repeat' split
  all_goals exact hI.step_same ht (CapLe.refl _) hR ⟨trivial, trivial⟩ (fun _ _ => Nat.le_refl _)

/-- `claim_receiving`: `Sent → RxBusy` compare-exchange; on success this thread is the RX party. -/
theorem inv_rxClaim (hI : MInv w) {k : Nat} {p : List Nat} {idx : Nat}
    (ht : w.threads[tid]? = some ⟨prog, .rxClaim k p idx, regs, outs⟩) :
    MInv (next w tid (stepThread w.sys ⟨prog, .rxClaim k p idx, regs, outs⟩)) := by
  have hR : Regs regs := hI.regs _ (mem_of_get ht)
  simp only [stepThread]
  split
  · next hst =>
    have hlt : k < w.sys.n := st_ne_none_lt (by rw [hst]; simp)
    refine hI.step_set ht k _ hlt hR ⟨trivial, trivial⟩ ?_ ?_
    · intro k' ρ hne
      simp only [tcount, pcount, Pc.claim, one_ne_slot hne]
      omega
    · intro rest h0 _ ρ
      have h1 := h0 ρ
      rw [hst] at h1
      simp only [tcount, pcount, Pc.claim] at h1 ⊢
      cases ρ <;> simp [cap, one] at h1 ⊢ <;> omega
  · exact hI.step_same ht (CapLe.refl _) hR ⟨trivial, trivial⟩ (fun _ _ => Nat.le_refl _)

/-- The marker is re-checked while the frame is held: only a load; the RX claim is kept either way. -/
theorem inv_rxVerify (hI : MInv w) {k : Nat} {p : List Nat} {idx : Nat}
    (ht : w.threads[tid]? = some ⟨prog, .rxVerify k p idx, regs, outs⟩) :
    MInv (next w tid (stepThread w.sys ⟨prog, .rxVerify k p idx, regs, outs⟩)) := by
  have hR : Regs regs := hI.regs _ (mem_of_get ht)
  simp only [stepThread]
  split
  all_goals exact hI.step_same ht (CapLe.refl _) hR ⟨trivial, trivial⟩ (fun _ _ => Nat.le_refl _)

/-- The hand-back: `RxBusy → Sent` compare-exchange by the RX party, which then leaves. The slot is
    `Sent` again with its awaiting future and no RX claim. -/
theorem inv_rxUnclaim (hI : MInv w) {k : Nat}
    (ht : w.threads[tid]? = some ⟨prog, .rxUnclaim k, regs, outs⟩) :
    MInv (next w tid (stepThread w.sys ⟨prog, .rxUnclaim k, regs, outs⟩)) := by
  have hR : Regs regs := hI.regs _ (mem_of_get ht)
  by_cases hst : (w.sys.slot k).st = .rxBusy
  · simp only [stepThread, if_pos hst]
    have hlt : k < w.sys.n := st_ne_none_lt (by rw [hst]; simp)
    refine hI.step_set ht k _ hlt hR ⟨trivial, trivial⟩ ?_ ?_
    · intro k' ρ hne
      simp only [tcount, pcount, Pc.claim, Thread.done]
      omega
    · intro rest h0 _ ρ
      have h1 := h0 ρ
      rw [hst] at h1
      simp only [tcount, pcount, Pc.claim, Thread.done] at h1 ⊢
      cases ρ <;> simp [cap, one] at h1 ⊢ <;> omega
  · simp only [stepThread, if_neg hst]
    refine hI.step_same ht (CapLe.refl _) hR ⟨trivial, trivial⟩ ?_
    intro k' ρ
    simp only [tcount, pcount, Pc.claim, Thread.done]
    omega

/-- The copy into the buffer; or RX gives up (payload too long): its claim disappears, the status
    stays `RxBusy`. -/
theorem inv_rxCopy (hI : MInv w) {k : Nat} {p : List Nat}
    (ht : w.threads[tid]? = some ⟨prog, .rxCopy k p, regs, outs⟩) :
    MInv (next w tid (stepThread w.sys ⟨prog, .rxCopy k p, regs, outs⟩)) := by
  have hR : Regs regs := hI.regs _ (mem_of_get ht)
  simp only [stepThread]
  split
  · refine hI.step_same ht (CapLe.refl _) hR ⟨trivial, trivial⟩ ?_
    intro k' ρ
    simp only [tcount, pcount, Pc.claim, Thread.done]
    omega
  · exact hI.step_same ht (CapLe.set_same _ _ _ rfl) hR ⟨trivial, trivial⟩ (fun _ _ => Nat.le_refl _)

/-- `mark_received`: `RxBusy → RxDone` compare-exchange by the RX party, which then leaves. -/
theorem inv_rxMark (hI : MInv w) {k : Nat}
    (ht : w.threads[tid]? = some ⟨prog, .rxMark k, regs, outs⟩) :
    MInv (next w tid (stepThread w.sys ⟨prog, .rxMark k, regs, outs⟩)) := by
  have hR : Regs regs := hI.regs _ (mem_of_get ht)
  simp only [stepThread]
  split
  · next hst =>
    have hlt : k < w.sys.n := st_ne_none_lt (by rw [hst]; simp)
    refine hI.step_set ht k _ hlt hR ⟨trivial, trivial⟩ ?_ ?_
    · intro k' ρ hne
      simp only [tcount, pcount, Pc.claim]
      omega
    · intro rest h0 _ ρ
      have h1 := h0 ρ
      rw [hst] at h1
      simp only [tcount, pcount, Pc.claim] at h1 ⊢
      cases ρ <;> simp [cap, one] at h1 ⊢ <;> omega
  · refine hI.step_same ht (CapLe.refl _) hR ⟨trivial, trivial⟩ ?_
    intro k' ρ
    simp only [tcount, pcount, Pc.claim, Thread.done]
    omega

theorem inv_rxWake (hI : MInv w) {k : Nat}
    (ht : w.threads[tid]? = some ⟨prog, .rxWake k, regs, outs⟩) :
    MInv (next w tid (stepThread w.sys ⟨prog, .rxWake k, regs, outs⟩)) := by
  have hR : Regs regs := hI.regs _ (mem_of_get ht)
  simp only [stepThread]
  exact hI.step_same ht (CapLe.refl _) hR ⟨trivial, trivial⟩ (fun _ _ => Nat.le_refl _)

/-! ### the awaiting future -/

theorem inv_poWaker (hI : MInv w) {r : Nat}
    (ht : w.threads[tid]? = some ⟨prog, .poWaker r, regs, outs⟩) :
    MInv (next w tid (stepThread w.sys ⟨prog, .poWaker r, regs, outs⟩)) := by
  have hR : Regs regs := hI.regs _ (mem_of_get ht)
  obtain ⟨h, e, hρ⟩ := hI.need ht (r := r) (ρ := .fut) rfl
  simp only [stepThread]
  exact hI.step_same ht (CapLe.refl _) hR ⟨⟨h, e, hρ⟩, trivial⟩ (fun _ _ => Nat.le_refl _)

/-- `poll`: `RxDone → RxProcessing` compare-exchange by the future's holder, who becomes the reader;
    otherwise the status is only looked at. -/
theorem inv_poCas (hI : MInv w) {r : Nat}
    (ht : w.threads[tid]? = some ⟨prog, .poCas r, regs, outs⟩) :
    MInv (next w tid (stepThread w.sys ⟨prog, .poCas r, regs, outs⟩)) := by
  have hR : Regs regs := hI.regs _ (mem_of_get ht)
  obtain ⟨⟨reg, k, kind⟩, e, hρ⟩ := hI.need ht (r := r) (ρ := .fut) rfl
  cases kind <;> simp at hρ
  rename_i retries deadline timeout armed
  have hg := hI.of_get ht e
  have hrel : MInv (next w tid (w.sys, ⟨prog, .poRelease r, regs, outs⟩)) :=
    hI.step_same ht (CapLe.refl _) hR ⟨⟨_, e, rfl⟩, trivial⟩ (fun _ _ => Nat.le_refl _)
  have hretry : ∀ was dl, MInv (next w tid (w.sys, ⟨prog, .poRetry r was dl, regs, outs⟩)) := fun _ _ =>
    hI.step_same ht (CapLe.refl _) hR ⟨⟨_, e, rfl⟩, trivial⟩ (fun _ _ => Nat.le_refl _)
  have hretag : ∀ (out : String) (a b c : Nat) (d : Bool),
      MInv (next w tid (w.sys, ⟨prog, .idle, putH regs ⟨r, k, .fut a b c d⟩, out :: outs⟩)) := by
    intro out a b c d
    refine hI.step_same ht (CapLe.refl _) (regs_putH hR _) ⟨trivial, trivial⟩ ?_
    intro k' ρ
    simp only [tcount, pcount, Pc.claim, hcount_putH, hcount_delH_some hR e, roleOf_fut]
    omega
  have hdel : ∀ out : String, MInv (next w tid (w.sys, ⟨prog, .idle, delH regs r, out :: outs⟩)) := by
    intro out
    refine hI.step_same ht (CapLe.refl _) (regs_delH hR _) ⟨trivial, trivial⟩ ?_
    intro k' ρ
    have := hcount_delH_le regs r k' ρ
    simp only [tcount, pcount, Pc.claim]
    omega
  simp only [stepThread, e]
  split
  · next hst =>
    refine hI.step_set ht k _ hg.2 (regs_putH hR _) ⟨trivial, trivial⟩ ?_ ?_
    · intro k' ρ hne
      simp only [tcount, pcount, Pc.claim, Thread.done, hcount_putH, hcount_delH_some hR e, roleOf_received,
        roleOf_fut, one_ne_slot hne]
      omega
    · intro rest h0 _ ρ
      have h1 := h0 ρ
      rw [hst] at h1
      simp only [tcount, pcount, Pc.claim, Thread.done, hcount_putH, hcount_delH_some hR e, roleOf_received,
        roleOf_fut] at h1 ⊢
      cases ρ <;> simp [cap, one] at h1 ⊢ <;> omega
  · repeat' split
    all_goals first
      | exact hrel
      | exact hretry _ _
      | exact hretag _ _ _ _ _
      | exact hdel _

theorem CapLe.retry (s : Sys) (k : Nat) :
    CapLe s (if (s.slot k).st = .sent then s.setSlot k { s.slot k with st := .sendable } else s) := by
  split
  · next h => exact CapLe.set _ _ _ (fun ρ => by rw [h]; exact Nat.le_refl _)
  · exact CapLe.refl _

/-- Retry: `Sent → Sendable` compare-exchange by the future's holder. Nobody is inside the buffer in
    either state, so no exclusion hypothesis is needed. -/
theorem inv_poRetry (hI : MInv w) {r : Nat} {was : St} {dl : Nat}
    (ht : w.threads[tid]? = some ⟨prog, .poRetry r was dl, regs, outs⟩) :
    MInv (next w tid (stepThread w.sys ⟨prog, .poRetry r was dl, regs, outs⟩)) := by
  have hR : Regs regs := hI.regs _ (mem_of_get ht)
  obtain ⟨⟨reg, k, kind⟩, e, hρ⟩ := hI.need ht (r := r) (ρ := .fut) rfl
  cases kind <;> simp at hρ
  rename_i retries deadline timeout armed
  simp only [stepThread, e]
  split
  · refine hI.step_same ht (CapLe.retry _ _) (regs_putH hR _) ⟨trivial, trivial⟩ ?_
    intro k' ρ
    simp only [tcount, pcount, Pc.claim, Thread.done, hcount_putH, hcount_delH_some hR e, roleOf_fut]
    omega
  · refine hI.step_same ht (CapLe.retry _ _) (regs_delH hR _) ⟨trivial, trivial⟩ ?_
    intro k' ρ
    have := hcount_delH_le regs r k' ρ
    simp only [tcount, pcount, Pc.claim, Thread.done]
    omega

/-- The arithmetic of abandonment (plain store of `None` by the future's holder) outside the excluded
    window: the slot is really free afterwards. -/
theorem abandon_arith (a : St) (k : Nat) (rest τ τ' W : Role → Nat)
    (h0 : ∀ ρ, rest ρ + τ ρ ≤ cap a ρ) (hw : ∀ ρ, W ρ = rest ρ + τ ρ)
    (hτ : ∀ ρ, τ ρ = one k .fut k ρ + τ' ρ)
    (hns : a ≠ .sending) (hrx : a = .rxBusy → W .rx = 0) (ρ : Role) :
    rest ρ + τ' ρ ≤ cap .none ρ := by
  have hf := h0 .fut
  have hff := hτ .fut
  have h1 := h0 ρ
  have h2 := hτ ρ
  have h3 := hw .rx
  have h4 := hτ .rx
  cases a <;> cases ρ <;> simp [cap, one] at * <;> omega

/-- Abandonment by a thread at `pc` (`poRelease` or `dfStore`): shared proof. -/
theorem inv_abandon (hI : MInv w) (hna : ¬ AbandonInsideStep w tid) {r : Nat} {pc : Pc}
    (hpc : pc = .poRelease r ∨ pc = .dfStore r) {out : String}
    (ht : w.threads[tid]? = some ⟨prog, pc, regs, outs⟩) :
    MInv (next w tid (w.sys.setSlot (slotOf ⟨prog, pc, regs, outs⟩ r)
        { w.sys.slot (slotOf ⟨prog, pc, regs, outs⟩ r) with st := .none },
      ⟨prog, .idle, delH regs r, out :: outs⟩)) := by
  have hR : Regs regs := hI.regs _ (mem_of_get ht)
  have hneeds : pc.needs = some (r, .fut) := by rcases hpc with rfl | rfl <;> rfl
  have hclaim : pc.claim = none := by rcases hpc with rfl | rfl <;> rfl
  obtain ⟨h, e, hρ⟩ := hI.need ht (r := r) (ρ := .fut) hneeds
  have hg := hI.of_get ht e
  have hk : slotOf ⟨prog, pc, regs, outs⟩ r = h.slot := by simp [slotOf, e]
  have hpc' : pc = .dfStore r ∨ pc = .poRelease r := hpc.symm
  have hns : (w.sys.slot h.slot).st ≠ .sending := by
    intro hc
    exact hna ⟨_, r, ht, hpc', Or.inl (by rw [hk]; exact hc)⟩
  have hrx : (w.sys.slot h.slot).st = .rxBusy → wcount w.threads h.slot .rx = 0 := by
    intro hc
    apply wcount_zero
    intro t' hm hh
    exact hna ⟨_, r, ht, hpc', Or.inr ⟨by rw [hk]; exact hc, t', hm, by rw [hk]; exact hh⟩⟩
  have e1 : ∀ k ρ, tcount ⟨prog, pc, regs, outs⟩ k ρ = hcount regs k ρ := by
    intro k ρ; simp only [tcount, pcount, hclaim]; omega
  have e2 : ∀ k ρ, tcount ⟨prog, .idle, delH regs r, out :: outs⟩ k ρ = hcount (delH regs r) k ρ := by
    intro k ρ; exact Nat.zero_add _
  rw [hk]
  refine hI.step_set ht h.slot _ hg.2 (regs_delH hR _) ⟨trivial, trivial⟩ ?_ ?_
  · intro k ρ hne
    rw [e1, e2, hcount_delH_some hR e k ρ]
    omega
  · intro rest h0 hw
    refine abandon_arith _ h.slot rest _ _ (fun ρ => wcount w.threads h.slot ρ) h0 hw ?_ hns hrx
    intro ρ
    rw [e1, e2, hcount_delH_some hR e, hρ]

/-- Final timeout: plain store of `None` — safe outside the excluded window. -/
theorem inv_poRelease (hI : MInv w) (hna : ¬ AbandonInsideStep w tid) {r : Nat}
    (ht : w.threads[tid]? = some ⟨prog, .poRelease r, regs, outs⟩) :
    MInv (next w tid (stepThread w.sys ⟨prog, .poRelease r, regs, outs⟩)) := by
  simp only [stepThread]
  exact inv_abandon hI hna (Or.inl rfl) ht

/-- Drop of the future: plain store of `None` — safe outside the excluded window. -/
theorem inv_dfStore (hI : MInv w) (hna : ¬ AbandonInsideStep w tid) {r : Nat}
    (ht : w.threads[tid]? = some ⟨prog, .dfStore r, regs, outs⟩) :
    MInv (next w tid (stepThread w.sys ⟨prog, .dfStore r, regs, outs⟩)) := by
  simp only [stepThread]
  exact inv_abandon hI hna (Or.inr rfl) ht

end Ec.Micro
