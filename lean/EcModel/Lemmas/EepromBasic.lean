/-
  Helper lemmas for the EEPROM model (C12/C13/C14): the cost-counting monad, memory slices, the chunk
  assembly loop of `EepromRange::read`, `read_exact`, `read_byte`.
-/
import EcModel.Eeprom

namespace Ec.Eeprom
open Ec

/-! ### monad -/

theorem bind_fst_ok {α β : Type} {x : M α} {a : α} (f : α → M β) (h : x.1 = .ok a) :
    (bind x f).1 = (f a).1 := by
  unfold bind; rw [h]

theorem bind_snd_ok {α β : Type} {x : M α} {a : α} (f : α → M β) (h : x.1 = .ok a) :
    (bind x f).2 = x.2 + (f a).2 := by
  unfold bind; rw [h]

theorem bind_eq_ok {α β : Type} {x : M α} {a : α} (f : α → M β) (h : x.1 = .ok a) :
    bind x f = ((f a).1, x.2 + (f a).2) := by
  unfold bind; rw [h]

theorem bind_eq_err {α β : Type} {x : M α} {e : Err} (f : α → M β) (h : x.1 = .err e) :
    bind x f = (.err e, x.2) := by
  unfold bind; rw [h]

theorem bind_eq_panic {α β : Type} {x : M α} {w : String} (f : α → M β) (h : x.1 = .panic w) :
    bind x f = (.panic w, x.2) := by
  unfold bind; rw [h]

@[simp] theorem bind_ret {α β : Type} (a : α) (f : α → M β) : bind (ret a) f = f a := by
  simp [bind, ret]

@[simp] theorem bind_call {α β : Type} (a : α) (f : α → M β) : bind (call a) f = ((f a).1, 1 + (f a).2) := by
  simp [bind, call]

@[simp] theorem bind_fail {α β : Type} (e : Err) (f : α → M β) : bind (fail e : M α) f = fail e := by
  simp [bind, fail]

@[simp] theorem bind_panicAt {α β : Type} (w : String) (f : α → M β) : bind (panicAt w : M α) f = panicAt w := by
  simp [bind, panicAt]

@[simp] theorem ret_fst {α : Type} (a : α) : (ret a).1 = .ok a := rfl
@[simp] theorem ret_snd {α : Type} (a : α) : (ret a).2 = 0 := rfl
@[simp] theorem fail_fst {α : Type} (e : Err) : (fail e : M α).1 = .err e := rfl
@[simp] theorem fail_snd {α : Type} (e : Err) : (fail e : M α).2 = 0 := rfl
@[simp] theorem panicAt_fst {α : Type} (w : String) : (panicAt w : M α).1 = .panic w := rfl
@[simp] theorem panicAt_snd {α : Type} (w : String) : (panicAt w : M α).2 = 0 := rfl

/-! ### u16 arithmetic -/

theorem add16_ok (m : Mode) (s : String) (a b : Nat) (h : a + b < 65536) : add16 m s a b = ret (a + b) := by
  simp [add16, h]

theorem mul16_ok (m : Mode) (s : String) (a b : Nat) (h : a * b < 65536) : mul16 m s a b = ret (a * b) := by
  simp [mul16, h]

theorem add16_wrapping (s : String) (a b : Nat) : add16 .wrapping s a b = ret ((a + b) % 65536) := by
  unfold add16; split
  · rw [Nat.mod_eq_of_lt (by assumption)]
  · rfl

theorem mul16_wrapping (s : String) (a b : Nat) : mul16 .wrapping s a b = ret ((a * b) % 65536) := by
  unfold mul16; split
  · rw [Nat.mod_eq_of_lt (by assumption)]
  · rfl

theorem add16_checked_ovf (s : String) (a b : Nat) (h : ¬ a + b < 65536) : add16 .checked s a b = panicAt s := by
  simp [add16, h]

theorem mul16_checked_ovf (s : String) (a b : Nat) (h : ¬ a * b < 65536) : mul16 .checked s a b = panicAt s := by
  simp [mul16, h]

/-! ### slices of memory -/

@[simp] theorem slice_length (rd : Nat → Nat) (a n : Nat) : (slice rd a n).length = n := by
  simp [slice]

@[simp] theorem slice_zero (rd : Nat → Nat) (a : Nat) : slice rd a 0 = [] := by simp [slice]

theorem slice_getElem? (rd : Nat → Nat) (a n i : Nat) :
    (slice rd a n)[i]? = if i < n then some (rd (a + i)) else none := by
  simp [slice]; split <;> simp_all

theorem slice_append (rd : Nat → Nat) (a n k : Nat) : slice rd a n ++ slice rd (a + n) k = slice rd a (n + k) := by
  apply List.ext_getElem?
  intro i
  simp only [List.getElem?_append, slice_length, slice_getElem?]
  by_cases h : i < n
  · simp [h]; omega
  · simp only [h, if_false]
    by_cases h2 : i - n < k
    · have : i < n + k := by omega
      simp [h2, this]; congr 1; omega
    · have : ¬ i < n + k := by omega
      simp [h2, this]

theorem slice_take (rd : Nat → Nat) (a n k : Nat) : (slice rd a n).take k = slice rd a (min k n) := by
  apply List.ext_getElem?
  intro i
  simp only [List.getElem?_take, slice_getElem?]
  by_cases h : i < k <;> by_cases h2 : i < n <;> simp [h, h2] <;> omega

theorem slice_drop (rd : Nat → Nat) (a n k : Nat) : (slice rd a n).drop k = slice rd (a + k) (n - k) := by
  apply List.ext_getElem?
  intro i
  simp only [List.getElem?_drop, slice_getElem?]
  by_cases h : k + i < n
  · have : i < n - k := by omega
    simp [h, this]; congr 1; omega
  · have : ¬ i < n - k := by omega
    simp [h, this]

theorem slice_succ (rd : Nat → Nat) (a n : Nat) : slice rd a (n + 1) = rd a :: slice rd (a + 1) n := by
  rw [show n + 1 = 1 + n by omega, ← slice_append]; simp [slice]

theorem chunk_drop (p : Prov) (pos : Nat) :
    (chunkAt p (pos / 2)).drop (pos % 2) = slice p.rd pos (p.cs - pos % 2) := by
  unfold chunkAt; rw [slice_drop]; congr 1; omega

@[simp] theorem chunkAt_length (p : Prov) (w : Nat) : (chunkAt p w).length = p.cs := by simp [chunkAt]

/-! ### `Read::read` -/

theorem wordPos_ok (pos : Nat) (h : pos < 131072) : wordPos pos = ret (pos / 2) := by
  unfold wordPos; rw [if_pos (by omega)]

/-- The chunk loop returns exactly the `rem` bytes that follow `pos`, and makes at most `rem` provider calls. -/
theorem readLoop_ok (m : Mode) (p : Prov) (hcs : 2 ≤ p.cs) :
    ∀ (fuel pos rem : Nat) (acc : List Nat), rem < fuel → pos + rem ≤ 131072 →
      (readLoop m p fuel pos rem acc).1 = .ok (acc ++ slice p.rd pos rem, pos + rem) ∧
      (readLoop m p fuel pos rem acc).2 ≤ rem := by
  intro fuel
  induction fuel with
  | zero => intro pos rem acc h; omega
  | succ fuel ih =>
    intro pos rem acc hf hb
    unfold readLoop
    by_cases h0 : rem = 0
    · subst h0; simp
    · rw [if_neg h0, wordPos_ok pos (by omega)]
      simp only [readChunk, bind_ret, bind_call]
      have hlen : pos % 2 ≤ (chunkAt p (pos / 2)).length := by simp; omega
      rw [if_neg (by omega)]
      rw [chunk_drop]
      simp only [slice_length]
      by_cases hlt : rem < p.cs - pos % 2
      · rw [if_pos hlt]
        simp only [ret_fst, ret_snd, slice_take]
        rw [Nat.min_eq_left (by omega)]
        exact ⟨rfl, by omega⟩
      · rw [if_neg hlt]
        have := ih (pos + (p.cs - pos % 2)) (rem - (p.cs - pos % 2)) (acc ++ slice p.rd pos (p.cs - pos % 2))
          (by omega) (by omega)
        constructor
        · have e1 : p.cs - pos % 2 + (rem - (p.cs - pos % 2)) = rem := by omega
          have e2 : pos + (p.cs - pos % 2) + (rem - (p.cs - pos % 2)) = pos + rem := by omega
          rw [this.1, List.append_assoc, slice_append, e1, e2]
        · have h2 := this.2
          omega

/-- **`Read::read`**: for any window inside the address space, the call returns exactly the stored bytes
    `[pos, pos + k)` with `k = min n (end - pos)`, advances by `k`, and nothing beyond `end` is returned. -/
theorem read_ok (m : Mode) (p : Prov) (hcs : 2 ≤ p.cs) (r : Range) (n : Nat) (he : r.endp ≤ 131072) :
    (Range.read m p r n).1
      = .ok (slice p.rd r.pos (min n (r.endp - r.pos)), { r with pos := r.pos + min n (r.endp - r.pos) }) ∧
    (Range.read m p r n).2 ≤ min n (r.endp - r.pos) + 1 := by
  unfold Range.read
  by_cases h0 : r.endp - r.pos = 0
  · simp [h0]
  · simp only [h0, if_false, clearErrors, bind_call]
    have := readLoop_ok m p hcs (min n (r.endp - r.pos) + 1) r.pos (min n (r.endp - r.pos)) [] (by omega) (by omega)
    rw [bind_fst_ok _ this.1, bind_snd_ok _ this.1]
    simp only [ret_fst, ret_snd, List.nil_append]
    exact ⟨trivial, by omega⟩

/-! ### `read_exact` -/

theorem readExact_ok (m : Mode) (p : Prov) (hcs : 2 ≤ p.cs) (r : Range) (n : Nat) (he : r.endp ≤ 131072)
    (hfit : r.pos + n ≤ r.endp) :
    (Range.readExact m p r n).1 = .ok (slice p.rd r.pos n, { r with pos := r.pos + n }) ∧
    (Range.readExact m p r n).2 ≤ n + 1 := by
  unfold Range.readExact
  by_cases h0 : n = 0
  · subst h0; simp [readExactLoop]
  · obtain ⟨k, rfl⟩ : ∃ k, n = k + 1 := ⟨n - 1, by omega⟩
    have hr := read_ok m p hcs r (k + 1) he
    have hmin : min (k + 1) (r.endp - r.pos) = k + 1 := by omega
    rw [hmin] at hr
    unfold readExactLoop
    rw [if_neg (by omega), bind_fst_ok _ hr.1, bind_snd_ok _ hr.1]
    simp only [slice_length]
    rw [if_neg (by omega)]
    unfold readExactLoop
    simp
    omega

theorem readExact_eof (m : Mode) (p : Prov) (hcs : 2 ≤ p.cs) (r : Range) (n : Nat) (he : r.endp ≤ 131072)
    (hn : 0 < n) (hfit : ¬ r.pos + n ≤ r.endp) :
    (Range.readExact m p r n).1 = .err .eof ∧ (Range.readExact m p r n).2 ≤ n + 1 := by
  unfold Range.readExact
  obtain ⟨k, rfl⟩ : ∃ k, n = k + 1 := ⟨n - 1, by omega⟩
  have hr := read_ok m p hcs r (k + 1) he
  unfold readExactLoop
  rw [if_neg (by omega), bind_fst_ok _ hr.1, bind_snd_ok _ hr.1]
  simp only [slice_length]
  by_cases hz : min (k + 1) (r.endp - r.pos) = 0
  · rw [if_pos hz]; simp; omega
  · rw [if_neg hz]
    -- second round: the window is exhausted, `read` returns 0 bytes
    have hr2 := read_ok m p hcs { r with pos := r.pos + min (k + 1) (r.endp - r.pos) }
      (k + 1 - min (k + 1) (r.endp - r.pos)) he
    have hz2 : r.endp - (r.pos + min (k + 1) (r.endp - r.pos)) = 0 := by omega
    simp only [hz2, Nat.min_zero, Nat.add_zero, slice_zero] at hr2
    obtain ⟨j, hj⟩ : ∃ j, k = j + 1 ∨ k = 0 := ⟨k - 1, by omega⟩
    have hk : k + 1 - min (k + 1) (r.endp - r.pos) ≠ 0 := by omega
    rcases Nat.eq_zero_or_pos k with hk0 | hkpos
    · -- k = 0: min 1 (..) is 0 or 1; nonzero means it fits — contradiction with hfit
      omega
    · obtain ⟨j, rfl⟩ : ∃ j, k = j + 1 := ⟨k - 1, by omega⟩
      unfold readExactLoop
      rw [if_neg hk, bind_fst_ok _ hr2.1, bind_snd_ok _ hr2.1]
      simp
      omega

theorem eofToOverrun_ok {α : Type} {x : M α} {a : α} (h : x.1 = .ok a) :
    (eofToOverrun x).1 = .ok a ∧ (eofToOverrun x).2 = x.2 := by
  unfold eofToOverrun; rw [h]; exact ⟨h, rfl⟩

theorem eofToOverrun_eof {α : Type} {x : M α} (h : x.1 = .err .eof) :
    (eofToOverrun x).1 = .err .overrun ∧ (eofToOverrun x).2 = x.2 := by
  unfold eofToOverrun; rw [h]; exact ⟨rfl, rfl⟩

theorem eofToOverrun_snd {α : Type} (x : M α) : (eofToOverrun x).2 = x.2 := by
  unfold eofToOverrun; split <;> rfl


