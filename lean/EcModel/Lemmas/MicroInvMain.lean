/-
  `MInv` (Lemmas/MicroInv.lean) is preserved by every micro-step of every thread outside the excluded
  window; it holds in every world reachable by any schedule; mutual exclusion and "every buffer
  access is by an insider" follow.
-/
import EcModel.Lemmas.MicroInvSteps1
import EcModel.Lemmas.MicroInvSteps2
import EcModel.Lemmas.MicroInvSteps3

namespace Ec.Micro
open Ec

/-! ## one step -/

/-- One step of thread `t` (any program counter, any locals). -/
theorem inv_stepThread {w : MWorld} {tid : Nat} (hI : MInv w) (hna : ¬ AbandonInsideStep w tid)
    {t : Thread} (ht : w.threads[tid]? = some t) : MInv (next w tid (stepThread w.sys t)) := by
  obtain ⟨prog, pc, regs, outs⟩ := t
  cases pc with
  | idle => exact inv_idle hI ht
  | alFetch r j => exact inv_alFetch hI ht
  | alCas r j idx => exact inv_alCas hI ht
  | alWaker r k => exact inv_alWaker hI ht
  | alFirst r k => exact inv_alFirst hI ht
  | alBuf r k => exact inv_alBuf hI ht
  | puFetch r c data lenOv rest => exact inv_puFetch hI ht
  | puWrite r c data lenOv rest idx => exact inv_puWrite hI ht
  | puFirst r idx out patch => exact inv_puFirst hI ht
  | puPatch r out loc => exact inv_puPatch hI ht
  | mkHdr r a b => exact inv_mkHdr hI ht
  | mkStore r a b => exact inv_mkStore hI ht
  | mkDrop r => exact inv_mkDrop hI ht
  | dcCas r => exact inv_dcCas hI ht
  | tnCas r i => exact inv_tnCas hI ht
  | tsRead r o => exact inv_tsRead hI ht
  | tsMark r o bytes => exact inv_tsMark hI ht
  | rxState i p idx => exact inv_rxState hI ht
  | rxMarker i p idx => exact inv_rxMarker hI ht
  | rxClaim k p idx => exact inv_rxClaim hI ht
  | rxVerify k p idx => exact inv_rxVerify hI ht
  | rxUnclaim k => exact inv_rxUnclaim hI ht
  | rxCopy k p => exact inv_rxCopy hI ht
  | rxMark k => exact inv_rxMark hI ht
  | rxWake k => exact inv_rxWake hI ht
  | poWaker r => exact inv_poWaker hI ht
  | poCas r => exact inv_poCas hI ht
  | poRelease r => exact inv_poRelease hI hna ht
  | poRetry r was dl => exact inv_poRetry hI ht
  | dfStore r => exact inv_dfStore hI hna ht
  | fpRead r code idx => exact inv_fpRead hI ht
  | rfClear r out => exact inv_rfClear hI ht
  | rfCas r out => exact inv_rfCas hI ht
  | itNext r left pos acc => exact inv_itNext hI ht
  | itRead r left pos acc off len wkc => exact inv_itRead hI ht
  | vrRead r => exact inv_vrRead hI ht

theorem step_eq {w w' : MWorld} {tid : Nat} (hs : step w tid = some w') :
    ∃ t, w.threads[tid]? = some t ∧ w' = next w tid (stepThread w.sys t) := by
  unfold step at hs
  split at hs
  · cases hs
  · next t ht =>
    split at hs
    · cases hs
    · simp only [Option.some.injEq] at hs
      exact ⟨t, ht, hs.symm⟩

/-- **`MInv` is preserved by every granted step** of every thread at every program counter, unless
    the step abandons a request while TX or RX is inside its buffer. -/
theorem MInv.step {w w' : MWorld} {tid : Nat} (hI : MInv w) (hna : ¬ AbandonInsideStep w tid)
    (hs : Micro.step w tid = some w') : MInv w' := by
  obtain ⟨t, ht, rfl⟩ := step_eq hs
  exact inv_stepThread hI hna ht

/-! ## schedules -/

/-- One element of a schedule: grant the baton to a thread, or advance the virtual clock (the two
    things the line protocol of `Drv/Micro.lean` can do). -/
inductive Tick where
  | run (tid : Nat)
  | advance (us : Nat)
  deriving DecidableEq, Repr

def advance (w : MWorld) (us : Nat) : MWorld := { w with sys := { w.sys with now := w.sys.now + us } }

/-- A step that is not granted (`none`: no such thread, or the thread has finished) leaves the world
    unchanged. -/
def tick (w : MWorld) : Tick → MWorld
  | .run tid => (step w tid).getD w
  | .advance us => advance w us

def runSched (w : MWorld) (sched : List Tick) : MWorld := sched.foldl tick w

/-- No step of the schedule abandons a request while TX or RX is inside its buffer. -/
def SafeSched : MWorld → List Tick → Prop
  | _, [] => True
  | w, x :: rest =>
    (match x with
     | .run tid => ¬ AbandonInsideStep w tid
     | .advance _ => True) ∧ SafeSched (tick w x) rest

/-- Fresh storage (`PduStorage::new`), counters preset as in a case line, any number of threads with
    arbitrary programs, all idle with empty registers. -/
def initWorld (n data fi pi : Nat) (progs : List (List String)) : MWorld :=
  { sys := { Sys.init n data with frameIdx := fi, pduIdx := pi },
    threads := progs.map (fun p => { prog := p, pc := .idle, regs := [], outs := [] }) }

theorem init_slot_none (n data fi pi k : Nat) :
    (({ Sys.init n data with frameIdx := fi, pduIdx := pi } : Sys).slot k).st = .none := by
  simp only [Sys.init, Sys.slot, List.getD_eq_getElem?_getD, List.getElem?_replicate]
  split <;> simp [dummySlot]

theorem MInv_init (n data fi pi : Nat) (progs : List (List String)) (hn : 0 < n) :
    MInv (initWorld n data fi pi progs) := by
  have hth : ∀ t ∈ (initWorld n data fi pi progs).threads, t.pc = .idle ∧ t.regs = [] := by
    intro t ht
    simp only [initWorld, List.mem_map] at ht
    obtain ⟨p, _, rfl⟩ := ht
    exact ⟨rfl, rfl⟩
  refine ⟨by simpa [initWorld, Sys.init, Sys.n] using hn, ?_, ?_, ?_⟩
  · intro t ht
    rw [(hth t ht).2]; simp [Regs]
  · intro t ht
    obtain ⟨h1, h2⟩ := hth t ht
    unfold PcOk
    rw [h1]
    exact ⟨trivial, trivial⟩
  · intro k ρ
    have : wcount (initWorld n data fi pi progs).threads k ρ = 0 := by
      apply wcount_zero
      intro t ht hh
      obtain ⟨h1, h2⟩ := hth t ht
      rcases hh with hc | ⟨h, hm, _⟩
      · rw [h1] at hc; simp [Pc.claim] at hc
      · rw [h2] at hm; cases hm
    omega

theorem MInv.advance {w : MWorld} (hI : MInv w) (us : Nat) : MInv (advance w us) :=
  ⟨hI.pos, hI.regs, hI.pcok, hI.slots⟩

theorem MInv.tick {w : MWorld} (hI : MInv w) (x : Tick)
    (hx : match x with
      | .run tid => ¬ AbandonInsideStep w tid
      | .advance _ => True) : MInv (tick w x) := by
  cases x with
  | run tid =>
    simp only [Micro.tick]
    cases hs : Micro.step w tid with
    | none => simpa using hI
    | some w' => simpa using hI.step hx hs
  | advance us => exact hI.advance us

/-- **`MInv` holds after every schedule** that stays outside the excluded window. -/
theorem MInv.run {w : MWorld} (hI : MInv w) (sched : List Tick) (hs : SafeSched w sched) :
    MInv (runSched w sched) := by
  induction sched generalizing w with
  | nil => exact hI
  | cons x rest ih =>
    obtain ⟨hx, hrest⟩ := hs
    exact ih (hI.tick x hx) hrest

/-- Reachable from a fresh storage of `n` slots by some schedule outside the excluded window. -/
def Reachable (n data : Nat) (w : MWorld) : Prop :=
  ∃ fi pi progs sched, SafeSched (initWorld n data fi pi progs) sched ∧
    w = runSched (initWorld n data fi pi progs) sched

theorem MInv_reachable {n data : Nat} {w : MWorld} (hn : 0 < n) (h : Reachable n data w) : MInv w := by
  obtain ⟨fi, pi, progs, sched, hs, rfl⟩ := h
  exact (MInv_init n data fi pi progs hn).run sched hs

/-! ## mutual exclusion -/

/-- Number of inside-claims thread `t` holds on slot `k`. -/
def insideCount (t : Thread) (k : Nat) : Nat :=
  tcount t k .creator + tcount t k .tx + tcount t k .rx + tcount t k .reader

/-- Number of owner-claims thread `t` holds on slot `k`. -/
def ownerCount (t : Thread) (k : Nat) : Nat :=
  tcount t k .creator + tcount t k .fut + tcount t k .reader

theorem inside_iff (t : Thread) (k : Nat) : Inside t k ↔ 0 < insideCount t k := by
  unfold Inside insideCount
  rw [← tcount_pos_iff, ← tcount_pos_iff, ← tcount_pos_iff, ← tcount_pos_iff]
  omega

theorem owner_iff (t : Thread) (k : Nat) : Owner t k ↔ 0 < ownerCount t k := by
  unfold Owner ownerCount
  rw [← tcount_pos_iff, ← tcount_pos_iff, ← tcount_pos_iff]
  omega

theorem sum_map_add (ts : List Thread) (f g : Thread → Nat) :
    (ts.map (fun t => f t + g t)).sum = (ts.map f).sum + (ts.map g).sum := by
  induction ts with
  | nil => rfl
  | cons x xs ih => simp only [List.map_cons, List.sum_cons, ih]; omega

theorem inside_total_eq (ts : List Thread) (k : Nat) :
    (ts.map (fun t => insideCount t k)).sum =
      wcount ts k .creator + wcount ts k .tx + wcount ts k .rx + wcount ts k .reader := by
  unfold insideCount wcount
  rw [sum_map_add, sum_map_add, sum_map_add]

theorem owner_total_eq (ts : List Thread) (k : Nat) :
    (ts.map (fun t => ownerCount t k)).sum =
      wcount ts k .creator + wcount ts k .fut + wcount ts k .reader := by
  unfold ownerCount wcount
  rw [sum_map_add, sum_map_add]

/-- All threads together hold at most one inside-claim on any slot. -/
theorem MInv.inside_total {w : MWorld} (hI : MInv w) (k : Nat) :
    (w.threads.map (fun t => insideCount t k)).sum ≤ 1 := by
  rw [inside_total_eq]
  have h1 := hI.slots k .creator
  have h2 := hI.slots k .tx
  have h3 := hI.slots k .rx
  have h4 := hI.slots k .reader
  revert h1 h2 h3 h4
  cases (w.sys.slot k).st <;> simp [cap] <;> omega

/-- All threads together hold at most one owner-claim on any slot. -/
theorem MInv.owner_total {w : MWorld} (hI : MInv w) (k : Nat) :
    (w.threads.map (fun t => ownerCount t k)).sum ≤ 1 := by
  rw [owner_total_eq]
  have h1 := hI.slots k .creator
  have h2 := hI.slots k .fut
  have h3 := hI.slots k .reader
  revert h1 h2 h3
  cases (w.sys.slot k).st <;> simp [cap] <;> omega

/-- **Mutual exclusion.** Two threads inside the same slot are the same thread. -/
theorem MInv.mutual_exclusion {w : MWorld} (hI : MInv w) {k i j : Nat} {a b : Thread}
    (ha : w.threads[i]? = some a) (hb : w.threads[j]? = some b)
    (hia : Inside a k) (hib : Inside b k) : i = j := by
  by_cases hij : i = j
  · exact hij
  · have h2 : insideCount a k + insideCount b k ≤ (w.threads.map (fun t => insideCount t k)).sum :=
      wcount_two hij ha hb (fun t => insideCount t k)
    have h1 := hI.inside_total k
    rw [inside_iff] at hia hib
    omega

theorem le_sum_of_mem {ts : List Thread} {a : Thread} (hm : a ∈ ts) (f : Thread → Nat) :
    f a ≤ (ts.map f).sum := by
  induction ts with
  | nil => cases hm
  | cons x xs ih =>
    simp only [List.map_cons, List.sum_cons]
    rcases List.mem_cons.mp hm with rfl | h'
    · omega
    · have := ih h'; omega

/-- A single thread holds at most one inside-claim on a slot (not, say, two handles for it). -/
theorem MInv.inside_le_one {w : MWorld} (hI : MInv w) {k i : Nat} {a : Thread}
    (ha : w.threads[i]? = some a) : insideCount a k ≤ 1 := by
  have h1 := hI.inside_total k
  have h2 := le_sum_of_mem (mem_of_get ha) (fun t => insideCount t k)
  exact Nat.le_trans h2 h1

/-- **Unique owner.** Two threads owning the same slot are the same thread. -/
theorem MInv.unique_owner {w : MWorld} (hI : MInv w) {k i j : Nat} {a b : Thread}
    (ha : w.threads[i]? = some a) (hb : w.threads[j]? = some b)
    (hia : Owner a k) (hib : Owner b k) : i = j := by
  by_cases hij : i = j
  · exact hij
  · have h2 : ownerCount a k + ownerCount b k ≤ (w.threads.map (fun t => ownerCount t k)).sum :=
      wcount_two hij ha hb (fun t => ownerCount t k)
    have h1 := hI.owner_total k
    rw [owner_iff] at hia hib
    omega

/-- **Status ↔ holder.** A claim of role `ρ` on slot `k` forces the slot's status. -/
theorem MInv.status_of_holder {w : MWorld} (hI : MInv w) {t : Thread} (hm : t ∈ w.threads) {k : Nat}
    {ρ : Role} (hh : Holds t k ρ) :
    k < w.sys.n ∧
    match ρ with
    | .creator => (w.sys.slot k).st = .created
    | .fut => (w.sys.slot k).st = .sendable ∨ (w.sys.slot k).st = .sending ∨ (w.sys.slot k).st = .sent ∨
        (w.sys.slot k).st = .rxBusy ∨ (w.sys.slot k).st = .rxDone
    | .tx => (w.sys.slot k).st = .sending
    | .rx => (w.sys.slot k).st = .rxBusy
    | .reader => (w.sys.slot k).st = .rxProcessing := by
  rw [← tcount_pos_iff] at hh
  obtain ⟨h1, h2⟩ := hI.holder hm hh
  refine ⟨h2, ?_⟩
  cases ρ
  · exact cap_creator_pos h1
  · exact cap_fut_pos h1
  · exact cap_tx_pos h1
  · exact cap_rx_pos h1
  · exact cap_reader_pos h1

/-- A free slot has no claim of any kind on it: `claim_created` succeeds only then. -/
theorem MInv.free_slot_unclaimed {w : MWorld} (hI : MInv w) {k : Nat} (hst : (w.sys.slot k).st = .none)
    {t : Thread} (hm : t ∈ w.threads) (ρ : Role) : ¬ Holds t k ρ := by
  intro hh
  rw [← tcount_pos_iff] at hh
  have := (hI.holder hm hh).1
  rw [hst, cap_none] at this
  omega

/-! ## every buffer access is by an insider -/

/-- The slot whose `buf` the step about to be taken by `t` reads or writes (`none`: the step touches
    no buffer). One line per buffer access of `Micro.stepThread`:
    `alBuf` (FrameBox::init), `puWrite` (push), `puPatch` (more-follows flag), `mkHdr` (EtherCAT header),
    `tsRead` (the bytes sent), `rxCopy` (response copied in), `fpRead`/`itNext`/`itRead`/`vrRead`
    (response read). -/
def bufAccess (t : Thread) : Option Nat :=
  match t.pc with
  | .alBuf _ k => some k
  | .puWrite r _ _ _ _ _ =>
    (match getH t.regs r with
     | some ⟨_, k, .created _ _⟩ => some k
     | _ => none)
  | .puPatch r _ _ => some (slotOf t r)
  | .mkHdr r _ _ => some (slotOf t r)
  | .tsRead r _ => some (slotOf t r)
  | .rxCopy k _ => some k
  | .fpRead r _ _ => some (slotOf t r)
  | .itNext r _ _ _ => some (slotOf t r)
  | .itRead r _ _ _ _ _ _ => some (slotOf t r)
  | .vrRead r =>
    (match getH t.regs r with
     | some ⟨_, k, .view _ _ _⟩ => some k
     | _ => none)
  | _ => none

theorem holds_of_get {t : Thread} {r : Nat} {h : Hd} (e : getH t.regs r = some h) :
    Holds t h.slot (roleOf h.kind) := Or.inr ⟨h, (getH_some e).1, rfl, rfl⟩

theorem slotOf_of_get {t : Thread} {r : Nat} {h : Hd} (e : getH t.regs r = some h) : slotOf t r = h.slot := by
  simp [slotOf, e]

/-- **Every step that reads or writes a slot's buffer is taken by a thread that is inside that
    slot.** -/
theorem MInv.buffer_access_by_insider {w : MWorld} (hI : MInv w) {tid : Nat} {t : Thread}
    (ht : w.threads[tid]? = some t) {k : Nat} (hb : bufAccess t = some k) : Inside t k := by
  have hp := (hI.pcok t (mem_of_get ht)).1
  obtain ⟨prog, pc, regs, outs⟩ := t
  cases pc <;> simp only [bufAccess, Option.some.injEq, reduceCtorEq] at hb
  case alBuf r k' => subst hb; exact Or.inl (Or.inl rfl)
  case rxCopy k' p => subst hb; exact Or.inr (Or.inr (Or.inl (Or.inl rfl)))
  case puWrite r c data lenOv rest idx =>
    split at hb
    · next reg k' count last e =>
      cases hb
      exact Or.inl (holds_of_get (t := ⟨prog, _, regs, outs⟩) e)
    · cases hb
  case vrRead r =>
    split at hb
    · next reg k' off len wkc e =>
      cases hb
      exact Or.inr (Or.inr (Or.inr (holds_of_get (t := ⟨prog, _, regs, outs⟩) e)))
    · cases hb
  case puPatch r out loc =>
    subst hb
    obtain ⟨h, e, hρ⟩ := hp
    rw [slotOf_of_get (t := ⟨prog, _, regs, outs⟩) e]
    exact Or.inl (hρ ▸ holds_of_get (t := ⟨prog, _, regs, outs⟩) e)
  case mkHdr r a b =>
    subst hb
    obtain ⟨h, e, hρ⟩ := hp
    rw [slotOf_of_get (t := ⟨prog, _, regs, outs⟩) e]
    exact Or.inl (hρ ▸ holds_of_get (t := ⟨prog, _, regs, outs⟩) e)
  case tsRead r o =>
    subst hb
    obtain ⟨h, e, hρ⟩ := hp
    rw [slotOf_of_get (t := ⟨prog, _, regs, outs⟩) e]
    exact Or.inr (Or.inl (hρ ▸ holds_of_get (t := ⟨prog, _, regs, outs⟩) e))
  case fpRead r code idx =>
    subst hb
    obtain ⟨h, e, hρ⟩ := hp
    rw [slotOf_of_get (t := ⟨prog, _, regs, outs⟩) e]
    exact Or.inr (Or.inr (Or.inr (hρ ▸ holds_of_get (t := ⟨prog, _, regs, outs⟩) e)))
  case itNext r left pos acc =>
    subst hb
    obtain ⟨h, e, hρ⟩ := hp
    rw [slotOf_of_get (t := ⟨prog, _, regs, outs⟩) e]
    exact Or.inr (Or.inr (Or.inr (hρ ▸ holds_of_get (t := ⟨prog, _, regs, outs⟩) e)))
  case itRead r left pos acc off len wkc =>
    subst hb
    obtain ⟨h, e, hρ⟩ := hp
    rw [slotOf_of_get (t := ⟨prog, _, regs, outs⟩) e]
    exact Or.inr (Or.inr (Or.inr (hρ ▸ holds_of_get (t := ⟨prog, _, regs, outs⟩) e)))

end Ec.Micro
