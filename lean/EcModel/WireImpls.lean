/-
  EcModel.WireImpls — the hand-written impls of `ethercrab-wire/src/impls.rs` that `Wire.lean` left opaque or abstract,
  translated line by line (C19). Imports only the model `Wire.lean`; the driver `drv_c19` links against this file.

  Translation map (Rust -> Lean):
    slice::chunks_exact(size)                      -> `chunksExact` (panics for size 0; the incomplete tail is dropped)
    Iterator::take(N)                              -> `List.take`
    .map(T::unpack_from_slice)
      .collect::<Result<heapless::Vec<_, N>, _>>() -> `collectHeapless`: core's `GenericShunt` pulls one chunk at a time; an
                                                      `Err` item stops the iteration (result `Err`), an `Ok` item is handed to
                                                      heapless' `FromIterator`: `vec.push(i).ok().expect("Vec::from_iter overflow")`
    impl EtherCrabWireRead for heapless::Vec<T, N> -> `hvecDec`  (`hvecDecNoTake`: the same pipeline without `.take(N)`)
    impl EtherCrabWireSized for heapless::Vec<T, N> where T: Into<u8>   -> `Codec.hvec … .len = N`, `hvecBufferLen`
    impl EtherCrabWireRead for heapless::String<N> -> `hstrDec`  (`core::str::from_utf8` -> `utf8Valid`,
                                                      `heapless::String::try_from(&str)` -> length test against N)
    impl EtherCrabWireRead for [T; N]              -> `arrayDecImpl` (`buf.get(0..T::PACKED_LEN * N)`, the pipeline above,
                                                      `heapless::Vec::into_array` -> `ArrayLength`); `Wire.Codec.array` is
                                                      the same function (Lemmas/WireImpls `arrayDecImpl_eq_codec`)
    impl EtherCrabWireSized for [$ty; N]           -> `arrayBufferLen` (`type Buffer = [u8; N]` although PACKED_LEN = N * size)
    impl_tuples! unpack_from_slice                 -> `Wire.decTuple` (already line by line; the checked slice `buf.get(PACKED_LEN..)`)
    impl_tuples! pack_to_slice_unchecked           -> `tuplePackWalk` / `tuplePackU` (`split_at_mut(packed_len)` per component,
                                                      then `&orig[0..self.packed_len()]`)
    impl EtherCrabWireWrite for &[u8]              -> `sliceU8PackU`
-/
import EcModel.Wire

namespace Ec.Wire
open Ec

/-! ### iterator pipeline of the `heapless::Vec` and `[T; N]` decoders -/

/-- The first `k` consecutive chunks of `size` bytes. -/
def chunksN (size : Nat) : Nat → List Nat → List (List Nat)
  | 0, _ => []
  | k + 1, buf => buf.take size :: chunksN size k (buf.drop size)

/-- `buf.chunks_exact(size)`: `assert!(chunk_size != 0, "chunk size must be non-zero")`; `buf.len() / size` complete
    chunks, the remainder (`buf.len() % size` bytes) is not yielded. -/
def chunksExact (size : Nat) (buf : List Nat) : Out (List (List Nat)) :=
  if size = 0 then .panic "chunk size must be non-zero"
  else .ok (chunksN size (buf.length / size) buf)

/-- `chunks.map(dec).collect::<Result<heapless::Vec<_, cap>, WireError>>()` with `pushed` elements already in the vector.
    One chunk at a time: decode it (`Err` ends the iteration with that error, a panic unwinds); an `Ok` element is pushed:
    `vec.push(i).ok().expect("Vec::from_iter overflow")` panics when the vector already holds `cap` elements. -/
def collectHeapless (dec : List Nat → Out Val) (cap : Nat) : Nat → List (List Nat) → Out (List Val)
  | _, [] => .ok []
  | pushed, ch :: rest =>
    bindO (dec ch) fun v =>
      if pushed < cap then bindO (collectHeapless dec cap (pushed + 1) rest) fun vs => .ok (v :: vs)
      else .panic "Vec::from_iter overflow"

/-- `impl<const N: usize, T: EtherCrabWireReadSized> EtherCrabWireRead for heapless::Vec<T, N>`:
    `buf.chunks_exact(T::PACKED_LEN).take(N).map(T::unpack_from_slice).collect::<Result<heapless::Vec<_, N>, WireError>>()`.
    The value is the sequence of decoded elements (its length is the vector's `len()`). -/
def hvecDec (c : Codec) (n : Nat) (buf : List Nat) : Out Val :=
  bindO (chunksExact c.len buf) fun chs =>
    bindO (collectHeapless c.dec n 0 (chs.take n)) fun vs => .ok (.seq vs)

/-- The same decoder with the `.take(N)` adapter removed (NOT the code of /repo: used by the counterexample theorems to
    show what `.take(N)` is there for). -/
def hvecDecNoTake (c : Codec) (n : Nat) (buf : List Nat) : Out Val :=
  bindO (chunksExact c.len buf) fun chs =>
    bindO (collectHeapless c.dec n 0 chs) fun vs => .ok (.seq vs)

/-- `heapless::Vec<T, N>`: read-only (no `EtherCrabWireWrite` impl exists). `len` is `PACKED_LEN = N`, which exists only
    `where T: Into<u8>` (`u8`, `bool`): for other element types the type is not `EtherCrabWireSized` and cannot be a tuple
    component or array element (does not compile), so `len` is never consulted. -/
def Codec.hvec (c : Codec) (n : Nat) : Codec where
  len := n
  enc := fun _ => .panic "no EtherCrabWireWrite impl for heapless::Vec"
  dec := hvecDec c n
  valid := fun _ => False

/-- `<heapless::Vec<T, N> as EtherCrabWireSized>::buffer()` is `[0u8; N]`. -/
def hvecBufferLen (n : Nat) : Nat := n

/-! ### `heapless::String<N>` -/

/-- UTF-8 continuation byte `0x80..=0xBF`. -/
def isCont (b : Nat) : Bool := decide (128 ≤ b) && decide (b ≤ 191)

/-- Second byte of a three-byte sequence (core `run_utf8_validation`: `(0xE0, 0xA0..=0xBF) | (0xE1..=0xEC, 0x80..=0xBF)
    | (0xED, 0x80..=0x9F) | (0xEE..=0xEF, 0x80..=0xBF)`): no overlong forms, no surrogates. -/
def second3 (b0 b1 : Nat) : Bool :=
  if b0 = 224 then decide (160 ≤ b1) && decide (b1 ≤ 191)
  else if b0 = 237 then decide (128 ≤ b1) && decide (b1 ≤ 159)
  else isCont b1

/-- Second byte of a four-byte sequence (`(0xF0, 0x90..=0xBF) | (0xF1..=0xF3, 0x80..=0xBF) | (0xF4, 0x80..=0x8F)`). -/
def second4 (b0 b1 : Nat) : Bool :=
  if b0 = 240 then decide (144 ≤ b1) && decide (b1 ≤ 191)
  else if b0 = 244 then decide (128 ≤ b1) && decide (b1 ≤ 143)
  else isCont b1

/-- `core::str::from_utf8(buf).is_ok()`: the well-formed byte sequences of the Unicode standard (Table 3-7), as core's
    `run_utf8_validation` checks them (`UTF8_CHAR_WIDTH`: 0x00..0x7F -> 1, 0xC2..0xDF -> 2, 0xE0..0xEF -> 3, 0xF0..0xF4 -> 4,
    everything else -> invalid; a sequence cut off by the end of the buffer is invalid). -/
def utf8Valid : List Nat → Bool
  | [] => true
  | b0 :: rest =>
    if b0 < 128 then utf8Valid rest
    else if 194 ≤ b0 ∧ b0 ≤ 223 then
      match rest with
      | b1 :: r => isCont b1 && utf8Valid r
      | [] => false
    else if 224 ≤ b0 ∧ b0 ≤ 239 then
      match rest with
      | b1 :: b2 :: r => second3 b0 b1 && isCont b2 && utf8Valid r
      | _ => false
    else if 240 ≤ b0 ∧ b0 ≤ 244 then
      match rest with
      | b1 :: b2 :: b3 :: r => second4 b0 b1 && isCont b2 && isCont b3 && utf8Valid r
      | _ => false
    else false

/-- `impl<const N: usize> EtherCrabWireRead for heapless::String<N>`:
    `core::str::from_utf8(buf).map_err(|_| InvalidUtf8).and_then(|s| Self::try_from(s).map_err(|_| ArrayLength))`.
    The WHOLE buffer is the string (not a prefix of `PACKED_LEN = N` bytes); `try_from(&str)` is `push_str` into an empty
    string, refused when `s.len() > N`. The value is the string's bytes. -/
def hstrDec (n : Nat) (buf : List Nat) : Out Val :=
  if utf8Valid buf then
    if buf.length ≤ n then .ok (.seq (buf.map fun (b : Nat) => .int (b : Int))) else .err .arrayLength
  else .err .invalidUtf8

/-- `heapless::String<N>`: read-only; `PACKED_LEN = N`, `buffer() = [0u8; N]`. -/
def Codec.hstr (n : Nat) : Codec where
  len := n
  enc := fun _ => .panic "no EtherCrabWireWrite impl for heapless::String"
  dec := hstrDec n
  valid := fun _ => False

/-- UTF-8 encoding of one Unicode scalar value (`char::encode_utf8`). -/
def encodeCp (cp : Nat) : List Nat :=
  if cp < 128 then [cp]
  else if cp < 2048 then [192 + cp / 64, 128 + cp % 64]
  else if cp < 65536 then [224 + cp / 4096, 128 + cp / 64 % 64, 128 + cp % 64]
  else [240 + cp / 262144, 128 + cp / 4096 % 64, 128 + cp / 64 % 64, 128 + cp % 64]

/-- Unicode scalar value: `0..=0x10FFFF` without the surrogates `0xD800..=0xDFFF` (the values of Rust's `char`). -/
def isScalar (cp : Nat) : Prop := cp < 55296 ∨ (57344 ≤ cp ∧ cp < 1114112)

/-- The bytes of a `&str` holding the given scalar values. -/
def encodeStr : List Nat → List Nat
  | [] => []
  | cp :: cps => encodeCp cp ++ encodeStr cps

/-! ### `[T; N]` -/

/-- `impl<const N: usize, T: EtherCrabWireReadSized> EtherCrabWireRead for [T; N]`:
    `buf.get(0..(T::PACKED_LEN * N)).ok_or(ReadBufferTooShort)?.chunks_exact(T::PACKED_LEN).take(N).map(T::unpack_from_slice)
       .collect::<Result<heapless::Vec<_, N>, WireError>>().and_then(|res| res.into_array().map_err(|_e| ArrayLength))`. -/
def arrayDecImpl (c : Codec) (n : Nat) (buf : List Nat) : Out Val :=
  if buf.length < c.len * n then .err .readBufferTooShort
  else
    bindO (chunksExact c.len (buf.take (c.len * n))) fun chs =>
      bindO (collectHeapless c.dec n 0 (chs.take n)) fun vs =>
        -- heapless::Vec::into_array::<N>: `if self.len() == N { Ok(array) } else { Err(self) }`
        if vs.length = n then .ok (.seq vs) else .err .arrayLength

/-- `<[$ty; N] as EtherCrabWireSized>::buffer()` is `[0u8; N]` — N BYTES, although `PACKED_LEN = N * size_of::<$ty>()`. -/
def arrayBufferLen (n : Nat) : Nat := n

/-! ### tuples: `pack_to_slice_unchecked` -/

/-- The block of `impl_tuples!`' `pack_to_slice_unchecked` that walks the components:
    `let (chunk, rest) = buf.split_at_mut(self.$n.packed_len()); self.$n.pack_to_slice_unchecked(chunk); buf = rest;`
    (`split_at_mut(mid)` panics when `mid > len`). Result: the new contents of `buf`. -/
def tuplePackWalk : List Codec → List Val → List Nat → Out (List Nat)
  | [], [], buf => .ok buf
  | c :: cs, v :: vs, buf =>
    if buf.length < c.len then .panic "mid > len"
    else
      bindO (c.packU v (buf.take c.len)) fun chunk =>
        bindO (tuplePackWalk cs vs (buf.drop c.len)) fun rest => .ok (chunk ++ rest)
  | _, _, _ => illTyped

/-- `impl_tuples!` `pack_to_slice_unchecked(&self, orig)`: the walk, then `&orig[0..self.packed_len()]` (range check).
    Result: new contents of `orig`; the returned slice is its first `sumLen cs` bytes. -/
def tuplePackU (cs : List Codec) (vs : List Val) (orig : List Nat) : Out (List Nat) :=
  bindO (tuplePackWalk cs vs orig) fun out =>
    if sumLen cs ≤ out.length then .ok out else .panic "range end index out of range"

/-- `pack_to_slice` of a tuple (default method of the trait): `buf.get(0..self.packed_len()).ok_or(WriteBufferTooShort)?;
    Ok(self.pack_to_slice_unchecked(buf))`. -/
def tuplePackToSlice (cs : List Codec) (vs : List Val) (dst : List Nat) : Out (List Nat) :=
  if dst.length < sumLen cs then .err .writeBufferTooShort else tuplePackU cs vs dst

/-! ### `&[u8]` -/

/-- `impl EtherCrabWireWrite for &[u8]`: `let buf = &mut buf[0..self.len()]; buf.copy_from_slice(self); buf`. -/
def sliceU8PackU (self dst : List Nat) : Out (List Nat) :=
  if dst.length < self.length then .panic "range end index out of range"
  else .ok (self ++ dst.drop self.length)

/-! ### `EtherCrabWireSized::buffer()` of the hand-written impls -/

/-- Shape of a type with a hand-written `EtherCrabWireSized` impl in impls.rs. -/
inductive SizedImpl where
  /-- `impl_primitive_wire_field!($ty, size)` -/
  | prim (size : Nat)
  | bool
  | unit
  /-- `[$ty; N]` for a primitive `$ty` of `size` bytes -/
  | array (size n : Nat)
  /-- `heapless::Vec<T, N> where T: Into<u8>` -/
  | hvec (n : Nat)
  /-- `heapless::String<N>` -/
  | hstr (n : Nat)

/-- `PACKED_LEN`. -/
def SizedImpl.packedLen : SizedImpl → Nat
  | .prim s => s
  | .bool => 1
  | .unit => 0
  | .array s n => n * s
  | .hvec n => n
  | .hstr n => n

/-- `buffer().len()`. -/
def SizedImpl.bufferLen : SizedImpl → Nat
  | .prim s => s
  | .bool => 1
  | .unit => 0
  | .array _ n => arrayBufferLen n
  | .hvec n => hvecBufferLen n
  | .hstr n => n

end Ec.Wire
