/- Helper lemmas for C09, part 2: the `SubDevice::new` loop, grouping, the PRE-OP walk. -/
import EcModel.Lemmas.InitLemmas

namespace Ec.Init

open Ec Ec.Net Ec.Gen.Init

/-- The record `SubDevice::new(i)` should produce: built from device `i`'s data only. -/
def recordOf (infos : List DevInfo) (i : Nat) : Record := ⟨i, cfgAddr i, infos.getD i default⟩

/-- On an assigned ring `SubDevice::new(i)` talks to device `i` only and returns its data. -/
theorem subdeviceNew_own (n i : Nat) (als : List Nat) (infos : List DevInfo)
    (hn : n ≤ 65536) (hi : i < n) (hinf : infos.length = n)
    (hal : als[i]?.map (· % 16) = some 1) :
    (subdeviceNew ((List.range n).map cfgAddr) als infos i).1 = .ok (recordOf infos i) := by
  have hex := fpExecutors_assigned n i hn hi
  have hinfo : infos[i]? = some (infos.getD i default) := by
    have hlt : i < infos.length := by omega
    rw [List.getD_eq_getElem?_getD, List.getElem?_eq_getElem hlt]; rfl
  unfold subdeviceNew
  simp only [hex, readLast_single]
  rw [if_neg (by rw [hal]; simp), if_neg (by simp [wkc_single])]
  simp [recordOf]

/-- The second loop: either all `n` records, each from its own device, or `Capacity` when the Deque is
    too small — never anything else on a responsive, freshly reset ring. -/
theorem newLoop_result (maxSub n : Nat) (als : List Nat) (infos : List DevInfo)
    (hn : n ≤ 65536) (hinf : infos.length = n)
    (hal : ∀ p, p < n → als[p]?.map (· % 16) = some 1) :
    ∀ (t i : Nat) (acc : List Record) (log : List Entry2), i + t = n → i ≤ maxSub →
      acc = (List.range i).map (recordOf infos) →
      (newLoop maxSub ((List.range n).map cfgAddr) als infos t i acc log).1 =
        if n ≤ maxSub then .ok ((List.range n).map (recordOf infos)) else .err .capSub := by
  intro t
  induction t with
  | zero =>
    intro i acc log h hm hacc
    have : i = n := by omega
    subst this
    simp [newLoop, hm, hacc]
  | succ t ih =>
    intro i acc log h hm hacc
    have hi : i < n := by omega
    have hnew := subdeviceNew_own n i als infos hn hi hinf (hal i hi)
    unfold newLoop
    rcases hsn : subdeviceNew ((List.range n).map cfgAddr) als infos i with ⟨o, l⟩
    rw [hsn] at hnew
    simp only at hnew
    subst hnew
    simp only
    have hlen : acc.length = i := by simp [hacc]
    by_cases hcap : acc.length ≥ maxSub
    · have : ¬ n ≤ maxSub := by omega
      simp [hcap, this]
    · rw [if_neg hcap]
      apply ih (i + 1) _ _ (by omega) (by omega)
      rw [hacc, List.range_succ, List.map_append]
      simp

theorem flatten_modify_perm {α : Type} (r : α) :
    ∀ (ms : List (List α)) (k : Nat), k < ms.length →
      (ms.modify k (· ++ [r])).flatten.Perm (ms.flatten ++ [r]) := by
  intro ms
  induction ms with
  | nil => intro k h; simp at h
  | cons m ms ih =>
    intro k h
    cases k with
    | zero =>
      simp only [List.modify_zero_cons, List.flatten_cons, List.append_assoc]
      exact List.Perm.append_left m List.perm_append_comm
    | succ k =>
      simp only [List.modify_succ_cons, List.flatten_cons, List.append_assoc]
      exact List.Perm.append_left m (ih k (by simpa using h))

theorem modify_length' {α : Type} (f : α → α) (l : List α) (k : Nat) : (l.modify k f).length = l.length := by
  simp

/-- Grouping neither loses nor duplicates a SubDevice. -/
theorem groupLoop_perm (maxSub : Nat) (caps : List Nat) (assign : Record → Option Nat) :
    ∀ (rs : List Record) (g g' : Groups), groupLoop maxSub caps assign rs g = .ok g' →
      g'.members.flatten.Perm (g.members.flatten ++ rs) ∧ g'.members.length = g.members.length := by
  intro rs
  induction rs with
  | nil =>
    intro g g' h
    simp [groupLoop] at h
    subst h
    simp
  | cons r rs ih =>
    intro g g' h
    unfold groupLoop at h
    cases ha : assign r with
    | none => simp [ha] at h
    | some k =>
      simp only [ha] at h
      by_cases hk : k ≥ g.members.length
      · rw [if_pos hk] at h; cases h
      · rw [if_neg hk] at h
        by_cases hc : (g.members.getD k []).length ≥ caps.getD k 0
        · rw [if_pos hc] at h; cases h
        · rw [if_neg hc] at h
          have hperm := flatten_modify_perm r g.members k (by omega)
          by_cases ho : g.order.contains k
          · rw [if_pos ho] at h
            have := ih _ _ h
            refine ⟨?_, by simpa using this.2⟩
            refine this.1.trans ?_
            simp only
            have := List.Perm.append_right rs hperm
            simpa [List.append_assoc] using this
          · rw [if_neg ho] at h
            by_cases hl : g.order.length ≥ maxSub
            · rw [if_pos hl] at h; cases h
            · rw [if_neg hl] at h
              have := ih _ _ h
              refine ⟨?_, by simpa using this.2⟩
              refine this.1.trans ?_
              simp only
              have := List.Perm.append_right rs hperm
              simpa [List.append_assoc] using this

/-- Every member of group `k` is there because the filter said `k`. -/
theorem groupLoop_respects (maxSub : Nat) (caps : List Nat) (assign : Record → Option Nat) :
    ∀ (rs : List Record) (g g' : Groups), groupLoop maxSub caps assign rs g = .ok g' →
      (∀ k r, r ∈ g.members.getD k [] → assign r = some k) →
      (∀ k r, r ∈ g'.members.getD k [] → assign r = some k) := by
  intro rs
  induction rs with
  | nil =>
    intro g g' h hinv
    simp [groupLoop] at h
    subst h
    exact hinv
  | cons r rs ih =>
    intro g g' h hinv
    unfold groupLoop at h
    cases ha : assign r with
    | none => simp [ha] at h
    | some k =>
      simp only [ha] at h
      by_cases hk : k ≥ g.members.length
      · rw [if_pos hk] at h; cases h
      · rw [if_neg hk] at h
        by_cases hc : (g.members.getD k []).length ≥ caps.getD k 0
        · rw [if_pos hc] at h; cases h
        · rw [if_neg hc] at h
          have hinv' : ∀ k' r', r' ∈ (g.members.modify k (· ++ [r])).getD k' [] → assign r' = some k' := by
            intro k' r' hr'
            rw [List.getD_eq_getElem?_getD, List.getElem?_modify] at hr'
            by_cases hkk : k = k'
            · subst hkk
              cases hg : g.members[k]? with
              | none => simp [hg] at hr'
              | some m =>
                simp [hg] at hr'
                rcases hr' with hr' | hr'
                · apply hinv k r'
                  rw [List.getD_eq_getElem?_getD, hg]; simpa using hr'
                · rw [hr']; exact ha
            · simp [hkk] at hr'
              apply hinv k' r'
              rw [List.getD_eq_getElem?_getD]
              exact hr'
          by_cases ho : g.order.contains k
          · rw [if_pos ho] at h
            exact ih _ _ h hinv'
          · rw [if_neg ho] at h
            by_cases hl : g.order.length ≥ maxSub
            · rw [if_pos hl] at h; cases h
            · rw [if_neg hl] at h
              exact ih _ _ h hinv'

/-- AL status values of a ring that was reset and partly moved to PRE-OP. -/
def InitOrPreop (als : List Nat) : Prop := ∀ a ∈ als, a = 1 ∨ a = 2

theorem configureMailboxes_als (stations als : List Nat) (infos : List DevInfo) (r : Record) (als' : List Nat)
    (l : List Entry2) (h : configureMailboxes stations als infos r = (.ok als', l)) (hinv : InitOrPreop als) :
    InitOrPreop als' ∧ als'.length = als.length := by
  unfold configureMailboxes at h
  by_cases hw : wkc (fpExecutors stations r.cfg) ≠ 1
  · simp [hw] at h
  · simp only [hw, if_false] at h
    by_cases hr : (readLast (fpExecutors stations r.cfg) (writeAt (fpExecutors stations r.cfg) 2 als)).map (· % 16) ≠ some 2
    · simp [hr] at h
    · simp only [hr, if_false] at h
      have := (Prod.mk.inj h).1
      injection this with this
      subst this
      refine ⟨?_, writeAt_length _ _ _⟩
      intro a ha
      rcases mem_writeAt _ _ _ _ ha with h1 | h1
      · exact Or.inr h1
      · exact hinv a h1

theorem preopMembers_als (stations : List Nat) (infos : List DevInfo) :
    ∀ (rs : List Record) (als : List Nat) (log : List Entry2) (als' : List Nat) (log' : List Entry2),
      preopMembers stations infos rs als log = (.ok als', log') → InitOrPreop als →
      InitOrPreop als' ∧ als'.length = als.length := by
  intro rs
  induction rs with
  | nil =>
    intro als log als' log' h hinv
    simp [preopMembers] at h
    rw [← h.1]; exact ⟨hinv, rfl⟩
  | cons r rs ih =>
    intro als log als' log' h hinv
    unfold preopMembers at h
    rcases hc : configureMailboxes stations als infos r with ⟨o, l⟩
    rw [hc] at h
    cases o with
    | ok a =>
      simp only at h
      have h1 := configureMailboxes_als stations als infos r a l hc hinv
      have h2 := ih a _ als' log' h h1.1
      exact ⟨h2.1, h2.2.trans h1.2⟩
    | err e => simp at h
    | panic s => simp at h

theorem preopGroups_als (stations : List Nat) (infos : List DevInfo) (members : List (List Record)) :
    ∀ (ks : List Nat) (als : List Nat) (log : List Entry2) (r als' : List Nat) (log' : List Entry2),
      preopGroups stations infos members ks als log = (.ok r, als', log') → InitOrPreop als →
      InitOrPreop r ∧ r.length = als.length := by
  intro ks
  induction ks with
  | nil =>
    intro als log r als' log' h hinv
    simp [preopGroups] at h
    rw [← h.1]; exact ⟨hinv, rfl⟩
  | cons k ks ih =>
    intro als log r als' log' h hinv
    unfold preopGroups at h
    rcases hc : preopMembers stations infos (members.getD k []) als log with ⟨o, l⟩
    rw [hc] at h
    cases o with
    | ok a =>
      simp only at h
      have h1 := preopMembers_als stations infos _ als log a l hc hinv
      have h2 := ih a l r als' log' h h1.1
      exact ⟨h2.1, h2.2.trans h1.2⟩
    | err e => simp at h
    | panic s => simp at h

/-- OR of status values that are INIT (1) or PRE-OP (2): it is 2 only if none is 1. -/
theorem foldl_lor_small : ∀ (l : List Nat) (acc : Nat), acc < 4 → (∀ a ∈ l, a = 1 ∨ a = 2) →
    l.foldl Nat.lor acc < 4 ∧ ((l.foldl Nat.lor acc) % 2 = 1 ↔ (acc % 2 = 1 ∨ 1 ∈ l)) := by
  intro l
  induction l with
  | nil => intro acc h _; simp [h]
  | cons a l ih =>
    intro acc hacc hl
    have ha := hl a (by simp)
    have hl' : ∀ b ∈ l, b = 1 ∨ b = 2 := fun b hb => hl b (by simp [hb])
    have hstep : Nat.lor acc a < 4 ∧ ((Nat.lor acc a) % 2 = 1 ↔ (acc % 2 = 1 ∨ a = 1)) := by
      have : acc = 0 ∨ acc = 1 ∨ acc = 2 ∨ acc = 3 := by omega
      rcases this with rfl | rfl | rfl | rfl <;> rcases ha with rfl | rfl <;> decide
    have := ih (Nat.lor acc a) hstep.1 hl'
    refine ⟨this.1, ?_⟩
    simp only [List.foldl_cons]
    rw [this.2, hstep.2]
    constructor
    · rintro ((h | h) | h)
      · exact Or.inl h
      · exact Or.inr (by simp [h])
      · exact Or.inr (by simp [h])
    · rintro (h | h)
      · exact Or.inl (Or.inl h)
      · simp at h
        rcases h with h | h
        · exact Or.inl (Or.inr h.symm)
        · exact Or.inr h

theorem brdOr_preop (als : List Nat) (hinv : InitOrPreop als) (h : brdOr als % 16 = 2) : ∀ a ∈ als, a = 2 := by
  have := foldl_lor_small als 0 (by omega) hinv
  unfold brdOr at h
  have hlt := this.1
  have hodd : ¬ (als.foldl Nat.lor 0 % 2 = 1) := by omega
  rw [this.2] at hodd
  intro a ha
  rcases hinv a ha with h1 | h1
  · subst h1; exact absurd (Or.inr ha) hodd
  · exact h1

end Ec.Init
