import EcModel.Drv.C19
def main : IO Unit := Ec.Drv.runDriver Ec.Drv.C19.handle
