//! C14 — station alias write (exactly two words, CRC-8 0x07/0xFF), generic EEPROM write, write retry bound.
//!
//! The real `SubDeviceEeprom::set_station_alias`, `EepromRange::write`/`write_all` run against the in-memory
//! provider (`ecverif::eeprom_gen::MemProvider`); the real `DeviceEeprom::write_word` retry loop runs against a
//! one-device simulated wire (`devsim` below) through a real `MainDevice`/`PduLoop`.
use ecverif::eeprom_gen::{self as eg, Case, Fill, QueryResult};
use ecverif::rng::Rng;
use ecverif::util::{Report, hex};
use ecverif::eeprom_devsim as devsim;
use ethercrab::verif::eeprom as hook;

fn crc_ref(bytes: &[u8]) -> u8 {
    eg::crc8_division(bytes, 0xff)
}

/// Memory of the device before the case (from image + fill) at byte `a`.
fn before(case: &Case, a: u32) -> u8 {
    match case.fill {
        Fill::Wrap => {
            if case.img.is_empty() {
                0xff
            } else {
                case.img[a as usize % case.img.len()]
            }
        }
        Fill::Ff => case.img.get(a as usize).copied().unwrap_or(0xff),
        Fill::Zero => case.img.get(a as usize).copied().unwrap_or(0),
    }
}

/// `alias;setalias:v;alias;rg:0:8:x16` on a fresh device.
fn alias_case(rng: &mut Rng, alias: u16) -> Case {
    let n = match rng.below(4) {
        0 => 16,
        1 => rng.range(0, 15) as usize, // header partly outside the image: fill bytes take part
        _ => rng.range(16, 200) as usize,
    };
    let mut img = rng.bytes(n);
    if n >= 10 && rng.chance(1, 3) {
        // old alias equal to the new one, or zero
        let old = if rng.chance(1, 2) { alias } else { 0 };
        img[8..10].copy_from_slice(&old.to_le_bytes());
    }
    Case {
        key: "c14".into(),
        cs: if rng.chance(1, 2) { 4 } else { 8 },
        fill: *rng.pick(&[Fill::Ff, Fill::Zero, Fill::Wrap]),
        img,
        queries: vec!["alias".into(), format!("setalias:{alias}"), "alias".into(), "rg:0:8:x16".into()],
    }
}

fn run_alias_case(case: &Case, alias: u16, checked: bool, rep: &mut Report) {
    let line = case.to_line(checked);
    let (prov, res) = eg::run_case(case);
    let hdr: Vec<u8> = (0..16).map(|a| before(case, a)).collect();
    let mut patched = hdr[..14].to_vec();
    patched[8..10].copy_from_slice(&alias.to_le_bytes());
    let crc = crc_ref(&patched);
    // the crc crate (what the code uses) against the independent division
    if hook::STATION_ALIAS_CRC.checksum(&patched) != crc {
        eg::fail(rep, "c14/crc-algorithm", "STATION_ALIAS_CRC differs from CRC-8 poly 0x07 init 0xFF computed by polynomial division", &line);
    }
    let set: &QueryResult = &res[1];
    let want_log = vec![(4u16, alias.to_le_bytes()), (7u16, [crc, 0])];
    if !set.body.starts_with("ok") {
        eg::fail(rep, "c14/alias-failed", &format!("set_station_alias did not succeed: {}", set.body), &line);
    } else {
        if set.log != want_log {
            eg::fail(rep, "c14/alias-writes", &format!("provider writes {:?}, expected exactly {:?}", set.log, want_log), &line);
        }
        // every byte of the device outside 8,9,14,15 unchanged (first 4 KiB + whatever the image covers)
        let lim = (case.img.len() as u32 + 64).max(4096);
        for a in 0..lim {
            let exp = match a {
                8 => alias as u8,
                9 => (alias >> 8) as u8,
                14 => crc,
                15 => 0,
                _ => before(case, a),
            };
            if prov.byte(a) != exp {
                eg::fail(rep, "c14/alias-memory", &format!("byte {a} is {:#04x}, expected {:#04x}", prov.byte(a), exp), &line);
                break;
            }
        }
        if res[2].body != format!("v.{alias}") {
            eg::fail(rep, "c14/alias-readback", &format!("alias read back {} after setting {alias}", res[2].body), &line);
        }
    }
    rep.hit(if hdr[8..10] == alias.to_le_bytes() { "alias-unchanged" } else { "alias-changed" });
    rep.hit(&format!("alias-cs{}", case.cs));
    rep.nontrivial.insert(format!("{}:{}", alias, hex(&hdr)));
    rep.case(line, eg::answer_line(&res));
}

/// Generic write: payload `p` through `write_all` (or one `write`) on `EepromRange::new(start, len)` or
/// `start_at(start, len_bytes)`.
struct WriteCase {
    via_start_at: bool,
    start: u16,
    len: u16,
    payload: Vec<u8>,
    single_write: bool,
}

fn gen_write_case(rng: &mut Rng) -> WriteCase {
    let n = match rng.below(6) {
        0 => 0,
        1 => 64,
        2 => 1,
        _ => rng.range(0, 64) as usize,
    };
    let payload = rng.bytes(n);
    let via_start_at = rng.chance(1, 3);
    let start = match rng.below(8) {
        0 => 0,
        1 => 0x7fff,
        2 => 0x8000,
        3 => 0xffff,
        4 => rng.range(0x7f00, 0x80ff) as u16,
        _ => rng.range(0, 0x3000) as u16,
    };
    let len = if via_start_at {
        // eeprom_write_dangerously: len_bytes = PACKED_LEN; sometimes other
        match rng.below(6) {
            0 => rng.range(0, 70) as u16,
            _ => n as u16,
        }
    } else {
        let need = (n as u16).div_ceil(2);
        match rng.below(6) {
            0 => need.saturating_sub(1),
            1 => 0,
            2 => need + rng.range(1, 9) as u16,
            3 => rng.edgy(0xffff) as u16,
            _ => need,
        }
    };
    WriteCase { via_start_at, start, len, payload, single_write: rng.chance(1, 3) }
}

fn run_write_case(rng: &mut Rng, w: &WriteCase, checked: bool, rep: &mut Report) {
    let op = format!("{}{}", if w.single_write { "w" } else { "a" }, hex(&w.payload));
    let q = format!("{}:{}:{}:{}", if w.via_start_at { "sa" } else { "rg" }, w.start, w.len, op);
    let img_len = rng.range(0, 96) as usize;
    let case = Case {
        key: "c14".into(),
        cs: if rng.chance(1, 2) { 4 } else { 8 },
        fill: *rng.pick(&[Fill::Ff, Fill::Zero]),
        img: rng.bytes(img_len),
        queries: vec![q],
    };
    let line = case.to_line(checked);
    let (prov, res) = eg::run_case(&case);
    let r = &res[0];
    // window in bytes as the property means it (no wrap-around of the 16-bit byte address)
    let len_words = if w.via_start_at { (w.len as u32).div_ceil(2) } else { w.len as u32 };
    let lo = 2 * w.start as u32;
    // the window is clipped to the 2^16 words of the address space
    let hi = (lo + 2 * len_words).min(0x2_0000);
    let addressable = true;
    let n = w.payload.len() as u32;
    let padded = n + n % 2;
    if addressable {
        // bytes the write may store: the payload (padded) clipped to the window, at `lo`
        let stored = padded.min(hi - lo);
        let mut ok_mem = true;
        for (wa, d) in &r.log {
            let a = 2 * *wa as u32;
            if a < lo || a + 2 > hi {
                eg::fail(rep, "c14/write-outside-range", &format!("word {wa} written outside the permitted byte range {lo}..{hi}"), &line);
                ok_mem = false;
            }
            let i = a.wrapping_sub(lo) as usize;
            let e0 = w.payload.get(i).copied();
            let e1 = w.payload.get(i + 1).copied().unwrap_or(0);
            if Some(d[0]) != e0 || d[1] != e1 {
                eg::fail(rep, "c14/write-data", &format!("word {wa} holds {:02x?}, payload says {:02x?}", d, (e0, e1)), &line);
                ok_mem = false;
            }
        }
        let expect_words = stored / 2;
        if ok_mem && r.log.len() as u32 != expect_words {
            eg::fail(rep, "c14/write-count", &format!("{} words written, expected {}", r.log.len(), expect_words), &line);
        }
        // memory: payload where stored, untouched elsewhere
        for a in lo.saturating_sub(8)..hi + 8 {
            let exp = if a >= lo && a < lo + stored {
                w.payload.get((a - lo) as usize).copied().unwrap_or(0)
            } else {
                before(&case, a)
            };
            if prov.byte(a) != exp {
                eg::fail(rep, "c14/write-memory", &format!("byte {a} is {:#04x}, expected {:#04x}", prov.byte(a), exp), &line);
                break;
            }
        }
        // outcome: a write must not crash the caller; a payload that fits is accepted, one that does not is an error
        if r.body.contains('!') {
            eg::fail(rep, "c14/write-panics", &format!("write panicked: {}", r.body), &line);
        } else if !w.single_write && padded <= hi - lo && !r.body.contains("a=ok") {
            eg::fail(rep, "c14/write-all-failed", &format!("fitting payload not written: {}", r.body), &line);
        } else if !w.single_write && padded > hi - lo && !r.body.contains("a=E:overrun") {
            eg::fail(rep, "c14/write-all-overrun-accepted", &format!("payload longer than the window not refused: {}", r.body), &line);
        } else if w.single_write {
            // `write` must never report more bytes than it was given
            if let Some(k) = r.body.split(',').next().and_then(|t| t.strip_prefix("w=")).and_then(|t| t.parse::<u32>().ok()) {
                if k > n || k != n.min(stored) {
                    eg::fail(rep, "c14/write-count-reported", &format!("write of {n} bytes reported {k}, stored {stored}"), &line);
                }
            }
        }
    } else if r.body.contains('!') || (r.log.iter().any(|(wa, _)| (2 * *wa as u32) < lo)) {
        eg::fail(rep, "c14/write-range-overflow",
            "EepromRange::new: start_word*2 (+ len_words*2) overflows u16: panic in debug, window wraps to low addresses in release",
            &line,
        );
    }
    rep.hit(if w.via_start_at { "write-start_at" } else { "write-range" });
    rep.hit(&format!("write-len{}", if n == 0 { "0".into() } else if n % 2 == 1 { "odd".to_string() } else { "even".to_string() }));
    rep.hit(if addressable { if padded <= hi - lo { "write-fits" } else { "write-clipped" } } else { "write-unaddressable" });
    if n >= 2 {
        rep.nontrivial.insert(line.clone());
    }
    rep.case(line, eg::answer_line(&res));
}

fn main() {
    let args = ecverif::parse_args();
    eg::install_panic_capture();
    let checked = eg::is_checked_build();
    let mut rep = Report::default();
    rep.notes.push(format!("c14 arithmetic profile: {}", if checked { "checked (debug)" } else { "wrapping (release)" }));
    if let Some(cases) = ecverif::replay_cases(&args) {
        for c in cases.iter().filter(|c| c.starts_with("c14 ")) {
            if c.starts_with("c14 proto ") {
                devsim::run_proto_line(c, &mut rep);
            } else if let Some(case) = Case::parse(c) {
                let (_p, res) = eg::run_case(&case);
                rep.case(case.to_line(checked), eg::answer_line(&res));
            }
        }
    } else {
        let r = std::panic::catch_unwind(std::panic::AssertUnwindSafe(|| run(&args.tier, args.seed, checked, &mut rep)));
        if r.is_err() {
            eprintln!("harness bug: generator/monitor panicked: {:?}", eg::take_last_panic());
            std::process::exit(3);
        }
    }
    rep.write(&args.out, "c14");
}

fn run(tier: &str, seed: u64, checked: bool, rep: &mut Report) {
    let mut rng = Rng::new(seed ^ 0xc14);
    // corpus: the suite's own example (akd header, alias 0xabcd => checksum 0x04) and boundary aliases
    let akd = vec![0x09, 0x00, 0x00, 0x08, 0, 0, 0, 0, 0, 0, 0, 0, 0, 0, 0x10, 0x00];
    let c = Case { key: "c14".into(), cs: 8, fill: Fill::Ff, img: akd, queries: vec!["alias".into(), "setalias:43981".into(), "alias".into(), "rg:0:8:x16".into()] };
    run_alias_case(&c, 43981, checked, rep);
    for a in [0u16, 1, 0xff, 0x100, 0x7fff, 0x8000, 0xfffe, 0xffff] {
        let c = alias_case(&mut rng, a);
        run_alias_case(&c, a, checked, rep);
    }
    let aliases: Vec<u16> = if tier == "thorough" { (0..=0xffffu16).collect() } else { (0..=0xffffu16).step_by(97).collect() };
    for a in aliases {
        let c = alias_case(&mut rng, a);
        run_alias_case(&c, a, checked, rep);
    }
    // generic writes: corpus of the known classes first
    for w in [
        WriteCase { via_start_at: false, start: 4, len: 2, payload: vec![1, 2, 3], single_write: false }, // odd, fits
        WriteCase { via_start_at: false, start: 4, len: 2, payload: vec![1, 2, 3], single_write: true },
        WriteCase { via_start_at: true, start: 4, len: 1, payload: vec![0xaa], single_write: false },     // eeprom_write_dangerously::<u8>
        WriteCase { via_start_at: true, start: 4, len: 3, payload: vec![1, 2, 3], single_write: false },
        WriteCase { via_start_at: false, start: 4, len: 1, payload: vec![1, 2, 3, 4], single_write: false }, // longer than range
        WriteCase { via_start_at: false, start: 0x8000, len: 1, payload: vec![1, 2], single_write: false },
        WriteCase { via_start_at: false, start: 0x7fff, len: 1, payload: vec![1, 2], single_write: false },
        WriteCase { via_start_at: false, start: 0, len: 32, payload: (0..64).collect(), single_write: false },
    ] {
        run_write_case(&mut rng, &w, checked, rep);
    }
    let n = if tier == "thorough" { 60_000 } else { 10_000 };
    for _ in 0..n {
        let w = gen_write_case(&mut rng);
        run_write_case(&mut rng, &w, checked, rep);
    }
    // write_word retry loop on the real DeviceEeprom over a simulated wire
    devsim::run(tier, &mut rng, rep);
}
