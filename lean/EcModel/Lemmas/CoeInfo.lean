/-
  C16 helper lemmas for the SDO-information loop: panic-freedom, buffer bound, number of mailbox reads.
-/
import EcModel.Lemmas.CoeTotal

namespace Ec.Coe
open Ec Ec.Gen.Coe

/-- One loop iteration never panics, whatever the message. -/
theorem infoStep_noPanic (cfg : Cfg) (p : Pdu) (consumed : Bool) (buf : List Nat) :
    Res.isPanic (infoStep cfg p consumed buf) = false := by
  unfold infoStep
  refine Res.bind_noPanic _ _ (unpackListResponse_noPanic _) fun h _ => ?_
  repeat' split
  all_goals rfl

/-- What a successful iteration does to the buffer: it grows (weakly) and stays within the capacity. -/
theorem infoStep_frag (cfg : Cfg) (p : Pdu) (consumed : Bool) (buf buf' : List Nat) (inc : Bool)
    (h : infoStep cfg p consumed buf = .ok (.frag buf' inc)) :
    buf.length ≤ buf'.length ∧ buf'.length ≤ INFO_BUF_CAP := by
  unfold infoStep at h
  obtain ⟨hd, _, h⟩ := bind_ok_inv h
  split at h
  · split at h
    · cases h
    · split at h
      · cases h
      · split at h
        · cases h
        · next hcap =>
          split at h
          · cases h
          · cases h
            simp only [List.length_append]
            omega
  · cases h

/-- A fragment that announces more fragments has added at least one byte (fix-c16-endless-loops). -/
theorem infoStep_progress (cfg : Cfg) (p : Pdu) (consumed : Bool) (buf buf' : List Nat)
    (hp : (infoTrim p consumed).bytes.length = (infoTrim p consumed).len)
    (h : infoStep cfg p consumed buf = .ok (.frag buf' true)) : buf.length < buf'.length := by
  unfold infoStep at h
  obtain ⟨hd, _, h⟩ := bind_ok_inv h
  split at h
  · split at h
    · cases h
    · next hge =>
      split at h
      · cases h
      · next hlen =>
        split at h
        · cases h
        · split at h
          · cases h
          · next hz =>
            injection h with h
            injection h with hb hi
            subst hb
            simp only [Bool.and_eq_true, beq_iff_eq, not_and, hi, true_implies] at hz
            simp only [List.length_append, List.length_take, hp]
            omega
  · cases h

theorem infoLoop_noPanic (cfg : Cfg) : ∀ (q : List (List Nat)) (consumed : Bool) (buf : List Nat) (reads : Nat),
    Res.isPanic (infoLoop cfg q consumed buf reads).1 = false := by
  intro q
  induction q with
  | nil => intro _ _ _; rfl
  | cons m q ih =>
    intro consumed buf reads
    unfold infoLoop
    have hstep := infoStep_noPanic cfg (mkPdu cfg (image cfg.rmbx m)) consumed buf
    cases hs : infoStep cfg (mkPdu cfg (image cfg.rmbx m)) consumed buf with
    | err e => rfl
    | panic why => rw [hs] at hstep; simp at hstep
    | ok st =>
      cases st with
      | frag buf' inc =>
        dsimp only
        split
        · exact ih _ _ _
        · rfl

/-- The accumulation buffer never exceeds its capacity. -/
theorem infoLoop_bounded (cfg : Cfg) : ∀ (q : List (List Nat)) (consumed : Bool) (buf : List Nat) (reads : Nat)
    (out : List Nat), (infoLoop cfg q consumed buf reads).1 = .ok out → out.length ≤ INFO_BUF_CAP := by
  intro q
  induction q with
  | nil => intro _ _ _ _ h; cases h
  | cons m q ih =>
    intro consumed buf reads out h
    unfold infoLoop at h
    cases hs : infoStep cfg (mkPdu cfg (image cfg.rmbx m)) consumed buf with
    | err e => rw [hs] at h; cases h
    | panic why => rw [hs] at h; cases h
    | ok st =>
      rw [hs] at h
      cases st with
      | frag buf' inc =>
        dsimp only at h
        split at h
        · exact ih _ _ _ _ h
        · cases h
          exact (infoStep_frag _ _ _ _ _ _ hs).2

/-- Every iteration takes one message out of the device: at most `q.length` reads, and what is left is a suffix. -/
theorem infoLoop_reads (cfg : Cfg) : ∀ (q : List (List Nat)) (consumed : Bool) (buf : List Nat) (reads : Nat),
    (infoLoop cfg q consumed buf reads).2.2 + (infoLoop cfg q consumed buf reads).2.1.length = reads + q.length := by
  intro q
  induction q with
  | nil => intro _ _ _; rfl
  | cons m q ih =>
    intro consumed buf reads
    unfold infoLoop
    cases hs : infoStep cfg (mkPdu cfg (image cfg.rmbx m)) consumed buf with
    | err e => simp only [List.length_cons]; omega
    | panic why => simp only [List.length_cons]; omega
    | ok st =>
      cases st with
      | frag buf' inc =>
        dsimp only
        split
        · have := ih true buf' (reads + 1)
          simp only [List.length_cons]; omega
        · simp only [List.length_cons]; omega

/-- Whatever the device sends and however long it keeps sending: the number of mailbox reads of the SDO-info loop is
    bounded by the free space of the accumulation buffer (+1), because every fragment that announces another one adds at
    least one byte and everything else ends the loop (fix-c16-endless-loops). -/
theorem infoLoop_reads_bounded (cfg : Cfg) : ∀ (q : List (List Nat)) (consumed : Bool) (buf : List Nat) (reads : Nat),
    buf.length ≤ INFO_BUF_CAP →
      (infoLoop cfg q consumed buf reads).2.2 ≤ reads + (INFO_BUF_CAP - buf.length) + 1 := by
  intro q
  induction q with
  | nil => intro _ _ _ _; show _ ≤ _; simp [infoLoop]; omega
  | cons m q ih =>
    intro consumed buf reads hb
    unfold infoLoop
    cases hs : infoStep cfg (mkPdu cfg (image cfg.rmbx m)) consumed buf with
    | err e => dsimp only; omega
    | panic why => dsimp only; omega
    | ok st =>
      cases st with
      | frag buf' inc =>
        dsimp only
        have hf := infoStep_frag _ _ _ _ _ _ hs
        cases inc with
        | false => simp only [Bool.false_eq_true, if_false]; omega
        | true =>
          simp only [if_true]
          have hlt : buf.length < buf'.length := by
            refine infoStep_progress cfg _ consumed buf buf' ?_ hs
            have hok : (infoTrim (mkPdu cfg (image cfg.rmbx m)) consumed).start +
                (infoTrim (mkPdu cfg (image cfg.rmbx m)) consumed).len ≤
                (infoTrim (mkPdu cfg (image cfg.rmbx m)) consumed).frame.length := by
              have h0 := mkPdu_ok cfg (image cfg.rmbx m)
              unfold infoTrim
              split
              · show _ + min _ _ + min _ _ + (_ - _ - _) ≤ _
                simp only [Pdu.trimFront] at *
                omega
              · simp only [Pdu.trimFront] at *
                omega
            exact Pdu.bytes_length _ hok
          have := ih true buf' (reads + 1) hf.2
          omega

/-! ### send_sdo_info_service and its two callers -/

theorem sendSdoInfoService_noPanic {σ : Type} (w : World σ) (cfg : Cfg) (req : List Nat) (s : St σ) :
    Res.isPanic (sendSdoInfoService w cfg req s).1 = false := by
  unfold sendSdoInfoService
  split
  · rfl
  · dsimp only
    rw [Res.map_isPanic]
    exact infoLoop_noPanic cfg _ _ _ _

theorem sdoInfoList_noPanic {σ : Type} (w : World σ) (cfg : Cfg) (listType : Nat) (s : St σ) :
    Res.isPanic (sdoInfoList w cfg listType s).1 = false := by
  unfold sdoInfoList
  dsimp only
  have h := sendSdoInfoService_noPanic w cfg (listRequest (mailboxCounter s).1 listType) (mailboxCounter s).2
  generalize sendSdoInfoService w cfg (listRequest (mailboxCounter s).1 listType) (mailboxCounter s).2 = r at h
  obtain ⟨r1, s'⟩ := r
  cases r1 with
  | err e => rfl
  | panic why => simp at h
  | ok o => cases o <;> rfl

theorem sdoInfoQuantities_noPanic {σ : Type} (w : World σ) (cfg : Cfg) (s : St σ) :
    Res.isPanic (sdoInfoQuantities w cfg s).1 = false := by
  unfold sdoInfoQuantities
  dsimp only
  have h := sendSdoInfoService_noPanic w cfg (listRequest (mailboxCounter s).1 0) (mailboxCounter s).2
  generalize sendSdoInfoService w cfg (listRequest (mailboxCounter s).1 0) (mailboxCounter s).2 = r at h
  obtain ⟨r1, s'⟩ := r
  cases r1 with
  | err e => rfl
  | panic why => simp at h
  | ok o =>
    cases o with
    | none => rfl
    | some payload => dsimp only; split <;> rfl

theorem sendSdoInfoService_bounded {σ : Type} (w : World σ) (cfg : Cfg) (req : List Nat) (s : St σ) (out : List Nat)
    (h : (sendSdoInfoService w cfg req s).1 = .ok (some out)) : out.length ≤ INFO_BUF_CAP := by
  unfold sendSdoInfoService at h
  split at h
  · cases h
  · dsimp only at h
    generalize hr : infoLoop cfg (writeRequest w cfg req (drainStale s)).outq false [] 0 = r at h
    obtain ⟨r1, q, n⟩ := r
    cases r1 with
    | err e => cases h
    | panic why => cases h
    | ok b =>
      have hb : b = out := by
        simp only [Res.map, Res.bind_ok] at h
        cases h; rfl
      subst hb
      exact infoLoop_bounded cfg _ _ _ _ b (by rw [hr])

/-- Conservation: every mailbox read takes one message out of the device. -/
theorem sendSdoInfoService_reads {σ : Type} (w : World σ) (cfg : Cfg) (req : List Nat) (s : St σ)
    (hm : cfg.hasMailbox = true) :
    (sendSdoInfoService w cfg req s).2.reads + (sendSdoInfoService w cfg req s).2.outq.length =
      s.reads + s.outq.length + (w.respond s.dev (image cfg.wmbx req)).2.length := by
  unfold sendSdoInfoService
  rw [if_neg (by simp [hm])]
  dsimp only
  have h := infoLoop_reads cfg (writeRequest w cfg req (drainStale s)).outq false [] 0
  simp only [writeRequest, drainStale, List.length_append, List.length_drop] at h ⊢
  omega

end Ec.Coe
