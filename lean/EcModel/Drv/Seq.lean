/- Line protocol for sequential PDU-loop histories (used by C03, C05, C06, C01 sequential parts):
   `<key> <n> <data> <frameIdx0> <pduIdx0> <op>;<op>;...` -> one result token per op, joined by `;` -/
import EcModel.Slots
import EcModel.Drv.C04

namespace Ec.Drv.Seq
open Ec Ec.Drv

def stepOp (w : World) (op : String) : World × String :=
  match splitOn op "," with
  | ["al", r] => opAlloc w (nat! r)
  | ["pu", r, c, d, l] =>
    match C04.parseCmd c with
    | some cmd => opPush w (nat! r) cmd (hex! d) (optNat l)
    | none => (w, "bad-op")
  | ["re", r, c, d] =>
    match C04.parseCmd c with
    | some cmd => opRest w (nat! r) cmd (hex! d)
    | none => (w, "bad-op")
  | ["mk", r, retries, timeout] => opMark w (nat! r) (nat! retries) (nat! timeout)
  | ["dc", r] => opDropCreated w (nat! r)
  | ["tn", r] => opTxNext w (nat! r)
  | ["ts", r, o] => opTxSend w (nat! r) (nat! o)
  | ["rx", h] => opRx w (hex! h)
  | ["po", r] => opPoll w (nat! r)
  | ["df", r] => opDropFut w (nat! r)
  | ["fp", r, code, idx] => opFirst w (nat! r) (nat! code) (nat! idx)
  | ["it", r, m] => opIter w (nat! r) (nat! m)
  | ["dr", r] => opDropReceived w (nat! r)
  | ["vr", r] => opViewRead w (nat! r)
  | ["vt", r, k] => opViewTrim w (nat! r) (nat! k)
  | ["dv", r] => opDropView w (nat! r)
  | ["ad", us] => opAdvance w (nat! us)
  | ["rs"] => opReset w
  | ["sn"] => opSnap w
  | ["no"] => (w, "ok")
  | _ => (w, "bad-op")

def handle (args : List String) : String :=
  match args with
  | [n, data, fi, pi, ops] =>
    let s0 := Sys.init (nat! n) (nat! data)
    let w0 : World := ({ s0 with frameIdx := nat! fi, pduIdx := nat! pi }, [])
    let r := (splitOn ops ";").foldl (fun (acc : World × List String) op =>
      let x := stepOp acc.1 op
      (x.1, x.2 :: acc.2)) (w0, [])
    joinWith ";" r.2.reverse
  | _ => "bad-case"

end Ec.Drv.Seq
