/-
  Line protocol shared by drv_c15 / drv_c16 (the CoE client model run on a scripted or a specification device).

  case:   cXX mode=<c|w> rmbx=<n> wmbx=<n> mbx=<0|1> ctr=<n> stale=<msgs> dev=<device> op=<op>
    msgs    `_` (none) or `m,m,...`; a message is hex (`-` = zero bytes) optionally prefixed `<count>*`
    device  `script:<entry>;<entry>;...` one entry (msgs) per request   (C16: arbitrary bytes)
            `server:...`                 the specification server, see Drv/C15.lean
    op      read:<T>:<index>:<sub|C>     T = u8|u16|u32|u64|a<N>|w<N>|s<N>|v<N>
            readx:<index>:<sub|C>        sdo_read_expedited::<u32>
            write:<index>:<sub|C>:<hex value>
            readarr:<T>:<MAX>:<index>    T = u8|u16|u32
            writearr:<index>:<hex>,<hex>,...
            list:<type>   quant
  answer: <result> ctr=<counter after> reads=<mailbox reads> left=<messages left in the device> reqs=<hex,...>
-/
import EcModel.CoeHonest
import EcModel.Drv.Util

namespace Ec.Drv.Coe
open Ec Ec.Drv Ec.Coe

def showErr : Err → String
  | .wireShort => "WireShort"
  | .wireInvalid => "WireInvalid"
  | .timeout => "Timeout"
  | .noMailbox => "NoMailbox"
  | .emergency c r => s!"Emergency({c},{r})"
  | .aborted c a s => s!"Aborted({c},{a},{s})"
  | .responseInvalid a s => s!"ResponseInvalid({a},{s})"
  | .tooLong a s => s!"TooLong({a},{s})"
  | .internal => "Internal"
  | .decode => "Decode"
  | .capacity => "Capacity"
  | .outOfFuel => "OutOfFuel"

def showRes {α : Type} (f : α → String) : Res α → String
  | .ok a => "ok" ++ f a
  | .err e => "err:" ++ showErr e
  | .panic _ => "panic"

/-- `key=value` lookup. -/
def arg (args : List String) (key : String) : String :=
  match args.find? fun a => a.startsWith (key ++ "=") with
  | some a => (a.drop (key.length + 1)).toString
  | none => ""

def parseMsg (s : String) : List (List Nat) :=
  match splitOn s "*" with
  | [n, h] => List.replicate (nat! n) (hex! h)
  | _ => [hex! s]

def parseMsgs (s : String) : List (List Nat) :=
  if s = "_" || s = "" then [] else (splitOn s ",").flatMap parseMsg

def parseScript (s : String) : List (List (List Nat)) :=
  if s = "" then [] else (splitOn s ";").map parseMsgs

def parseAccess (s : String) : SubIndex := if s = "C" then .complete else .index (nat! s)

/-! Destination types of the harness (`T::buffer().len()`, `T::unpack_from_slice`), results as the bytes consumed. -/

def intDest (n : Nat) : Dest (List Nat) :=
  { bufLen := n, decode := fun b => if b.length < n then none else some (b.take n) }

/-- `[u8; N]`: buffer N bytes, needs N bytes. -/
def arrDest (n : Nat) : Dest (List Nat) := intDest n

/-- `[u16; N]`: `PACKED_LEN = 2N` but `Buffer = [u8; N]`; needs 2N bytes. -/
def wordArrDest (n : Nat) : Dest (List Nat) :=
  { bufLen := n, decode := fun b => if b.length < 2 * n then none else some (b.take (2 * n)) }

/-- `heapless::String<N>`: whole payload must be UTF-8 and at most N bytes. -/
def strDest (n : Nat) : Dest (List Nat) :=
  { bufLen := n, decode := fun b =>
      if b.length ≤ n && ByteArray.validateUTF8 (ByteArray.mk (b.map fun x => x.toUInt8).toArray) then some b else none }

/-- `heapless::Vec<u8, N>`: `chunks_exact(1).take(N)`. -/
def vecDest (n : Nat) : Dest (List Nat) := { bufLen := n, decode := fun b => some (b.take n) }

def parseDest (t : String) : Dest (List Nat) :=
  if t = "u8" then intDest 1
  else if t = "u16" then intDest 2
  else if t = "u32" then intDest 4
  else if t = "u64" then intDest 8
  else
    let n := nat! (t.drop 1).toString
    if t.startsWith "a" then arrDest n
    else if t.startsWith "w" then wordArrDest n
    else if t.startsWith "s" then strDest n
    else vecDest n

def showBytes (b : List Nat) : String := ":" ++ (if b.isEmpty then "-" else hexBytes b)

def u16Bytes (vs : List Nat) : List Nat := vs.flatMap le16

/-- Run one operation on a device and print the answer. -/
def runOp {σ : Type} (w : World σ) (cfg : Cfg) (fuel : Nat) (op : String) (s : St σ) (left : σ → Nat) : String :=
  let fin {α : Type} (f : α → String) (r : Res α × St σ) : String :=
    showRes f r.1 ++ s!" ctr={r.2.ctr} reads={r.2.reads} left={r.2.outq.length + left r.2.dev} reqs=" ++
      (if r.2.reqs.isEmpty then "_" else joinWith "," (r.2.reqs.map hexBytes))
  match splitOn op ":" with
  | ["read", t, idx, sub] => fin showBytes (sdoReadT w cfg fuel (parseDest t) (nat! idx) (parseAccess sub) s)
  | ["readx", idx, sub] =>
    let r := sdoReadExpedited w cfg (nat! idx) (parseAccess sub) s
    -- `T::unpack_from_slice(..)?` with T = u32: a short payload is `Error::Wire(ReadBufferTooShort)`
    let r' : Res (List Nat) := r.1.bind fun b => if b.length < 4 then .err .wireShort else .ok (b.take 4)
    fin showBytes (r', r.2)
  | ["write", idx, sub, v] => fin (fun _ => "") (sdoWrite w cfg (nat! idx) (parseAccess sub) (hex! v) s)
  | ["readarr", t, mx, idx] =>
    fin (fun (vs : List (List Nat)) => s!":{vs.length}" ++ showBytes vs.flatten)
      (sdoReadArray w cfg fuel (parseDest t) (nat! mx) (nat! idx) s)
  | ["writearr", idx, vs] =>
    fin (fun _ => "") (sdoWriteArray w cfg (nat! idx) (if vs = "_" then [] else (splitOn vs ",").map hex!) s)
  | ["list", t] =>
    fin (fun (o : Option (List Nat)) => match o with | none => ":none" | some vs => showBytes (u16Bytes vs))
      (sdoInfoList w cfg (nat! t) s)
  | ["quant"] =>
    fin (fun (o : Option (List Nat)) => match o with | none => ":none" | some vs => showBytes (u16Bytes vs))
      (sdoInfoQuantities w cfg s)
  | _ => "bad-op"

def parseCfg (args : List String) : Cfg :=
  { mode := if arg args "mode" = "w" then .wrapping else .checked,
    rmbx := nat! (arg args "rmbx"), wmbx := nat! (arg args "wmbx"),
    hasMailbox := arg args "mbx" != "0", pre := [], post := [] }

/-- The scripted (hostile) device. -/
def handleScript (args : List String) (script : String) : String :=
  let sc := parseScript script
  let stale := parseMsgs (arg args "stale")
  let fuel := sc.length + (sc.map List.length).sum + stale.length + 2
  runOp scriptWorld (parseCfg args) fuel (arg args "op") (St.init (nat! (arg args "ctr")) sc stale)
    (fun _ => 0)

/-! The specification server: `server:ctr=<n>;scs=<n>;mode=<auto|normal|seg.<first>.<k>.<k>...>;strict=<0|1>;`
    `aborts=<i.s.code,...|_>;emerg=<code.reg.hex,...|_>;dict=<i.s.hex,...|_>` -/

def sub (kvs : List String) (key : String) : String := arg kvs key

def parseSizes (l : List String) : List Nat :=
  l.flatMap fun t => match splitOn t "*" with
    | [n, k] => List.replicate (nat! n) (nat! k)
    | _ => [nat! t]

def parseMode (s : String) : CoeSrv.UploadMode :=
  match splitOn s "." with
  | "seg" :: first :: sizes => .segmented (nat! first) (parseSizes sizes)
  | ["normal"] => .normal
  | _ => .auto

def parseList (s : String) : List (List String) :=
  if s = "_" || s = "" then [] else (splitOn s ",").map fun e => splitOn e "."

def parseServer (rmbx : Nat) (s : String) : CoeSrv.Server :=
  let kvs := splitOn s ";"
  { dict := (parseList (sub kvs "dict")).filterMap fun e => match e with
      | [i, sb, h] => some ((nat! i, nat! sb), hex! h)
      | _ => none,
    aborts := (parseList (sub kvs "aborts")).filterMap fun e => match e with
      | [i, sb, c] => some ((nat! i, nat! sb), nat! c)
      | _ => none,
    mode := parseMode (sub kvs "mode"),
    seg := none,
    counter := nat! (sub kvs "ctr"),
    rmbx := rmbx,
    scs := nat! (sub kvs "scs"),
    emergencies := (parseList (sub kvs "emerg")).filterMap fun e => match e with
      | [c, r, h] => some (nat! c, nat! r, hex! h)
      | _ => none,
    strictLen := sub kvs "strict" != "0" }

def showDict (d : CoeSrv.Dict) : String :=
  if d.isEmpty then "_" else joinWith "," (d.map fun e => s!"{e.1.1}.{e.1.2}." ++ (if e.2.isEmpty then "-" else hexBytes e.2))

/-- Largest number of segments an upload can need + slack (fuel of the segmented loop). -/
def handleServer (args : List String) (spec : String) : String :=
  let cfg := parseCfg args
  let srv := parseServer cfg.rmbx spec
  let stale := parseMsgs (arg args "stale")
  let fuel := 2000
  let s0 := St.init (nat! (arg args "ctr")) srv stale
  -- the final dictionary is part of the answer: run the op once more for the state (pure, same result)
  let op := arg args "op"
  let out := runOp serverWorld cfg fuel op s0 (fun _ => 0)
  let fin : St CoeSrv.Server :=
    match splitOn op ":" with
    | ["write", idx, sb, v] => (sdoWrite serverWorld cfg (nat! idx) (parseAccess sb) (hex! v) s0).2
    | ["writearr", idx, vs] =>
      (sdoWriteArray serverWorld cfg (nat! idx) (if vs = "_" then [] else (splitOn vs ",").map hex!) s0).2
    | _ => s0
  out ++ " od=" ++ showDict fin.dev.dict

def handle (args : List String) : String :=
  let dev := arg args "dev"
  if dev.startsWith "script:" then handleScript args (dev.drop 7).toString
  else if dev.startsWith "server:" then handleServer args (dev.drop 7).toString
  else "bad-case"

end Ec.Drv.Coe
