/-
  Helper lemmas for Props/C13Config: what `SubDeviceEeprom::pdos` returns for an ARBITRARY memory is within the
  types the configuration arithmetic (EcModel/Config.lean) assumes — at most 64 PDOs, each `bit_len` ≤ 255 · 255.
  (`pdoLoop_tri` of EepromSafe with a stronger postcondition; same proof.)
-/
import EcModel.Lemmas.EepromSafe
import EcModel.Lemmas.ConfigTotal

namespace Ec.Eeprom
open Ec

/-- `pdoLoop_tri` with the bit lengths kept: every PDO returned carries `bit_len ≤ 255 · 255 = 65025`
    (at most 255 entries of at most 255 bits: the `u16` sum in `SubDeviceEeprom::pdos` cannot overflow). -/
theorem pdoLoop_bits {K : List String} (m : Mode) (hang : Bool) (p : Prov) (hcs : 2 ≤ p.cs)
    (hb : ∀ a, p.rd a < 256) :
    ∀ (fuel : Nat) (r : Range) (acc : List Pdo), r.WF → acc.length ≤ Gen.Eeprom.CAP_PDOS →
      (∀ x ∈ acc, x.bitLen ≤ 65025) →
      Gen.Eeprom.CAP_PDOS + 1 - acc.length < fuel →
      Tri K hang (fuel * 2304) (fun l => l.length ≤ Gen.Eeprom.CAP_PDOS ∧ ∀ x ∈ l, x.bitLen ≤ 65025)
        (pdoLoop m p fuel r acc) := by
  intro fuel
  induction fuel with
  | zero => intro r acc _ _ _ h; omega
  | succ fuel ih =>
    intro r acc hr hacc hbits hfuel
    unfold pdoLoop
    have hn := nextItem_tri (K := K) m hang p hcs r hr 8 parsePdo (fun pdo => pdo.numEntries < 256)
      (fun b hbeq => by
        subst hbeq
        exact Tri.ret 0 (show (slice p.rd r.pos 8).getD 2 0 < 256 from slice_getD_lt p.rd hb _ _ _))
    refine (Tri.bind hn (B2 := 2295 + fuel * 2304) ?_).mono (by rw [Nat.succ_mul]; omega) (fun _ h => h)
    intro res hres
    cases hres1 : res.1 with
    | none => exact Tri.ret _ ⟨hacc, hbits⟩
    | some pdo =>
      simp only []
      have hne : pdo.numEntries < 256 := hres.2 pdo hres1
      refine (Tri.bind ((pdoEntries_tri m hang p hcs hb pdo.numEntries res.2 0 hres.1 (by omega)).mono
        (show pdo.numEntries * 9 ≤ 2295 by omega) (fun _ h => h)) (B2 := fuel * 2304) ?_)
      intro er her
      by_cases hfull : acc.length ≥ Gen.Eeprom.CAP_PDOS
      · rw [if_pos hfull]; exact Tri.fail _ _ (by decide)
      · rw [if_neg hfull]
        refine ih er.2 _ her.1 (by simp; omega) ?_ (by simp; omega)
        intro x hx
        rcases List.mem_append.1 hx with hx | hx
        · exact hbits x hx
        · simp only [List.mem_singleton] at hx
          subst hx
          have := her.2
          simp only
          omega

theorem pdos_bits (m : Mode) (p : Prov) (hcs : 4 ≤ p.cs) {hang : Bool} {CB : Nat} (hc : CatOK m p hang CB)
    (hb : ∀ a, p.rd a < 256) (cat : Nat) :
    Tri (sites m) hang (CB + 152064) (fun l => l.length ≤ 64 ∧ ∀ x ∈ l, x.bitLen ≤ 65025) (pdos m p cat) := by
  unfold pdos
  refine (Tri.bind (items_tri m p hcs hc cat) (B2 := 152064) ?_)
  intro r hr
  exact (pdoLoop_bits m hang p (by omega) hb (Gen.Eeprom.CAP_PDOS + 2) r [] hr (by decide) (by simp) (by decide)).mono
    (by decide) (fun _ h => h)

end Ec.Eeprom
