/-
  The routing-table / linearisation invariant of EcModel.Tasks and its preservation by every step.
-/
import EcModel.Lemmas.TasksLemmas

namespace Ec.Tasks

variable {Rq Rs σ : Type}

/-! ### log bookkeeping -/

theorem respsOf_append (t u : Nat) (log : List (Nat × Rq × Rs)) (rq : Rq) (rs : Rs) :
    respsOf t (log ++ [(u, rq, rs)]) = if u = t then respsOf t log ++ [rs] else respsOf t log := by
  unfold respsOf
  by_cases h : u = t <;> simp [List.filter_append, h]

theorem reqsOf_append (t u : Nat) (log : List (Nat × Rq × Rs)) (rq : Rq) (rs : Rs) :
    reqsOf t (log ++ [(u, rq, rs)]) = if u = t then reqsOf t log ++ [rq] else reqsOf t log := by
  unfold reqsOf
  by_cases h : u = t <;> simp [List.filter_append, h]

theorem reqsOf_length (t : Nat) (log : List (Nat × Rq × Rs)) :
    (reqsOf t log).length = (respsOf t log).length := by
  simp [reqsOf, respsOf]

theorem valid_append (seg : σ → Rq → σ × Rs) (s : σ) (log : List (Nat × Rq × Rs)) (x : Nat × Rq × Rs) :
    Valid seg s (log ++ [x]) ↔ Valid seg s log ∧ (seg (endState seg s log) x.2.1).2 = x.2.2 := by
  induction log generalizing s with
  | nil => simp [Valid, endState]
  | cons y r ih => simp [Valid, endState, ih, and_assoc]

theorem endState_append (seg : σ → Rq → σ × Rs) (s : σ) (log : List (Nat × Rq × Rs)) (x : Nat × Rq × Rs) :
    endState seg s (log ++ [x]) = (seg (endState seg s log) x.2.1).1 := by
  induction log generalizing s with
  | nil => simp [endState]
  | cons y r ih => simp [endState, ih]

theorem follows_append (next : List Rs → Option Rq) (reqs : List Rq) (resps : List Rs) (rq : Rq) (rs : Rs)
    (hf : Follows next reqs resps) (hl : reqs.length = resps.length) (hn : next resps = some rq) :
    Follows next (reqs ++ [rq]) (resps ++ [rs]) := by
  intro k r hk
  by_cases h1 : k < reqs.length
  · rw [List.getElem?_append_left h1] at hk
    have : (resps ++ [rs]).take k = resps.take k := by
      rw [List.take_append_of_le_length (by omega)]
    rw [this]; exact hf k r hk
  · by_cases h2 : k = reqs.length
    · subst h2
      simp at hk
      subst hk
      have : (resps ++ [rs]).take reqs.length = resps := by
        rw [hl]; simp
      rw [this]; exact hn
    · have : (reqs ++ [rq])[k]? = none := by
        apply List.getElem?_eq_none; simp; omega
      rw [this] at hk; cases hk

/-! ### the invariant -/

structure Inv (S : Sys Rq Rs σ) (s0 : σ) (st : St Rq Rs σ) : Prop where
  /-- a task holds at most one slot (it awaits every response before its next request) -/
  uniq : ∀ i j ei ej, slotAt st.slots i = some ei → slotAt st.slots j = some ej → ei.task = ej.task → i = j
  fresh : ∀ i e, slotAt st.slots i = some e → e.abs < st.total
  /-- routing table: requests awaiting a response have distinct first indices -/
  idx : ∀ i j ei ej, slotAt st.slots i = some ei → slotAt st.slots j = some ej →
      ei.stage.awaiting = true → ej.stage.awaiting = true → ei.idx = ej.idx → i = j
  outreq : ∀ i e rq, slotAt st.slots i = some e → e.stage.req? = some rq → rq = e.req
  idle : ∀ t, (∀ i e, slotAt st.slots i = some e → e.task ≠ t) → respsOf t st.log = st.got t
  outs : ∀ i e rq, slotAt st.slots i = some e → e.stage.req? = some rq →
      respsOf e.task st.log = st.got e.task ∧ S.tasks e.task (st.got e.task) = some rq
  backs : ∀ i e rs, slotAt st.slots i = some e → e.stage.resp? = some rs →
      respsOf e.task st.log = st.got e.task ++ [rs] ∧ (e.task, e.req, rs) ∈ st.log
  prog : ∀ t, Follows (S.tasks t) (reqsOf t st.log) (respsOf t st.log)
  valid : Valid S.seg s0 st.log
  ends : endState S.seg s0 st.log = st.seg

theorem inv_init (S : Sys Rq Rs σ) (n c tot : Nat) (s0 : σ) (img0 : Nat → List Nat) :
    Inv S s0 (St.init n c tot s0 img0 : St Rq Rs σ) := by
  constructor
  all_goals (try (intros; simp_all [St.init, slotAt_replicate]; done))
  · intro t _; simp [St.init, respsOf]
  · intro t k rq h; simp [St.init, reqsOf] at h
  · simp [St.init, Valid]
  · simp [St.init, endState]

theorem selTask_none {t : Nat} {e : Entry Rq Rs} (h : selTask t e = none) : e.task ≠ t := by
  unfold selTask at h; split at h <;> simp_all

theorem selOut_some {u : Nat} {e : Entry Rq Rs} {rq : Rq} (h : selOut u e = some rq) :
    e.stage = .out u rq := by
  unfold selOut at h
  split at h
  · next u' rq' hs => split at h <;> simp_all
  · cases h

theorem selBack_some {u : Nat} {e : Entry Rq Rs} {rs : Rs} (h : selBack u e = some rs) :
    e.stage = .back u rs := by
  unfold selBack at h
  split at h
  · next u' rs' hs => split at h <;> simp_all
  · cases h

theorem selDone_some {t : Nat} {e : Entry Rq Rs} {rs : Rs} (h : selDone t e = some rs) :
    e.task = t ∧ e.stage = .done rs := by
  unfold selDone at h
  split at h
  · next ht => split at h <;> simp_all
  · cases h

/-! ### issue -/

theorem inv_issue (S : Sys Rq Rs σ) (s0 : σ) (st : St Rq Rs σ) (t : Nat)
    (h : Inv S s0 st) (hw : WindowOk st) : Inv S s0 (issue S st t) := by
  unfold issue
  split
  · exact h
  · next hfree =>
    have hnone := findSlot_none hfree
    split
    · exact h
    · next rq hrq =>
      split
      · next c hal =>
        exact ⟨h.uniq, h.fresh, h.idx, h.outreq, h.idle, h.outs, h.backs, h.prog, h.valid, h.ends⟩
      · next k c hal =>
        obtain ⟨hk, hkfree⟩ := allocLoop_some _ _ _ _ _ hal
        have hS : ∀ i, slotAt (st.slots.set k (some ⟨t, st.total, rq, .out st.sent rq⟩)) i =
            if i = k then some ⟨t, st.total, rq, .out st.sent rq⟩ else slotAt st.slots i :=
          fun i => slotAt_set _ _ _ _ hk
        have hold : ∀ i e, slotAt st.slots i = some e → e.task ≠ t := fun i e hi => selTask_none (hnone i e hi)
        constructor
        · -- uniq
          intro i j ei ej hi hj htk
          simp only [hS] at hi hj
          by_cases h1 : i = k <;> by_cases h2 : j = k
          · omega
          · simp [h1] at hi; simp [h2] at hj; subst hi
            exact absurd htk.symm (hold j ej hj)
          · simp [h1] at hi; simp [h2] at hj; subst hj
            exact absurd htk (hold i ei hi)
          · simp [h1] at hi; simp [h2] at hj; exact h.uniq i j ei ej hi hj htk
        · -- fresh
          intro i e hi
          simp only [hS] at hi
          by_cases h1 : i = k
          · simp [h1] at hi; subst hi; show st.total < st.total + S.extra rq + 1; omega
          · simp [h1] at hi; have := h.fresh i e hi; show e.abs < st.total + S.extra rq + 1; omega
        · -- idx
          intro i j ei ej hi hj ai aj hidx
          simp only [hS] at hi hj
          have key : ∀ m em, slotAt st.slots m = some em → em.stage.awaiting = true →
              em.idx ≠ st.total % 256 := by
            intro m em hm am
            have f := h.fresh m em hm
            have w := hw m em hm am
            unfold Entry.idx; omega
          by_cases h1 : i = k <;> by_cases h2 : j = k
          · omega
          · simp [h1] at hi; simp [h2] at hj; subst hi
            exact absurd hidx.symm (key j ej hj aj)
          · simp [h1] at hi; simp [h2] at hj; subst hj
            exact absurd hidx (key i ei hi ai)
          · simp [h1] at hi; simp [h2] at hj; exact h.idx i j ei ej hi hj ai aj hidx
        · -- outreq
          intro i e rq' hi hs
          simp only [hS] at hi
          by_cases h1 : i = k
          · simp [h1] at hi; subst hi; simp [Stage.req?] at hs; exact hs.symm
          · simp [h1] at hi; exact h.outreq i e rq' hi hs
        · -- idle
          intro t' hno
          have ht' : t' ≠ t := by
            intro heq
            have := hno k ⟨t, st.total, rq, .out st.sent rq⟩ (by simp [hS])
            exact this heq.symm
          apply h.idle t'
          intro i e hi
          by_cases h1 : i = k
          · subst h1; rw [hkfree] at hi; cases hi
          · exact hno i e (by simp [hS, h1, hi])
        · -- outs
          intro i e rq' hi hs
          simp only [hS] at hi
          by_cases h1 : i = k
          · simp [h1] at hi; subst hi; simp [Stage.req?] at hs; subst hs
            exact ⟨h.idle t hold, hrq⟩
          · simp [h1] at hi; exact h.outs i e rq' hi hs
        · -- backs
          intro i e rs hi hs
          simp only [hS] at hi
          by_cases h1 : i = k
          · simp [h1] at hi; subst hi; simp [Stage.resp?] at hs
          · simp [h1] at hi; exact h.backs i e rs hi hs
        · exact h.prog
        · exact h.valid
        · exact h.ends

/-! ### arrive -/

theorem inv_arrive (S : Sys Rq Rs σ) (s0 : σ) (st : St Rq Rs σ) (u : Nat)
    (h : Inv S s0 st) : Inv S s0 (arrive S st u) := by
  unfold arrive
  split
  · exact h
  · next j e rq hfind =>
    obtain ⟨hj, hsel⟩ := findSlot_some hfind
    have hes := selOut_some hsel
    have hes' : e.stage.req? = some rq := by rw [hes]; rfl
    have hjl := slotAt_lt hj
    have hS : ∀ i, slotAt (st.slots.set j (some { e with stage := .back u (S.seg st.seg rq).2 })) i =
        if i = j then some { e with stage := .back u (S.seg st.seg rq).2 } else slotAt st.slots i :=
      fun i => slotAt_set _ _ _ _ hjl
    have hreq := h.outreq j e rq hj hes'
    have ho := h.outs j e rq hj hes'
    constructor
    · -- uniq
      intro i i' ei ej hi hi' htk
      simp only [hS] at hi hi'
      by_cases h1 : i = j <;> by_cases h2 : i' = j
      · omega
      · simp [h1] at hi; simp [h2] at hi'; subst hi
        have := h.uniq j i' e ej hj hi' htk; omega
      · simp [h1] at hi; simp [h2] at hi'; subst hi'
        have := h.uniq i j ei e hi hj htk; omega
      · simp [h1] at hi; simp [h2] at hi'; exact h.uniq i i' ei ej hi hi' htk
    · -- fresh
      intro i e' hi
      simp only [hS] at hi
      by_cases h1 : i = j
      · simp [h1] at hi; subst hi; exact h.fresh j e hj
      · simp [h1] at hi; exact h.fresh i e' hi
    · -- idx
      intro i i' ei ej hi hi' ai aj hidx
      simp only [hS] at hi hi'
      have hea : e.stage.awaiting = true := by rw [hes]; rfl
      by_cases h1 : i = j <;> by_cases h2 : i' = j
      · omega
      · simp [h1] at hi; simp [h2] at hi'; subst hi
        have := h.idx j i' e ej hj hi' hea aj hidx; omega
      · simp [h1] at hi; simp [h2] at hi'; subst hi'
        have := h.idx i j ei e hi hj ai hea hidx; omega
      · simp [h1] at hi; simp [h2] at hi'; exact h.idx i i' ei ej hi hi' ai aj hidx
    · -- outreq
      intro i e' rq' hi hs
      simp only [hS] at hi
      by_cases h1 : i = j
      · simp [h1] at hi; subst hi; simp [Stage.req?] at hs
      · simp [h1] at hi; exact h.outreq i e' rq' hi hs
    · -- idle
      intro t' hno
      have ht' : e.task ≠ t' := hno j { e with stage := .back u (S.seg st.seg rq).2 } (by simp [hS])
      show respsOf t' (st.log ++ [(e.task, rq, (S.seg st.seg rq).2)]) = st.got t'
      rw [respsOf_append, if_neg ht']
      apply h.idle t'
      intro i e' hi
      by_cases h1 : i = j
      · subst h1; rw [hj] at hi; cases hi; exact ht'
      · exact hno i e' (by simp [hS, h1, hi])
    · -- outs
      intro i e' rq' hi hs
      simp only [hS] at hi
      by_cases h1 : i = j
      · simp [h1] at hi; subst hi; simp [Stage.req?] at hs
      · simp [h1] at hi
        have hne : e.task ≠ e'.task := by
          intro heq; have := h.uniq j i e e' hj hi heq; omega
        show respsOf e'.task (st.log ++ [(e.task, rq, (S.seg st.seg rq).2)]) = st.got e'.task ∧ _
        rw [respsOf_append, if_neg hne]
        exact h.outs i e' rq' hi hs
    · -- backs
      intro i e' rs hi hs
      simp only [hS] at hi
      show respsOf e'.task (st.log ++ [(e.task, rq, (S.seg st.seg rq).2)]) = st.got e'.task ++ [rs] ∧
        (e'.task, e'.req, rs) ∈ st.log ++ [(e.task, rq, (S.seg st.seg rq).2)]
      by_cases h1 : i = j
      · simp [h1] at hi; subst hi
        have hrs : rs = (S.seg st.seg rq).2 := by
          simp [Stage.resp?] at hs; exact hs.symm
        subst hrs
        refine ⟨?_, ?_⟩
        · show respsOf e.task _ = st.got e.task ++ _
          rw [respsOf_append, if_pos rfl, ho.1]
        · apply List.mem_append_right; simp [hreq]
      · simp [h1] at hi
        have hne : e.task ≠ e'.task := by
          intro heq; have := h.uniq j i e e' hj hi heq; omega
        rw [respsOf_append, if_neg hne]
        have := h.backs i e' rs hi hs
        exact ⟨this.1, List.mem_append_left _ this.2⟩
    · -- prog
      intro t'
      show Follows (S.tasks t') (reqsOf t' (st.log ++ [(e.task, rq, (S.seg st.seg rq).2)]))
        (respsOf t' (st.log ++ [(e.task, rq, (S.seg st.seg rq).2)]))
      rw [respsOf_append, reqsOf_append]
      by_cases h1 : e.task = t'
      · rw [if_pos h1, if_pos h1]
        subst h1
        apply follows_append _ _ _ _ _ (h.prog e.task) (reqsOf_length _ _)
        rw [ho.1]; exact ho.2
      · rw [if_neg h1, if_neg h1]; exact h.prog t'
    · -- valid
      show Valid S.seg s0 (st.log ++ [(e.task, rq, (S.seg st.seg rq).2)])
      rw [valid_append]
      exact ⟨h.valid, by simp [h.ends]⟩
    · -- ends
      show endState S.seg s0 (st.log ++ [(e.task, rq, (S.seg st.seg rq).2)]) = (S.seg st.seg rq).1
      rw [endState_append]; simp [h.ends]

/-! ### deliver -/

/-- Transparent transport, state form: the response travelling for slot `j` is routed to slot `j`. -/
theorem route_self (S : Sys Rq Rs σ) (s0 : σ) (st : St Rq Rs σ) (h : Inv S s0 st)
    (j : Nat) (e : Entry Rq Rs) (hj : slotAt st.slots j = some e) (ha : e.stage.awaiting = true) :
    route st.slots e.idx = some (j, e, ()) := by
  unfold route
  have hsel : selRoute e.idx e = some () := by
    simp [selRoute, ha]
  obtain ⟨⟨j', e', u⟩, hr⟩ := findSlot_isSome hj hsel
  obtain ⟨hj', hs'⟩ := findSlot_some hr
  have hcond : e'.stage.awaiting = true ∧ e'.idx = e.idx := by
    by_cases hc : e'.stage.awaiting = true ∧ e'.idx = e.idx
    · exact hc
    · simp [selRoute, hc] at hs'
  have : j' = j := h.idx j' j e' e hj' hj hcond.1 ha hcond.2
  subst this
  rw [hj] at hj'; cases hj'
  rw [hr]

theorem deliver_eq (S : Sys Rq Rs σ) (s0 : σ) (st : St Rq Rs σ) (u : Nat) (h : Inv S s0 st)
    (j : Nat) (e : Entry Rq Rs) (rs : Rs) (hfind : findSlot (selBack u) st.slots = some (j, e, rs)) :
    deliver st u = { st with slots := st.slots.set j (some { e with stage := .done rs }) } := by
  obtain ⟨hj, hsel⟩ := findSlot_some hfind
  have hes := selBack_some hsel
  have hr := route_self S s0 st h j e hj (by rw [hes]; rfl)
  unfold deliver
  rw [hfind]
  simp only [hr, List.set_set]

theorem inv_deliver (S : Sys Rq Rs σ) (s0 : σ) (st : St Rq Rs σ) (u : Nat)
    (h : Inv S s0 st) : Inv S s0 (deliver st u) := by
  cases hfind : findSlot (selBack u) st.slots with
  | none => unfold deliver; rw [hfind]; exact h
  | some r =>
    obtain ⟨j, e, rs⟩ := r
    rw [deliver_eq S s0 st u h j e rs hfind]
    obtain ⟨hj, hsel⟩ := findSlot_some hfind
    have hes := selBack_some hsel
    have hjl := slotAt_lt hj
    have hS : ∀ i, slotAt (st.slots.set j (some { e with stage := .done rs })) i =
        if i = j then some { e with stage := .done rs } else slotAt st.slots i :=
      fun i => slotAt_set _ _ _ _ hjl
    have hb := h.backs j e rs hj (by rw [hes]; rfl)
    constructor
    · -- uniq
      intro i i' ei ej hi hi' htk
      simp only [hS] at hi hi'
      by_cases h1 : i = j <;> by_cases h2 : i' = j
      · omega
      · simp [h1] at hi; simp [h2] at hi'; subst hi
        have := h.uniq j i' e ej hj hi' htk; omega
      · simp [h1] at hi; simp [h2] at hi'; subst hi'
        have := h.uniq i j ei e hi hj htk; omega
      · simp [h1] at hi; simp [h2] at hi'; exact h.uniq i i' ei ej hi hi' htk
    · -- fresh
      intro i e' hi
      simp only [hS] at hi
      by_cases h1 : i = j
      · simp [h1] at hi; subst hi; exact h.fresh j e hj
      · simp [h1] at hi; exact h.fresh i e' hi
    · -- idx
      intro i i' ei ej hi hi' ai aj hidx
      simp only [hS] at hi hi'
      by_cases h1 : i = j
      · simp [h1] at hi; subst hi; simp [Stage.awaiting] at ai
      · by_cases h2 : i' = j
        · simp [h2] at hi'; subst hi'; simp [Stage.awaiting] at aj
        · simp [h1] at hi; simp [h2] at hi'; exact h.idx i i' ei ej hi hi' ai aj hidx
    · -- outreq
      intro i e' rq' hi hs
      simp only [hS] at hi
      by_cases h1 : i = j
      · simp [h1] at hi; subst hi; simp [Stage.req?] at hs
      · simp [h1] at hi; exact h.outreq i e' rq' hi hs
    · -- idle
      intro t' hno
      apply h.idle t'
      intro i e' hi
      by_cases h1 : i = j
      · subst h1; rw [hj] at hi; cases hi
        exact hno i { e with stage := .done rs } (by simp [hS])
      · exact hno i e' (by simp [hS, h1, hi])
    · -- outs
      intro i e' rq' hi hs
      simp only [hS] at hi
      by_cases h1 : i = j
      · simp [h1] at hi; subst hi; simp [Stage.req?] at hs
      · simp [h1] at hi; exact h.outs i e' rq' hi hs
    · -- backs
      intro i e' rs' hi hs
      simp only [hS] at hi
      by_cases h1 : i = j
      · simp [h1] at hi; subst hi
        have : rs' = rs := by
          simp [Stage.resp?] at hs; exact hs.symm
        subst this; exact hb
      · simp [h1] at hi; exact h.backs i e' rs' hi hs
    · exact h.prog
    · exact h.valid
    · exact h.ends

/-! ### consume -/

theorem inv_consume (S : Sys Rq Rs σ) (s0 : σ) (st : St Rq Rs σ) (t : Nat)
    (h : Inv S s0 st) : Inv S s0 (consume S st t) := by
  unfold consume
  split
  · exact h
  · next j e rs hfind =>
    obtain ⟨hj, hsel⟩ := findSlot_some hfind
    obtain ⟨het, hes⟩ := selDone_some hsel
    have hjl := slotAt_lt hj
    have hS : ∀ i, slotAt (st.slots.set j none) i = if i = j then none else slotAt st.slots i :=
      fun i => slotAt_set _ _ _ _ hjl
    have hb := h.backs j e rs hj (by rw [hes]; rfl)
    have hother : ∀ i e', i ≠ j → slotAt st.slots i = some e' → e'.task ≠ t := by
      intro i e' hne hi heq
      have := h.uniq i j e' e hi hj (by rw [heq, het]); exact hne this
    constructor
    · intro i i' ei ej hi hi' htk
      simp only [hS] at hi hi'
      by_cases h1 : i = j
      · simp [h1] at hi
      · by_cases h2 : i' = j
        · simp [h2] at hi'
        · simp [h1] at hi; simp [h2] at hi'; exact h.uniq i i' ei ej hi hi' htk
    · intro i e' hi
      simp only [hS] at hi
      by_cases h1 : i = j
      · simp [h1] at hi
      · simp [h1] at hi; exact h.fresh i e' hi
    · intro i i' ei ej hi hi' ai aj hidx
      simp only [hS] at hi hi'
      by_cases h1 : i = j
      · simp [h1] at hi
      · by_cases h2 : i' = j
        · simp [h2] at hi'
        · simp [h1] at hi; simp [h2] at hi'; exact h.idx i i' ei ej hi hi' ai aj hidx
    · intro i e' rq' hi hs
      simp only [hS] at hi
      by_cases h1 : i = j
      · simp [h1] at hi
      · simp [h1] at hi; exact h.outreq i e' rq' hi hs
    · -- idle
      intro t' hno
      show respsOf t' st.log = upd st.got t (st.got t ++ [rs]) t'
      unfold upd
      by_cases h1 : t' = t
      · subst h1; rw [if_pos rfl]; rw [← het]; exact hb.1
      · rw [if_neg h1]
        apply h.idle t'
        intro i e' hi
        by_cases h2 : i = j
        · subst h2; rw [hj] at hi; cases hi; rw [het]; exact fun x => h1 x.symm
        · exact hno i e' (by simp [hS, h2, hi])
    · -- outs
      intro i e' rq' hi hs
      simp only [hS] at hi
      by_cases h1 : i = j
      · simp [h1] at hi
      · simp [h1] at hi
        have hne := hother i e' h1 hi
        show respsOf e'.task st.log = upd st.got t (st.got t ++ [rs]) e'.task ∧
          S.tasks e'.task (upd st.got t (st.got t ++ [rs]) e'.task) = some rq'
        unfold upd; rw [if_neg hne]
        exact h.outs i e' rq' hi hs
    · -- backs
      intro i e' rs' hi hs
      simp only [hS] at hi
      by_cases h1 : i = j
      · simp [h1] at hi
      · simp [h1] at hi
        have hne := hother i e' h1 hi
        show respsOf e'.task st.log = upd st.got t (st.got t ++ [rs]) e'.task ++ [rs'] ∧ _
        unfold upd; rw [if_neg hne]
        exact h.backs i e' rs' hi hs
    · exact h.prog
    · exact h.valid
    · exact h.ends

/-! ### runs -/

theorem inv_step (S : Sys Rq Rs σ) (s0 : σ) (st : St Rq Rs σ) (a : Act)
    (h : Inv S s0 st) (hw : (∃ t, a = .issue t) → WindowOk st) : Inv S s0 (step S st a) := by
  cases a with
  | issue t => exact inv_issue S s0 st t h (hw ⟨t, rfl⟩)
  | arrive t => exact inv_arrive S s0 st t h
  | deliver t => exact inv_deliver S s0 st t h
  | consume t => exact inv_consume S s0 st t h

theorem inv_run (S : Sys Rq Rs σ) (s0 : σ) (st : St Rq Rs σ) (sched : List Act)
    (h : Inv S s0 st) (ha : Admissible S st sched) : Inv S s0 (run S st sched) := by
  induction sched generalizing st with
  | nil => exact h
  | cons a rest ih =>
    exact ih (step S st a) (inv_step S s0 st a h ha.1) ha.2

end Ec.Tasks
