import EcModel.Drv.C11
def main : IO Unit := Ec.Drv.runDriver Ec.Drv.C11.handle
