//! Mailbox application of a simulated device: a CoE server (ETG1000.6 §5.6) over an object
//! dictionary, with scripted faults.
use std::collections::{BTreeMap, VecDeque};

pub const MBX_COE: u8 = 0x03;
pub const SVC_EMERGENCY: u8 = 1;
pub const SVC_SDO_REQ: u8 = 2;
pub const SVC_SDO_RES: u8 = 3;
pub const SVC_SDO_INFO: u8 = 8;

pub const ABORT_TOGGLE: u32 = 0x0503_0000;
pub const ABORT_UNKNOWN_CMD: u32 = 0x0504_0001;
pub const ABORT_NO_OBJECT: u32 = 0x0602_0000;
pub const ABORT_NO_SUBINDEX: u32 = 0x0609_0011;
pub const ABORT_READ_ONLY: u32 = 0x0601_0002;
pub const ABORT_LEN_MISMATCH: u32 = 0x0607_0010;
pub const ABORT_UNSUPPORTED_ACCESS: u32 = 0x0601_0000;

/// How upload responses are shaped.
#[derive(Clone, Debug, PartialEq, Eq)]
pub enum UploadMode {
    /// Expedited if <= 4 bytes, normal if it fits the mailbox, segmented otherwise.
    Auto,
    /// Never expedited: normal (or segmented if it does not fit).
    NoExpedited,
    /// Always segmented for data > 4 bytes: `first` data bytes in the initiate response, then
    /// segments of `seg` bytes each.
    Segmented { first: usize, seg: usize },
}

#[derive(Clone, Debug, PartialEq, Eq)]
pub enum CoeEvent {
    Upload { index: u16, sub: u8, complete: bool },
    UploadSegment { toggle: bool },
    Download { index: u16, sub: u8, complete: bool, data: Vec<u8> },
    Abort { index: u16, sub: u8, code: u32 },
    Info { opcode: u8, list_type: u16 },
    Ignored(&'static str),
    Raw,
}

pub struct CoeServer {
    pub od: BTreeMap<(u16, u8), Vec<u8>>,
    pub upload_mode: UploadMode,
    /// Access to these entries is answered with the given abort code.
    pub aborts: BTreeMap<(u16, u8), u32>,
    /// Entries that refuse downloads.
    pub read_only: Vec<(u16, u8)>,
    /// Downloads to unknown entries create them instead of aborting.
    pub allow_create: bool,
    /// If non-empty: the next request is answered with these raw mailbox bytes (one entry may hold
    /// several messages).
    pub raw_replies: VecDeque<Vec<Vec<u8>>>,
    /// Emergency messages (8 data bytes) sent before the next response.
    pub emergencies: VecDeque<[u8; 8]>,
    /// Ignore a request whose counter equals the previous one (ETG1000.4 mailbox repeat rule).
    pub check_counter: bool,
    /// Command specifier used in upload segment responses (0 per the standard).
    pub seg_response_scs: u8,
    /// Data per SDO-info fragment (None: what fits the mailbox).
    pub info_fragment: Option<usize>,
    pub log: Vec<CoeEvent>,
    last_req_counter: u8,
    counter: u8,
    seg: Option<SegState>,
    dl_seg: Option<DlSegState>,
}

struct SegState {
    data: Vec<u8>,
    pos: usize,
    toggle: bool,
    seg: usize,
}

struct DlSegState {
    index: u16,
    sub: u8,
    data: Vec<u8>,
    total: usize,
    toggle: bool,
}

impl Default for CoeServer {
    fn default() -> Self {
        CoeServer {
            od: BTreeMap::new(),
            upload_mode: UploadMode::Auto,
            aborts: BTreeMap::new(),
            read_only: Vec::new(),
            allow_create: false,
            raw_replies: VecDeque::new(),
            emergencies: VecDeque::new(),
            check_counter: true,
            seg_response_scs: 0,
            info_fragment: None,
            log: Vec::new(),
            last_req_counter: 0,
            counter: 0,
            seg: None,
            dl_seg: None,
        }
    }
}

impl CoeServer {
    pub fn new(od: BTreeMap<(u16, u8), Vec<u8>>) -> Self {
        CoeServer { od, ..Default::default() }
    }

    fn next_counter(&mut self) -> u8 {
        self.counter = if self.counter >= 7 { 1 } else { self.counter + 1 };
        self.counter
    }

    /// Wrap a CoE payload (starting at the CoE header) into a mailbox message.
    pub fn frame(&mut self, service: u8, body: &[u8]) -> Vec<u8> {
        let c = self.next_counter();
        let mut m = Vec::with_capacity(8 + body.len());
        m.extend_from_slice(&((2 + body.len()) as u16).to_le_bytes());
        m.extend_from_slice(&[0, 0, 0]);
        m.push(MBX_COE | (c << 4));
        m.extend_from_slice(&[0, service << 4]);
        m.extend_from_slice(body);
        m
    }

    pub fn emergency_message(&mut self, data: [u8; 8]) -> Vec<u8> {
        self.frame(SVC_EMERGENCY, &data)
    }

    fn abort(&mut self, index: u16, sub: u8, code: u32) -> Vec<u8> {
        self.log.push(CoeEvent::Abort { index, sub, code });
        let mut b = vec![0x80];
        b.extend_from_slice(&index.to_le_bytes());
        b.push(sub);
        b.extend_from_slice(&code.to_le_bytes());
        self.seg = None;
        self.dl_seg = None;
        self.frame(SVC_SDO_RES, &b)
    }

    /// Bytes of an object as seen by an upload (complete access concatenates the sub-indices,
    /// sub-index 0 padded to 16 bits).
    pub fn object_bytes(&self, index: u16, sub: u8, complete: bool) -> Result<Vec<u8>, u32> {
        if !self.od.keys().any(|k| k.0 == index) {
            return Err(ABORT_NO_OBJECT);
        }
        if !complete {
            return self.od.get(&(index, sub)).cloned().ok_or(ABORT_NO_SUBINDEX);
        }
        let mut out = Vec::new();
        for ((i, s), v) in self.od.range((index, sub)..=(index, 255)) {
            debug_assert_eq!(*i, index);
            out.extend_from_slice(v);
            if *s == 0 && v.len() == 1 {
                out.push(0);
            }
        }
        if out.is_empty() { Err(ABORT_NO_SUBINDEX) } else { Ok(out) }
    }

    /// Handle one request (the whole write-mailbox image). `out_cap` is the size of the read
    /// mailbox. Returns the mailbox messages to send (unpadded).
    pub fn handle(&mut self, req: &[u8], out_cap: usize) -> Vec<Vec<u8>> {
        let mut out = Vec::new();
        if req.len() < 8 {
            // scripted raw replies do not look at the request (IN mailboxes of 6..7 bytes, C16)
            if let Some(raw) = self.raw_replies.pop_front() {
                self.log.push(CoeEvent::Raw);
                return raw;
            }
            self.log.push(CoeEvent::Ignored("short"));
            return out;
        }
        let mlen = u16::from_le_bytes([req[0], req[1]]) as usize;
        let mtype = req[5] & 0x0f;
        let counter = (req[5] >> 4) & 0x07;
        if self.check_counter && counter != 0 && counter == self.last_req_counter {
            self.log.push(CoeEvent::Ignored("repeated-counter"));
            return out;
        }
        self.last_req_counter = counter;
        while let Some(e) = self.emergencies.pop_front() {
            let m = self.emergency_message(e);
            out.push(m);
        }
        if let Some(raw) = self.raw_replies.pop_front() {
            self.log.push(CoeEvent::Raw);
            out.extend(raw);
            return out;
        }
        if mtype != MBX_COE {
            // mailbox error reply: type 0, detail "unsupported protocol"
            self.log.push(CoeEvent::Ignored("not-coe"));
            let c = self.next_counter();
            out.push(vec![4, 0, 0, 0, 0, c << 4, 0x01, 0x00, 0x02, 0x00]);
            return out;
        }
        let body_end = (6 + mlen).min(req.len());
        let service = req[7] >> 4;
        let body = &req[8..body_end.max(8)];
        match service {
            SVC_SDO_REQ => out.extend(self.sdo_request(body, out_cap)),
            SVC_SDO_INFO => out.extend(self.sdo_info(body, out_cap)),
            _ => self.log.push(CoeEvent::Ignored("service")),
        }
        out
    }

    fn sdo_request(&mut self, b: &[u8], out_cap: usize) -> Vec<Vec<u8>> {
        if b.is_empty() {
            return vec![];
        }
        let cmd = b[0];
        let ccs = cmd >> 5;
        let index = if b.len() >= 3 { u16::from_le_bytes([b[1], b[2]]) } else { 0 };
        let sub = if b.len() >= 4 { b[3] } else { 0 };
        let complete = cmd & 0x10 != 0;
        match ccs {
            2 => {
                self.log.push(CoeEvent::Upload { index, sub, complete });
                self.seg = None;
                if let Some(&code) = self.aborts.get(&(index, sub)) {
                    return vec![self.abort(index, sub, code)];
                }
                let data = match self.object_bytes(index, sub, complete) {
                    Ok(d) => d,
                    Err(code) => return vec![self.abort(index, sub, code)],
                };
                let n = data.len();
                let expedited_ok = n <= 4 && n > 0 && self.upload_mode == UploadMode::Auto;
                let mut r = Vec::new();
                if expedited_ok {
                    r.push(0x40 | (((4 - n) as u8) << 2) | 0x02 | 0x01 | ((complete as u8) << 4));
                    r.extend_from_slice(&index.to_le_bytes());
                    r.push(sub);
                    let mut d = [0u8; 4];
                    d[..n].copy_from_slice(&data);
                    r.extend_from_slice(&d);
                    return vec![self.frame(SVC_SDO_RES, &r)];
                }
                // room for data in a normal response: mailbox - 6 (mbx) - 2 (coe) - 4 (sdo) - 4 (size)
                let room = out_cap.saturating_sub(16);
                let (first, seg) = match self.upload_mode {
                    UploadMode::Segmented { first, seg } if n > 4 => (first.min(room).min(n), seg.max(1)),
                    _ => (n.min(room), out_cap.saturating_sub(9).max(7)),
                };
                r.push(0x40 | 0x01 | ((complete as u8) << 4));
                r.extend_from_slice(&index.to_le_bytes());
                r.push(sub);
                r.extend_from_slice(&(n as u32).to_le_bytes());
                r.extend_from_slice(&data[..first]);
                if first < n {
                    self.seg = Some(SegState { data, pos: first, toggle: false, seg });
                }
                vec![self.frame(SVC_SDO_RES, &r)]
            }
            3 => {
                let toggle = cmd & 0x10 != 0;
                self.log.push(CoeEvent::UploadSegment { toggle });
                let Some(mut st) = self.seg.take() else {
                    return vec![self.abort(0, 0, ABORT_UNKNOWN_CMD)];
                };
                if toggle != st.toggle {
                    return vec![self.abort(0, 0, ABORT_TOGGLE)];
                }
                let max_seg = out_cap.saturating_sub(9).max(7);
                let k = st.seg.min(max_seg).min(st.data.len() - st.pos);
                let chunk = st.data[st.pos..st.pos + k].to_vec();
                st.pos += k;
                let last = st.pos >= st.data.len();
                let mut r = Vec::new();
                let unused = if k < 7 { (7 - k) as u8 } else { 0 };
                r.push((self.seg_response_scs << 5) | ((toggle as u8) << 4) | (unused << 1) | last as u8);
                r.extend_from_slice(&chunk);
                while r.len() < 8 {
                    r.push(0);
                }
                if !last {
                    st.toggle = !st.toggle;
                    self.seg = Some(st);
                }
                vec![self.frame(SVC_SDO_RES, &r)]
            }
            1 => {
                let expedited = cmd & 0x02 != 0;
                let size_ind = cmd & 0x01 != 0;
                let (data, total) = if expedited {
                    let n = if size_ind { 4 - ((cmd >> 2) & 3) as usize } else { 4 };
                    (b.get(4..4 + n).map(|s| s.to_vec()).unwrap_or_default(), n)
                } else {
                    let total = b.get(4..8).map(|s| u32::from_le_bytes([s[0], s[1], s[2], s[3]]) as usize).unwrap_or(0);
                    let avail = b.get(8..).unwrap_or(&[]);
                    (avail[..avail.len().min(total)].to_vec(), total)
                };
                if let Some(&code) = self.aborts.get(&(index, sub)) {
                    return vec![self.abort(index, sub, code)];
                }
                if self.read_only.contains(&(index, sub)) {
                    return vec![self.abort(index, sub, ABORT_READ_ONLY)];
                }
                if data.len() < total {
                    self.dl_seg = Some(DlSegState { index, sub, data, total, toggle: false });
                } else if let Err(code) = self.store(index, sub, complete, &data) {
                    return vec![self.abort(index, sub, code)];
                }
                let mut r = vec![0x60 | ((complete as u8) << 4)];
                r.extend_from_slice(&index.to_le_bytes());
                r.push(sub);
                r.extend_from_slice(&[0; 4]);
                vec![self.frame(SVC_SDO_RES, &r)]
            }
            0 => {
                // download segment
                let toggle = cmd & 0x10 != 0;
                let last = cmd & 0x01 != 0;
                let Some(mut st) = self.dl_seg.take() else {
                    return vec![self.abort(0, 0, ABORT_UNKNOWN_CMD)];
                };
                if toggle != st.toggle {
                    return vec![self.abort(st.index, st.sub, ABORT_TOGGLE)];
                }
                let unused = ((cmd >> 1) & 7) as usize;
                let payload = b.get(1..).unwrap_or(&[]);
                let k = if payload.len() <= 7 { payload.len().saturating_sub(unused) } else { payload.len() };
                let k = k.min(st.total.saturating_sub(st.data.len()));
                st.data.extend_from_slice(&payload[..k]);
                if last {
                    let (i, s) = (st.index, st.sub);
                    if let Err(code) = self.store(i, s, false, &st.data.clone()) {
                        return vec![self.abort(i, s, code)];
                    }
                } else {
                    st.toggle = !st.toggle;
                    self.dl_seg = Some(st);
                }
                let r = vec![0x20 | ((toggle as u8) << 4), 0, 0, 0, 0, 0, 0, 0];
                vec![self.frame(SVC_SDO_RES, &r)]
            }
            4 => {
                self.seg = None;
                self.dl_seg = None;
                self.log.push(CoeEvent::Ignored("abort-from-master"));
                vec![]
            }
            _ => vec![self.abort(index, sub, ABORT_UNKNOWN_CMD)],
        }
    }

    fn store(&mut self, index: u16, sub: u8, complete: bool, data: &[u8]) -> Result<(), u32> {
        self.log.push(CoeEvent::Download { index, sub, complete, data: data.to_vec() });
        if complete {
            // distribute over the existing sub-indices in order
            let keys: Vec<(u16, u8)> = self.od.range((index, sub)..=(index, 255)).map(|(k, _)| *k).collect();
            if keys.is_empty() {
                return Err(ABORT_NO_OBJECT);
            }
            let mut pos = 0;
            for k in keys {
                let n = self.od[&k].len();
                let take = if k.1 == 0 && n == 1 { 2 } else { n };
                if pos + n > data.len() {
                    break;
                }
                self.od.insert(k, data[pos..pos + n].to_vec());
                pos += take;
            }
            return Ok(());
        }
        match self.od.get(&(index, sub)) {
            Some(old) => {
                if old.len() != data.len() && !self.allow_create {
                    // expedited downloads of shorter values are padded by many masters; accept
                    // only exact length
                    return Err(ABORT_LEN_MISMATCH);
                }
                self.od.insert((index, sub), data.to_vec());
                Ok(())
            }
            None if self.allow_create => {
                self.od.insert((index, sub), data.to_vec());
                Ok(())
            }
            None => {
                if self.od.keys().any(|k| k.0 == index) { Err(ABORT_NO_SUBINDEX) } else { Err(ABORT_NO_OBJECT) }
            }
        }
    }

    fn sdo_info(&mut self, b: &[u8], out_cap: usize) -> Vec<Vec<u8>> {
        if b.len() < 4 {
            return vec![];
        }
        let opcode = b[0] & 0x7f;
        let list_type = if b.len() >= 6 { u16::from_le_bytes([b[4], b[5]]) } else { 0 };
        self.log.push(CoeEvent::Info { opcode, list_type });
        if opcode != 1 {
            // SDO info error
            let mut r = vec![0x07, 0, 0, 0];
            r.extend_from_slice(&ABORT_UNSUPPORTED_ACCESS.to_le_bytes());
            return vec![self.frame(SVC_SDO_INFO, &r)];
        }
        let mut indices: Vec<u16> = self.od.keys().map(|k| k.0).collect();
        indices.dedup();
        let select = |t: u16, i: u16| -> bool {
            match t {
                1 => true,
                2 => (0x1600..0x1800).contains(&i) || (0x7000..0x8000).contains(&i),
                3 => (0x1a00..0x1c00).contains(&i) || (0x6000..0x7000).contains(&i),
                4 => false,
                5 => (0x8000..0x9000).contains(&i),
                _ => false,
            }
        };
        let mut payload = list_type.to_le_bytes().to_vec();
        if list_type == 0 {
            for t in 1..=5u16 {
                let c = indices.iter().filter(|&&i| select(t, i)).count() as u16;
                payload.extend_from_slice(&c.to_le_bytes());
            }
        } else {
            for &i in indices.iter().filter(|&&i| select(list_type, i)) {
                payload.extend_from_slice(&i.to_le_bytes());
            }
        }
        let room = self.info_fragment.unwrap_or(usize::MAX).min(out_cap.saturating_sub(12)).max(2);
        let chunks: Vec<&[u8]> = payload.chunks(room).collect();
        let total = chunks.len();
        let mut out = Vec::new();
        for (k, c) in chunks.iter().enumerate() {
            let left = (total - 1 - k) as u16;
            let mut r = vec![0x02 | if left > 0 { 0x80 } else { 0 }, 0];
            r.extend_from_slice(&left.to_le_bytes());
            r.extend_from_slice(c);
            out.push(self.frame(SVC_SDO_INFO, &r));
        }
        out
    }
}
