/-
  Specification vocabulary for C07 (what the property talks about), independent of how the loop works:
  the datagrams of a cycle, tiling of an address window, pairing of request and answer datagrams.
-/
import EcModel.Lemmas.TxRxStep

namespace Ec.TxRx
open Ec

/-- All datagrams of a cycle in transmission order. -/
def allDgrams (frames : List Frame) : List Dgram := frames.flatMap (·.dgrams)

/-- ... as (command, length, data). -/
def allDescs (frames : List Frame) : List (Cmd × Nat × List Nat) := (allDgrams frames).map desc

def lrwOf (d : Cmd × Nat × List Nat) : Option (Nat × Nat) :=
  match d.1 with
  | .lrw a => some (a, d.2.1)
  | _ => none

def fprdOf (d : Cmd × Nat × List Nat) : Option Nat :=
  match d.1 with
  | .fprd a _ => some a
  | _ => none

def isFrmw (d : Cmd × Nat × List Nat) : Bool :=
  match d.1 with
  | .frmw _ _ => true
  | _ => false

/-- (logical address, length) of the LRW datagrams of a cycle, in order. -/
def lrws (frames : List Frame) : List (Nat × Nat) := (allDescs frames).filterMap lrwOf

def lrwDataOf (d : Cmd × Nat × List Nat) : Option (List Nat) :=
  match d.1 with
  | .lrw _ => some d.2.2
  | _ => none

/-- The image bytes a cycle transmitted: data of the LRW datagrams, concatenated in order. -/
def lrwData (frames : List Frame) : List Nat := ((allDescs frames).filterMap lrwDataOf).flatten

/-- Station addresses of the state-check datagrams of a cycle, in order. -/
def fprds (frames : List Frame) : List Nat := (allDescs frames).filterMap fprdOf

/-- `l` tiles `[a, b)`: consecutive, non-empty, no gap, no overlap. -/
def Tiles : Nat → List (Nat × Nat) → Nat → Prop
  | a, [], b => a = b
  | a, (x, l) :: r, b => x = a ∧ 0 < l ∧ Tiles (a + l) r b

theorem Tiles.append : ∀ {a b c : Nat} {l1 l2 : List (Nat × Nat)}, Tiles a l1 b → Tiles b l2 c → Tiles a (l1 ++ l2) c
  | a, b, c, [], l2, h1, h2 => by simp only [Tiles] at h1; subst h1; simpa using h2
  | a, b, c, (x, l) :: r, l2, h1, h2 => by
    simp only [List.cons_append, Tiles] at h1 ⊢
    exact ⟨h1.1, h1.2.1, Tiles.append h1.2.2 h2⟩

/-- The clock datagram: FRMW to the reference, register 0x0910, eight zero bytes. -/
def frmwDesc (r : Nat) : Cmd × Nat × List Nat := (.frmw r 0x0910, 8, [0, 0, 0, 0, 0, 0, 0, 0])

theorem allDescs_append (f1 f2 : List Frame) : allDescs (f1 ++ f2) = allDescs f1 ++ allDescs f2 := by
  simp [allDescs, allDgrams]

theorem allDescs_single (fr : Frame) : allDescs [fr] = fr.dgrams.map desc := by
  simp [allDescs, allDgrams]

/-! ### Requests paired with their answers -/

def isLrw (d : Dgram) : Bool :=
  match d.cmd with
  | .lrw _ => true
  | _ => false

def isFprd (d : Dgram) : Bool :=
  match d.cmd with
  | .fprd _ _ => true
  | _ => false

/-- Every transmitted datagram with the datagram that came back in its place. -/
def pairs (frames : List Frame) (resps : List (List RPdu)) : List (Dgram × RPdu) :=
  (frames.zip resps).flatMap (fun x => x.1.dgrams.zip x.2)

/-- The answers to the LRW datagrams, in order. -/
def lrwAnswers (frames : List Frame) (resps : List (List RPdu)) : List RPdu :=
  ((pairs frames resps).filter (fun x => isLrw x.1)).map (·.2)

/-- What the network returned for the group's logical window, byte by byte from `pdiStart` on. -/
def returned (frames : List Frame) (resps : List (List RPdu)) : List Nat :=
  (lrwAnswers frames resps).flatMap (·.data)

/-- Sum of the working counters of the process-data datagrams. -/
def lrwWkcSum (frames : List Frame) (resps : List (List RPdu)) : Nat :=
  ((lrwAnswers frames resps).map (·.wkc)).sum

/-- The AL states the devices reported, in the order of the state checks. -/
def stateAnswers (frames : List Frame) (resps : List (List RPdu)) : List Nat :=
  ((pairs frames resps).filter (fun x => isFprd x.1)).map (fun x => nib x.2)

/-- Every frame was answered, datagram for datagram, with data of the requested length. -/
def Shaped (frames : List Frame) (resps : List (List RPdu)) : Prop :=
  frames.length ≤ resps.length ∧ ∀ x ∈ frames.zip resps, ShapedOne x.1.dgrams x.2

theorem zip_append_extra {α β : Type} : ∀ (l1 : List α) (l2 r : List β), l1.length = l2.length →
    l1.zip (l2 ++ r) = l1.zip l2
  | [], l2, r, _ => by simp
  | a :: l1, [], r, h => by simp at h
  | a :: l1, b :: l2, r, h => by
    simp only [List.cons_append, List.zip_cons_cons]
    rw [zip_append_extra l1 l2 r (by simpa using h)]

theorem pairs_snoc (frames : List Frame) (used : List (List RPdu)) (fr : Frame) (r : List RPdu)
    (h : used.length = frames.length) :
    pairs (frames ++ [fr]) (used ++ [r]) = pairs frames used ++ fr.dgrams.zip r := by
  unfold pairs
  rw [List.zip_append h.symm]; simp

/-! ### What one pass contributes -/

theorem lrwOf_fprdDesc (a : Nat) : lrwOf (fprdDesc a) = none := rfl
theorem fprdOf_fprdDesc (a : Nat) : fprdOf (fprdDesc a) = some a := rfl
theorem isFrmw_fprdDesc (a : Nat) : isFrmw (fprdDesc a) = false := rfl

theorem filterMap_lrwOf_fprd (l : List Nat) : (l.map fprdDesc).filterMap lrwOf = [] := by
  induction l with
  | nil => rfl
  | cons a t ih => simp [List.filterMap_cons, lrwOf_fprdDesc, ih]

theorem filterMap_fprdOf_fprd (l : List Nat) : (l.map fprdDesc).filterMap fprdOf = l := by
  induction l with
  | nil => rfl
  | cons a t ih => simp [List.filterMap_cons, fprdOf_fprdDesc, ih]

theorem dcDescs_cases (c : Cfg) (s : St) :
    (needDc c s = false ∧ dcDescs c s = []) ∨
    (∃ r, c.dc = some r ∧ s.timeRead = false ∧ needDc c s = true ∧ dcDescs c s = [frmwDesc r]) := by
  unfold dcDescs needDc
  cases hd : c.dc with
  | none => left; simp
  | some r =>
    cases ht : s.timeRead with
    | true => left; simp
    | false => right; exact ⟨r, rfl, rfl, by simp, by simp [frmwDesc, le64, le32]⟩

theorem plan_lrws (c : Cfg) (s : St) :
    (planDescs c s).filterMap lrwOf = if remOf s = 0 then [] else [(c.pdiStart + s.sent, kOf c s)] := by
  have h1 : (dcDescs c s).filterMap lrwOf = [] := by
    rcases dcDescs_cases c s with ⟨_, h⟩ | ⟨r, _, _, _, h⟩ <;> simp [h, frmwDesc, lrwOf]
  have h3 : ((s.subs.take (tOf c s)).map fprdDesc).filterMap lrwOf = [] := filterMap_lrwOf_fprd _
  simp only [planDescs, List.filterMap_append, h1, h3, List.nil_append, List.append_nil]
  unfold lrwDescs; split <;> simp [lrwOf]

theorem filterMap_lrwDataOf_fprd (l : List Nat) : (l.map fprdDesc).filterMap lrwDataOf = [] := by
  induction l with
  | nil => rfl
  | cons a t ih => simp [List.filterMap_cons, lrwDataOf, fprdDesc, ih]

theorem plan_lrwData (c : Cfg) (s : St) :
    (planDescs c s).filterMap lrwDataOf
      = if remOf s = 0 then [] else [(s.image.drop s.sent).take (kOf c s)] := by
  have h1 : (dcDescs c s).filterMap lrwDataOf = [] := by
    rcases dcDescs_cases c s with ⟨_, h⟩ | ⟨r, _, _, _, h⟩ <;> simp [h, frmwDesc, lrwDataOf]
  have h3 : ((s.subs.take (tOf c s)).map fprdDesc).filterMap lrwDataOf = [] := filterMap_lrwDataOf_fprd _
  simp only [planDescs, List.filterMap_append, h1, h3, List.nil_append, List.append_nil]
  unfold lrwDescs; split <;> simp [lrwDataOf]

theorem plan_fprds (c : Cfg) (s : St) :
    (planDescs c s).filterMap fprdOf = s.subs.take (tOf c s) := by
  have h1 : (dcDescs c s).filterMap fprdOf = [] := by
    rcases dcDescs_cases c s with ⟨_, h⟩ | ⟨r, _, _, _, h⟩ <;> simp [h, frmwDesc, fprdOf]
  have h2 : (lrwDescs c s).filterMap fprdOf = [] := by
    unfold lrwDescs; split <;> simp [fprdOf]
  have h3 : ((s.subs.take (tOf c s)).map fprdDesc).filterMap fprdOf = s.subs.take (tOf c s) :=
    filterMap_fprdOf_fprd _
  simp only [planDescs, List.filterMap_append, h1, h2, h3, List.nil_append]

theorem plan_rest_not_frmw (c : Cfg) (s : St) :
    ∀ d ∈ lrwDescs c s ++ (s.subs.take (tOf c s)).map fprdDesc, isFrmw d = false := by
  intro d hd
  rcases List.mem_append.1 hd with h | h
  · unfold lrwDescs at h; split at h
    · simp at h
    · simp at h; subst h; rfl
  · obtain ⟨a, _, rfl⟩ := List.mem_map.1 h; rfl

end Ec.TxRx
