/-
  Totality / boundedness calculus for the EEPROM model (C13): a Hoare-style predicate on the cost-counting
  monad and its rules, then one lemma per translated function, for arbitrary memories and both build modes.
-/
import EcModel.Lemmas.EepromBasic

namespace Ec.Eeprom
open Ec

/-- The arithmetic sites of the translated code at which a `u16` overflow is still possible: none. (Before the
    repairs in /repo this list had eight entries: `category:add`, `category:mul`, `new:mul`, `new:add`,
    `size:add`, `size:mul`, `skip_ahead_bytes:add`, `read_byte:add`.) -/
def knownSites : List String := []

/-- Panic sites that can fire in a build mode: the overflow sites with overflow checks, none without. -/
def sites : Mode → List String
  | .checked => knownSites
  | .wrapping => []

/-- `Tri K hang B Q x`: `x` makes at most `B` provider calls; it runs out of fuel (= does not terminate) only
    if `hang` allows it; if it panics, the site is in `K`; if it returns `a`, then `Q a`. -/
structure Tri {α : Type} (K : List String) (hang : Bool) (B : Nat) (Q : α → Prop) (x : M α) : Prop where
  cost : x.2 ≤ B
  nofuel : hang = false → x.1 ≠ .err .fuel
  panics : ∀ w, x.1 = .panic w → w ∈ K
  post : ∀ a, x.1 = .ok a → Q a

namespace Tri
variable {α β : Type} {K : List String} {hang : Bool}

theorem ret {Q : α → Prop} {a : α} (B : Nat) (h : Q a) : Tri K hang B Q (ret a) := by
  refine ⟨Nat.zero_le _, ?_, ?_, ?_⟩
  · intro _ h'; cases h'
  · intro _ h'; cases h'
  · intro b hb; cases hb; exact h

theorem fail {Q : α → Prop} (B : Nat) (e : Err) (he : e ≠ .fuel) : Tri K hang B Q (fail e : M α) := by
  refine ⟨Nat.zero_le _, ?_, ?_, ?_⟩
  · intro _ h'; cases h'; exact he rfl
  · intro _ h'; cases h'
  · intro _ h'; cases h'

theorem panicAt {Q : α → Prop} (B : Nat) (w : String) (hw : w ∈ K) : Tri K hang B Q (panicAt w : M α) := by
  refine ⟨Nat.zero_le _, ?_, ?_, ?_⟩
  · intro _ h'; cases h'
  · intro w' h'; cases h'; exact hw
  · intro _ h'; cases h'

theorem mono {Q Q' : α → Prop} {B B' : Nat} {x : M α} (h : Tri K hang B Q x) (hB : B ≤ B')
    (hQ : ∀ a, Q a → Q' a) : Tri K hang B' Q' x :=
  ⟨Nat.le_trans h.cost hB, h.nofuel, h.panics, fun a ha => hQ a (h.post a ha)⟩

theorem bind {P : α → Prop} {Q : β → Prop} {B1 B2 : Nat} {x : M α} {f : α → M β}
    (hx : Tri K hang B1 P x) (hf : ∀ a, P a → Tri K hang B2 Q (f a)) :
    Tri K hang (B1 + B2) Q (Eeprom.bind x f) := by
  cases hx1 : x.1 with
  | ok a =>
    have hfa := hf a (hx.post a hx1)
    rw [bind_eq_ok f hx1]
    exact ⟨Nat.add_le_add hx.cost hfa.cost, hfa.nofuel, hfa.panics, hfa.post⟩
  | err e =>
    rw [bind_eq_err f hx1]
    refine ⟨Nat.le_trans hx.cost (Nat.le_add_right _ _), ?_, ?_, ?_⟩
    · intro hh h'; cases h'; exact hx.nofuel hh hx1
    · intro _ h'; cases h'
    · intro _ h'; cases h'
  | panic w =>
    rw [bind_eq_panic f hx1]
    refine ⟨Nat.le_trans hx.cost (Nat.le_add_right _ _), ?_, ?_, ?_⟩
    · intro _ h'; cases h'
    · intro w' h'; cases h'; exact hx.panics w hx1
    · intro _ h'; cases h'

/-- One provider call, then `f`. -/
theorem call {Q : β → Prop} {B : Nat} {a : α} {f : α → M β} (hf : Tri K hang B Q (f a)) :
    Tri K hang (1 + B) Q (Eeprom.bind (Eeprom.call a) f) := by
  rw [bind_call]
  exact ⟨Nat.add_le_add_left hf.cost 1, hf.nofuel, hf.panics, hf.post⟩

theorem addCost {Q : α → Prop} {B : Nat} {x : M α} (n : Nat) (h : Tri K hang B Q x) :
    Tri K hang (n + B) Q (Eeprom.addCost n x) :=
  ⟨Nat.add_le_add_left h.cost n, h.nofuel, h.panics, h.post⟩

/-- A computation known to return `a` with cost at most `B`. -/
theorem of_ok {Q : α → Prop} {B : Nat} {x : M α} {a : α} (h1 : x.1 = .ok a) (h2 : x.2 ≤ B) (hq : Q a) :
    Tri K hang B Q x := by
  refine ⟨h2, ?_, ?_, ?_⟩
  · intro _ h'; rw [h1] at h'; cases h'
  · intro _ h'; rw [h1] at h'; cases h'
  · intro b hb; rw [h1] at hb; cases hb; exact hq

theorem of_err {Q : α → Prop} {B : Nat} {x : M α} {e : Err} (h1 : x.1 = .err e) (h2 : x.2 ≤ B) (he : e ≠ .fuel) :
    Tri K hang B Q x := by
  refine ⟨h2, ?_, ?_, ?_⟩
  · intro _ h'; rw [h1] at h'; cases h'; exact he rfl
  · intro _ h'; rw [h1] at h'; cases h'
  · intro b hb; rw [h1] at hb; cases hb

end Tri

/-! ### arithmetic -/

/-- A sum that provably fits never panics, in any mode, whatever the site. -/
theorem add16_small {K : List String} {hang : Bool} (m : Mode) (s : String) (a b : Nat) (h : a + b < 65536) :
    Tri K hang 0 (fun v => v = a + b) (add16 m s a b) := by
  rw [add16_ok _ _ _ _ h]; exact Tri.ret 0 rfl

/-! ### `EepromRange` -/

/-- Cursor and end lie inside the SII address space (2^17 bytes): the invariant that keeps the `u32` cursor
    arithmetic of the code exact. -/
def Range.WF (r : Range) : Prop := r.pos ≤ 131072 ∧ r.endp ≤ 131072

theorem new_tri {K : List String} (m : Mode) (hang : Bool) (w n : Nat) (hw : w < 65536) :
    Tri K hang 0 (fun r => r.WF) (Range.new m w n) := by
  unfold Range.new
  refine Tri.ret 0 ⟨?_, ?_⟩
  · simp only; omega
  · simp only [ADDRESS_SPACE_BYTES]; omega

theorem startAt_tri {K : List String} (m : Mode) (hang : Bool) (w n : Nat) (hw : w < 65536) :
    Tri K hang 0 (fun r => r.WF) (startAt m w n) :=
  new_tri m hang w ((n + 1) / 2) hw

theorem skip_tri {K : List String} (m : Mode) (hang : Bool) (r : Range) (hr : r.WF) (k : Nat) :
    Tri K hang 0 (fun r' => r'.WF ∧ r'.endp = r.endp) (Range.skip m r k) := by
  unfold Range.skip
  split
  · exact Tri.fail 0 _ (by decide)
  · refine Tri.ret 0 ⟨⟨?_, hr.2⟩, rfl⟩
    have := hr.2
    simp only; omega

theorem readByte_tri {K : List String} (m : Mode) (hang : Bool) (p : Prov) (hcs : 2 ≤ p.cs) (r : Range)
    (hr : r.WF) :
    Tri K hang 2 (fun res => res.1 = p.rd r.pos ∧ res.2.WF ∧ res.2.endp = r.endp)
      (Range.readByte m p r) := by
  unfold Range.readByte
  by_cases hend : r.pos ≥ r.endp
  · rw [if_pos hend]; exact Tri.fail _ _ (by decide)
  · rw [if_neg hend, wordPos_ok r.pos (by have := hr.2; omega)]
    unfold clearErrors readChunk
    refine Tri.call (B := 1) ?_
    rw [bind_ret]
    refine Tri.call (B := 0) ?_
    have hget : (chunkAt p (r.pos / 2))[r.pos % 2]? = some (p.rd r.pos) := by
      unfold chunkAt
      rw [slice_getElem?, if_pos (by omega)]
      congr 2; omega
    rw [hget]
    refine Tri.ret 0 ⟨rfl, ⟨?_, hr.2⟩, rfl⟩
    have := hr.2
    simp only; omega

theorem read_tri {K : List String} (m : Mode) (hang : Bool) (p : Prov) (hcs : 2 ≤ p.cs) (r : Range) (hr : r.WF)
    (n : Nat) :
    Tri K hang (n + 1)
      (fun res => res.1 = slice p.rd r.pos (min n (r.endp - r.pos)) ∧ res.2.WF ∧ res.2.endp = r.endp ∧
        res.2.pos = r.pos + min n (r.endp - r.pos))
      (Range.read m p r n) := by
  have h := read_ok m p hcs r n hr.2
  refine Tri.of_ok h.1 (by have := h.2; omega) ⟨rfl, ⟨?_, hr.2⟩, rfl, rfl⟩
  have := hr.1; have := hr.2
  simp only; omega

/-- `read_exact`: either all `n` bytes (`ok`) or `UnexpectedEof`; never a panic, at most `n + 1` calls. -/
theorem readExact_tri {K : List String} (m : Mode) (hang : Bool) (p : Prov) (hcs : 2 ≤ p.cs) (r : Range)
    (hr : r.WF) (n : Nat) :
    Tri K hang (n + 1)
      (fun res => res.1 = slice p.rd r.pos n ∧ res.2.WF ∧ res.2.endp = r.endp ∧ res.2.pos = r.pos + n ∧
        r.pos + n ≤ max r.endp r.pos)
      (Range.readExact m p r n) := by
  by_cases hfit : r.pos + n ≤ r.endp
  · have h := readExact_ok m p hcs r n hr.2 hfit
    refine Tri.of_ok h.1 h.2 ⟨rfl, ⟨?_, hr.2⟩, rfl, rfl, ?_⟩
    · have := hr.2; simp only; omega
    · omega
  · by_cases hn : n = 0
    · subst hn
      refine Tri.of_ok (a := ([], r)) ?_ ?_ ⟨by simp, hr, rfl, rfl, by omega⟩
      · simp [Range.readExact, readExactLoop]
      · simp [Range.readExact, readExactLoop]
    · have h := readExact_eof m p hcs r n hr.2 (by omega) hfit
      exact Tri.of_err h.1 h.2 (by decide)

theorem eofToOverrun_tri {α : Type} {K : List String} {hang : Bool} {B : Nat} {Q : α → Prop} {x : M α}
    (h : Tri K hang B Q x) : Tri K hang B Q (eofToOverrun x) := by
  unfold eofToOverrun
  split
  · refine ⟨h.cost, ?_, ?_, ?_⟩
    · intro _ h'; cases h'
    · intro _ h'; cases h'
    · intro _ h'; cases h'
  · exact h

/-! ### category walk -/

/-- What one loop iteration guarantees about its result: the next word address is a `u16` and at least 2 beyond
    the current one (checked addition), in every build mode. -/
def CatStepPost (wa : Nat) : CatStep → Prop
  | .done (some r) => r.WF
  | .done none => True
  | .next wa' ne' => wa' < 65536 ∧ ne' < 32 ∧ wa + 2 ≤ wa'

theorem catStep_tri (m : Mode) (hang : Bool) (cat : Nat) (chunk : List Nat) (wa ne : Nat)
    (hch : 4 ≤ chunk.length) :
    Tri (sites m) hang 0 (CatStepPost wa) (catStep m cat chunk wa ne) := by
  unfold catStep
  by_cases h1 : wa + 2 ≥ 65536
  · rw [if_pos h1]; exact Tri.ret 0 (show CatStepPost wa (.done none) from trivial)
  · rw [if_neg h1, if_neg (by omega : ¬ chunk.length < 4)]
    generalize hdef : (if rd16 (chunk.drop 2) = 0 then ne + 1 else ne) = ne'
    by_cases h2 : ne' ≥ Gen.Eeprom.EMPTY_CATEGORY_LIMIT
    · simp only [hdef, if_pos h2]; exact Tri.ret 0 (show CatStepPost wa (.done none) from trivial)
    · simp only [hdef, if_neg h2]
      have hne' : ne' < 32 := by simp only [Gen.Eeprom.EMPTY_CATEGORY_LIMIT] at h2; omega
      by_cases h3 : catOf (rd16 chunk) = cat
      · rw [if_pos h3]
        refine (Tri.bind (new_tri m hang (wa + 2) _ (by omega)) (B2 := 0) ?_)
        intro r hr
        exact Tri.ret 0 (show CatStepPost wa (.done (some r)) from hr)
      · rw [if_neg h3]
        by_cases h4 : catOf (rd16 chunk) = Gen.Eeprom.CAT_END
        · rw [if_pos h4]; exact Tri.ret 0 (show CatStepPost wa (.done none) from trivial)
        · rw [if_neg h4]
          by_cases h5 : wa + 2 + rd16 (chunk.drop 2) < 65536
          · rw [if_pos h5]
            exact Tri.ret 0 (show CatStepPost wa (.next _ ne') from ⟨h5, hne', by omega⟩)
          · rw [if_neg h5]; exact Tri.fail 0 _ (by decide)

/-- **The walk terminates in every build mode**: the word address grows by at least 2 per iteration, so the
    walk ends after at most `(65536 − wa) / 2 + 1` provider calls — it never runs out of fuel. -/
theorem catLoop_terminates (m : Mode) (p : Prov) (hcs : 4 ≤ p.cs) (cat : Nat) :
    ∀ (fuel wa ne calls : Nat), wa < 65536 → 65536 - wa < 2 * fuel →
      Tri (sites m) false (calls + (65536 - wa) / 2 + 1) (fun r => ∀ x, r = some x → x.WF)
        (catLoop m p cat fuel wa ne calls) := by
  intro fuel
  induction fuel with
  | zero => intro wa ne calls h1 h3; omega
  | succ fuel ih =>
    intro wa ne calls hwa hfuel
    unfold catLoop
    have hst := catStep_tri m false cat (chunkAt p wa) wa ne (by simp; omega)
    generalize catStep m cat (chunkAt p wa) wa ne = st at hst
    obtain ⟨o, c⟩ := st
    have hc : c = 0 := by have := hst.cost; simpa using this
    subst hc
    cases o with
    | ok s =>
      cases s with
      | done r =>
        refine Tri.of_ok rfl (by simp only; omega) ?_
        intro x hx; subst hx
        exact hst.post _ rfl
      | next wa' ne' =>
        have hp : wa' < 65536 ∧ ne' < 32 ∧ wa + 2 ≤ wa' := hst.post _ rfl
        exact (ih wa' ne' (calls + 1) hp.1 (by omega)).mono (by omega) (fun _ h => h)
    | err e =>
      refine Tri.of_err rfl (by simp only; omega) ?_
      intro he; subst he
      exact hst.nofuel rfl rfl
    | panic w =>
      refine ⟨by simp only; omega, ?_, ?_, ?_⟩
      · intro _ h; cases h
      · intro w' hw'; cases hw'; exact hst.panics w rfl
      · intro _ h; cases h

/-- Provider-call bound of one category search (both build modes). -/
def catBound : Nat := (65536 - Gen.Eeprom.SII_FIRST_CATEGORY_START) / 2 + 1

theorem category_tri (m : Mode) (p : Prov) (hcs : 4 ≤ p.cs) (cat : Nat) :
    Tri (sites m) false catBound (fun r => ∀ x, r = some x → x.WF) (category m p cat) := by
  unfold category
  have := catLoop_terminates m p hcs cat catFuel Gen.Eeprom.SII_FIRST_CATEGORY_START 0 0 (by decide) (by decide)
  exact this.mono (by simp [catBound]) (fun _ h => h)

/-! ### items and collections -/

theorem nextItem_tri {α : Type} {K : List String} (m : Mode) (hang : Bool) (p : Prov) (hcs : 2 ≤ p.cs)
    (r : Range) (hr : r.WF) (sz : Nat) (parse : List Nat → M α) (P : α → Prop)
    (hparse : ∀ b, b = slice p.rd r.pos sz → Tri K hang 0 P (parse b)) :
    Tri K hang (sz + 1) (fun res => res.2.WF ∧ ∀ a, res.1 = some a → P a) (nextItem m p r sz parse) := by
  unfold nextItem
  have h := readExact_tri (K := K) m hang p hcs r hr sz
  generalize Range.readExact m p r sz = x at h
  obtain ⟨o, c⟩ := x
  have hc : c ≤ sz + 1 := h.cost
  cases o with
  | ok res =>
    have hp := h.post res rfl
    have hb := hparse res.1 hp.1
    have := (Tri.addCost c (Tri.bind hb (B2 := 0) (Q := fun res' : Option α × Range =>
      res'.2.WF ∧ ∀ a, res'.1 = some a → P a) (f := fun a => ret (some a, res.2))
      (fun a ha => Tri.ret 0 ⟨hp.2.1, fun a' h' => by cases h'; exact ha⟩)))
    exact this.mono (by omega) (fun _ h => h)
  | err e =>
    cases e
    case eof => exact Tri.of_ok rfl hc ⟨hr, fun a h' => by cases h'⟩
    all_goals
      show Tri K hang (sz + 1) _ (Outcome.err _, c)
      refine ⟨hc, ?_, ?_, ?_⟩
      · intro hh h'; exact h.nofuel hh (by cases h' <;> rfl)
      · intro _ h'; cases h'
      · intro _ h'; cases h'
  | panic w =>
    refine ⟨hc, ?_, ?_, ?_⟩
    · intro _ h'; cases h'
    · intro w' h'; cases h'; exact h.panics w rfl
    · intro _ h'; cases h'

/-- "Every category search is fine": never panics outside `sites m`, runs out of fuel only if `hang` allows it,
    makes at most `CB` provider calls. Instantiated by `category_tri` (all images) and, for the partial theorem,
    by the no-wrap hypothesis. -/
def CatOK (m : Mode) (p : Prov) (hang : Bool) (CB : Nat) : Prop :=
  ∀ cat, Tri (sites m) hang CB (fun r => ∀ x, r = some x → x.WF) (category m p cat)

theorem catOK_all (m : Mode) (p : Prov) (hcs : 4 ≤ p.cs) : CatOK m p false catBound :=
  fun cat => category_tri m p hcs cat

theorem items_tri (m : Mode) (p : Prov) (_hcs : 4 ≤ p.cs) {hang : Bool} {CB : Nat} (hc : CatOK m p hang CB) (cat : Nat) :
    Tri (sites m) hang (CB) (fun r => r.WF) (items m p cat) := by
  unfold items
  refine (Tri.bind (hc cat) (B2 := 0) ?_).mono (by omega) (fun _ h => h)
  intro c hcw
  cases c with
  | some r => exact Tri.ret 0 (hcw r rfl)
  | none => exact new_tri m hang 0 0 (by decide)

/-- The collecting loop: at most `cap + 1` items are fetched, the result never exceeds the capacity. -/
theorem collectLoop_tri {α : Type} {K : List String} (m : Mode) (hang : Bool) (p : Prov) (hcs : 2 ≤ p.cs)
    (sz cap capItem : Nat) (parse : List Nat → M α) (hparse : ∀ b, Tri K hang 0 (fun _ => True) (parse b)) :
    ∀ (fuel : Nat) (r : Range) (acc : List α), r.WF → acc.length ≤ cap → cap + 1 - acc.length < fuel →
      Tri K hang (fuel * (sz + 1)) (fun l => l.length ≤ cap)
        (collectLoop m p sz cap capItem parse fuel r acc) := by
  intro fuel
  induction fuel with
  | zero => intro r acc _ _ h; omega
  | succ fuel ih =>
    intro r acc hr hacc hfuel
    unfold collectLoop
    have hn := nextItem_tri (K := K) m hang p hcs r hr sz parse (fun _ => True) (fun b _ => hparse b)
    refine (Tri.bind hn (B2 := fuel * (sz + 1)) ?_).mono (by rw [Nat.succ_mul]; omega) (fun _ h => h)
    intro res hres
    cases hres1 : res.1 with
    | none => exact Tri.ret _ hacc
    | some a =>
      simp only []
      by_cases hfull : acc.length ≥ cap
      · rw [if_pos hfull]; exact Tri.fail _ _ (fun h => by cases h)
      · rw [if_neg hfull]
        exact ih res.2 (acc ++ [a]) hres.1 (by simp; omega) (by simp; omega)

theorem parseSm_tri {K : List String} {hang : Bool} (b : List Nat) : Tri K hang 0 (fun _ => True) (parseSm b) := by
  unfold parseSm; split
  · exact Tri.ret 0 trivial
  · exact Tri.fail 0 _ (by decide)

theorem parseFmmuEx_tri {K : List String} {hang : Bool} (b : List Nat) :
    Tri K hang 0 (fun _ => True) (parseFmmuEx b) := Tri.ret 0 trivial

theorem parseFmmus_tri {K : List String} {hang : Bool} :
    ∀ (b : List Nat), Tri K hang 0 (fun l => l.length ≤ b.length) (parseFmmus b) := by
  intro b
  induction b with
  | nil => exact Tri.ret 0 (Nat.le_refl _)
  | cons x rest ih =>
    unfold parseFmmus
    split
    · refine (Tri.bind ih (B2 := 0) ?_)
      intro us hus
      exact Tri.ret 0 (by simp; omega)
    · exact Tri.fail 0 _ (by decide)

theorem parseMailbox_tri {K : List String} {hang : Bool} (b : List Nat) :
    Tri K hang 0 (fun _ => True) (parseMailbox b) := by
  unfold parseMailbox; split
  · exact Tri.ret 0 trivial
  · exact Tri.fail 0 _ (by decide)

theorem parseGeneral_tri {K : List String} {hang : Bool} (b : List Nat) :
    Tri K hang 0 (fun g => g.orderIdx = b.getD 2 0 ∧ g.nameIdx = b.getD 3 0) (parseGeneral b) := by
  unfold parseGeneral; split
  · exact Tri.ret 0 ⟨rfl, rfl⟩
  · exact Tri.fail 0 _ (by decide)

/-! ### the queries -/

theorem syncManagers_tri (m : Mode) (p : Prov) (hcs : 4 ≤ p.cs) {hang : Bool} {CB : Nat} (hc : CatOK m p hang CB) :
    Tri (sites m) hang (CB + 90) (fun l => l.length ≤ 8) (syncManagers m p) := by
  unfold syncManagers
  refine (Tri.bind (items_tri m p hcs hc _) (B2 := 90) ?_)
  intro r hr
  exact (collectLoop_tri m hang p (by omega) 8 Gen.Eeprom.CAP_SYNC_MANAGERS 0 parseSm
    (fun b => parseSm_tri b) (Gen.Eeprom.CAP_SYNC_MANAGERS + 2) r [] hr (by decide) (by decide)).mono
    (by decide) (fun _ h => h)

theorem fmmuMappings_tri (m : Mode) (p : Prov) (hcs : 4 ≤ p.cs) {hang : Bool} {CB : Nat} (hc : CatOK m p hang CB) :
    Tri (sites m) hang (CB + 72) (fun l => l.length ≤ 16) (fmmuMappings m p) := by
  unfold fmmuMappings
  refine (Tri.bind (items_tri m p hcs hc _) (B2 := 72) ?_)
  intro r hr
  exact (collectLoop_tri m hang p (by omega) 3 Gen.Eeprom.CAP_FMMU_EX 1 parseFmmuEx
    (fun b => parseFmmuEx_tri b) (Gen.Eeprom.CAP_FMMU_EX + 2) r [] hr (by decide) (by decide)).mono
    (by decide) (fun _ h => h)

theorem fmmus_tri (m : Mode) (p : Prov) (hcs : 4 ≤ p.cs) {hang : Bool} {CB : Nat} (hc : CatOK m p hang CB) :
    Tri (sites m) hang (CB + 17) (fun l => l.length ≤ 16) (fmmus m p) := by
  unfold fmmus
  refine (Tri.bind (hc _) (B2 := 17) ?_)
  intro c hc
  cases c with
  | none => exact Tri.ret _ (by simp)
  | some r =>
    simp only []
    refine (Tri.bind (read_tri m hang p (by omega) r (hc r rfl) Gen.Eeprom.FMMU_READ_BUF) (B2 := 0) ?_).mono
      (by decide) (fun _ h => h)
    intro res hres
    refine (parseFmmus_tri res.1).mono (Nat.le_refl _) ?_
    intro l hl
    rw [hres.1, slice_length] at hl
    have : min Gen.Eeprom.FMMU_READ_BUF (r.endp - r.pos) ≤ 16 := by
      simp only [Gen.Eeprom.FMMU_READ_BUF]; omega
    omega

theorem stationAlias_tri (m : Mode) (hang : Bool) (p : Prov) (hcs : 2 ≤ p.cs) :
    Tri (sites m) hang 3 (fun _ => True) (stationAlias m p) := by
  unfold stationAlias
  refine (Tri.bind (startAt_tri m hang _ 2 (by decide)) (B2 := 3) ?_).mono (by omega) (fun _ h => h)
  intro r hr
  refine (Tri.bind (eofToOverrun_tri (readExact_tri m hang p hcs r hr 2)) (B2 := 0) ?_)
  intro _ _
  exact Tri.ret 0 trivial

theorem identity_tri (m : Mode) (hang : Bool) (p : Prov) (hcs : 2 ≤ p.cs) :
    Tri (sites m) hang 17 (fun _ => True) (identity m p) := by
  unfold identity
  refine (Tri.bind (startAt_tri m hang _ 16 (by decide)) (B2 := 17) ?_).mono (by omega) (fun _ h => h)
  intro r hr
  refine (Tri.bind (eofToOverrun_tri (readExact_tri m hang p hcs r hr 16)) (B2 := 0) ?_)
  intro _ _
  exact Tri.ret 0 trivial

theorem mailboxConfig_tri (m : Mode) (hang : Bool) (p : Prov) (hcs : 2 ≤ p.cs) :
    Tri (sites m) hang 11 (fun _ => True) (mailboxConfig m p) := by
  unfold mailboxConfig
  refine (Tri.bind (startAt_tri m hang _ 10 (by decide)) (B2 := 11) ?_).mono (by omega) (fun _ h => h)
  intro r hr
  refine (Tri.bind (eofToOverrun_tri (readExact_tri m hang p hcs r hr 10)) (B2 := 0) ?_)
  intro res _
  exact parseMailbox_tri res.1

theorem size_tri (m : Mode) (hang : Bool) (p : Prov) (hcs : 2 ≤ p.cs) :
    Tri (sites m) hang 3 (fun _ => True) (size m p) := by
  unfold size
  refine (Tri.bind (startAt_tri m hang _ 2 (by decide)) (B2 := 3) ?_).mono (by omega) (fun _ h => h)
  intro r hr
  refine (Tri.bind (eofToOverrun_tri (readExact_tri m hang p hcs r hr 2)) (B2 := 0) ?_)
  intro res _
  exact Tri.ret 0 trivial

theorem general_tri (m : Mode) (p : Prov) (hcs : 4 ≤ p.cs) {hang : Bool} {CB : Nat} (hc : CatOK m p hang CB) (hb : ∀ a, p.rd a < 256) :
    Tri (sites m) hang (CB + 19) (fun g => g.orderIdx < 256 ∧ g.nameIdx < 256) (general m p) := by
  unfold general
  refine (Tri.bind (hc _) (B2 := 19) ?_)
  intro c hc
  cases c with
  | none => exact Tri.fail _ _ (by decide)
  | some r =>
    simp only []
    refine (Tri.bind (eofToOverrun_tri (readExact_tri m hang p (by omega) r (hc r rfl) 18)) (B2 := 0) ?_)
    intro res hres
    refine (parseGeneral_tri res.1).mono (Nat.le_refl _) ?_
    intro g hg
    rw [hg.1, hg.2, hres.1]
    simp only [List.getD_eq_getElem?_getD, slice_getElem?]
    constructor <;> simp <;> exact hb _

/-! ### PDOs -/

theorem slice_getD_lt (rd : Nat → Nat) (hb : ∀ a, rd a < 256) (a n i : Nat) : (slice rd a n).getD i 0 < 256 := by
  simp only [List.getD_eq_getElem?_getD, slice_getElem?]
  split
  · simpa using hb _
  · simp

theorem pdoEntries_tri {K : List String} (m : Mode) (hang : Bool) (p : Prov) (hcs : 2 ≤ p.cs)
    (hb : ∀ a, p.rd a < 256) :
    ∀ (n : Nat) (r : Range) (bits : Nat), r.WF → bits + 255 * n < 65536 →
      Tri K hang (n * 9) (fun res => res.2.WF ∧ res.1 ≤ bits + 255 * n) (pdoEntries m p n r bits) := by
  intro n
  induction n with
  | zero => intro r bits hr _; exact Tri.ret _ ⟨hr, by omega⟩
  | succ n ih =>
    intro r bits hr hbits
    unfold pdoEntries
    have hn := nextItem_tri (K := K) m hang p hcs r hr 8 parsePdoEntry (fun e => e < 256)
      (fun b hbeq => by subst hbeq; exact Tri.ret 0 (slice_getD_lt p.rd hb _ _ _))
    refine (Tri.bind hn (B2 := n * 9) ?_).mono (by rw [Nat.succ_mul]; omega) (fun _ h => h)
    intro res hres
    cases hres1 : res.1 with
    | none => exact Tri.fail _ _ (by decide)
    | some e =>
      simp only []
      have he : e < 256 := hres.2 e hres1
      refine (Tri.bind (add16_small m "pdos:add" bits e (by omega)) (B2 := n * 9) ?_).mono (by omega) (fun _ h => h)
      intro bits' hbits'
      subst hbits'
      exact (ih res.2 (bits + e) hres.1 (by omega)).mono (Nat.le_refl _) (fun _ h => ⟨h.1, by omega⟩)

theorem pdoLoop_tri {K : List String} (m : Mode) (hang : Bool) (p : Prov) (hcs : 2 ≤ p.cs)
    (hb : ∀ a, p.rd a < 256) :
    ∀ (fuel : Nat) (r : Range) (acc : List Pdo), r.WF → acc.length ≤ Gen.Eeprom.CAP_PDOS →
      Gen.Eeprom.CAP_PDOS + 1 - acc.length < fuel →
      Tri K hang (fuel * 2304) (fun l => l.length ≤ Gen.Eeprom.CAP_PDOS) (pdoLoop m p fuel r acc) := by
  intro fuel
  induction fuel with
  | zero => intro r acc _ _ h; omega
  | succ fuel ih =>
    intro r acc hr hacc hfuel
    unfold pdoLoop
    have hn := nextItem_tri (K := K) m hang p hcs r hr 8 parsePdo (fun pdo => pdo.numEntries < 256)
      (fun b hbeq => by
        subst hbeq
        exact Tri.ret 0 (show (slice p.rd r.pos 8).getD 2 0 < 256 from slice_getD_lt p.rd hb _ _ _))
    refine (Tri.bind hn (B2 := 2295 + fuel * 2304) ?_).mono (by rw [Nat.succ_mul]; omega) (fun _ h => h)
    intro res hres
    cases hres1 : res.1 with
    | none => exact Tri.ret _ hacc
    | some pdo =>
      simp only []
      have hne : pdo.numEntries < 256 := hres.2 pdo hres1
      refine (Tri.bind ((pdoEntries_tri m hang p hcs hb pdo.numEntries res.2 0 hres.1 (by omega)).mono
        (show pdo.numEntries * 9 ≤ 2295 by omega) (fun _ h => h)) (B2 := fuel * 2304) ?_)
      intro er her
      by_cases hfull : acc.length ≥ Gen.Eeprom.CAP_PDOS
      · rw [if_pos hfull]; exact Tri.fail _ _ (by decide)
      · rw [if_neg hfull]
        exact ih er.2 _ her.1 (by simp; omega) (by simp; omega)

theorem pdos_tri (m : Mode) (p : Prov) (hcs : 4 ≤ p.cs) {hang : Bool} {CB : Nat} (hc : CatOK m p hang CB) (hb : ∀ a, p.rd a < 256) (cat : Nat) :
    Tri (sites m) hang (CB + 152064) (fun l => l.length ≤ 64) (pdos m p cat) := by
  unfold pdos
  refine (Tri.bind (items_tri m p hcs hc cat) (B2 := 152064) ?_)
  intro r hr
  exact (pdoLoop_tri m hang p (by omega) hb (Gen.Eeprom.CAP_PDOS + 2) r [] hr (by decide) (by decide)).mono
    (by decide) (fun _ h => h)

/-! ### strings -/

theorem skipStrings_tri (m : Mode) (hang : Bool) (p : Prov) (hcs : 2 ≤ p.cs) :
    ∀ (n : Nat) (r : Range), r.WF → Tri (sites m) hang (2 * n) (fun r' => r'.WF) (skipStrings m p n r) := by
  intro n
  induction n with
  | zero => intro r hr; exact Tri.ret _ hr
  | succ n ih =>
    intro r hr
    unfold skipStrings
    refine (Tri.bind (readByte_tri m hang p hcs r hr) (B2 := 2 * n) ?_).mono (by omega) (fun _ h => h)
    intro res hres
    refine (Tri.bind (skip_tri m hang res.2 hres.2.1 res.1) (B2 := 2 * n) ?_).mono (by omega) (fun _ h => h)
    intro r' hr'
    exact ih r' hr'.1

theorem findString_tri (m : Mode) (p : Prov) (hcs : 4 ≤ p.cs) {hang : Bool} {CB : Nat} (hc : CatOK m p hang CB) (N idx : Nat) :
    Tri (sites m) hang (CB + 2 * idx + N + 5) (fun s => ∀ b, s = some b → b.length ≤ N)
      (findString m p N idx) := by
  unfold findString
  by_cases h0 : idx = 0
  · rw [if_pos h0]; exact Tri.ret _ (fun _ h => by cases h)
  · rw [if_neg h0]
    simp only []
    refine (Tri.bind (hc _) (B2 := 2 * idx + N + 5) ?_).mono (by omega) (fun _ h => h)
    intro c hc
    cases c with
    | none => exact Tri.ret _ (fun _ h => by cases h)
    | some r =>
      simp only []
      refine (Tri.bind (readByte_tri m hang p (by omega) r (hc r rfl)) (B2 := 2 * idx + N + 3) ?_).mono
        (by omega) (fun _ h => h)
      intro nb hnb
      split
      · exact Tri.ret _ (fun _ h => by cases h)
      · refine (Tri.bind (skipStrings_tri m hang p (by omega) (idx - 1) nb.2 hnb.2.1)
          (B2 := N + 5) ?_).mono (by omega) (fun _ h => h)
        intro r' hr'
        refine (Tri.bind (readByte_tri m hang p (by omega) r' hr') (B2 := N + 1) ?_).mono
          (by omega) (fun _ h => h)
        intro lb hlb
        split
        · exact Tri.fail _ _ (fun h => by cases h)
        · rename_i hle
          refine (Tri.bind (eofToOverrun_tri (readExact_tri m hang p (by omega) lb.2 hlb.2.1 lb.1))
            (B2 := 0) ?_).mono (by omega) (fun _ h => h)
          intro res hres
          refine Tri.ret 0 ?_
          intro b hbq
          cases hbq
          unfold cleanString
          rw [List.length_map]
          refine Nat.le_trans (List.length_filter_le _ _) ?_
          rw [hres.1, slice_length]; omega

theorem ignoreNoCategory_tri {α : Type} {K : List String} {hang : Bool} {B : Nat} {Q : α → Prop} {x : M α}
    (h : Tri K hang B Q x) : Tri K hang B (fun o => ∀ a, o = some a → Q a) (ignoreNoCategory x) := by
  unfold ignoreNoCategory
  split
  · rename_i a ha
    exact Tri.of_ok rfl h.cost (fun b hb => by cases hb; exact h.post a ha)
  · exact Tri.of_ok rfl h.cost (fun b hb => by cases hb)
  · rename_i e hne he
    refine ⟨h.cost, ?_, ?_, ?_⟩
    · intro hh h'; exact h.nofuel hh (by cases h'; exact he)
    · intro _ h'; cases h'
    · intro _ h'; cases h'
  · rename_i w hw
    refine ⟨h.cost, ?_, ?_, ?_⟩
    · intro _ h'; cases h'
    · intro w' h'; cases h'; exact h.panics w hw
    · intro _ h'; cases h'

theorem deviceName_tri (m : Mode) (p : Prov) (hcs : 4 ≤ p.cs) {hang : Bool} {CB : Nat} (hc : CatOK m p hang CB) (hb : ∀ a, p.rd a < 256) (N : Nat) :
    Tri (sites m) hang (2 * CB + N + 534) (fun s => ∀ b, s = some b → b.length ≤ N)
      (deviceName m p N) := by
  unfold deviceName
  refine (Tri.bind (ignoreNoCategory_tri (general_tri m p hcs hc hb)) (B2 := CB + N + 515) ?_).mono
    (by omega) (fun _ h => h)
  intro g hg
  cases g with
  | none => exact Tri.ret _ (fun _ h => by cases h)
  | some g =>
    simp only []
    have hidx := (hg g rfl).1
    refine (Tri.bind (ignoreNoCategory_tri (findString_tri m p hcs hc N g.orderIdx)) (B2 := 0) ?_).mono
      (by omega) (fun _ h => h)
    intro s hs
    refine Tri.ret 0 ?_
    intro b hbq
    cases s with
    | none => cases hbq
    | some inner =>
      cases inner with
      | none => cases hbq
      | some b2 => cases hbq; exact hs (some b) rfl b rfl

theorem deviceDescription_tri (m : Mode) (p : Prov) (hcs : 4 ≤ p.cs) {hang : Bool} {CB : Nat} (hc : CatOK m p hang CB) (hb : ∀ a, p.rd a < 256) (N : Nat) :
    Tri (sites m) hang (2 * CB + N + 534) (fun s => ∀ b, s = some b → b.length ≤ N)
      (deviceDescription m p N) := by
  unfold deviceDescription
  refine (Tri.bind (general_tri m p hcs hc hb) (B2 := CB + N + 515) ?_).mono (by omega) (fun _ h => h)
  intro g hg
  exact (findString_tri m p hcs hc N g.nameIdx).mono (by have := hg.2; omega) (fun _ h => h)

end Ec.Eeprom
