//! C20 at OS-thread granularity: the schedule-controlled runs of the real PDU loop (several application threads,
//! TX, RX; deadlines, retries, drops at arbitrary points), judged by the cross-talk monitors only: a request must
//! never see another request's data, and no status change of a slot may fall outside the lifecycle (a slot freed
//! or re-queued under another task's live request is how one task disturbs another).
fn main() {
    ecverif::microrun::main_for(
        ecverif::microrun::Profile {
            key: "c20m",
            drops: true,
            timeouts: true,
            tx_fail: false,
            rx_noise: true,
            only: &["wrong-data", "data-without-response", "lifecycle-order", "store-over-live-state", "app-panic", "txrx-panic"],
        },
        300,
        1500,
    );
}
