#!/usr/bin/env python3
"""usage: tools/seedrecord.py <tag> <property> <change> <needs> <caught_by> [<ran>...]
Copies /tmp/seed_<tag>_out/{patch.diff,demo.diff,README.md} to /verif/seeded/<tag>-seed/ and writes meta.json."""
import sys, os, shutil, json
tag, prop, change, needs, caught = sys.argv[1:6]
ran = sys.argv[6:] or ["./check " + prop]
src = f"/tmp/seed_{tag}_out"; dst = f"/verif/seeded/{tag}-seed"
os.makedirs(dst, exist_ok=True)
for f in ("patch.diff", "demo.diff", "README.md", "demo_test.rs.txt"):
    if os.path.exists(os.path.join(src, f)):
        shutil.copy(os.path.join(src, f), os.path.join(dst, f))
json.dump({"property": prop, "change": change, "needs": needs, "ran": ran, "caught_by": [caught]},
          open(os.path.join(dst, "meta.json"), "w"), indent=1)
print("recorded", dst, os.listdir(dst))
