import EcModel.Drv.C18
def main : IO Unit := Ec.Drv.runDriver Ec.Drv.C18.handle
