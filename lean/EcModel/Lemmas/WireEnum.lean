/-
  Derived enums (C19): structure of what parse_enum produces, and when the generated read inverts the generated write.
-/
import EcModel.Lemmas.WireCodecs

namespace Ec.Wire
open Ec

/-- The discriminant parse_enum.rs assigns to each declared variant (`discriminant_accum` semantics). -/
def macroDiscs : List VariantDecl → Int → List Int
  | [], _ => []
  | v :: rest, accum =>
    let disc := variantDiscriminant v.disc accum
    disc :: macroDiscs rest (accumAfter v disc)

/-- `parsed.variants` without the error checks. -/
def arms : List VariantDecl → Nat → Int → List VariantMeta
  | [], _, _ => []
  | v :: rest, idx, accum =>
    let disc := variantDiscriminant v.disc accum
    ({ name := idx, discriminant := disc, catchAll := v.catchAll } ::
      v.alternatives.map fun a => { name := idx, discriminant := a, catchAll := false }) ++
      arms rest (idx + 1) (accumAfter v disc)

theorem parseVariants_arms : ∀ (vs : List VariantDecl) (idx : Nat) (accum : Int) (ca df : Option Nat)
    (ms : List VariantMeta) (ca' df' : Option Nat),
    parseVariants vs idx accum ca df = .ok (ms, ca', df') →
    ms = arms vs idx accum ∧ (ca'.isSome = true → ca.isSome = true ∨ ∃ a ∈ ms, a.catchAll = true)
  | [], idx, accum, ca, df, ms, ca', df', h => by
    simp only [parseVariants, Except.ok.injEq, Prod.mk.injEq] at h
    obtain ⟨rfl, rfl, rfl⟩ := h
    exact ⟨rfl, fun h => Or.inl h⟩
  | v :: rest, idx, accum, ca, df, ms, ca', df', h => by
    unfold parseVariants at h
    simp only at h
    split at h
    · cases h
    split at h
    · cases h
    · split at h
      · cases h
      · split at h
        · cases h
        · split at h
          · cases h
          · rename_i ms' ca'' df'' hrest
            simp only [Except.ok.injEq, Prod.mk.injEq] at h
            obtain ⟨rfl, rfl, rfl⟩ := h
            obtain ⟨ih1, ih2⟩ := parseVariants_arms rest _ _ _ _ _ _ _ hrest
            refine ⟨by simp [arms, ih1], ?_⟩
            intro hca
            rcases ih2 hca with h | ⟨a, ha, hac⟩
            · by_cases hc : v.catchAll = true
              · exact Or.inr ⟨_, List.mem_cons_self .., hc⟩
              · simp only [hc] at h
                exact Or.inl h
            · exact Or.inr ⟨a, List.mem_cons_of_mem _ (List.mem_append_right _ ha), hac⟩

theorem parseEnum_arms {e : EnumDecl} {m : EnumMeta} (h : parseEnum e = .ok m) :
    m.variants = arms e.variants 0 Gen.WireMacro.accumInit ∧ m.repr = e.repr ∧ m.rustDiscs = rustDiscsFrom e.variants 0 ∧
      (m.catchAll.isSome = true → ∃ a ∈ m.variants, a.catchAll = true) := by
  unfold parseEnum at h
  split at h
  · cases h
  · split at h
    · cases h
    · split at h
      · cases h
      · rename_i ms ca df hp
        simp only [Except.ok.injEq] at h
        subst h
        obtain ⟨h1, h2⟩ := parseVariants_arms _ _ _ _ _ _ _ _ hp
        exact ⟨h1, rfl, rfl, fun hc => by simpa using h2 hc⟩

/-! ### write side -/

theorem matchWriteArms_alts (alts : List Int) (idx j : Nat) (rest : List VariantMeta) (hne : j ≠ idx) :
    matchWriteArms ((alts.map fun a => ({ name := idx, discriminant := a, catchAll := false } : VariantMeta)) ++ rest)
      (.unit j) = matchWriteArms rest (.unit j) := by
  induction alts with
  | nil => rfl
  | cons a alts ih => simp [matchWriteArms, hne, ih]

/-- With a catch-all, the generated `match self` yields the macro's discriminant of the variant. -/
theorem matchWriteArms_unit : ∀ (vs : List VariantDecl) (idx0 : Nat) (accum : Int) (j : Nat) (hj : j < vs.length),
    vs[j].catchAll = false →
    matchWriteArms (arms vs idx0 accum) (.unit (idx0 + j)) = (macroDiscs vs accum)[j]?
  | [], _, _, j, hj, _ => by simp at hj
  | v :: rest, idx0, accum, j, hj, hc => by
    cases j with
    | zero =>
      simp only [List.getElem_cons_zero] at hc
      simp [arms, macroDiscs, matchWriteArms, hc]
    | succ j =>
      simp only [List.getElem_cons_succ] at hc
      have hne : idx0 + (j + 1) ≠ idx0 := by omega
      have ih := matchWriteArms_unit rest (idx0 + 1) (accumAfter v (variantDiscriminant v.disc accum)) j (by simpa using hj) hc
      simp only [arms, macroDiscs, List.cons_append, List.getElem?_cons_succ]
      rw [← ih, show idx0 + 1 + j = idx0 + (j + 1) by omega]
      cases hv : v.catchAll
      · simp only [matchWriteArms, hne, if_false]
        exact matchWriteArms_alts _ _ _ _ hne
      · simp only [matchWriteArms]
        exact matchWriteArms_alts _ _ _ _ hne

theorem matchWriteArms_catchAll (raw : Int) : ∀ (l : List VariantMeta), (∃ a ∈ l, a.catchAll = true) →
    matchWriteArms l (.catchAll raw) = some raw
  | [], h => by simp at h
  | a :: l, h => by
    cases ha : a.catchAll
    · have : ∃ b ∈ l, b.catchAll = true := by
        obtain ⟨b, hb, hbc⟩ := h
        rcases List.mem_cons.mp hb with rfl | hb'
        · rw [ha] at hbc; cases hbc
        · exact ⟨b, hb', hbc⟩
      simp [matchWriteArms, ha, matchWriteArms_catchAll raw l this]
    · simp [matchWriteArms, ha]

theorem rustDiscs_explicit : ∀ (vs : List VariantDecl) (next : Int) (j : Nat) (hj : j < vs.length) (x : Int),
    vs[j].disc = some x → (rustDiscsFrom vs next)[j]? = some x
  | [], _, j, hj, _, _ => by simp at hj
  | v :: rest, next, j, hj, x, hx => by
    cases j with
    | zero => simp only [List.getElem_cons_zero] at hx; simp [rustDiscsFrom, hx]
    | succ j =>
      simp only [List.getElem_cons_succ] at hx
      simp [rustDiscsFrom, rustDiscs_explicit rest _ j (by simpa using hj) x hx]

theorem macroDiscs_explicit : ∀ (vs : List VariantDecl) (accum : Int) (j : Nat) (hj : j < vs.length) (x : Int),
    vs[j].disc = some x → (macroDiscs vs accum)[j]? = some x
  | [], _, j, hj, _, _ => by simp at hj
  | v :: rest, accum, j, hj, x, hx => by
    cases j with
    | zero => simp only [List.getElem_cons_zero] at hx; simp [macroDiscs, hx, variantDiscriminant]
    | succ j =>
      simp only [List.getElem_cons_succ] at hx
      simp [macroDiscs, macroDiscs_explicit rest _ j (by simpa using hj) x hx]

/-! ### read side -/

theorem record_mem_arms : ∀ (vs : List VariantDecl) (idx0 : Nat) (accum : Int) (j : Nat) (hj : j < vs.length) (x : Int),
    (macroDiscs vs accum)[j]? = some x →
    ({ name := idx0 + j, discriminant := x, catchAll := vs[j].catchAll } : VariantMeta) ∈ arms vs idx0 accum
  | [], _, _, j, hj, _, _ => by simp at hj
  | v :: rest, idx0, accum, j, hj, x, hx => by
    cases j with
    | zero =>
      simp only [macroDiscs, List.getElem?_cons_zero, Option.some.injEq] at hx
      simp [arms, hx]
    | succ j =>
      simp only [macroDiscs, List.getElem?_cons_succ] at hx
      have := record_mem_arms rest (idx0 + 1) _ j (by simpa using hj) x hx
      simp only [arms, List.cons_append, List.getElem_cons_succ]
      rw [show idx0 + (j + 1) = idx0 + 1 + j by omega]
      exact List.mem_cons_of_mem _ (List.mem_append_right _ this)

/-- If the discriminants of the read arms are pairwise distinct, an arm's discriminant reads back as that arm's variant. -/
theorem matchReadArms_of_mem : ∀ (l : List VariantMeta) (a : VariantMeta), a ∈ l → a.catchAll = false →
    ((l.filter fun b => !b.catchAll).map (·.discriminant)).Nodup → matchReadArms l a.discriminant = some a.name
  | [], _, h, _, _ => by simp at h
  | b :: l, a, hmem, hc, hnd => by
    simp only [matchReadArms]
    by_cases hb : (!b.catchAll) = true ∧ b.discriminant = a.discriminant
    · simp only [hb, and_self, if_true]
      rcases List.mem_cons.mp hmem with rfl | hmem'
      · rfl
      · exfalso
        simp only [List.filter_cons, hb.1, if_true, List.map_cons, List.nodup_cons] at hnd
        apply hnd.1
        rw [hb.2]
        exact List.mem_map.mpr ⟨a, List.mem_filter.mpr ⟨hmem', by simp [hc]⟩, rfl⟩
    · simp only [hb, if_false]
      have hne : a ≠ b := by
        rintro rfl
        exact hb ⟨by simp [hc], rfl⟩
      have hmem' : a ∈ l := by
        rcases List.mem_cons.mp hmem with h | h
        · exact absurd h hne
        · exact h
      apply matchReadArms_of_mem l a hmem' hc
      by_cases hbc : (!b.catchAll) = true
      · simp only [List.filter_cons, hbc, if_true, List.map_cons, List.nodup_cons] at hnd
        exact hnd.2
      · simpa [List.filter_cons, hbc] using hnd

/-- The raw value the generated read recovers from the bytes the generated write produced. -/
theorem raw_roundtrip (signed : Bool) (size : Nat) (x : Int) (h : reprInRange signed size x) :
    let bs := leBytes size (x % ((256 ^ size : Nat) : Int)).toNat
    (if signed then toSigned size (leVal (bs.take size)) else ((leVal (bs.take size) : Nat) : Int)) = x := by
  intro bs
  have ht : bs.take size = bs := List.take_of_length_le (by simp [bs, leBytes_length])
  rw [ht]
  simp only [bs, leVal_leBytes]
  cases signed with
  | true =>
    simp only [reprInRange, if_true] at h
    simp only [if_true]
    exact toSigned_roundtrip size x h.1 h.2
  | false =>
    simp only [reprInRange, Bool.false_eq_true, if_false] at h
    simp only [Bool.false_eq_true, if_false]
    have e : x % ((256 ^ size : Nat) : Int) = x := Int.emod_eq_of_lt h.1 h.2
    rw [e]
    have : x.toNat % 256 ^ size = x.toNat := Nat.mod_eq_of_lt (by omega)
    rw [this]
    omega

theorem macroDiscs_length : ∀ (vs : List VariantDecl) (accum : Int), (macroDiscs vs accum).length = vs.length
  | [], _ => rfl
  | v :: rest, accum => by simp [macroDiscs, macroDiscs_length rest]

theorem rustDiscsFrom_length : ∀ (vs : List VariantDecl) (next : Int), (rustDiscsFrom vs next).length = vs.length
  | [], _ => rfl
  | v :: rest, next => by simp [rustDiscsFrom, rustDiscsFrom_length rest]

/-- Core of the enum round trip: variant `idx` (not the catch-all) has macro discriminant `x`; the write side stores `x`
    (always true with a catch-all; without one it needs rustc's numbering to agree); `x` is a value of the repr; the read
    arms are pairwise distinct. Then the generated read returns the variant. -/
theorem enum_unit_roundtrip {e : EnumDecl} {m : EnumMeta} {size : Nat} (hp : parseEnum e = .ok m)
    (hnd : ((m.variants.filter fun b => !b.catchAll).map (·.discriminant)).Nodup)
    (idx : Nat) (hi : idx < e.variants.length) (hc : e.variants[idx].catchAll = false) (x : Int)
    (hmacro : (macroDiscs e.variants Gen.WireMacro.accumInit)[idx]? = some x)
    (hwr : m.catchAll.isSome = true ∨ (rustDiscsFrom e.variants 0)[idx]? = some x)
    (hr : reprInRange e.repr.signed size x) :
    ∃ bs, enumWrite m size (.unit idx) = .ok bs ∧ bs.length = size ∧ AllBytes bs ∧
      enumRead m size bs = .ok (.unit idx) := by
  obtain ⟨hv, hrepr, hrd, _⟩ := parseEnum_arms hp
  have hw : enumWriteValue m (.unit idx) = some x := by
    unfold enumWriteValue
    split
    · rw [hv]
      have := matchWriteArms_unit e.variants 0 Gen.WireMacro.accumInit idx hi hc
      rw [Nat.zero_add] at this
      rw [this, hmacro]
    · rename_i hca
      rw [hrd]
      rcases hwr with h | h
      · exact absurd h hca
      · exact h
  refine ⟨leBytes size (x % ((256 ^ size : Nat) : Int)).toNat, by simp [enumWrite, hw], leBytes_length _ _,
    allBytes_leBytes _ _, ?_⟩
  have hlen : ¬ (leBytes size (x % ((256 ^ size : Nat) : Int)).toNat).length < size := by simp [leBytes_length]
  have hraw := raw_roundtrip e.repr.signed size x hr
  simp only at hraw
  have hmem := record_mem_arms e.variants 0 Gen.WireMacro.accumInit idx hi x hmacro
  rw [Nat.zero_add, hc, ← hv] at hmem
  have hread := matchReadArms_of_mem m.variants _ hmem rfl hnd
  simp only [enumRead, hlen, if_false, hrepr, hraw, hread]

/-! ### the macro's numbering is rustc's (since the fix of parse_enum: accumulator starts at -1, alternatives do not advance it) -/

/-- With the constants re-read from parse_enum.rs (`Generated/WireMacro.lean`), the discriminant the macro assigns to each
    declared variant is the one rustc assigns: explicit value, else previous + 1, first 0. -/
theorem macroDiscs_eq_rustDiscs : ∀ (vs : List VariantDecl) (next : Int),
    macroDiscs vs (next - 1) = rustDiscsFrom vs next
  | [], _ => rfl
  | v :: rest, next => by
    cases hd : v.disc with
    | some d =>
      have ih := macroDiscs_eq_rustDiscs rest (d + 1)
      rw [show d + 1 - 1 = d by omega] at ih
      simp [macroDiscs, rustDiscsFrom, variantDiscriminant, accumAfter, Gen.WireMacro.alternativesAdvance, hd, ih]
    | none =>
      have ih := macroDiscs_eq_rustDiscs rest (next + 1)
      rw [show next + 1 - 1 = next by omega] at ih
      have e : next - 1 + 1 = next := by omega
      simp [macroDiscs, rustDiscsFrom, variantDiscriminant, accumAfter, Gen.WireMacro.alternativesAdvance,
        Gen.WireMacro.implicitStep, hd, e, ih]

theorem macro_numbering_is_rustc (vs : List VariantDecl) :
    macroDiscs vs Gen.WireMacro.accumInit = rustDiscsFrom vs 0 :=
  macroDiscs_eq_rustDiscs vs 0

/-- Decidable sufficient condition for a derived enum to obey the codec laws: accepted, supported repr, read arms pairwise
    distinct, every variant's discriminant a value of the repr, and — unless there is a catch-all, in which case the write
    side uses the macro's numbers too — rustc's numbering equal to the macro's (true when all discriminants are explicit). -/
def enumGood (e : EnumDecl) : Bool :=
  match parseEnum e, e.repr.size with
  | .ok m, some size =>
    decide (((m.variants.filter fun b => !b.catchAll).map (·.discriminant)).Nodup) &&
    (macroDiscs e.variants Gen.WireMacro.accumInit).all (fun x =>
      if e.repr.signed then decide (-((256 ^ size : Nat) : Int) ≤ 2 * x) && decide (2 * x < ((256 ^ size : Nat) : Int))
      else decide (0 ≤ x) && decide (x < ((256 ^ size : Nat) : Int))) &&
    (m.catchAll.isSome || decide (rustDiscsFrom e.variants 0 = macroDiscs e.variants Gen.WireMacro.accumInit))
  | _, _ => false

theorem enumCodec_lawful (e : EnumDecl) (h : enumGood e = true) : Lawful (enumCodec e) := by
  unfold enumGood at h
  unfold enumCodec
  split at h
  · rename_i m size hp hs
    simp only [Bool.and_eq_true, decide_eq_true_eq, Bool.or_eq_true, List.all_eq_true] at h
    obtain ⟨⟨hnd, hrange⟩, hcons⟩ := h
    obtain ⟨hv, hrepr, hrd, hex⟩ := parseEnum_arms hp
    simp only [hp, hs]
    have inRange : ∀ x ∈ macroDiscs e.variants Gen.WireMacro.accumInit, reprInRange e.repr.signed size x := by
      intro x hx
      have := hrange x hx
      unfold reprInRange
      cases hsg : e.repr.signed <;> simp [hsg] at this ⊢ <;> exact this
    exact {
      enc_len := by
        intro v bs hw
        simp only [enumCodecOfMeta, enumWrite] at hw
        split at hw
        · simp [illTyped] at hw
        · simp only [Outcome.ok.injEq] at hw
          subst hw
          exact ⟨leBytes_length _ _, allBytes_leBytes _ _⟩
      enc_ok := by
        intro v hv'
        simp only [enumCodecOfMeta, enumValid] at hv'
        cases v with
        | unit idx =>
          obtain ⟨d, hd, hdc⟩ := hv'
          have hi : idx < e.variants.length := by
            by_cases h' : idx < e.variants.length
            · exact h'
            · rw [List.getElem?_eq_none (by omega)] at hd; cases hd
          have hdi : e.variants[idx] = d := by
            rw [List.getElem?_eq_getElem hi] at hd; exact Option.some.inj hd
          have hx : (macroDiscs e.variants Gen.WireMacro.accumInit)[idx]? = some ((macroDiscs e.variants Gen.WireMacro.accumInit)[idx]'(by rw [macroDiscs_length]; exact hi)) :=
            List.getElem?_eq_getElem _
          obtain ⟨bs, hb, _⟩ := enum_unit_roundtrip (size := size) hp hnd idx hi (by rw [hdi]; exact hdc) _ hx
            (by
              rcases hcons with h' | h'
              · exact Or.inl h'
              · exact Or.inr (by rw [h']; exact hx))
            (inRange _ (List.getElem_mem _))
          exact ⟨bs, hb⟩
        | catchAll raw =>
          obtain ⟨hca, _, _⟩ := hv'
          have hw : enumWriteValue m (.catchAll raw) = some raw := by
            simp only [enumWriteValue, hca, if_true]
            exact matchWriteArms_catchAll raw _ (hex hca)
          exact ⟨leBytes size (raw % ((256 ^ size : Nat) : Int)).toNat, by simp [enumCodecOfMeta, enumWrite, hw]⟩
        | int _ => cases hv'
        | bool _ => cases hv'
        | dflt => cases hv'
        | seq _ => cases hv'
      dec_short := by
        intro buf hl
        have hl' : buf.length < size := hl
        simp [enumCodecOfMeta, enumRead, hl']
      dec_prefix := by
        intro buf hl
        have hl' : size ≤ buf.length := hl
        have h1 : ¬ buf.length < size := by omega
        have h2 : ¬ (buf.take size).length < size := by rw [List.length_take]; omega
        simp only [enumCodecOfMeta, enumRead, h1, h2, if_false, List.take_take, Nat.min_self]
      dec_total := by
        intro buf why hpn
        simp only [enumCodecOfMeta] at hpn
        unfold enumRead at hpn
        split at hpn
        · cases hpn
        · simp only at hpn
          split at hpn
          · cases hpn
          · split at hpn
            · cases hpn
            · split at hpn <;> cases hpn
      roundtrip := by
        intro v bs hv' hw
        simp only [enumCodecOfMeta, enumValid] at hv' hw ⊢
        cases v with
        | unit idx =>
          obtain ⟨d, hd, hdc⟩ := hv'
          have hi : idx < e.variants.length := by
            by_cases h' : idx < e.variants.length
            · exact h'
            · rw [List.getElem?_eq_none (by omega)] at hd; cases hd
          have hdi : e.variants[idx] = d := by
            rw [List.getElem?_eq_getElem hi] at hd; exact Option.some.inj hd
          have hx : (macroDiscs e.variants Gen.WireMacro.accumInit)[idx]? = some ((macroDiscs e.variants Gen.WireMacro.accumInit)[idx]'(by rw [macroDiscs_length]; exact hi)) :=
            List.getElem?_eq_getElem _
          obtain ⟨bs', hb, _, _, hrd'⟩ := enum_unit_roundtrip (size := size) hp hnd idx hi (by rw [hdi]; exact hdc) _ hx
            (by
              rcases hcons with h' | h'
              · exact Or.inl h'
              · exact Or.inr (by rw [h']; exact hx))
            (inRange _ (List.getElem_mem _))
          rw [hw] at hb
          rw [Outcome.ok.inj hb]
          exact hrd'
        | catchAll raw =>
          obtain ⟨hca, hr, hcanon⟩ := hv'
          have hwv : enumWriteValue m (.catchAll raw) = some raw := by
            simp only [enumWriteValue, hca, if_true]
            exact matchWriteArms_catchAll raw _ (hex hca)
          simp only [enumWrite, hwv, Outcome.ok.injEq] at hw
          subst hw
          have hlen : ¬ (leBytes size (raw % ((256 ^ size : Nat) : Int)).toNat).length < size := by simp [leBytes_length]
          have hraw := raw_roundtrip m.repr.signed size raw hr
          simp only at hraw
          simp only [enumRead, hlen, if_false, hraw, hcanon]
          cases hc : m.catchAll with
          | none => rw [hc] at hca; cases hca
          | some _ => rfl
        | int _ => cases hv'
        | bool _ => cases hv'
        | dflt => cases hv'
        | seq _ => cases hv' }
  · cases h

end Ec.Wire
