import EcModel.Drv.C04
def main : IO Unit := Ec.Drv.runDriver Ec.Drv.C04.handle
