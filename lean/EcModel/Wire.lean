/-
  EcModel.Wire — model of `ethercrab-wire-derive` (the program generator) and of the primitive impls in
  `ethercrab-wire/src/impls.rs`.

  Translation map (Rust -> Lean):
    ethercrab-wire/src/lib.rs      EtherCrabWireWrite::{pack_to_slice, pack_to_slice_unchecked, packed_len},
                                   EtherCrabWireRead::unpack_from_slice, EtherCrabWireWriteSized::pack
                                   -> `Codec` (len / enc / dec) + `Codec.packU` / `Codec.packToSlice` / `Codec.pack`
    ethercrab-wire/src/impls.rs    impl_primitive_wire_field!(uN/iN/fN), bool, (), [u8; N] (write), [T; N] (read), tuples
                                   -> `Codec.uN`, `Codec.iN`, `Codec.bool`, `Codec.unitTy`, `Codec.array`, `Codec.tuple`
    derive/src/help.rs             bit_width_attr -> `bitWidthAttr`
    derive/src/parse_struct.rs     parse_struct   -> `parseFields` / `parseStruct`
    derive/src/generate_struct.rs  generate_struct_write -> `writeField` / `writeFields` / `structPackU` (+ `deriveWriteOk`:
                                   the macro-time mask computation), generate_struct_read -> `readField` / `readFields` /
                                   `structRead`, generate_sized_impl -> `StructMeta.sizeBytes`
    derive/src/parse_enum.rs       parse_enum     -> `parseVariants` / `parseEnum`
    derive/src/generate_enum.rs    generate_enum_write -> `enumWrite`, generate_enum_read -> `enumRead`

  The model is the code that exists: `parseVariants` numbers implicit discriminants the way parse_enum.rs does (accumulator
  initial value, step and whether alternatives advance it are re-read from parse_enum.rs on every run: Generated/WireMacro),
  while the write side of an enum without catch-all is `*self as repr`, i.e. rustc's numbering (`rustDiscs`). Before the fix
  of parse_enum.rs (accumulator started at 0, alternatives advanced it) the two disagreed; now they agree
  (Lemmas/WireEnum `macro_numbering_is_rustc`).

  Imports only Basic and Generated/WireMacro (the macro's tables, regenerated from its source on every run); the driver
  `drv_c19` links against this file.
-/
import EcModel.Basic
import EcModel.Generated.WireMacro

namespace Ec.Wire
open Ec

/-- `ethercrab_wire::WireError`. -/
inductive WireError where
  | readBufferTooShort | writeBufferTooShort | invalidValue | arrayLength | invalidUtf8
  deriving Repr, DecidableEq

/-- Universe of Rust values that can be packed/unpacked.
    `int`: u8..u64, i8..i64 (and the bit pattern of f32/f64); `unit idx`: the `idx`-th declared variant of an enum;
    `catchAll raw`: the catch-all variant carrying `raw`; `dflt`: `Default::default()` of a `#[wire(skip)]` field;
    `seq`: struct fields in declaration order / array elements / tuple components. -/
inductive Val where
  | int (i : Int)
  | bool (b : Bool)
  | unit (idx : Nat)
  | catchAll (raw : Int)
  | dflt
  | seq (vs : List Val)
  deriving Repr

abbrev Out (α : Type) := Outcome WireError α

/-- Sequencing of outcomes (`?` on `Result`, unwinding on panic). -/
def bindO {α β : Type} (x : Out α) (f : α → Out β) : Out β :=
  match x with
  | .ok a => f a
  | .err e => .err e
  | .panic w => .panic w

/-- A value whose Rust type is not the one the codec is for. Cannot be constructed in Rust (type checker);
    the model is total, so it needs an answer. Always excluded by the `valid` hypotheses of the theorems. -/
def illTyped {α : Type} : Out α := .panic "ill-typed value"

/-! ### Little-endian bytes -/

/-- `n` little-endian bytes of `x` (`to_le_bytes` after truncation to `n` bytes). -/
def leBytes : Nat → Nat → List Nat
  | 0, _ => []
  | n + 1, x => x % 256 :: leBytes n (x / 256)

/-- Little-endian value of a byte string (`from_le_bytes`). -/
def leVal : List Nat → Nat
  | [] => 0
  | b :: bs => b + 256 * leVal bs

/-- Bit `k` of a byte string in little-endian bit order: byte `k / 8`, bit `k % 8` counted from the LSB. -/
def bitAt (buf : List Nat) (k : Nat) : Bool := (buf.getD (k / 8) 0).testBit (k % 8)

/-- `&buf[a..b]` for `a ≤ b ≤ buf.len()` (callers check). -/
def slice (buf : List Nat) (a b : Nat) : List Nat := (buf.drop a).take (b - a)

/-! ### The traits of ethercrab-wire/src/lib.rs -/

/-- One `impl EtherCrabWire{Read,Write,Sized}` triple.
    `len`  : `PACKED_LEN` / `packed_len()`.
    `enc v`: the bytes `pack_to_slice_unchecked(&v, buf)` stores into `buf[0..len]` (`panic` if the impl panics for this
             value whatever the buffer).
    `dec`  : `unpack_from_slice`.
    `valid`: which `Val`s are values of the Rust type (and, for enums, canonical: see `enumCodec`). -/
structure Codec where
  len : Nat
  enc : Val → Out (List Nat)
  dec : List Nat → Out Val
  valid : Val → Prop

/-- `pack_to_slice_unchecked(&v, dst)`: every impl first takes `dst[0..len]` (`first_chunk_mut`/`get_mut`/index, all of
    which panic or hit `unreachable!()` when `dst` is shorter), then stores the encoding there. Result: new contents of `dst`;
    the returned slice is its first `len` bytes. -/
def Codec.packU (c : Codec) (v : Val) (dst : List Nat) : Out (List Nat) :=
  if dst.length < c.len then .panic "destination shorter than packed_len"
  else bindO (c.enc v) fun bs => .ok (bs ++ dst.drop c.len)

/-- `EtherCrabWireWrite::pack_to_slice` (default method and the primitive overrides):
    `buf.get(0..self.packed_len()).ok_or(WriteBufferTooShort)?; Ok(self.pack_to_slice_unchecked(buf))`. -/
def Codec.packToSlice (c : Codec) (v : Val) (dst : List Nat) : Out (List Nat) :=
  if dst.length < c.len then .err .writeBufferTooShort else c.packU v dst

/-- `EtherCrabWireWriteSized::pack`: `let mut buf = [0u8; N]; pack_to_slice_unchecked(self, &mut buf); buf`. -/
def Codec.pack (c : Codec) (v : Val) : Out (List Nat) := c.packU v (zeros c.len)

/-! ### impls.rs -/

/-- `impl_primitive_wire_field!(uN, n)` (also f32/f64 on their bit patterns). -/
def Codec.uN (n : Nat) : Codec where
  len := n
  enc := fun v => match v with
    | .int i => .ok (leBytes n (i % (256 ^ n : Nat)).toNat)
    | _ => illTyped
  dec := fun buf =>
    if buf.length < n then .err .readBufferTooShort else .ok (.int (leVal (buf.take n)))
  valid := fun v => ∃ i : Nat, v = .int i ∧ i < 256 ^ n

/-- Two's complement reading of an `n`-byte unsigned value. -/
def toSigned (n : Nat) (u : Nat) : Int :=
  if 2 * u ≥ 256 ^ n then (u : Int) - (256 ^ n : Nat) else (u : Int)

/-- `impl_primitive_wire_field!(iN, n)`. -/
def Codec.iN (n : Nat) : Codec where
  len := n
  enc := fun v => match v with
    | .int i => .ok (leBytes n (i % (256 ^ n : Nat)).toNat)
    | _ => illTyped
  dec := fun buf =>
    if buf.length < n then .err .readBufferTooShort else .ok (.int (toSigned n (leVal (buf.take n))))
  valid := fun v => ∃ i : Int, v = .int i ∧ -(256 ^ n : Nat) ≤ 2 * i ∧ 2 * i < (256 ^ n : Nat)

/-- `impl EtherCrabWire* for bool` (stand-alone: true packs to 0xff; any non-zero byte reads as true). -/
def Codec.bool : Codec where
  len := 1
  enc := fun v => match v with
    | .bool b => .ok [if b then 255 else 0]
    | _ => illTyped
  dec := fun buf => match buf with
    | [] => .err .readBufferTooShort
    | x :: _ => .ok (.bool (decide (x > 0)))
  valid := fun v => ∃ b, v = .bool b

/-- `impl EtherCrabWire* for ()`. -/
def Codec.unitTy : Codec where
  len := 0
  enc := fun v => match v with
    | .seq [] => .ok []
    | _ => illTyped
  dec := fun _ => .ok (.seq [])
  valid := fun v => v = .seq []

/-- Decode `n` consecutive chunks of `c.len` bytes; the first failure wins (`collect::<Result<_, _>>`). -/
def decChunks (c : Codec) : Nat → List Nat → Out (List Val)
  | 0, _ => .ok []
  | n + 1, buf =>
    bindO (c.dec (buf.take c.len)) fun v =>
    bindO (decChunks c n (buf.drop c.len)) fun vs => .ok (v :: vs)

def encAll (c : Codec) : List Val → Out (List Nat)
  | [] => .ok []
  | v :: vs => bindO (c.enc v) fun b => bindO (encAll c vs) fun bs => .ok (b ++ bs)

/-- `impl<const N, T: EtherCrabWireReadSized> EtherCrabWireRead for [T; N]`:
    `buf.get(0..T::PACKED_LEN * N).ok_or(ReadBufferTooShort)?.chunks_exact(T::PACKED_LEN)…` — `chunks_exact(0)` panics.
    Write side: only `[u8; N]` has an impl in the crate (`*chunk = *self`); `enc` is that impl for `c = uN 1` and is not
    reachable for other element types (no impl, does not compile). -/
def Codec.array (c : Codec) (n : Nat) : Codec where
  len := c.len * n
  enc := fun v => match v with
    | .seq vs => if vs.length = n then encAll c vs else illTyped
    | _ => illTyped
  dec := fun buf =>
    if buf.length < c.len * n then .err .readBufferTooShort
    else if c.len = 0 then .panic "chunk size must be non-zero"
    else bindO (decChunks c n (buf.take (c.len * n))) fun vs => .ok (.seq vs)
  valid := fun v => ∃ vs, v = .seq vs ∧ vs.length = n ∧ ∀ x ∈ vs, c.valid x

/-- Tuple read, per component: `let T = T::unpack_from_slice(buf)?;
    if buf.len() > 0 { buf = buf.get(T::PACKED_LEN..).ok_or(WireError::ReadBufferTooShort)?; }`
    (before fix-c19-tuple-short the slice was `&buf[T::PACKED_LEN..]`, which panicked behind a component that had decoded
    successfully from fewer than PACKED_LEN bytes: `heapless::Vec`, `heapless::String`). -/
def decTuple : List Codec → List Nat → Out (List Val)
  | [], _ => .ok []
  | c :: cs, buf =>
    bindO (c.dec buf) fun v =>
      if buf.length > 0 ∧ c.len > buf.length then .err .readBufferTooShort
      else
        let buf' := if buf.length > 0 then buf.drop c.len else buf
        bindO (decTuple cs buf') fun vs => .ok (v :: vs)

def encTuple : List Codec → List Val → Out (List Nat)
  | [], [] => .ok []
  | c :: cs, v :: vs => bindO (c.enc v) fun b => bindO (encTuple cs vs) fun bs => .ok (b ++ bs)
  | _, _ => illTyped

def sumLen : List Codec → Nat
  | [] => 0
  | c :: cs => c.len + sumLen cs

/-- `impl_tuples!`: components packed back to back (`split_at_mut(packed_len)` panics when the buffer is short). -/
def Codec.tuple (cs : List Codec) : Codec where
  len := sumLen cs
  enc := fun v => match v with
    | .seq vs => encTuple cs vs
    | _ => illTyped
  dec := fun buf => bindO (decTuple cs buf) fun vs => .ok (.seq vs)
  valid := fun v => ∃ vs, v = .seq vs ∧ vs.length = cs.length

/-- A type the model knows nothing about (generic parameter, `heapless::String`, …): no behaviour. -/
def Codec.unknown (n : Nat) : Codec where
  len := n
  enc := fun _ => .panic "unknown type"
  dec := fun _ => .panic "unknown type"
  valid := fun _ => False

/-! ### parse_struct.rs -/

/-- First token / single-ident name of a field's type as far as the macro looks at it
    (parse_struct.rs:99-114 width table, generate_struct.rs `ty_name == "u8" || ty_name == "bool"`). -/
inductive TyTok where
  | u8 | i8 | u16 | i16 | u32 | i32 | u64 | i64 | f32 | f64 | u128 | i128 | bool | other
  deriving Repr, DecidableEq

/-- The identifier the macro compares against. -/
def TyTok.name : TyTok → String
  | .u8 => "u8" | .i8 => "i8" | .u16 => "u16" | .i16 => "i16" | .u32 => "u32" | .i32 => "i32"
  | .u64 => "u64" | .i64 => "i64" | .f32 => "f32" | .f64 => "f64" | .u128 => "u128" | .i128 => "i128"
  | .bool => "bool" | .other => ""

/-- parse_struct.rs:104-113: `bytes.map(|bytes| bytes * 8)` over the table keyed by the type's first token; the table is
    re-read from the macro source on every run (note: `f32` gets 8 bytes there). -/
def autoWidth (t : TyTok) : Option Nat :=
  (Gen.WireMacro.autoWidthBytes.lookup t.name).map (· * 8)

def TyTok.isU8OrBool : TyTok → Bool
  | .u8 | .bool => true
  | _ => false

/-- One named field with its `#[wire(...)]` attributes as written. -/
structure FieldDecl where
  ty : TyTok
  codec : Codec
  bits : Option Nat := none
  bytes : Option Nat := none
  skip : Bool := false
  preSkip : Option Nat := none
  preSkipBytes : Option Nat := none
  postSkip : Option Nat := none
  postSkipBytes : Option Nat := none

/-- A struct item with its `#[wire(bits = …)]` / `#[wire(bytes = …)]` attribute. -/
structure StructDecl where
  named : Bool := true
  bits : Option Nat := none
  bytes : Option Nat := none
  fields : List FieldDecl

/-- The `syn::Error`s parse_struct raises, by message. -/
inductive ParseError where
  | bitsAndBytes        -- "'bits' and 'bytes' attribute not allowed at the same time"
  | widthRequired       -- "Struct total bit width is required"
  | namedOnly           -- "Only structs with named fields can be derived."
  | fieldWidthRequired  -- "Field must have a width attribute"
  | multibyteAlign      -- "Multibyte fields must be byte-aligned at start and end."
  | smallCrosses        -- "Fields smaller than 8 bits may not cross byte boundaries"
  | totalWidth          -- "Total field width is {}, expected {} from struct definition"
  deriving Repr, DecidableEq

/-- help.rs `bit_width_attr`. -/
def bitWidthAttr (bits bytes : Option Nat) : Except ParseError (Option Nat) :=
  let bytes8 := bytes.map (· * 8)
  if bits.isSome && bytes8.isSome then .error .bitsAndBytes
  else .ok (bits.orElse fun _ => bytes8)

/-- parse_struct.rs `FieldMeta` (fields the generators use). -/
structure FieldMeta where
  ty : TyTok
  codec : Codec
  bitStart : Nat
  bitEnd : Nat
  byteStart : Nat
  byteEnd : Nat
  bitOffset : Nat
  skip : Bool

/-- `field.bits.len()` (`Range::len` saturates). -/
def FieldMeta.bitsLen (f : FieldMeta) : Nat := f.bitEnd - f.bitStart
/-- `field.bytes.len()`. -/
def FieldMeta.bytesLen (f : FieldMeta) : Nat := f.byteEnd - f.byteStart

/-- `pre_skip`: `usize_attr("pre_skip")?.or(usize_attr("pre_skip_bytes")?.map(|b| b * 8)).filter(|_| !skip)`, 0 if absent. -/
def FieldDecl.preSkipBits (d : FieldDecl) : Nat :=
  ((d.preSkip.orElse fun _ => d.preSkipBytes.map (· * 8)).filter fun _ => !d.skip).getD 0

/-- `post_skip`, likewise. -/
def FieldDecl.postSkipBits (d : FieldDecl) : Nat :=
  ((d.postSkip.orElse fun _ => d.postSkipBytes.map (· * 8)).filter fun _ => !d.skip).getD 0

/-- parse_struct.rs:131-164: the `FieldMeta` of a field whose bits are `bit_start..bit_end`. -/
def mkFieldMeta (d : FieldDecl) (bitStart bitEnd : Nat) : FieldMeta :=
  { ty := d.ty, codec := d.codec, bitStart := bitStart, bitEnd := bitEnd, byteStart := bitStart / 8,
    byteEnd := (bitEnd + 7) / 8, bitOffset := bitStart % 8, skip := d.skip }

/-- One iteration of the `for field in fields` loop of parse_struct (parse_struct.rs:83-197):
    `total_field_width` before -> (`FieldMeta`, `total_field_width` after). -/
def parseField (d : FieldDecl) (total : Nat) : Except ParseError (FieldMeta × Nat) :=
  match bitWidthAttr d.bits d.bytes with
  | .error e => .error e
  | .ok w0 =>
    -- if let Some(skip) = pre_skip { total_field_width += skip; }
    let total1 := total + d.preSkipBits
    -- field_width: attribute, else the table keyed by the type's first token
    match w0.orElse fun _ => autoWidth d.ty with
    | none =>
      -- bit_end = bit_start; "Field must have a width attribute" unless skipped
      if d.skip then .ok (mkFieldMeta d total1 total1, total1 + d.postSkipBits)
      else .error .fieldWidthRequired
    | some w =>
      let fm := mkFieldMeta d total1 (total1 + w)
      -- Validation if we're not skipping this field; a skipped field does not advance total_field_width
      if d.skip then .ok (fm, total1 + d.postSkipBits)
      else if fm.bytesLen > 1 ∧ (fm.bitOffset > 0 ∨ w % 8 > 0) then .error .multibyteAlign
      else if fm.bitsLen < 8 ∧ fm.bytesLen > 1 then .error .smallCrosses
      else .ok (fm, total1 + w + d.postSkipBits)

/-- The `for field in fields` loop of parse_struct; state = `total_field_width`. -/
def parseFields : List FieldDecl → Nat → Except ParseError (List FieldMeta × Nat)
  | [], total => .ok ([], total)
  | d :: rest, total =>
    match parseField d total with
    | .error e => .error e
    | .ok (fm, total') =>
      match parseFields rest total' with
      | .error e => .error e
      | .ok (ms, tot) => .ok (fm :: ms, tot)

/-- parse_struct.rs `StructMeta`. -/
structure StructMeta where
  widthBits : Nat
  fields : List FieldMeta

/-- `width_bits.div_ceil(8)`: `PACKED_LEN` of a derived struct. -/
def StructMeta.sizeBytes (m : StructMeta) : Nat := (m.widthBits + 7) / 8

/-- `parse_struct`. -/
def parseStruct (d : StructDecl) : Except ParseError StructMeta :=
  match bitWidthAttr d.bits d.bytes with
  | .error e => .error e
  | .ok none => .error .widthRequired
  | .ok (some width) =>
    if !d.named then .error .namedOnly
    else match parseFields d.fields 0 with
      | .error e => .error e
      | .ok (ms, total) =>
        if total ≠ width then .error .totalWidth
        else .ok { widthBits := width, fields := ms }

/-! ### generate_struct.rs -/

/-- `(2u16.pow(field.bits.len()) - 1) << bit_start`, computed by the macro and pasted as a `0b…` literal. -/
def FieldMeta.mask (f : FieldMeta) : Nat := (2 ^ f.bitsLen - 1) <<< f.bitOffset

/-- generate_struct_write computes the mask in `u16`: `2u16.pow(n)` overflows for `n ≥ 16`, which makes the derive fail
    (macro panic in a checked build of the macro, an out-of-range `u8` literal otherwise). Only the u8/bool and the
    single-byte branch compute a mask. `true` = the write half of the derive produces code. -/
def deriveWriteOk (m : StructMeta) : Bool :=
  m.fields.all fun f =>
    f.skip || !(f.ty.isU8OrBool || f.bytesLen == 1) || decide (f.bitsLen < 16)

/-- `self.field as u8` for a `u8` or `bool` field. -/
def asU8 : Val → Option Nat
  | .int i => some (i % 256).toNat
  | .bool b => some (if b then 1 else 0)
  | _ => none

/-- Code emitted per field by generate_struct_write (generate_struct.rs:11-61), run on the zeroed `buf`. -/
def writeField (f : FieldMeta) (v : Val) (buf : List Nat) : Out (List Nat) :=
  if f.skip then .ok buf
  else if f.ty.isU8OrBool then
    -- buf[#byte_start] |= ((self.#name as u8) << #bit_start) & #mask;
    match asU8 v with
    | none => illTyped
    | some x =>
      if f.byteStart < buf.length then
        .ok (buf.set f.byteStart (buf.getD f.byteStart 0 ||| (((x <<< f.bitOffset) % 256) &&& f.mask)))
      else .panic "index out of bounds"
  else if f.bytesLen = 1 then
    -- let mut field_buf = [0u8; 1];
    -- let res = <T>::pack_to_slice_unchecked(&self.#name, &mut field_buf)[0];
    -- buf[#byte_start] |= (res << #bit_start) & #mask;
    bindO (f.codec.packU v [0]) fun fb =>
      match fb.take f.codec.len with
      | [] => .panic "index out of bounds"
      | res :: _ =>
        if f.byteStart < buf.length then
          .ok (buf.set f.byteStart (buf.getD f.byteStart 0 ||| (((res <<< f.bitOffset) % 256) &&& f.mask)))
        else .panic "index out of bounds"
  else
    -- <T>::pack_to_slice_unchecked(&self.#name, &mut buf[#byte_start..#byte_end]);
    if f.byteStart ≤ f.byteEnd ∧ f.byteEnd ≤ buf.length then
      bindO (f.codec.packU v (slice buf f.byteStart f.byteEnd)) fun sub =>
        .ok (buf.take f.byteStart ++ sub ++ buf.drop f.byteEnd)
    else .panic "slice index out of range"

/-- `#(#fields_pack)*` -/
def writeFields : List FieldMeta → List Val → List Nat → Out (List Nat)
  | [], [], buf => .ok buf
  | f :: fs, v :: vs, buf => bindO (writeField f v buf) fun buf' => writeFields fs vs buf'
  | _, _, _ => illTyped

/-- The bytes a derived struct's `pack_to_slice_unchecked` leaves in `buf[0..size_bytes]`:
    `buf.as_mut_ptr().write_bytes(0u8, buf.len()); #(#fields_pack)*`. -/
def structEnc (m : StructMeta) (v : Val) : Out (List Nat) :=
  match v with
  | .seq vs => writeFields m.fields vs (zeros m.sizeBytes)
  | _ => illTyped

/-- Derived `pack_to_slice_unchecked` on a destination with arbitrary previous contents:
    `let buf = match buf.get_mut(0..#size_bytes) { Some(buf) => buf, None => unreachable!() };` zero; fields; `buf`. -/
def structPackU (m : StructMeta) (v : Val) (dst : List Nat) : Out (List Nat) :=
  if dst.length < m.sizeBytes then .panic "unreachable"
  else bindO (structEnc m v) fun bs => .ok (bs ++ dst.drop m.sizeBytes)

/-- Code emitted per field by generate_struct_read (generate_struct.rs:104-155); `buf` is `buf.get(0..size_bytes)`. -/
def readField (f : FieldMeta) (buf : List Nat) : Out Val :=
  if f.skip then .ok .dflt
  else if f.bitsLen ≤ 8 then
    match buf[f.byteStart]? with
    | none => .err .readBufferTooShort
    | some b =>
      let masked := (b &&& f.mask) >>> f.bitOffset
      if f.ty = .bool then .ok (.bool (decide (masked > 0)))
      else if f.ty = .u8 then .ok (.int masked)
      else f.codec.dec [masked]
  else
    if f.byteStart ≤ f.byteEnd ∧ f.byteEnd ≤ buf.length then f.codec.dec (slice buf f.byteStart f.byteEnd)
    else .err .readBufferTooShort

/-- `Ok(Self { #(#fields_unpack),* })`: initialisers run in declaration order, `?` returns the first error. -/
def readFields : List FieldMeta → List Nat → Out (List Val)
  | [], _ => .ok []
  | f :: fs, buf => bindO (readField f buf) fun v => bindO (readFields fs buf) fun vs => .ok (v :: vs)

/-- Derived `unpack_from_slice`. -/
def structRead (m : StructMeta) (buf : List Nat) : Out Val :=
  if buf.length < m.sizeBytes then .err .readBufferTooShort
  else bindO (readFields m.fields (buf.take m.sizeBytes)) fun vs => .ok (.seq vs)

/-- What a field may hold so that the generated code type-checks and the value is representable in the declared width
    (`w` bits): skipped fields hold their default; a `u8` in a field of `w ≤ 8` bits is `< 2^w`; any other type in a field
    of `≤ 8` bits packs to one byte `< 2^w`; multi-byte fields hold a valid value of their type. -/
def FieldMeta.validVal (f : FieldMeta) (v : Val) : Prop :=
  if f.skip then v = .dflt
  else if f.bitsLen ≤ 8 then
    if f.ty = .bool then ∃ b, v = .bool b
    else if f.ty = .u8 then ∃ i : Nat, v = .int i ∧ i < 2 ^ f.bitsLen
    else f.codec.valid v ∧ ∃ e, f.codec.enc v = .ok [e] ∧ e < 2 ^ f.bitsLen
  else f.codec.valid v

def validVals : List FieldMeta → List Val → Prop
  | [], [] => True
  | f :: fs, v :: vs => f.validVal v ∧ validVals fs vs
  | _, _ => False

/-- The codec of a derived struct (dummy if the derive is rejected). -/
def structCodecOfMeta (m : StructMeta) : Codec where
  len := m.sizeBytes
  enc := structEnc m
  dec := structRead m
  valid := fun v => ∃ vs, v = .seq vs ∧ validVals m.fields vs

def structCodec (d : StructDecl) : Codec :=
  match parseStruct d with
  | .ok m => structCodecOfMeta m
  | .error _ => Codec.unknown 0

/-! ### parse_enum.rs -/

inductive ReprTy where
  | u8 | i8 | u16 | i16 | u32 | i32 | u64 | i64 | u128 | i128 | usize | isize | missing
  deriving Repr, DecidableEq

def ReprTy.name : ReprTy → String
  | .u8 => "u8" | .i8 => "i8" | .u16 => "u16" | .i16 => "i16" | .u32 => "u32" | .i32 => "i32"
  | .u64 => "u64" | .i64 => "i64" | .u128 => "u128" | .i128 => "i128" | .usize => "usize" | .isize => "isize"
  | .missing => ""

/-- generate_enum.rs `size_bytes` (`unreachable!("Invalid repr")` otherwise: the macro panics); table re-read from the
    macro source on every run. -/
def ReprTy.size (r : ReprTy) : Option Nat := Gen.WireMacro.reprSizes.lookup r.name

def ReprTy.signed : ReprTy → Bool
  | .i8 | .i16 | .i32 | .i64 | .i128 | .isize => true
  | _ => false

/-- One variant as written: `Name [= disc]`, `#[wire(alternatives = [..])]`, `#[wire(catch_all)]`, `#[default]`. -/
structure VariantDecl where
  disc : Option Int := none
  alternatives : List Int := []
  catchAll : Bool := false
  default : Bool := false
  deriving Repr

structure EnumDecl where
  repr : ReprTy
  variants : List VariantDecl
  deriving Repr

inductive EnumParseError where
  | noRepr                 -- "Enums must have a #[repr()] attribute"
  | usizeRepr              -- "usize and isize may not be used as enum repr…"
  | catchAllAlternatives   -- "Catch all cannot have alternatives"
  | twoCatchAll            -- "Only one catch all variant is allowed"
  | twoDefault             -- "Only one default variant is allowed"
  | altNotNumber           -- "Alternatives must be numbers" (help.rs variant_alternatives: only `Lit::Int` elements, so `-1` is refused)
  deriving Repr, DecidableEq

/-- parse_enum.rs `VariantMeta`; `name` = index of the declaring variant (alternatives share it). -/
structure VariantMeta where
  name : Nat
  discriminant : Int
  catchAll : Bool
  deriving Repr, DecidableEq

/-- parse_enum.rs `EnumMeta`, plus `rustDiscs`: the discriminants *rustc* assigns to the declared variants
    (explicit value, else previous + 1, first 0) — what `*self as repr` evaluates to. Not macro data. -/
structure EnumMeta where
  repr : ReprTy
  variants : List VariantMeta
  catchAll : Option Nat
  default : Option Nat
  rustDiscs : List Int
  deriving Repr

/-- `variant_discriminant` (parse_enum.rs:58-93): the literal (possibly negated) if written, else `discriminant_accum + 1`. -/
def variantDiscriminant (disc : Option Int) (accum : Int) : Int :=
  match disc with
  | some d => d
  | none => accum + Gen.WireMacro.implicitStep

/-- `discriminant_accum` after a variant: `= variant_discriminant`, then (parse_enum.rs:141-153, if that assignment
    exists) `= alternative` for each alternative in turn. -/
def accumAfter (v : VariantDecl) (disc : Int) : Int :=
  if Gen.WireMacro.alternativesAdvance then (v.alternatives.getLast?).getD disc else disc

/-- The `for variant in e.variants` loop (parse_enum.rs:53-154).
    State: index of the variant, `discriminant_accum`, `catch_all`, `default_variant`. -/
def parseVariants : List VariantDecl → Nat → Int → Option Nat → Option Nat →
    Except EnumParseError (List VariantMeta × Option Nat × Option Nat)
  | [], _, _, ca, df => .ok ([], ca, df)
  | v :: rest, idx, accum, ca, df =>
    let disc : Int := variantDiscriminant v.disc accum
    -- `variant_alternatives(&variant.attrs)?` runs first: every element must be an integer literal; `-n` is a unary expression
    if v.alternatives.any (· < 0) then .error .altNotNumber
    else if v.catchAll ∧ v.alternatives ≠ [] then .error .catchAllAlternatives
    else if v.catchAll ∧ ca.isSome then .error .twoCatchAll
    else if v.default ∧ df.isSome then .error .twoDefault
    else
      let ca' := if v.catchAll then some idx else ca
      let df' := if v.default then some idx else df
      let record : VariantMeta := { name := idx, discriminant := disc, catchAll := v.catchAll }
      let alts : List VariantMeta :=
        v.alternatives.map fun a => { name := idx, discriminant := a, catchAll := false }
      let accum' := accumAfter v disc
      match parseVariants rest (idx + 1) accum' ca' df' with
      | .error e => .error e
      | .ok (ms, ca'', df'') => .ok (record :: alts ++ ms, ca'', df'')

/-- rustc's discriminant assignment for the declared variants. -/
def rustDiscsFrom : List VariantDecl → Int → List Int
  | [], _ => []
  | v :: rest, next =>
    let d := v.disc.getD next
    d :: rustDiscsFrom rest (d + 1)

/-- `parse_enum`. -/
def parseEnum (e : EnumDecl) : Except EnumParseError EnumMeta :=
  if e.repr = .missing then .error .noRepr
  else if e.repr = .usize ∨ e.repr = .isize then .error .usizeRepr
  else match parseVariants e.variants 0 Gen.WireMacro.accumInit none none with
    | .error err => .error err
    | .ok (ms, ca, df) =>
      .ok { repr := e.repr, variants := ms, catchAll := ca, default := df,
            rustDiscs := rustDiscsFrom e.variants 0 }

/-! ### generate_enum.rs -/

/-- The `match self { … }` of generate_enum_write when a catch-all exists: arms in `parsed.variants` order
    (alternatives included: they repeat the variant's pattern and are unreachable), first matching arm wins. -/
def matchWriteArms : List VariantMeta → Val → Option Int
  | [], _ => none
  | a :: rest, v =>
    match a.catchAll, v with
    | true, .catchAll raw => some raw
    | false, .unit idx => if idx = a.name then some a.discriminant else matchWriteArms rest v
    | _, _ => matchWriteArms rest v

/-- Value of type `repr` stored by generate_enum_write. -/
def enumWriteValue (m : EnumMeta) (v : Val) : Option Int :=
  if m.catchAll.isSome then matchWriteArms m.variants v
  else match v with
    | .unit idx => m.rustDiscs[idx]?      -- `*self as #repr_type`
    | _ => none

/-- Derived enum `pack_to_slice_unchecked` payload: `value.to_le_bytes()`. -/
def enumWrite (m : EnumMeta) (size : Nat) (v : Val) : Out (List Nat) :=
  match enumWriteValue m v with
  | none => illTyped
  | some d => .ok (leBytes size (d % (256 ^ size : Nat)).toNat)

/-- The `match raw { #(#result_match_arms),* … }` arms: every non-catch-all entry of `parsed.variants` in order. -/
def matchReadArms : List VariantMeta → Int → Option Nat
  | [], _ => none
  | a :: rest, raw =>
    if !a.catchAll ∧ a.discriminant = raw then some a.name else matchReadArms rest raw

/-- Derived enum `unpack_from_slice` (generate_enum.rs:98-150 and 238-248). -/
def enumRead (m : EnumMeta) (size : Nat) (buf : List Nat) : Out Val :=
  if buf.length < size then .err .readBufferTooShort
  else
    let u := leVal (buf.take size)
    let raw : Int := if m.repr.signed then toSigned size u else (u : Int)
    match matchReadArms m.variants raw with
    | some name => .ok (.unit name)
    | none =>
      match m.catchAll with
      | some _ => .ok (.catchAll raw)
      | none =>
        match m.default with
        | some d => .ok (.unit d)
        | none => .err .invalidValue

/-- `x` is a value of the repr type (`size` bytes, signed or not). -/
def reprInRange (signed : Bool) (size : Nat) (x : Int) : Prop :=
  if signed then -((256 ^ size : Nat) : Int) ≤ 2 * x ∧ 2 * x < ((256 ^ size : Nat) : Int)
  else 0 ≤ x ∧ x < ((256 ^ size : Nat) : Int)

/-- Values of a derived enum: a declared unit variant, or the catch-all variant carrying a `repr` value that is not one
    of the declared discriminants/alternatives (such a payload reads back as the declared variant: not canonical). -/
def enumValid (e : EnumDecl) (m : EnumMeta) (size : Nat) (v : Val) : Prop :=
  match v with
  | .unit idx => ∃ d, e.variants[idx]? = some d ∧ d.catchAll = false
  | .catchAll raw =>
    m.catchAll.isSome ∧ reprInRange m.repr.signed size raw ∧ matchReadArms m.variants raw = none
  | _ => False

def enumCodecOfMeta (e : EnumDecl) (m : EnumMeta) (size : Nat) : Codec where
  len := size
  enc := enumWrite m size
  dec := enumRead m size
  valid := enumValid e m size

/-- The codec of a derived enum (dummy if the derive is rejected or the macro panics on the repr). -/
def enumCodec (e : EnumDecl) : Codec :=
  match parseEnum e, e.repr.size with
  | .ok m, some size => enumCodecOfMeta e m size
  | _, _ => Codec.unknown 0

end Ec.Wire
