/-
  EcModel.Dc — C17: topology reconstruction and propagation delays.

  Hand translation, line by line, of
    src/subdevice/ports.rs   `Ports::{new, set_receive_times, open_ports, active_ports, entry_port,
                              last_port, has_free_downstream_port, next_assignable_port, assign_next_downstream_port,
                              port_assigned_to, topology, is_last_port, total_propagation_time,
                              intermediate_propagation_time_to, propagation_time_to}`, `Topology`
    src/subdevice/mod.rs     `SubDevice::is_child_of`
    src/dc.rs                `find_subdevice_parent`, `configure_subdevice_offsets`,
                             `assign_parent_relationships`, `write_dc_parameters`, `configure_dc`
                             (`latch_dc_times` as the function `latch` of the values read).

  Conventions
  * `Ports` is the Rust `[Port; 4]` in ARRAY order; array slot `i` carries EtherCAT port number
    `Gen.Dc.portNumbers[i]` (0, 3, 1, 2). `Port::index()` maps a number back to its slot and has an
    `unreachable!` arm; `number` is written only by `Ports::new` (checked by the T1 extractor), so
    the model identifies a port with its slot; `portIndex?`/`portNumber` below are the two maps and
    Props/C17 `port_index_total` shows the `unreachable!` arm is dead.
  * Every `unwrap_opt!`, `unreachable!` and unchecked arithmetic is an explicit `Outcome.panic`
    branch. `u32` arithmetic of the delay code is saturating in the source (kept), except the
    `.sum::<u32>()` of `intermediate_propagation_time_to` (unchecked: goes through `Mode`) and the
    `i64` offset of `write_dc_parameters` (`wrapping_sub` since fix 9a668b37).
  * Logging: the harness builds the crate without the `log`/`defmt` features, where
    `fmt::debug!(..)` expands to `let _ = (&arg, ..)`, i.e. the ARGUMENTS ARE EVALUATED. This makes
    `debug_print_ports` call `subdevice.ports.topology()` (which can panic) — modelled. With the
    `log` feature and debug logging filtered out those calls disappear (see Props/C17 notes).
-/
import EcModel.Basic
import EcModel.Generated.Dc

namespace Ec.Dc
open Ec

def U32_MAX : Nat := 4294967295
def U32 : Nat := 4294967296
def U64 : Nat := 18446744073709551616

inductive Err where
  | topology     -- Error::Topology
  | internal     -- Error::Internal (`rest.first_mut().ok_or(..)`: unreachable)
  deriving Repr, DecidableEq

/-- `ports::Port` without its `number` (see the header). -/
structure Port where
  active : Bool
  time : Nat                      -- dc_receive_time : u32
  downstream : Option Nat := none -- downstream_to : Option<NonZeroU16>
  deriving Repr, DecidableEq

/-- `ports::Ports`, array order. -/
structure Ports where
  a0 : Port
  a1 : Port
  a2 : Port
  a3 : Port
  deriving Repr, DecidableEq

/-- EtherCAT port number of array slot `i` (`Ports::new`). -/
def portNumber (i : Nat) : Nat := Gen.Dc.portNumbers.getD i 0

/-- `Port::index()`: `none` is the `unreachable!("Invalid port number")` arm. -/
def portIndex? (number : Nat) : Option Nat :=
  (Gen.Dc.portIndexArms.find? (fun a => a.1 == number)).map (·.2)

/-- `Ports::new(active0, active3, active1, active2)` followed by
    `set_receive_times(time_p0, time_p3, time_p1, time_p2)`; arguments here BY PORT NUMBER. -/
def Ports.ofNumbered (act0 act1 act2 act3 : Bool) (t0 t1 t2 t3 : Nat) : Ports :=
  ⟨⟨act0, t0, none⟩, ⟨act3, t3, none⟩, ⟨act1, t1, none⟩, ⟨act2, t2, none⟩⟩

def Ports.toList (p : Ports) : List Port := [p.a0, p.a1, p.a2, p.a3]

def Ports.indexed (p : Ports) : List (Nat × Port) := [(0, p.a0), (1, p.a1), (2, p.a2), (3, p.a3)]

/-- `active_ports()` (with the array slot of each). -/
def Ports.activePorts (p : Ports) : List (Nat × Port) := p.indexed.filter (fun q => q.2.active)

/-- `open_ports()` -/
def Ports.openPorts (p : Ports) : Nat := p.activePorts.length

inductive Topology where
  | passthrough | lineEnd | fork | cross
  deriving Repr, DecidableEq

def Topology.isJunction : Topology → Bool
  | .fork => true
  | .cross => true
  | _ => false

/-- `Ports::topology()`; the last arm is `unreachable!("Invalid topology {}", n)`. -/
def Ports.topology (p : Ports) : Outcome Err Topology :=
  match p.openPorts with
  | 1 => .ok .lineEnd
  | 2 => .ok .passthrough
  | 3 => .ok .fork
  | 4 => .ok .cross
  | _ => .panic "Invalid topology"

/-- `Iterator::min_by_key(|port| port.dc_receive_time)`: of several equal minima the FIRST. -/
def minByTime : List (Nat × Port) → Option (Nat × Port)
  | [] => none
  | x :: xs =>
    match minByTime xs with
    | none => some x
    | some y => if y.2.time < x.2.time then some y else some x

/-- `Ports::entry_port()`: `unwrap_opt!` of the active port with the smallest receive time. -/
def Ports.entryPort (p : Ports) : Outcome Err (Nat × Port) :=
  match minByTime p.activePorts with
  | some e => .ok e
  | none => .panic "unwrap of `self.active_ports().min_by_key(..)` failed"

/-- `Ports::last_port()` (slot). -/
def Ports.lastPort (p : Ports) : Option Nat := p.activePorts.getLast?.map (·.1)

/-- `iter.cycle().skip(skip).take(n)` -/
def cycleSkipTake {α : Type} (l : List α) (skip n : Nat) : List α :=
  if l.length = 0 then [] else (List.range n).filterMap (fun j => l[(skip + j) % l.length]?)

/-- `Ports::has_free_downstream_port()` (fix ce264667):
    `self.active_ports().filter(|port| port.downstream_to.is_none()).count() > 1` — the entry port is
    never assigned, so a further open port must be unassigned. -/
def Ports.hasFreeDownstream (p : Ports) : Bool :=
  decide ((p.activePorts.filter (fun q => q.2.downstream.isNone)).length > 1)

/-- `Ports::next_assignable_port(this_port)`: slot of the first active port after `this_port` (in
    the cyclic order of the ACTIVE ports, starting `this_port.index() + 1` positions in) that has no
    downstream device yet. -/
def Ports.nextAssignable (p : Ports) (thisIdx : Nat) : Option Nat :=
  ((cycleSkipTake p.activePorts (thisIdx + 1) 4).find? (fun q => q.2.downstream.isNone)).map (·.1)

def Ports.setDownstream (p : Ports) (i : Nat) (v : Option Nat) : Ports :=
  match i with
  | 0 => { p with a0 := { p.a0 with downstream := v } }
  | 1 => { p with a1 := { p.a1 with downstream := v } }
  | 2 => { p with a2 := { p.a2 with downstream := v } }
  | 3 => { p with a3 := { p.a3 with downstream := v } }
  | _ => p

/-- `Ports::assign_next_downstream_port(idx)`: `ok none` = `None` ("no free port"),
    `ok (some (ports', slot))` = assigned. -/
def Ports.assignNext (p : Ports) (idx : Nat) : Outcome Err (Option (Ports × Nat)) :=
  match p.entryPort with
  | .panic w => .panic w
  | .err e => .err e
  | .ok e =>
    match p.nextAssignable e.1 with
    | none => .ok none
    | some i => .ok (some (p.setDownstream i (some idx), i))

/-- `Ports::port_assigned_to(subdevice)` (slot). -/
def Ports.assignedTo (p : Ports) (sdIndex : Nat) : Option Nat :=
  (p.activePorts.find? (fun q => q.2.downstream == some sdIndex)).map (·.1)

/-- `Ports::is_last_port(port)` for the port in slot `i`. -/
def Ports.isLastPort (p : Ports) (i : Nat) : Bool := p.lastPort == some i

/-- `max.saturating_sub(min)` of a non-empty list of times, filtered `> 0`. -/
def spanOf : List Nat → Option Nat
  | [] => none
  | t :: ts =>
    let mx := ts.foldl Nat.max t
    let mn := ts.foldl Nat.min t
    if mx - mn > 0 then some (mx - mn) else none

/-- `Ports::total_propagation_time()` -/
def Ports.totalPropTime (p : Ports) : Option Nat :=
  spanOf ((p.toList.filter (fun q => q.active)).map (·.time))

/-- `u32` addition inside `Iterator::sum` (inherits the crate's overflow checks). -/
def addU32 (m : Mode) (a b : Nat) : Outcome Err Nat :=
  if a + b < U32 then .ok (a + b)
  else match m with
    | .checked => .panic "attempt to add with overflow"
    | .wrapping => .ok ((a + b) % U32)

def sumU32 (m : Mode) : List Nat → Nat → Outcome Err Nat
  | [], acc => .ok acc
  | x :: xs, acc =>
    match addU32 m acc x with
    | .ok s => sumU32 m xs s
    | .err e => .err e
    | .panic w => .panic w

/-- `Ports::intermediate_propagation_time_to(port)` for the port in slot `idx`. -/
def Ports.intermediate (m : Mode) (p : Ports) (idx : Nat) : Outcome Err Nat :=
  let w (a b : Port) (ai : Nat) : Nat :=
    if ai ≥ idx then 0
    else if a.active && b.active then b.time - a.time   -- saturating_sub
    else 0
  sumU32 m [w p.a0 p.a1 0, w p.a1 p.a2 1, w p.a2 p.a3 2] 0

/-- `Ports::propagation_time_to(this_port)` for the port in slot `idx`. -/
def Ports.propTimeTo (p : Ports) (idx : Nat) : Outcome Err (Option Nat) :=
  match p.entryPort with
  | .panic w => .panic w
  | .err e => .err e
  | .ok e =>
    .ok (spanOf (((p.activePorts.filter (fun q => e.1 ≤ q.1 && q.1 ≤ idx))).map (·.2.time)))

/-- The fields of `SubDevice` the DC code reads or writes. -/
structure Dev where
  index : Nat
  ports : Ports
  dc : Bool                        -- dc_support().any()
  rxTime : Nat                     -- dc_receive_time : u64
  parent : Option Nat := none      -- parent_index
  delay : Nat := 0                 -- propagation_delay : u32
  deriving Repr, DecidableEq

/-- `SubDevice::is_child_of(parent)` for the SubDevice with index `sdIndex`. -/
def isChildOf (sdIndex : Nat) (parent : Dev) : Outcome Err Bool :=
  match parent.ports.topology with
  | .panic w => .panic w
  | .err e => .err e
  | .ok t =>
    let attachedToLast := match parent.ports.assignedTo sdIndex with
      | some i => parent.ports.isLastPort i
      | none => false
    .ok (t.isJunction && !attachedToLast)

/-- `parents_it.find(|sd| sd.ports.topology().is_junction() && sd.ports.has_free_downstream_port())`
    on the reversed remainder (`&&` short-circuits: `topology()` is evaluated first). Before fix
    ce264667 the closure was `topology().is_junction()` alone: the nearest earlier junction was taken
    even when all its downstream ports were assigned. -/
def findJunction : List Dev → Outcome Err Nat
  | [] => .err .topology
  | d :: rest =>
    match d.ports.topology with
    | .panic w => .panic w
    | .err e => .err e
    | .ok t => if t.isJunction && d.ports.hasFreeDownstream then .ok d.index else findJunction rest

/-- `find_subdevice_parent(parents, subdevice)` -/
def findParent (parents : List Dev) : Outcome Err (Option Nat) :=
  match parents.reverse with
  | [] => .ok none
  | p :: rest =>
    match p.ports.topology with
    | .panic w => .panic w
    | .err e => .err e
    | .ok .lineEnd =>
      match findJunction rest with
      | .ok i => .ok (some i)
      | .err e => .err e
      | .panic w => .panic w
    | .ok _ => .ok (some p.index)

/-- Replace the first element satisfying `f`. -/
def replaceFirst (f : Dev → Bool) (new : Dev) : List Dev → List Dev
  | [] => []
  | d :: ds => if f d then new :: ds else d :: replaceFirst f new ds

/-- The `if let Some(parent_idx) = subdevice.parent_index { .. }` block of
    `assign_parent_relationships`: returns the updated `parents`. -/
def assignOnParent (parents : List Dev) (parentIdx sdIndex : Nat) : Outcome Err (List Dev) :=
  match parents.find? (fun p => p.index == parentIdx) with
  | none => .panic "unwrap of `parents.iter_mut().find(..)` failed"
  | some parent =>
    -- `NonZeroU16::new(subdevice.index).and_then(|index| parent.ports.assign_next_downstream_port(index))
    --    .ok_or_else(|| Error::Topology)?`   (was `unwrap_opt!(.., "no free ports on parent")` before fix d65c78d2)
    if sdIndex = 0 then .err .topology
    else
      match parent.ports.assignNext sdIndex with
      | .panic w => .panic w
      | .err e => .err e
      | .ok none => .err .topology
      | .ok (some (ports', _)) =>
        .ok (replaceFirst (fun p => p.index == parentIdx) { parent with ports := ports' } parents)

/-- `configure_subdevice_offsets(subdevice, parents, delay_accum)` → `(subdevice', delay_accum')`. -/
def configureOffsets (m : Mode) (sd : Dev) (parents : List Dev) (accum : Nat) : Outcome Err (Dev × Nat) :=
  -- `debug_print_ports(subdevice)`: `subdevice.ports.topology()` is an evaluated log argument
  match sd.ports.topology with
  | .panic w => .panic w
  | .err e => .err e
  | .ok _ =>
  match sd.parent.bind (fun pi => parents.find? (fun p => p.index == pi)) with
  | none => .ok (sd, accum)
  | some parent =>
  match parent.ports.assignedTo sd.index with
  | none => .panic "Parent assigned port"
  | some pp =>
  -- `let this_port = subdevice.ports.entry_port();`
  match sd.ports.entryPort with
  | .panic w => .panic w
  | .err e => .err e
  | .ok _ =>
  -- log arguments `parent.ports.topology()`, `subdevice.is_child_of(parent)`, then the `match`
  match parent.ports.topology with
  | .panic w => .panic w
  | .err e => .err e
  | .ok ptopo =>
  match isChildOf sd.index parent with
  | .panic w => .panic w
  | .err e => .err e
  | .ok child =>
    let parentProp := parent.ports.totalPropTime.getD 0
    let thisProp := sd.ports.totalPropTime.getD 0
    let parentDelta := parentProp - thisProp
    let pd : Outcome Err Nat :=
      match ptopo with
      | .passthrough => .ok (parentDelta / 2)
      | .fork =>
        if child then
          match parent.ports.propTimeTo pp with
          | .ok t => .ok ((t.getD 0 - thisProp) / 2)
          | .err e => .err e
          | .panic w => .panic w
        else .ok (parentDelta / 2)
      | .cross =>
        if child then
          match parent.ports.intermediate m pp with
          | .ok t => .ok ((t - thisProp) / 2)
          | .err e => .err e
          | .panic w => .panic w
        else .ok (parentProp - accum)
      | .lineEnd => .ok 0
    match pd with
    | .panic w => .panic w
    | .err e => .err e
    | .ok d =>
      let accum' := Nat.min (accum + d) U32_MAX     -- saturating_add
      .ok ({ sd with delay := accum' }, accum')

/-- `if let Some(parent_idx) = subdevice.parent_index { .. }` (nothing to do for the first device). -/
def assignStep (parents : List Dev) (pidx : Option Nat) (sdIndex : Nat) : Outcome Err (List Dev) :=
  match pidx with
  | some pi => assignOnParent parents pi sdIndex
  | none => .ok parents

/-- The `for i in 0..subdevices.len()` loop of `assign_parent_relationships`: `parents` =
    `subdevices[..i]` (already processed), `rest` = `subdevices[i..]`. -/
def assignLoop (m : Mode) : List Dev → Nat → List Dev → Outcome Err (List Dev)
  | parents, _, [] => .ok parents
  | parents, accum, sd :: rest =>
    match findParent parents with
    | .panic w => .panic w
    | .err e => .err e
    | .ok pidx =>
      let sd := { sd with parent := pidx }
      match assignStep parents pidx sd.index with
      | .panic w => .panic w
      | .err e => .err e
      | .ok parents' =>
        if sd.dc then
          match configureOffsets m sd parents' accum with
          | .panic w => .panic w
          | .err e => .err e
          | .ok (sd', accum') => assignLoop m (parents' ++ [sd']) accum' rest
        else assignLoop m (parents' ++ [sd]) accum rest

/-- `assign_parent_relationships(subdevices)`: a DL status without any open port is rejected up
    front (`subdevices.iter().any(|sd| sd.ports.open_ports() == 0)` → `Err(Error::Topology)`, fix
    d65c78d2), so `Ports::topology()`'s `unreachable!` and `entry_port()`'s unwrap stay unreachable. -/
def assignParentRelationships (m : Mode) (devs : List Dev) : Outcome Err (List Dev) :=
  if devs.any (fun d => d.ports.openPorts == 0) then .err .topology
  else assignLoop m [] 0 devs

/-- What the MainDevice learns about one device: DL status (by port NUMBER), `dc_support().any()`,
    and — for DC devices only — the latched registers 0x0900.. (by port NUMBER) and 0x0918. -/
structure Report where
  addr : Nat
  act0 : Bool
  act1 : Bool
  act2 : Bool
  act3 : Bool
  dc : Bool
  t0 : Nat
  t1 : Nat
  t2 : Nat
  t3 : Nat
  rx : Nat
  deriving Repr, DecidableEq

def Report.openCount (r : Report) : Nat :=
  r.act0.toNat + r.act1.toNat + r.act2.toNat + r.act3.toNat

/-- `SubDevice::new` (ports from the DL status, index = discovery position) with ALL receive times
    stored: the state `assign_parent_relationships` sees when times were set for every device
    (hook `verif::dc::assign_parent_relationships`). -/
def devOfReport (i : Nat) (r : Report) : Dev :=
  ⟨i, Ports.ofNumbered r.act0 r.act1 r.act2 r.act3 r.t0 r.t1 r.t2 r.t3, r.dc, r.rx, none, 0⟩

/-- `latch_dc_times`: only devices with DC support are read; the others keep the zeroes of
    `Ports::new` / `SubDevice::new`. -/
def latchOne (i : Nat) (r : Report) : Dev :=
  if r.dc then devOfReport i r
  else ⟨i, Ports.ofNumbered r.act0 r.act1 r.act2 r.act3 0 0 0 0, false, 0, none, 0⟩

def mkDevsFrom (f : Nat → Report → Dev) : Nat → List Report → List Dev
  | _, [] => []
  | i, r :: rs => f i r :: mkDevsFrom f (i + 1) rs

def mkDevs (rs : List Report) : List Dev := mkDevsFrom devOfReport 0 rs
def latch (rs : List Report) : List Dev := mkDevsFrom latchOne 0 rs

/-- `x as i64` for a `u64`. -/
def toI64 (x : Nat) : Int := if x < 9223372036854775808 then (x : Int) else (x : Int) - 18446744073709551616

/-- `(now_nanos as i64).wrapping_sub(subdevice.dc_receive_time as i64)`, returned as the `u64` with
    the same bit pattern (what `send(maindevice, system_time_offset)` puts on the wire, little
    endian). Wrapping by construction since fix 9a668b37 (before: unchecked `-(rx as i64) + now as
    i64`, which panicked in checked builds); the build mode no longer matters. -/
def offsetI64 (_m : Mode) (rx now : Nat) : Outcome Err Nat :=
  .ok ((toI64 now - toI64 rx) % 18446744073709551616).toNat

/-- One register write (FPWR to `addr`), payload little endian. -/
structure Write where
  addr : Nat
  reg : Nat
  data : List Nat
  deriving Repr, DecidableEq

/-- The `for subdevice in subdevices.iter().filter(dc)` loop of `configure_dc` calling
    `write_dc_parameters`: writes that reached the wire, and how the loop ended. -/
def writeLoop (m : Mode) (now : Nat) (addrs : List Nat) : List Dev → List Write × Outcome Err Unit
  | [] => ([], .ok ())
  | d :: ds =>
    if d.dc then
      match offsetI64 m d.rxTime now with
      | .panic w => ([], .panic w)
      | .err e => ([], .err e)
      | .ok off =>
        let a := addrs.getD d.index 0
        let r := writeLoop m now addrs ds
        ([⟨a, Gen.Dc.REG_DcSystemTimeOffset, le64 off⟩,
          ⟨a, Gen.Dc.REG_DcSystemTimeTransmissionDelay, le32 d.delay⟩] ++ r.1, r.2)
    else writeLoop m now addrs ds

/-- `configure_dc` after the latch: parents/delays, reference = the first device with DC support
    (its position), offset and delay writes. -/
def configureDc (m : Mode) (now : Nat) (rs : List Report) :
    List Write × Outcome Err (Option Nat × List Dev) :=
  match assignParentRelationships m (latch rs) with
  | .panic w => ([], .panic w)
  | .err e => ([], .err e)
  | .ok devs =>
    let first := (devs.find? (fun d => d.dc)).map (·.index)
    match first with
    | none => ([], .ok (none, devs))
    | some _ =>
      match writeLoop m now (rs.map (·.addr)) devs with
      | (w, .ok ()) => (w, .ok (first, devs))
      | (w, .err e) => (w, .err e)
      | (w, .panic s) => (w, .panic s)

end Ec.Dc
