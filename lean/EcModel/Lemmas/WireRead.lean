/-
  Derived structs (C19), read side: the generated `unpack_from_slice` reads exactly the declared bits.
-/
import EcModel.Lemmas.WireStruct

namespace Ec.Wire
open Ec

theorem extractBits_length (buf : List Nat) (s w : Nat) : (extractBits buf s w).length = (w + 7) / 8 :=
  leBytes_length _ _

theorem allBytes_extractBits (buf : List Nat) (s w : Nat) : AllBytes (extractBits buf s w) :=
  allBytes_leBytes _ _

/-- `extractBits buf s w` holds bit `s + j` of `buf` at position `j < w`, zeros above. -/
theorem extractBits_bits {buf : List Nat} (hb : AllBytes buf) (s w j : Nat) :
    bitAt (extractBits buf s w) j = (decide (j < w) && bitAt buf (s + j)) := by
  rw [extractBits, bitAt_leBytes, Nat.testBit_mod_two_pow, Nat.testBit_div_two_pow, testBit_leVal hb]
  by_cases h : j < w
  · have : j < 8 * ((w + 7) / 8) := by omega
    simp [h, this, Nat.add_comm]
  · simp [h]

/-- Only the declared bits matter. -/
theorem extractBits_congr {b1 b2 : List Nat} (h1 : AllBytes b1) (h2 : AllBytes b2) (s w : Nat)
    (h : ∀ k, s ≤ k → k < s + w → bitAt b1 k = bitAt b2 k) : extractBits b1 s w = extractBits b2 s w := by
  apply bytes_ext (by simp [extractBits_length]) (allBytes_extractBits _ _ _) (allBytes_extractBits _ _ _)
  intro j
  rw [extractBits_bits h1, extractBits_bits h2]
  by_cases hj : j < w
  · simp [hj, h (s + j) (by omega) (by omega)]
  · simp [hj]

theorem extractBits_take {buf : List Nat} (hb : AllBytes buf) (n s w : Nat) (h : s + w ≤ 8 * n) :
    extractBits (buf.take n) s w = extractBits buf s w := by
  apply extractBits_congr (allBytes_take _ hb) hb
  intro k _ h2
  have : k < 8 * n := by omega
  simp [bitAt_take, this]

/-- generate_struct_read, one field: the value is decoded from bits `[bit_start, bit_end)`. -/
theorem readField_spec {f : FieldMeta} {buf : List Nat}
    (hns : f.skip = false) (hsh : f.Shaped) (hpos : 0 < f.bitsLen) (hend : f.bitEnd ≤ 8 * buf.length)
    (hb : AllBytes buf) :
    readField f buf = decodeField f (extractBits buf f.bitStart f.bitsLen) := by
  unfold readField decodeField
  simp only [hns, Bool.false_eq_true, if_false]
  by_cases hs : f.bitsLen ≤ 8
  · obtain ⟨e1, e2, e3, _⟩ := hsh.small_facts hpos hs
    have hlen : f.byteStart < buf.length := by omega
    simp only [hs, if_true, List.getElem?_eq_getElem hlen]
    have hbyte : buf[f.byteStart] < 256 := hb _ (List.getElem_mem hlen)
    have key : extractBits buf f.bitStart f.bitsLen = [(buf[f.byteStart] &&& f.mask) >>> f.bitOffset] := by
      apply bytes_ext
      · rw [extractBits_length]; simp; omega
      · exact allBytes_extractBits _ _ _
      · rw [allBytes_cons]; exact ⟨read_lt_256 _ _ _ hbyte, allBytes_nil⟩
      · intro j
        rw [extractBits_bits hb]
        by_cases hj : j < 8
        · rw [bitAt_singleton _ _ hj, FieldMeta.mask, tb_read]
          by_cases hw : j < f.bitsLen
          · have a1 : (f.bitStart + j) / 8 = f.byteStart := by omega
            have a2 : (f.bitStart + j) % 8 = f.bitOffset + j := by omega
            simp [hw, bitAt, a1, a2, List.getD_eq_getElem?_getD, List.getElem?_eq_getElem hlen]
          · simp [hw]
        · have : ¬ j < f.bitsLen := by omega
          have h0 : bitAt [(buf[f.byteStart] &&& f.mask) >>> f.bitOffset] j = false :=
            bitAt_of_length_le (by simp only [List.length_singleton]; omega)
          simp [this, h0]
    rw [key]
    simp
  · have hbig : 8 < f.bitsLen := by omega
    obtain ⟨e1, e2, e3, _, _, e6⟩ := hsh.big_facts hbig
    have hr : f.byteStart ≤ f.byteEnd ∧ f.byteEnd ≤ buf.length := by omega
    simp only [hs, if_false, hr, and_self, if_true]
    congr 1
    apply bytes_ext
    · rw [extractBits_length, slice_length hr.2]; omega
    · exact allBytes_take _ (allBytes_drop _ hb)
    · exact allBytes_extractBits _ _ _
    · intro j
      rw [extractBits_bits hb, bitAt_slice, e1, e6]

/-- The fields of an accepted layout, read by the generated code = read by the specification. -/
theorem readFields_spec : ∀ (fs : List FieldMeta) (buf : List Nat) (c e : Nat),
    Chain fs c e → (∀ f ∈ fs, f.skip = false → 0 < f.bitsLen) → e ≤ 8 * buf.length → AllBytes buf →
    readFields fs buf = readFieldsSpec fs buf
  | [], _, _, _, _, _, _, _ => rfl
  | f :: fs, buf, c, e, hch, hpos, he, hb => by
    simp only [readFields, readFieldsSpec, Chain] at *
    by_cases hs : f.skip = true
    · simp only [hs, if_true] at hch ⊢
      rw [readFields_spec fs buf c e hch (fun g hg => hpos g (List.mem_cons_of_mem _ hg)) he hb]
      simp [readField, hs]
    · have hs' : f.skip = false := by simpa using hs
      simp only [hs] at hch
      obtain ⟨_, hsh, hrest⟩ := hch
      have hle := hrest.le
      rw [readFields_spec fs buf _ e hrest (fun g hg => hpos g (List.mem_cons_of_mem _ hg)) he hb,
        readField_spec hs' hsh (hpos f (List.mem_cons_self ..) hs') (by omega) hb]
      simp [hs']

/-- The specification looks at declared bits only. -/
theorem readFieldsSpec_congr {b1 b2 : List Nat} (h1 : AllBytes b1) (h2 : AllBytes b2) :
    ∀ (fs : List FieldMeta),
    (∀ f ∈ fs, f.skip = false → ∀ k, f.bitStart ≤ k → k < f.bitStart + f.bitsLen → bitAt b1 k = bitAt b2 k) →
    readFieldsSpec fs b1 = readFieldsSpec fs b2
  | [], _ => rfl
  | f :: fs, h => by
    simp only [readFieldsSpec]
    rw [readFieldsSpec_congr h1 h2 fs (fun g hg => h g (List.mem_cons_of_mem _ hg))]
    by_cases hs : f.skip = true
    · simp [hs]
    · have hs' : f.skip = false := by simpa using hs
      simp only [hs', Bool.false_eq_true, if_false]
      rw [extractBits_congr h1 h2 _ _ (h f (List.mem_cons_self ..) hs')]

end Ec.Wire
