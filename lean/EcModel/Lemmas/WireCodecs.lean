/-
  C19: the primitive impls of ethercrab-wire/src/impls.rs satisfy the codec laws; a derived struct over lawful
  field codecs is itself lawful (so the struct theorems compose over nesting).
-/
import EcModel.Lemmas.WireRoundtrip

namespace Ec.Wire
open Ec

theorem toNat_emod_natCast (i m : Nat) : (((i : Int) % ((m : Nat) : Int))).toNat = i % m := by
  omega

theorem lawful_uN (n : Nat) : Lawful (Codec.uN n) where
  enc_len := by
    intro v bs h
    cases v <;> simp [Codec.uN, illTyped] at h
    subst h
    exact ⟨leBytes_length _ _, allBytes_leBytes _ _⟩
  enc_ok := by
    rintro v ⟨i, rfl, _⟩
    exact ⟨_, rfl⟩
  dec_short := by
    intro buf h
    have h' : buf.length < n := h
    simp [Codec.uN, h']
  dec_prefix := by
    intro buf h
    have h' : n ≤ buf.length := h
    have h1 : ¬ buf.length < n := by omega
    have h2 : ¬ (buf.take n).length < n := by rw [List.length_take]; omega
    simp only [Codec.uN, h1, h2, if_false, List.take_take, Nat.min_self]
  dec_total := by
    intro buf why h
    simp only [Codec.uN] at h
    split at h <;> cases h
  roundtrip := by
    rintro v bs ⟨i, rfl, hi⟩ h
    simp only [Codec.uN, Outcome.ok.injEq] at h
    subst h
    rw [toNat_emod_natCast, Nat.mod_eq_of_lt hi]
    have hl : ¬ (leBytes n i).length < n := by simp [leBytes_length]
    simp only [Codec.uN, hl, if_false]
    rw [List.take_of_length_le (by simp [leBytes_length]), leVal_leBytes, Nat.mod_eq_of_lt hi]

theorem toSigned_roundtrip (n : Nat) (i : Int) (h1 : -((256 ^ n : Nat) : Int) ≤ 2 * i)
    (h2 : 2 * i < ((256 ^ n : Nat) : Int)) :
    toSigned n ((i % ((256 ^ n : Nat) : Int)).toNat % 256 ^ n) = i := by
  generalize hM : (256 ^ n : Nat) = M at *
  have hMpos : 0 < M := by rw [← hM]; exact Nat.pos_of_neZero _
  unfold toSigned
  rw [hM]
  by_cases hi : 0 ≤ i
  · have e : i % (M : Int) = i := Int.emod_eq_of_lt hi (by omega)
    rw [e]
    have : i.toNat % M = i.toNat := Nat.mod_eq_of_lt (by omega)
    rw [this]
    have : ¬ (2 * i.toNat ≥ M) := by omega
    simp only [this, if_false]
    omega
  · have e : i % (M : Int) = i + M := by
      rw [← Int.add_mul_emod_self_left i (M : Int) 1, Int.mul_one]
      exact Int.emod_eq_of_lt (by omega) (by omega)
    rw [e]
    have : (i + (M : Int)).toNat % M = (i + (M : Int)).toNat := Nat.mod_eq_of_lt (by omega)
    rw [this]
    have : 2 * (i + (M : Int)).toNat ≥ M := by omega
    simp only [this, if_true]
    omega

theorem lawful_iN (n : Nat) : Lawful (Codec.iN n) where
  enc_len := by
    intro v bs h
    cases v <;> simp [Codec.iN, illTyped] at h
    subst h
    exact ⟨leBytes_length _ _, allBytes_leBytes _ _⟩
  enc_ok := by
    rintro v ⟨i, rfl, _⟩
    exact ⟨_, rfl⟩
  dec_short := by
    intro buf h
    have h' : buf.length < n := h
    simp [Codec.iN, h']
  dec_prefix := by
    intro buf h
    have h' : n ≤ buf.length := h
    have h1 : ¬ buf.length < n := by omega
    have h2 : ¬ (buf.take n).length < n := by rw [List.length_take]; omega
    simp only [Codec.iN, h1, h2, if_false, List.take_take, Nat.min_self]
  dec_total := by
    intro buf why h
    simp only [Codec.iN] at h
    split at h <;> cases h
  roundtrip := by
    rintro v bs ⟨i, rfl, h1, h2⟩ h
    simp only [Codec.iN, Outcome.ok.injEq] at h
    subst h
    have hl : ¬ (leBytes n (i % ((256 ^ n : Nat) : Int)).toNat).length < n := by simp [leBytes_length]
    simp only [Codec.iN, hl, if_false, Outcome.ok.injEq, Val.int.injEq]
    have : List.take n (leBytes n (i % ((256 ^ n : Nat) : Int)).toNat) = leBytes n (i % ((256 ^ n : Nat) : Int)).toNat := by
      rw [List.take_of_length_le (by simp [leBytes_length])]
    rw [this, leVal_leBytes]
    exact toSigned_roundtrip n i h1 h2

theorem lawful_bool : Lawful Codec.bool where
  enc_len := by
    intro v bs h
    cases v <;> simp [Codec.bool, illTyped] at h
    subst h
    rename_i b
    cases b <;> simp [allBytes_cons, allBytes_nil, Codec.bool]
  enc_ok := by
    rintro v ⟨b, rfl⟩
    exact ⟨_, rfl⟩
  dec_short := by
    intro buf h
    cases buf with
    | nil => rfl
    | cons x xs => simp [Codec.bool] at h
  dec_prefix := by
    intro buf h
    cases buf with
    | nil => simp [Codec.bool] at h
    | cons x xs => simp [Codec.bool]
  dec_total := by
    intro buf why h
    cases buf <;> simp [Codec.bool] at h
  roundtrip := by
    rintro v bs ⟨b, rfl⟩ h
    simp only [Codec.bool, Outcome.ok.injEq] at h
    subst h
    cases b <;> simp [Codec.bool]

/-! ### derived structs are lawful -/

theorem readFields_total : ∀ (fs : List FieldMeta) (buf : List Nat) (why : String),
    (∀ f ∈ fs, Lawful f.codec) → readFields fs buf ≠ .panic why
  | [], _, _, _ => by simp [readFields]
  | f :: fs, buf, why, hlaw => by
    have h1 : ∀ w, readField f buf ≠ .panic w := by
      intro w
      have := (hlaw f (List.mem_cons_self ..)).dec_total
      unfold readField
      split
      · simp
      · split
        · split
          · simp
          · split
            · simp
            · split
              · simp
              · exact this _ _
        · split
          · exact this _ _
          · simp
    have h2 := fun w => readFields_total fs buf w (fun g hg => hlaw g (List.mem_cons_of_mem _ hg))
    simp only [readFields]
    cases hr : readField f buf with
    | panic w => exact absurd hr (h1 w)
    | err e => simp [bindO]
    | ok v =>
      cases hr2 : readFields fs buf with
      | panic w => exact absurd hr2 (h2 w)
      | err e => simp [bindO]
      | ok vs => simp [bindO]

/-- Everything the struct theorems need to know about an accepted layout. -/
structure StructGood (m : StructMeta) : Prop where
  chain : Chain m.fields 0 m.widthBits
  pos : ∀ f ∈ m.fields, f.skip = false → 0 < f.bitsLen
  lawful : ∀ f ∈ m.fields, Lawful f.codec
  fits : ∀ f ∈ m.fields, f.slotFits = true
  gen : deriveWriteOk m = true

theorem StructMeta.width_le (m : StructMeta) : m.widthBits ≤ 8 * m.sizeBytes := by
  simp only [StructMeta.sizeBytes]; omega

theorem structEnc_spec {m : StructMeta} (hg : StructGood m) {vs : List Val} {bs : List Nat}
    (h : structEnc m (.seq vs) = .ok bs) :
    bs.length = m.sizeBytes ∧ AllBytes bs ∧ ∀ k, bitAt bs k = fieldsBit m.fields vs k := by
  simp only [structEnc] at h
  obtain ⟨r1, r2, r3⟩ := writeFields_bits m.fields vs (zeros m.sizeBytes) bs 0 m.widthBits hg.chain hg.pos
    (fun f hf => (hg.lawful f hf).enc_len) (deriveWriteOk_field hg.gen) (fun k _ => bitAt_zeros _ _)
    (allBytes_zeros _) h
  exact ⟨by simpa [zeros] using r1, r2, fun k => by simp [r3 k, bitAt_zeros]⟩

theorem structCodec_lawful {m : StructMeta} (hg : StructGood m) : Lawful (structCodecOfMeta m) where
  enc_len := by
    intro v bs h
    cases v <;> simp [structCodecOfMeta, structEnc, illTyped] at h
    rename_i vs
    have := structEnc_spec hg (vs := vs) (by simpa [structEnc] using h)
    exact ⟨this.1, this.2.1⟩
  enc_ok := by
    rintro v ⟨vs, rfl, hv⟩
    exact writeFields_ok m.fields vs (zeros m.sizeBytes) 0 m.widthBits hg.chain hg.pos hg.lawful hg.fits
      (deriveWriteOk_field hg.gen) hv (by simpa [zeros] using m.width_le)
  dec_short := by intro buf h; simp [structCodecOfMeta] at h; simp [structCodecOfMeta, structRead, h]
  dec_prefix := by
    intro buf h
    simp only [structCodecOfMeta] at h ⊢
    have h1 : ¬ buf.length < m.sizeBytes := by omega
    have h2 : ¬ (buf.take m.sizeBytes).length < m.sizeBytes := by rw [List.length_take]; omega
    simp only [structRead, h1, h2, if_false, List.take_take, Nat.min_self]
  dec_total := by
    intro buf why h
    simp only [structCodecOfMeta, structRead] at h
    split at h
    · cases h
    · cases hr : readFields m.fields (List.take m.sizeBytes buf) with
      | panic w => exact readFields_total _ _ _ hg.lawful hr
      | err e => simp [hr, bindO] at h
      | ok vs => simp [hr, bindO] at h
  roundtrip := by
    rintro v bs ⟨vs, rfl, hv⟩ h
    obtain ⟨hl, hab, hbits⟩ := structEnc_spec hg h
    have h1 : ¬ bs.length < m.sizeBytes := by omega
    simp only [structCodecOfMeta, structRead, h1, if_false]
    rw [← hl, List.take_length]
    rw [readFields_spec m.fields bs 0 m.widthBits hg.chain hg.pos (by rw [hl]; exact m.width_le) hab,
      readFieldsSpec_roundtrip m.fields vs 0 m.widthBits bs hg.chain hg.pos hg.lawful hg.fits
        (deriveWriteOk_field hg.gen) hv hab (fun k _ => hbits k)]
    rfl

/-! ### reading the layout off the bit function -/

theorem writeFields_length : ∀ (fs : List FieldMeta) (vs : List Val) (buf buf' : List Nat),
    writeFields fs vs buf = .ok buf' → vs.length = fs.length
  | [], [], _, _, _ => rfl
  | [], _ :: _, _, _, h => by simp [writeFields, illTyped] at h
  | _ :: _, [], _, _, h => by simp [writeFields, illTyped] at h
  | f :: fs, v :: vs, buf, buf', h => by
    simp only [writeFields] at h
    obtain ⟨b1, _, h2⟩ := bindO_eq_ok.mp h
    simp [writeFields_length fs vs b1 buf' h2]

theorem fieldsBit_at_field : ∀ (fs : List FieldMeta) (vs : List Val) (c e : Nat), Chain fs c e →
    ∀ (hl : vs.length = fs.length) (i : Nat) (hi : i < fs.length), fs[i].skip = false → ∀ j, j < fs[i].bitsLen →
      fieldsBit fs vs (fs[i].bitStart + j) = bitAt (fieldEnc fs[i] (vs[i]'(by omega))) j
  | [], _, _, _, _, _, i, hi, _, _, _ => by simp at hi
  | _ :: _, [], _, _, _, hl, _, _, _, _, _ => by simp at hl
  | f :: fs, v :: vs, c, e, hch, hl, i, hi, hs, j, hj => by
    simp only [fieldsBit]
    simp only [Chain] at hch
    cases i with
    | zero =>
      simp only [List.getElem_cons_zero] at hs hj ⊢
      simp only [hs, Bool.false_eq_true, if_false] at hch
      have hle := hch.2.1.le
      have h1 : f.bitStart + j < f.bitEnd := by simp only [FieldMeta.bitsLen] at hj; omega
      simp [hs, h1, fieldsBit_below fs vs f.bitEnd e _ hch.2.2 h1]
    | succ i =>
      simp only [List.getElem_cons_succ] at hs hj ⊢
      have hi' : i < fs.length := by simpa using hi
      have hl' : vs.length = fs.length := by simpa using hl
      by_cases hsk : f.skip = true
      · simp only [hsk, if_true] at hch
        rw [fieldsBit_at_field fs vs c e hch hl' i hi' hs j hj]
        simp [hsk]
      · simp only [hsk] at hch
        -- the i-th field of the tail starts at or after the head's end
        have hge : ∀ (gs : List FieldMeta) (c' : Nat), Chain gs c' e → ∀ (n : Nat) (hn : n < gs.length),
            gs[n].skip = false → c' ≤ gs[n].bitStart := by
          intro gs
          induction gs with
          | nil => intro _ _ n hn; simp at hn
          | cons g gs ih =>
            intro c' hc n hn hsn
            simp only [Chain] at hc
            cases n with
            | zero =>
              simp only [List.getElem_cons_zero] at hsn ⊢
              simp only [hsn, Bool.false_eq_true, if_false] at hc
              exact hc.1
            | succ n =>
              simp only [List.getElem_cons_succ] at hsn ⊢
              by_cases hg : g.skip = true
              · simp only [hg, if_true] at hc
                exact ih c' hc n (by simpa using hn) hsn
              · simp only [hg] at hc
                have := ih g.bitEnd hc.2.2 n (by simpa using hn) hsn
                have := hc.2.1.le
                have := hc.1
                omega
        have := hge fs f.bitEnd hch.2.2 i hi' hs
        have h1 : ¬ fs[i].bitStart + j < f.bitEnd := by omega
        rw [fieldsBit_at_field fs vs f.bitEnd e hch.2.2 hl' i hi' hs j hj]
        simp [h1]

theorem fieldsBit_undeclared : ∀ (fs : List FieldMeta) (vs : List Val) (k : Nat),
    (∀ f ∈ fs, f.skip = false → ¬ (f.bitStart ≤ k ∧ k < f.bitEnd)) → fieldsBit fs vs k = false
  | [], _, _, _ => by simp [fieldsBit]
  | _ :: _, [], _, _ => by simp [fieldsBit]
  | f :: fs, v :: vs, k, h => by
    simp only [fieldsBit]
    rw [fieldsBit_undeclared fs vs k (fun g hg => h g (List.mem_cons_of_mem _ hg))]
    by_cases hs : f.skip = true
    · simp [hs]
    · have := h f (List.mem_cons_self ..) (by simpa using hs)
      by_cases h1 : f.bitStart ≤ k <;> by_cases h2 : k < f.bitEnd <;> simp [h1, h2]
      exact absurd ⟨h1, h2⟩ this

theorem parseFields_meta : ∀ (ds : List FieldDecl) (total : Nat) (ms : List FieldMeta) (tot : Nat),
    parseFields ds total = .ok (ms, tot) →
    ms.length = ds.length ∧ ∀ (i : Nat) (h1 : i < ms.length) (h2 : i < ds.length),
      ms[i].codec = ds[i].codec ∧ ms[i].ty = ds[i].ty ∧ ms[i].skip = ds[i].skip
  | [], _, ms, _, h => by
    simp only [parseFields, Except.ok.injEq, Prod.mk.injEq] at h
    obtain ⟨rfl, _⟩ := h
    exact ⟨rfl, fun i h1 _ => by simp at h1⟩
  | d :: rest, total, ms, tot, h => by
    unfold parseFields at h
    split at h
    · cases h
    · rename_i fm total' hf
      split at h
      · cases h
      · rename_i ms' tot' hrest
        simp only [Except.ok.injEq, Prod.mk.injEq] at h
        obtain ⟨rfl, rfl⟩ := h
        obtain ⟨ih1, ih2⟩ := parseFields_meta rest _ _ _ hrest
        obtain ⟨p1, p2, p3, _, _⟩ := parseField_spec hf
        refine ⟨by simp [ih1], ?_⟩
        intro i h1 h2
        cases i with
        | zero => exact ⟨p3, p2, p1⟩
        | succ i => simpa using ih2 i (by simpa using h1) (by simpa using h2)

/-! ### arrays -/

theorem encAll_spec (c : Codec) (hc : Lawful c) : ∀ (vs : List Val) (bs : List Nat), encAll c vs = .ok bs →
    bs.length = c.len * vs.length ∧ AllBytes bs
  | [], bs, h => by
    simp only [encAll, Outcome.ok.injEq] at h
    subst h
    exact ⟨by simp, allBytes_nil⟩
  | v :: vs, bs, h => by
    simp only [encAll] at h
    obtain ⟨b, hb, h⟩ := bindO_eq_ok.mp h
    obtain ⟨bs', hbs', h⟩ := bindO_eq_ok.mp h
    simp only [Outcome.ok.injEq] at h
    subst h
    obtain ⟨l1, a1⟩ := hc.enc_len v b hb
    obtain ⟨l2, a2⟩ := encAll_spec c hc vs bs' hbs'
    refine ⟨?_, allBytes_append.mpr ⟨a1, a2⟩⟩
    simp only [List.length_append, List.length_cons, l1, l2, Nat.mul_add, Nat.mul_one]
    omega

theorem encAll_ok (c : Codec) (hc : Lawful c) : ∀ (vs : List Val), (∀ x ∈ vs, c.valid x) → ∃ bs, encAll c vs = .ok bs
  | [], _ => ⟨[], rfl⟩
  | v :: vs, h => by
    obtain ⟨b, hb⟩ := hc.enc_ok v (h v (List.mem_cons_self ..))
    obtain ⟨bs, hbs⟩ := encAll_ok c hc vs (fun x hx => h x (List.mem_cons_of_mem _ hx))
    exact ⟨b ++ bs, by simp [encAll, hb, hbs, bindO]⟩

theorem decChunks_total (c : Codec) (hc : Lawful c) : ∀ (n : Nat) (buf : List Nat) (why : String),
    decChunks c n buf ≠ .panic why
  | 0, _, _ => by simp [decChunks]
  | n + 1, buf, why => by
    simp only [decChunks]
    cases h1 : c.dec (buf.take c.len) with
    | panic w => exact absurd h1 (hc.dec_total _ _)
    | err e => simp [bindO]
    | ok v =>
      cases h2 : decChunks c n (buf.drop c.len) with
      | panic w => exact absurd h2 (decChunks_total c hc n _ w)
      | err e => simp [bindO]
      | ok vs => simp [bindO]

theorem decChunks_roundtrip (c : Codec) (hc : Lawful c) : ∀ (vs : List Val) (bs : List Nat),
    (∀ x ∈ vs, c.valid x) → encAll c vs = .ok bs → decChunks c vs.length bs = .ok vs
  | [], _, _, _ => rfl
  | v :: vs, bs, hv, h => by
    simp only [encAll] at h
    obtain ⟨b, hb, h⟩ := bindO_eq_ok.mp h
    obtain ⟨bs', hbs', h⟩ := bindO_eq_ok.mp h
    simp only [Outcome.ok.injEq] at h
    subst h
    obtain ⟨l1, _⟩ := hc.enc_len v b hb
    simp only [List.length_cons, decChunks]
    rw [← l1, List.take_left' rfl, List.drop_left' rfl, hc.roundtrip v b (hv v (List.mem_cons_self ..)) hb,
      decChunks_roundtrip c hc vs bs' (fun x hx => hv x (List.mem_cons_of_mem _ hx)) hbs']
    rfl

/-- `[T; N]` over a lawful element type of non-zero size is lawful (for size 0 `chunks_exact(0)` panics). -/
theorem lawful_array (c : Codec) (n : Nat) (hc : Lawful c) (hpos : 0 < c.len) : Lawful (Codec.array c n) where
  enc_len := by
    intro v bs h
    cases v with
    | seq vs =>
      simp only [Codec.array] at h
      split at h
      · rename_i hl
        have := encAll_spec c hc vs bs h
        exact ⟨by rw [this.1, hl]; rfl, this.2⟩
      · simp [illTyped] at h
    | _ => simp [Codec.array, illTyped] at h
  enc_ok := by
    rintro v ⟨vs, rfl, hl, hv⟩
    obtain ⟨bs, hbs⟩ := encAll_ok c hc vs hv
    exact ⟨bs, by simp [Codec.array, hl, hbs]⟩
  dec_short := by
    intro buf h
    have h' : buf.length < c.len * n := h
    simp [Codec.array, h']
  dec_prefix := by
    intro buf h
    have h' : c.len * n ≤ buf.length := h
    have h1 : ¬ buf.length < c.len * n := by omega
    have h2 : ¬ (buf.take (c.len * n)).length < c.len * n := by rw [List.length_take]; omega
    simp only [Codec.array, h1, h2, if_false, List.take_take, Nat.min_self]
  dec_total := by
    intro buf why h
    simp only [Codec.array] at h
    split at h
    · cases h
    · split at h
      · omega
      · cases hd : decChunks c n (List.take (c.len * n) buf) with
        | panic w => exact decChunks_total c hc _ _ _ hd
        | err e => simp [hd, bindO] at h
        | ok vs => simp [hd, bindO] at h
  roundtrip := by
    rintro v bs ⟨vs, rfl, hl, hv⟩ h
    simp only [Codec.array, hl, if_true] at h
    obtain ⟨hlen, _⟩ := encAll_spec c hc vs bs h
    have h1 : ¬ bs.length < c.len * n := by rw [hlen, hl]; omega
    have h2 : ¬ c.len = 0 := by omega
    simp only [Codec.array, h1, h2, if_false]
    rw [List.take_of_length_le (by rw [hlen, hl]; exact Nat.le_refl _), ← hl, decChunks_roundtrip c hc vs bs hv h]
    rfl

/-! ### a derived struct, stated on the declaration -/

/-- All field types of a declaration obey the laws. -/
def AllLawful : List FieldDecl → Prop
  | [] => True
  | d :: ds => Lawful d.codec ∧ AllLawful ds

theorem AllLawful.get : ∀ {ds : List FieldDecl}, AllLawful ds → ∀ (i : Nat) (h : i < ds.length), Lawful ds[i].codec
  | [], _, i, h => by simp at h
  | d :: ds, hl, i, h => by
    cases i with
    | zero => exact hl.1
    | succ i => exact AllLawful.get hl.2 i (by simpa using h)

/-- Decidable part of "the struct theorems apply to this declaration": accepted by parse_struct, every non-skipped field
    at least one bit wide, every field type no longer than its slot, write half of the derive well-formed. -/
def structDeclGood (d : StructDecl) : Bool :=
  match parseStruct d with
  | .ok m => m.fields.all (fun f => f.skip || decide (0 < f.bitsLen)) && m.fields.all (·.slotFits) && deriveWriteOk m
  | .error _ => false

theorem parseStruct_fields {d : StructDecl} {m : StructMeta} (h : parseStruct d = .ok m) :
    ∃ tot, parseFields d.fields 0 = .ok (m.fields, tot) := by
  unfold parseStruct at h
  split at h
  · cases h
  · cases h
  · split at h
    · cases h
    · split at h
      · cases h
      · rename_i ms total hp
        split at h
        · cases h
        · simp only [Except.ok.injEq] at h
          subst h
          exact ⟨total, hp⟩

theorem structGood_of_decl {d : StructDecl} {m : StructMeta} (hp : parseStruct d = .ok m)
    (hgood : structDeclGood d = true) (hl : AllLawful d.fields) : StructGood m := by
  simp only [structDeclGood, hp, Bool.and_eq_true, List.all_eq_true, Bool.or_eq_true, decide_eq_true_eq] at hgood
  obtain ⟨⟨hpos, hfit⟩, hgen⟩ := hgood
  obtain ⟨tot, hpf⟩ := parseStruct_fields hp
  obtain ⟨hlen, hmeta⟩ := parseFields_meta _ _ _ _ hpf
  refine ⟨parseStruct_chain hp, ?_, ?_, hfit, hgen⟩
  · intro f hf hs
    rcases hpos f hf with h | h
    · rw [hs] at h; cases h
    · exact h
  · intro f hf
    obtain ⟨i, hi, rfl⟩ := List.getElem_of_mem hf
    rw [(hmeta i hi (by omega)).1]
    exact hl.get i (by omega)

/-- A derived struct whose declaration passes the decidable checks and whose field types are lawful is lawful. -/
theorem structCodec_lawful_of_decl (d : StructDecl) (hgood : structDeclGood d = true) (hl : AllLawful d.fields) :
    Lawful (structCodec d) := by
  unfold structCodec
  cases hp : parseStruct d with
  | error e => simp [structDeclGood, hp] at hgood
  | ok m => exact structCodec_lawful (structGood_of_decl hp hgood hl)

end Ec.Wire
