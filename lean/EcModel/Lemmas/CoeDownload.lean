/-
  C15 helper lemmas: `sdo_write` against the specification server.
-/
import EcModel.Lemmas.CoeAbort

namespace Ec.Coe
open Ec Ec.Gen.Coe Ec.CoeSrv

/-- Command byte of the expedited download request for a value of `n` bytes. -/
def dlByte (n : Nat) (complete : Bool) : Nat := 35 + 4 * ((4 - n) % 4) + (if complete then 16 else 0)

theorem sdoByte_download (n : Nat) (complete : Bool) (h4 : n ≤ 4) :
    sdoByte true true (DOWNLOAD_SIZE_BASE - n % 256) complete cmdDownload = dlByte n complete := by
  have : n % 256 = n := by omega
  cases complete <;> simp [sdoByte, dlByte, DOWNLOAD_SIZE_BASE, cmdDownload_eq, this] <;> omega

/-- The download request as it lies in the IN mailbox: header, index, sub-index, size field, data. -/
theorem downloadRequest_image (wmbx ctr index : Nat) (access : SubIndex) (value : List Nat) (hw : 16 ≤ wmbx)
    (h4 : value.length ≤ 4) :
    image wmbx (downloadRequest ctr index access (value ++ zeros (4 - value.length)) value.length) =
      10 :: 0 :: 0 :: 0 :: 0 :: (3 + 16 * (ctr % 8)) :: 0 :: 32 ::
        (dlByte value.length access.completeAccess) :: (index % 256) :: (index / 256 % 256) ::
        (access.subIndex % 256) :: (value ++ zeros (4 - value.length) ++ zeros (wmbx - 16)) := by
  have hl : (downloadRequest ctr index access (value ++ zeros (4 - value.length)) value.length).length = 16 := by
    simp [downloadRequest, packMailboxHeader, zeros]; omega
  rw [image_of_le _ _ (by rw [hl]; exact hw), hl]
  simp [downloadRequest, packMailboxHeader, REQ_LEN_download, mbxCoe_eq, svcSdoRequest_eq, sdoByte_download _ _ h4]

theorem dlByte_bits (n : Nat) (c : Bool) (h1 : 1 ≤ n) (h4 : n ≤ 4) :
    dlByte n c / 32 % 8 = 1 ∧ (dlByte n c / 16 % 2 == 1) = c ∧ (dlByte n c / 2 % 2 == 1) = true ∧
      (dlByte n c % 2 == 1) = true ∧ 4 - dlByte n c / 4 % 4 = n := by
  have : n = 1 ∨ n = 2 ∨ n = 3 ∨ n = 4 := by omega
  rcases this with rfl | rfl | rfl | rfl <;> cases c <;> decide

/-- The server's answer to an expedited SDO Download Request of 1..4 bytes (no emergency pending). -/
theorem serve_download (srv : Server) (wmbx ctr index : Nat) (access : SubIndex) (value : List Nat) (hw : 16 ≤ wmbx)
    (hi : index < 65536) (hs : access.subIndex < 256) (h1 : 1 ≤ value.length) (h4 : value.length ≤ 4)
    (he : srv.emergencies = []) :
    serve srv (image wmbx (downloadRequest ctr index access (value ++ zeros (4 - value.length)) value.length)) =
      ((srv.download (nextCtr srv.counter) index access.subIndex access.completeAccess value).1,
       [(srv.download (nextCtr srv.counter) index access.subIndex access.completeAccess value).2]) := by
  rw [downloadRequest_image _ _ _ _ _ hw h4]
  unfold serve
  have hlen : ¬ (10 :: 0 :: 0 :: 0 :: 0 :: (3 + 16 * (ctr % 8)) :: 0 :: 32 ::
      (dlByte value.length access.completeAccess) :: (index % 256) :: (index / 256 % 256) ::
      (access.subIndex % 256) :: (value ++ zeros (4 - value.length) ++ zeros (wmbx - 16))).length < 12 := by simp
  rw [if_neg hlen]
  have h5 : ((3 + 16 * (ctr % 8)) % 16 != 3) = false := by
    have : (3 + 16 * (ctr % 8)) % 16 = 3 := by omega
    simp [this]
  have hb := dlByte_bits value.length access.completeAccess h1 h4
  have htake : List.take value.length (value ++ zeros (4 - value.length) ++ zeros (wmbx - 16)) = value := by
    rw [List.append_assoc, List.take_left']
    rfl
  simp only [List.getD_cons_zero, List.getD_cons_succ, h5, Bool.false_or, show ((32 : Nat) / 16 != 2) = false from rfl,
    Bool.false_eq_true, if_false, he, emitEmergencies, List.nil_append, hb.1, hb.2.1, hb.2.2.1, hb.2.2.2.1, hb.2.2.2.2,
    show ((1 : Nat) == 2) = false from rfl, show ((1 : Nat) == 3) = false from rfl, beq_self_eq_true, if_true,
    le16_index index hi, Nat.mod_eq_of_lt hs, server_eta srv he, List.drop_succ_cons, List.drop_zero, htake]

/-- A plain (not complete-access) download to an existing entry that the server has no reason to refuse. -/
theorem download_stores (srv : Server) (c index sub : Nat) (value old : List Nat)
    (hab : (srv.aborts.find? fun e => e.1.1 == index && e.1.2 == sub) = none)
    (hold : srv.dict.get index sub = some old) (hlen : srv.strictLen = true → old.length = value.length) :
    srv.download c index sub false value =
      ({ srv with counter := c, dict := srv.dict.set index sub value }, downloadResponse c index sub false) := by
  unfold Server.download
  rw [hab]
  simp only [Bool.false_eq_true, if_false, hold]
  cases hs : srv.strictLen with
  | false => simp
  | true => simp [hlen hs]

theorem downloadResponse_image (rmbx c index sub : Nat) (hr : 16 ≤ rmbx) :
    image rmbx (downloadResponse c index sub false) =
      10 :: 0 :: 0 :: 0 :: 0 :: (3 + 16 * (c % 8)) :: 0 :: 48 :: 96 :: (index % 256) :: (index / 256 % 256) :: sub ::
        (0 :: 0 :: 0 :: 0 :: zeros (rmbx - 16)) := by
  have hl : (downloadResponse c index sub false).length = 16 := by simp [downloadResponse, frame]
  rw [image_of_le _ _ (by rw [hl]; exact hr), hl]
  simp [downloadResponse, frame, completeBit]

theorem unpackSdoExpedited_noPanic' (b : List Nat) (h : 16 ≤ b.length) : unpackSdoExpedited b = unpackSdoNormal b := by
  unfold unpackSdoExpedited
  rw [if_neg (by simp [LEN_SdoExpedited]; omega)]

/-- The triage accepts the download response for the object that was written. -/
theorem triage_download (cfg : Cfg) (c index sub : Nat) (hi : index < 65536) (hr : 16 ≤ cfg.rmbx) :
    ∃ h data, triage cfg unpackSdoExpedited (validateIdx index sub)
        (mkPdu cfg (image cfg.rmbx (downloadResponse c index sub false))) = .ok (h, data) := by
  rw [triage_eq_bytes _ _ _ _ (mkPdu_ok _ _), mkPdu_bytes, downloadResponse_image _ _ _ _ hr]
  unfold triageB
  have hcmd : bitsOf 96 5 3 = 3 := by decide
  rw [unpackCoeHeaders_cons _ _ _ _ _ _ _ _ _ (by rw [bits_type]; exact validMbx3)
    (by rw [show (48 : Nat) = 16 * 3 from rfl, bits_svc 3 (by decide)]; exact validSvc3)]
  rw [unpackHeadersRaw_cons _ _ _ _ _ _ _ _ _ _ _ _ _ (by rw [bits_type]; exact validMbx3)
    (by rw [show (48 : Nat) = 16 * 3 from rfl, bits_svc 3 (by decide)]; exact validSvc3)
    (by rw [hcmd]; exact validCmd3)]
  rw [unpackSdoExpedited_noPanic' _ (by simp)]
  rw [unpackSdoNormal_cons _ _ _ _ _ _ _ _ _ _ _ _ _ (by rw [bits_type]; exact validMbx3)
    (by rw [show (48 : Nat) = 16 * 3 from rfl, bits_svc 3 (by decide)]; exact validSvc3)
    (by rw [hcmd]; exact validCmd3)]
  simp only [Res.bind_ok, show (48 : Nat) = 16 * 3 from rfl, bits_svc 3 (by decide), bits_type, hcmd,
    le16_index index hi, svcEmergency_eq, cmdAbort_eq, mbxCoe_eq, validateIdx]
  simp

/-- `sdo_write` of a 1..4 byte value to an existing entry of the specification server: `Ok(())`, the request carries
    index / sub-index / size field / data, and afterwards the dictionary holds exactly the value's bytes there. -/
theorem sdoWrite_server (srv : Server) (cfg : Cfg) (index sub : Nat) (value old : List Nat) (s : St Server)
    (hsrv : s.dev = srv) (hm : cfg.hasMailbox = true) (hq : s.outq.length ≤ DRAIN_ROUNDS) (hr : 16 ≤ cfg.rmbx)
    (hw : 16 ≤ cfg.wmbx) (hi : index < 65536) (hs : sub < 256) (h1 : 1 ≤ value.length) (h4 : value.length ≤ 4)
    (he : srv.emergencies = [])
    (hab : (srv.aborts.find? fun e => e.1.1 == index && e.1.2 == sub) = none)
    (hold : srv.dict.get index sub = some old) (hlen : srv.strictLen = true → old.length = value.length) :
    sdoWrite serverWorld cfg index (.index sub) value s =
      (.ok (),
        { ctr := nextCounter s.ctr,
          dev := { srv with counter := nextCtr srv.counter, dict := srv.dict.set index sub value },
          outq := [],
          reqs := s.reqs ++ [10 :: 0 :: 0 :: 0 :: 0 :: (3 + 16 * (s.ctr % 8)) :: 0 :: 32 :: (dlByte value.length false) ::
            (index % 256) :: (index / 256 % 256) :: sub :: (value ++ zeros (4 - value.length) ++ zeros (cfg.wmbx - 16))],
          reads := s.reads + s.outq.length + 1 }) := by
  unfold sdoWrite
  dsimp only [mailboxCounter]
  rw [if_neg (by simp [WRITE_MAX]; omega)]
  have hresp : serverWorld.respond s.dev (image cfg.wmbx
      (downloadRequest s.ctr index (.index sub) (value ++ zeros (4 - value.length)) value.length)) =
      ({ srv with counter := nextCtr srv.counter, dict := srv.dict.set index sub value },
        [downloadResponse (nextCtr srv.counter) index sub false]) := by
    show serve s.dev _ = _
    rw [hsrv, serve_download srv _ s.ctr index (.index sub) value hw hi hs h1 h4 he]
    show ((srv.download (nextCtr srv.counter) index sub false value).1, [(srv.download (nextCtr srv.counter) index sub false value).2]) = _
    rw [download_stores srv _ _ _ _ old hab hold hlen]
  rw [mwr_single serverWorld cfg _ _ _ { ctr := nextCounter s.ctr, dev := s.dev, outq := s.outq, reqs := s.reqs, reads := s.reads }
    _ _ hm hq hresp]
  obtain ⟨h, data, ht⟩ := triage_download cfg (nextCtr srv.counter) index sub hi hr
  simp only [SubIndex.subIndex, ht]
  have himg := downloadRequest_image cfg.wmbx s.ctr index (.index sub) value hw h4
  simp only [SubIndex.completeAccess, SubIndex.subIndex, Nat.mod_eq_of_lt hs] at himg
  rw [himg]

end Ec.Coe
