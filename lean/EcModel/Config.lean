/-
  EcModel.Config — hand translation of the process-data configuration pass of ethercrab (C08).

    src/pdi.rs                          PdiOffset::{increment, increment_byte_aligned, up_to}
    src/subdevice/configuration.rs      configure_mailbox_sms, configure_fmmus, configure_pdos_coe,
                                        configure_pdos_eeprom, write_sm_config, write_fmmu_config
    src/subdevice_group/mod.rs          SubDeviceGroup::configure_fmmus (inputs pass, outputs pass, PdiTooLong)
    src/subdevice_group/handle.rs       SubDeviceGroupRef::into_pre_op (offset advance by MAX_PDI `as u16`)
    src/maindevice.rs                   init: group map in order of first appearance, consecutive offsets

  and the DEVICE side (ETG1000.4 §6.6 FMMU, §6.7 sync manager): `Fmmu.hit`, `fmmuMap`, `smWindow`.

  The environment is cooperative: every register write/read is acknowledged, every device is in PRE-OP when its
  group is configured, the EEPROM categories parse (C12/C13) and the SDO uploads of 0x1C1x/0x16xx/0x1Axx answer
  (or abort, `Err.sdo`).  What the EEPROM / object dictionary say is the `Device` description.

  Unchecked Rust arithmetic goes through `arith` (`Mode.checked`: overflow ⇒ panic, `Mode.wrapping`: wraps).
  PDO bit lengths are accumulated in `u64` and the byte length of a sync manager is converted to the `u16` of the
  length registers with `u16::try_from(..)?` (`Err.intConv`); an FMMU shared by several sync managers is extended
  with `checked_add` (fix of c08/pdo-bit-length-u16-overflow; before it the sums were `u16`).
  Import-free apart from Basic: the driver `drv_c08` links against this file.
-/
import EcModel.Basic

namespace Ec.Config
open Ec

/-! ## Outcomes and machine arithmetic -/

/-- The `Error` values this code can produce (canonical tokens of the line protocol). -/
inductive Err where
  /-- `Error::Capacity(Item::SyncManager)`: more than 8 entries in the SyncM category (`heapless::Vec<_, 8>`). -/
  | capacity
  /-- an SDO upload of an assignment/mapping object was aborted. -/
  | sdo
  /-- `Error::NotFound { item: Item::Fmmu, .. }`: no FMMU of the wanted usage in the FMMU category (CoE path). -/
  | notFoundFmmu
  /-- `Error::PdiTooLong { max_length, desired_length }`. -/
  | pdiTooLong (max desired : Nat)
  /-- `Error::IntegerTypeConversion`: the byte length of a sync manager (`u16::try_from(bits.div_ceil(8))?`) or of
      an FMMU shared by several sync managers (`checked_add`) does not fit the `u16` length register. -/
  | intConv
  deriving DecidableEq, Repr

abbrev Out (α : Type) := Outcome Err α

/-- `?` on `Result`, unwinding on panic. -/
def bind {α β : Type} (x : Out α) (f : α → Out β) : Out β :=
  match x with
  | .ok a => f a
  | .err e => .err e
  | .panic w => .panic w

/-- A Rust integer operation whose exact result is `exact`, in a type with `bound` values. -/
def arith (m : Mode) (what : String) (exact bound : Nat) : Out Nat :=
  if exact < bound then .ok exact
  else match m with
    | .checked => .panic what
    | .wrapping => .ok (exact % bound)

def U16 : Nat := 65536
def U32 : Nat := 4294967296
def USIZE : Nat := 18446744073709551616
def U64 : Nat := 18446744073709551616

def add32 (m : Mode) (a b : Nat) : Out Nat := arith m "attempt to add with overflow" (a + b) U32
def add64 (m : Mode) (a b : Nat) : Out Nat := arith m "attempt to add with overflow" (a + b) U64
def mul64 (m : Mode) (a b : Nat) : Out Nat := arith m "attempt to multiply with overflow" (a * b) U64

/-- `a - b` in an unsigned type with `bound` values. -/
def subWrap (m : Mode) (bound a b : Nat) : Out Nat :=
  if b ≤ a then .ok (a - b)
  else match m with
    | .checked => .panic "attempt to subtract with overflow"
    | .wrapping => .ok (a + bound - b)

/-! ## `src/pdi.rs` -/

/-- `PdiOffset::increment` (`increment_inner(0, bytes)`): `start_address + u32::from(inc_bytes)`. -/
def increment (m : Mode) (off bytes : Nat) : Out Nat := add32 m off bytes

/-- `uN::div_ceil(8)` as core implements it (`d = self / 8; if self % 8 > 0 { d + 1 } else { d }`): no
    intermediate can exceed the operand, so there is nothing to overflow in either build mode. -/
def divCeil8 (bits : Nat) : Nat := bits / 8 + (if bits % 8 > 0 then 1 else 0)

/-- `u16::try_from(bit_len.div_ceil(8))?` with `bit_len : u64` — the byte length written to the sync manager
    (`configure_pdos_coe`, `configure_pdos_eeprom`). The same in both build modes. -/
def lenBytes (bits : Nat) : Out Nat :=
  if divCeil8 bits < U16 then .ok (divCeil8 bits) else .err .intConv

/-- `PdiOffset::increment_byte_aligned(bits: u16)`: `bits.div_ceil(8)`, then `increment_inner`. (No longer called
    by the configuration code, which advances by the byte length it programmed; kept by the crate and its tests.) -/
def incrementByteAligned (m : Mode) (off bits : Nat) : Out Nat := increment m off (divCeil8 bits)

/-! ## Descriptions: what EEPROM and object dictionary say about a SubDevice -/

/-- `eeprom::types::SyncManager` (one entry of the SyncM category). `control` is the parsed
    `sync_manager_channel::Control` as its packed byte (reserved bit 7 is not carried). -/
structure SmDesc where
  start : Nat
  control : Nat
  /-- `SyncManagerEnable` bits; bit 0 = ENABLE. -/
  enable : Nat
  /-- raw `SyncManagerType` byte: 1 MailboxWrite, 2 MailboxRead, 3 ProcessDataWrite, 4 ProcessDataRead, else Unknown. -/
  usage : Nat
  deriving Repr, DecidableEq

/-- `SyncManager::usage_type()`: the declared type, or (if Unknown) recovered from operation mode / direction. -/
def SmDesc.usageType (s : SmDesc) : Nat :=
  if 1 ≤ s.usage ∧ s.usage ≤ 4 then s.usage
  else
    let mode := s.control % 4
    let dir := s.control / 4 % 4
    if mode = 0 then (if dir = 0 then 4 else 3) else (if dir = 0 then 2 else 1)

/-- `eeprom::types::Pdo` as returned by `SubDeviceEeprom::pdos` (bit_len already summed over the entries). -/
structure Pdo where
  index : Nat
  sm : Nat
  bitLen : Nat
  deriving Repr, DecidableEq

/-- What the SDO uploads show for one assigned PDO: its index (0x1C1x:i) and the `mapping_bit_len`
    byte of each mapping entry (0x16xx/0x1Axx:1..n). -/
structure CoePdo where
  index : Nat
  mappings : List Nat
  deriving Repr, DecidableEq

/-- `DefaultMailbox` (SII words 0x18..0x1C). All zero: no mailbox. -/
structure MailboxCfg where
  recvSize : Nat := 0
  sendSize : Nat := 0
  protocols : Nat := 0
  deriving Repr, DecidableEq

structure Device where
  mailbox : MailboxCfg
  sms : List SmDesc
  /-- FMMU category: `FmmuUsage` per FMMU (0 Unused, 1 Outputs, 2 Inputs, 3 SyncManagerStatus). -/
  fmmuUsage : List Nat
  /-- FMMU_EX category: `FmmuEx::sync_manager` per entry. -/
  fmmuEx : List Nat
  /-- TxPDO category (`maindevice_read_pdos`, inputs). -/
  txPdos : List Pdo
  /-- RxPDO category (`maindevice_write_pdos`, outputs). -/
  rxPdos : List Pdo
  /-- object dictionary seen through SDO uploads: assignment object 0x1C10 + sm index (`none`: abort). -/
  coe : Nat → Option (List CoePdo)
  /-- `SubDevice::oversampling_config`: `(PDO index, multiplier)`. -/
  oversampling : List (Nat × Nat)
  /-- number of FMMU entities the controller really has (device side only; the MainDevice never looks). -/
  fmmuCount : Nat

/-- `PdoDirection`. -/
inductive Dir where
  | input   -- MasterRead
  | output  -- MasterWrite
  deriving DecidableEq, Repr

/-- `PdoDirection::filter_terms().0` as `SyncManagerType` discriminant. -/
def Dir.smType : Dir → Nat
  | .input => 4
  | .output => 3

/-- `PdoDirection::filter_terms().1` as `FmmuUsage` discriminant. -/
def Dir.fmmuType : Dir → Nat
  | .input => 2
  | .output => 1

def Dir.isWrite : Dir → Bool
  | .input => false
  | .output => true

/-! ## Registers of one simulated controller -/

/-- `SyncManagerChannel` as written (status is always `Status::default()`; of `Enable` only bit 0 is ever set). -/
structure SmReg where
  start : Nat := 0
  len : Nat := 0
  control : Nat := 0
  enable : Bool := false
  deriving DecidableEq, Repr

/-- `fmmu::Fmmu`. -/
structure Fmmu where
  logicalStart : Nat := 0
  length : Nat := 0
  startBit : Nat := 0
  endBit : Nat := 0
  physStart : Nat := 0
  physBit : Nat := 0
  readEn : Bool := false
  writeEn : Bool := false
  enable : Bool := false
  deriving DecidableEq, Repr

structure Regs where
  sm : Nat → SmReg
  fmmu : Nat → Fmmu

/-- After `reset_subdevices`: FMMU 0..15 and SM 0..15 blanked. -/
def Regs.zero : Regs := ⟨fun _ => {}, fun _ => {}⟩

def Regs.setSm (r : Regs) (i : Nat) (v : SmReg) : Regs :=
  { r with sm := fun j => if j = i then v else r.sm j }

def Regs.setFmmu (r : Regs) (i : Nat) (v : Fmmu) : Regs :=
  { r with fmmu := fun j => if j = i then v else r.fmmu j }

/-- `iter().enumerate()`. -/
def enumFrom {α : Type} : Nat → List α → List (Nat × α)
  | _, [] => []
  | n, x :: xs => (n, x) :: enumFrom (n + 1) xs

/-! ## `src/subdevice/configuration.rs` -/

/-- `write_sm_config`: returns the register file after the write and the `SyncManagerChannel` sent. -/
def writeSmConfig (r : Regs) (idx : Nat) (sm : SmDesc) (lengthBytes : Nat) : Regs × SmReg :=
  let cfg : SmReg :=
    { start := sm.start, len := lengthBytes, control := sm.control,
      enable := sm.enable % 2 == 1 && decide (lengthBytes > 0) }
  (r.setSm idx cfg, cfg)

/-- `DefaultMailbox::has_mailbox` (`a && b || c`). -/
def MailboxCfg.hasMailbox (mb : MailboxCfg) : Bool :=
  (mb.protocols != 0 && decide (mb.recvSize > 0)) || decide (mb.sendSize > 0)

/-- loop of `configure_mailbox_sms`: second component = `read_mailbox.is_some()`. -/
def mailboxLoop (mb : MailboxCfg) : List (Nat × SmDesc) → Regs → Bool → Regs × Bool
  | [], r, rd => (r, rd)
  | (i, sm) :: rest, r, rd =>
    if sm.usageType = 1 then mailboxLoop mb rest (writeSmConfig r i sm mb.recvSize).1 rd
    else if sm.usageType = 2 then mailboxLoop mb rest (writeSmConfig r i sm mb.sendSize).1 true
    else mailboxLoop mb rest r rd

/-- `configure_mailbox_sms`: registers afterwards and `config.mailbox.has_coe`. -/
def configureMailboxSms (d : Device) (r : Regs) : Regs × Bool :=
  if !d.mailbox.hasMailbox then (r, false)
  else
    let res := mailboxLoop d.mailbox (enumFrom 0 d.sms) r false
    (res.1, (d.mailbox.protocols / 4 % 2 == 1) && res.2 && decide (d.mailbox.sendSize > 0))

/-- `oversampling_config.iter().find_map(..).unwrap_or(1)`. -/
def oversamplingOf (cfg : List (Nat × Nat)) (pdo : Nat) : Nat :=
  match cfg.find? (fun p => p.1 == pdo) with
  | some p => p.2
  | none => 1

/-- inner loop of `configure_pdos_coe`: `pdo_bit_len += u64::from(mapping_bit_len)`. -/
def sumMappings (m : Mode) : Nat → List Nat → Out Nat
  | acc, [] => .ok acc
  | acc, b :: rest => bind (add64 m acc b) fun acc' => sumMappings m acc' rest

/-- middle loop of `configure_pdos_coe`: per assigned PDO `pdo_bit_len * u64::from(oversampling)`,
    `sm_bit_len += ..` (all `u64`). -/
def coeSmBitLen (m : Mode) (os : List (Nat × Nat)) : Nat → List CoePdo → Out Nat
  | acc, [] => .ok acc
  | acc, p :: rest =>
    bind (sumMappings m 0 p.mappings) fun pl =>
    bind (mul64 m pl (oversamplingOf os p.index)) fun pl' =>
    bind (add64 m acc pl') fun acc' => coeSmBitLen m os acc' rest

/-- `pdos.iter().filter(sm == idx).map(u64::from(bit_len) * u64::from(oversampling)).sum::<u64>()` of
    `configure_pdos_eeprom` (`Sum for u64` is a fold with `+`: overflow-checked in checked builds). -/
def eepromSmBitLen (m : Mode) (os : List (Nat × Nat)) (smIdx : Nat) : Nat → List Pdo → Out Nat
  | acc, [] => .ok acc
  | acc, p :: rest =>
    if p.sm = smIdx then
      bind (mul64 m p.bitLen (oversamplingOf os p.index)) fun l =>
      bind (add64 m acc l) fun acc' => eepromSmBitLen m os smIdx acc' rest
    else eepromSmBitLen m os smIdx acc rest

/-- `fmmu_config.length_bytes.checked_add(sm_config.length_bytes).ok_or(Error::IntegerTypeConversion)?`. -/
def extendLen (cur add : Nat) : Out Nat := if cur + add < U16 then .ok (cur + add) else .err .intConv

/-- `write_fmmu_config`: read the FMMU back, extend it if already enabled, else program it afresh; write;
    advance the offset by the byte length of the sync manager (`global_offset.increment(sm_config.length_bytes)`).
    Returns registers and new offset. -/
def writeFmmuConfig (m : Mode) (r : Regs) (fmmuIdx off smType : Nat) (cfg : SmReg) : Out (Regs × Nat) :=
  let cur := r.fmmu fmmuIdx
  bind (if cur.enable then
          bind (extendLen cur.length cfg.len) fun l => .ok { cur with length := l }
        else
          .ok { logicalStart := off, length := cfg.len, startBit := 0, endBit := 7,
                physStart := cfg.start, physBit := 0,
                readEn := smType == 4, writeEn := smType == 3, enable := true }) fun f =>
  bind (increment m off cfg.len) fun off' => .ok (r.setFmmu fmmuIdx f, off')

/-- `fmmu_usage.iter().position(|u| *u == wanted)`. -/
def position (t : Nat) : List Nat → Option Nat
  | [] => none
  | x :: rest => if x = t then some 0 else (position t rest).map (· + 1)

/-- sync-manager loop of `configure_pdos_coe`. -/
def coeLoop (m : Mode) (d : Device) (dir : Dir) : List (Nat × SmDesc) → Regs → Nat → Out (Regs × Nat)
  | [], r, off => .ok (r, off)
  | (i, sm) :: rest, r, off =>
    if sm.usageType ≠ dir.smType then coeLoop m d dir rest r off
    else
      match d.coe i with
      | none => .err .sdo
      | some pdos =>
        bind (coeSmBitLen m d.oversampling 0 pdos) fun bits =>
        bind (lenBytes bits) fun lb =>
        let w := writeSmConfig r i sm lb
        if bits > 0 then
          match position dir.fmmuType d.fmmuUsage with
          | none => .err .notFoundFmmu
          | some fi =>
            bind (writeFmmuConfig m w.1 fi off dir.smType w.2) fun p => coeLoop m d dir rest p.1 p.2
        else coeLoop m d dir rest w.1 off

/-- FMMU choice of `configure_pdos_eeprom`: `find(|f| f.sync_manager == idx).map(|f| f.sync_manager).unwrap_or(idx)`. -/
def eepromFmmuIndex (fmmuEx : List Nat) (smIdx : Nat) : Nat :=
  match fmmuEx.find? (fun s => s == smIdx) with
  | some s => s
  | none => smIdx

/-- sync-manager loop of `configure_pdos_eeprom`. -/
def eepromLoop (m : Mode) (d : Device) (dir : Dir) (pdos : List Pdo) :
    List (Nat × SmDesc) → Regs → Nat → Out (Regs × Nat)
  | [], r, off => .ok (r, off)
  | (i, sm) :: rest, r, off =>
    if sm.usageType ≠ dir.smType then eepromLoop m d dir pdos rest r off
    else
      bind (eepromSmBitLen m d.oversampling i 0 pdos) fun bits =>
      bind (lenBytes bits) fun lb =>
      let w := writeSmConfig r i sm lb
      bind (writeFmmuConfig m w.1 (eepromFmmuIndex d.fmmuEx i) off dir.smType w.2) fun p =>
        eepromLoop m d dir pdos rest p.1 p.2

/-- What the MainDevice keeps and what the device holds for one SubDevice. -/
structure DevState where
  regs : Regs
  hasCoe : Bool
  /-- `config.io.input.bytes` as (start, end). -/
  input : Nat × Nat
  /-- `config.io.output.bytes`. -/
  output : Nat × Nat

/-- State after `init` (`reset_subdevices`, then `configure_mailboxes`). -/
def initDev (d : Device) : DevState :=
  let r := configureMailboxSms d Regs.zero
  { regs := r.1, hasCoe := r.2, input := (0, 0), output := (0, 0) }

/-- `SubDeviceRef::configure_fmmus` for one direction: new offset and new state. -/
def configureFmmus (m : Mode) (d : Device) (st : DevState) (off groupStart : Nat) (dir : Dir) :
    Out (Nat × DevState) :=
  if d.sms.length > 8 then .err .capacity
  else
    bind (if st.hasCoe then coeLoop m d dir (enumFrom 0 d.sms) st.regs off
          else eepromLoop m d dir (match dir with | .input => d.txPdos | .output => d.rxPdos)
                 (enumFrom 0 d.sms) st.regs off) fun p =>
    bind (subWrap m USIZE off groupStart) fun s =>
    bind (subWrap m USIZE p.2 groupStart) fun e =>
    .ok (p.2, match dir with
      | .input => { st with regs := p.1, input := (s, e) }
      | .output => { st with regs := p.1, output := (s, e) })

/-! ## `src/subdevice_group/mod.rs` -/

/-- One of the two `for subdevice in inner.subdevices.iter_mut()` loops of the group's `configure_fmmus`. -/
def passDir (m : Mode) (dir : Dir) (groupStart : Nat) :
    Nat → List (Device × DevState) → Out (Nat × List (Device × DevState))
  | off, [] => .ok (off, [])
  | off, (d, st) :: rest =>
    bind (configureFmmus m d st off groupStart dir) fun p =>
    bind (passDir m dir groupStart p.1 rest) fun q => .ok (q.1, (d, p.2) :: q.2)

structure GroupLayout where
  /-- `read_pdi_len`. -/
  readLen : Nat
  /-- `pdi_len`. -/
  pdiLen : Nat
  devs : List (Device × DevState)

/-- `SubDeviceGroup::configure_fmmus` up to (not including) the `PdiTooLong` test. -/
def groupLayout (m : Mode) (start : Nat) (devs : List (Device × DevState)) : Out GroupLayout :=
  bind (passDir m .input start start devs) fun p1 =>
  bind (subWrap m U32 p1.1 start) fun readLen =>
  bind (passDir m .output start p1.1 p1.2) fun p2 =>
  bind (subWrap m U32 p2.1 start) fun pdiLen =>
  .ok { readLen := readLen, pdiLen := pdiLen, devs := p2.2 }

/-- `if self.pdi_len > MAX_PDI { return Err(PdiTooLong) }`. -/
def checkLen (maxPdi : Nat) (g : GroupLayout) : Out GroupLayout :=
  if g.pdiLen > maxPdi then .err (.pdiTooLong maxPdi g.pdiLen) else .ok g

/-- `SubDeviceGroup::configure_fmmus` (called by `into_pre_op_pdi` / `into_safe_op` / `into_op`). -/
def groupConfigureFmmus (m : Mode) (start maxPdi : Nat) (devs : List (Device × DevState)) : Out GroupLayout :=
  bind (groupLayout m start devs) (checkLen maxPdi)

/-! ## `src/subdevice_group/handle.rs`, `src/maindevice.rs` -/

/-- The loop `offset = group.as_ref().into_pre_op(offset, self)` of `MainDevice::init` over the groups in
    `group_map` order: start address of every group; each advances by `MAX_PDI as u16`. -/
def groupStarts (m : Mode) : Nat → List Nat → Out (List Nat)
  | _, [] => .ok []
  | off, mp :: rest =>
    bind (increment m off (mp % U16)) fun off' =>
    bind (groupStarts m off' rest) fun l => .ok (off :: l)

/-- `init` inserts every device's group into a `heapless::FnvIndexMap` (an existing key keeps its position) and
    then walks `group_map.into_iter()`. heapless 0.8's `IntoIter::next` is `entries.pop()`: the groups come out
    in REVERSE order of first appearance. `seen` accumulates in exactly that order. -/
def groupMapOrder : List Nat → List Nat → List Nat
  | seen, [] => seen
  | seen, g :: rest => if seen.contains g then groupMapOrder seen rest else groupMapOrder (g :: seen) rest

/-- A network: devices in ring order with the group slot the filter closure puts each one in; MAX_PDI per slot. -/
structure Net where
  devices : List (Device × Nat)
  maxPdi : Nat → Nat

def Net.order (n : Net) : List Nat := groupMapOrder [] (n.devices.map (·.2))

def Net.members (n : Net) (slot : Nat) : List (Device × DevState) :=
  (n.devices.filter (fun x => x.2 == slot)).map fun x => (x.1, initDev x.1)

/-- `MainDevice::init` as far as the PDI is concerned: `configure_mailboxes` of every device reads the SyncM
    category (`Error::Capacity` for more than 8 entries fails the whole `init`), then the groups get their start
    addresses. Result: (slot, start address) in `group_map` order. -/
def initPhase (m : Mode) (n : Net) : Out (List (Nat × Nat)) :=
  if n.devices.any (fun x => decide (x.1.sms.length > 8)) then .err .capacity
  else bind (groupStarts m 0 (n.order.map n.maxPdi)) fun starts => .ok (n.order.zip starts)

/-- `init` followed by `into_safe_op` on every group: per group (slot, start address, outcome). The outcome of
    one group does not influence the computation of another (each works on its own devices; offsets were fixed
    by `init`). -/
def configNet (m : Mode) (n : Net) : Out (List (Nat × Nat × Out GroupLayout)) :=
  bind (initPhase m n) fun gs =>
  .ok (gs.map fun x => (x.1, x.2, groupConfigureFmmus m x.2 (n.maxPdi x.1) (n.members x.1)))

/-! ## Device side: what a programmed controller does with a logical address (ETG1000.4 §6.6, §6.7) -/

/-- Byte `a` of the logical address space through one FMMU entity, for a read (`write = false`) or write
    service: the physical byte address it is translated to. Byte-granular: the MainDevice only ever writes
    `logical_start_bit = 0`, `logical_end_bit = 7`, `physical_start_bit = 0` (theorem `fmmus_byte_aligned`). -/
def Fmmu.hit (f : Fmmu) (write : Bool) (a : Nat) : Option Nat :=
  if f.enable ∧ (if write then f.writeEn else f.readEn) ∧ f.logicalStart ≤ a ∧ a < f.logicalStart + f.length
  then some (f.physStart + (a - f.logicalStart)) else none

/-- All physical bytes of one controller that logical byte `a` is mapped to (one per matching FMMU entity;
    the controller has `count` entities, at most 16 exist in the register map). -/
def fmmuMap (fm : Nat → Fmmu) (count : Nat) (write : Bool) (a : Nat) : List Nat :=
  (List.range (min count 16)).filterMap fun i => (fm i).hit write a

/-- Physical window of a programmed sync manager channel: `(start, length)`. -/
def smWindow (s : SmReg) : Nat × Nat := (s.start, s.len)

/-- The `k`-th byte of the concatenation of physical ranges `(start, length)`. -/
def physAt : List (Nat × Nat) → Nat → Option Nat
  | [], _ => none
  | (s, n) :: rest, k => if k < n then some (s + k) else physAt rest (k - n)

/-- Sync managers of one direction (description order) with their programmed windows. -/
def smRanges (d : Device) (r : Regs) (dir : Dir) : List (Nat × Nat) :=
  ((enumFrom 0 d.sms).filter fun x => x.2.usageType == dir.smType).map fun x => smWindow (r.sm x.1)

/-! ## Exact (unbounded) bit lengths: what the PDO configuration requires -/

def natSum : List Nat → Nat
  | [] => 0
  | x :: xs => x + natSum xs

/-- Σ over assigned PDOs of (Σ mapping bits) × oversampling. -/
def coeBitsSpec (os : List (Nat × Nat)) (pdos : List CoePdo) : Nat :=
  natSum (pdos.map fun p => natSum p.mappings * oversamplingOf os p.index)

/-- Σ over the EEPROM PDOs of this sync manager of bits × oversampling. -/
def eepromBitsSpec (os : List (Nat × Nat)) (smIdx : Nat) (pdos : List Pdo) : Nat :=
  natSum ((pdos.filter fun p => p.sm == smIdx).map fun p => p.bitLen * oversamplingOf os p.index)

/-- Bits of sync manager `i` in direction `dir`, from CoE if the device has it, else from EEPROM. -/
def smBitsSpec (d : Device) (hasCoe : Bool) (dir : Dir) (i : Nat) : Nat :=
  if hasCoe then coeBitsSpec d.oversampling ((d.coe i).getD [])
  else eepromBitsSpec d.oversampling i (match dir with | .input => d.txPdos | .output => d.rxPdos)

/-- Required window length in bytes: Σ over the direction's sync managers of ⌈bits / 8⌉. -/
def windowLenSpec (d : Device) (hasCoe : Bool) (dir : Dir) : Nat :=
  natSum (((enumFrom 0 d.sms).filter fun x => x.2.usageType == dir.smType).map fun x =>
    (smBitsSpec d hasCoe dir x.1 + 7) / 8)

end Ec.Config
