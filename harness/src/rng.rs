//! SplitMix64: every random choice of every generator derives from one state seeded by VERIF_SEED.
#[derive(Clone)]
pub struct Rng(pub u64);

impl Rng {
    pub fn new(seed: u64) -> Self {
        Rng(seed ^ 0x9E37_79B9_7F4A_7C15)
    }
    pub fn next(&mut self) -> u64 {
        self.0 = self.0.wrapping_add(0x9E37_79B9_7F4A_7C15);
        let mut z = self.0;
        z = (z ^ (z >> 30)).wrapping_mul(0xBF58_476D_1CE4_E5B9);
        z = (z ^ (z >> 27)).wrapping_mul(0x94D0_49BB_1331_11EB);
        z ^ (z >> 31)
    }
    /// Uniform in `0..n` (n > 0).
    pub fn below(&mut self, n: u64) -> u64 {
        self.next() % n
    }
    /// Uniform in `lo..=hi`.
    pub fn range(&mut self, lo: u64, hi: u64) -> u64 {
        lo + self.below(hi - lo + 1)
    }
    pub fn chance(&mut self, num: u64, den: u64) -> bool {
        self.below(den) < num
    }
    pub fn byte(&mut self) -> u8 {
        self.next() as u8
    }
    pub fn bytes(&mut self, n: usize) -> Vec<u8> {
        (0..n).map(|_| self.byte()).collect()
    }
    pub fn pick<'a, T>(&mut self, xs: &'a [T]) -> &'a T {
        &xs[self.below(xs.len() as u64) as usize]
    }
    /// A value biased towards boundaries of `0..=max`.
    pub fn edgy(&mut self, max: u64) -> u64 {
        match self.below(8) {
            0 => 0,
            1 => max,
            2 => max.saturating_sub(1),
            3 => 1.min(max),
            _ => self.range(0, max),
        }
    }
}
