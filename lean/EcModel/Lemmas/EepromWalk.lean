/-
  The category walk over a well-formed SII image (C12): skipping, finding, reaching the End marker.
-/
import EcModel.Lemmas.EepromBasic
import EcModel.EepromSpec

namespace Ec.Eeprom
open Ec Ec.EepromSpec

/-- The memory holds the bytes `bs` from byte address `a`. -/
def Holds (rd : Nat → Nat) (a : Nat) (bs : List Nat) : Prop := slice rd a bs.length = bs

theorem Holds.append {rd : Nat → Nat} {a : Nat} {x y : List Nat} (h : Holds rd a (x ++ y)) :
    Holds rd a x ∧ Holds rd (a + x.length) y := by
  unfold Holds at h ⊢
  rw [List.length_append, ← slice_append] at h
  have hl : (slice rd a x.length).length = x.length := slice_length _ _ _
  exact List.append_inj h hl

theorem holds_of_append {rd : Nat → Nat} {a : Nat} {x y : List Nat}
    (hx : Holds rd a x) (hy : Holds rd (a + x.length) y) : Holds rd a (x ++ y) := by
  unfold Holds at hx hy ⊢
  rw [List.length_append, ← slice_append, hx, hy]

theorem Holds.get {rd : Nat → Nat} {a : Nat} {bs : List Nat} (h : Holds rd a bs) (i : Nat) (hi : i < bs.length) :
    rd (a + i) = bs.getD i 0 := by
  unfold Holds at h
  have := congrArg (fun l => l.getD i 0) h
  simp only [List.getD_eq_getElem?_getD, slice_getElem?, if_pos hi] at this
  simpa using this

/-- An image placed in memory holds each of its pieces. -/
theorem holds_imgRd (pre bs post : List Nat) (fill : Nat) :
    Holds (imgRd (pre ++ bs ++ post) fill) pre.length bs := by
  unfold Holds
  apply List.ext_getElem?
  intro i
  rw [slice_getElem?]
  by_cases hi : i < bs.length
  · rw [if_pos hi]
    simp only [imgRd, List.getD_eq_getElem?_getD]
    rw [List.append_assoc, List.getElem?_append_right (by omega), Nat.add_sub_cancel_left,
      List.getElem?_append_left hi]
    simp [List.getElem?_eq_getElem hi]
  · rw [if_neg hi]; simp; omega

theorem chunk_rd16 (p : Prov) (hcs : 4 ≤ p.cs) (wa : Nat) :
    rd16 (chunkAt p wa) = p.rd (2 * wa) + 256 * p.rd (2 * wa + 1) ∧
    rd16 ((chunkAt p wa).drop 2) = p.rd (2 * wa + 2) + 256 * p.rd (2 * wa + 3) := by
  unfold chunkAt
  rw [slice_drop]
  simp only [rd16, List.getD_eq_getElem?_getD, slice_getElem?]
  rw [if_pos (by omega), if_pos (by omega), if_pos (by omega), if_pos (by omega)]
  simp [Nat.add_assoc]

/-- The two header words of a category stored at word `wa`. -/
theorem header_words (p : Prov) (hcs : 4 ≤ p.cs) (wa : Nat) (c : Cat) (hc : c.WF) (rest : List Nat)
    (hh : Holds p.rd (2 * wa) (encCat c ++ rest)) :
    rd16 (chunkAt p wa) = c.type ∧ rd16 ((chunkAt p wa).drop 2) = c.body.length / 2 := by
  have h4 : Holds p.rd (2 * wa) (le16 c.type ++ le16 (c.body.length / 2)) := by
    have := hh.append.1
    unfold encCat at this
    exact this.append.1
  have g0 := h4.get 0 (by simp [le16])
  have g1 := h4.get 1 (by simp [le16])
  have g2 := h4.get 2 (by simp [le16])
  have g3 := h4.get 3 (by simp [le16])
  simp [le16] at g0 g1 g2 g3
  obtain ⟨h1, h2⟩ := chunk_rd16 p hcs wa
  rw [h1, h2, g0, g1, g2, g3]
  have := hc.1; have := hc.2.2
  constructor <;> omega

theorem encCat_length (c : Cat) : (encCat c).length = 4 + c.body.length := by
  simp [encCat, le16]; omega

/-- One iteration over a category that is neither the one searched for nor the End marker. -/
theorem catLoop_skip (m : Mode) (p : Prov) (hcs : 4 ≤ p.cs) (cat : Nat) (fuel wa ne calls : Nat) (c : Cat)
    (hc : c.WF) (rest : List Nat) (hh : Holds p.rd (2 * wa) (encCat c ++ rest))
    (hne : ne + (if c.body.length / 2 = 0 then 1 else 0) < 32)
    (hcat : catOf c.type ≠ cat) (hend : catOf c.type ≠ Gen.Eeprom.CAT_END)
    (hroom : 2 * wa + 4 + c.body.length < 131072) :
    catLoop m p cat (fuel + 1) wa ne calls
      = catLoop m p cat fuel (wa + 2 + c.body.length / 2) (ne + (if c.body.length / 2 = 0 then 1 else 0))
          (calls + 1) := by
  obtain ⟨ht, hl⟩ := header_words p hcs wa c hc rest hh
  have hb := hc.2.1
  have hstep : catStep m cat (chunkAt p wa) wa ne
      = (.ok (.next (wa + 2 + c.body.length / 2) (ne + (if c.body.length / 2 = 0 then 1 else 0))), 0) := by
    unfold catStep
    rw [if_neg (by omega), if_neg (by simp; omega), ht, hl]
    dsimp only
    generalize hx : (if c.body.length / 2 = 0 then ne + 1 else ne) = x
    have hx' : x = ne + (if c.body.length / 2 = 0 then 1 else 0) := by rw [← hx]; split <;> rfl
    rw [if_neg (by simp only [Gen.Eeprom.EMPTY_CATEGORY_LIMIT]; omega)]
    rw [if_neg hcat, if_neg hend, if_pos (by omega), hx']
    rfl
  generalize hR : catLoop m p cat fuel (wa + 2 + c.body.length / 2)
    (ne + (if c.body.length / 2 = 0 then 1 else 0)) (calls + 1) = R
  unfold catLoop
  rw [hstep]
  exact hR

/-- The iteration that finds the category searched for. -/
theorem catLoop_found (m : Mode) (p : Prov) (hcs : 4 ≤ p.cs) (cat : Nat) (fuel wa ne calls : Nat) (c : Cat)
    (hc : c.WF) (rest : List Nat) (hh : Holds p.rd (2 * wa) (encCat c ++ rest))
    (hne : ne + (if c.body.length / 2 = 0 then 1 else 0) < 32)
    (hcat : catOf c.type = cat) (hroom : 2 * wa + 4 + c.body.length ≤ 131072) (hstart : 2 * wa + 4 < 131072) :
    catLoop m p cat (fuel + 1) wa ne calls
      = (.ok (some ⟨2 * wa + 4, 2 * wa + 4 + c.body.length⟩), calls + 1) := by
  obtain ⟨ht, hl⟩ := header_words p hcs wa c hc rest hh
  have hb := hc.2.1
  have hstep : catStep m cat (chunkAt p wa) wa ne
      = (.ok (.done (some ⟨2 * wa + 4, 2 * wa + 4 + c.body.length⟩)), 0) := by
    unfold catStep
    rw [if_neg (by omega), if_neg (by simp; omega), ht, hl]
    dsimp only
    generalize hx : (if c.body.length / 2 = 0 then ne + 1 else ne) = x
    have hx' : x = ne + (if c.body.length / 2 = 0 then 1 else 0) := by rw [← hx]; split <;> rfl
    rw [if_neg (by simp only [Gen.Eeprom.EMPTY_CATEGORY_LIMIT]; omega)]
    rw [if_pos hcat]
    unfold Range.new
    simp only [bind_ret]
    have e : (⟨(wa + 2) * 2, min ((wa + 2) * 2 + c.body.length / 2 * 2) ADDRESS_SPACE_BYTES⟩ : Range)
        = ⟨2 * wa + 4, 2 * wa + 4 + c.body.length⟩ := by
      unfold ADDRESS_SPACE_BYTES
      congr 1 <;> omega
    rw [e]; rfl
  unfold catLoop
  rw [hstep]

/-- The iteration that reads the End marker. -/
theorem catLoop_end (m : Mode) (p : Prov) (hcs : 4 ≤ p.cs) (cat : Nat) (fuel wa ne calls : Nat)
    (hh : Holds p.rd (2 * wa) [0xff, 0xff]) (hcat : cat ≠ Gen.Eeprom.CAT_END) (hroom : 2 * wa + 4 < 131072) :
    (catLoop m p cat (fuel + 1) wa ne calls).1 = .ok none := by
  have g0 := hh.get 0 (by simp)
  have g1 := hh.get 1 (by simp)
  simp at g0 g1
  obtain ⟨h1, _⟩ := chunk_rd16 p hcs wa
  have ht : catOf (rd16 (chunkAt p wa)) = Gen.Eeprom.CAT_END := by rw [h1, g0, g1]; decide
  have hstep : (catStep m cat (chunkAt p wa) wa ne).1 = .ok (.done none) := by
    unfold catStep
    rw [if_neg (by omega), if_neg (by simp; omega)]
    dsimp only
    generalize (if rd16 (List.drop 2 (chunkAt p wa)) = 0 then ne + 1 else ne) = x
    by_cases hlim : x ≥ Gen.Eeprom.EMPTY_CATEGORY_LIMIT
    · rw [if_pos hlim]; rfl
    · rw [if_neg hlim, ht, if_neg (fun h => hcat h.symm), if_pos rfl]
      rfl
  unfold catLoop
  generalize catStep m cat (chunkAt p wa) wa ne = st at hstep
  obtain ⟨o, c⟩ := st
  simp only at hstep
  rw [hstep]

theorem encCats_length_ge (cs : List Cat) : 4 * cs.length ≤ (encCats cs).length := by
  induction cs with
  | nil => simp [encCats]
  | cons c cs ih => simp [encCats, encCat_length]; omega

theorem encCats_length_even (cs : List Cat) (h : ∀ c ∈ cs, c.WF) : (encCats cs).length % 2 = 0 := by
  induction cs with
  | nil => simp [encCats]
  | cons c cs ih =>
    have hc := (h c (by simp)).2.1
    have := ih (fun c' hc' => h c' (by simp [hc']))
    simp [encCats, encCat_length]; omega

/-- Walking over a run of categories none of which is the one searched for. -/
theorem catLoop_walk (m : Mode) (p : Prov) (hcs : 4 ≤ p.cs) (cat : Nat) :
    ∀ (pre : List Cat) (rest : List Nat) (fuel wa ne calls : Nat),
      (∀ c ∈ pre, c.WF ∧ catOf c.type ≠ cat ∧ catOf c.type ≠ Gen.Eeprom.CAT_END) →
      Holds p.rd (2 * wa) (encCats pre ++ rest) →
      ne + empties pre < 32 →
      2 * wa + (encCats pre).length < 131072 →
      catLoop m p cat (fuel + pre.length) wa ne calls
        = catLoop m p cat fuel (wa + (encCats pre).length / 2) (ne + empties pre) (calls + pre.length) := by
  intro pre
  induction pre with
  | nil => intro rest fuel wa ne calls _ _ _ _; simp [encCats, empties]
  | cons c pre ih =>
    intro rest fuel wa ne calls hall hh hne hroom
    have hc := hall c (by simp)
    have hpre : ∀ c' ∈ pre, c'.WF ∧ catOf c'.type ≠ cat ∧ catOf c'.type ≠ Gen.Eeprom.CAT_END :=
      fun c' hc' => hall c' (by simp [hc'])
    simp only [encCats, List.append_assoc] at hh
    have hlen : (encCats (c :: pre)).length = 4 + c.body.length + (encCats pre).length := by
      simp [encCats, encCat_length]
    rw [hlen] at hroom
    simp only [empties] at hne
    rw [show fuel + (c :: pre).length = (fuel + pre.length) + 1 by simp; omega]
    rw [catLoop_skip m p hcs cat _ wa ne calls c hc.1 _ hh (by omega) hc.2.1 hc.2.2 (by omega)]
    have hh2 : Holds p.rd (2 * (wa + 2 + c.body.length / 2)) (encCats pre ++ rest) := by
      have := hh.append.2
      rw [encCat_length] at this
      have he := hc.1.2.1
      rw [show 2 * (wa + 2 + c.body.length / 2) = 2 * wa + (4 + c.body.length) by omega]
      exact this
    rw [ih rest fuel _ _ _ hpre hh2 (by omega) (by have := hc.1.2.1; omega)]
    have hev := encCats_length_even pre (fun c' hc' => (hpre c' hc').1)
    have he := hc.1.2.1
    congr 1
    · rw [hlen]; omega
    · simp only [empties]; omega
    · simp; omega

end Ec.Eeprom
