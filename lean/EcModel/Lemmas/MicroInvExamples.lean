/-
  Decision procedures for the hypotheses of the micro-step ownership theorems (so that concrete
  schedules can be checked by `decide`), and the concrete witness worlds used by `Props/C02Micro.lean`.

  Why the witnesses are "mid-execution" worlds: `Micro.begin` parses the operation strings
  (`String.splitOn`, `String.toNat?`), which the kernel cannot evaluate, so `decide` cannot run a
  program from its first operation. Each witness world below is therefore written down literally,
  PROVED to satisfy the invariant `MInv`, and additionally checked (`#guard`, executable model) to be
  exactly the world the model reaches from the fresh world with the stated string programs and
  schedule — the same case line the harness can replay on the real code.
-/
import EcModel.Lemmas.MicroInvMain

namespace Ec.Micro
open Ec

/-! ## deciding `AbandonInsideStep` and `SafeSched` -/

theorem holds_rx_iff (t : Thread) (k : Nat) : Holds t k .rx ↔ t.pc.claim = some (k, .rx) := by
  rw [← tcount_pos_iff, ← pcount_pos_iff, tcount, hcount_rx, Nat.add_zero]

/-- Register of the future a thread is about to abandon (plain store of `None`). -/
def abandonReg : Pc → Option Nat
  | .dfStore r => some r
  | .poRelease r => some r
  | _ => none

theorem abandonReg_iff (pc : Pc) (r : Nat) : abandonReg pc = some r ↔ (pc = .dfStore r ∨ pc = .poRelease r) := by
  cases pc <;> simp [abandonReg]

def abandonInsideB (w : MWorld) (tid : Nat) : Bool :=
  match w.threads[tid]? with
  | none => false
  | some t =>
    match abandonReg t.pc with
    | none => false
    | some r =>
      decide ((w.sys.slot (slotOf t r)).st = .sending) ||
      (decide ((w.sys.slot (slotOf t r)).st = .rxBusy) &&
        w.threads.any (fun t' => decide (t'.pc.claim = some (slotOf t r, .rx))))

theorem abandonInside_iff (w : MWorld) (tid : Nat) : AbandonInsideStep w tid ↔ abandonInsideB w tid = true := by
  unfold AbandonInsideStep abandonInsideB
  cases ht : w.threads[tid]? with
  | none => simp
  | some t =>
    cases hr : abandonReg t.pc with
    | none =>
      simp only [hr, Bool.false_eq_true, iff_false]
      rintro ⟨t', r, e, hpc, _⟩
      cases e
      have := (abandonReg_iff _ r).mpr hpc
      rw [hr] at this; cases this
    | some r =>
      have hpc := (abandonReg_iff _ r).mp hr
      simp only [hr, Bool.or_eq_true, Bool.and_eq_true, decide_eq_true_eq, List.any_eq_true]
      constructor
      · rintro ⟨t', r', e, hpc', h⟩
        cases e
        have e2 := (abandonReg_iff _ r').mpr hpc'
        rw [hr] at e2
        cases e2
        rcases h with h | ⟨h1, t2, hm, h2⟩
        · exact Or.inl h
        · exact Or.inr ⟨h1, t2, hm, (holds_rx_iff _ _).mp h2⟩
      · intro h
        refine ⟨t, r, rfl, hpc, ?_⟩
        rcases h with h | ⟨h1, t2, hm, h2⟩
        · exact Or.inl h
        · exact Or.inr ⟨h1, t2, hm, (holds_rx_iff _ _).mpr h2⟩

instance (w : MWorld) (tid : Nat) : Decidable (AbandonInsideStep w tid) :=
  decidable_of_iff _ (abandonInside_iff w tid).symm

def safeSchedB : MWorld → List Tick → Bool
  | _, [] => true
  | w, x :: rest =>
    (match x with
     | .run tid => !abandonInsideB w tid
     | .advance _ => true) && safeSchedB (tick w x) rest

theorem safeSched_iff (w : MWorld) (sched : List Tick) : SafeSched w sched ↔ safeSchedB w sched = true := by
  induction sched generalizing w with
  | nil => simp [SafeSched, safeSchedB]
  | cons x rest ih =>
    cases x with
    | run tid => simp [SafeSched, safeSchedB, ih, abandonInside_iff]
    | advance us => simp [SafeSched, safeSchedB, ih]

instance (w : MWorld) (sched : List Tick) : Decidable (SafeSched w sched) :=
  decidable_of_iff _ (safeSched_iff w sched).symm

/-! ## quiet worlds -/

/-- A thread that holds nothing and is at a program counter that claims and needs nothing (e.g.
    idle, or at the first shared access of `al` / `tn` / `rx`). -/
def Quiet (n : Nat) (t : Thread) : Prop :=
  t.regs = [] ∧ t.pc.claim = none ∧ t.pc.needs = none ∧
  (match t.pc with
   | .alCas _ _ idx => idx < n
   | _ => True)

theorem MInv_of_quiet (w : MWorld) (hn : 0 < w.sys.n) (hq : ∀ t ∈ w.threads, Quiet w.sys.n t) : MInv w := by
  refine ⟨hn, ?_, ?_, ?_⟩
  · intro t ht
    rw [(hq t ht).1]; simp [Regs]
  · intro t ht
    obtain ⟨_, _, h3, h4⟩ := hq t ht
    unfold PcOk
    rw [h3]
    exact ⟨trivial, h4⟩
  · intro k ρ
    have : wcount w.threads k ρ = 0 := by
      apply wcount_zero
      intro t ht hh
      obtain ⟨h1, h2, _, _⟩ := hq t ht
      rcases hh with hc | ⟨h, hm, _⟩
      · rw [h2] at hc; cases hc
      · rw [h1] at hm; cases hm
    omega

/-! ## witness 1 (non-vacuity): one thread allocates while a TX thread polls -/

/-- Two threads on one slot: thread 0 has begun `al,0` (it is at `alloc_frame`'s first shared
    access), thread 1 has begun `tn,0` (`next_sendable_frame`). -/
def wStart : MWorld :=
  { sys := Sys.init 1 20,
    threads := [{ prog := [], pc := .alFetch 0 0, regs := [], outs := [] },
                { prog := [], pc := .tnCas 0 0, regs := [], outs := [] }] }

theorem wStart_inv : MInv wStart := by
  refine MInv_of_quiet wStart (by decide) ?_
  intro t ht
  simp only [wStart, List.mem_cons, List.not_mem_nil, or_false] at ht
  rcases ht with rfl | rfl <;> exact ⟨rfl, rfl, rfl, trivial⟩

#guard (repr (runSched (initWorld 1 20 0 0 [["al,0"], ["tn,0"]]) [.run 0, .run 1])).pretty
    == (repr wStart).pretty

/-! ## witness 2: the future is dropped while TX holds the frame -/

/-- Thread 0 ran `al,0; mk,0,0,1000` and has begun `df,0` (it is about to store `None`); thread 1 ran
    `tn,0` and holds the `SendableFrame` (status `Sending`); thread 2 has begun `al,0`. -/
def wTx : MWorld :=
  { sys := { data := 20,
             slots := [{ st := .sending, first := 65280, used := 0,
                         buf := [255, 255, 255, 255, 255, 255, 16, 16, 16, 16, 16, 16, 136, 164, 0, 16, 0, 0, 0, 0] }],
             frameIdx := 1, pduIdx := 0, now := 0, exit := false },
    threads := [{ prog := [], pc := .dfStore 0, regs := [{ reg := 0, slot := 0, kind := .fut 0 1000 1000 false }],
                  outs := ["ok", "ok.0"] },
                { prog := [], pc := .idle, regs := [{ reg := 0, slot := 0, kind := .sendable }],
                  outs := ["some.0"] },
                { prog := [], pc := .alFetch 0 0, regs := [], outs := [] }] }

def progsTx : List (List String) := [["al,0", "mk,0,0,1000", "df,0"], ["tn,0"], ["al,0"]]
def preTx : List Tick := List.replicate 10 (Tick.run 0) ++ [.run 1, .run 1, .run 0, .run 2]

#guard (repr (runSched (initWorld 1 20 0 0 progsTx) preTx)).pretty == (repr wTx).pretty

theorem wTx_inv : MInv wTx := by
  refine ⟨by decide, ?_, ?_, ?_⟩
  · intro t ht
    simp only [wTx, List.mem_cons, List.not_mem_nil, or_false] at ht
    rcases ht with rfl | rfl | rfl <;> simp [Regs]
  · intro t ht
    simp only [wTx, List.mem_cons, List.not_mem_nil, or_false] at ht
    rcases ht with rfl | rfl | rfl
    · exact ⟨⟨_, rfl, rfl⟩, trivial⟩
    · exact ⟨trivial, trivial⟩
    · exact ⟨trivial, trivial⟩
  · intro k ρ
    by_cases hk : k = 0
    · subst hk; cases ρ <;> decide
    · have h0 : ¬ 0 = k := fun h => hk h.symm
      have : wcount wTx.threads k ρ = 0 := by
        simp [wTx, wcount, tcount, pcount, Pc.claim, hcount, one, h0]
      rw [this]; exact Nat.zero_le _

/-! ## witness 3: the future is dropped while RX is inside the frame -/

/-- Thread 0 ran `al,0; pu,0,brd.0.0,00,-; mk,0,0,1000` and has begun `df,0`; thread 1 ran
    `tn,0; ts,0,0` (frame sent); thread 2 is inside `receive_frame` for the response, after
    `claim_receiving` and the marker re-check, about to copy (status `RxBusy`); thread 3 has begun `al,0`. -/
def wRx : MWorld :=
  { sys := { data := 40,
             slots := [{ st := .rxBusy, first := 0, used := 13,
                         buf := [255, 255, 255, 255, 255, 255, 16, 16, 16, 16, 16, 16, 136, 164, 13, 16, 7, 0, 0, 0,
                                 0, 0, 1, 0, 0, 0, 0, 0, 0, 0, 0, 0, 0, 0, 0, 0, 0, 0, 0, 0] }],
             frameIdx := 1, pduIdx := 1, now := 0, exit := false },
    threads := [{ prog := [], pc := .dfStore 0, regs := [{ reg := 0, slot := 0, kind := .fut 0 1000 1000 false }],
                  outs := ["ok", "ok.0.0.7.13", "ok.0"] },
                { prog := [], pc := .idle, regs := [],
                  outs := ["ok.ffffffffffff10101010101088a40d1007000000000001000000000000", "some.0"] },
                { prog := [], pc := .rxCopy 0 [7, 0, 0, 0, 0, 0, 1, 0, 0, 0, 0, 1, 0], regs := [], outs := [] },
                { prog := [], pc := .alFetch 0 0, regs := [], outs := [] }] }

def progsRx : List (List String) :=
  [["al,0", "pu,0,brd.0.0,00,-", "mk,0,0,1000", "df,0"], ["tn,0", "ts,0,0"],
   ["rx,ffffffffffff12101010101088a40d1007000000000001000000000100"], ["al,0"]]
def preRx : List Tick :=
  List.replicate 14 (Tick.run 0) ++ List.replicate 5 (.run 1) ++ List.replicate 5 (.run 2) ++ [.run 0, .run 3]

#guard (repr (runSched (initWorld 1 40 0 0 progsRx) preRx)).pretty == (repr wRx).pretty

theorem wRx_inv : MInv wRx := by
  refine ⟨by decide, ?_, ?_, ?_⟩
  · intro t ht
    simp only [wRx, List.mem_cons, List.not_mem_nil, or_false] at ht
    rcases ht with rfl | rfl | rfl | rfl <;> simp [Regs]
  · intro t ht
    simp only [wRx, List.mem_cons, List.not_mem_nil, or_false] at ht
    rcases ht with rfl | rfl | rfl | rfl
    · exact ⟨⟨_, rfl, rfl⟩, trivial⟩
    · exact ⟨trivial, trivial⟩
    · exact ⟨trivial, trivial⟩
    · exact ⟨trivial, trivial⟩
  · intro k ρ
    by_cases hk : k = 0
    · subst hk; cases ρ <;> decide
    · have h0 : ¬ 0 = k := fun h => hk h.symm
      have : wcount wRx.threads k ρ = 0 := by
        simp [wRx, wcount, tcount, pcount, Pc.claim, hcount, one, h0]
      rw [this]; exact Nat.zero_le _

/-! ## witness 4: the future is dropped while nobody is inside (the abandonment the theorem covers) -/

/-- As `wTx`, before the TX thread has claimed the frame (status `Sendable`). -/
def wSafe : MWorld :=
  { sys := { data := 20,
             slots := [{ st := .sendable, first := 65280, used := 0,
                         buf := [255, 255, 255, 255, 255, 255, 16, 16, 16, 16, 16, 16, 136, 164, 0, 16, 0, 0, 0, 0] }],
             frameIdx := 1, pduIdx := 0, now := 0, exit := false },
    threads := [{ prog := [], pc := .dfStore 0, regs := [{ reg := 0, slot := 0, kind := .fut 0 1000 1000 false }],
                  outs := ["ok", "ok.0"] },
                { prog := [], pc := .tnCas 0 0, regs := [], outs := [] },
                { prog := [], pc := .alFetch 0 0, regs := [], outs := [] }] }

#guard (repr (runSched (initWorld 1 20 0 0 progsTx) (List.replicate 10 (Tick.run 0) ++ [.run 1, .run 0, .run 2]))).pretty
    == (repr wSafe).pretty

theorem wSafe_inv : MInv wSafe := by
  refine ⟨by decide, ?_, ?_, ?_⟩
  · intro t ht
    simp only [wSafe, List.mem_cons, List.not_mem_nil, or_false] at ht
    rcases ht with rfl | rfl | rfl <;> simp [Regs]
  · intro t ht
    simp only [wSafe, List.mem_cons, List.not_mem_nil, or_false] at ht
    rcases ht with rfl | rfl | rfl
    · exact ⟨⟨_, rfl, rfl⟩, trivial⟩
    · exact ⟨trivial, trivial⟩
    · exact ⟨trivial, trivial⟩
  · intro k ρ
    by_cases hk : k = 0
    · subst hk; cases ρ <;> decide
    · have h0 : ¬ 0 = k := fun h => hk h.symm
      have : wcount wSafe.threads k ρ = 0 := by
        simp [wSafe, wcount, tcount, pcount, Pc.claim, hcount, one, h0]
      rw [this]; exact Nat.zero_le _

/-! ## witness 5: a handle overwritten in its register (why `MOwned` needs `¬ ClobberStep`) -/

/-- Thread 0 ran `al,0` (slot 0, register 0) and is at the last step of a second `al,0` (slot 1): the
    new `CreatedFrame` goes into register 0, which is occupied. -/
def wClobber : MWorld :=
  { sys := { data := 20,
             slots := [{ st := .created, first := 65280, used := 0,
                         buf := [255, 255, 255, 255, 255, 255, 16, 16, 16, 16, 16, 16, 136, 164, 0, 0, 0, 0, 0, 0] },
                       { st := .created, first := 65280, used := 0,
                         buf := [0, 0, 0, 0, 0, 0, 0, 0, 0, 0, 0, 0, 0, 0, 0, 0, 0, 0, 0, 0] }],
             frameIdx := 2, pduIdx := 0, now := 0, exit := false },
    threads := [{ prog := [], pc := .alBuf 0 1, regs := [{ reg := 0, slot := 0, kind := .created 0 none }],
                  outs := ["ok.0"] }] }

#guard (repr (runSched (initWorld 2 20 0 0 [["al,0", "al,0"]]) (List.replicate 11 (Tick.run 0)))).pretty
    == (repr wClobber).pretty

end Ec.Micro
