/-
  EcModel.EepromSpec — the specification side of the EEPROM properties: what memory should look like after a
  write, and how a device description is laid out in an SII image (ETG2010 / ETG1000.6 §5.4), written
  independently of the parser model in `EcModel.Eeprom`. Import-free apart from Basic/Generated.
-/
import EcModel.Basic
import EcModel.Generated.Eeprom

namespace Ec.EepromSpec
open Ec

/-- Memory after storing the bytes `bs` at byte address `a`; every other byte keeps its value. -/
def storeAt (rd : Nat → Nat) (a : Nat) (bs : List Nat) : Nat → Nat :=
  fun x => if a ≤ x ∧ x < a + bs.length then bs.getD (x - a) 0 else rd x

/-- A byte string padded with one zero byte when its length is odd. -/
def padEven (bs : List Nat) : List Nat := if bs.length % 2 = 1 then bs ++ [0] else bs

/-- The `(word address, low byte, high byte)` triples of an (even-length) byte string stored from word `w`. -/
def wordsAt (w : Nat) : List Nat → List (Nat × Nat × Nat)
  | b0 :: b1 :: rest => (w, b0, b1) :: wordsAt (w + 1) rest
  | _ => []

theorem padEven_length_even (bs : List Nat) : (padEven bs).length % 2 = 0 := by
  unfold padEven; split
  · simp; omega
  · omega

/-! ### CRC-8 as polynomial division over GF(2)

  A natural number stands for the polynomial whose coefficients are its binary digits; addition of polynomials
  is `^^^`, multiplication by `x^k` is multiplication by `2^k`. -/

/-- Carry-less product with explicit fuel (structural, so the kernel can evaluate it). -/
def clmulF : Nat → Nat → Nat → Nat
  | 0, _, _ => 0
  | f + 1, q, g => (if q % 2 = 1 then g else 0) ^^^ 2 * clmulF f (q / 2) g

/-- Product of the polynomials `q` and `g` over GF(2). -/
def clmul (q g : Nat) : Nat := clmulF q q g

/-- The generator `x^8 + x^2 + x + 1` (width and low coefficients come from `ECAT_CRC_ALGORITHM` in /repo). -/
def crcG : Nat := 2 ^ Gen.Eeprom.CRC_WIDTH + Gen.Eeprom.CRC_POLY

/-- The message as a polynomial: first byte most significant, each byte MSB first (no reflection). -/
def msgPoly (bytes : List Nat) : Nat := bytes.foldl (fun a b => a * 256 + b) 0

/-! ### SII image layout (ETG2010 Table 2, ETG1000.6 §5.4) -/

/-- One category: raw type word and body. -/
structure Cat where
  type : Nat
  body : List Nat
  deriving Repr

/-- Type word, length in words, body. -/
def encCat (c : Cat) : List Nat := le16 c.type ++ le16 (c.body.length / 2) ++ c.body

def encCats : List Cat → List Nat
  | [] => []
  | c :: cs => encCat c ++ encCats cs

/-- A whole image: 128 bytes of fixed header (word addresses 0x00..0x3F), the categories in the order given,
    the End marker 0xFFFF. -/
def encodeSii (hdr : List Nat) (cats : List Cat) : List Nat := hdr ++ encCats cats ++ [0xff, 0xff]

/-- Device memory holding an image; bytes past it read as `fill`. -/
def imgRd (img : List Nat) (fill : Nat) : Nat → Nat := fun a => img.getD a fill

/-- Number of zero-length categories in a list (the parser gives up after 32 of them). -/
def empties : List Cat → Nat
  | [] => 0
  | c :: cs => (if c.body.length / 2 = 0 then 1 else 0) + empties cs

/-- A category as ETG2010 allows it: 16-bit type, even body shorter than 2^17 bytes. -/
def Cat.WF (c : Cat) : Prop := c.type < 65536 ∧ c.body.length % 2 = 0 ∧ c.body.length / 2 < 65536

/-- Sync manager as described in the image. -/
structure SmDesc where
  start : Nat
  len : Nat
  control : Nat
  status : Nat
  enable : Nat
  usage : Nat
  deriving Repr

/-- ETG2010 Table 11: start, length, control, status (don't care), enable, type. -/
def encSm (s : SmDesc) : List Nat := le16 s.start ++ le16 s.len ++ [s.control, s.status, s.enable, s.usage]

def SmDesc.WF (s : SmDesc) : Prop :=
  s.start < 65536 ∧ s.len < 65536 ∧ s.control < 256 ∧ s.status < 256 ∧ s.enable ≤ 15 ∧ s.usage ≤ 4

/-- Strings category body: count, then (length, bytes) per string. -/
def encStrings (ss : List (List Nat)) : List Nat :=
  ss.length :: (ss.flatMap fun s => s.length :: s)

/-- The fixed header fields ethercrab reads: identity at word 8, mailbox at word 0x18, size at word 0x3E. -/
def Header (hdr : List Nat) : Prop := hdr.length = 128

end Ec.EepromSpec
