/- Line protocol for C08.

   `c08 <checked|wrapping> <maxpdi0>,<maxpdi1>,<maxpdi2> <dev>|<dev>|...`
   dev = `<slot>/<recv>.<send>.<protocols>/<sms>/<fmmu usage>/<fmmu_ex>/<tx pdos>/<rx pdos>/<oversampling>/<fmmu count>`
     sms          `start.control.enable.usage,...` | `-`
     fmmu usage   `u,u,...` | `-`           fmmu_ex `sm,sm,...` | `-`
     pdos         `index.sm.b+b+b,...` | `-`  (a PDO without entries: `index.sm.e`)
     oversampling `index.mul,...` | `-`
   answer = `<group>;<group>;...|<dev>;<dev>;...`
     group  `slot:start:ok.<read_len>.<pdi_len>` | `slot:start:err.<Token>` | `slot:start:panic` | `slot:start:skipped`
     dev    `<in0>.<in1>.<out0>.<out1>,<regs>` with regs = `S<i>=<8 bytes hex>+F<i>=<16 bytes hex>+...` | `-`;
            windows are `x` unless the group succeeded, regs are `x` unless it succeeded or was too long.

   The CoE view of a device is derived from the PDO lists the way the simulator builds its object dictionary
   (assignment object 0x1C10+i exists iff SM i is declared as type 3/4). Register images are packed through the
   REGENERATED wire layouts `S_Fmmu` / `S_SyncManagerChannel` (T1). -/
import EcModel.Config
import EcModel.Generated.Layouts
import EcModel.Drv.Util

namespace Ec.Drv.C08
open Ec Ec.Drv Ec.Config

def listOf (s : String) (sep : String) : List String := if s = "-" then [] else splitOn s sep

def parseSm (s : String) : SmDesc :=
  match splitOn s "." with
  | [a, c, e, u] => { start := nat! a, control := nat! c, enable := nat! e, usage := nat! u }
  | _ => { start := 0, control := 0, enable := 0, usage := 0 }

/-- (index, sm, entry bit lengths) -/
def parsePdo (s : String) : Nat × Nat × List Nat :=
  match splitOn s "." with
  | [i, sm, es] => (nat! i, nat! sm, if es = "e" then [] else (splitOn es "+").map nat!)
  | _ => (0, 0, [])

def parsePair (s : String) : Nat × Nat :=
  match splitOn s "." with
  | [a, b] => (nat! a, nat! b)
  | _ => (0, 0)

def sumNat (l : List Nat) : Nat := l.foldl (· + ·) 0

def mkDevice (mbx sms fu fex tx rx os cnt : String) : Device :=
  let smL := (listOf sms ",").map parseSm
  let txL := (listOf tx ",").map parsePdo
  let rxL := (listOf rx ",").map parsePdo
  let mb : MailboxCfg := match splitOn mbx "." with
    | [r, s, p] => { recvSize := nat! r, sendSize := nat! s, protocols := nat! p }
    | _ => {}
  { mailbox := mb
    sms := smL
    fmmuUsage := (listOf fu ",").map fun x => if nat! x = 255 then 0 else nat! x
    fmmuEx := (listOf fex ",").map nat!
    txPdos := txL.map fun p => { index := p.1, sm := p.2.1, bitLen := sumNat p.2.2 }
    rxPdos := rxL.map fun p => { index := p.1, sm := p.2.1, bitLen := sumNat p.2.2 }
    coe := fun i =>
      match smL[i]? with
      | some s =>
        if s.usage = 3 then some ((rxL.filter fun p => p.2.1 == i).map fun p => { index := p.1, mappings := p.2.2 })
        else if s.usage = 4 then some ((txL.filter fun p => p.2.1 == i).map fun p => { index := p.1, mappings := p.2.2 })
        else none
      | none => none
    oversampling := (listOf os ",").map parsePair
    fmmuCount := nat! cnt }

def parseDev (s : String) : Device × Nat :=
  match splitOn s "/" with
  | [slot, mbx, sms, fu, fex, tx, rx, os, cnt] => (mkDevice mbx sms fu fex tx rx os cnt, nat! slot)
  | _ => (mkDevice "-" "-" "-" "-" "-" "-" "-" "0", 0)

open Ec.Wire Ec.Gen.Layouts in
def fmmuBytes (f : Fmmu) : String :=
  match (structCodec S_Fmmu).pack (.seq [.int f.logicalStart, .int f.length, .int f.startBit, .int f.endBit,
      .int f.physStart, .int f.physBit, .bool f.readEn, .bool f.writeEn, .bool f.enable]) with
  | .ok b => hexBytes b
  | _ => "pack-error"

open Ec.Wire Ec.Gen.Layouts in
def smBytes (s : SmReg) : String :=
  let c := s.control
  let ctl : Val := .seq [.unit (if c % 4 = 2 then 1 else 0), .unit (c / 4 % 4), .bool (c / 16 % 2 == 1),
    .bool (c / 32 % 2 == 1), .bool (c / 64 % 2 == 1)]
  let st : Val := .seq [.bool false, .bool false, .bool false, .unit 0, .bool false, .bool false]
  let en : Val := .seq [.bool s.enable, .bool false, .bool false, .bool false, .bool false, .bool false]
  match (structCodec S_SyncManagerChannel).pack (.seq [.int s.start, .int s.len, ctl, st, en]) with
  | .ok b => hexBytes b
  | _ => "pack-error"

def showRegs (r : Regs) : String :=
  let sms := (List.range 16).filterMap fun i =>
    if r.sm i = {} then none else some s!"S{i}={smBytes (r.sm i)}"
  let fs := (List.range 16).filterMap fun i =>
    if r.fmmu i = {} then none else some s!"F{i}={fmmuBytes (r.fmmu i)}"
  if sms.isEmpty && fs.isEmpty then "-" else joinWith "+" (sms ++ fs)

def errToken : Err → String
  | .capacity => "Capacity"
  | .sdo => "Sdo"
  | .notFoundFmmu => "NotFoundFmmu"
  | .pdiTooLong mx d => s!"TooLong.{mx}.{d}"
  | .intConv => "IntConv"

/-- ring indices of the members of a slot -/
def memberIdx (devs : List (Device × Nat)) (slot : Nat) : List Nat :=
  ((enumFrom 0 devs).filter fun x => x.2.2 == slot).map (·.1)

structure Acc where
  groups : List String := []
  /-- ring index -> device answer -/
  devs : List (Nat × String) := []
  dead : Bool := false

def stepGroup (m : Mode) (n : Net) (acc : Acc) (x : Nat × Nat) : Acc :=
  let slot := x.1
  let start := x.2
  let idx := memberIdx n.devices slot
  if acc.dead then
    { acc with groups := acc.groups ++ [s!"{slot}:{start}:skipped"], devs := acc.devs ++ idx.map fun k => (k, "x,x") }
  else
    match groupLayout m start (n.members slot) with
    | .panic _ =>
      { groups := acc.groups ++ [s!"{slot}:{start}:panic"], devs := acc.devs ++ idx.map fun k => (k, "x,x"), dead := true }
    | .err e =>
      { acc with groups := acc.groups ++ [s!"{slot}:{start}:err.{errToken e}"], devs := acc.devs ++ idx.map fun k => (k, "x,x") }
    | .ok g =>
      match checkLen (n.maxPdi slot) g with
      | .ok _ =>
        { acc with groups := acc.groups ++ [s!"{slot}:{start}:ok.{g.readLen}.{g.pdiLen}"],
                   devs := acc.devs ++ (idx.zip g.devs).map fun p =>
                     let st := p.2.2
                     (p.1, s!"{st.input.1}.{st.input.2}.{st.output.1}.{st.output.2},{showRegs st.regs}") }
      | .err e =>
        { acc with groups := acc.groups ++ [s!"{slot}:{start}:err.{errToken e}"],
                   devs := acc.devs ++ (idx.zip g.devs).map fun p => (p.1, s!"x,{showRegs p.2.2.regs}") }
      | .panic _ => acc

def handle (args : List String) : String :=
  match args with
  | [mode, maxs, devs] =>
    let m : Mode := if mode = "wrapping" then .wrapping else .checked
    let mx := (splitOn maxs ",").map nat!
    let n : Net := { devices := (splitOn devs "|").map parseDev, maxPdi := fun s => mx.getD s 0 }
    match initPhase m n with
    | .ok gs =>
      let acc := gs.foldl (stepGroup m n) {}
      let ds := (List.range n.devices.length).map fun k =>
        match acc.devs.find? (fun p => p.1 == k) with
        | some p => p.2
        | none => "?"
      joinWith ";" acc.groups ++ "|" ++ joinWith ";" ds
    | .err e => s!"init-err.{errToken e}"
    | .panic _ => "init-panic"
  | _ => "bad-case"

end Ec.Drv.C08
