//! Adaptive generator of sequential PDU-loop histories: every next operation is chosen by looking
//! at the handles the REAL run currently holds, so histories are mostly valid; knobs bias them
//! towards the region a property cares about.
use crate::rng::Rng;
use crate::seq::{H, World};
use crate::util::hex;

#[derive(Clone, Debug)]
pub struct Knobs {
    /// relative weights
    pub alloc: u64,
    pub push: u64,
    pub mark: u64,
    pub drop_created: u64,
    pub txnext: u64,
    pub txsend_fail: u64, // out of 10 sends
    pub rx_genuine: u64,
    pub rx_garbage: u64,
    /// out of 10 genuine deliveries: response made longer than the request (extra bytes declared in the
    /// EtherCAT length field, still fitting the slot)
    pub rx_longer: u64,
    pub poll: u64,
    pub drop_fut: u64,
    pub read: u64,
    pub advance: u64,
    pub reset: u64,
    pub snap_every_op: bool,
    pub max_retries: u64,
    pub timeout_us: u64,
}

impl Default for Knobs {
    fn default() -> Self {
        Knobs {
            alloc: 10, push: 12, mark: 10, drop_created: 1, txnext: 10, txsend_fail: 1, rx_genuine: 10,
            rx_garbage: 1, rx_longer: 2, poll: 10, drop_fut: 1, read: 10, advance: 1, reset: 0, snap_every_op: true,
            max_retries: 2, timeout_us: 1000,
        }
    }
}

pub const CMDS: [&str; 11] = ["nop", "aprd", "fprd", "brd", "frmw", "bwr", "apwr", "fpwr", "lrd", "lwr", "lrw"];

pub fn gen_cmd_str(rng: &mut Rng) -> String {
    let k = *rng.pick(&CMDS);
    match k {
        "nop" => "nop".into(),
        "lrd" | "lwr" | "lrw" => format!("{k}.{}", rng.edgy(0xffff_ffff)),
        _ => format!("{k}.{}.{}", rng.edgy(0xffff), rng.edgy(0xffff)),
    }
}

/// One transmitted frame as seen by the send closure, with what was pushed into it.
#[derive(Clone, Debug)]
pub struct SentFrame {
    pub bytes: Vec<u8>,
    pub slot: usize,
}

pub struct Gen {
    pub rng: Rng,
    pub w: World,
    pub ops: Vec<String>,
    pub outs: Vec<String>,
    pub sent: Vec<SentFrame>,
    /// (code, idx) of every datagram pushed through register r (for first_pdu handles)
    pub pushed: std::collections::BTreeMap<u32, Vec<(u8, u8)>>,
    pub knobs: Knobs,
    pub key: String,
    pub fi: u8,
    pub pi: u8,
}

/// Walk the datagrams of an EtherCAT frame: (offset of datagram header, data length).
pub fn dgrams(frame: &[u8]) -> Vec<(usize, usize)> {
    let mut v = Vec::new();
    let mut p = 16;
    while p + 12 <= frame.len() {
        let fl = u16::from_le_bytes([frame[p + 6], frame[p + 7]]);
        let len = (fl & 0x7ff) as usize;
        if p + 12 + len > frame.len() {
            break;
        }
        v.push((p, len));
        if fl & 0x8000 == 0 {
            break;
        }
        p += 12 + len;
    }
    v
}

/// The network's response to a transmitted frame: same layout, source MAC changed by the first
/// SubDevice, data and working counters chosen by `fill`.
pub fn response_for(frame: &[u8], rng: &mut Rng) -> Vec<u8> {
    let mut r = frame.to_vec();
    r[6] = 0x12;
    for (p, len) in dgrams(frame) {
        for b in &mut r[p + 10..p + 10 + len] {
            *b = rng.byte();
        }
        let wkc = rng.edgy(0xffff) as u16;
        r[p + 10 + len..p + 12 + len].copy_from_slice(&wkc.to_le_bytes());
    }
    r
}

impl Gen {
    pub fn new(key: &str, seed_rng: &mut Rng, n: usize, data: usize, knobs: Knobs) -> Gen {
        let fi = seed_rng.byte();
        let pi = seed_rng.byte();
        crate::clock::clear();
        Gen {
            rng: Rng(seed_rng.next()),
            w: World::new(n, data, fi, pi),
            ops: vec![],
            outs: vec![],
            sent: vec![],
            pushed: Default::default(),
            knobs,
            key: key.to_string(),
            fi,
            pi,
        }
    }

    pub fn line(&self) -> String {
        format!("{} {} {} {} {} {}", self.key, self.w.n, self.w.data, self.fi, self.pi, self.ops.join(";"))
    }

    pub fn out_line(&self) -> String {
        self.outs.join(";")
    }

    pub fn op(&mut self, op: String) -> String {
        let o = self.w.step(&op);
        // remember transmitted bytes
        if op.starts_with("ts,") {
            if let Some((tag, h)) = o.split_once('.') {
                if tag == "ok" && !h.is_empty() {
                    self.sent.push(SentFrame { bytes: crate::util::unhex(h), slot: 0 });
                }
            }
        }
        if op.starts_with("pu,") || op.starts_with("re,") {
            let r: u32 = op.split(',').nth(1).unwrap().parse().unwrap();
            let f: Vec<&str> = o.split('.').collect();
            if f[0] == "ok" {
                self.pushed.entry(r).or_default().push((f[3].parse().unwrap(), f[2].parse().unwrap()));
            } else if f[0] == "some" {
                self.pushed.entry(r).or_default().push((f[4].parse().unwrap(), f[3].parse().unwrap()));
            }
        }
        if op.starts_with("al,") {
            let r: u32 = op.split(',').nth(1).unwrap().parse().unwrap();
            self.pushed.remove(&r);
        }
        self.ops.push(op);
        self.outs.push(o.clone());
        o
    }

    pub fn snap(&mut self) -> String {
        self.op("sn".into())
    }

    fn regs_of(&self, pred: impl Fn(&H) -> bool) -> Vec<u32> {
        self.w.regs.iter().filter(|(_, h)| pred(h)).map(|(r, _)| *r).collect()
    }

    fn free_reg(&mut self) -> u32 {
        for r in 0..64 {
            if !self.w.regs.contains_key(&r) {
                return r;
            }
        }
        63
    }

    /// One random applicable operation. Returns false if nothing was applicable.
    pub fn random_step(&mut self) -> bool {
        let k = self.knobs.clone();
        let created = self.regs_of(|h| matches!(h, H::Created(_)));
        let futs = self.regs_of(|h| matches!(h, H::Fut(_)));
        let sendables = self.regs_of(|h| matches!(h, H::Sendable(_)));
        let received = self.regs_of(|h| matches!(h, H::Received(_)));
        let views = self.regs_of(|h| matches!(h, H::View(_)));
        let mut choices: Vec<(u64, u32)> = vec![];
        if self.w.regs.len() < 10 {
            choices.push((k.alloc, 0));
        }
        if !created.is_empty() {
            choices.push((k.push, 1));
            choices.push((k.mark, 2));
            choices.push((k.drop_created, 3));
        }
        choices.push((k.txnext, 4));
        if !sendables.is_empty() {
            choices.push((k.txnext * 2, 5));
        }
        if !self.sent.is_empty() {
            choices.push((k.rx_genuine, 6));
        }
        choices.push((k.rx_garbage, 7));
        if !futs.is_empty() {
            choices.push((k.poll, 8));
            choices.push((k.drop_fut, 9));
        }
        if !received.is_empty() {
            choices.push((k.read, 10));
        }
        if !views.is_empty() {
            choices.push((k.read, 11));
        }
        choices.push((k.advance, 12));
        if self.w.regs.is_empty() {
            choices.push((k.reset, 13));
        }
        let total: u64 = choices.iter().map(|c| c.0).sum();
        if total == 0 {
            return false;
        }
        let mut pick = self.rng.below(total);
        let mut what = 0;
        for (wgt, id) in choices {
            if pick < wgt {
                what = id;
                break;
            }
            pick -= wgt;
        }
        let room = self.w.data - 16;
        match what {
            0 => {
                let r = self.free_reg();
                self.op(format!("al,{r}"));
            }
            1 => {
                let r = *self.rng.pick(&created);
                let c = gen_cmd_str(&mut self.rng);
                if self.rng.chance(1, 4) {
                    let n = self.rng.edgy(room as u64 + 4) as usize;
                    let d = self.rng.bytes(n);
                    self.op(format!("re,{r},{c},{}", hex(&d)));
                } else {
                    let n = if self.rng.chance(1, 6) { self.rng.edgy(room as u64 + 4) } else { self.rng.range(0, (room as u64 / 3).max(1)) } as usize;
                    let d = self.rng.bytes(n);
                    let lo = match self.rng.below(4) {
                        0 => format!("{}", self.rng.edgy(n as u64 + 6)),
                        _ => "-".to_string(),
                    };
                    self.op(format!("pu,{r},{c},{},{lo}", hex(&d)));
                }
            }
            2 => {
                let r = *self.rng.pick(&created);
                let retries = self.rng.range(0, k.max_retries);
                self.op(format!("mk,{r},{retries},{}", k.timeout_us));
            }
            3 => {
                let r = *self.rng.pick(&created);
                self.op(format!("dc,{r}"));
            }
            4 => {
                let r = self.free_reg();
                self.op(format!("tn,{r}"));
            }
            5 => {
                let r = *self.rng.pick(&sendables);
                let o = if self.rng.below(10) < k.txsend_fail { self.rng.range(1, 2) } else { 0 };
                self.op(format!("ts,{r},{o}"));
            }
            6 => {
                let i = self.rng.below(self.sent.len() as u64) as usize;
                let f = if self.rng.chance(4, 5) { self.sent.remove(i) } else { self.sent[i].clone() };
                let mut resp = response_for(&f.bytes, &mut self.rng);
                if self.rng.below(10) < k.rx_longer && resp.len() >= 16 && resp.len() < self.w.data {
                    // a response longer than its request: more payload declared and present
                    let extra = self.rng.range(1, (self.w.data - resp.len()) as u64) as usize;
                    let h = u16::from_le_bytes([resp[14], resp[15]]);
                    let l = (h & 0x7ff) as usize + extra;
                    if l <= 0x7ff {
                        resp[14..16].copy_from_slice(&((h & 0xf800) | l as u16).to_le_bytes());
                        let tail = self.rng.bytes(extra);
                        resp.extend(tail.iter().map(|b| b | 1));
                    }
                }
                self.op(format!("rx,{}", hex(&resp)));
            }
            7 => {
                let n = self.rng.edgy(40) as usize;
                let mut g = self.rng.bytes(n);
                if n >= 14 && self.rng.chance(1, 2) {
                    g[12] = 0x88;
                    g[13] = 0xa4;
                }
                self.op(format!("rx,{}", hex(&g)));
            }
            8 => {
                let r = *self.rng.pick(&futs);
                self.op(format!("po,{r}"));
            }
            9 => {
                let r = *self.rng.pick(&futs);
                self.op(format!("df,{r}"));
            }
            10 => {
                let r = *self.rng.pick(&received);
                match self.rng.below(4) {
                    0 => {
                        self.op(format!("dr,{r}"));
                    }
                    1 => {
                        self.op(format!("it,{r},6"));
                    }
                    _ => {
                        // mostly the right handle, sometimes a wrong one
                        let (mut code, mut idx) = self.pushed.get(&r).and_then(|v| v.first().copied()).unwrap_or((0, 0));
                        if self.rng.chance(1, 8) {
                            code = self.rng.below(15) as u8;
                        }
                        if self.rng.chance(1, 8) {
                            idx = self.rng.byte();
                        }
                        self.op(format!("fp,{r},{code},{idx}"));
                    }
                }
            }
            11 => {
                let r = *self.rng.pick(&views);
                match self.rng.below(4) {
                    0 => {
                        self.op(format!("dv,{r}"));
                    }
                    1 => {
                        let kk = self.rng.edgy(12);
                        self.op(format!("vt,{r},{kk}"));
                    }
                    _ => {
                        self.op(format!("vr,{r}"));
                    }
                }
            }
            12 => {
                let us = if self.rng.chance(1, 2) { k.timeout_us + 1 } else { self.rng.range(1, k.timeout_us) };
                self.op(format!("ad,{us}"));
            }
            _ => {
                self.op("rs".into());
            }
        }
        if k.snap_every_op {
            self.snap();
        }
        true
    }

    /// Drop every handle still held (in register order), as the end of a history.
    pub fn drain(&mut self) {
        let regs: Vec<(u32, u8)> = self
            .w
            .regs
            .iter()
            .map(|(r, h)| {
                (*r, match h {
                    H::Created(_) => 0,
                    H::Fut(_) => 1,
                    H::Sendable(_) => 2,
                    H::Received(_) => 3,
                    H::View(_) => 4,
                })
            })
            .collect();
        for (r, kind) in regs {
            match kind {
                0 => self.op(format!("dc,{r}")),
                1 => self.op(format!("df,{r}")),
                2 => self.op(format!("ts,{r},0")),
                3 => self.op(format!("dr,{r}")),
                _ => self.op(format!("dv,{r}")),
            };
        }
    }
}
