//! C06 "never hanging": a request whose response never arrives must resolve to a timeout after its
//! retry budget, whatever keeps the frame from being (re)transmitted: the TX side failing every
//! send, not running at all, or an oversize response leaving the slot in RxBusy. Directed sequential
//! plans (driver `drv_seq`); the monitor counts expired deadlines.
use ecverif::rng::Rng;
use ecverif::util::{Report, hex};

fn plan(rng: &mut Rng, retries: u64, fault: u32, data: usize) -> (String, usize) {
    // returns (ops, index of the poll that must report the timeout)
    let mut ops: Vec<String> = vec!["al,0".into(), format!("pu,0,fprd.4096.304,-,{}", rng.range(0, 4)), format!("mk,0,{retries},1000"), "po,0".into()];
    let mut must_timeout_at = 0;
    for round in 0..(retries + 3) {
        match fault {
            // TX claims and fails every send (partial / error)
            0 => {
                ops.push("tn,9".into());
                ops.push(format!("ts,9,{}", 1 + rng.below(2)));
            }
            // TX never runs
            1 => {}
            // first round: sent, then an oversize response leaves the slot in RxBusy
            2 => {
                if round == 0 {
                    ops.push("tn,9".into());
                    ops.push("ts,9,0".into());
                    ops.push("rx,@oversize".into());
                }
            }
            // TX sends fine, every response is lost
            _ => {
                ops.push("tn,9".into());
                ops.push("ts,9,0".into());
            }
        }
        ops.push("ad,1001".into());
        ops.push("po,0".into());
        if round == retries {
            must_timeout_at = ops.len() - 1;
        }
    }
    ops.push("df,0".into());
    ops.push("sn".into());
    let _ = data;
    (ops.join(";"), must_timeout_at)
}

fn run_case(rng: &mut Rng, rep: &mut Report) {
    let retries = rng.range(0, 3);
    let fault = rng.below(4) as u32;
    let data = rng.range(30, 60) as usize;
    let n = *rng.pick(&[1usize, 2]);
    let (ops, idx) = plan(rng, retries, fault, data);
    // resolve the oversize response against this case's index counter: first datagram index = pi
    let pi = rng.byte();
    let mut over = vec![0xff; 6];
    over.extend([0x12, 0x10, 0x10, 0x10, 0x10, 0x10, 0x88, 0xa4]);
    let l = (data - 16 + 3) as u16;
    over.extend((l | 0x1000).to_le_bytes());
    over.extend([4, pi]);
    over.extend(vec![0x55u8; l as usize - 2]);
    let ops = ops.replace("rx,@oversize", &format!("rx,{}", hex(&over)));
    let line = format!("c06h {n} {data} {} {pi} {ops}", rng.byte());
    let (out, _w) = ecverif::seq::run_line(&line);
    let outs: Vec<&str> = out.split(';').collect();
    rep.hit(&format!("fault={fault}"));
    rep.hit(&format!("retries={retries}"));
    let got = outs.get(idx).copied().unwrap_or("?");
    if got != "ready.err.timeout" {
        // where did it resolve, if at all?
        let resolved = outs.iter().position(|o| o.starts_with("ready."));
        rep.fail(
            "c06h/no-timeout-after-budget",
            &format!("request with {retries} retries and fault {fault} had answered {got} at the poll after deadline {} (resolved at op {:?})", retries + 1, resolved),
            &line,
        );
    }
    for (i, o) in outs.iter().enumerate() {
        if i < idx && o.starts_with("ready.") {
            rep.fail("c06h/resolved-early", &format!("request resolved ({o}) before its retry budget was used"), &line);
        }
        if *o == "panic" {
            rep.fail("c06h/panic", "an operation panicked", &line);
        }
    }
    if retries > 0 {
        rep.nontrivial.insert(line.clone());
    }
    rep.case(line, out);
}

fn main() {
    let args = ecverif::parse_args();
    let mut rep = Report::default();
    if let Some(cases) = ecverif::replay_cases(&args) {
        for c in cases.iter().filter(|c| c.starts_with("c06h ")) {
            let (out, _w) = ecverif::seq::run_line(c);
            rep.case(c.clone(), out);
        }
    } else {
        let mut rng = Rng::new(args.seed ^ 0xc06b);
        let cases = if args.tier == "thorough" { 20000 } else { 2000 };
        for _ in 0..cases {
            run_case(&mut rng, &mut rep);
        }
    }
    rep.write(&args.out, "c06h");
}
