/-
  C15 helper lemmas: what the specification server answers to the requests the client sends.
-/
import EcModel.Lemmas.CoeUpload

namespace Ec.Coe
open Ec Ec.Gen.Coe Ec.CoeSrv

theorem server_eta (srv : Server) (he : srv.emergencies = []) :
    { srv with counter := srv.counter, emergencies := [] } = srv := by
  cases srv
  simp_all

/-- The upload request as it lies in the IN mailbox. -/
theorem uploadRequest_image (wmbx ctr index : Nat) (access : SubIndex) (hw : 12 ≤ wmbx) :
    image wmbx (uploadRequest ctr index access) =
      10 :: 0 :: 0 :: 0 :: 0 :: (3 + 16 * (ctr % 8)) :: 0 :: 32 ::
        (sdoByte false false 0 access.completeAccess cmdUpload) :: (index % 256) :: (index / 256 % 256) ::
        (access.subIndex % 256) :: zeros (wmbx - 12) := by
  have hl : (uploadRequest ctr index access).length = 12 := by
    simp [uploadRequest, packMailboxHeader]
  rw [image_of_le _ _ (by rw [hl]; exact hw), hl]
  simp [uploadRequest, packMailboxHeader, REQ_LEN_upload, mbxCoe_eq, svcSdoRequest_eq]

theorem sdoByte_upload (c : Bool) :
    sdoByte false false 0 c cmdUpload / 32 % 8 = 2 ∧ (sdoByte false false 0 c cmdUpload / 16 % 2 == 1) = c := by
  cases c <;> decide

/-- The server's answer to an SDO Upload Request (no emergency pending): one message, produced by `Server.upload`
    with the next counter value. -/
theorem serve_upload (srv : Server) (wmbx ctr index : Nat) (access : SubIndex) (hw : 12 ≤ wmbx) (hi : index < 65536)
    (hs : access.subIndex < 256) (he : srv.emergencies = []) :
    serve srv (image wmbx (uploadRequest ctr index access)) =
      ((srv.upload (nextCtr srv.counter) index access.subIndex access.completeAccess).1,
       [(srv.upload (nextCtr srv.counter) index access.subIndex access.completeAccess).2]) := by
  rw [uploadRequest_image _ _ _ _ hw]
  unfold serve
  have hlen : ¬ (10 :: 0 :: 0 :: 0 :: 0 :: (3 + 16 * (ctr % 8)) :: 0 :: 32 ::
      (sdoByte false false 0 access.completeAccess cmdUpload) :: (index % 256) :: (index / 256 % 256) ::
      (access.subIndex % 256) :: zeros (wmbx - 12)).length < 12 := by simp
  rw [if_neg hlen]
  have h5 : ((3 + 16 * (ctr % 8)) % 16 != 3) = false := by
    have : (3 + 16 * (ctr % 8)) % 16 = 3 := by omega
    simp [this]
  have hb := sdoByte_upload access.completeAccess
  simp only [List.getD_cons_zero, List.getD_cons_succ, h5, Bool.false_or, show ((32 : Nat) / 16 != 2) = false from rfl,
    Bool.false_eq_true, if_false, he, emitEmergencies, List.nil_append, hb.1, hb.2, beq_self_eq_true, if_true,
    le16_index index hi, Nat.mod_eq_of_lt hs, server_eta srv he]

/-- Auto mode, object of 1..4 bytes: expedited response. -/
theorem upload_expedited (srv : Server) (c index sub : Nat) (complete : Bool) (obj : List Nat)
    (hobj : srv.objectBytes index sub complete = .ok obj) (hmode : srv.mode = .auto) (h1 : 1 ≤ obj.length)
    (h4 : obj.length ≤ 4) :
    srv.upload c index sub complete =
      ({ srv with counter := c, seg := none }, expeditedResponse c index sub complete obj) := by
  unfold Server.upload
  rw [hobj]
  simp [hmode, h1, h4]

/-- Auto (object of 0 or more than 4 bytes) or normal mode, object fits the mailbox: normal response with all of it. -/
theorem upload_normal (srv : Server) (c index sub : Nat) (complete : Bool) (obj : List Nat)
    (hobj : srv.objectBytes index sub complete = .ok obj)
    (hmode : srv.mode = .normal ∨ (srv.mode = .auto ∧ (obj.length = 0 ∨ 4 < obj.length)))
    (hfit : obj.length + 16 ≤ srv.rmbx) :
    srv.upload c index sub complete =
      ({ srv with counter := c, seg := none }, normalResponse c index sub complete obj.length obj) := by
  unfold Server.upload
  rw [hobj]
  have hroom : min obj.length srv.normalRoom = obj.length := by
    unfold Server.normalRoom; omega
  rcases hmode with hm | ⟨hm, hn⟩
  · simp [hm, hroom]
  · have hne : ¬ (1 ≤ obj.length ∧ obj.length ≤ 4) := by omega
    simp [hm, hroom, hne]

/-- An entry with a scripted abort code: Abort SDO Transfer. -/
theorem upload_abort (srv : Server) (c index sub : Nat) (complete : Bool) (code : Nat)
    (hobj : srv.objectBytes index sub complete = .error code) :
    srv.upload c index sub complete = ({ srv with counter := c, seg := none }, abortMessage c index sub code) := by
  unfold Server.upload
  rw [hobj]

/-- Whatever the mode: when the answer is not expedited, it is a normal response announcing the object's size and
    carrying a first part that fits the mailbox. -/
theorem upload_initiate (srv : Server) (c index sub : Nat) (complete : Bool) (obj : List Nat)
    (hobj : srv.objectBytes index sub complete = .ok obj)
    (hne : ¬ (srv.mode = .auto ∧ 1 ≤ obj.length ∧ obj.length ≤ 4)) :
    ∃ first seg, first ≤ srv.normalRoom ∧
      srv.upload c index sub complete =
        ({ srv with counter := c, seg := seg }, normalResponse c index sub complete obj.length (obj.take first)) := by
  unfold Server.upload
  rw [hobj]
  have hc : (srv.mode == UploadMode.auto && decide (1 ≤ obj.length) && decide (obj.length ≤ 4)) = false := by
    cases hm : srv.mode with
    | auto =>
      have : ¬ (1 ≤ obj.length ∧ obj.length ≤ 4) := fun h => hne ⟨hm, h⟩
      by_cases h1 : 1 ≤ obj.length <;> by_cases h4 : obj.length ≤ 4 <;> simp_all
    | normal => rfl
    | segmented f sz => rfl
  simp only [hc, Bool.false_eq_true, if_false]
  refine ⟨_, _, ?_, rfl⟩
  cases srv.mode with
  | auto => exact Nat.min_le_right _ _
  | normal => exact Nat.min_le_right _ _
  | segmented f sz =>
    dsimp only
    split
    · exact Nat.le_trans (Nat.min_le_left _ _) (Nat.min_le_right _ _)
    · exact Nat.min_le_right _ _

end Ec.Coe
