/- Line protocol for C04: `c04 <cap> <idx0> <op>;<op>;...` -> `<results>|<hex of as_bytes>` -/
import EcModel.Frame
import EcModel.Drv.Util

namespace Ec.Drv.C04
open Ec Ec.Drv

def parseCmd (s : String) : Option Cmd :=
  match splitOn s "." with
  | ["nop"] => some .nop
  | ["aprd", a, r] => some (.aprd (nat! a) (nat! r))
  | ["fprd", a, r] => some (.fprd (nat! a) (nat! r))
  | ["brd", a, r] => some (.brd (nat! a) (nat! r))
  | ["frmw", a, r] => some (.frmw (nat! a) (nat! r))
  | ["bwr", a, r] => some (.bwr (nat! a) (nat! r))
  | ["apwr", a, r] => some (.apwr (nat! a) (nat! r))
  | ["fpwr", a, r] => some (.fpwr (nat! a) (nat! r))
  | ["aprdpos", p, r] => some (Cmd.mkAprd (nat! p) (nat! r))
  | ["apwrpos", p, r] => some (Cmd.mkApwr (nat! p) (nat! r))
  | ["lrd", a] => some (.lrd (nat! a))
  | ["lwr", a] => some (.lwr (nat! a))
  | ["lrw", a] => some (.lrw (nat! a))
  | _ => none

def showHandle (h : Handle) : String :=
  s!"{h.indexInFrame}.{h.pduIdx}.{h.code}.{h.allocSize}"

/-- state: frame, next index, results (reversed) -/
def stepOp (st : CFrame × Nat × List String) (op : String) : CFrame × Nat × List String :=
  let (f, idx, res) := st
  match splitOn op "," with
  | ["p", c, d, l] =>
    match parseCmd c with
    | some cmd =>
      let r := f.pushPdu cmd (hex! d) (optNat l) idx
      let out := match r.2 with
        | some h => "ok." ++ showHandle h
        | none => "toolong"
      (r.1, (idx + 1) % 256, out :: res)
    | none => (f, idx, "bad-op" :: res)
  | ["r", c, d] =>
    match parseCmd c with
    | some cmd =>
      let r := f.pushRest cmd (hex! d) idx
      let out := match r.2.1 with
        | .some k h => s!"some.{k}." ++ showHandle h
        | .none => "none"
        | .tooLong => "toolong"
      (r.1, if r.2.2 then (idx + 1) % 256 else idx, out :: res)
    | none => (f, idx, "bad-op" :: res)
  | ["q", n] => (f, idx, (if f.canPush (nat! n) then "can.1" else "can.0") :: res)
  | _ => (f, idx, "bad-op" :: res)

def handle (args : List String) : String :=
  match args with
  | [cap, idx0, ops] =>
    let st := (splitOn ops ";").foldl stepOp (CFrame.init (nat! cap), nat! idx0, [])
    let f := st.1.markSendable
    joinWith ";" st.2.2.reverse ++ "|" ++ hexBytes f.asBytes
  | _ => "bad-case"

end Ec.Drv.C04
