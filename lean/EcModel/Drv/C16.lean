/- Line protocol for C16: see Drv/Coe.lean (scripted device: arbitrary reply bytes). -/
import EcModel.Drv.Coe

namespace Ec.Drv.C16

def handle (args : List String) : String := Ec.Drv.Coe.handle args

end Ec.Drv.C16
