/- Helper lemmas about the abstract segment (`EcModel.Net`): who executes what. -/
import EcModel.Net

namespace Ec.Net

theorem filter_range_aux (P : Nat → Bool) (i : Nat) :
    ∀ n, (∀ p, p < n → (P p = true ↔ p = i)) →
      (List.range n).filter P = if i < n then [i] else [] := by
  intro n
  induction n with
  | zero => intro _; simp
  | succ n ih =>
    intro h
    have ih' := ih (fun p hp => h p (Nat.lt_succ_of_lt hp))
    rw [List.range_succ, List.filter_append, ih']
    have hn := h n (Nat.lt_succ_self n)
    by_cases hin : i < n
    · have : P n = false := by
        cases hP : P n with
        | false => rfl
        | true => have := hn.1 hP; omega
      simp [hin, this, Nat.lt_succ_of_lt hin]
    · by_cases heq : n = i
      · have : P n = true := hn.2 heq
        subst heq
        simp [this]
      · have : P n = false := by
          cases hP : P n with
          | false => rfl
          | true => exact absurd (hn.1 hP) heq
        have h2 : ¬ i < n + 1 := by omega
        simp [hin, this, h2]

/-- If exactly position `i` satisfies `P` below `n`, filtering the positions leaves `[i]`. -/
theorem filter_range_singleton (P : Nat → Bool) (n i : Nat) (hi : i < n)
    (h : ∀ p, p < n → (P p = true ↔ p = i)) : (List.range n).filter P = [i] := by
  rw [filter_range_aux P i n h]; simp [hi]

theorem apAddr_lt (idx : Nat) : apAddr idx < 65536 := by
  unfold apAddr; omega

/-- Auto-increment addressing reaches exactly the device at the position asked for, as long as the
    ring is not longer than the 16-bit address space. -/
theorem apExecutors_single (idx n : Nat) (hi : idx < n) (hn : n ≤ 65536) :
    apExecutors (apAddr idx) n = [idx] := by
  unfold apExecutors
  apply filter_range_singleton _ n idx hi
  intro p hp
  unfold apAddr
  simp only [beq_iff_eq]
  omega

theorem wkc_single (i : Nat) : wkc [i] = 1 := by simp [wkc]

theorem wkc_bExecutors (n : Nat) (h : n ≤ 65535) : wkc (bExecutors n) = n := by
  simp [wkc, bExecutors]; omega

theorem writeAt_length {α : Type} (ex : List Nat) (v : α) (col : List α) :
    (writeAt ex v col).length = col.length := by
  simp [writeAt]

theorem writeAt_getElem? {α : Type} (ex : List Nat) (v : α) (col : List α) (p : Nat) :
    (writeAt ex v col)[p]? = if p ∈ ex then col[p]?.map (fun _ => v) else col[p]? := by
  unfold writeAt
  rw [List.getElem?_mapIdx]
  cases h : col[p]? with
  | none => simp
  | some x =>
    by_cases hc : p ∈ ex
    · simp [hc]
    · simp [hc]

theorem mem_writeAt {α : Type} (ex : List Nat) (v : α) (col : List α) (x : α)
    (h : x ∈ writeAt ex v col) : x = v ∨ x ∈ col := by
  rw [List.mem_iff_getElem?] at h
  obtain ⟨p, hp⟩ := h
  rw [writeAt_getElem?] at hp
  by_cases hc : p ∈ ex
  · rw [if_pos hc] at hp
    cases hcol : col[p]? with
    | none => rw [hcol] at hp; simp at hp
    | some y => rw [hcol] at hp; simp at hp; exact Or.inl hp.symm
  · rw [if_neg hc] at hp
    exact Or.inr (List.mem_of_getElem? hp)

/-- A broadcast write of `v` makes the whole column `v`. -/
theorem writeAt_broadcast {α : Type} (v : α) (col : List α) :
    writeAt (bExecutors col.length) v col = List.replicate col.length v := by
  apply List.ext_getElem?
  intro p
  rw [writeAt_getElem?]
  by_cases hp : p < col.length
  · have hm : p ∈ bExecutors col.length := by simp [bExecutors, hp]
    rw [if_pos hm]
    simp [hp, List.getElem?_replicate]
  · have hm : ¬ p ∈ bExecutors col.length := by simp [bExecutors]; omega
    rw [if_neg hm]
    have h1 : col[p]? = none := by simp; omega
    simp [h1, List.getElem?_replicate, hp]

end Ec.Net
