/-
  EcModel.EepromSpec — the specification side of the EEPROM properties: what memory should look like after a
  write, and how a device description is laid out in an SII image (ETG2010 / ETG1000.6 §5.4), written
  independently of the parser model in `EcModel.Eeprom`. Import-free apart from Basic/Generated.
-/
import EcModel.Basic
import EcModel.Generated.Eeprom

namespace Ec.EepromSpec
open Ec

/-- Memory after storing the bytes `bs` at byte address `a`; every other byte keeps its value. -/
def storeAt (rd : Nat → Nat) (a : Nat) (bs : List Nat) : Nat → Nat :=
  fun x => if a ≤ x ∧ x < a + bs.length then bs.getD (x - a) 0 else rd x

/-- A byte string padded with one zero byte when its length is odd. -/
def padEven (bs : List Nat) : List Nat := if bs.length % 2 = 1 then bs ++ [0] else bs

/-- The `(word address, low byte, high byte)` triples of an (even-length) byte string stored from word `w`. -/
def wordsAt (w : Nat) : List Nat → List (Nat × Nat × Nat)
  | b0 :: b1 :: rest => (w, b0, b1) :: wordsAt (w + 1) rest
  | _ => []

theorem padEven_length_even (bs : List Nat) : (padEven bs).length % 2 = 0 := by
  unfold padEven; split
  · simp; omega
  · omega

/-! ### CRC-8 as polynomial division over GF(2)

  A natural number stands for the polynomial whose coefficients are its binary digits; addition of polynomials
  is `^^^`, multiplication by `x^k` is multiplication by `2^k`. -/

/-- Carry-less product with explicit fuel (structural, so the kernel can evaluate it). -/
def clmulF : Nat → Nat → Nat → Nat
  | 0, _, _ => 0
  | f + 1, q, g => (if q % 2 = 1 then g else 0) ^^^ 2 * clmulF f (q / 2) g

/-- Product of the polynomials `q` and `g` over GF(2). -/
def clmul (q g : Nat) : Nat := clmulF q q g

/-- The generator `x^8 + x^2 + x + 1` (width and low coefficients come from `ECAT_CRC_ALGORITHM` in /repo). -/
def crcG : Nat := 2 ^ Gen.Eeprom.CRC_WIDTH + Gen.Eeprom.CRC_POLY

/-- The message as a polynomial: first byte most significant, each byte MSB first (no reflection). -/
def msgPoly (bytes : List Nat) : Nat := bytes.foldl (fun a b => a * 256 + b) 0

/-! ### SII image layout (ETG2010 Table 2, ETG1000.6 §5.4) -/

/-- One category: raw type word and body. -/
structure Cat where
  type : Nat
  body : List Nat
  deriving Repr

/-- Type word, length in words, body. -/
def encCat (c : Cat) : List Nat := le16 c.type ++ le16 (c.body.length / 2) ++ c.body

def encCats : List Cat → List Nat
  | [] => []
  | c :: cs => encCat c ++ encCats cs

/-- A whole image: 128 bytes of fixed header (word addresses 0x00..0x3F), the categories in the order given,
    the End marker 0xFFFF. -/
def encodeSii (hdr : List Nat) (cats : List Cat) : List Nat := hdr ++ encCats cats ++ [0xff, 0xff]

/-- Device memory holding an image; bytes past it read as `fill`. -/
def imgRd (img : List Nat) (fill : Nat) : Nat → Nat := fun a => img.getD a fill

/-- Number of zero-length categories in a list (the parser gives up after 32 of them). -/
def empties : List Cat → Nat
  | [] => 0
  | c :: cs => (if c.body.length / 2 = 0 then 1 else 0) + empties cs

/-- A category as ETG2010 allows it: 16-bit type, even body shorter than 2^17 bytes. -/
def Cat.WF (c : Cat) : Prop := c.type < 65536 ∧ c.body.length % 2 = 0 ∧ c.body.length / 2 < 65536

instance (c : Cat) : Decidable c.WF := by unfold Cat.WF; infer_instance

/-- Sync manager as described in the image. -/
structure SmDesc where
  start : Nat
  len : Nat
  control : Nat
  status : Nat
  enable : Nat
  usage : Nat
  deriving Repr

/-- ETG2010 Table 11: start, length, control, status (don't care), enable, type. -/
def encSm (s : SmDesc) : List Nat := le16 s.start ++ le16 s.len ++ [s.control, s.status, s.enable, s.usage]

def SmDesc.WF (s : SmDesc) : Prop :=
  s.start < 65536 ∧ s.len < 65536 ∧ s.control < 256 ∧ s.status < 256 ∧ s.enable ≤ 15 ∧ s.usage ≤ 4

/-- Strings category body: count, then (length, bytes) per string. -/
def encStrings (ss : List (List Nat)) : List Nat :=
  ss.length :: (ss.flatMap fun s => s.length :: s)

/-- The fixed header fields ethercrab reads: identity at word 8, mailbox at word 0x18, size at word 0x3E. -/
def Header (hdr : List Nat) : Prop := hdr.length = 128

/-! ### TxPDO / RxPDO categories (ETG2010 Table 14 "Structure Category TXPDO and RXPDO for each PDO") -/

/-- One PDO entry as described in the image: object index, sub-index, index of its name in the Strings
    category, data type, bit length, flags. -/
structure PdoEntryDesc where
  index : Nat
  subIndex : Nat
  nameIdx : Nat
  dataType : Nat
  bitLen : Nat
  flags : Nat
  deriving Repr

/-- ETG2010 Table 14, entry part (8 bytes): index (word), sub-index, name string index, data type, bit length,
    flags (word). -/
def encPdoEntry (e : PdoEntryDesc) : List Nat :=
  le16 e.index ++ [e.subIndex, e.nameIdx, e.dataType, e.bitLen] ++ le16 e.flags

def PdoEntryDesc.WF (e : PdoEntryDesc) : Prop :=
  e.index < 65536 ∧ e.subIndex < 256 ∧ e.nameIdx < 256 ∧ e.dataType < 256 ∧ e.bitLen < 256 ∧ e.flags < 65536

instance (e : PdoEntryDesc) : Decidable e.WF := by unfold PdoEntryDesc.WF; infer_instance

/-- One PDO as described in the image: PDO index, sync manager, DC synchronisation byte, index of its name in
    the Strings category, flags, and its entries (their number is the `nEntry` byte of the encoding). -/
structure PdoDesc where
  index : Nat
  sm : Nat
  dcSync : Nat
  nameIdx : Nat
  flags : Nat
  entries : List PdoEntryDesc
  deriving Repr

/-- ETG2010 Table 14, PDO part (8 bytes): index (word), number of entries, sync manager, synchronisation, name
    string index, flags (word). -/
def encPdoHdr (d : PdoDesc) : List Nat :=
  le16 d.index ++ [d.entries.length, d.sm, d.dcSync, d.nameIdx] ++ le16 d.flags

/-- A PDO: its 8-byte header followed by 8 bytes per entry. -/
def encPdo (d : PdoDesc) : List Nat := encPdoHdr d ++ d.entries.flatMap encPdoEntry

/-- Every field fits its width (the entry count is one byte: at most 255 entries) and every entry is
    well-formed. -/
def PdoDesc.WF (d : PdoDesc) : Prop :=
  d.index < 65536 ∧ d.entries.length < 256 ∧ d.sm < 256 ∧ d.dcSync < 256 ∧ d.nameIdx < 256 ∧ d.flags < 65536 ∧
  ∀ e ∈ d.entries, e.WF

instance (d : PdoDesc) : Decidable d.WF := by unfold PdoDesc.WF; infer_instance

/-- What a PDO carries once read: the sum of its entries' bit lengths. -/
def PdoDesc.bitLen (d : PdoDesc) : Nat := (d.entries.map fun e => e.bitLen).sum

/-! ### General category (ETG2010 Table 7 / ETG1000.6 Table 21) -/

/-- The General category as described in the image. `foe`/`eoe` are the raw enable bytes (non-zero = enabled),
    `ebusCurrent` the `i16` as its two's complement `u16`, `port0..3` the four 4-bit physical port kinds,
    `tail` whatever follows the 18 bytes ethercrab reads (ETG2010: 14 reserved bytes). -/
structure GeneralDesc where
  groupIdx : Nat
  imageIdx : Nat
  orderIdx : Nat
  nameIdx : Nat
  reserved4 : Nat
  coeDetails : Nat
  foe : Nat
  eoe : Nat
  soeChannels : Nat
  ds402Channels : Nat
  sysmanClass : Nat
  flags : Nat
  ebusCurrent : Nat
  port0 : Nat
  port1 : Nat
  port2 : Nat
  port3 : Nat
  physAddr : Nat
  tail : List Nat
  deriving Repr

/-- Byte 0 group, 1 image, 2 order, 3 name string index, 4 reserved, 5 CoE details, 6 FoE details, 7 EoE details,
    8 SoE channels, 9 DS402 channels, 10 SysmanClass, 11 flags, 12..13 EBus current, 14..15 physical ports (four
    nibbles, port 0 lowest), 16..17 physical memory address, then the reserved tail. -/
def encGeneral (g : GeneralDesc) : List Nat :=
  [g.groupIdx, g.imageIdx, g.orderIdx, g.nameIdx, g.reserved4, g.coeDetails, g.foe, g.eoe,
   g.soeChannels, g.ds402Channels, g.sysmanClass, g.flags]
  ++ le16 g.ebusCurrent ++ [g.port0 + 16 * g.port1, g.port2 + 16 * g.port3] ++ le16 g.physAddr ++ g.tail

/-- Every field fits its width; only the six defined CoE-detail bits and the five defined flag bits are used;
    the category is a whole number of words. -/
def GeneralDesc.WF (g : GeneralDesc) : Prop :=
  g.groupIdx < 256 ∧ g.imageIdx < 256 ∧ g.orderIdx < 256 ∧ g.nameIdx < 256 ∧ g.reserved4 < 256 ∧
  g.coeDetails ≤ 63 ∧ g.foe < 256 ∧ g.eoe < 256 ∧ g.soeChannels < 256 ∧ g.ds402Channels < 256 ∧
  g.sysmanClass < 256 ∧ g.flags ≤ 31 ∧ g.ebusCurrent < 65536 ∧
  g.port0 < 16 ∧ g.port1 < 16 ∧ g.port2 < 16 ∧ g.port3 < 16 ∧ g.physAddr < 65536 ∧ g.tail.length % 2 = 0

instance (g : GeneralDesc) : Decidable g.WF := by unfold GeneralDesc.WF; infer_instance

/-- Physical port kind as ETG1000.6 Table 21 defines it: 0 unused, 1 MII, 2 reserved, 3 EBUS, 4 fast hot
    connect; the undefined values 5..15 are treated as unused. -/
def portKind (v : Nat) : Nat := if v ≤ 4 then v else 0

end Ec.EepromSpec
